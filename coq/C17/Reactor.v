(* C17 -- the reactor layer: table / kernel coherence under descriptor-number reuse (model: C17/ReactorDefs.v) *)
From CppcmsV Require Import Base.Tac C17.ReactorDefs.
Import ListNotations. Local Open Scope Z_scope.

(* ---------- small map / set facts ---------- *)
Lemma zget_zput : forall m k v k2, zget (zput m k v) k2 = if Z.eqb k k2 then v else zget m k2.
Proof. intros. reflexivity. Qed.

Lemma zmem_cons : forall l a x, zmem (a :: l) x = Z.eqb x a || zmem l x.
Proof. intros. reflexivity. Qed.

Lemma zmem_zdel : forall l k x, zmem (zdel l k) x = zmem l x && negb (Z.eqb x k).
Proof.
  unfold zmem, zdel.
  induction l as [|a l IH]; intros k x; simpl; [reflexivity|].
  destruct (Z.eqb_spec a k) as [E|E]; simpl; rewrite IH.
  - subst a. destruct (Z.eqb_spec x k); simpl; [ rewrite andb_false_r; reflexivity | reflexivity ].
  - destruct (Z.eqb_spec x a) as [E2|E2]; simpl; [|reflexivity].
    subst x. destruct (Z.eqb_spec a k); [contradiction| reflexivity].
Qed.

Lemma lowest_free_ge : forall fuel l n, n <= lowest_free fuel l n.
Proof.
  induction fuel as [|k IH]; intros l n; simpl; [lia|].
  destruct (zmem l n); [ specialize (IH l (n+1)); lia | lia ].
Qed.

(* ---------- r_select: frame facts ---------- *)
Ltac brk := repeat match goal with
  | |- context[if ?c then _ else _] => destruct c eqn:?; simpl
  end.

Lemma rsel_frame : forall st fd fl s,
  be (r_select st fd fl s) = be s /\ opened (r_select st fd fl s) = opened s /\ pend (r_select st fd fl s) = pend s.
Proof.
  intros. unfold r_select, ctl_add, ctl_mod, ctl_del.
  destruct (fd <? 0); simpl; [auto|].
  destruct (be s); simpl; auto.
  brk; auto.
Qed.

Lemma rsel_neg : forall st fd fl s, fd < 0 ->
  kreg (r_select st fd fl s) = kreg s /\ cache (r_select st fd fl s) = cache s.
Proof.
  intros. unfold r_select. destruct (Z.ltb_spec fd 0); [simpl; auto| lia].
Qed.

Lemma rsel_cache : forall fd fl s, 0 <= fd -> cache (r_select false fd fl s) = zput (cache s) fd fl.
Proof.
  intros. unfold r_select, ctl_add, ctl_mod, ctl_del.
  destruct (Z.ltb_spec fd 0); [lia|].
  destruct (be s); simpl; auto.
  brk; auto.
Qed.

Lemma rsel_kreg_other : forall st fd fl s x, x <> fd -> zget (kreg (r_select st fd fl s)) x = zget (kreg s) x.
Proof.
  intros. unfold r_select, ctl_add, ctl_mod, ctl_del.
  destruct (fd <? 0); simpl; [auto|].
  destruct (be s); simpl; auto.
  brk; auto; destruct (Z.eqb_spec fd x); auto; congruence.
Qed.

Lemma rsel_kreg_nonepoll : forall st fd fl s, be s <> BEpoll -> kreg (r_select st fd fl s) = kreg s.
Proof.
  intros. unfold r_select. destruct (fd <? 0); simpl; [auto|].
  destruct (be s); simpl; auto; congruence.
Qed.

(* ---------- the invariant ---------- *)
Definition Coh (s:rst) : Prop :=
  (forall fd, zget (kreg s) fd <> 0 -> zmem (opened s) fd = true) /\
  (forall fd, zmem (pend s) fd = false -> zmem (opened s) fd = true -> interest s fd = zget (cache s) fd) /\
  (forall fd, zmem (pend s) fd = false -> zmem (opened s) fd = false -> zget (cache s) fd = 0) /\
  (forall fd, zmem (pend s) fd = true -> zget (cache s) fd <> 0) /\
  (forall fd, zmem (opened s) fd = true -> 0 <= fd) /\
  (forall fd, fd < 0 -> zget (cache s) fd = 0).

(* ---------- r_select on the descriptor itself ---------- *)
Lemma arm_epoll : forall fd m s, be s = BEpoll -> 0 <= fd -> m <> 0 -> zmem (opened s) fd = true ->
  zget (kreg s) fd = zget (cache s) fd ->
  zget (kreg (r_select false fd m s)) fd = m /\ lasterr (r_select false fd m s) = 0.
Proof.
  intros fd m s Hb Hfd Hm Ho Hk. unfold r_select, ctl_add, ctl_mod, ctl_del.
  destruct (Z.ltb_spec fd 0); [lia|]. rewrite Hb, Ho, Hk. simpl.
  destruct (Z.eqb_spec (zget (cache s) fd) 0) as [E|E]; simpl.
  - destruct (Z.eqb_spec m 0); [contradiction|]. simpl. rewrite Z.eqb_refl. auto.
  - destruct (Z.eqb_spec m 0); [contradiction|]. simpl.
    destruct (Z.eqb_spec (zget (cache s) fd) m) as [E2|E2]; simpl; [split; congruence|].
    rewrite Z.eqb_refl. auto.
Qed.

Lemma arm_nonepoll : forall fd m s, be s <> BEpoll -> 0 <= fd -> lasterr (r_select false fd m s) = 0.
Proof.
  intros fd m s Hb Hfd. unfold r_select. destruct (Z.ltb_spec fd 0); [lia|].
  destruct (be s); simpl; auto; congruence.
Qed.

Lemma remove_epoll : forall fd s, be s = BEpoll -> 0 <= fd ->
  (zget (kreg s) fd <> 0 -> zmem (opened s) fd = true) ->
  (zget (cache s) fd = 0 -> zget (kreg s) fd = 0) ->
  zget (kreg (r_select false fd 0 s)) fd = 0.
Proof.
  intros fd s Hb Hfd H1 H2. unfold r_select, ctl_add, ctl_mod, ctl_del.
  destruct (Z.ltb_spec fd 0); [lia|].
  rewrite Hb; simpl.
  - destruct (Z.eqb_spec (zget (cache s) fd) 0) as [E|E]; simpl.
    + auto.
    + destruct (zmem (opened s) fd) eqn:Ho; simpl.
      * destruct (Z.eqb_spec (zget (kreg s) fd) 0) as [E2|E2]; simpl; [auto|]. rewrite Z.eqb_refl. reflexivity.
      * destruct (Z.eqb_spec (zget (kreg s) fd) 0) as [E2|E2]; [auto|]. apply H1 in E2. discriminate.
Qed.

(* ---------- preservation ---------- *)
Lemma interest_epoll : forall s fd, be s = BEpoll -> interest s fd = zget (kreg s) fd.
Proof. intros s fd H. unfold interest. rewrite H. reflexivity. Qed.

Lemma coh_arm : forall s fd m, Coh s -> m <> 0 -> zmem (opened s) fd = true -> zmem (pend s) fd = false ->
  Coh (r_select false fd m s).
Proof.
  intros s fd m [C1 [C2 [C3 [C4 [C5 C6]]]]] Hm Ho Hp.
  pose proof (C5 _ Ho) as Hfd.
  destruct (rsel_frame false fd m s) as [Fb [Fo Fp]].
  pose proof (rsel_cache fd m s Hfd) as Fc.
  unfold Coh, interest. rewrite Fb, Fo, Fp, Fc.
  repeat split; intros x.
  - intros Hk. destruct (Z.eq_dec x fd) as [E|E]; [subst; auto|].
    rewrite rsel_kreg_other in Hk by auto. auto.
  - intros Hpx Hox. destruct (be s) eqn:Hb; auto.
    rewrite zget_zput. destruct (Z.eqb_spec fd x) as [E|E].
    + subst x. apply arm_epoll; auto. rewrite <- (C2 fd Hp Ho). symmetry. apply interest_epoll; auto.
    + rewrite rsel_kreg_other by auto. rewrite <- (C2 x Hpx Hox). symmetry. apply interest_epoll; auto.
  - intros Hpx Hox. rewrite zget_zput. destruct (Z.eqb_spec fd x) as [E|E]; [subst; congruence|]. auto.
  - intros Hpx. rewrite zget_zput. destruct (Z.eqb_spec fd x) as [E|E]; [subst; congruence|]. auto.
  - auto.
  - intros Hx. rewrite zget_zput. destruct (Z.eqb_spec fd x) as [E|E]; [lia|]. auto.
Qed.

Lemma coh_remove : forall s fd, Coh s -> Coh (rstep false (RRemove fd) s).
Proof.
  intros s fd [C1 [C2 [C3 [C4 [C5 C6]]]]].
  destruct (rsel_frame false fd 0 s) as [Fb [Fo Fp]].
  unfold rstep. unfold Coh, interest. simpl. rewrite Fb, Fo, Fp.
  destruct (Z.ltb_spec fd 0) as [Hneg|Hfd].
  - destruct (rsel_neg false fd 0 s Hneg) as [Fk Fc]. rewrite Fk, Fc.
    repeat split; intros x; auto.
    + intros Hpx Hox. rewrite zmem_zdel in Hpx.
      destruct (Z.eqb_spec x fd) as [E|E]; [subst; apply C5 in Hox; lia|].
      simpl in Hpx. rewrite andb_true_r in Hpx. apply (C2 x Hpx Hox).
    + intros Hpx Hox. rewrite zmem_zdel in Hpx.
      destruct (Z.eqb_spec x fd) as [E|E]; [subst; auto|].
      simpl in Hpx. rewrite andb_true_r in Hpx. auto.
    + intros Hpx. rewrite zmem_zdel in Hpx. apply andb_true_iff in Hpx. destruct Hpx as [Hpx _]. auto.
  - pose proof (rsel_cache fd 0 s Hfd) as Fc. rewrite Fc.
    assert (Hk0 : be s = BEpoll -> zget (kreg (r_select false fd 0 s)) fd = 0).
    { intros Hb. apply remove_epoll; auto.
      intros Hc. destruct (zmem (pend s) fd) eqn:Hp; [apply C4 in Hp; contradiction|].
      destruct (zmem (opened s) fd) eqn:Ho.
      - rewrite <- Hc. rewrite <- (C2 fd Hp Ho). symmetry. apply interest_epoll; auto.
      - destruct (Z.eq_dec (zget (kreg s) fd) 0) as [E|E]; auto. apply C1 in E. congruence. }
    repeat split; intros x.
    + intros Hk. destruct (Z.eq_dec x fd) as [E|E].
      * subst x. destruct (be s) eqn:Hb.
        -- rewrite Hk0 in Hk by auto. contradiction.
        -- rewrite rsel_kreg_nonepoll in Hk by congruence. auto.
        -- rewrite rsel_kreg_nonepoll in Hk by congruence. auto.
      * rewrite rsel_kreg_other in Hk by auto. auto.
    + intros Hpx Hox. destruct (be s) eqn:Hb; auto.
      rewrite zget_zput. destruct (Z.eqb_spec fd x) as [E|E].
      * subst x. auto.
      * rewrite rsel_kreg_other by auto. rewrite zmem_zdel in Hpx.
        destruct (Z.eqb_spec x fd) as [E2|E2]; [congruence|]. simpl in Hpx. rewrite andb_true_r in Hpx.
        rewrite <- (C2 x Hpx Hox). symmetry. apply interest_epoll; auto.
    + intros Hpx Hox. rewrite zget_zput. destruct (Z.eqb_spec fd x) as [E|E]; [reflexivity|].
      rewrite zmem_zdel in Hpx. destruct (Z.eqb_spec x fd) as [E2|E2]; [congruence|].
      simpl in Hpx. rewrite andb_true_r in Hpx. auto.
    + intros Hpx. rewrite zmem_zdel in Hpx. apply andb_true_iff in Hpx. destruct Hpx as [Hpx Hne].
      rewrite zget_zput. destruct (Z.eqb_spec fd x) as [E|E].
      * subst x. rewrite Z.eqb_refl in Hne. discriminate.
      * auto.
    + auto.
    + intros Hx. rewrite zget_zput. destruct (Z.eqb_spec fd x) as [E|E]; [reflexivity|]. auto.
Qed.

Lemma coh_close : forall s fd, Coh s -> Coh (rstep false (OClose fd) s).
Proof.
  intros s fd [C1 [C2 [C3 [C4 [C5 C6]]]]]. unfold rstep.
  destruct (zmem (opened s) fd) eqn:Ho; [| unfold Coh; auto 10].
  assert (HP : forall x, zmem (if zget (cache s) fd =? 0 then pend s else fd :: pend s) x =
               (negb (zget (cache s) fd =? 0) && (x =? fd)) || zmem (pend s) x).
  { intros x. destruct (zget (cache s) fd =? 0); [reflexivity|]. rewrite zmem_cons. reflexivity. }
  unfold Coh, interest. cbn [be opened kreg cache pend].
  repeat split; intros x.
  - rewrite zget_zput, zmem_zdel. destruct (Z.eqb_spec fd x) as [E|E]; [congruence|].
    intros Hk. rewrite (C1 x Hk). destruct (Z.eqb_spec x fd); [congruence|reflexivity].
  - rewrite HP, zmem_zdel. intros Hpx Hox.
    apply andb_true_iff in Hox. destruct Hox as [Hox Hne].
    apply orb_false_iff in Hpx. destruct Hpx as [_ Hpx].
    destruct (Z.eqb_spec x fd) as [E|E]; [discriminate|].
    specialize (C2 x Hpx Hox). unfold interest in C2.
    destruct (be s); auto. rewrite zget_zput. destruct (Z.eqb_spec fd x); [congruence|auto].
  - rewrite HP, zmem_zdel. intros Hpx Hox.
    apply orb_false_iff in Hpx. destruct Hpx as [Hq Hpx].
    destruct (Z.eqb_spec x fd) as [E|E].
    + subst x. rewrite andb_true_r in Hq. destruct (Z.eqb_spec (zget (cache s) fd) 0); [auto|discriminate].
    + simpl in Hox. rewrite andb_true_r in Hox. auto.
  - rewrite HP. intros Hpx. apply orb_true_iff in Hpx. destruct Hpx as [Hq|Hpx]; [|auto].
    apply andb_true_iff in Hq. destruct Hq as [Hq Hx].
    destruct (Z.eqb_spec x fd) as [E|E]; [|discriminate]. subst x.
    destruct (Z.eqb_spec (zget (cache s) fd) 0); [discriminate|auto].
  - rewrite zmem_zdel. intros Hox. apply andb_true_iff in Hox. destruct Hox as [Hox _]. auto.
  - auto.
Qed.

Lemma coh_open : forall s, Coh s -> Coh (rstep false OOpen s).
Proof.
  intros s [C1 [C2 [C3 [C4 [C5 C6]]]]]. unfold rstep.
  set (n := lowest_free (S (length (opened s))) (opened s) 0).
  assert (Hn : 0 <= n) by apply lowest_free_ge.
  unfold Coh, interest. simpl.
  repeat split; intros x; try rewrite zmem_cons.
  - intros Hk. rewrite (C1 x Hk). apply orb_true_r.
  - intros Hpx Hox. destruct (zmem (opened s) x) eqn:Ho.
    + apply (C2 x Hpx Ho).
    + rewrite (C3 x Hpx Ho). destruct (be s); auto.
      destruct (Z.eq_dec (zget (kreg s) x) 0) as [E|E]; auto. apply C1 in E. congruence.
  - intros Hpx Hox. apply orb_false_iff in Hox. destruct Hox as [_ Hox]. auto.
  - auto.
  - intros Hox. apply orb_true_iff in Hox. destruct Hox as [Hox|Hox]; [|auto].
    destruct (Z.eqb_spec x n); [lia|discriminate].
  - auto.
Qed.

Lemma coh_step : forall s l, Coh s -> Coh (rstep false l s).
Proof.
  intros s l H. destruct l as [fd m|fd|fd|].
  - unfold rstep. destruct (Z.eqb_spec m 0) as [E|E]; simpl; [exact H|].
    destruct (zmem (opened s) fd) eqn:Ho; simpl; [|exact H].
    destruct (zmem (pend s) fd) eqn:Hp; simpl; [exact H|].
    apply coh_arm; auto.
  - apply coh_remove; auto.
  - apply coh_close; auto.
  - apply coh_open; auto.
Qed.

Lemma coh_rst0 : forall b, Coh (rst0 b).
Proof.
  intros b. unfold Coh, rst0, interest. simpl. repeat split; intros; try discriminate; auto; try congruence.
Qed.

Lemma coh_run : forall ls s, Coh s -> Coh (rrun false ls s).
Proof.
  induction ls as [|l ls IH]; intros s H; simpl; [exact H|].
  apply IH. apply coh_step. exact H.
Qed.

(* R1 *)
Lemma coh_invariant : forall b ls, Coh (rrun false ls (rst0 b)).
Proof. intros. apply coh_run. apply coh_rst0. Qed.

(* R5 *)
Lemma no_registration_for_closed : forall b ls fd, let s := rrun false ls (rst0 b) in
  zmem (opened s) fd = false -> zget (kreg s) fd = 0.
Proof.
  intros b ls fd s Ho. destruct (coh_invariant b ls) as [C1 _]. fold s in C1.
  destruct (Z.eq_dec (zget (kreg s) fd) 0) as [E|E]; auto. apply C1 in E. congruence.
Qed.

(* ---------- the back-end never changes ---------- *)
Lemma be_step : forall st l s, be (rstep st l s) = be s.
Proof.
  intros st l s. destruct l as [fd m|fd|fd|]; unfold rstep.
  - destruct (_ || _ || _); [reflexivity|]. apply rsel_frame.
  - cbn [be]. apply rsel_frame.
  - destruct (zmem (opened s) fd); reflexivity.
  - reflexivity.
Qed.

Lemma be_run : forall st ls s, be (rrun st ls s) = be s.
Proof.
  induction ls as [|l ls IH]; intros s; simpl; [reflexivity|].
  change (be (rrun st ls (rstep st l s)) = be s). rewrite IH. apply be_step.
Qed.

Lemma be_run0 : forall st ls b, be (rrun st ls (rst0 b)) = b.
Proof. intros. rewrite be_run. reflexivity. Qed.

(* ---------- arming on a coherent state ---------- *)
Lemma arm_ok : forall s fd m, Coh s -> m <> 0 -> zmem (opened s) fd = true -> zmem (pend s) fd = false ->
  let s2 := rstep false (RArm fd m) s in
  interest s2 fd = m /\ lasterr s2 = 0 /\ zget (cache s2) fd = m /\
  be s2 = be s /\ opened s2 = opened s /\ pend s2 = pend s.
Proof.
  intros s fd m HC Hm Ho Hp s2.
  assert (E2 : s2 = r_select false fd m s).
  { unfold s2, rstep. rewrite Ho, Hp. destruct (Z.eqb_spec m 0); [contradiction|]. reflexivity. }
  rewrite E2. destruct HC as [C1 [C2 [C3 [C4 [C5 C6]]]]].
  pose proof (C5 _ Ho) as Hfd.
  destruct (rsel_frame false fd m s) as [Fb [Fo Fp]].
  pose proof (rsel_cache fd m s Hfd) as Fc.
  assert (Hc : zget (cache (r_select false fd m s)) fd = m).
  { rewrite Fc, zget_zput, Z.eqb_refl. reflexivity. }
  repeat split; auto.
  - unfold interest. rewrite Fb. destruct (be s) eqn:Hb; auto.
    apply arm_epoll; auto. rewrite <- (C2 fd Hp Ho). symmetry. apply interest_epoll; auto.
  - destruct (be s) eqn:Hb.
    + apply arm_epoll; auto. rewrite <- (C2 fd Hp Ho). symmetry. apply interest_epoll; auto.
    + apply arm_nonepoll; auto. congruence.
    + apply arm_nonepoll; auto. congruence.
Qed.

(* R2 *)
Lemma arming_registers : forall b ls fd m, let s := rrun false ls (rst0 b) in
  m <> 0 -> zmem (opened s) fd = true -> zmem (pend s) fd = false ->
  let s2 := rstep false (RArm fd m) s in interest s2 fd = m /\ lasterr s2 = 0.
Proof.
  intros b ls fd m s Hm Ho Hp s2.
  destruct (arm_ok s fd m (coh_invariant b ls) Hm Ho Hp) as [H1 [H2 _]]. auto.
Qed.

Lemma remove_closed_ebadf : forall fd s, be s = BEpoll -> 0 <= fd -> zget (cache s) fd <> 0 ->
  zmem (opened s) fd = false -> lasterr (r_select false fd 0 s) = 9.
Proof.
  intros fd s Hb Hfd Hc Ho. unfold r_select, ctl_add, ctl_mod, ctl_del.
  destruct (Z.ltb_spec fd 0); [lia|]. rewrite Hb, Ho.
  destruct (Z.eqb_spec (zget (cache s) fd) 0); [contradiction|]. reflexivity.
Qed.

(* R3 *)
Lemma reuse_scenario : forall b ls fd m m2, let s := rrun false ls (rst0 b) in
  m <> 0 -> m2 <> 0 -> zmem (opened s) fd = true -> zmem (pend s) fd = false ->
  let s1 := rstep false (RArm fd m) s in
  let s2 := rstep false (OClose fd) s1 in
  let s3 := rstep false (RRemove fd) s2 in
  let s4 := rstep false OOpen s3 in
  zmem (opened s4) fd = true ->
  let s5 := rstep false (RArm fd m2) s4 in
  (b = BEpoll -> lasterr s3 = 9) /\ interest s5 fd = m2 /\ lasterr s5 = 0.
Proof.
  intros b ls fd m m2 s Hm Hm2 Ho Hp s1 s2 s3 s4 Ho4 s5.
  pose proof (coh_invariant b ls) as HC. fold s in HC.
  assert (Hfd : 0 <= fd). { destruct HC as [_ [_ [_ [_ [C5 _]]]]]. auto. }
  destruct (arm_ok s fd m HC Hm Ho Hp) as [_ [_ [Hc1 [Hb1 [Ho1 Hp1]]]]]. fold s1 in Hc1, Hb1, Ho1, Hp1.
  assert (HC4 : Coh s4) by (unfold s4, s3, s2, s1; repeat apply coh_step; exact HC).
  assert (Hp4 : zmem (pend s4) fd = false).
  { unfold s4, s3, rstep. cbn [pend]. rewrite zmem_zdel, Z.eqb_refl. apply andb_false_r. }
  destruct (arm_ok s4 fd m2 HC4 Hm2 Ho4 Hp4) as [H1 [H2 _]].
  split; [|auto].
  intros Eb.
  assert (E2 : s2 = mkR (be s1) (zdel (opened s1) fd) (zput (kreg s1) fd 0) (cache s1) (want s1)
                        (if Z.eqb (zget (cache s1) fd) 0 then pend s1 else fd :: pend s1) (lasterr s1)).
  { unfold s2, rstep. rewrite Ho1, Ho. reflexivity. }
  unfold s3, rstep. cbn [lasterr]. apply remove_closed_ebadf; auto.
  - rewrite E2. cbn [be]. rewrite Hb1. unfold s. rewrite be_run0. exact Eb.
  - rewrite E2. cbn [cache]. rewrite Hc1. exact Hm.
  - rewrite E2. cbn [opened]. rewrite zmem_zdel, Z.eqb_refl. apply andb_false_r.
Qed.

(* R4: the stale variant (return before updating the table when the system call failed) is refuted *)
Lemma stale_variant_refuted : exists ls fd m, let s := rrun true ls (rst0 BEpoll) in
  zmem (opened s) fd = true /\ zmem (pend s) fd = false /\ interest (rstep true (RArm fd m) s) fd = 0 /\ m <> 0 /\
  lasterr (rstep true (RArm fd m) s) = 0.
Proof.
  exists [OOpen; RArm 0 1; OClose 0; RRemove 0; OOpen], 0, 1.
  cbv zeta. repeat split; try (vm_compute; reflexivity). lia.
Qed.

Lemma stale_variant_refuted_enoent : exists ls fd m, let s := rrun true ls (rst0 BEpoll) in
  zmem (opened s) fd = true /\ zmem (pend s) fd = false /\ interest (rstep true (RArm fd m) s) fd = 0 /\ m <> 0 /\
  lasterr (rstep true (RArm fd m) s) = 2.
Proof.
  exists [OOpen; RArm 0 1; OClose 0; RRemove 0; OOpen], 0, 2.
  cbv zeta. repeat split; try (vm_compute; reflexivity). lia.
Qed.

(* the same schedule with the real code (stale = false) registers the reused number *)
Lemma real_code_same_schedule :
  let s := rrun false [OOpen; RArm 0 1; OClose 0; RRemove 0; OOpen] (rst0 BEpoll) in
  interest (rstep false (RArm 0 1) s) 0 = 1 /\ lasterr (rstep false (RArm 0 1) s) = 0.
Proof. cbv zeta. split; vm_compute; reflexivity. Qed.

(* poll / select: the queued remove on the closed number cannot fail (no system call is made) *)
Lemma reuse_remove_nonepoll : forall b ls fd m, let s := rrun false ls (rst0 b) in
  m <> 0 -> zmem (opened s) fd = true -> zmem (pend s) fd = false -> b <> BEpoll ->
  lasterr (rstep false (RRemove fd) (rstep false (OClose fd) (rstep false (RArm fd m) s))) = 0.
Proof.
  intros b ls fd m s Hm Ho Hp Hb.
  pose proof (coh_invariant b ls) as HC. fold s in HC.
  assert (Hfd : 0 <= fd). { destruct HC as [_ [_ [_ [_ [C5 _]]]]]. auto. }
  unfold rstep at 1. cbn [lasterr]. apply arm_nonepoll; auto.
  rewrite !be_step. unfold s. rewrite be_run0. exact Hb.
Qed.
