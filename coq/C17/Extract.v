Require Extraction.
Require Import ExtrOcamlBasic.
From Coq Require Import NArith ZArith List.
From CppcmsV Require Import C17.Defs.
Definition keep_types : (N * Z * nat) := (0%N, 0%Z, 0%nat).
Extraction "c17m.ml" keep_types run_script run_labels step st0 tokens pstep prun pool0 ptokens run_pool_script.
