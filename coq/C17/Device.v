(* C17 proofs: close / attach / assign of a device cancel its armed waits in BOTH ownership modes; the descriptor is closed only if owned *)
From CppcmsV Require Import Base.Tac C17.Defs C17.Proofs C17.Proofs2 C17.Solo C17.CancelIo C17.DeviceDefs.
Import ListNotations.
Local Open Scope Z_scope.

Lemma d_close_base c : dfd c <> -1 -> dbase (d_close false c) = step (LCancelIo (dfd c)) (dbase c).
Proof.
  intros N. unfold d_close. destruct (Z.eqb_spec (dfd c) (-1)); [contradiction|]. cbn [andb]. destruct (downer c); reflexivity.
Qed.
Lemma d_close_descriptor c : dfd c <> -1 ->
  (downer c = true -> dfd (d_close false c) = -1 /\ dopen (d_close false c) = zrem (dopen c) (dfd c)) /\
  (downer c = false -> dfd (d_close false c) = dfd c /\ dopen (d_close false c) = dopen c).
Proof.
  intros N. unfold d_close. destruct (Z.eqb_spec (dfd c) (-1)); [contradiction|]. cbn [andb].
  split; intros O; rewrite O; split; reflexivity.
Qed.
(* close() of a device - owner or not - with a registered reader / writer h, issued while the loop thread is between two run_one calls:
   h is invoked with canceled within the next two run_one calls (next one when the cancel ran in place, the one after when deferred) *)
Lemma close_cancels_reader : forall b i c h, reach (dbase c) -> lpc (dbase c) = Idle -> stop (dbase c) = false -> queue (dbase c) = [] ->
  0 <= dfd c -> rd (fd_get (fdmap (dbase c)) (dfd c)) = Some h ->
  let s1 := dbase (d_close false c) in
  let s2 := run_one_solo b s1 in
  let s3 := run_one_solo b (step (LPollEnd [] i) s2) in
  In (h, Canceled, clock (dbase c)) (log s2) \/ In (h, Canceled, clock (dbase c)) (log s3).
Proof.
  intros b i c h R P ST Q F H. cbv zeta. rewrite d_close_base by lia.
  exact (cancel_io_invokes_reader b i (dbase c) (dfd c) h R P ST Q F H).
Qed.
Lemma close_cancels_writer : forall b i c h, reach (dbase c) -> lpc (dbase c) = Idle -> stop (dbase c) = false -> queue (dbase c) = [] ->
  0 <= dfd c -> wr (fd_get (fdmap (dbase c)) (dfd c)) = Some h ->
  let s1 := dbase (d_close false c) in
  let s2 := run_one_solo b s1 in
  let s3 := run_one_solo b (step (LPollEnd [] i) s2) in
  In (h, Canceled, clock (dbase c)) (log s2) \/ In (h, Canceled, clock (dbase c)) (log s3).
Proof.
  intros b i c h R P ST Q F H. cbv zeta. rewrite d_close_base by lia.
  exact (cancel_io_invokes_writer b i (dbase c) (dfd c) h R P ST Q F H).
Qed.
(* attach / assign replace the descriptor through close(): same effect on the loop *)
Lemma attach_assign_base fd c : dbase (d_attach false fd c) = dbase (d_close false c) /\ dbase (d_assign false fd c) = dbase (d_close false c) /\
  downer (d_attach false fd c) = false /\ downer (d_assign false fd c) = true /\ dfd (d_attach false fd c) = fd /\ dfd (d_assign false fd c) = fd.
Proof. repeat split. Qed.
(* the merged early return is refuted: a non-owning device with a registered reader is closed and nothing happens *)
Lemma merged_variant_refuted : exists c, downer c = false /\ rd (fd_get (fdmap (dbase c)) (dfd c)) = Some 1%N /\ reach (dbase c) /\
  d_close true c = c /\ In (Run 1%N Canceled) (queue (dbase (d_close false c))).
Proof.
  exists (mkD (run_labels [LBegin; LPollEnd [] false; LSetIo 5 DIn 1 false] st0) 5 false [5]).
  split; [reflexivity|]. split; [vm_compute; reflexivity|]. split; [apply reach_run|]. split; vm_compute; [reflexivity|left; reflexivity].
Qed.
