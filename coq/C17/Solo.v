(* C17 -- the loop thread running one complete run_one alone (other threads quiet):
   every queued completion entry is invoked, every due timer is dispatched with success. *)
From CppcmsV Require Import Base.Tac C17.Defs C17.Proofs C17.Proofs2 C17.Proofs4 C17.Proofs5 C17.Proofs6 C17.Proofs7.
Import ListNotations. Local Open Scope N_scope.

Fixpoint drain (b:bool) (fuel:nat) (s:st) : st :=
  match fuel with O => s | S n =>
    match lpc s with Popped => drain b n (step LDone (step (LExec b) s)) | _ => s end end.
Definition run_one_solo (b:bool) (s:st) : st := drain b (S (length (queue s))) (step LBegin s).

(* ---- frame facts ---- *)
Lemma stop_do_setter fd d k se s : stop (do_setter fd d k se s) = stop s. Proof. frame. Qed.
Lemma stop_do_canceler fd s : stop (do_canceler fd s) = stop s. Proof. frame. Qed.
Lemma stop_dispatch ev s : stop (dispatch ev s) = stop s. Proof. frame. Qed.
Lemma clk_do_setter fd d k se s : clock (do_setter fd d k se s) = clock s. Proof. frame. Qed.
Lemma clk_do_canceler fd s : clock (do_canceler fd s) = clock s. Proof. frame. Qed.
Lemma clk_dispatch ev s : clock (dispatch ev s) = clock s. Proof. frame. Qed.
Lemma ctr_do_setter fd d k se s : counter (do_setter fd d k se s) = counter s. Proof. frame. Qed.
Lemma ctr_do_canceler fd s : counter (do_canceler fd s) = counter s. Proof. frame. Qed.

Lemma is_pc_of s p : lpc s = p -> is_pc s p = true.
Proof. intros E. subst p. unfold is_pc. destruct (lpc s); reflexivity. Qed.

(* ---- one LExec of the loop thread ---- *)
Lemma exec_facts b s e : lpc s = Popped -> running s = Some e ->
  lpc (step (LExec b) s) = Executed /\ stop (step (LExec b) s) = stop s /\
  timers (step (LExec b) s) = timers s /\ clock (step (LExec b) s) = clock s /\
  counter (step (LExec b) s) = counter s /\
  (exists q', queue (step (LExec b) s) = queue s ++ q') /\
  incl (log s) (log (step (LExec b) s)) /\
  (forall h c, e = Run h c -> In (h,c,clock s) (log (step (LExec b) s))).
Proof.
  intros P R. cbn [step]. rewrite (is_pc_of s Popped P), R. cbn zeta.
  destruct e as [h c|fd d h|fd].
  - sst. split; [reflexivity|]. split; [reflexivity|]. split; [reflexivity|]. split; [reflexivity|]. split; [reflexivity|].
    split; [exists []; rewrite app_nil_r; reflexivity|]. split; [apply incl_appl, incl_refl|].
    intros h0 c0 E. inversion E; subst. apply in_or_app. right. left. reflexivity.
  - rewrite lpc_do_setter, stop_do_setter, tm_do_setter, clk_do_setter, ctr_do_setter, log_do_setter. sst.
    split; [reflexivity|]. split; [reflexivity|]. split; [reflexivity|]. split; [reflexivity|]. split; [reflexivity|].
    split; [apply (q_do_setter fd d h b (set_lpc (set_running s None) Executed))|]. split; [apply incl_refl|].
    intros h0 c0 E. discriminate E.
  - rewrite lpc_do_canceler, stop_do_canceler, tm_do_canceler, clk_do_canceler, ctr_do_canceler, log_do_canceler. sst.
    split; [reflexivity|]. split; [reflexivity|]. split; [reflexivity|]. split; [reflexivity|]. split; [reflexivity|].
    split; [apply (q_do_canceler fd (set_lpc (set_running s None) Executed))|]. split; [apply incl_refl|].
    intros h0 c0 E. discriminate E.
Qed.

(* ---- LDone while the budget is not used up: pop the front entry ---- *)
Lemma done_pop s e q n : lpc s = Executed -> stop s = false -> queue s = e :: q -> counter s = S (S n) ->
  step LDone s = set_lpc (set_running (set_queue (set_counter s (S n)) q) (Some e)) Popped.
Proof.
  intros P ST Q C. cbn [step]. rewrite (is_pc_of s Executed P). unfold after_lock. sst.
  rewrite Q, ST, C. cbn [pred Nat.eqb negb andb]. reflexivity.
Qed.

Lemma drain_stop b n s : lpc s <> Popped -> drain b n s = s.
Proof.
  intros H. destruct n; cbn [drain]; [reflexivity|]. destruct (lpc s) eqn:E; try reflexivity. congruence.
Qed.

(* what the drain leaves just before the timers stage *)
Definition DR (s s2:st) (q2 es:list entry) : Prop :=
  stop s2 = false /\ timers s2 = timers s /\ clock s2 = clock s /\ (exists q', queue s2 = q2 ++ q') /\
  incl (log s) (log s2) /\ (forall h c, In (Run h c) es -> In (h,c,clock s) (log s2)).

Lemma drain_main b : forall k s e q1 q2 fuel,
  lpc s = Popped -> stop s = false -> running s = Some e -> counter s = S k ->
  queue s = q1 ++ q2 -> length q1 = k -> (S k <= fuel)%nat ->
  exists s2, drain b fuel s = timers_stage s2 /\ DR s s2 q2 (e :: q1).
Proof.
  induction k as [|k IH]; intros s e q1 q2 fuel P ST R C Q L F.
  - destruct q1 as [|x q1]; [|discriminate L]. cbn [app] in Q. destruct fuel as [|n]; [lia|]. cbn [drain]. rewrite P.
    destruct (exec_facts b s e P R) as [P1 [ST1 [T1 [K1 [C1 [[q' Q1] [I1 L1]]]]]]].
    rewrite (done_last_goes_to_timers (step (LExec b) s) (is_pc_of _ _ P1)) by congruence.
    rewrite drain_stop by apply lpc_timers_stage.
    exists (set_counter (step (LExec b) s) 0%nat). split; [reflexivity|]. unfold DR. sst.
    split; [congruence|]. split; [exact T1|]. split; [exact K1|]. split; [exists q'; congruence|]. split; [exact I1|].
    intros h c [E|[]]. apply L1. exact E.
  - destruct q1 as [|x q1]; [discriminate L|]. cbn [length] in L. injection L as L.
    destruct fuel as [|n]; [lia|]. cbn [drain]. rewrite P.
    destruct (exec_facts b s e P R) as [P1 [ST1 [T1 [K1 [C1 [[q' Q1] [I1 L1]]]]]]].
    assert (queue (step (LExec b) s) = x :: (q1 ++ (q2 ++ q'))) as Q1'.
    { rewrite Q1, Q. cbn [app]. rewrite <- app_assoc. reflexivity. }
    assert (stop (step (LExec b) s) = false) as ST1' by congruence.
    assert (counter (step (LExec b) s) = S (S k)) as C1' by congruence.
    rewrite (done_pop (step (LExec b) s) x _ k P1 ST1' Q1' C1').
    destruct (IH (set_lpc (set_running (set_queue (set_counter (step (LExec b) s) (S k)) (q1 ++ q2 ++ q')) (Some x)) Popped)
                 x q1 (q2 ++ q') n) as [s2 [E D]]; sst; try reflexivity; try assumption; try lia.
    exists s2. split; [exact E|]. unfold DR in *. sst_in D.
    destruct D as [D1 [D2 [D3 [[q'' D4] [D5 D6]]]]].
    split; [exact D1|]. split; [congruence|]. split; [congruence|].
    split; [exists (q' ++ q''); rewrite D4, app_assoc; reflexivity|].
    split; [intros y Y; apply D5, I1, Y|].
    intros h c [E1|I].
    + apply D5. apply L1. exact E1.
    + rewrite <- K1. apply D6. exact I.
Qed.

(* one complete run_one of the loop thread alone ends in the timers stage *)
Lemma solo_shape b s : lpc s = Idle -> stop s = false ->
  exists s2, run_one_solo b s = timers_stage s2 /\ DR s s2 [] (queue s).
Proof.
  intros P ST. unfold run_one_solo. cbn [step]. rewrite (is_pc_of s Idle P). unfold after_lock. sst.
  destruct (queue s) as [|e q] eqn:Q.
  - rewrite drain_stop by apply lpc_timers_stage.
    exists (set_counter (set_reactor s true) 0%nat). split; [reflexivity|]. unfold DR. sst.
    split; [exact ST|]. split; [reflexivity|]. split; [reflexivity|]. split; [exists []; exact Q|].
    split; [apply incl_refl|]. intros h c [].
  - rewrite ST. cbn [length Nat.eqb negb andb].
    destruct (drain_main b (length q) (set_lpc (set_running (set_queue (set_counter (set_reactor s true) (S (length q))) q) (Some e)) Popped)
                e q [] (S (S (length q)))) as [s2 [E D]]; sst; try reflexivity; try assumption; try lia.
    + rewrite app_nil_r. reflexivity.
    + exists s2. split; [exact E|]. unfold DR in *. sst_in D. exact D.
Qed.

(* (B) every completion entry queued when run_one starts is invoked by that run_one *)
Lemma solo_run_one_runs_queued : forall b s h c, lpc s = Idle -> stop s = false -> In (Run h c) (queue s) ->
  In (h,c,clock s) (log (run_one_solo b s)).
Proof.
  intros b s h c P ST I. destruct (solo_shape b s P ST) as [s2 [E [_ [_ [_ [_ [_ D]]]]]]].
  rewrite E, log_timers_stage. apply D, I.
Qed.

Lemma ts_facts s h : stop s = false -> In (Run h Ok) (queue (timers_stage s)) ->
  timeout (timers_stage s) = 0 /\ stop (timers_stage s) = false /\ clock (timers_stage s) = clock s.
Proof.
  unfold timers_stage. intros ST. rewrite ST. destruct (t_due (timers s) (clock s)) as [q t']. sst. intros I.
  split; [|split; [exact ST|reflexivity]].
  unfold wait_time, q_nonempty. sst. destruct (queue s ++ q) as [|y r]; [contradiction|].
  destruct t' as [|[d x] r']; [reflexivity|]. apply N.min_0_l.
Qed.

(* (A) a due timer is dispatched with success by one run_one, which then polls with timeout 0 *)
Lemma solo_run_one_dispatches_due : forall b s dl h, reach s -> lpc s = Idle -> stop s = false -> In (dl,h) (timers s) -> dl <= clock s ->
  let s1 := run_one_solo b s in
  (In (Run h Ok) (queue s1) /\ lpc s1 = Poll /\ timeout s1 = 0 /\ stop s1 = false /\ clock s1 = clock s)%type.
Proof.
  intros b s dl h R P ST I L. cbv zeta.
  destruct (solo_shape b s P ST) as [s2 [E [D1 [D2 [D3 _]]]]]. rewrite E.
  assert (Sinv s2) as S2. { unfold Sinv. rewrite D2. apply (reach_S s R). }
  destruct (timers_stage_dispatches_due s2 S2 D1) as [A [_ PL]].
  assert (In (Run h Ok) (queue (timers_stage s2))) as IQ. { apply (A dl h); [rewrite D2; exact I|rewrite D3; exact L]. }
  destruct (ts_facts s2 h D1 IQ) as [T0 [ST2 CL]].
  split; [exact IQ|]. split; [exact PL|]. split; [exact T0|]. split; [exact ST2|]. congruence.
Qed.

(* the end of a poll: timers, clock, stop kept; the queue only grows; the loop is idle again *)
Lemma pollend_facts evs intr s : lpc s = Poll -> stop s = false ->
  lpc (step (LPollEnd evs intr) s) = Idle /\ stop (step (LPollEnd evs intr) s) = false /\
  timers (step (LPollEnd evs intr) s) = timers s /\ clock (step (LPollEnd evs intr) s) = clock s /\
  (exists q', queue (step (LPollEnd evs intr) s) = queue s ++ q').
Proof.
  intros P ST. cbn [step]. rewrite (is_pc_of s Poll P). cbn zeta.
  assert (stop (fold_left (fun a ev => dispatch ev a) evs (set_polling s false)) = false) as F1.
  { rewrite (fold_dispatch_frame stop stop_dispatch). exact ST. }
  assert (timers (fold_left (fun a ev => dispatch ev a) evs (set_polling s false)) = timers s) as F2.
  { rewrite (fold_dispatch_frame timers tm_dispatch). reflexivity. }
  assert (clock (fold_left (fun a ev => dispatch ev a) evs (set_polling s false)) = clock s) as F3.
  { rewrite (fold_dispatch_frame clock clk_dispatch). reflexivity. }
  destruct (q_fold_dispatch evs (set_polling s false)) as [q' F4]. sst_in F4.
  destruct intr; sst; rewrite F1; sst; (split; [reflexivity|]); (split; [exact F1|]); (split; [exact F2|]);
    (split; [exact F3|]); exists q'; exact F4.
Qed.

(* (C) from a polling loop with a due timer: two run_one rounds later the handler has been invoked with success *)
Lemma solo_due_timer_fires : forall b s dl h evs intr evs2 intr2, reach s -> lpc s = Poll -> stop s = false -> In (dl,h) (timers s) -> dl <= clock s ->
  let s1 := run_one_solo b (step (LPollEnd evs intr) s) in
  let s2 := run_one_solo b (step (LPollEnd evs2 intr2) s1) in
  In (h,Ok,clock s) (log s2).
Proof.
  intros b s dl h evs intr evs2 intr2 R P ST I L. cbv zeta.
  destruct (pollend_facts evs intr s P ST) as [A1 [A2 [A3 [A4 _]]]].
  assert (reach (step (LPollEnd evs intr) s)) as R1 by (apply reach_step, R).
  destruct (solo_run_one_dispatches_due b (step (LPollEnd evs intr) s) dl h R1 A1 A2) as [B1 [B2 [_ [B4 B5]]]];
    [rewrite A3; exact I|rewrite A4; exact L|].
  destruct (pollend_facts evs2 intr2 _ B2 B4) as [C1 [C2 [_ [C4 [q' C5]]]]].
  assert (clock (step (LPollEnd evs2 intr2) (run_one_solo b (step (LPollEnd evs intr) s))) = clock s) as CK by congruence.
  rewrite <- CK. apply solo_run_one_runs_queued; [exact C1|exact C2|].
  rewrite C5. apply in_or_app. left. exact B1.
Qed.
