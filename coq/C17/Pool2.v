(* C17 proofs: the thread pool (src/thread_pool.cpp) - shutdown, join, exceptions, FIFO service *)
From CppcmsV Require Import Base.Tac C17.Defs C17.Proofs C17.Proofs2 C17.Proofs3.
Import ListNotations. Local Open Scope N_scope.

(* ---------------------------------------------------------------------------------------------- *)
(* reachable pool states *)
Definition preach (p:pool) : Prop := exists ls, p = prun ls pool0.

Lemma prun_cons l ls p : prun (l :: ls) p = prun ls (fst (pstep l p)).
Proof. reflexivity. Qed.
Lemma prun_app a b p : prun (a ++ b) p = prun b (prun a p).
Proof. unfold prun. apply fold_left_app. Qed.
Lemma preach_init : preach pool0.
Proof. exists []. reflexivity. Qed.
Lemma preach_run ls : preach (prun ls pool0).
Proof. exists ls. reflexivity. Qed.
Lemma preach_step l p : preach p -> preach (fst (pstep l p)).
Proof. intros [ls ->]. exists (ls ++ [l]). rewrite prun_app. reflexivity. Qed.

(* ---------------------------------------------------------------------------------------------- *)
(* the worker slot map *)
Lemma w_get_put_same l w v : w_get (w_put l w v) w = v.
Proof.
  induction l as [|[k x] r IH]; cbn [w_put w_get]; [rewrite N.eqb_refl; reflexivity|].
  destruct (N.eqb k w) eqn:E; cbn [w_get]; rewrite E; [reflexivity|exact IH].
Qed.
Lemma w_get_put_other l w w2 v : w <> w2 -> w_get (w_put l w2 v) w = w_get l w.
Proof.
  intros NE. induction l as [|[k x] r IH]; cbn [w_put w_get].
  - destruct (N.eqb_spec w2 w); [congruence|reflexivity].
  - destruct (N.eqb_spec k w2) as [->|N1]; cbn [w_get].
    + destruct (N.eqb_spec w2 w); [congruence|reflexivity].
    + destruct (N.eqb k w); [reflexivity|exact IH].
Qed.

(* ---------------------------------------------------------------------------------------------- *)
(* T1 *)
Lemma shut_step l p : shut p = true -> shut (fst (pstep l p)) = true.
Proof.
  intros S. destruct l; cbn [pstep].
  - destruct (pfresh j p); exact S.
  - destruct (pq_remove (pq p) id) as [[x|] q2]; exact S.
  - destruct (w_exited p w); [exact S|]. destruct (w_get (wjob p) w); [exact S|]. rewrite S. reflexivity.
  - destruct (w_get (wjob p) w); exact S.
  - reflexivity.
Qed.

Lemma shutdown_is_permanent : forall ls p, shut p = true -> shut (prun ls p) = true.
Proof.
  induction ls as [|l r IH]; intros p S; [exact S|]. rewrite prun_cons. apply IH, shut_step, S.
Qed.

(* T2 *)
Lemma no_dequeue_after_shutdown : forall p w, shut p = true ->
  snd (pstep (PWorkerLock w) p) = 0 /\ pq (fst (pstep (PWorkerLock w) p)) = pq p /\
  wjob (fst (pstep (PWorkerLock w) p)) = wjob p /\ plog (fst (pstep (PWorkerLock w) p)) = plog p.
Proof.
  intros p w S. cbn [pstep]. destruct (w_exited p w); [repeat split|].
  destruct (w_get (wjob p) w); [repeat split|]. rewrite S. repeat split.
Qed.

(* ---------------------------------------------------------------------------------------------- *)
(* T3 *)
Lemma pq_remove_in q id j : In j (map snd q) ->
  match fst (pq_remove q id) with
  | Some x => j = x \/ In j (map snd (snd (pq_remove q id)))
  | None => True end.
Proof.
  induction q as [|[i x] r IH]; cbn [pq_remove fst snd map]; [intros H; exact I|].
  intros H. destruct (N.eqb i id); cbn [fst snd].
  - destruct H as [H|H]; [left; symmetry; exact H|right; exact H].
  - destruct (pq_remove r id) as [[y|] r2]; cbn [fst snd map] in *; [|exact I].
    destruct H as [H|H]; [right; left; exact H|].
    destruct (IH H) as [E|H2]; [left; exact E|right; right; exact H2].
Qed.

Definition Q3 (j:N) (p:pool) : Prop := shut p = true /\ (In j (map snd (pq p)) \/ In j (pcan p)).

Lemma Q3_step j l p : Q3 j p -> Q3 j (fst (pstep l p)).
Proof.
  intros [S H]. split; [apply shut_step, S|]. destruct l; cbn [pstep].
  - destruct (pfresh j0 p); cbn [fst pq pcan]; [|exact H].
    destruct H as [H|H]; [left; rewrite map_app; apply in_or_app; left; exact H|right; exact H].
  - pose proof (pq_remove_in (pq p) id j) as R.
    destruct (pq_remove (pq p) id) as [[x|] q2]; cbn [fst snd pq pcan] in *; [|exact H].
    destruct H as [H|H]; [|right; right; exact H].
    destruct (R H) as [E|H2]; [right; left; symmetry; exact E|left; exact H2].
  - destruct (w_exited p w); [exact H|]. destruct (w_get (wjob p) w); [exact H|]. rewrite S. exact H.
  - destruct (w_get (wjob p) w); exact H.
  - exact H.
Qed.

Lemma Q3_run j ls : forall p, Q3 j p -> Q3 j (prun ls p).
Proof. induction ls as [|l r IH]; intros p H; [exact H|]. rewrite prun_cons. apply IH, Q3_step, H. Qed.

Lemma queued_or_cancelled_not_run p j : PCons p -> In j (map snd (pq p)) \/ In j (pcan p) -> ~ In j (plog p).
Proof.
  intros C H L. pose proof (PCons_le1 p j C) as B. rewrite cnt_ptokens in B. unfold P4 in B.
  apply cnt_pos_in in L. destruct H as [H|H]; apply cnt_pos_in in H; lia.
Qed.

Lemma queued_at_shutdown_never_runs : forall p j, PCons p -> shut p = true -> In j (map snd (pq p)) ->
  forall ls, ~ In j (plog (prun ls p)).
Proof.
  intros p j C S H ls. destruct (Q3_run j ls p) as [_ H2]; [split; [exact S|left; exact H]|].
  apply queued_or_cancelled_not_run; [apply PCons_run, C|exact H2].
Qed.

(* T3b *)
Lemma posted_after_shutdown_never_runs : forall p j, PCons p -> shut p = true -> pfresh j p = true ->
  forall ls, ~ In j (plog (prun (PPost j :: ls) p)).
Proof.
  intros p j C S F ls. rewrite prun_cons. apply queued_at_shutdown_never_runs.
  - apply PCons_step, C.
  - apply shut_step, S.
  - cbn [pstep]. rewrite F. cbn [fst pq]. rewrite map_app. apply in_or_app. right. left. reflexivity.
Qed.

(* ---------------------------------------------------------------------------------------------- *)
(* T4 *)
Definition PEx (p:pool) : Prop := forall w, w_exited p w = true -> w_get (wjob p) w = None /\ shut p = true.

Lemma PEx_init : PEx pool0.
Proof. intros w E. discriminate E. Qed.

Lemma PEx_step l p : PEx p -> PEx (fst (pstep l p)).
Proof.
  intros I. destruct l; cbn [pstep].
  - destruct (pfresh j p); exact I.
  - destruct (pq_remove (pq p) id) as [[x|] q2]; exact I.
  - destruct (w_exited p w) eqn:E; [exact I|]. destruct (w_get (wjob p) w) eqn:G; [exact I|].
    destruct (shut p) eqn:S.
    + intros w2 E2. cbn [fst wjob shut]. split; [|reflexivity].
      unfold w_exited in E2. cbn [fst wexit existsb] in E2. apply orb_true_iff in E2. destruct E2 as [E2|E2].
      * apply N.eqb_eq in E2. subst w2. exact G.
      * exact (proj1 (I w2 E2)).
    + destruct (pq p) as [|[i x] q2] eqn:Q; [exact I|]. intros w2 E2.
      change (w_exited p w2 = true) in E2. destruct (I w2 E2) as [G2 S2]. congruence.
  - destruct (w_get (wjob p) w) eqn:G; [|exact I]. intros w2 E2.
    change (w_exited p w2 = true) in E2. destruct (I w2 E2) as [G2 S2]. cbn [fst wjob shut].
    split; [|exact S2]. destruct (N.eq_dec w2 w) as [->|NE]; [apply w_get_put_same|].
    rewrite w_get_put_other; [exact G2|exact NE].
  - intros w2 E2. change (w_exited p w2 = true) in E2. destruct (I w2 E2) as [G2 S2].
    cbn [fst wjob shut]. split; [exact G2|reflexivity].
Qed.

Lemma PEx_run ls : forall p, PEx p -> PEx (prun ls p).
Proof. induction ls as [|l r IH]; intros p H; [exact H|]. rewrite prun_cons. apply IH, PEx_step, H. Qed.

Lemma PEx_reach p : preach p -> PEx p.
Proof. intros [ls ->]. apply PEx_run, PEx_init. Qed.

Lemma exited_worker_holds_nothing : forall ls w, let p := prun ls pool0 in
  w_exited p w = true -> w_get (wjob p) w = None /\ shut p = true.
Proof. intros ls w p E. exact (PEx_run ls pool0 PEx_init w E). Qed.

(* ---------------------------------------------------------------------------------------------- *)
(* T5 *)
Lemma w_exited_step l p w : w_exited p w = true -> w_exited (fst (pstep l p)) w = true.
Proof.
  intros E. destruct l; cbn [pstep].
  - destruct (pfresh j p); exact E.
  - destruct (pq_remove (pq p) id) as [[x|] q2]; exact E.
  - destruct (w_exited p w0); [exact E|]. destruct (w_get (wjob p) w0); [exact E|].
    destruct (shut p).
    + unfold w_exited. cbn [fst wexit existsb]. apply orb_true_iff. right. exact E.
    + destruct (pq p) as [|[i x] q2]; exact E.
  - destruct (w_get (wjob p) w0); exact E.
  - exact E.
Qed.

Lemma w_exited_run ls w : forall p, w_exited p w = true -> w_exited (prun ls p) w = true.
Proof. induction ls as [|l r IH]; intros p H; [exact H|]. rewrite prun_cons. apply IH, w_exited_step, H. Qed.

Lemma plog_step_quiet l p : (forall w e, l = PWorkerRun w e -> w_get (wjob p) w = None) ->
  plog (fst (pstep l p)) = plog p.
Proof.
  intros H. destruct l; cbn [pstep].
  - destruct (pfresh j p); reflexivity.
  - destruct (pq_remove (pq p) id) as [[x|] q2]; reflexivity.
  - destruct (w_exited p w); [reflexivity|]. destruct (w_get (wjob p) w); [reflexivity|].
    destruct (shut p); [reflexivity|]. destruct (pq p) as [|[i x] q2]; reflexivity.
  - rewrite (H w exc eq_refl). reflexivity.
  - reflexivity.
Qed.

Lemma joined_pool_is_quiet ws : forall ls2 p, PEx p -> (forall w, In w ws -> w_exited p w = true) ->
  (forall w e, In (PWorkerRun w e) ls2 -> In w ws) -> plog (prun ls2 p) = plog p.
Proof.
  induction ls2 as [|l r IH]; intros p I E R; [reflexivity|]. rewrite prun_cons.
  rewrite IH.
  - apply plog_step_quiet. intros w e ->. apply I, E, (R w e). left. reflexivity.
  - apply PEx_step, I.
  - intros w H. apply w_exited_step, E, H.
  - intros w e H. apply (R w e). right. exact H.
Qed.

Lemma stop_returns_after_running_jobs : forall ls ws, let p := prun ls pool0 in
  (forall w, In w ws -> w_exited p w = true) ->
  (forall w, In w ws -> w_get (wjob p) w = None) /\
  (forall ls2, (forall w, In (PWorkerLock w) ls2 -> In w ws) -> (forall w e, In (PWorkerRun w e) ls2 -> In w ws) ->
     plog (prun ls2 p) = plog p).
Proof.
  intros ls ws p E. assert (PEx p) as I by (apply PEx_run, PEx_init). split.
  - intros w H. exact (proj1 (I w (E w H))).
  - intros ls2 _ R. exact (joined_pool_is_quiet ws ls2 p I E R).
Qed.

(* ---------------------------------------------------------------------------------------------- *)
(* T6 *)
Lemma dequeued_job_runs : forall p w j exc, w_get (wjob p) w = Some j ->
  plog (fst (pstep (PWorkerRun w exc) p)) = plog p ++ [j].
Proof. intros p w j exc G. cbn [pstep]. rewrite G. reflexivity. Qed.

(* T7 *)
Lemma plog_mono_step l p : exists k, plog (fst (pstep l p)) = plog p ++ k.
Proof.
  destruct l; cbn [pstep].
  - exists []. rewrite app_nil_r. destruct (pfresh j p); reflexivity.
  - exists []. rewrite app_nil_r. destruct (pq_remove (pq p) id) as [[x|] q2]; reflexivity.
  - exists []. rewrite app_nil_r. destruct (w_exited p w); [reflexivity|]. destruct (w_get (wjob p) w); [reflexivity|].
    destruct (shut p); [reflexivity|]. destruct (pq p) as [|[i x] q2]; reflexivity.
  - destruct (w_get (wjob p) w) as [j|]; [exists [j]; reflexivity|exists []; rewrite app_nil_r; reflexivity].
  - exists []. rewrite app_nil_r. reflexivity.
Qed.

Lemma plog_mono ls : forall p, exists k, plog (prun ls p) = plog p ++ k.
Proof.
  induction ls as [|l r IH]; intros p; [exists []; rewrite app_nil_r; reflexivity|].
  rewrite prun_cons. destruct (IH (fst (pstep l p))) as [k2 E2]. destruct (plog_mono_step l p) as [k1 E1].
  exists (k1 ++ k2). rewrite E2, E1, app_assoc. reflexivity.
Qed.

Lemma thrown_job_not_rerun : forall p w j exc, PCons p -> w_get (wjob p) w = Some j -> forall ls,
  count_occ N.eq_dec (plog (prun ls (fst (pstep (PWorkerRun w exc) p)))) j = 1%nat.
Proof.
  intros p w j exc C G ls.
  assert (PCons (prun ls (fst (pstep (PWorkerRun w exc) p)))) as C2 by (apply PCons_run, PCons_step, C).
  pose proof (proj1 (NoDup_count_occ N.eq_dec _) (pool_log_nodup _ C2) j) as U.
  destruct (plog_mono ls (fst (pstep (PWorkerRun w exc) p))) as [k E].
  rewrite (dequeued_job_runs p w j exc G) in E. rewrite E in *.
  rewrite !count_occ_app in *. cbn [count_occ] in *. destruct (N.eq_dec j j) as [_|NE]; [lia|congruence].
Qed.

(* ---------------------------------------------------------------------------------------------- *)
(* T8 *)
Fixpoint worker_solo (excs:list bool) (w:N) (p:pool) : pool :=
  match excs with
  | [] => p
  | e::r => worker_solo r w (fst (pstep (PWorkerRun w e) (fst (pstep (PWorkerLock w) p))))
  end.

Lemma running_pool_runs_every_queued_job : forall excs w p, shut p = false -> w_exited p w = false ->
  w_get (wjob p) w = None -> length excs = length (pq p) ->
  plog (worker_solo excs w p) = plog p ++ map snd (pq p) /\ pq (worker_solo excs w p) = [] /\
  w_exited (worker_solo excs w p) w = false.
Proof.
  induction excs as [|e r IH]; intros w p S E G L.
  - cbn [worker_solo]. destruct (pq p); [|discriminate L]. cbn [map]. rewrite app_nil_r. auto.
  - destruct (pq p) as [|[i j] q2] eqn:Q; [discriminate L|]. cbn [worker_solo].
    assert (fst (pstep (PWorkerLock w) p) =
            mkPool q2 (shut p) (next_id p) (w_put (wjob p) w (Some j)) (wexit p) (plog p) (pcan p) (pposted p)) as E1.
    { cbn [pstep]. rewrite E, G, S, Q. reflexivity. }
    rewrite E1.
    assert (fst (pstep (PWorkerRun w e)
              (mkPool q2 (shut p) (next_id p) (w_put (wjob p) w (Some j)) (wexit p) (plog p) (pcan p) (pposted p))) =
            mkPool q2 (shut p) (next_id p) (w_put (w_put (wjob p) w (Some j)) w None) (wexit p) (plog p ++ [j])
                   (pcan p) (pposted p)) as E2.
    { cbn [pstep wjob]. rewrite w_get_put_same. reflexivity. }
    rewrite E2.
    destruct (IH w (mkPool q2 (shut p) (next_id p) (w_put (w_put (wjob p) w (Some j)) w None) (wexit p) (plog p ++ [j])
                   (pcan p) (pposted p))) as [A [B D]].
    + exact S.
    + exact E.
    + cbn [wjob]. apply w_get_put_same.
    + cbn [pq]. cbn [length] in L. congruence.
    + split; [|split; [exact B|exact D]]. rewrite A. cbn [plog pq map snd]. rewrite <- app_assoc. reflexivity.
Qed.
