(* C17 -- the deadline_timer OBJECT (booster/lib/aio/src/deadline_timer.cpp) as a layer over the event-loop model: its member
   event_id_ is modelled as the token of the wait it refers to ([None] = -1).
     async_wait(h):  event_id_ = set_timer_event(deadline_, waiter{h,this})
     cancel():       if(event_id_ != -1) { tmp = event_id_; event_id_ = -1; cancel_timer_event(tmp); }
     waiter::operator()(e):  self->event_id_ = -1; h(e);          (h may call async_wait on the same object again)
   [swapped = true] is the refuted variant  h(e); self->event_id_ = -1;
   Executable definitions only. *)
From CppcmsV Require Import Base.Tac C17.Defs.
Import ListNotations.
Local Open Scope N_scope.

Record tst := mkT { tbase : st; eid : option N; owned : list N }.
Definition tst0 : tst := mkT st0 None [].
Inductive tlabel :=
| TL (l:label)                     (* any Layer A step of any thread other than the exec step *)
| TArm (k dl:N)                    (* async_wait from outside a handler of this object *)
| TCancel                          (* cancel() *)
| TExec (se:bool) (re:option (N*N)). (* exec step of the loop thread; if it invokes a waiter of this object, [re] says whether the user handler
                                        calls async_wait again (handler token, deadline) *)
Definition is_exec_l (l:label) : bool := match l with LExec _ => true | _ => false end.
Definition t_owned (c:tst) (t:N) : bool := existsb (N.eqb t) (owned c).
Definition arm (k dl:N) (c:tst) : tst :=
  if fresh k (tbase c) then mkT (step (LSetTimer k dl) (tbase c)) (Some k) (k :: owned c) else c.
Definition tstep (swapped:bool) (l:tlabel) (c:tst) : tst :=
  match l with
  | TL l0 => if is_exec_l l0 then c else mkT (step l0 (tbase c)) (eid c) (owned c)
  | TArm k dl => arm k dl c
  | TCancel => match eid c with
               | Some t => mkT (step (LCancelTimer t) (tbase c)) None (owned c)
               | None => c
               end
  | TExec se re =>
      if is_pc (tbase c) Popped then
        match running (tbase c) with
        | Some (Run t cd) =>
            let b1 := step (LExec se) (tbase c) in
            if t_owned c t then
              let c1 := mkT b1 (if swapped then eid c else None) (owned c) in     (* event_id_ = -1 before h(e) in the real code *)
              let c2 := match re with Some (k,dl) => arm k dl c1 | None => c1 end in   (* h(e) *)
              if swapped then mkT (tbase c2) None (owned c2) else c2               (* ... after h(e) in the refuted variant *)
            else mkT b1 (eid c) (owned c)
        | _ => mkT (step (LExec se) (tbase c)) (eid c) (owned c)
        end
      else c
  end.
Definition trun (swapped:bool) (ls:list tlabel) (c:tst) : tst := fold_left (fun a l => tstep swapped l a) ls c.
