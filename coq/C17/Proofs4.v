(* C17 proofs, part 4: no lost wake-up; polling flag coherence *)
From CppcmsV Require Import Base.Tac C17.Defs C17.Proofs.
Local Open Scope N_scope.

(* while the loop thread is inside the reactor poll: polling_ is set, and whenever there is something in the dispatch
   queue or a stop request, either the poll was started with timeout 0 or the self-pipe has been written *)
Definition Winv (s:st) : Prop :=
  (lpc s = Poll <-> polling s = true) /\
  (lpc s = Poll -> (q_nonempty s = true -> timeout s = 0 \/ woken s = true) /\ (stop s = true -> woken s = true)).

Lemma q_nonempty_push e s : q_nonempty (push e s) = true.
Proof. unfold q_nonempty, push. sst. destruct (queue s); reflexivity. Qed.

Ltac frame2 :=
  intros; unfold do_setter, do_canceler, dispatch, push_opt, push, wake_if_polling, wake, submit; cbv zeta;
  repeat (match goal with
          | |- context[if ?b then _ else _] => destruct b
          | |- context[match ?o with Some _ => _ | None => _ end] => destruct o
          | |- context[match ?d with DIn => _ | DOut => _ end] => destruct d
          end); reflexivity.
Lemma pol_do_setter fd d k se s : polling (do_setter fd d k se s) = polling s. Proof. frame2. Qed.
Lemma pol_do_canceler fd s : polling (do_canceler fd s) = polling s. Proof. frame2. Qed.
Lemma pol_dispatch ev s : polling (dispatch ev s) = polling s. Proof. frame2. Qed.
Lemma pol_wip s : polling (wake_if_polling s) = polling s.
Proof. unfold wake_if_polling, wake. destruct (polling s) eqn:E; sst; congruence. Qed.
Lemma stop_wip s : stop (wake_if_polling s) = stop s. Proof. frame2. Qed.
Lemma tmo_wip s : timeout (wake_if_polling s) = timeout s. Proof. frame2. Qed.
Lemma q_wip s : queue (wake_if_polling s) = queue s. Proof. frame2. Qed.
Lemma woken_wip s : polling s = true -> woken (wake_if_polling s) = true.
Proof. intros P. unfold wake_if_polling. rewrite P. reflexivity. Qed.

Lemma W_not_poll s : lpc s <> Poll -> polling s = false -> Winv s.
Proof. intros N P. split; [split; congruence|]. intros E. congruence. Qed.

Lemma W_timers_stage s : polling s = false -> Winv (timers_stage s).
Proof.
  intros P. unfold timers_stage. destruct (stop s) eqn:S.
  - apply W_not_poll; sst; [discriminate|exact P].
  - destruct (t_due (timers s) (clock s)) as [q t']. set (s1 := set_timers (set_queue s (queue s ++ q)) t').
    split; sst; [split; reflexivity|].
    intros _. split; [|unfold s1; sst; congruence]. intros Q. left. change (q_nonempty s1 = true) in Q.
    unfold wait_time. rewrite Q.
    destruct (timers s1) as [|[d x] r]; [reflexivity|]. apply N.min_l. lia.
Qed.

Lemma W_after_lock s : polling s = false -> Winv (after_lock s).
Proof.
  intros P. unfold after_lock. destruct (queue s); [apply W_timers_stage; exact P|].
  destruct (negb (stop s) && negb (Nat.eqb (counter s) 0)); [|apply W_timers_stage; exact P].
  apply W_not_poll; sst; [discriminate|exact P].
Qed.

Lemma pol_false s : Winv s -> lpc s <> Poll -> polling s = false.
Proof. intros [[A B] _] N. destruct (polling s); [exfalso; apply N, B; reflexivity|reflexivity]. Qed.

(* a step that only touches the queue (by appending), woken (by setting) or stop, taken by any thread *)
Lemma W_push_wake e s : Winv s -> Winv (wake_if_polling (push e s)).
Proof.
  intros [[A B] C]. split.
  - rewrite lpc_wip, pol_wip. unfold push. sst. split; assumption.
  - rewrite lpc_wip. unfold push at 1. sst. intros E. specialize (C E). destruct C as [C1 C2].
    assert (polling (push e s) = true) as PP. { unfold push. sst. apply A, E. }
    rewrite (woken_wip _ PP). split; intros _; [right|]; reflexivity.
Qed.

Lemma Winv_step l s : Winv s -> Winv (step l s).
Proof.
  intros W. pose proof W as [[A B] C]. destruct l; cbn [step].
  - destruct (fresh h s); [|exact W]. apply (W_push_wake (Run h c) (submit h (KPost c) s)). exact W.
  - destruct (fresh h s); [|exact W]. cbn zeta.
    destruct (polling (submit h (KIo fd d) s) || negb (reactor (submit h (KIo fd d) s))) eqn:D.
    + apply (W_push_wake (Setter fd d h) (submit h (KIo fd d) s)). exact W.
    + apply orb_false_iff in D. destruct D as [D _]. change (polling (submit h (KIo fd d) s)) with (polling s) in D.
      apply W_not_poll; [rewrite lpc_do_setter; cbn; intros E; apply A in E; congruence|rewrite pol_do_setter; exact D].
  - destruct (Z.eqb fd (-1)); [exact W|].
    destruct (negb (q_nonempty s || iod_busy (fd_get (fdmap s) fd))); [exact W|].
    destruct (polling s || negb (reactor s)) eqn:D; [apply W_push_wake; exact W|].
    apply orb_false_iff in D. destruct D as [D _].
    apply W_not_poll; [rewrite lpc_do_canceler; intros E; apply A in E; congruence|rewrite pol_do_canceler; exact D].
  - destruct (fresh h s); [|exact W]. cbn zeta.
    set (s1 := set_timers (submit h (KTimer dl) s) (t_insert (timers s) dl h)).
    assert (Winv s1) as W1. { split; [exact (conj A B)|exact C]. }
    destruct (timers s1) as [|[d0 x0] r]; [exact W1|]. destruct (polling s1 && N.leb dl d0); [|exact W1].
    destruct W1 as [[A1 B1] C1]. split; [exact (conj A1 B1)|]. unfold wake. sst. intros E. split; intros _; [right|]; reflexivity.
  - destruct (t_mem (timers s) h); [|exact W].
    change (set_timers (push (Run h Canceled) s) (t_remove (timers s) h)) with (push (Run h Canceled) (set_timers s (t_remove (timers s) h))).
    apply W_push_wake. split; [exact (conj A B)|exact C].
  - split.
    + rewrite lpc_wip, pol_wip. sst. exact (conj A B).
    + rewrite lpc_wip. sst. intros E. assert (polling (set_stop s true) = true) as PP by (sst; apply A, E).
      rewrite (woken_wip _ PP). split; intros _; [right|]; reflexivity.
  - destruct (is_pc s Idle) eqn:P; [|exact W]. apply is_pc_true in P.
    apply W_not_poll; sst; [congruence|]. apply pol_false; [exact W|congruence].
  - split; [exact (conj A B)|exact C].
  - destruct (is_pc s Idle) eqn:P; [|exact W]. apply is_pc_true in P. apply W_after_lock. sst. apply pol_false; [exact W|congruence].
  - destruct (is_pc s Popped) eqn:P; [|exact W]. apply is_pc_true in P. cbn zeta.
    assert (polling s = false) as PF by (apply pol_false; [exact W|congruence]).
    destruct (running s) as [[k c|fd d k|fd]|]; apply W_not_poll;
      rewrite ?lpc_do_setter, ?lpc_do_canceler, ?pol_do_setter, ?pol_do_canceler; sst; try discriminate; exact PF.
  - destruct (is_pc s Executed) eqn:P; [|exact W]. apply is_pc_true in P. apply W_after_lock. sst. apply pol_false; [exact W|congruence].
  - destruct (is_pc s Executed) eqn:P; [|exact W]. apply is_pc_true in P. apply W_not_poll; sst; [discriminate|].
    apply pol_false; [exact W|congruence].
  - destruct (is_pc s Poll); [|exact W]. cbn zeta.
    assert (polling (fold_left (fun a ev => dispatch ev a) evs (set_polling s false)) = false) as F.
    { rewrite (fold_dispatch_frame polling pol_dispatch). reflexivity. }
    apply W_not_poll; [sst; discriminate|]. clear C.
    destruct intr; match goal with |- context[if stop ?x then _ else _] => destruct (stop x) end; unfold wake; sst; exact F.
  - destruct (is_pc s Poll && negb (q_nonempty s)); [|exact W]. apply W_not_poll; sst; [discriminate|reflexivity].
Qed.

Lemma Winv_init : Winv st0.
Proof. apply W_not_poll; [discriminate|reflexivity]. Qed.
Lemma Winv_run ls s : Winv s -> Winv (run_labels ls s).
Proof. revert s. induction ls as [|l r IH]; intros s C; cbn [run_labels fold_left]; [exact C|]. apply IH, Winv_step, C. Qed.
