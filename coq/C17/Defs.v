(* C17 -- every scheduled handler runs exactly once: posts, timers, I/O waits, pool jobs.
   Executable model only (no proofs).

   Layer A: the bookkeeping of booster::aio::event_loop_impl (booster/lib/aio/src/io_service.cpp) at lock
   granularity: one label = one critical section under data_mutex_ (post, set_io_event, cancel_io_events,
   set_timer_event, cancel_timer_event, stop, and run_one split at its unlock points), any number of threads =
   any list of labels.  Handlers are identified by a token (hid); a handler is MOVED out of the descriptor
   table / timer table when it is queued (the non-const completion_handler overloads).
   Layer A also holds the cppcms::impl::thread_pool queue (src/thread_pool.cpp).
   Layer B: a deterministic scheduler (the script interpreter used for the correspondence run) that only ever
   changes the loop state through Layer A steps. *)
From CppcmsV Require Import Base.Tac.
Import ListNotations.
Local Open Scope N_scope.

Inductive code := Ok | Canceled | SelFailed | EBadf | SelErr.
Inductive dir := DIn | DOut.
Inductive entry := Run (h:N) (c:code) | Setter (fd:Z) (d:dir) (h:N) | Cancl (fd:Z).
Record iod := mkIod { cin : bool; cout : bool; rd : option N; wr : option N }.
Definition iod0 := mkIod false false None None.
Inductive kind := KPost (c:code) | KTimer (deadline:N) | KIo (fd:Z) (d:dir).
Inductive pc := Idle | Popped | Executed | Poll.
Record ioev := mkEv { efd : Z; ein : bool; eout : bool; eerr : bool; eself : bool }.

Record st := mkSt { queue : list entry; fdmap : list (Z*iod); timers : list (N*N); stop : bool; polling : bool; reactor : bool; woken : bool; clock : N; counter : nat; lpc : pc; running : option entry; timeout : N; pstart : N; log : list (N*code*N); subs : list (N*kind); dropped : list N }.
Definition set_queue (s:st) (v:list entry) : st := mkSt v (fdmap s) (timers s) (stop s) (polling s) (reactor s) (woken s) (clock s) (counter s) (lpc s) (running s) (timeout s) (pstart s) (log s) (subs s) (dropped s).
Definition set_fdmap (s:st) (v:list (Z*iod)) : st := mkSt (queue s) v (timers s) (stop s) (polling s) (reactor s) (woken s) (clock s) (counter s) (lpc s) (running s) (timeout s) (pstart s) (log s) (subs s) (dropped s).
Definition set_timers (s:st) (v:list (N*N)) : st := mkSt (queue s) (fdmap s) v (stop s) (polling s) (reactor s) (woken s) (clock s) (counter s) (lpc s) (running s) (timeout s) (pstart s) (log s) (subs s) (dropped s).
Definition set_stop (s:st) (v:bool) : st := mkSt (queue s) (fdmap s) (timers s) v (polling s) (reactor s) (woken s) (clock s) (counter s) (lpc s) (running s) (timeout s) (pstart s) (log s) (subs s) (dropped s).
Definition set_polling (s:st) (v:bool) : st := mkSt (queue s) (fdmap s) (timers s) (stop s) v (reactor s) (woken s) (clock s) (counter s) (lpc s) (running s) (timeout s) (pstart s) (log s) (subs s) (dropped s).
Definition set_reactor (s:st) (v:bool) : st := mkSt (queue s) (fdmap s) (timers s) (stop s) (polling s) v (woken s) (clock s) (counter s) (lpc s) (running s) (timeout s) (pstart s) (log s) (subs s) (dropped s).
Definition set_woken (s:st) (v:bool) : st := mkSt (queue s) (fdmap s) (timers s) (stop s) (polling s) (reactor s) v (clock s) (counter s) (lpc s) (running s) (timeout s) (pstart s) (log s) (subs s) (dropped s).
Definition set_clock (s:st) (v:N) : st := mkSt (queue s) (fdmap s) (timers s) (stop s) (polling s) (reactor s) (woken s) v (counter s) (lpc s) (running s) (timeout s) (pstart s) (log s) (subs s) (dropped s).
Definition set_counter (s:st) (v:nat) : st := mkSt (queue s) (fdmap s) (timers s) (stop s) (polling s) (reactor s) (woken s) (clock s) v (lpc s) (running s) (timeout s) (pstart s) (log s) (subs s) (dropped s).
Definition set_lpc (s:st) (v:pc) : st := mkSt (queue s) (fdmap s) (timers s) (stop s) (polling s) (reactor s) (woken s) (clock s) (counter s) v (running s) (timeout s) (pstart s) (log s) (subs s) (dropped s).
Definition set_running (s:st) (v:option entry) : st := mkSt (queue s) (fdmap s) (timers s) (stop s) (polling s) (reactor s) (woken s) (clock s) (counter s) (lpc s) v (timeout s) (pstart s) (log s) (subs s) (dropped s).
Definition set_timeout (s:st) (v:N) : st := mkSt (queue s) (fdmap s) (timers s) (stop s) (polling s) (reactor s) (woken s) (clock s) (counter s) (lpc s) (running s) v (pstart s) (log s) (subs s) (dropped s).
Definition set_pstart (s:st) (v:N) : st := mkSt (queue s) (fdmap s) (timers s) (stop s) (polling s) (reactor s) (woken s) (clock s) (counter s) (lpc s) (running s) (timeout s) v (log s) (subs s) (dropped s).
Definition set_log (s:st) (v:list (N*code*N)) : st := mkSt (queue s) (fdmap s) (timers s) (stop s) (polling s) (reactor s) (woken s) (clock s) (counter s) (lpc s) (running s) (timeout s) (pstart s) v (subs s) (dropped s).
Definition set_subs (s:st) (v:list (N*kind)) : st := mkSt (queue s) (fdmap s) (timers s) (stop s) (polling s) (reactor s) (woken s) (clock s) (counter s) (lpc s) (running s) (timeout s) (pstart s) (log s) v (dropped s).
Definition set_dropped (s:st) (v:list N) : st := mkSt (queue s) (fdmap s) (timers s) (stop s) (polling s) (reactor s) (woken s) (clock s) (counter s) (lpc s) (running s) (timeout s) (pstart s) (log s) (subs s) v.

Definition IDLE_MS : N := 3600000.
Definition st0 : st := mkSt [] [] [] false false false false 0 0%nat Idle None 0 0 [] [] [].

(* ---- descriptor table (socket_map<io_data>): first binding wins, absent = default io_data ---- *)
Fixpoint fd_get (m:list (Z*iod)) (fd:Z) : iod :=
  match m with [] => iod0 | (k,v)::r => if Z.eqb k fd then v else fd_get r fd end.
Fixpoint fd_put (m:list (Z*iod)) (fd:Z) (v:iod) : list (Z*iod) :=
  match m with [] => [(fd,v)] | (k,x)::r => if Z.eqb k fd then (k,v)::r else (k,x)::fd_put r fd v end.

(* ---- timer multimap: sorted by deadline, equal deadlines keep insertion order ---- *)
Fixpoint t_insert (l:list (N*N)) (dl h:N) : list (N*N) :=
  match l with [] => [(dl,h)] | (d,x)::r => if N.ltb dl d then (dl,h)::(d,x)::r else (d,x)::t_insert r dl h end.
Fixpoint t_mem (l:list (N*N)) (h:N) : bool :=
  match l with [] => false | (_,x)::r => if N.eqb x h then true else t_mem r h end.
Fixpoint t_remove (l:list (N*N)) (h:N) : list (N*N) :=
  match l with [] => [] | (d,x)::r => if N.eqb x h then r else (d,x)::t_remove r h end.
(* while(!timer_events_.empty() && begin()->first <= now): move to the dispatch queue with a success code *)
Fixpoint t_due (l:list (N*N)) (now:N) : list entry * list (N*N) :=
  match l with
  | [] => ([], [])
  | (d,x)::r => if N.leb d now then let (q,l') := t_due r now in (Run x Ok :: q, l') else ([], l)
  end.

Definition push (e:entry) (s:st) : st := set_queue s (queue s ++ [e]).
Definition wake (s:st) : st := set_woken s true.
Definition wake_if_polling (s:st) : st := if polling s then wake s else s.
Definition fresh (h:N) (s:st) : bool := negb (existsb (N.eqb h) (map fst (subs s))).
Definition submit (h:N) (k:kind) (s:st) : st := set_subs s (subs s ++ [(h,k)]).
Definition opt_list (o:option N) : list N := match o with Some h => [h] | None => [] end.

(* io_event_setter::operator() ; se = the reactor's select() reports an error *)
Definition do_setter (fd:Z) (d:dir) (h:N) (se:bool) (s:st) : st :=
  if Z.ltb fd 0%Z then push (Run h EBadf) s
  else if se then push (Run h SelErr) s
  else
    let c := fd_get (fdmap s) fd in
    let c' := match d with
              | DIn => mkIod true (cout c) (Some h) (wr c)
              | DOut => mkIod (cin c) true (rd c) (Some h) end in
    let old := match d with DIn => rd c | DOut => wr c end in
    set_dropped (set_fdmap s (fd_put (fdmap s) fd c')) (opt_list old ++ dropped s).

Definition push_opt (o:option N) (c:code) (s:st) : st :=
  match o with Some h => push (Run h c) s | None => s end.

(* io_event_canceler::operator() *)
Definition do_canceler (fd:Z) (s:st) : st :=
  if Z.ltb fd 0%Z then s else
  let c := fd_get (fdmap s) fd in
  let s1 := set_fdmap s (fd_put (fdmap s) fd iod0) in
  push_opt (wr c) Canceled (push_opt (rd c) Canceled s1).

Definition iod_busy (c:iod) : bool :=
  cin c || cout c || match rd c with Some _ => true | None => false end || match wr c with Some _ => true | None => false end.
Definition q_nonempty (s:st) : bool := match queue s with [] => false | _ => true end.

(* the readiness dispatch of run_one for one reported event *)
Definition dispatch (ev:ioev) (s:st) : st :=
  if Z.ltb (efd ev) 0%Z then s else
  let c := fd_get (fdmap s) (efd ev) in
  let kill := eerr ev || eself ev in
  let nin := cin c && negb kill && negb (ein ev) in
  let nout := cout c && negb kill && negb (eout ev) in
  let derr := if eerr ev then SelFailed else if eself ev then SelErr else Ok in
  let fire_r := match rd c with Some _ => negb nin | None => false end in
  let fire_w := match wr c with Some _ => negb nout | None => false end in
  let c' := mkIod nin nout (if fire_r then None else rd c) (if fire_w then None else wr c) in
  let s1 := set_fdmap s (fd_put (fdmap s) (efd ev) c') in
  let s2 := if fire_r then push_opt (rd c) derr s1 else s1 in
  if fire_w then push_opt (wr c) derr s2 else s2.

Definition wait_time (s:st) : N :=
  let base := if q_nonempty s then 0%N else IDLE_MS in
  match timers s with [] => base | (d,_)::_ => N.min base (d - clock s) end.

(* the part of run_one executed with the lock held after (re)locking: either pop the next queue entry, or -
   when the drain is over - move the due timers, and return false (stopped) or start polling *)
Definition timers_stage (s:st) : st :=
  if stop s then set_lpc s Idle
  else let (q,t') := t_due (timers s) (clock s) in
       let s1 := set_timers (set_queue s (queue s ++ q)) t' in
       set_lpc (set_polling (set_pstart (set_timeout s1 (wait_time s1)) (clock s1)) true) Poll.
Definition after_lock (s:st) : st :=
  match queue s with
  | e :: q' =>
      if negb (stop s) && negb (Nat.eqb (counter s) 0)
      then set_lpc (set_running (set_queue s q') (Some e)) Popped
      else timers_stage s
  | [] => timers_stage s
  end.

Definition entry_toks (e:entry) : list N :=
  match e with Run h _ => [h] | Setter _ _ h => [h] | Cancl _ => [] end.
Definition iod_toks (c:iod) : list N := opt_list (rd c) ++ opt_list (wr c).
Definition queue_toks (q:list entry) : list N := flat_map entry_toks q.
Definition fdmap_toks (m:list (Z*iod)) : list N := flat_map (fun p => iod_toks (snd p)) m.

Inductive label :=
| LPost (h:N) (c:code)
| LSetIo (fd:Z) (d:dir) (h:N) (se:bool)
| LCancelIo (fd:Z)
| LSetTimer (h:N) (dl:N)
| LCancelTimer (h:N)
| LStop
| LReset
| LTick (d:N)
| LBegin
| LExec (se:bool)
| LDone
| LThrow
| LPollEnd (evs:list ioev) (intr:bool)
| LPollThrow.

Definition is_pc (s:st) (p:pc) : bool :=
  match lpc s, p with Idle,Idle => true | Popped,Popped => true | Executed,Executed => true | Poll,Poll => true | _,_ => false end.

Definition step (l:label) (s:st) : st :=
  match l with
  | LPost h c =>
      if fresh h s then wake_if_polling (push (Run h c) (submit h (KPost c) s)) else s
  | LSetIo fd d h se =>
      if fresh h s then
        let s1 := submit h (KIo fd d) s in
        if polling s1 || negb (reactor s1) then wake_if_polling (push (Setter fd d h) s1)
        else do_setter fd d h se s1
      else s
  | LCancelIo fd =>
      if Z.eqb fd (-1)%Z then s
      else if negb (q_nonempty s || iod_busy (fd_get (fdmap s) fd)) then s
      else if polling s || negb (reactor s) then wake_if_polling (push (Cancl fd) s)
      else do_canceler fd s
  | LSetTimer h dl =>
      if fresh h s then
        let s1 := set_timers (submit h (KTimer dl) s) (t_insert (timers s) dl h) in
        match timers s1 with
        | (d,_)::_ => if polling s1 && N.leb dl d then wake s1 else s1
        | [] => s1
        end
      else s
  | LCancelTimer h =>
      if t_mem (timers s) h
      then wake_if_polling (set_timers (push (Run h Canceled) s) (t_remove (timers s) h))
      else s
  | LStop => wake_if_polling (set_stop s true)
  | LReset =>
      if is_pc s Idle then
        set_woken (set_reactor (set_stop (set_fdmap (set_queue
          (set_dropped s (queue_toks (queue s) ++ fdmap_toks (fdmap s) ++ dropped s)) []) []) false) false) false
      else s
  | LTick d => set_clock s (clock s + d)
  | LBegin =>
      if is_pc s Idle then after_lock (set_counter (set_reactor s true) (length (queue s))) else s
  | LExec se =>
      if is_pc s Popped then
        let s1 := set_lpc (set_running s None) Executed in
        match running s with
        | Some (Run h c) => set_log s1 (log s1 ++ [(h,c,clock s1)])
        | Some (Setter fd d h) => do_setter fd d h se s1
        | Some (Cancl fd) => do_canceler fd s1
        | None => s1
        end
      else s
  | LDone => if is_pc s Executed then after_lock (set_counter s (pred (counter s))) else s
  | LThrow => if is_pc s Executed then set_lpc s Idle else s
  | LPollEnd evs intr =>
      if is_pc s Poll then
        let s1 := fold_left (fun a ev => dispatch ev a) evs (set_polling s false) in
        let s2 := if intr then set_woken s1 false else s1 in
        set_lpc (if stop s2 then wake s2 else s2) Idle
      else s
  | LPollThrow =>
      if is_pc s Poll && negb (q_nonempty s) then set_lpc (set_polling s false) Idle else s
  end.

Definition run_labels (ls:list label) (s:st) : st := fold_left (fun a l => step l a) ls s.

(* where each handler token currently is *)
Definition timer_toks (t:list (N*N)) : list N := map snd t.
Definition running_toks (r:option entry) : list N := match r with Some e => entry_toks e | None => [] end.
Definition log_toks (l:list (N*code*N)) : list N := map (fun x => fst (fst x)) l.
Definition tokens (s:st) : list N :=
  fdmap_toks (fdmap s) ++ timer_toks (timers s) ++ queue_toks (queue s) ++ running_toks (running s)
  ++ log_toks (log s) ++ dropped s.
Definition pending_toks (s:st) : list N :=
  fdmap_toks (fdmap s) ++ timer_toks (timers s) ++ queue_toks (queue s) ++ running_toks (running s).

(* ------------------------------------------------------------------------------------------------ *)
(* thread pool (src/thread_pool.cpp): one label = one critical section under mutex_ / one job body *)
Record pool := mkPool { pq : list (N*N) (* (id, job token) *); shut : bool; next_id : N;
                        wjob : list (N * option N) (* worker -> job it holds *); wexit : list N (* workers that returned *);
                        plog : list N (* jobs whose body was invoked *); pcan : list N (* jobs removed by cancel *);
                        pposted : list N }.
Definition pool0 : pool := mkPool [] false 0 [] [] [] [] [].
Inductive plabel :=
| PPost (j:N)                 (* post: id = job_id_++ *)
| PCancel (id:N)
| PWorkerLock (w:N)           (* one iteration of worker(): the locked part *)
| PWorkerRun (w:N) (exc:bool) (* the unlocked part: if(job) job(), exceptions swallowed *)
| PStop.

Fixpoint pq_remove (q:list (N*N)) (id:N) : option N * list (N*N) :=
  match q with
  | [] => (None, [])
  | (i,j)::r => if N.eqb i id then (Some j, r) else let (o,r') := pq_remove r id in (o, (i,j)::r')
  end.
Fixpoint w_get (l:list (N*option N)) (w:N) : option N :=
  match l with [] => None | (k,v)::r => if N.eqb k w then v else w_get r w end.
Fixpoint w_put (l:list (N*option N)) (w:N) (v:option N) : list (N*option N) :=
  match l with [] => [(w,v)] | (k,x)::r => if N.eqb k w then (k,v)::r else (k,x)::w_put r w v end.
Definition w_exited (p:pool) (w:N) : bool := existsb (N.eqb w) (wexit p).
Definition pfresh (j:N) (p:pool) : bool := negb (existsb (N.eqb j) (pposted p)).

(* returns the new state and the value returned to the caller (post: id, cancel: 1/0) *)
Definition pstep (l:plabel) (p:pool) : pool * N :=
  match l with
  | PPost j =>
      if pfresh j p
      then (mkPool (pq p ++ [(next_id p, j)]) (shut p) (next_id p + 1) (wjob p) (wexit p) (plog p) (pcan p) (pposted p ++ [j]), next_id p)
      else (p, 0)
  | PCancel id =>
      match pq_remove (pq p) id with
      | (Some j, q') => (mkPool q' (shut p) (next_id p) (wjob p) (wexit p) (plog p) (j :: pcan p) (pposted p), 1)
      | (None, _) => (p, 0)
      end
  | PWorkerLock w =>
      if w_exited p w then (p, 0)
      else match w_get (wjob p) w with
           | Some _ => (p, 0)              (* the worker is outside the lock, holding a job *)
           | None =>
             if shut p then (mkPool (pq p) (shut p) (next_id p) (wjob p) (w :: wexit p) (plog p) (pcan p) (pposted p), 0)
             else match pq p with
                  | (i,j)::q' => (mkPool q' (shut p) (next_id p) (w_put (wjob p) w (Some j)) (wexit p) (plog p) (pcan p) (pposted p), 1)
                  | [] => (p, 0)           (* cond_.wait *)
                  end
           end
  | PWorkerRun w exc =>
      match w_get (wjob p) w with
      | Some j => (mkPool (pq p) (shut p) (next_id p) (w_put (wjob p) w None) (wexit p) (plog p ++ [j]) (pcan p) (pposted p), 1)
      | None => (p, 0)
      end
  | PStop => (mkPool (pq p) true (next_id p) (wjob p) (wexit p) (plog p) (pcan p) (pposted p), 0)
  end.
Definition prun (ls:list plabel) (p:pool) : pool := fold_left (fun a l => fst (pstep l a)) ls p.
Definition wjob_toks (l:list (N*option N)) : list N := flat_map (fun x => opt_list (snd x)) l.
Definition ptokens (p:pool) : list N := map snd (pq p) ++ wjob_toks (wjob p) ++ plog p ++ pcan p.

(* ------------------------------------------------------------------------------------------------ *)
(* Layer B: the deterministic script interpreter used for the correspondence run (harness/C17_loop.cpp
   implements the same schedule around the real io_service).  It changes the loop state only via [step]. *)
Inductive op :=
| OP (k:N) | OPE (k:N) | OT (k:N) (d:Z) | OU (k:N) (d:Z) | OCT (k:N) | OI (k:N) (f:nat) | OO (k:N) (f:nat)
| OCF (f:nat) | OCL (f:nat) | OW (f:nat) | OR (f:nat) | OF (f:nat) | OD (f:nat) | OK (f:nat) | OA (d:N) | OX
| ORS (k:N) (f:nat) | OWS (k:N) (f:nat) (* stream_socket::async_read_some / async_write_some with user handler k *)
| ORA (k:N) (f:nat) (n:N) | OWA (k:N) (f:nat) (n:N) (* stream_socket::async_read / async_write of n bytes (reader_all / writer_all) *)
| ORO (f:nat) (* a new socket that receives the descriptor NUMBER of the closed device f is assigned to the device *)
| OTO (k:N) (ob:N) (d:Z) | OCO (ob:N) (* deadline_timer OBJECT ob: expires_at + async_wait(handler k) / cancel() *)
| ORL (f:nat) | OAT (f:nat) | OAS (f:nat) (* basic_io_device::release() / attach(same descriptor) / assign(same descriptor) on a non-owning device *).
Record osfd := mkOs { closedA : bool; hup : bool; inq : bool (* = 0 < inb *); full : bool;
                      nval : option (bool*bool) (* poll reactor: interest it silently dropped after POLLNVAL *) ;
                      inb : N (* bytes the peer wrote that side A has not read yet *) }.
Definition os0 := mkOs false false false false None 0.
Inductive skind := SP | SPE | ST (dl:N) | SI (f:nat) | SO (f:nat) | SRS (f:nat) | SWS (f:nat) | SRA (f:nat) (n:N) | SWA (f:nat) (n:N).
Inductive rkind := REpoll | RPoll | RSelect.
Record sim := mkSim { ms : st; os : list osfd; phases : list (list op); bodies : list (N * list op); stage : nat;
                      tmeta : list (N * (bool * N)); sout : list (N*skind); rk : rkind; pickhi : bool; mark : nat; pickall : bool;
                      (* composite operations: Layer A token (internal wait / immediate post) -> (user handler, is-read, device) *)
                      comp : list (N * (N * bool * nat * bool)) (* ... , all-variant *);
                      cprog : list (N * (N * N)) (* all-variants: user handler -> (bytes still wanted, bytes transferred) *);
                      cimm : list (N * N) (* immediate completions: post token -> code number the user handler gets *);
                      olog : list (N*N*N) (* user-visible completions: handler, code number, time *);
                      nextw : N (* next internal token *);
                      (* deadline_timer objects: event_id_ as the token it refers to (None = -1); token -> object; what the script expects to
                         be the outstanding wait of the object (last armed, not completed, not cancelled); effective cancels (token, time) *)
                      tobj : list (N * option N); towner : list (N*N); tnaive : list (N * option N); tcans : list (N*N);
                      nown : list nat (* devices that do NOT own their descriptor (owner_ == false): close() cancels the waits but
                                         neither closes the descriptor nor forgets it *) }.
Definition set_ms (x:sim) v := mkSim v (os x) (phases x) (bodies x) (stage x) (tmeta x) (sout x) (rk x) (pickhi x) (mark x) (pickall x) (comp x) (cprog x) (cimm x) (olog x) (nextw x) (tobj x) (towner x) (tnaive x) (tcans x) (nown x).
Definition set_os (x:sim) v := mkSim (ms x) v (phases x) (bodies x) (stage x) (tmeta x) (sout x) (rk x) (pickhi x) (mark x) (pickall x) (comp x) (cprog x) (cimm x) (olog x) (nextw x) (tobj x) (towner x) (tnaive x) (tcans x) (nown x).
Definition set_phases (x:sim) v := mkSim (ms x) (os x) v (bodies x) (stage x) (tmeta x) (sout x) (rk x) (pickhi x) (mark x) (pickall x) (comp x) (cprog x) (cimm x) (olog x) (nextw x) (tobj x) (towner x) (tnaive x) (tcans x) (nown x).
Definition set_stage (x:sim) v := mkSim (ms x) (os x) (phases x) (bodies x) v (tmeta x) (sout x) (rk x) (pickhi x) (mark x) (pickall x) (comp x) (cprog x) (cimm x) (olog x) (nextw x) (tobj x) (towner x) (tnaive x) (tcans x) (nown x).
Definition set_tmeta (x:sim) v := mkSim (ms x) (os x) (phases x) (bodies x) (stage x) v (sout x) (rk x) (pickhi x) (mark x) (pickall x) (comp x) (cprog x) (cimm x) (olog x) (nextw x) (tobj x) (towner x) (tnaive x) (tcans x) (nown x).
Definition set_mark (x:sim) v := mkSim (ms x) (os x) (phases x) (bodies x) (stage x) (tmeta x) (sout x) (rk x) (pickhi x) v (pickall x) (comp x) (cprog x) (cimm x) (olog x) (nextw x) (tobj x) (towner x) (tnaive x) (tcans x) (nown x).
Definition set_sout (x:sim) v := mkSim (ms x) (os x) (phases x) (bodies x) (stage x) (tmeta x) v (rk x) (pickhi x) (mark x) (pickall x) (comp x) (cprog x) (cimm x) (olog x) (nextw x) (tobj x) (towner x) (tnaive x) (tcans x) (nown x).

Definition set_comp (x:sim) c i n := mkSim (ms x) (os x) (phases x) (bodies x) (stage x) (tmeta x) (sout x) (rk x) (pickhi x) (mark x) (pickall x) c (cprog x) i (olog x) n (tobj x) (towner x) (tnaive x) (tcans x) (nown x).
Definition set_cprog (x:sim) v := mkSim (ms x) (os x) (phases x) (bodies x) (stage x) (tmeta x) (sout x) (rk x) (pickhi x) (mark x) (pickall x) (comp x) v (cimm x) (olog x) (nextw x) (tobj x) (towner x) (tnaive x) (tcans x) (nown x).
Definition set_olog (x:sim) v := mkSim (ms x) (os x) (phases x) (bodies x) (stage x) (tmeta x) (sout x) (rk x) (pickhi x) (mark x) (pickall x) (comp x) (cprog x) (cimm x) v (nextw x) (tobj x) (towner x) (tnaive x) (tcans x) (nown x).
Definition set_tim (x:sim) a b c d := mkSim (ms x) (os x) (phases x) (bodies x) (stage x) (tmeta x) (sout x) (rk x) (pickhi x) (mark x) (pickall x) (comp x) (cprog x) (cimm x) (olog x) (nextw x) a b c d (nown x).
Definition set_nown (x:sim) v := mkSim (ms x) (os x) (phases x) (bodies x) (stage x) (tmeta x) (sout x) (rk x) (pickhi x) (mark x) (pickall x) (comp x) (cprog x) (cimm x) (olog x) (nextw x) (tobj x) (towner x) (tnaive x) (tcans x) v.
Definition not_owner (x:sim) (f:nat) : bool := existsb (Nat.eqb f) (nown x).
Definition stp (l:label) (x:sim) : sim := set_ms x (step l (ms x)).
Definition os_get (x:sim) (f:nat) : osfd := nth f (os x) os0.
Fixpoint list_put {A} (l:list A) (i:nat) (v:A) : list A :=
  match l, i with [], _ => [] | _::r, O => v::r | a::r, S j => a :: list_put r j v end.
Definition os_put (x:sim) (f:nat) (v:osfd) : sim := set_os x (list_put (os x) f v).
Definition devfd (x:sim) (f:nat) : Z := if closedA (os_get x f) then (-1)%Z else Z.of_nat f.
(* epoll_ctl on a descriptor that has been closed fails with EBADF; poll/select reactors only record the interest *)
Definition se_for (x:sim) (fd:Z) : bool :=
  match rk x with REpoll => Z.leb 0 fd && closedA (os_get x (Z.to_nat fd)) | _ => false end.
Definition add_sout (k:N) (v:skind) (x:sim) : sim := set_sout x (sout x ++ [(k,v)]).
Fixpoint assoc {A} (l:list (N*A)) (k:N) : option A :=
  match l with [] => None | (a,v)::r => if N.eqb a k then Some v else assoc r k end.

(* ---- composite operations built on set_io_event (booster/lib/aio/src/stream_socket.cpp: async_read_some, async_write_some,
   reader_some, writer_some).  Code numbers of the user-visible log: 0 ok, 1 canceled, 2 select_failed, 3 EBADF, 4 eof, 5 EPIPE *)
Definition codenum (c:code) : N := match c with Ok => 0 | Canceled => 1 | SelFailed => 2 | EBadf => 3 | SelErr => 3 end.
(* read_some / write_some on device f with room for [want] bytes: None = would block, Some (0,n) = n > 0 bytes transferred,
   Some (c,0) = fails with code c (3 EBADF on a closed device, 4 eof, 5 EPIPE) *)
Definition XFER_BUF : N := 8192.
Definition try_io (x:sim) (isrd:bool) (f:nat) (want:N) : option (N*N) * sim :=
  let o := os_get x f in
  if closedA o then (Some (3,0), x)
  else if isrd then
    if inq o then let got := N.min (inb o) want in
                  let left := inb o - got in
                  (Some (0,got), os_put x f (mkOs false (hup o) (N.ltb 0 left) (full o) (nval o) left))
    else if hup o then (Some (4,0), x) else (None, x)
  else if hup o then (Some (5,0), x) else if full o then (None, x) else (Some (0,want), x).
Definition reg_comp (t k:N) (isrd:bool) (f:nat) (al:bool) (im:option N) (x:sim) : sim :=
  set_comp x ((t,(k,isrd,f,al)) :: comp x) (match im with Some n => (t,n) :: cimm x | None => cimm x end) (nextw x + 1).
Definition comp_wait (k:N) (isrd:bool) (f:nat) (al:bool) (x:sim) : sim :=
  let t := nextw x in
  stp (LSetIo (devfd x f) (if isrd then DIn else DOut) t (se_for x (devfd x f))) (reg_comp t k isrd f al None x).
(* code number of the user-visible log for the all-variants: code + 10 * (bytes transferred + 1) *)
Definition allcode (c cnt:N) : N := c + 10 * (cnt + 1).
Definition prog_of (x:sim) (k:N) : N*N := match assoc (cprog x) k with Some p => p | None => (0,0) end.
(* one transfer attempt of user handler k: inl n = the operation completes with log code n, inr x' = it has to wait (again) *)
Definition xfer_step (k:N) (isrd:bool) (f:nat) (al:bool) (x:sim) : N * bool * sim :=
  if al then
    let (need, cnt) := prog_of x k in
    let (r, x1) := try_io x isrd f need in
    match r with
    | Some (0, got) => let x2 := set_cprog x1 ((k,(need - got, cnt + got)) :: cprog x1) in
                       if N.eqb (need - got) 0 then (allcode 0 (cnt + got), true, x2) else (0, false, x2)
    | Some (c, _) => (allcode c cnt, true, x1)
    | None => (0, false, x1)
    end
  else
    let (r, x1) := try_io x isrd f (if isrd then XFER_BUF else 1) in
    match r with Some (c, _) => (c, true, x1) | None => (0, false, x1) end.
(* start of the operation: complete at once through post(h,e,n), or wait *)
Definition comp_start (k:N) (isrd:bool) (f:nat) (al:bool) (x:sim) : sim :=
  match xfer_step k isrd f al x with
  | (n, true, x1) => let t := nextw x1 in stp (LPost t Ok) (reg_comp t k isrd f al (Some n) x1)
  | (_, false, x1) => comp_wait k isrd f al x1
  end.
Definition add_olog (h n:N) (x:sim) : sim := set_olog x (olog x ++ [(h, n, clock (ms x))]).

Definition do_op (o:op) (x:sim) : sim :=
  match o with
  | OP k => stp (LPost k Ok) (add_sout k SP x)
  | OPE k => stp (LPost k Canceled) (add_sout k SPE x)
  | OT k d => let dl := Z.to_N (Z.of_N (clock (ms x)) + d) in
              stp (LSetTimer k dl) (set_tmeta (add_sout k (ST dl) x) ((k,(false,dl)) :: tmeta x))
  | OU k d => let dl := Z.to_N (Z.of_N (clock (ms x)) + d) in
              stp (LSetTimer k dl) (set_tmeta (add_sout k (ST dl) x) ((k,(true,dl)) :: tmeta x))
  | OCT k => match assoc (tmeta x) k with
             | None => x
             | Some (raw,dl) => if raw then stp (LCancelTimer k) x
                                else if N.leb dl (clock (ms x)) then x else stp (LCancelTimer k) x
             end
  | OI k f => stp (LSetIo (devfd x f) DIn k (se_for x (devfd x f))) (add_sout k (SI f) x)
  | OO k f => stp (LSetIo (devfd x f) DOut k (se_for x (devfd x f))) (add_sout k (SO f) x)
  | OCF f => stp (LCancelIo (devfd x f)) x
  | OCL f => let o := os_get x f in
             if closedA o then x
             else if not_owner x f then stp (LCancelIo (Z.of_nat f)) x   (* close() of a non-owning device: cancel(), nothing else *)
             else os_put (stp (LCancelIo (Z.of_nat f)) x) f (mkOs true (hup o) (inq o) (full o) (nval o) (inb o))
  | OW f => let o := os_get x f in
            if closedA o || hup o then x else os_put x f (mkOs false false true (full o) (nval o) (inb o + 1))
  | OR f => let o := os_get x f in
            if closedA o then x else os_put x f (mkOs false (hup o) false (full o) (nval o) 0)
  | OF f => let o := os_get x f in
            if closedA o || hup o then x else os_put x f (mkOs false false (inq o) true (nval o) (inb o))
  | OD f => let o := os_get x f in
            if hup o then x else os_put x f (mkOs (closedA o) false (inq o) false (nval o) (inb o))
  | OK f => let o := os_get x f in
            if hup o then x else os_put x f (mkOs (closedA o) true (inq o) false (nval o) (inb o))
  | OA d => stp (LTick d) x
  | OX => stp LStop x
  | ORO f => let o := os_get x f in if closedA o then os_put x f os0 else x
  | ORL f => if closedA (os_get x f) || not_owner x f then x else set_nown x (f :: nown x)
  (* attach(fd) = close(e) - which cancels the waits and closes only an owned descriptor - then fd_ = fd, owner_ = false; the script
     attaches the descriptor the device already has, after release() *)
  | OAT f => if closedA (os_get x f) then x
             else let x1 := stp (LCancelIo (Z.of_nat f)) x in if not_owner x f then x1 else set_nown x1 (f :: nown x1)
  (* assign(fd) on a non-owning device with its own descriptor: close(e) cancels, then owner_ = true *)
  | OAS f => if closedA (os_get x f) || negb (not_owner x f) then x
             else set_nown (stp (LCancelIo (Z.of_nat f)) x) (filter (fun g => negb (Nat.eqb g f)) (nown x))
  | OTO k ob d =>
      (* deadline_timer::async_wait: event_id_ = set_timer_event(deadline_, waiter) *)
      let dl := Z.to_N (Z.of_N (clock (ms x)) + d) in
      let x1 := set_tmeta (add_sout k (ST dl) x) ((k,(false,dl)) :: tmeta x) in
      stp (LSetTimer k dl) (set_tim x1 ((ob, Some k) :: tobj x1) ((k,ob) :: towner x1) ((ob, Some k) :: tnaive x1) (tcans x1))
  | OCO ob =>
      (* the script calls cancel() only while the wait it believes outstanding is certainly still armed (deadline in the future);
         deadline_timer::cancel: if(event_id_ != -1) { tmp = event_id_; event_id_ = -1; cancel_timer_event(tmp); } *)
      match assoc (tnaive x) ob with
      | Some (Some k) =>
          match assoc (tmeta x) k with
          | Some (_, dl) =>
              if N.ltb (clock (ms x)) dl then
                let x1 := set_tim x (tobj x) (towner x) ((ob, None) :: tnaive x) (tcans x ++ [(k, clock (ms x))]) in
                match assoc (tobj x1) ob with
                | Some (Some t) => stp (LCancelTimer t) (set_tim x1 ((ob, None) :: tobj x1) (towner x1) (tnaive x1) (tcans x1))
                | _ => x1
                end
              else x
          | None => x
          end
      | _ => x
      end
  | ORS k f => comp_start k true f false (add_sout k (SRS f) x)
  | OWS k f => comp_start k false f false (add_sout k (SWS f) x)
  | ORA k f n => comp_start k true f true (set_cprog (add_sout k (SRA f n) x) ((k,(n,0)) :: cprog x))
  | OWA k f n => comp_start k false f true (set_cprog (add_sout k (SWA f n) x) ((k,(n,0)) :: cprog x))
  end.
Definition do_ops (ops:list op) (x:sim) : sim := fold_left (fun a o => do_op o a) ops x.
Definition body_of (x:sim) (h:N) : list op := match assoc (bodies x) h with Some b => b | None => [] end.

Definition is_select (r:rkind) : bool := match r with RSelect => true | _ => false end.
Definition is_epoll (r:rkind) : bool := match r with REpoll => true | _ => false end.
Definition cur_of (x:sim) (f:nat) : iod := fd_get (fdmap (ms x)) (Z.of_nat f).
Definition fd_event (x:sim) (f:nat) : ioev :=
  let o := os_get x f in let c := cur_of x f in
  mkEv (Z.of_nat f) (cin c && (inq o || hup o)) (cout c && negb (full o)) (hup o && negb (is_select (rk x))) false.
Definition fd_ready (x:sim) (f:nat) : bool :=
  let o := os_get x f in let c := cur_of x f in
  if closedA o then false else if negb (cin c || cout c) then false
  else let e := fd_event x f in ein e || eout e || eerr e.
Definition same_interest (a:option (bool*bool)) (c:iod) : bool :=
  match a with Some (i,o) => Bool.eqb i (cin c) && Bool.eqb o (cout c) | None => false end.
Definition closed_registered (x:sim) (f:nat) : bool :=
  let c := cur_of x f in closedA (os_get x f) && (cin c || cout c) && negb (same_interest (nval (os_get x f)) c).
Definition mark_nval (x:sim) (f:nat) : sim :=
  if closed_registered x f then
    let o := os_get x f in let c := cur_of x f in
    os_put x f (mkOs (closedA o) (hup o) (inq o) (full o) (Some (cin c, cout c)) (inb o))
  else x.
Definition choose (x:sim) (l:list nat) : option nat :=
  if pickhi x then match rev l with a::_ => Some a | [] => None end else match l with a::_ => Some a | [] => None end.

Definition cancel_all (x:sim) : sim :=
  fold_left (fun a f => stp (LCancelIo (devfd a f)) a) (seq 0 (length (os x)))
            (set_mark (set_stage x 1%nat) (length (sout x))).
(* what the interposed poll does when the real system call (timeout 0) reported nothing *)
Definition nothing_ready (x:sim) : sim :=
  let t := timeout (ms x) in
  if N.eqb t 0 then x
  else if N.ltb t IDLE_MS then stp (LTick t) x
  else match stage x with
       | O => match phases x with
              | _::_ => x
              | [] => cancel_all x
              end
       | S O => if Nat.eqb (length (sout x)) (mark x) then stp LStop (set_stage x 2%nat) else cancel_all x
       | _ => x
       end.

Definition poll_phase (x0:sim) : sim :=
  let x := match stage x0, phases x0 with
           | O, ops::r => do_ops ops (set_phases x0 r)
           | _, _ => x0 end in
  let fds := seq 0 (length (os x)) in
  if existsb (closed_registered x) fds && negb (is_epoll (rk x))
  then
    if is_select (rk x)
    then (* select() fails with EBADF: no event at all; run_one throws if the dispatch queue is empty *)
         if q_nonempty (ms x) then stp (LPollEnd [] false) x else set_stage (stp LPollThrow x) 3%nat
    else (* poll(): POLLNVAL, poll_reactor drops the descriptor from its set *)
         fold_left mark_nval fds (stp (LPollEnd [] (woken (ms x))) x)
  else
    let ch := choose x (filter (fd_ready x) fds) in
    let intr := woken (ms x) in
    if pickall x && match ch with Some _ => true | None => false end
    then (* batch mode: every ready descriptor is reported (the real loop shuffles them; the check sorts) *)
         stp (LPollEnd (map (fd_event x) (filter (fd_ready x) fds)) intr) x
    else
    match ch with
    | Some f => stp (LPollEnd [fd_event x f] intr) x
    | None => if intr then stp (LPollEnd [] true) x else stp (LPollEnd [] false) (nothing_ready x)
    end.

(* what the invocation of Layer A handler h with code c does: a plain handler is logged and runs its body; the internal handler
   of a composite operation completes the user handler (immediate post: with the stored code; failed wait: with the error;
   successful wait: tries the transfer again and completes, or waits again when it would still block) *)
Definition complete (k n:N) (x:sim) : sim := do_ops (body_of x k) (add_olog k n x).
Definition after_exec (h:N) (c:code) (x:sim) : sim :=
  match assoc (comp x) h with
  | None =>
      (* deadline_timer::waiter::operator(): self->event_id_ = -1; h(e);  - the id is wiped whichever wait of the object completes *)
      let x0 := match assoc (towner x) h with
                | Some ob => set_tim x ((ob, None) :: tobj x) (towner x)
                               (match assoc (tnaive x) ob with Some (Some k) => if N.eqb k h then (ob, None) :: tnaive x else tnaive x | _ => tnaive x end)
                               (tcans x)
                | None => x end in
      complete h (codenum c) x0
  | Some (k,isrd,f,al) =>
      match assoc (cimm x) h with
      | Some n => complete k n x
      | None =>
          match c with
          | Ok => match xfer_step k isrd f al x with
                  | (n, true, x1) => complete k n x1
                  | (_, false, x1) => comp_wait k isrd f al x1
                  end
          | _ => complete k (if al then allcode (codenum c) (snd (prog_of x k)) else codenum c) x
          end
      end
  end.

Fixpoint run_sim (fuel:nat) (x:sim) : sim * bool :=
  match fuel with
  | O => (x,false)
  | S n =>
    match lpc (ms x) with
    | Popped =>
        let e := running (ms x) in
        let se := match e with Some (Setter fd _ _) => se_for x fd | _ => false end in
        let x1 := stp (LExec se) x in
        let x2 := match e with Some (Run h c) => after_exec h c x1 | _ => x1 end in
        run_sim n (stp LDone x2)
    | Executed => run_sim n (stp LDone x)
    | Poll => run_sim n (poll_phase x)
    | Idle =>
        if Nat.eqb (stage x) 3 then (x,true) else
        if stop (ms x) then
          match stage x with
          | S (S _) => (x,true)
          | _ => let x1 := stp LReset x in
                 let x2 := match phases x1 with ops::r => do_ops ops (set_phases x1 r) | [] => x1 end in
                 run_sim n (stp LBegin x2)
          end
        else run_sim n (stp LBegin x)
    end
  end.

Definition START_MS : N := 100000.
Definition sim0 (r:rkind) (hi al:bool) (nfd:nat) (ph:list (list op)) (bd:list (N*list op)) : sim :=
  mkSim (set_clock st0 START_MS) (repeat os0 nfd) ph bd 0%nat [] [] r hi 0%nat al [] [] [] [] 1000000 [] [] [] [] [].
Definition run_script (fuel:nat) (r:rkind) (hi al:bool) (nfd:nat) (ph:list (list op)) (bd:list (N*list op)) : sim * bool :=
  let x := sim0 r hi al nfd ph bd in
  let x1 := match phases x with ops::rest => do_ops ops (set_phases x rest) | [] => x end in
  run_sim fuel x1.

(* ------------------------------------------------------------------------------------------------ *)
(* Layer B for the pool: one worker, gate jobs; the schedule harness/C17_pool.cpp enforces with condition variables *)
Inductive qop := QP (k:N) (kd:N) (* kd: 0 normal, 1 throws std::exception, 2 throws int, 3 gate *) | QC (k:N) | QG (k:N) | QS.
Record psim := mkPsim { pp : pool; pids : list (N*N); gclosed : list N; pkinds : list (N*N); pcres : list (N*N);
                        pstopn : option N (* number of jobs dequeued when stop() was first called *) }.
Definition psim0 : psim := mkPsim pool0 [] [] [] [] None.
Definition nmem (k:N) (l:list N) : bool := existsb (N.eqb k) l.
Fixpoint settle (fuel:nat) (x:psim) : psim :=
  match fuel with
  | O => x
  | S n =>
    match w_get (wjob (pp x)) 0 with
    | Some j =>
        if nmem j (gclosed x) then x
        else let exc := match assoc (pkinds x) j with Some 1 => true | Some 2 => true | _ => false end in
             settle n (mkPsim (fst (pstep (PWorkerRun 0 exc) (pp x))) (pids x) (gclosed x) (pkinds x) (pcres x) (pstopn x))
    | None =>
        if w_exited (pp x) 0 then x
        else let (p',r) := pstep (PWorkerLock 0) (pp x) in
             if N.eqb r 1 then settle n (mkPsim p' (pids x) (gclosed x) (pkinds x) (pcres x) (pstopn x))
             else mkPsim p' (pids x) (gclosed x) (pkinds x) (pcres x) (pstopn x)
    end
  end.
Definition do_qop (fuel:nat) (o:qop) (x:psim) : psim :=
  match o with
  | QP k kd =>
      if pfresh k (pp x) then
        let (p',id) := pstep (PPost k) (pp x) in
        settle fuel (mkPsim p' ((k,id) :: pids x) (if N.eqb kd 3 then k :: gclosed x else gclosed x) ((k,kd) :: pkinds x) (pcres x) (pstopn x))
      else x
  | QC k =>
      match assoc (pids x) k with
      | Some id => let (p',r) := pstep (PCancel id) (pp x) in
                   settle fuel (mkPsim p' (pids x) (gclosed x) (pkinds x) (pcres x ++ [(k,r)]) (pstopn x))
      | None => x
      end
  | QG k => settle fuel (mkPsim (pp x) (pids x) (filter (fun g => negb (N.eqb g k)) (gclosed x)) (pkinds x) (pcres x) (pstopn x))
  | QS => (* stop(): when a gate job is running, stop() blocks in join until the gate is opened (settle stops at the gate);
             only the first stop counts (the harness never calls stop() twice) *)
          if shut (pp x) then x else
          let started := N.of_nat (length (plog (pp x)) + length (wjob_toks (wjob (pp x)))) in
          settle fuel (mkPsim (fst (pstep PStop (pp x))) (pids x) (gclosed x) (pkinds x) (pcres x) (Some started))
  end.
Definition run_pool_script (fuel:nat) (ops:list qop) : psim :=
  let x := fold_left (fun a o => do_qop fuel o a) ops psim0 in
  settle fuel (mkPsim (pp x) (pids x) [] (pkinds x) (pcres x) (pstopn x)).
