(* C17 proofs: the thread pool - a queued job runs despite interference by client threads *)
From CppcmsV Require Import Base.Tac C17.Defs C17.Proofs C17.Proofs2 C17.Proofs3 C17.Pool2.
Import ListNotations. Local Open Scope N_scope.

(* steps of client threads that may interleave freely: posting anything, cancelling any id except [i];
   PStop and the steps of other workers are excluded *)
Definition client_but (i:N) (l:plabel) : bool :=
  match l with PPost _ => true | PCancel id => negb (N.eqb id i) | _ => false end.
Definition clients_but i ls : Prop := forallb (client_but i) ls = true.
(* worker w performs n times (PWorkerLock w; PWorkerRun w e) with client steps anywhere in between *)
Inductive wpairs (i w:N) : nat -> list plabel -> Prop :=
| wpairs_O o : clients_but i o -> wpairs i w 0 o
| wpairs_S n o1 e o2 rest : clients_but i o1 -> clients_but i o2 -> wpairs i w n rest ->
    wpairs i w (S n) (o1 ++ [PWorkerLock w] ++ o2 ++ [PWorkerRun w e] ++ rest).

(* ---------------------------------------------------------------------------------------------- *)
(* the queue shape under a cancel of another id: the entry stays, the front does not grow *)
Lemma pq_remove_keeps_other : forall f i j b id, id <> i ->
  exists f2 b2, snd (pq_remove (f ++ (i,j) :: b) id) = f2 ++ (i,j) :: b2 /\ (length f2 <= length f)%nat.
Proof.
  induction f as [|[a x] f IH]; intros i j b id NE.
  - exists [], (snd (pq_remove b id)). cbn [app pq_remove length].
    destruct (N.eqb_spec i id) as [E|_]; [congruence|].
    destruct (pq_remove b id) as [o r2]. cbn [snd]. split; [reflexivity|lia].
  - cbn [app pq_remove]. destruct (N.eqb a id).
    + exists f, b. cbn [snd length]. split; [reflexivity|lia].
    + destruct (IH i j b id NE) as [f2 [b2 [E L]]].
      destruct (pq_remove (f ++ (i,j) :: b) id) as [o r2]. cbn [snd] in *.
      exists ((a,x) :: f2), b2. rewrite E. cbn [app length]. split; [reflexivity|lia].
Qed.

(* ---------------------------------------------------------------------------------------------- *)
(* client steps leave shutdown flag, exited set, worker slots and the log alone *)
Lemma client_frame i l p : client_but i l = true ->
  shut (fst (pstep l p)) = shut p /\ wexit (fst (pstep l p)) = wexit p /\
  wjob (fst (pstep l p)) = wjob p /\ plog (fst (pstep l p)) = plog p.
Proof.
  intros C. destruct l; cbn [client_but] in C; try discriminate C; cbn [pstep].
  - destruct (pfresh j p); cbn [fst]; repeat split.
  - destruct (pq_remove (pq p) id) as [[x|] q2]; cbn [fst]; repeat split.
Qed.

Lemma client_queue i j l p f b : client_but i l = true -> pq p = f ++ (i,j) :: b ->
  exists f2 b2, pq (fst (pstep l p)) = f2 ++ (i,j) :: b2 /\ (length f2 <= length f)%nat.
Proof.
  intros C Q. destruct l; cbn [client_but] in C; try discriminate C; cbn [pstep].
  - destruct (pfresh j0 p); cbn [fst pq].
    + exists f, (b ++ [(next_id p, j0)]). rewrite Q, <- app_assoc. split; [reflexivity|lia].
    + exists f, b. split; [exact Q|lia].
  - apply negb_true_iff in C. apply N.eqb_neq in C.
    destruct (pq_remove_keeps_other f i j b id C) as [f2 [b2 [E L]]]. rewrite <- Q in E.
    destruct (pq_remove (pq p) id) as [[x|] q2]; cbn [fst snd pq] in *.
    + exists f2, b2. split; [exact E|exact L].
    + exists f, b. split; [exact Q|lia].
Qed.

(* ---------------------------------------------------------------------------------------------- *)
(* the invariant: the pool runs, the worker is alive, and the job is logged, or held by the worker,
   or queued with fewer than n entries in front *)
Definition jstate (i j w:N) (n:nat) (p:pool) : Prop :=
  shut p = false /\ w_exited p w = false /\
  (In j (plog p) \/ w_get (wjob p) w = Some j \/
   exists f b, pq p = f ++ (i,j) :: b /\ (length f < n)%nat).
Definition jidle (i j w:N) (n:nat) (p:pool) : Prop := jstate i j w n p /\ w_get (wjob p) w = None.

Lemma jstate_client i j w n l p : client_but i l = true -> jstate i j w n p -> jstate i j w n (fst (pstep l p)).
Proof.
  intros C [S [E H]]. destruct (client_frame i l p C) as [F1 [F2 [F3 F4]]].
  split; [congruence|]. split; [unfold w_exited in *; congruence|].
  destruct H as [H|[H|[f [b [Q L]]]]].
  - left. congruence.
  - right. left. congruence.
  - right. right. destruct (client_queue i j l p f b C Q) as [f2 [b2 [Q2 L2]]].
    exists f2, b2. split; [exact Q2|lia].
Qed.

Lemma jidle_client i j w n l p : client_but i l = true -> jidle i j w n p -> jidle i j w n (fst (pstep l p)).
Proof.
  intros C [H G]. split; [apply jstate_client; assumption|].
  destruct (client_frame i l p C) as [_ [_ [F3 _]]]. congruence.
Qed.

Lemma jstate_clients i j w n ls : clients_but i ls -> forall p, jstate i j w n p -> jstate i j w n (prun ls p).
Proof.
  unfold clients_but. induction ls as [|l r IH]; intros C p H; [exact H|].
  cbn [forallb] in C. apply andb_true_iff in C. destruct C as [C1 C2].
  rewrite prun_cons. apply IH; [exact C2|]. apply jstate_client; assumption.
Qed.

Lemma jidle_clients i j w n ls : clients_but i ls -> forall p, jidle i j w n p -> jidle i j w n (prun ls p).
Proof.
  unfold clients_but. induction ls as [|l r IH]; intros C p H; [exact H|].
  cbn [forallb] in C. apply andb_true_iff in C. destruct C as [C1 C2].
  rewrite prun_cons. apply IH; [exact C2|]. apply jidle_client; assumption.
Qed.

(* the locked part of one iteration: the worker takes the head of the queue *)
Lemma jidle_lock i j w n p : jidle i j w (S n) p -> jstate i j w n (fst (pstep (PWorkerLock w) p)).
Proof.
  intros [[S [E H]] G]. cbn [pstep]. rewrite E, G, S.
  destruct H as [H|[H|[f [b [Q L]]]]].
  - destruct (pq p) as [|[a x] q2]; cbn [fst]; (split; [first [exact S|reflexivity]|]; split; [exact E|]; left; exact H).
  - congruence.
  - rewrite Q. destruct f as [|[a x] f]; cbn [app fst].
    + split; [first [exact S|reflexivity]|]. split; [exact E|]. right. left. cbn [wjob]. apply w_get_put_same.
    + split; [first [exact S|reflexivity]|]. split; [exact E|]. right. right. cbn [pq]. exists f, b.
      split; [reflexivity|]. cbn [length] in L. lia.
Qed.

(* the unlocked part: the held job is run *)
Lemma jstate_run i j w n e p : jstate i j w n p -> jidle i j w n (fst (pstep (PWorkerRun w e) p)).
Proof.
  intros [S [E H]]. cbn [pstep]. destruct (w_get (wjob p) w) as [x|] eqn:G; cbn [fst].
  - split; [|cbn [wjob]; apply w_get_put_same].
    split; [exact S|]. split; [exact E|]. cbn [plog pq wjob].
    destruct H as [H|[H|H]].
    + left. apply in_or_app. left. exact H.
    + left. apply in_or_app. right. left. congruence.
    + right. right. exact H.
  - split; [|exact G]. split; [exact S|]. split; [exact E|].
    destruct H as [H|[H|H]]; [left; exact H|congruence|right; right; exact H].
Qed.

Lemma jidle_zero i j w p : jidle i j w 0 p -> In j (plog p).
Proof.
  intros [[_ [_ H]] G]. destruct H as [H|[H|[f [b [_ L]]]]]; [exact H|congruence|lia].
Qed.

(* generalized induction on the number of remaining iterations *)
Lemma wpairs_drain i j w : forall n ls, wpairs i w n ls -> forall p, jidle i j w n p -> In j (plog (prun ls p)).
Proof.
  intros n ls W. induction W as [o C|n o1 e o2 rest C1 C2 W IH]; intros p H.
  - apply (jidle_zero i j w). apply jidle_clients; assumption.
  - rewrite prun_app. cbn [app]. rewrite prun_cons, prun_app, prun_cons. apply IH.
    apply jstate_run. apply jstate_clients; [exact C2|]. apply jidle_lock.
    apply jidle_clients; assumption.
Qed.

(* ---------------------------------------------------------------------------------------------- *)
Theorem queued_job_runs_despite_interference :
  forall p w q1 i j q2 ls, shut p = false -> w_exited p w = false -> w_get (wjob p) w = None ->
    pq p = q1 ++ (i,j) :: q2 -> wpairs i w (S (length q1)) ls -> In j (plog (prun ls p)).
Proof.
  intros p w q1 i j q2 ls S E G Q W. apply (wpairs_drain i j w _ ls W).
  split; [|exact G]. split; [exact S|]. split; [exact E|]. right. right.
  exists q1, q2. split; [exact Q|lia].
Qed.
