(* C17 -- composite operations built on set_io_event: stream_socket::async_read_some / async_write_some and their internal
   handlers reader_some / writer_some (booster/lib/aio/src/stream_socket.cpp), as a layer over the event-loop model (Defs.v).
   Executable definitions only.  A user handler [u] is completed through a chain of Layer A tokens: either one posted token
   (the operation completed at once: post(h,e,n)) or internal wait tokens t1, t2, ...: when the wait ti is completed with an
   error (canceled, select_failed, EBADF) the user handler is called with that error; when it is completed with success the
   internal handler tries the transfer again and either calls the user handler (data, eof, error) or - if it would still
   block - waits again with a fresh token.  The user handler is called inside the invocation of the internal handler, i.e. by
   the exec step of the loop thread.  Any list of [clabel] is any interleaving of any number of threads. *)
From CppcmsV Require Import Base.Tac C17.Defs.
Import ListNotations.
Local Open Scope N_scope.

Inductive cres := CAgain (t2:N) (fd:Z) (d:dir) (se:bool) | CDone (n:N).
Record cst := mkC { base : st; owner : list (N*N) (* Layer A token -> user handler *);
                    cimmed : list (N*N) (* posted tokens: the code number the user handler gets *);
                    ulog : list (N*N) (* user handler, code number *); ustarted : list N }.
Definition cst0 : cst := mkC st0 [] [] [] [].
Inductive clabel :=
| CL (l:label)                                 (* any Layer A step of any thread other than the exec step *)
| CStartPost (u t n:N)                         (* async_*_some completed at once: post(h,e,n), code number n *)
| CStartWait (u t:N) (fd:Z) (d:dir) (se:bool)  (* would block: on_readable / on_writeable (internal handler) *)
| CExec (se:bool) (r:cres).                    (* exec step of the loop thread; r = what an internal handler does after a successful wait *)
Definition ufresh (u:N) (c:cst) : bool := negb (existsb (N.eqb u) (ustarted c)).
Definition is_exec (l:label) : bool := match l with LExec _ => true | _ => false end.
Definition cstep (l:clabel) (c:cst) : cst :=
  match l with
  | CL l0 => if is_exec l0 then c else mkC (step l0 (base c)) (owner c) (cimmed c) (ulog c) (ustarted c)
  | CStartPost u t n =>
      if ufresh u c && fresh t (base c)
      then mkC (step (LPost t Ok) (base c)) ((t,u) :: owner c) ((t,n) :: cimmed c) (ulog c) (u :: ustarted c) else c
  | CStartWait u t fd d se =>
      if ufresh u c && fresh t (base c)
      then mkC (step (LSetIo fd d t se) (base c)) ((t,u) :: owner c) (cimmed c) (ulog c) (u :: ustarted c) else c
  | CExec se r =>
      if is_pc (base c) Popped then
        match running (base c) with
        | Some (Run t cd) =>
            let b1 := step (LExec se) (base c) in
            match assoc (owner c) t with
            | None => mkC b1 (owner c) (cimmed c) (ulog c) (ustarted c)
            | Some u =>
                match assoc (cimmed c) t with
                | Some n => mkC b1 (owner c) (cimmed c) (ulog c ++ [(u,n)]) (ustarted c)
                | None =>
                    match cd with
                    | Ok => match r with
                            | CDone n => mkC b1 (owner c) (cimmed c) (ulog c ++ [(u,n)]) (ustarted c)
                            | CAgain t2 fd d se2 =>
                                if fresh t2 b1 then mkC (step (LSetIo fd d t2 se2) b1) ((t2,u) :: owner c) (cimmed c) (ulog c) (ustarted c) else c
                            end
                    | _ => mkC b1 (owner c) (cimmed c) (ulog c ++ [(u, codenum cd)]) (ustarted c)
                    end
                end
            end
        | _ => mkC (step (LExec se) (base c)) (owner c) (cimmed c) (ulog c) (ustarted c)
        end
      else c
  end.
Definition crun (ls:list clabel) (c:cst) : cst := fold_left (fun a l => cstep l a) ls c.
