(* C17 -- tie of the model (Defs.v) to the CURRENT source: coq/gen/Gen_C17_loop.v is generated on every run by tools/cxx2v.py
   from a tiny TU into which checks/C17.py (gen_leaf_tu) lifts, textually, every guard condition, the event-mask arithmetic
   and the constants of booster/lib/aio/src/io_service.cpp (+ aio/types.h, aio/reactor.h).  Here each generated leaf is proved
   equal to what the model does at the same place; the step-level lemmas restate the model step with the generated guard in
   the place of the hand-written one.  Booleans of the code are passed as 0/1 ([Z.b2z]); [nz] is the C truth test. *)
From CppcmsV Require Import Base.Tac C17.Defs C17.Proofs C17.Proofs2 C17.Proofs4 C17.Proofs7 gen.Gen_C17_loop.
Import ListNotations.
Local Open Scope Z_scope.

Definition nz (z:Z) : bool := negb (Z.eqb z 0).
Definition bz (b:bool) : Z := Z.b2z b.
Lemma nz_bz b : nz (bz b) = b. Proof. destruct b; reflexivity. Qed.

(* ---- constants *)
Lemma link_constants :
  g_c17_ev_in = 1 /\ g_c17_ev_out = 2 /\ g_c17_ev_err = 4 /\
  g_c17_use_select = 1 /\ g_c17_use_poll = 2 /\ g_c17_use_epoll = 3 /\ g_c17_invalid_socket = -1.
Proof. vm_compute. repeat split. Qed.

(* the event word of the code for the booleans of the model *)
Definition evword (i o e:bool) : Z := bz i * g_c17_ev_in + bz o * g_c17_ev_out + bz e * g_c17_ev_err.
Definition curword (i o:bool) : Z := bz i * g_c17_ev_in + bz o * g_c17_ev_out.

(* ---- post / stop / cancel_timer_event: wake iff polling_ *)
Lemma link_wake_iff_polling p :
  nz (g_c17_post_wake_h (bz p)) = p /\ nz (g_c17_post_wake_eh (bz p)) = p /\ nz (g_c17_post_wake_ioh (bz p)) = p /\
  nz (g_c17_stop_wake (bz p)) = p /\ nz (g_c17_cancel_timer_wake (bz p)) = p /\ nz (g_c17_final_wake (bz p)) = p /\
  nz (g_c17_stop_return (bz p)) = p /\ nz (g_c17_cancel_timer_absent (bz p)) = p.
Proof. destruct p; vm_compute; repeat split. Qed.

(* ---- set_event (both overloads): deferred iff polling_ or no reactor; the self-pipe is written iff a reactor exists *)
Lemma link_set_event p r :
  nz (g_c17_set_defer (bz p) (bz r)) = (p || negb r)%bool /\ nz (g_c17_set_wake (bz r)) = r /\
  nz (g_c17_cancel_defer (bz p) (bz r)) = (p || negb r)%bool /\ nz (g_c17_cancel_wake (bz r)) = r.
Proof. destruct p, r; vm_compute; repeat split. Qed.
(* cancelation_is_needed: the cancel is skipped iff the queue is empty and the descriptor has neither interest nor handler *)
Lemma link_cancel_needed qe i o rdh wrh :
  nz (g_c17_cancel_skip (bz (nz (g_c17_needed_queue (bz qe)) || negb (nz (g_c17_needed_idle (curword i o) (bz rdh) (bz wrh))))))
  = negb (negb qe || (i || o || rdh || wrh))%bool.
Proof. destruct qe, i, o, rdh, wrh; vm_compute; reflexivity. Qed.
Lemma link_cancel_io_skip fd : nz (g_c17_cancel_io_skip fd g_c17_invalid_socket) = Z.eqb fd (-1).
Proof. unfold g_c17_cancel_io_skip, nz. change g_c17_invalid_socket with (-1). destruct (Z.eqb fd (-1)); reflexivity. Qed.
Lemma link_is_valid fd : nz (g_c17_is_valid fd) = negb (Z.ltb fd 0).
Proof. unfold g_c17_is_valid, nz. rewrite Z.geb_leb. destruct (Z.leb_spec 0 fd), (Z.ltb_spec fd 0); try reflexivity; lia. Qed.
(* io_event_setter: the new interest is the old one plus the direction armed; in = readable *)
Lemma link_setter i o :
  g_c17_setter_new_event (curword i o) g_c17_ev_in = curword true o /\
  g_c17_setter_new_event (curword i o) g_c17_ev_out = curword i true /\
  nz (g_c17_setter_is_read g_c17_ev_in) = true /\ nz (g_c17_setter_is_read g_c17_ev_out) = false /\
  nz (g_c17_set_io_bad_event g_c17_ev_in) = false /\ nz (g_c17_set_io_bad_event g_c17_ev_out) = false.
Proof. destruct i, o; vm_compute; repeat split. Qed.

(* ---- set_timer_event: wake iff polling_ and the new timer is (one of) the earliest *)
Lemma link_timer_wake p (d dl:N) :
  nz (g_c17_timer_wake (bz p) (Z.of_N d) (Z.of_N dl)) = (p && N.leb dl d)%bool.
Proof.
  unfold g_c17_timer_wake, nz. rewrite Z.geb_leb.
  destruct p; cbn [bz Z.b2z Z.eqb negb andb]; [|reflexivity].
  destruct (Z.leb_spec (Z.of_N dl) (Z.of_N d)), (N.leb_spec dl d); try reflexivity; lia.
Qed.

(* ---- run_one *)
Lemma link_drain st qe (c:nat) :
  nz (g_c17_drain (bz st) (bz qe) (Z.of_nat c)) = (negb st && negb qe && negb (Nat.eqb c 0))%bool.
Proof.
  unfold g_c17_drain, nz. destruct st, qe; cbn [bz Z.b2z Z.eqb negb andb]; try reflexivity.
  destruct c; [reflexivity|]. rewrite Nat2Z.inj_succ. cbn [Nat.eqb negb].
  destruct (Z.gtb_spec (Z.succ (Z.of_nat c)) 0); [reflexivity|lia].
Qed.
Lemma link_timers_loop st te (d now:N) :
  nz (g_c17_timers_loop (bz st) (bz te) (Z.of_N d) (Z.of_N now)) = (negb st && negb te && N.leb d now)%bool.
Proof.
  unfold g_c17_timers_loop, nz. destruct st, te; cbn [bz Z.b2z Z.eqb negb andb]; try reflexivity.
  destruct (Z.leb_spec (Z.of_N d) (Z.of_N now)), (N.leb_spec d now); try reflexivity; lia.
Qed.
Lemma link_poll_throw pe ni qe : nz (g_c17_poll_throw (bz pe) (bz ni) (bz qe)) = (pe && ni && qe)%bool.
Proof. destruct pe, ni, qe; vm_compute; reflexivity. Qed.
(* wait time: one hour or zero, cut down to the distance to the earliest deadline (which is in the future after the timers loop) *)
Lemma link_wait_time_none qe now : g_c17_wait_time (bz qe) 1 0 now = if qe then Z.of_N IDLE_MS else 0.
Proof. destruct qe; vm_compute; reflexivity. Qed.
Lemma link_wait_time_some qe (d now:N) : (now < d)%N ->
  g_c17_wait_time (bz qe) 0 (Z.of_N d) (Z.of_N now) = Z.of_N (N.min (if qe then IDLE_MS else 0%N) (d - now)).
Proof.
  intros L. unfold g_c17_wait_time. destruct qe; cbn [bz Z.b2z Z.eqb negb]; unfold IDLE_MS.
  - destruct (Z.ltb_spec (Z.of_N d - Z.of_N now) 3600000); lia.
  - destruct (Z.ltb_spec (Z.of_N d - Z.of_N now) 0); lia.
Qed.

(* ---- readiness dispatch of run_one: the event-mask arithmetic is the boolean bookkeeping of [dispatch] *)
Lemma link_dispatch ci co ei eo ee es hr hw :
  let kill := (ee || es)%bool in
  let nin := (ci && negb kill && negb ei)%bool in
  let nout := (co && negb kill && negb eo)%bool in
  let new := g_c17_new_events (curword ci co) (evword ei eo ee) (bz es) in
  new = curword nin nout /\
  g_c17_dispatch_error (evword ei eo ee) (bz es) = (if ee then 1 else if es then 2 else 0) /\
  nz (g_c17_fire_read (bz hr) new) = (hr && negb nin)%bool /\
  nz (g_c17_fire_write (bz hw) new) = (hw && negb nout)%bool /\
  nz (g_c17_erase new) = negb (nin || nout)%bool.
Proof. destruct ci, co, ei, eo, ee, es, hr, hw; vm_compute; repeat split. Qed.

(* ---- invariant needed to read set_event's wake test: the loop thread is inside run_one only with a reactor *)
Definition PRinv (s:st) : Prop := lpc s <> Idle -> reactor s = true.
Ltac rfr :=
  unfold after_lock, timers_stage, do_setter, do_canceler, push_opt, push, wake_if_polling, wake, submit; cbv zeta;
  repeat (match goal with
          | |- context[if ?b then _ else _] => destruct b
          | |- context[match ?o with Some _ => _ | None => _ end] => destruct o
          | |- context[match ?d with DIn => _ | DOut => _ end] => destruct d
          | |- context[let (_,_) := ?p in _] => destruct p
          | |- context[match ?q with [] => _ | _ :: _ => _ end] => destruct q
          | |- context[match ?e with Run _ _ => _ | Setter _ _ _ => _ | Cancl _ => _ end] => destruct e
          end); sst; try reflexivity; try assumption; try congruence; try tauto.
Lemma rc_dispatch ev s : reactor (dispatch ev s) = reactor s.
Proof. unfold dispatch. rfr. Qed.
Lemma PR_step l s : PRinv s -> PRinv (step l s).
Proof.
  intros I. unfold PRinv in *. destruct l; cbn [step].
  - (* LPost *) destruct (fresh h s); [|exact I]. revert I. rfr.
  - destruct (fresh h s); [|exact I]. revert I. rfr.
  - revert I. rfr.
  - destruct (fresh h s); [|exact I]. revert I. rfr.
  - revert I. rfr.
  - revert I. rfr.
  - destruct (is_pc s Idle) eqn:P; [|exact I]. apply is_pc_true in P. sst. intros NI. congruence.
  - exact I.
  - destruct (is_pc s Idle) eqn:P; [|exact I]. intros _. rfr.
  - destruct (is_pc s Popped) eqn:P; [|exact I]. apply is_pc_true in P.
    assert (reactor s = true) as R by (apply I; congruence). intros _. revert R. rfr.
  - destruct (is_pc s Executed) eqn:P; [|exact I]. apply is_pc_true in P.
    assert (reactor s = true) as R by (apply I; congruence). intros _. revert R. rfr.
  - destruct (is_pc s Executed) eqn:P; [|exact I]. sst. intros NI. congruence.
  - destruct (is_pc s Poll) eqn:P; [|exact I]. sst. intros NI. congruence.
  - destruct (is_pc s Poll && negb (q_nonempty s)) eqn:P; [|exact I]. sst. intros NI. congruence.
Qed.
Lemma reach_PR s : reach s -> PRinv s.
Proof. intros R. induction R; [intros NI; exfalso; apply NI; reflexivity|intros NI; exfalso; apply NI; reflexivity|apply PR_step; assumption]. Qed.
Lemma reach_polling_reactor s : reach s -> polling s = true -> reactor s = true.
Proof. intros R P. apply (reach_PR s R). destruct (reach_W s R) as [[_ B] _]. rewrite (B P). discriminate. Qed.

(* ---- the model steps restated with the generated guards in the place of the hand-written ones *)
Definition when (z:Z) (f:st -> st) (s:st) : st := if nz z then f s else s.
Lemma step_post_tied h c s :
  step (LPost h c) s = if fresh h s then when (g_c17_post_wake_h (bz (polling s))) wake (push (Run h c) (submit h (KPost c) s)) else s.
Proof. cbn [step]. unfold when, wake_if_polling. destruct (link_wake_iff_polling (polling s)) as [E _]. rewrite E. reflexivity. Qed.
Lemma step_stop_tied s : step LStop s = when (g_c17_stop_wake (bz (polling s))) wake (set_stop s true).
Proof. cbn [step]. unfold when, wake_if_polling. destruct (link_wake_iff_polling (polling s)) as [_ [_ [_ [E _]]]]. rewrite E. reflexivity. Qed.
(* set_io_event -> set_event<io_event_setter>: push and wake-if-a-reactor-exists when polling_ or no reactor, else in place.
   In reachable states polling_ implies a reactor, so waking iff reactor (code) is waking iff polling_ (model). *)
Lemma step_set_io_tied fd d h se s : reach s ->
  step (LSetIo fd d h se) s =
  if fresh h s then
    let s1 := submit h (KIo fd d) s in
    if nz (g_c17_set_defer (bz (polling s)) (bz (reactor s)))
    then when (g_c17_set_wake (bz (reactor s))) wake (push (Setter fd d h) s1)
    else do_setter fd d h se s1
  else s.
Proof.
  intros R. cbn [step]. destruct (fresh h s); [|reflexivity]. cbv zeta.
  change (polling (submit h (KIo fd d) s)) with (polling s). change (reactor (submit h (KIo fd d) s)) with (reactor s).
  destruct (link_set_event (polling s) (reactor s)) as [E1 [E2 _]]. unfold when. rewrite E1, E2.
  pose proof (reach_polling_reactor s R) as PR. unfold wake_if_polling, push. sst. change (polling (submit h (KIo fd d) s)) with (polling s).
  destruct (polling s), (reactor s); cbn [orb negb]; try reflexivity. discriminate (PR eq_refl).
Qed.
Definition has (o:option N) : bool := match o with Some _ => true | None => false end.
Lemma step_cancel_io_tied fd s : reach s ->
  let c := fd_get (fdmap s) fd in
  let needed := (nz (g_c17_needed_queue (bz (negb (q_nonempty s)))) ||
                 negb (nz (g_c17_needed_idle (curword (cin c) (cout c)) (bz (has (rd c))) (bz (has (wr c))))))%bool in
  step (LCancelIo fd) s =
  if nz (g_c17_cancel_io_skip fd g_c17_invalid_socket) then s
  else if nz (g_c17_cancel_skip (bz needed)) then s
  else if nz (g_c17_cancel_defer (bz (polling s)) (bz (reactor s)))
       then when (g_c17_cancel_wake (bz (reactor s))) wake (push (Cancl fd) s)
       else do_canceler fd s.
Proof.
  intros R c needed. cbn [step]. rewrite link_cancel_io_skip. destruct (Z.eqb fd (-1)); [reflexivity|].
  unfold needed. rewrite link_cancel_needed. rewrite negb_involutive. unfold iod_busy. fold c. fold (has (rd c)). fold (has (wr c)).
  destruct (negb (q_nonempty s || (cin c || cout c || has (rd c) || has (wr c)))); [reflexivity|].
  destruct (link_set_event (polling s) (reactor s)) as [_ [_ [E1 E2]]]. unfold when. rewrite E1, E2.
  pose proof (reach_polling_reactor s R) as PR. unfold wake_if_polling, push. sst.
  destruct (polling s), (reactor s); cbn [orb negb]; try reflexivity. discriminate (PR eq_refl).
Qed.
Lemma step_set_timer_tied h dl s :
  step (LSetTimer h dl) s =
  if fresh h s then
    let s1 := set_timers (submit h (KTimer dl) s) (t_insert (timers s) dl h) in
    match timers s1 with
    | (d,_)::_ => when (g_c17_timer_wake (bz (polling s)) (Z.of_N d) (Z.of_N dl)) wake s1
    | [] => s1
    end
  else s.
Proof.
  cbn [step]. destruct (fresh h s); [|reflexivity]. cbv zeta.
  destruct (timers (set_timers (submit h (KTimer dl) s) (t_insert (timers s) dl h))) as [|[d x] r]; [reflexivity|].
  unfold when. rewrite link_timer_wake. reflexivity.
Qed.
Lemma step_cancel_timer_tied h s :
  step (LCancelTimer h) s =
  if nz (g_c17_cancel_timer_absent (bz (negb (t_mem (timers s) h)))) then s
  else when (g_c17_cancel_timer_wake (bz (polling s))) wake (set_timers (push (Run h Canceled) s) (t_remove (timers s) h)).
Proof.
  cbn [step]. destruct (link_wake_iff_polling (negb (t_mem (timers s) h))) as [_ [_ [_ [_ [_ [_ [_ E]]]]]]]. rewrite E.
  destruct (t_mem (timers s) h); cbn [negb]; [|reflexivity].
  unfold when, wake_if_polling. destruct (link_wake_iff_polling (polling s)) as [_ [_ [_ [_ [E2 _]]]]]. rewrite E2. reflexivity.
Qed.
(* run_one: the drain loop test decides between popping the next entry and the timers stage *)
Lemma after_lock_tied s :
  after_lock s =
  if nz (g_c17_drain (bz (stop s)) (bz (negb (q_nonempty s))) (Z.of_nat (counter s)))
  then match queue s with e :: q => set_lpc (set_running (set_queue s q) (Some e)) Popped | [] => timers_stage s end
  else timers_stage s.
Proof.
  rewrite link_drain. unfold after_lock, q_nonempty. destruct (queue s) as [|e q]; cbn [negb andb].
  - rewrite andb_false_r. reflexivity.
  - rewrite andb_true_r. reflexivity.
Qed.
(* the timers loop: while(!stop_ && !empty && begin()->first <= now), entered with stop_ false (timers_stage tests it first) *)
Lemma t_due_tied l now :
  t_due l now =
  match l with
  | [] => ([], [])
  | (d,x)::r => if nz (g_c17_timers_loop 0 0 (Z.of_N d) (Z.of_N now)) then let (q,l2) := t_due r now in (Run x Ok :: q, l2) else ([], l)
  end.
Proof.
  destruct l as [|[d x] r]; [reflexivity|]. cbn [t_due].
  change 0 with (bz false) at 1 2. rewrite link_timers_loop. reflexivity.
Qed.
Lemma timers_stage_tied s :
  timers_stage s =
  if nz (g_c17_stop_return (bz (stop s))) then set_lpc s Idle
  else let (q,t2) := t_due (timers s) (clock s) in
       let s1 := set_timers (set_queue s (queue s ++ q)) t2 in
       set_lpc (set_polling (set_pstart (set_timeout s1 (wait_time s1)) (clock s1)) true) Poll.
Proof. unfold timers_stage. destruct (link_wake_iff_polling (stop s)) as [_ [_ [_ [_ [_ [_ [E _]]]]]]]. rewrite E. reflexivity. Qed.
Lemma wait_time_tied s : (forall d x r, timers s = (d,x)::r -> (clock s < d)%N) ->
  Z.of_N (wait_time s) =
  g_c17_wait_time (bz (negb (q_nonempty s))) (bz (match timers s with [] => true | _ => false end))
                  (match timers s with (d,_)::_ => Z.of_N d | [] => 0 end) (Z.of_N (clock s)).
Proof.
  intros F. unfold wait_time. destruct (timers s) as [|[d x] r] eqn:T.
  - rewrite link_wait_time_none. destruct (q_nonempty s); reflexivity.
  - rewrite (link_wait_time_some _ d (clock s) (F d x r eq_refl)). destruct (q_nonempty s); reflexivity.
Qed.
Lemma step_poll_throw_tied s :
  step LPollThrow s = if (is_pc s Poll && nz (g_c17_poll_throw 1 1 (bz (negb (q_nonempty s)))))%bool then set_lpc (set_polling s false) Idle else s.
Proof. cbn [step]. change 1 with (bz true) at 1 2. rewrite link_poll_throw. reflexivity. Qed.
(* the readiness dispatch of run_one, with the generated mask arithmetic in the place of the boolean bookkeeping *)
Definition code_of (z:Z) : code := if Z.eqb z 1 then SelFailed else if Z.eqb z 2 then SelErr else Ok.
Lemma dispatch_tied ev s : Z.ltb (efd ev) 0 = false ->
  let c := fd_get (fdmap s) (efd ev) in
  let new := g_c17_new_events (curword (cin c) (cout c)) (evword (ein ev) (eout ev) (eerr ev)) (bz (eself ev)) in
  let derr := code_of (g_c17_dispatch_error (evword (ein ev) (eout ev) (eerr ev)) (bz (eself ev))) in
  let fr := nz (g_c17_fire_read (bz (has (rd c))) new) in
  let fw := nz (g_c17_fire_write (bz (has (wr c))) new) in
  dispatch ev s =
  let c2 := mkIod (nz (Z.land new g_c17_ev_in)) (nz (Z.land new g_c17_ev_out)) (if fr then None else rd c) (if fw then None else wr c) in
  let s1 := set_fdmap s (fd_put (fdmap s) (efd ev) c2) in
  let s2 := if fr then push_opt (rd c) derr s1 else s1 in
  if fw then push_opt (wr c) derr s2 else s2.
Proof.
  intros V. unfold dispatch. rewrite V. cbv zeta.
  destruct ev as [fd ei eo ee es]. cbn [efd ein eout eerr eself] in *.
  destruct (fd_get (fdmap s) fd) as [ci co r w]. cbn [cin cout rd wr].
  destruct (link_dispatch ci co ei eo ee es (has r) (has w)) as [E1 [E2 [E3 [E4 _]]]]. cbv zeta in E1, E3, E4.
  rewrite E3, E4, E2, E1.
  destruct ci, co, ei, eo, ee, es, r, w; reflexivity.
Qed.

(* ---- src/thread_pool.cpp: the worker exits iff shut_down_, else takes the front job iff the queue is non-empty, else waits;
        cancel removes the first queued job whose id matches *)
Lemma link_pool sh qe (a b:N) :
  nz (g_c17_worker_exit (bz sh)) = sh /\ nz (g_c17_worker_take (bz qe)) = negb qe /\
  nz (g_c17_cancel_match (Z.of_N a) (Z.of_N b)) = N.eqb a b.
Proof.
  split; [destruct sh; reflexivity|]. split; [destruct qe; reflexivity|].
  unfold g_c17_cancel_match, nz. destruct (Z.eqb_spec (Z.of_N a) (Z.of_N b)), (N.eqb_spec a b); try reflexivity; lia.
Qed.
Lemma pstep_worker_lock_tied w p : w_exited p w = false -> w_get (wjob p) w = None ->
  pstep (PWorkerLock w) p =
  if nz (g_c17_worker_exit (bz (shut p)))
  then (mkPool (pq p) (shut p) (next_id p) (wjob p) (w :: wexit p) (plog p) (pcan p) (pposted p), 0%N)
  else if nz (g_c17_worker_take (bz (match pq p with [] => true | _ => false end)))
       then match pq p with
            | (i,j)::q => (mkPool q (shut p) (next_id p) (w_put (wjob p) w (Some j)) (wexit p) (plog p) (pcan p) (pposted p), 1%N)
            | [] => (p, 0%N)
            end
       else (p, 0%N).
Proof.
  intros E H. cbn [pstep]. rewrite E, H.
  destruct (link_pool (shut p) (match pq p with [] => true | _ => false end) 0 0) as [A [B _]]. rewrite A, B.
  destruct (shut p); [reflexivity|]. destruct (pq p) as [|[i j] q]; reflexivity.
Qed.
Lemma pq_remove_tied q id :
  pq_remove q id =
  match q with
  | [] => (None, [])
  | (i,j)::r => if nz (g_c17_cancel_match (Z.of_N i) (Z.of_N id)) then (Some j, r) else let (o,r2) := pq_remove r id in (o, (i,j)::r2)
  end.
Proof. destruct q as [|[i j] r]; [reflexivity|]. cbn [pq_remove]. destruct (link_pool false false i id) as [_ [_ C]]. rewrite C. reflexivity. Qed.

(* ---- booster/lib/aio/src/stream_socket.cpp: async_read_some / async_write_some and reader_some / writer_some.
   The model (Defs.v try_io / comp_start / after_exec, CompDefs.v cstep) decides: a failed wait completes the user handler with
   the error; after a successful wait, and at the start, the transfer is tried: it waits (again) exactly when the transfer would
   block - no byte, an error, and that error is EAGAIN/EWOULDBLOCK - and completes otherwise (data, end of file, other error) *)
Lemma link_xfer e err wb (n:Z) :
  nz (g_c17_reader_failed (bz e)) = e /\ nz (g_c17_writer_failed (bz e)) = e /\
  nz (g_c17_reader_again 0 (bz err) (bz wb)) = (err && wb)%bool /\ nz (g_c17_writer_again 0 (bz err) (bz wb)) = (err && wb)%bool /\
  (n <> 0 -> nz (g_c17_reader_again n (bz err) (bz wb)) = false /\ nz (g_c17_writer_again n (bz err) (bz wb)) = false) /\
  nz (g_c17_read_start_wait (bz err) (bz wb)) = (err && wb)%bool /\ nz (g_c17_write_start_wait (bz err) (bz wb)) = (err && wb)%bool.
Proof.
  repeat split; try (destruct e; reflexivity); try (destruct err, wb; reflexivity);
    unfold g_c17_reader_again, g_c17_writer_again, nz; destruct (Z.eqb_spec n 0); try contradiction; reflexivity.
Qed.
(* the three outcomes of a transfer as the model sees them (try_io): None = would block (no byte, EAGAIN), Some 0 = data
   (bytes, no error), Some k = no byte and an error that is not EAGAIN (eof 4, EPIPE 5, EBADF 3) *)
Definition outcome_waits (r:option N) : bool := match r with None => true | Some _ => false end.
Lemma link_try_io_decision (r:option N) :
  let n := match r with Some 0%N => 1 | _ => 0 end in
  let err := match r with Some 0%N => false | _ => true end in
  let wb := match r with None => true | _ => false end in
  nz (g_c17_reader_again n (bz err) (bz wb)) = outcome_waits r /\ nz (g_c17_read_start_wait (bz err) (bz wb)) = outcome_waits r /\
  nz (g_c17_writer_again n (bz err) (bz wb)) = outcome_waits r /\ nz (g_c17_write_start_wait (bz err) (bz wb)) = outcome_waits r.
Proof. destruct r as [[|p]|]; vm_compute; repeat split. Qed.

(* ---- reader_all / writer_all (stream_socket::async_read / async_write): the operation completes when the buffer has been
   filled / sent completely, or on an error that is not would-block; otherwise it waits (again).  The model (Defs.v xfer_step,
   all-variant) completes exactly when no byte is wanted any more or the transfer failed with eof / EPIPE / EBADF. *)
Lemma link_xfer_all be e wb :
  nz (g_c17_reader_all_start_done (bz be) (bz e) (bz wb)) = (be || (e && negb wb))%bool /\
  nz (g_c17_reader_all_done (bz be) (bz e) (bz wb)) = (be || (e && negb wb))%bool /\
  nz (g_c17_writer_all_start_done (bz be) (bz e) (bz wb)) = (be || (e && negb wb))%bool /\
  nz (g_c17_writer_all_done (bz be) (bz e) (bz wb)) = (be || (e && negb wb))%bool /\
  nz (g_c17_reader_all_failed (bz e)) = e /\ nz (g_c17_writer_all_failed (bz e)) = e.
Proof. destruct be, e, wb; vm_compute; repeat split. Qed.
(* async_write: continue through writer_all iff the first write was short or would block; else complete at once *)
Lemma link_write_all_continue e wb (n total:N) :
  nz (g_c17_write_all_continue (bz e) (Z.of_N n) (Z.of_N total) (bz wb)) = ((negb e && negb (N.eqb n total)) || (e && wb))%bool.
Proof.
  unfold g_c17_write_all_continue, nz. destruct (Z.eqb_spec (Z.of_N n) (Z.of_N total)), (N.eqb_spec n total); try lia; destruct e, wb; reflexivity.
Qed.
(* the decision of the all-variant of xfer_step: Some (0,got) with need-got = 0 -> done (buffer empty, no error); Some (0,got)
   with bytes still wanted -> wait (buffer not empty, no error); Some (c,_) with c <> 0 -> done (error, not would-block);
   None -> wait (error = would block) *)
Definition all_done (r:option (N*N)) (need:N) : bool :=
  match r with Some (0%N, got) => N.eqb (need - got) 0 | Some _ => true | None => false end.
Lemma link_xfer_step_all (r:option (N*N)) (need:N) :
  let be := match r with Some (0%N, got) => N.eqb (need - got) 0 | _ => N.eqb need 0 end in
  let e := match r with Some (0%N, _) => false | _ => true end in
  let wb := match r with None => true | _ => false end in
  (need <> 0)%N -> nz (g_c17_reader_all_done (bz be) (bz e) (bz wb)) = all_done r need /\ nz (g_c17_writer_all_done (bz be) (bz e) (bz wb)) = all_done r need.
Proof.
  intros be e wb NZ. destruct (link_xfer_all be e wb) as [_ [A [_ [B _]]]]. rewrite A, B. unfold be, e, wb, all_done.
  destruct r as [[[|c] got]|]; cbn [orb andb negb]; rewrite ?orb_false_r, ?orb_true_r; try (split; reflexivity).
  destruct (N.eqb_spec need 0); [contradiction|split; reflexivity].
Qed.
