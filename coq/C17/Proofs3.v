(* C17 proofs, part 3: the thread-pool queue (src/thread_pool.cpp) *)
From CppcmsV Require Import Base.Tac C17.Defs C17.Proofs.
Local Open Scope N_scope.

Definition P4 (p:pool) (h:N) : nat :=
  (cnt h (map snd (pq p)) + cnt h (wjob_toks (wjob p)) + cnt h (plog p) + cnt h (pcan p))%nat.
Lemma cnt_ptokens p h : cnt h (ptokens p) = P4 p h.
Proof. unfold ptokens, P4. rewrite !cnt_app. lia. Qed.

Lemma cnt_pq_remove h q id :
  match fst (pq_remove q id) with
  | Some j => (cnt h (map snd (snd (pq_remove q id))) + cnt h [j])%nat = cnt h (map snd q)
  | None => True end.
Proof.
  induction q as [|[i j] r IH]; cbn [pq_remove fst snd]; [exact I|].
  destruct (N.eqb i id).
  - cbn [fst snd map]. change (j :: map snd r) with ([j] ++ map snd r). rewrite cnt_app. lia.
  - destruct (pq_remove r id) as [o r'] eqn:E. cbn [fst snd] in *. destruct o; [|exact I].
    cbn [map snd]. change (j :: map snd r') with ([j] ++ map snd r'). change (j :: map snd r) with ([j] ++ map snd r).
    rewrite !cnt_app. lia.
Qed.

Lemma cnt_w_put h l w v :
  (cnt h (wjob_toks (w_put l w v)) + cnt h (opt_list (w_get l w)) = cnt h (wjob_toks l) + cnt h (opt_list v))%nat.
Proof.
  induction l as [|[k x] r IH]; cbn [w_put w_get wjob_toks flat_map snd].
  - rewrite app_nil_r. cbn. lia.
  - destruct (N.eqb k w); cbn [wjob_toks flat_map snd]; rewrite !cnt_app; fold (wjob_toks r).
    + lia.
    + fold (wjob_toks (w_put r w v)). lia.
Qed.

Definition pnew (l:plabel) (p:pool) : list N :=
  match l with PPost j => if pfresh j p then [j] else [] | _ => [] end.

Lemma P4_step l p h : P4 (fst (pstep l p)) h = (P4 p h + cnt h (pnew l p))%nat.
Proof.
  destruct l; cbn [pstep pnew].
  - destruct (pfresh j p); cbn [fst]; [|rewrite cnt_nil; lia].
    unfold P4. cbn [pq wjob plog pcan]. rewrite map_app, cnt_app. cbn [map snd]. lia.
  - rewrite cnt_nil. pose proof (cnt_pq_remove h (pq p) id) as R.
    destruct (pq_remove (pq p) id) as [[j|] q']; cbn [fst snd] in *; [|lia].
    unfold P4. cbn [pq wjob plog pcan]. change (j :: pcan p) with ([j] ++ pcan p). rewrite cnt_app. lia.
  - rewrite cnt_nil. destruct (w_exited p w); cbn [fst]; [lia|].
    destruct (w_get (wjob p) w) eqn:G; cbn [fst]; [lia|].
    destruct (shut p); cbn [fst]; [unfold P4; cbn [pq wjob plog pcan]; lia|].
    destruct (pq p) as [|[i j] q'] eqn:Q; cbn [fst]; [lia|].
    unfold P4. cbn [pq wjob plog pcan]. rewrite Q. pose proof (cnt_w_put h (wjob p) w (Some j)) as W. rewrite G in W.
    cbn [opt_list map snd] in *. change (j :: map snd q') with ([j] ++ map snd q'). rewrite cnt_app. rewrite cnt_nil in W. lia.
  - rewrite cnt_nil. destruct (w_get (wjob p) w) eqn:G; cbn [fst]; [|lia].
    unfold P4. cbn [pq wjob plog pcan]. pose proof (cnt_w_put h (wjob p) w None) as W. rewrite G in W.
    cbn [opt_list] in W. rewrite cnt_nil in W. rewrite cnt_app. lia.
  - rewrite cnt_nil. cbn [fst]. unfold P4. cbn [pq wjob plog pcan]. lia.
Qed.

Lemma pposted_step l p : pposted (fst (pstep l p)) = pposted p ++ pnew l p.
Proof.
  destruct l; cbn [pstep pnew]; rewrite ?app_nil_r.
  - destruct (pfresh j p); cbn [fst pposted]; [reflexivity|rewrite app_nil_r; reflexivity].
  - destruct (pq_remove (pq p) id) as [[j|] q']; reflexivity.
  - destruct (w_exited p w); [reflexivity|]. destruct (w_get (wjob p) w); [reflexivity|].
    destruct (shut p); [reflexivity|]. destruct (pq p) as [|[i j] q']; reflexivity.
  - destruct (w_get (wjob p) w); reflexivity.
  - reflexivity.
Qed.

Definition PCons (p:pool) : Prop := NoDup (pposted p) /\ forall h, cnt h (ptokens p) = cnt h (pposted p).

Lemma PCons_init : PCons pool0. Proof. split; [constructor|reflexivity]. Qed.

Lemma NoDup_snoc' (l:list N) (h:N) : NoDup l -> ~ In h l -> NoDup (l ++ [h]).
Proof.
  intros ND NI. apply NoDup_count_occ with (decA := N.eq_dec). intros x.
  rewrite count_occ_app. pose proof (proj1 (NoDup_count_occ N.eq_dec l) ND x) as P.
  cbn [count_occ]. destruct (N.eq_dec h x) as [->|Hne]; [|lia].
  apply (count_occ_not_In N.eq_dec) in NI. lia.
Qed.

Lemma PCons_step l p : PCons p -> PCons (fst (pstep l p)).
Proof.
  intros [ND C]. split.
  - rewrite pposted_step. destruct l; cbn [pnew]; rewrite ?app_nil_r; try exact ND.
    destruct (pfresh j p) eqn:F; [|rewrite app_nil_r; exact ND]. apply NoDup_snoc'; [exact ND|].
    unfold pfresh in F. apply negb_true_iff in F. intros I.
    assert (existsb (N.eqb j) (pposted p) = true) as E. { apply existsb_exists. exists j. split; [exact I|apply N.eqb_refl]. }
    congruence.
  - intros h. rewrite cnt_ptokens, P4_step, <- cnt_ptokens, C, pposted_step, cnt_app. reflexivity.
Qed.

Lemma PCons_run ls p : PCons p -> PCons (prun ls p).
Proof. revert p. induction ls as [|l r IH]; intros p C; cbn [prun fold_left]; [exact C|]. apply IH, PCons_step, C. Qed.

Lemma PCons_le1 p h : PCons p -> (cnt h (ptokens p) <= 1)%nat.
Proof. intros [ND C]. rewrite C. apply (proj1 (NoDup_count_occ N.eq_dec _) ND). Qed.

Lemma pool_log_nodup p : PCons p -> NoDup (plog p).
Proof.
  intros C. apply NoDup_count_occ with (decA := N.eq_dec). intros h.
  pose proof (PCons_le1 p h C) as L. rewrite cnt_ptokens in L. unfold P4, cnt in L. lia.
Qed.

Lemma pool_cancelled_not_run p j : PCons p -> In j (pcan p) -> ~ In j (plog p).
Proof.
  intros C I L. pose proof (PCons_le1 p j C) as B. rewrite cnt_ptokens in B. unfold P4 in B.
  apply (count_occ_In N.eq_dec) in I. apply (count_occ_In N.eq_dec) in L. unfold cnt in B. lia.
Qed.

(* cancel is monotone: once cancelled, always cancelled *)
Lemma pcan_mono l p j : In j (pcan p) -> In j (pcan (fst (pstep l p))).
Proof.
  intros I. destruct l; cbn [pstep].
  - destruct (pfresh j0 p); exact I.
  - destruct (pq_remove (pq p) id) as [[x|] q']; cbn [fst pcan]; [right; exact I|exact I].
  - destruct (w_exited p w); [exact I|]. destruct (w_get (wjob p) w); [exact I|].
    destruct (shut p); [exact I|]. destruct (pq p) as [|[i x] q']; exact I.
  - destruct (w_get (wjob p) w); exact I.
  - exact I.
Qed.
Lemma pcan_mono_run ls p j : In j (pcan p) -> In j (pcan (prun ls p)).
Proof. revert p. induction ls as [|l r IH]; intros p I; cbn [prun fold_left]; [exact I|]. apply IH, pcan_mono, I. Qed.

Lemma pq_remove_spec q id :
  match fst (pq_remove q id) with
  | Some j => In (id,j) q
  | None => forall j, ~ In (id,j) q end.
Proof.
  induction q as [|[i j] r IH]; cbn [pq_remove fst]; [intros j H; exact H|].
  destruct (N.eqb_spec i id) as [->|Hne]; cbn [fst].
  - left. reflexivity.
  - destruct (pq_remove r id) as [[x|] r']; cbn [fst] in *.
    + right. exact IH.
    + intros x [E|I]; [inversion E; congruence|exact (IH x I)].
Qed.

Lemma cancel_result p id :
  (snd (pstep (PCancel id) p) = 1 <-> exists j, In (id,j) (pq p)) /\
  (snd (pstep (PCancel id) p) = 1 \/ snd (pstep (PCancel id) p) = 0).
Proof.
  cbn [pstep]. pose proof (pq_remove_spec (pq p) id) as S.
  destruct (pq_remove (pq p) id) as [[j|] q']; cbn [fst snd] in *.
  - split; [|left; reflexivity]. split; [intros _; exists j; exact S|reflexivity].
  - split; [|right; reflexivity]. split; [discriminate|intros [j I]; exfalso; exact (S j I)].
Qed.

Lemma cancel_true_moves p id : snd (pstep (PCancel id) p) = 1 ->
  exists j, In (id,j) (pq p) /\ pcan (fst (pstep (PCancel id) p)) = j :: pcan p.
Proof.
  cbn [pstep]. pose proof (pq_remove_spec (pq p) id) as S.
  destruct (pq_remove (pq p) id) as [[j|] q']; cbn [fst snd] in *; [|discriminate].
  intros _. exists j. split; [exact S|reflexivity].
Qed.

(* after a job body - whether it returned or threw - the worker is back at the top of its loop, alive *)
Lemma worker_survives p w exc :
  let p' := fst (pstep (PWorkerRun w exc) p) in
  w_exited p' w = w_exited p w /\ (w_get (wjob p) w <> None -> w_get (wjob p') w = None) /\
  fst (pstep (PWorkerRun w exc) p) = fst (pstep (PWorkerRun w false) p).
Proof.
  cbn [pstep]. destruct (w_get (wjob p) w) eqn:G; cbn [fst].
  - split; [reflexivity|]. split; [|reflexivity]. intros _. cbn [wjob].
    clear G. induction (wjob p) as [|[k x] r IH]; cbn [w_put w_get]; [rewrite N.eqb_refl; reflexivity|].
    destruct (N.eqb k w) eqn:E; cbn [w_get]; rewrite E; [reflexivity|exact IH].
  - split; [reflexivity|]. split; [congruence|reflexivity].
Qed.

Lemma pool_quiescent p : PCons p -> pq p = [] -> wjob_toks (wjob p) = [] ->
  forall j, In j (pposted p) <-> (cnt j (plog p) + cnt j (pcan p) = 1)%nat.
Proof.
  intros C Q W j. pose proof (PCons_le1 p j C) as L. destruct C as [ND C]. specialize (C j).
  rewrite cnt_ptokens in *. unfold P4 in *. rewrite Q, W in *. cbn [map] in *. rewrite !cnt_nil in *.
  split; intros I.
  - apply (count_occ_In N.eq_dec) in I. unfold cnt in *. lia.
  - apply (count_occ_In N.eq_dec). unfold cnt in *. lia.
Qed.
