(* C17 -- tie of the reactor model (ReactorDefs.v) to booster/lib/aio/src/reactor.cpp: the guards of epoll_reactor::select,
   base_fast_reactor::check, poll_reactor / select_reactor select() and remove() are lifted from the current source (checks/C17.py
   gen_leaf_tu, rigid statement templates around them: in particular `events_[fd]=flags;` directly after the three write_flag
   branches, with no early return) and translated by cxx2v; here they are proved to be the decisions of [r_select]. *)
From CppcmsV Require Import Base.Tac C17.ReactorDefs gen.Gen_C17_loop.
Import ListNotations.
Local Open Scope Z_scope.

Definition nzr (z:Z) : bool := negb (Z.eqb z 0).
Lemma link_epoll_guards cur flags :
  nzr (g_c17_epoll_del cur flags) = (negb (Z.eqb cur 0) && Z.eqb flags 0)%bool /\
  nzr (g_c17_epoll_add cur flags) = (Z.eqb cur 0 && negb (Z.eqb flags 0))%bool /\
  nzr (g_c17_epoll_mod cur flags) = negb (Z.eqb cur flags).
Proof.
  unfold g_c17_epoll_del, g_c17_epoll_add, g_c17_epoll_mod, nzr.
  destruct (Z.eqb cur 0), (Z.eqb flags 0), (Z.eqb cur flags); repeat split; reflexivity.
Qed.
Lemma link_reactor_checks fd flags :
  nzr (g_c17_fast_check_bad fd) = Z.ltb fd 0 /\
  nzr (g_c17_poll_reactor_is_remove flags) = Z.eqb flags 0 /\ nzr (g_c17_select_reactor_is_remove flags) = Z.eqb flags 0.
Proof.
  unfold g_c17_fast_check_bad, g_c17_poll_reactor_is_remove, g_c17_select_reactor_is_remove, nzr.
  destruct (Z.ltb fd 0), (Z.eqb flags 0); repeat split; reflexivity.
Qed.
(* remove() is a no-op exactly when the number has no slot (beyond the map or marked -1) *)
Lemma link_reactor_absent fd mapsize slot :
  nzr (g_c17_poll_reactor_absent fd mapsize slot) = (Z.geb fd mapsize || Z.eqb slot (-1))%bool /\
  nzr (g_c17_select_reactor_absent fd mapsize slot) = (Z.geb fd mapsize || Z.eqb slot (-1))%bool.
Proof.
  unfold g_c17_poll_reactor_absent, g_c17_select_reactor_absent, nzr. cbn [Z.opp].
  destruct (Z.geb fd mapsize), (Z.eqb slot (-1)); split; reflexivity.
Qed.
(* epoll_reactor::select with the generated guards in the place of the hand-written ones; the table is updated whatever epoll_ctl returned *)
Lemma r_select_epoll_tied fd flags s : be s = BEpoll -> Z.ltb fd 0 = false ->
  r_select false fd flags s =
  let cur := zget (cache s) fd in
  let '(err, k) :=
    if nzr (g_c17_epoll_del cur flags) then ctl_del s fd
    else if nzr (g_c17_epoll_add cur flags) then ctl_add s fd flags
    else if nzr (g_c17_epoll_mod cur flags) then ctl_mod s fd flags
    else (0, kreg s) in
  mkR (be s) (opened s) k (zput (cache s) fd flags) (zput (want s) fd flags) (pend s) err.
Proof.
  intros B F. unfold r_select. rewrite F, B. cbv zeta.
  destruct (link_epoll_guards (zget (cache s) fd) flags) as [E1 [E2 E3]]. rewrite E1, E2, E3.
  destruct (negb (Z.eqb (zget (cache s) fd) 0) && Z.eqb flags 0)%bool; [destruct (ctl_del s fd); reflexivity|].
  destruct (Z.eqb (zget (cache s) fd) 0 && negb (Z.eqb flags 0))%bool; [destruct (ctl_add s fd flags); reflexivity|].
  destruct (negb (Z.eqb (zget (cache s) fd) flags)); [destruct (ctl_mod s fd flags); reflexivity|reflexivity].
Qed.
