(* C17 proofs: cancel_io_events executed in place - the handler of the registered reader is invoked with canceled whatever the
   other threads do afterwards (everything except stop / reset) *)
From CppcmsV Require Import Base.Tac C17.Defs C17.Proofs C17.Proofs2 C17.Proofs4 C17.Proofs7 C17.CancelIo C17.Fair.
Import ListNotations.
Local Open Scope N_scope.

Lemma canceler_queue_shape s fd h : (0 <= fd)%Z -> rd (fd_get (fdmap s) fd) = Some h ->
  exists q2, queue (do_canceler fd s) = queue s ++ Run h Canceled :: q2.
Proof.
  intros P H. unfold do_canceler. destruct (Z.ltb_spec fd 0); [lia|]. cbv zeta. rewrite H. cbn [push_opt].
  destruct (wr (fd_get (fdmap s) fd)) as [w|]; cbn [push_opt]; unfold push; sst.
  - exists [Run w Canceled]. rewrite <- app_assoc. reflexivity.
  - exists []. reflexivity.
Qed.

Lemma cancel_in_place_runs_despite_interference : forall s fd h ls,
  reach s -> lpc s = Idle -> stop s = false -> reactor s = true -> (0 <= fd)%Z -> rd (fd_get (fdmap s) fd) = Some h ->
  sched (S (length (queue s))) ls ->
  exists t, In (h, Canceled, t) (log (run_labels ls (step (LCancelIo fd) s))).
Proof.
  intros s fd h ls R P ST RE F H SC.
  assert (polling s = false) as PF.
  { destruct (reach_W s R) as [[_ B] _]. destruct (polling s) eqn:E; [|reflexivity]. rewrite (B eq_refl) in P. discriminate. }
  assert (step (LCancelIo fd) s = do_canceler fd s) as E.
  { cbn [step]. destruct (Z.eqb_spec fd (-1)); [lia|].
    rewrite (busy_of_handler (fd_get (fdmap s) fd) h (or_introl H)). rewrite orb_true_r. cbn [negb]. rewrite PF, RE. reflexivity. }
  rewrite E. destruct (canceler_queue_shape s fd h F H) as [q2 Q].
  apply (queued_handler_runs_despite_interference (do_canceler fd s) (queue s) h Canceled q2 ls).
  - rewrite lpc_do_canceler. exact P.
  - unfold do_canceler. destruct (Z.ltb fd 0); [exact ST|]. cbv zeta.
    destruct (rd (fd_get (fdmap s) fd)), (wr (fd_get (fdmap s) fd)); cbn [push_opt]; unfold push; sst; exact ST.
  - rewrite run_do_canceler. apply (Rinv_none s Idle); [apply reach_Cons, R|exact P|discriminate].
  - exact Q.
  - exact SC.
Qed.
