(* C17 proofs, part 7: the loop never sleeps past the deadline of an armed timer unless it has been woken *)
From Coq Require Import Sorting.Sorted.
From CppcmsV Require Import Base.Tac C17.Defs C17.Proofs C17.Proofs2 C17.Proofs4 C17.Proofs5 C17.Proofs6.
Local Open Scope N_scope.

Definition TWinv (s:st) : Prop :=
  lpc s = Poll -> forall dl h, In (dl,h) (timers s) -> woken s = true \/ pstart s + timeout s <= dl.

Lemma TW_weaken s s' : lpc s' = lpc s -> timers s' = timers s -> pstart s' = pstart s -> timeout s' = timeout s ->
  (woken s = true -> woken s' = true) -> TWinv s -> TWinv s'.
Proof.
  intros A B C D E T. unfold TWinv. rewrite A, B, C, D. intros P dl h I. destruct (T P dl h I) as [W|L]; [left; apply E, W|right; exact L].
Qed.
Lemma TW_vac s : lpc s <> Poll -> TWinv s.
Proof. intros N P. congruence. Qed.

Ltac frame3 :=
  intros; unfold do_setter, do_canceler, dispatch, push_opt, push, submit; cbv zeta;
  repeat (match goal with
          | |- context[if ?b then _ else _] => destruct b
          | |- context[match ?o with Some _ => _ | None => _ end] => destruct o
          | |- context[match ?d with DIn => _ | DOut => _ end] => destruct d
          end); reflexivity.
Lemma wk_do_setter fd d k se s : woken (do_setter fd d k se s) = woken s. Proof. frame3. Qed.
Lemma wk_do_canceler fd s : woken (do_canceler fd s) = woken s. Proof. frame3. Qed.
Lemma ps_do_setter fd d k se s : pstart (do_setter fd d k se s) = pstart s. Proof. frame3. Qed.
Lemma ps_do_canceler fd s : pstart (do_canceler fd s) = pstart s. Proof. frame3. Qed.
Lemma to_do_setter fd d k se s : timeout (do_setter fd d k se s) = timeout s. Proof. frame3. Qed.
Lemma to_do_canceler fd s : timeout (do_canceler fd s) = timeout s. Proof. frame3. Qed.
Lemma ps_wip s : pstart (wake_if_polling s) = pstart s. Proof. unfold wake_if_polling, wake. destruct (polling s); reflexivity. Qed.
Lemma wk_wip_mono s : woken s = true -> woken (wake_if_polling s) = true.
Proof. unfold wake_if_polling, wake. destruct (polling s); sst; [reflexivity|tauto]. Qed.

Lemma TW_wip s : TWinv s -> TWinv (wake_if_polling s).
Proof. apply TW_weaken; [apply lpc_wip|apply tm_wip|apply ps_wip|apply tmo_wip|apply wk_wip_mono]. Qed.

Lemma tsorted_head_le d x r p : tsorted ((d,x)::r) -> In p ((d,x)::r) -> d <= fst p.
Proof.
  unfold tsorted. intros S [<-|I]; [cbn; lia|]. inversion S as [|? ? _ F]; subst. rewrite Forall_forall in F. apply (F p I).
Qed.

Lemma TW_timers_stage s : Sinv s -> TWinv (timers_stage s).
Proof.
  intros S. unfold timers_stage. destruct (stop s); [apply TW_vac; sst; discriminate|].
  pose proof (t_due_sorted (timers s) (clock s) S) as [A [_ C]].
  destruct (t_due (timers s) (clock s)) as [q t']. cbn [fst snd] in *.
  intros _ dl h I. sst. sst_in I. right. unfold wait_time. sst.
  destruct t' as [|[d x] r]; [contradiction|].
  pose proof (tsorted_head_le d x r (dl,h) A I) as L. cbn [fst] in L.
  pose proof (C (d,x) (or_introl eq_refl)) as G. cbn [fst] in G.
  destruct (q_nonempty _); lia.
Qed.

Lemma TW_after_lock s : Sinv s -> TWinv (after_lock s).
Proof.
  intros S. unfold after_lock. destruct (queue s); [apply TW_timers_stage, S|].
  destruct (negb (stop s) && negb (Nat.eqb (counter s) 0)); [apply TW_vac; sst; discriminate|apply TW_timers_stage, S].
Qed.

Lemma t_insert_head l dl h d x r : t_insert l dl h = (d,x)::r -> (d,x) = (dl,h) \/ In (d,x) l.
Proof. intros E. apply (t_insert_in l dl h (d,x)). rewrite E. left. reflexivity. Qed.

Lemma TWinv_step l s : Winv s -> Sinv s -> TWinv s -> TWinv (step l s).
Proof.
  intros W S T. destruct l; cbn [step].
  - destruct (fresh h s); [|exact T]. apply TW_wip. revert T. apply TW_weaken; reflexivity || tauto.
  - destruct (fresh h s); [|exact T]. cbn zeta.
    destruct (polling (submit h (KIo fd d) s) || negb (reactor (submit h (KIo fd d) s))).
    + apply TW_wip. revert T. apply TW_weaken; reflexivity || tauto.
    + revert T. apply TW_weaken; [rewrite lpc_do_setter|rewrite tm_do_setter|rewrite ps_do_setter|rewrite to_do_setter|rewrite wk_do_setter]; reflexivity || tauto.
  - destruct (Z.eqb fd (-1)); [exact T|]. destruct (negb (q_nonempty s || iod_busy (fd_get (fdmap s) fd))); [exact T|].
    destruct (polling s || negb (reactor s)).
    + apply TW_wip. revert T. apply TW_weaken; reflexivity || tauto.
    + revert T. apply TW_weaken; [rewrite lpc_do_canceler|rewrite tm_do_canceler|rewrite ps_do_canceler|rewrite to_do_canceler|rewrite wk_do_canceler]; reflexivity || tauto.
  - destruct (fresh h s); [|exact T]. cbn zeta.
    set (s1 := set_timers (submit h (KTimer dl) s) (t_insert (timers s) dl h)).
    assert (timers s1 = t_insert (timers s) dl h) as TS by reflexivity.
    destruct (timers s1) as [|[d0 x0] r] eqn:E.
    + intros P d x I. rewrite E in I. contradiction.
    + destruct (polling s1 && N.leb dl d0) eqn:C.
      * intros P d x I. left. reflexivity.
      * intros P d x I. change (lpc s = Poll) in P. change (woken s1) with (woken s). change (pstart s1) with (pstart s). change (timeout s1) with (timeout s).
        assert (polling s = true) as PL by (apply (proj1 W), P). change (polling s1) with (polling s) in C. rewrite PL in C. cbn [andb] in C.
        apply N.leb_gt in C.
        (* the head (d0,x0) is an old timer *)
        assert (In (d0,x0) (timers s)) as OLD.
        { symmetry in TS. destruct (t_insert_head _ _ _ _ _ _ TS) as [EQ|O]; [inversion EQ; lia|exact O]. }
        destruct (T P d0 x0 OLD) as [WK|LE]; [left; exact WK|].
        change (timers s1) with (t_insert (timers s) dl h) in I. apply t_insert_in in I. destruct I as [EQ|O].
        -- inversion EQ; subst. right. lia.
        -- exact (T P d x O).
  - destruct (t_mem (timers s) h); [|exact T]. apply TW_wip.
    intros P d x I. sst_in I. unfold push. sst. apply (T P d x). apply (t_remove_in _ _ _ I).
  - apply TW_wip. revert T. apply TW_weaken; reflexivity || tauto.
  - destruct (is_pc s Idle) eqn:P; [|exact T]. apply TW_vac. sst. rewrite (is_pc_true _ _ P). discriminate.
  - revert T. apply TW_weaken; reflexivity || tauto.
  - destruct (is_pc s Idle); [|exact T]. apply TW_after_lock. exact S.
  - destruct (is_pc s Popped); [|exact T]. cbn zeta.
    destruct (running s) as [[k c|fd d k|fd]|]; apply TW_vac; rewrite ?lpc_do_setter, ?lpc_do_canceler; sst; discriminate.
  - destruct (is_pc s Executed); [|exact T]. apply TW_after_lock. exact S.
  - destruct (is_pc s Executed); [|exact T]. apply TW_vac. sst. discriminate.
  - destruct (is_pc s Poll); [|exact T]. cbn zeta. apply TW_vac. sst. discriminate.
  - destruct (is_pc s Poll && negb (q_nonempty s)); [|exact T]. apply TW_vac. sst. discriminate.
Qed.

Lemma reach_W s : reach s -> Winv s.
Proof. induction 1 as [|d|l s R IH]; [apply Winv_init|apply W_not_poll; [discriminate|reflexivity]|apply Winv_step, IH]. Qed.
Lemma reach_TW s : reach s -> TWinv s.
Proof.
  induction 1 as [|d|l s R IH]; [apply TW_vac; discriminate|apply TW_vac; discriminate|].
  apply TWinv_step; [apply reach_W, R|apply reach_S, R|exact IH].
Qed.
