(* C11, integers: the printer and the reader made concrete on the class of integer-valued numbers.
   print_nat / print16_int : the decimal digits %.16g emits for an integer-valued double below 10^16
   dec_value / to_double_int: the value of such a lexeme and the binary64 that holds it (exact below 2^53)
   enc_sm neg a             : the bit pattern of (-1)^neg * a for a < 2^53
   Everything here is computed, nothing is a parameter; the two Section hypotheses of IntLaw say that the platform
   printer and strtod agree with these functions on that class (the model driver checks this on every case). *)
From CppcmsV Require Import Base.Tac C11.Defs C11.Proofs1 C11.Proofs3 C11.Proofs4 C11.NumGrammar.
Local Open Scope N_scope.

Fixpoint digs (fuel : nat) (n : N) (acc : list N) : list N :=
  match fuel with
  | O => acc
  | S f => if n <? 10 then (48 + n) :: acc else digs f (n / 10) ((48 + n mod 10) :: acc)
  end.
Definition print_nat (n : N) : list N := if n =? 0 then [48] else digs (S (N.to_nat (N.log2 n))) n [].
Definition dec_value (ds : list N) : N := fold_left (fun a d => 10 * a + (d - 48)) ds 0.

Definition enc_nat (a : N) : N :=
  if a =? 0 then 0 else let k := N.log2 a in (k + 1023) * 4503599627370496 + (a * 2 ^ (52 - k) - 4503599627370496).
Definition sign_bit : N := 9223372036854775808.
Definition enc_sm (neg : bool) (a : N) : N := (if neg then sign_bit else 0) + enc_nat a.

(* the integer class of the printer: sign from the sign bit (so that -0 prints as -0), digits of the magnitude *)
Definition print16_int (b : N) : option (list N) :=
  match dbl_int b with
  | Some z => Some ((if sign_bit <=? b then [45] else []) ++ print_nat (Z.abs_N z))
  | None => None
  end.
Definition to_double_int (x : list N) : N :=
  match x with
  | c :: ds => if c =? 45 then enc_sm true (dec_value ds) else enc_sm false (dec_value x)
  | [] => enc_sm false 0
  end.
(* the numbers the theorem is about: integer value of magnitude below 2^53, in the canonical encoding *)
Definition small_int (b : N) : bool :=
  match dbl_int b with
  | Some z => (Z.abs_N z <? 9007199254740992) && (enc_sm (sign_bit <=? b) (Z.abs_N z) =? b)
  | None => false
  end.

(* ------------------------------------------------------------------------------------------ *)
(* decimal digits                                                                               *)
(* ------------------------------------------------------------------------------------------ *)
Lemma dec_value_snoc ds d : dec_value (ds ++ [d]) = 10 * dec_value ds + (d - 48).
Proof. unfold dec_value. rewrite fold_left_app. reflexivity. Qed.

Lemma digs_spec : forall f n acc, 0 < n -> n < 2 ^ N.of_nat f ->
  exists d r, digs f n acc = (d :: r) ++ acc /\ digits (d :: r) /\ d <> 48 /\ dec_value (d :: r) = n.
Proof.
  induction f as [|f IH]; intros n acc Hp Hb.
  - cbn in Hb. lia.
  - cbn [digs]. destruct (N.ltb_spec n 10) as [L|L].
    + exists (48 + n), []. repeat split; [repeat constructor; unfold is_digit; apply andb_true_iff; split; apply N.leb_le; lia|lia|].
      unfold dec_value. cbn [fold_left]. lia.
    + rewrite Nat2N.inj_succ, N.pow_succ_r' in Hb.
      assert (Q : 0 < n / 10) by (apply N.div_str_pos; lia).
      assert (B : n / 10 < 2 ^ N.of_nat f) by lia.
      destruct (IH (n / 10) ((48 + n mod 10) :: acc) Q B) as [d [r [E [D [Nz V]]]]].
      exists d, (r ++ [48 + n mod 10]). rewrite E. repeat split.
      * cbn [app]. rewrite <- app_assoc. reflexivity.
      * change (d :: r ++ [48 + n mod 10]) with ((d :: r) ++ [48 + n mod 10]). apply Forall_app. split; [exact D|].
        repeat constructor. unfold is_digit. apply andb_true_iff. split; apply N.leb_le; lia.
      * exact Nz.
      * change (d :: r ++ [48 + n mod 10]) with ((d :: r) ++ [48 + n mod 10]). rewrite dec_value_snoc, V. lia.
Qed.

Lemma print_nat_spec n : int_ok (print_nat n) /\ dec_value (print_nat n) = n.
Proof.
  unfold print_nat. destruct (N.eqb_spec n 0) as [E|E].
  - subst. split; [left; reflexivity|reflexivity].
  - assert (B : n < 2 ^ N.of_nat (S (N.to_nat (N.log2 n)))).
    { rewrite Nat2N.inj_succ, N2Nat.id. apply N.log2_spec. lia. }
    destruct (digs_spec _ n [] ltac:(lia) B) as [d [r [E1 [D [Nz V]]]]].
    rewrite E1, app_nil_r. split; [|exact V].
    right. exists d, r. inversion D; subst. repeat split; assumption.
Qed.

(* ------------------------------------------------------------------------------------------ *)
(* binary64 encoding of small integers                                                          *)
(* ------------------------------------------------------------------------------------------ *)
Lemma enc_nat_decode a : 0 < a -> a < 9007199254740992 ->
  exists f, enc_nat a = (N.log2 a + 1023) * 4503599627370496 + f /\ f < 4503599627370496 /\
            4503599627370496 + f = a * 2 ^ (52 - N.log2 a) /\ N.log2 a <= 52.
Proof.
  intros Hp Hb. unfold enc_nat. destruct (N.eqb_spec a 0); [lia|]. cbv zeta.
  pose proof (N.log2_spec a Hp) as [L1 L2].
  assert (K : N.log2 a <= 52).
  { destruct (N.le_gt_cases (N.log2 a) 52) as [H|H]; [exact H|exfalso].
    assert (2 ^ 53 <= 2 ^ N.log2 a) by (apply N.pow_le_mono_r; lia).
    change (2 ^ 53) with 9007199254740992 in *. lia. }
  set (k := N.log2 a) in *. set (P := 2 ^ (52 - k)).
  assert (PP : 2 ^ k * P = 4503599627370496).
  { subst P. rewrite <- N.pow_add_r. replace (k + (52 - k)) with 52 by lia. reflexivity. }
  assert (Ppos : 0 < P) by (subst P; apply N.neq_0_lt_0; apply N.pow_nonzero; lia).
  assert (Lo : 4503599627370496 <= a * P) by (rewrite <- PP; apply N.mul_le_mono_r; exact L1).
  assert (Hi : a * P < 9007199254740992).
  { replace 9007199254740992 with (2 ^ N.succ k * P) by (rewrite N.pow_succ_r'; lia).
    apply N.mul_lt_mono_pos_r; assumption. }
  exists (a * P - 4503599627370496). repeat split; lia.
Qed.

Lemma dbl_decode_enc neg a : 0 < a -> a < 9007199254740992 ->
  dbl_decode (enc_sm neg a) = Some (neg, Z.of_N (a * 2 ^ (52 - N.log2 a)), (Z.of_N (N.log2 a) - 52)%Z) /\
  (sign_bit <=? enc_sm neg a) = neg.
Proof.
  intros Hp Hb. destruct (enc_nat_decode a Hp Hb) as [f [E [F [M K]]]].
  unfold enc_sm. rewrite E. set (k := N.log2 a) in *.
  set (s := if neg then sign_bit else 0).
  assert (S1 : s = (if neg then 2048 else 0) * 4503599627370496) by (subst s; destruct neg; reflexivity).
  assert (B : s + ((k + 1023) * 4503599627370496 + f) = f + ((if neg then 2048 else 0) + (k + 1023)) * 4503599627370496) by lia.
  assert (SB : (sign_bit <=? s + ((k + 1023) * 4503599627370496 + f)) = neg).
  { unfold sign_bit in *. destruct neg; subst s; [apply N.leb_le|apply N.leb_gt]; lia. }
  split; [|exact SB].
  unfold dbl_decode. fold sign_bit. rewrite SB.
  rewrite B. rewrite N.div_add by lia. rewrite (N.div_small f) by exact F. rewrite N.mod_add by lia. rewrite (N.mod_small f) by exact F.
  rewrite N.add_0_l.
  assert (EE : ((if neg then 2048 else 0) + (k + 1023)) mod 2048 = k + 1023).
  { destruct neg.
    - replace (2048 + (k + 1023)) with ((k + 1023) + 1 * 2048) by lia. rewrite N.mod_add by lia. apply N.mod_small. lia.
    - apply N.mod_small. lia. }
  rewrite EE.
  destruct (N.eqb_spec (k + 1023) 2047); [lia|]. destruct (N.eqb_spec (k + 1023) 0); [lia|].
  rewrite M. f_equal. f_equal. lia.
Qed.

Theorem dbl_int_enc neg a : 0 < a -> a < 9007199254740992 ->
  dbl_int (enc_sm neg a) = Some ((if neg then -1 else 1) * Z.of_N a)%Z.
Proof.
  intros Hp Hb. destruct (enc_nat_decode a Hp Hb) as [_ [_ [_ [_ K]]]].
  destruct (dbl_decode_enc neg a Hp Hb) as [D _].
  unfold dbl_int. rewrite D. set (k := N.log2 a) in *.
  destruct (Z.leb_spec 0 (Z.of_N k - 52)) as [G|G].
  - assert (k = 52) by lia. replace (52 - k) with 0 by lia. replace (Z.of_N k - 52)%Z with 0%Z by lia.
    rewrite N.pow_0_r, N.mul_1_r, Z.pow_0_r, Z.mul_1_r. reflexivity.
  - replace (- (Z.of_N k - 52))%Z with (Z.of_N (52 - k)) by lia.
    rewrite N2Z.inj_mul, N2Z.inj_pow. change (Z.of_N 2) with 2%Z.
    assert (PZ : (0 < 2 ^ Z.of_N (52 - k))%Z) by (apply Z.pow_pos_nonneg; lia).
    rewrite Z.mod_mul by lia. change (0 =? 0)%Z with true. cbv iota.
    rewrite Z.div_mul by lia. reflexivity.
Qed.

Lemma dbl_int_zero neg : dbl_int (enc_sm neg 0) = Some 0%Z /\ (sign_bit <=? enc_sm neg 0) = neg.
Proof. destruct neg; split; vm_compute; reflexivity. Qed.

(* every integer of magnitude below 2^53, with either sign (including -0), is a small_int *)
Theorem small_int_enc neg a : a < 9007199254740992 -> small_int (enc_sm neg a) = true.
Proof.
  intros Hb. unfold small_int. destruct (N.eq_0_gt_0_cases a) as [Z|P].
  - subst a. destruct (dbl_int_zero neg) as [D S]. rewrite D, S. cbn [Z.abs_N Z.abs Z.to_N]. rewrite N.eqb_refl. reflexivity.
  - destruct (dbl_decode_enc neg a P Hb) as [_ S]. rewrite (dbl_int_enc neg a P Hb), S.
    assert (A : Z.abs_N ((if neg then -1 else 1) * Z.of_N a) = a) by (destruct neg; lia).
    rewrite A. rewrite N.eqb_refl. apply andb_true_iff. split; [apply N.ltb_lt; exact Hb|reflexivity].
Qed.

(* ------------------------------------------------------------------------------------------ *)
(* the round trip on the integer class, all concrete                                            *)
(* ------------------------------------------------------------------------------------------ *)
Theorem int_print_scan b : small_int b = true ->
  exists neg i, int_ok i /\ print16_int b = Some (num_text neg i [] None) /\
                rfc_num (num_text neg i [] None) = true /\
                (forall rest, stops rest -> scan_number (num_text neg i [] None ++ rest) = (num_norm neg i [] None, rest)) /\
                to_double_int (num_norm neg i [] None) = b.
Proof.
  unfold small_int, print16_int. destruct (dbl_int b) as [z|]; [|discriminate]. intros H.
  apply andb_true_iff in H. destruct H as [H1 H2]. apply N.eqb_eq in H2.
  set (a := Z.abs_N z) in *. set (neg := sign_bit <=? b) in *.
  destruct (print_nat_spec a) as [I V].
  exists neg, (print_nat a). split; [exact I|]. split; [unfold num_text; cbn [exp_text]; rewrite !app_nil_r; reflexivity|].
  split; [apply rfc_num_text; [exact I|left; reflexivity|exact Logic.I]|].
  split; [intros rest Hr; apply scan_number_ok; [exact I|left; reflexivity|exact Logic.I|exact Hr]|].
  unfold num_norm. cbn [exp_norm]. rewrite !app_nil_r. unfold to_double_int.
  destruct neg; cbn [app].
  - rewrite V. exact H2.
  - destruct I as [I|[d [ds [I [Hd _]]]]]; rewrite I in *.
    + change (48 =? 45) with false. cbv iota. rewrite V. exact H2.
    + apply digit_facts in Hd. destruct (N.eqb_spec d 45); [lia|]. rewrite V. exact H2.
Qed.

(* under the two laws: the platform printer and strtod agree with the concrete functions on the integer class *)
Section IntLaw.
Variable to_double : list N -> option N.
Variable print16 : N -> list N.
(* printf("%.16g") of an integer-valued double of magnitude below 10^16 is its decimal digits (with the sign of the sign bit) *)
Hypothesis print_int_law : forall b x, small_int b = true -> print16_int b = Some x -> print16 b = x.
(* strtod of -?digits denoting an integer below 2^53 is exact *)
Hypothesis strtod_int_law : forall neg i, int_ok i -> dec_value i < 9007199254740992 ->
  to_double (num_norm neg i [] None) = Some (to_double_int (num_norm neg i [] None)).

Theorem small_int_num_ok b : small_int b = true -> num_ok to_double print16 (fun x => x) b.
Proof.
  intros H. pose proof H as H0. unfold small_int in H0.
  destruct (dbl_int b) as [z|] eqn:Ez; [|discriminate]. apply andb_true_iff in H0. destruct H0 as [H1 H2].
  apply N.ltb_lt in H1. apply N.eqb_eq in H2.
  set (a := Z.abs_N z) in *. destruct (print_nat_spec a) as [I V].
  exists (sign_bit <=? b), (print_nat a), [], None.
  assert (PI : print16_int b = Some (num_text (sign_bit <=? b) (print_nat a) [] None)).
  { unfold print16_int. rewrite Ez. unfold num_text. cbn [exp_text]. rewrite !app_nil_r. reflexivity. }
  repeat split; [exact I|left; reflexivity|apply (print_int_law b _ H PI)|].
  rewrite (strtod_int_law _ _ I) by (rewrite V; exact H1). f_equal.
  destruct (int_print_scan b H) as [neg' [i' [_ [P' [_ [_ T']]]]]].
  rewrite PI in P'. inversion P' as [Q].
  assert (NN : forall n1 i1 n2 i2, num_text n1 i1 [] None = num_text n2 i2 [] None -> num_norm n1 i1 [] None = num_norm n2 i2 [] None).
  { intros n1 i1 n2 i2 E. unfold num_text, num_norm in *. cbn [exp_text exp_norm] in *. exact E. }
  rewrite (NN _ _ _ _ Q). exact T'.
Qed.

Lemma map_nums_id : forall v, map_nums (fun x => x) v = v.
Proof.
  apply jv_ind'; try reflexivity.
  - intros l IH. cbn [map_nums]. f_equal. induction IH as [|x l Hx _ IHl]; [reflexivity|]. cbn [map]. rewrite Hx, IHl. reflexivity.
  - intros m IH. cbn [map_nums]. f_equal. induction IH as [|[k x] l Hx _ IHl]; [reflexivity|]. cbn [map fst snd] in *. rewrite Hx, IHl. reflexivity.
Qed.

(* a value all of whose numbers are integers below 2^53 in magnitude round-trips exactly in the first round *)
Theorem integers_roundtrip_exact v tabs :
  no_undef v = true -> strings_ok utf8_valid v = true -> maps_ok v = true -> nums_ok small_int v = true ->
  (depth v <= max_depth)%nat ->
  exists txt, write print16 tabs v = Some txt /\ parse to_double true txt = POk v [].
Proof.
  intros H1 H2 H3 H4 D.
  assert (G : wgood to_double print16 (fun x => x) v).
  { apply (wgood_of_bools to_double print16 (fun x => x) small_int); [intros x Hx; apply small_int_num_ok; exact Hx|assumption..]. }
  destruct (write_parse to_double print16 (fun x => x) v tabs G D) as [txt [W P]].
  exists txt. split; [exact W|]. rewrite map_nums_id in P. exact P.
Qed.
End IntLaw.

(* 9007199254740991 = 2^53 - 1 prints as sixteen digits and reads back; -0 is kept; 12345 *)
Example int_roundtrip_nonvacuous :
  small_int (enc_sm false 9007199254740991) = true /\
  print16_int (enc_sm false 9007199254740991) = Some [57;48;48;55;49;57;57;50;53;52;55;52;48;57;57;49] /\
  to_double_int [57;48;48;55;49;57;57;50;53;52;55;52;48;57;57;49] = enc_sm false 9007199254740991 /\
  enc_sm false 9007199254740991 = 4845873199050653695 /\
  print16_int sign_bit = Some [45;48] /\ to_double_int [45;48] = sign_bit /\
  print16_int (enc_sm true 12345) = Some [45;49;50;51;52;53] /\ enc_sm true 12345 = 13891384386705686528.
Proof. repeat split; vm_compute; reflexivity. Qed.
