(* C11 proofs, part 1: typed extraction, the tokenizer consumes input, the parse loop terminates
   (fuel is never exhausted), a failed load keeps the target. *)
From CppcmsV Require Import Base.Tac C11.Defs.
Local Open Scope N_scope.

(* ------------------------------------------------------------------------------------------ *)
(* typed extraction                                                                             *)
(* ------------------------------------------------------------------------------------------ *)
Lemma get_int_sound lo hi b n :
  get_int lo hi b = Some n -> dbl_int b = Some n /\ (lo <= n <= hi)%Z.
Proof.
  unfold get_int. destruct (dbl_int b) as [k|]; [|discriminate].
  destruct ((lo <=? k)%Z && (k <=? hi)%Z) eqn:E; [|discriminate].
  intros H. inversion H; subst. apply andb_true_iff in E. destruct E as [E1 E2].
  apply Z.leb_le in E1. apply Z.leb_le in E2. auto.
Qed.

Lemma get_int_complete lo hi b n :
  dbl_int b = Some n -> (lo <= n <= hi)%Z -> get_int lo hi b = Some n.
Proof.
  intros H [H1 H2]. unfold get_int. rewrite H.
  apply Z.leb_le in H1. apply Z.leb_le in H2. rewrite H1, H2. reflexivity.
Qed.

Lemma get_int_fails lo hi b :
  get_int lo hi b = None <-> (dbl_int b = None \/ exists n, dbl_int b = Some n /\ ~ (lo <= n <= hi)%Z).
Proof.
  unfold get_int. destruct (dbl_int b) as [k|].
  - destruct ((lo <=? k)%Z && (k <=? hi)%Z) eqn:E.
    + split; [discriminate|]. intros [H|[n [H1 H2]]]; [discriminate|]. inversion H1; subst.
      apply andb_true_iff in E. destruct E as [E1 E2]. apply Z.leb_le in E1. apply Z.leb_le in E2. lia.
    + split; [|reflexivity]. intros _. right. exists k. split; [reflexivity|].
      apply andb_false_iff in E. destruct E as [E|E]; apply Z.leb_gt in E; lia.
  - split; auto.
Qed.

(* the number held by a finite binary64 is (-1)^neg * m * 2^e; dbl_int returns n exactly when that
   rational equals the integer n *)
Definition sgn (neg : bool) : Z := if neg then (-1)%Z else 1%Z.
Definition denotes_int (neg : bool) (m e n : Z) : Prop :=
  ((0 <= e)%Z /\ n = (sgn neg * (m * 2 ^ e))%Z) \/ ((e < 0)%Z /\ (n * 2 ^ (- e) = sgn neg * m)%Z).

Lemma dbl_int_exact b n :
  dbl_int b = Some n -> exists neg m e, dbl_decode b = Some (neg, m, e) /\ denotes_int neg m e n.
Proof.
  unfold dbl_int. destruct (dbl_decode b) as [[[neg m] e]|]; [|discriminate].
  intros H. exists neg, m, e. split; [reflexivity|]. unfold denotes_int, sgn.
  destruct (Z.leb_spec 0 e) as [He|He].
  - inversion H; subst. left. split; [exact He|reflexivity].
  - destruct (Z.eqb_spec (m mod 2 ^ (- e)) 0) as [Hm|Hm]; [|discriminate].
    inversion H; subst. right. split; [exact He|].
    assert (P : (0 < 2 ^ (- e))%Z) by (apply Z.pow_pos_nonneg; lia).
    pose proof (Z.div_mod m (2 ^ (- e)) ltac:(lia)) as D. rewrite Hm in D.
    rewrite <- Z.mul_assoc. f_equal. lia.
Qed.

Lemma dbl_int_not_integer b :
  dbl_int b = None ->
  dbl_decode b = None \/
  exists neg m e, dbl_decode b = Some (neg, m, e) /\ (e < 0)%Z /\ (m mod 2 ^ (- e) <> 0)%Z.
Proof.
  unfold dbl_int. destruct (dbl_decode b) as [[[neg m] e]|]; [|auto].
  intros H. right. exists neg, m, e. split; [reflexivity|].
  destruct (Z.leb_spec 0 e) as [He|He]; [discriminate|].
  destruct (Z.eqb_spec (m mod 2 ^ (- e)) 0) as [Hm|Hm]; [discriminate|]. auto.
Qed.

(* ------------------------------------------------------------------------------------------ *)
(* the tokenizer consumes input                                                                 *)
(* ------------------------------------------------------------------------------------------ *)
Lemma check_kw_len kw : forall s r, check_kw kw s = Some r -> (length r <= length s)%nat.
Proof.
  induction kw as [|k kw IH]; intros s r H; cbn [check_kw] in H.
  - inversion H; subst. lia.
  - destruct s as [|c s]; [discriminate|]. destruct (c =? k); [|discriminate].
    apply IH in H. cbn [length]. lia.
Qed.

Lemma consb_inv c o str r : consb c o = Some (str, r) -> exists str', o = Some (str', r) /\ str = c :: str'.
Proof. destruct o as [[a b]|]; cbn; intros H; inversion H; subst. eauto. Qed.
Lemma appb_inv l o str r : appb l o = Some (str, r) -> exists str', o = Some (str', r) /\ str = l ++ str'.
Proof. destruct o as [[a b]|]; cbn; intros H; inversion H; subst. eauto. Qed.

Ltac ifs H := repeat match type of H with
  | context[if ?c then _ else _] => destruct c eqn:?; try discriminate H
  end.

Lemma scan_string_len_aux n : forall s pend str r,
  (length s <= n)%nat -> scan_string pend s = Some (str, r) -> (length r < length s)%nat.
Proof.
  induction n as [|n IH]; intros s pend str r Hn H.
  - destruct s; [discriminate H|cbn in Hn; lia].
  - destruct s as [|c s]; [discriminate H|]. cbn [length] in *.
    cbn [scan_string] in H.
    destruct (is_some pend && negb (c =? 92)); [discriminate|].
    destruct (c <=? 31); [discriminate|].
    destruct (c =? 34). { inversion H; subst. lia. }
    destruct (c =? 92).
    + destruct s as [|e s1]; [discriminate|]. cbn [length] in *.
      destruct (is_some pend && negb (e =? 117)); [discriminate|].
      assert (K : forall x, consb x (scan_string None s1) = Some (str, r) -> (length r < S (S (length s1)))%nat).
      { intros x Hx. apply consb_inv in Hx. destruct Hx as [str' [Hx _]]. apply IH in Hx; lia. }
      destruct ((e =? 34) || (e =? 92) || (e =? 47)); [eapply K; eassumption|].
      destruct (e =? 98); [eapply K; eassumption|].
      destruct (e =? 102); [eapply K; eassumption|].
      destruct (e =? 110); [eapply K; eassumption|].
      destruct (e =? 114); [eapply K; eassumption|].
      destruct (e =? 116); [eapply K; eassumption|].
      destruct (e =? 117); [|discriminate].
      destruct s1 as [|h1 [|h2 [|h3 [|h4 r2]]]]; try discriminate. cbn [length] in *.
      destruct (is_hex h1 && is_hex h2 && is_hex h3 && is_hex h4); [|discriminate].
      destruct pend as [w1|].
      * destruct (is_second_surrogate _); [|discriminate].
        apply appb_inv in H. destruct H as [str' [H _]]. apply IH in H; lia.
      * destruct (is_first_surrogate _).
        -- apply IH in H; lia.
        -- apply appb_inv in H. destruct H as [str' [H _]]. apply IH in H; lia.
    + apply consb_inv in H. destruct H as [str' [H _]]. apply IH in H; lia.
Qed.

Lemma scan_string_len s pend str r : scan_string pend s = Some (str, r) -> (length r < length s)%nat.
Proof. apply (scan_string_len_aux (length s)). lia. Qed.

Lemma scan_main_len_aux n : forall s fm fd fs,
  (length s <= n)%nat -> (length (snd (scan_main fm fd fs s)) <= length s)%nat.
Proof.
  induction n as [|n IH]; intros s fm fd fs Hn.
  - destruct s; [cbn; lia|cbn in Hn; lia].
  - destruct s as [|c r]; [cbn; lia|]. cbn [length] in *. cbn [scan_main].
    destruct (is_digit c).
    { specialize (IH r true fd fs ltac:(lia)). destruct (scan_main true fd fs r). cbn [snd] in *. lia. }
    destruct ((c =? 46) && negb fd && negb fs).
    { specialize (IH r fm true fs ltac:(lia)). destruct (scan_main fm true fs r). cbn [snd] in *. lia. }
    destruct (((c =? 101) || (c =? 69)) && negb fs && fm); [|cbn [snd length]; lia].
    destruct r as [|c2 r2]; [cbn; lia|]. cbn [length] in *.
    destruct ((c2 =? 43) || (c2 =? 45)).
    + specialize (IH r2 fm fd true ltac:(lia)). destruct (scan_main fm fd true r2). cbn [snd] in *. lia.
    + specialize (IH (c2 :: r2) fm fd true ltac:(cbn [length]; lia)).
      destruct (scan_main fm fd true (c2 :: r2)). cbn [snd length] in *. lia.
Qed.
Lemma scan_main_len s fm fd fs : (length (snd (scan_main fm fd fs s)) <= length s)%nat.
Proof. apply (scan_main_len_aux (length s)). lia. Qed.

Lemma skip_zeros_len s : (length (skip_zeros s) <= length s)%nat.
Proof. induction s as [|c r IH]; cbn [skip_zeros length]; [lia|]. destruct (c =? 48); cbn [length]; lia. Qed.

Lemma scan_main_digit_first c r fd fs :
  is_digit c = true -> (length (snd (scan_main false fd fs (c :: r))) <= length r)%nat.
Proof.
  intros H. cbn [scan_main]. rewrite H.
  pose proof (scan_main_len r true fd fs) as L. destruct (scan_main true fd fs r). cbn [snd] in *. exact L.
Qed.

Lemma scan_number_len c r :
  (c =? 45) || is_digit c = true -> (length (snd (scan_number (c :: r))) <= length r)%nat.
Proof.
  intros H. unfold scan_number.
  destruct ((c =? 43) || (c =? 45)) eqn:Hs.
  - (* sign consumed *)
    set (zero := match r with c0 :: _ => c0 =? 48 | [] => false end).
    pose proof (scan_main_len (skip_zeros r) zero false false) as L1.
    pose proof (skip_zeros_len r) as L2.
    destruct (scan_main zero false false (skip_zeros r)). cbn [snd] in *. lia.
  - assert (Hd : is_digit c = true).
    { apply orb_true_iff in H. destruct H as [H|H]; [|exact H].
      apply orb_false_iff in Hs. destruct Hs as [_ Hs]. congruence. }
    destruct (c =? 48) eqn:Hz.
    + cbn [skip_zeros]. rewrite Hz.
      pose proof (scan_main_len (skip_zeros r) true false false) as L1.
      pose proof (skip_zeros_len r) as L2.
      destruct (scan_main true false false (skip_zeros r)). cbn [snd] in *. lia.
    + cbn [skip_zeros]. rewrite Hz.
      pose proof (scan_main_digit_first c r false false Hd) as L.
      destruct (scan_main false false false (c :: r)). cbn [snd] in *. exact L.
Qed.

Section WithConv.
Variable to_double : list N -> option N.

Definition tok_rest (x : token * list N * N) : list N := snd (fst x).
Definition tok_tok (x : token * list N * N) : token := fst (fst x).

Lemma next_len_aux n : forall s cm, (length s <= n)%nat ->
  (length (tok_rest (next to_double cm s)) <= pred (length s))%nat.
Proof.
  induction n as [|n IHn]; intros s cm Hn.
  { destruct s; [cbn; lia|cbn in Hn; lia]. }
  destruct s as [|c r]; [cbn; lia|].
  cbn [length] in Hn. cbn [next length pred]. unfold tok_rest in *.
  assert (IH' : forall cm, (length (snd (fst (next to_double cm r))) <= length r)%nat).
  { intros cm'. specialize (IHn r cm' ltac:(lia)). lia. }
  destruct cm. { destruct (c =? 10); apply IH'. }
  destruct (is_struct c); [cbn; lia|].
  destruct ((c =? 32) || (c =? 9) || (c =? 13)); [apply IH'|].
  destruct (c =? 10).
  { specialize (IH' false). destruct (next to_double false r) as [[t r'] k]. cbn [fst snd] in *. exact IH'. }
  destruct (c =? 34).
  { destruct (scan_string None r) as [[str r']|] eqn:E; [|cbn; lia].
    apply scan_string_len in E. destruct (utf8_valid str); cbn [fst snd]; lia. }
  destruct (c =? 116). { destruct (check_kw _ r) eqn:E; [apply check_kw_len in E|]; cbn [fst snd]; lia. }
  destruct (c =? 110). { destruct (check_kw _ r) eqn:E; [apply check_kw_len in E|]; cbn [fst snd]; lia. }
  destruct (c =? 102). { destruct (check_kw _ r) eqn:E; [apply check_kw_len in E|]; cbn [fst snd]; lia. }
  destruct ((c =? 45) || is_digit c) eqn:Hd.
  { pose proof (scan_number_len c r Hd) as L. destruct (scan_number (c :: r)) as [x r'].
    cbn [snd] in L. destruct (to_double x); cbn [fst snd]; lia. }
  destruct (c =? 47); [|cbn; lia].
  destruct r as [|c2 r2]; [cbn; lia|].
  destruct (c2 =? 47); [|cbn; lia].
  cbn [length] in *. specialize (IHn r2 true ltac:(lia)). lia.
Qed.
Lemma next_len s cm : (length (tok_rest (next to_double cm s)) <= pred (length s))%nat.
Proof. apply (next_len_aux (length s)). lia. Qed.

Lemma next_nil cm : next to_double cm [] = (TEof, [], 0).
Proof. reflexivity. Qed.

(* end of input in any non-terminal state is an error *)
Lemma step_eof_terminal m : terminal (step_tok TEof m) = true.
Proof.
  destruct m as [[[s K] key] res]. unfold terminal.
  destruct s; cbn; try reflexivity;
    try (destruct K as [|[items|mm k] K']; cbn; reflexivity).
  destruct K as [|[items|mm k] K']; cbn; try reflexivity.
  destruct (map_mem key mm); reflexivity.
Qed.

Lemma run_terminal fuel s line m : terminal m = true -> run to_double fuel s line m = Some (s, line, m).
Proof. intros H. destruct fuel; cbn [run]; rewrite H; reflexivity. Qed.

Lemma run_total : forall fuel s line m, (length s < fuel)%nat -> run to_double fuel s line m <> None.
Proof.
  induction fuel as [|f IH]; intros s line m Hf; [lia|].
  cbn [run]. destruct (terminal m) eqn:T; [discriminate|].
  pose proof (next_len s false) as L. unfold tok_rest in L.
  destruct s as [|c r].
  - cbn [next]. rewrite run_terminal by apply step_eof_terminal. discriminate.
  - destruct (next to_double false (c :: r)) as [[t r'] n]. cbn [fst snd length pred] in *.
    apply IH. lia.
Qed.

Lemma parse_total full s : parse to_double full s <> PFuel.
Proof.
  unfold parse. pose proof (run_total (S (length s)) s 1 init_state ltac:(lia)) as H.
  destruct (run to_double (S (length s)) s 1 init_state) as [[[r line] m]|]; [|congruence].
  destruct (m_st m); try discriminate.
  destruct full; [|discriminate].
  destruct (next to_double false r) as [[t r'] n]. destruct t; discriminate.
Qed.

Lemma parse_total' full s : (exists v rest, parse to_double full s = POk v rest) \/ (exists line, parse to_double full s = PFail line).
Proof.
  pose proof (parse_total full s) as H. destruct (parse to_double full s); [left|right|]; eauto. congruence.
Qed.

(* a failed load leaves the target as it was; a successful one replaces it by the parsed value *)
Lemma load_fail_keeps target full s t' : load to_double target full s = (false, t') -> t' = target.
Proof. unfold load. destruct (parse to_double full s); intros H; inversion H; reflexivity. Qed.

Lemma load_spec target full s :
  load to_double target full s =
  match parse to_double full s with POk v _ => (true, v) | _ => (false, target) end.
Proof. reflexivity. Qed.

End WithConv.
