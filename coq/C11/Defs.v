(* C11: executable model of cppcms::json (src/json.cpp): tockenizer::next / parse_string /
   read_4_digits / parse_number, parse_stream, generic_append, value::write_value, the typed
   extraction traits of cppcms/json.h, and utf8::validate / utf8::encode of private/utf_iterator.h.
   Bytes are N (below 256), byte strings are list N.  A number is the 64-bit pattern of the
   binary64 it holds (N below 2^64); decimal-to-binary conversion (strtod behind istream>>double),
   the 16-significant-digit printer (ostream<<double, precision 16) and double-to-float rounding
   are Section variables - the model never looks inside them.
   No proofs here: this file must keep compiling (and extracting) when a proof breaks. *)
From Coq Require Import NArith ZArith List Bool.
Import ListNotations.
Local Open Scope N_scope.

(* ------------------------------------------------------------------------------------------ *)
(* values                                                                                       *)
(* ------------------------------------------------------------------------------------------ *)
Inductive jv : Type :=
| JUndef | JNull | JBool (b : bool) | JNum (bits : N) | JStr (s : list N)
| JArr (l : list jv) | JObj (m : list (list N * jv)).

(* std::map<string_key,value>: string_key::operator< is lexicographical_compare with
   char_traits<char>::lt, i.e. by unsigned byte *)
Fixpoint key_ltb (a b : list N) : bool :=
  match a, b with
  | [], [] => false
  | [], _ :: _ => true
  | _ :: _, [] => false
  | x :: a', y :: b' => if x <? y then true else if y <? x then false else key_ltb a' b'
  end.
Fixpoint key_eqb (a b : list N) : bool :=
  match a, b with
  | [], [] => true
  | x :: a', y :: b' => (x =? y) && key_eqb a' b'
  | _, _ => false
  end.
Fixpoint map_mem {A} (k : list N) (m : list (list N * A)) : bool :=
  match m with
  | [] => false
  | (k', _) :: r => key_eqb k k' || map_mem k r
  end.
(* map::insert: an existing key keeps its value *)
Fixpoint map_insert {A} (k : list N) (v : A) (m : list (list N * A)) : list (list N * A) :=
  match m with
  | [] => [(k, v)]
  | (k', v') :: r =>
      if key_ltb k k' then (k, v) :: m
      else if key_eqb k k' then m
      else (k', v') :: map_insert k v r
  end.

(* ------------------------------------------------------------------------------------------ *)
(* UTF-8 (private/utf_iterator.h)                                                               *)
(* ------------------------------------------------------------------------------------------ *)
Definition is_trail (c : N) : bool := (128 <=? c) && (c <? 192).
(* utf8::trail_length: 0,1,2,3 or 4 standing for -1 *)
Definition trail_length (c : N) : N :=
  if c <? 128 then 0 else if c <? 194 then 4 else if c <? 224 then 1 else if c <? 240 then 2
  else if c <=? 244 then 3 else 4.
Definition cp_width (v : N) : N :=
  if v <=? 127 then 1 else if v <=? 2047 then 2 else if v <=? 65535 then 3 else 4.
Definition cp_valid (v : N) : bool :=
  if 1114111 <? v then false else if (55296 <=? v) && (v <=? 57343) then false else true.
(* the check at the end of utf8::next *)
Definition cp_ok (trail : N) (c : N) : bool := cp_valid c && (cp_width c =? trail + 1).

(* utf8::validate(begin,end): loop of utf8::next (html=false) *)
Fixpoint utf8_valid (s : list N) : bool :=
  match s with
  | [] => true
  | lead :: r =>
      match trail_length lead with
      | 0 => utf8_valid r
      | 1 => match r with
             | t1 :: r1 => is_trail t1 && cp_ok 1 ((lead mod 32) * 64 + t1 mod 64) && utf8_valid r1
             | _ => false
             end
      | 2 => match r with
             | t1 :: t2 :: r2 =>
                 is_trail t1 && is_trail t2
                 && cp_ok 2 (((lead mod 16) * 64 + t1 mod 64) * 64 + t2 mod 64) && utf8_valid r2
             | _ => false
             end
      | 3 => match r with
             | t1 :: t2 :: t3 :: r3 =>
                 is_trail t1 && is_trail t2 && is_trail t3
                 && cp_ok 3 ((((lead mod 8) * 64 + t1 mod 64) * 64 + t2 mod 64) * 64 + t3 mod 64)
                 && utf8_valid r3
             | _ => false
             end
      | _ => false
      end
  end.

(* utf8::encode *)
Definition utf8_encode (x : N) : list N :=
  if x <=? 127 then [x]
  else if x <=? 2047 then [192 + x / 64; 128 + x mod 64]
  else if x <=? 65535 then [224 + x / 4096; 128 + (x / 64) mod 64; 128 + x mod 64]
  else [240 + x / 262144; 128 + (x / 4096) mod 64; 128 + (x / 64) mod 64; 128 + x mod 64].

(* independent description of well-formed UTF-8: Unicode 15 table 3-7 as byte ranges *)
Definition inr (lo hi c : N) : bool := (lo <=? c) && (c <=? hi).
Fixpoint utf8_table (s : list N) : bool :=
  match s with
  | [] => true
  | a :: r =>
      if a <=? 127 then utf8_table r
      else match r with
      | [] => false
      | b :: r1 =>
        if inr 194 223 a then inr 128 191 b && utf8_table r1
        else match r1 with
        | [] => false
        | c :: r2 =>
          if a =? 224 then inr 160 191 b && inr 128 191 c && utf8_table r2
          else if inr 225 236 a || inr 238 239 a then inr 128 191 b && inr 128 191 c && utf8_table r2
          else if a =? 237 then inr 128 159 b && inr 128 191 c && utf8_table r2
          else match r2 with
          | [] => false
          | d :: r3 =>
            if a =? 240 then inr 144 191 b && inr 128 191 c && inr 128 191 d && utf8_table r3
            else if inr 241 243 a then inr 128 191 b && inr 128 191 c && inr 128 191 d && utf8_table r3
            else if a =? 244 then inr 128 143 b && inr 128 191 c && inr 128 191 d && utf8_table r3
            else false
          end
        end
      end
  end.

(* utf16 helpers *)
Definition is_first_surrogate (x : N) : bool := (55296 <=? x) && (x <=? 56319).
Definition is_second_surrogate (x : N) : bool := (56320 <=? x) && (x <=? 57343).
Definition combine_surrogate (w1 w2 : N) : N := ((w1 mod 1024) * 1024 + w2 mod 1024) + 65536.

(* ------------------------------------------------------------------------------------------ *)
(* tokenizer                                                                                    *)
(* ------------------------------------------------------------------------------------------ *)
Inductive token :=
| TStruct (c : N)          (* one of [ { : , } ] *)
| TEof | TErr
| TStr (s : list N) | TNum (bits : N) | TTrue | TFalse | TNull.

(* tockenizer::check: Some rest when the input continues with kw *)
Fixpoint check_kw (kw s : list N) : option (list N) :=
  match kw with
  | [] => Some s
  | k :: kw' => match s with
                | c :: r => if c =? k then check_kw kw' r else None
                | [] => None
                end
  end.

Definition is_digit (c : N) : bool := (48 <=? c) && (c <=? 57).
Definition is_hex (c : N) : bool :=
  is_digit c || ((65 <=? c) && (c <=? 70)) || ((97 <=? c) && (c <=? 102)).
Definition hexval (c : N) : N := if c <=? 57 then c - 48 else if c <=? 70 then c - 55 else c - 87.

(* parse_string after the opening quote.  pend = Some w1 when a first surrogate has been read and
   the second is expected.  Result: decoded bytes and the input after the closing quote. *)
Definition consb (c : N) (o : option (list N * list N)) : option (list N * list N) :=
  match o with Some (s, r) => Some (c :: s, r) | None => None end.
Definition appb (l : list N) (o : option (list N * list N)) : option (list N * list N) :=
  match o with Some (s, r) => Some (l ++ s, r) | None => None end.
Definition is_some {A} (o : option A) : bool := match o with Some _ => true | None => false end.

Fixpoint scan_string (pend : option N) (s : list N) : option (list N * list N) :=
  match s with
  | [] => None
  | c :: r =>
      if is_some pend && negb (c =? 92) then None
      else if c <=? 31 then None
      else if c =? 34 then Some ([], r)
      else if c =? 92 then
        match r with
        | [] => None
        | e :: r1 =>
            if is_some pend && negb (e =? 117) then None
            else if (e =? 34) || (e =? 92) || (e =? 47) then consb e (scan_string None r1)
            else if e =? 98 then consb 8 (scan_string None r1)
            else if e =? 102 then consb 12 (scan_string None r1)
            else if e =? 110 then consb 10 (scan_string None r1)
            else if e =? 114 then consb 13 (scan_string None r1)
            else if e =? 116 then consb 9 (scan_string None r1)
            else if e =? 117 then
              (* read_4_digits: istream::get(buf,5) + four hex digits *)
              match r1 with
              | h1 :: h2 :: h3 :: h4 :: r2 =>
                  if is_hex h1 && is_hex h2 && is_hex h3 && is_hex h4 then
                    let x := ((hexval h1 * 16 + hexval h2) * 16 + hexval h3) * 16 + hexval h4 in
                    match pend with
                    | Some w1 =>
                        if is_second_surrogate x
                        then appb (utf8_encode (combine_surrogate w1 x)) (scan_string None r2)
                        else None
                    | None =>
                        if is_first_surrogate x then scan_string (Some x) r2
                        else appb (utf8_encode x) (scan_string None r2)
                    end
                  else None
              | _ => None
              end
            else None
        end
      else consb c (scan_string None r)
  end.

(* what num_get<char>::_M_extract_float accumulates under the classic locale (the text handed to
   strtod) and the remaining input.  fm/fd/fs = found mantissa digit / decimal point / exponent *)
Fixpoint scan_main (fm fd fs : bool) (s : list N) : list N * list N :=
  match s with
  | [] => ([], [])
  | c :: r =>
      if is_digit c then let (x, t) := scan_main true fd fs r in (c :: x, t)
      else if (c =? 46) && negb fd && negb fs then let (x, t) := scan_main fm true fs r in (46 :: x, t)
      else if ((c =? 101) || (c =? 69)) && negb fs && fm then
        match r with
        | [] => ([101], [])
        | c2 :: r2 =>
            if (c2 =? 43) || (c2 =? 45) then let (x, t) := scan_main fm fd true r2 in (101 :: c2 :: x, t)
            else let (x, t) := scan_main fm fd true r in (101 :: x, t)
        end
      else ([], s)
  end.
(* leading zeros: any number of them contributes a single 0 *)
Fixpoint skip_zeros (s : list N) : list N :=
  match s with
  | c :: r => if c =? 48 then skip_zeros r else s
  | [] => []
  end.
Definition scan_number (s : list N) : list N * list N :=
  let '(sign, s1) := match s with
                     | c :: r => if (c =? 43) || (c =? 45) then ([c], r) else ([], s)
                     | [] => ([], [])
                     end in
  let zero := match s1 with c :: _ => c =? 48 | [] => false end in
  let s2 := skip_zeros s1 in
  let (x, t) := scan_main zero false false s2 in
  (sign ++ (if zero then [48] else []) ++ x, t).

Definition is_struct (c : N) : bool :=
  (c =? 91) || (c =? 123) || (c =? 58) || (c =? 44) || (c =? 125) || (c =? 93).

Section Conv.
(* strtod on the accumulated text as used by __convert_to_v: None when it does not consume the
   whole text or the result is infinite (failbit) *)
Variable to_double : list N -> option N.
(* ostream << setprecision(16) << double under the C locale *)
Variable print16 : N -> list N.

(* tockenizer::next.  cm = inside a // comment.  Result: token, remaining input, number of
   newlines counted into `line` (the newline that ends a comment is not counted) *)
Fixpoint next (cm : bool) (s : list N) : token * list N * N :=
  match s with
  | [] => (TEof, [], 0)
  | c :: r =>
      if cm then (if c =? 10 then next false r else next true r)
      else if is_struct c then (TStruct c, r, 0)
      else if (c =? 32) || (c =? 9) || (c =? 13) then next false r
      else if c =? 10 then let '(t, r', n) := next false r in (t, r', n + 1)
      else if c =? 34 then
        match scan_string None r with
        | Some (str, r') => if utf8_valid str then (TStr str, r', 0) else (TErr, r, 0)
        | None => (TErr, r, 0)
        end
      else if c =? 116 then match check_kw [114; 117; 101] r with Some r' => (TTrue, r', 0) | None => (TErr, r, 0) end
      else if c =? 110 then match check_kw [117; 108; 108] r with Some r' => (TNull, r', 0) | None => (TErr, r, 0) end
      else if c =? 102 then match check_kw [97; 108; 115; 101] r with Some r' => (TFalse, r', 0) | None => (TErr, r, 0) end
      else if (c =? 45) || is_digit c then
        let (x, r') := scan_number s in
        match to_double x with Some b => (TNum b, r', 0) | None => (TErr, r, 0) end
      else if c =? 47 then
        match r with
        | c2 :: r2 => if c2 =? 47 then next true r2 else (TErr, r, 0)
        | [] => (TErr, r, 0)
        end
      else (TErr, r, 0)
  end.

(* ------------------------------------------------------------------------------------------ *)
(* parse_stream                                                                                 *)
(* ------------------------------------------------------------------------------------------ *)
Inductive st :=
| SVal            (* st_object_or_array_or_value_expected *)
| SObjKeyOrClose | SObjColon | SObjValue | SObjCloseOrComma
| SArrValOrClose | SArrCloseOrComma
| SErr | SDone.

(* a container under construction; the explicit stack of parse_stream holds pointers to these
   inside the result tree, the model holds the partial containers themselves (array items newest
   first; for an object the key under which the child being parsed is stored) *)
Inductive frame :=
| FArr (items : list jv)
| FObj (m : list (list N * jv)) (k : list N).

Definition max_depth : nat := 512.    (* json_max_depth *)

(* state, stack (innermost first), the local `key`, the local `result` *)
Definition mstate : Type := st * list frame * list N * jv.

Inductive vtok := VScalar (v : jv) | VOpenArr | VOpenObj | VOther.
Definition vtok_of (t : token) : vtok :=
  match t with
  | TStr s => VScalar (JStr s)
  | TNum b => VScalar (JNum b)
  | TTrue => VScalar (JBool true)
  | TFalse => VScalar (JBool false)
  | TNull => VScalar JNull
  | TStruct c => if c =? 91 then VOpenArr else if c =? 123 then VOpenObj else VOther
  | _ => VOther
  end.

(* a finished value is stored where the innermost open container (or the result) wants it and the
   state recorded for that place is resumed *)
Definition plug (v : jv) (K : list frame) (key : list N) (res : jv) : mstate :=
  match K with
  | [] => (SDone, [], key, v)
  | FArr items :: K' => (SArrCloseOrComma, FArr (v :: items) :: K', key, res)
  | FObj m k :: K' => (SObjCloseOrComma, FObj (map_insert k v m) k :: K', key, res)
  end.
Definition on_value (t : token) (K : list frame) (key : list N) (res : jv) : mstate :=
  match vtok_of t with
  | VScalar v => plug v K key res
  | VOpenArr => (SArrValOrClose, FArr [] :: K, key, res)
  | VOpenObj => (SObjKeyOrClose, FObj [] [] :: K, key, res)
  | VOther => (SErr, K, key, res)
  end.
Definition is_tstruct (t : token) (c : N) : bool := match t with TStruct d => d =? c | _ => false end.

Definition step_tok (t : token) (m : mstate) : mstate :=
  let '(s, K, key, res) := m in
  let err := (SErr, K, key, res) in
  match s with
  | SVal => on_value t K key res
  | SObjKeyOrClose =>
      match K with
      | FObj mm _ :: K' =>
          if is_tstruct t 125 then plug (JObj mm) K' key res
          else match t with TStr str => (SObjColon, K, str, res) | _ => err end
      | _ => err
      end
  | SObjColon => if is_tstruct t 58 then (SObjValue, K, key, res) else err
  | SObjValue =>
      match K with
      | FObj mm _ :: K' => if map_mem key mm then err else on_value t (FObj mm key :: K') key res
      | _ => err
      end
  | SObjCloseOrComma =>
      match K with
      | FObj mm _ :: K' =>
          if is_tstruct t 44 then (SObjKeyOrClose, K, key, res)
          else if is_tstruct t 125 then plug (JObj mm) K' key res
          else err
      | _ => err
      end
  | SArrValOrClose =>
      match K with
      | FArr items :: K' =>
          if is_tstruct t 93 then plug (JArr (rev items)) K' key res
          else on_value t K key res
      | _ => err
      end
  | SArrCloseOrComma =>
      match K with
      | FArr items :: K' =>
          if is_tstruct t 93 then plug (JArr (rev items)) K' key res
          else if is_tstruct t 44 then (SArrValOrClose, K, key, res)
          else err
      | _ => err
      end
  | SErr | SDone => m
  end.

Definition m_st (m : mstate) : st := let '(s, _, _, _) := m in s.
Definition m_stack (m : mstate) : list frame := let '(_, K, _, _) := m in K.
Definition m_res (m : mstate) : jv := let '(_, _, _, r) := m in r.

(* negation of the loop condition of parse_stream; the C++ stack has one more entry than the model
   only before the first token (size 1, no open container), which no bound above 0 can tell *)
Definition terminal (m : mstate) : bool :=
  match m_st m with
  | SErr | SDone => true
  | _ => Nat.ltb max_depth (length (m_stack m))
  end.

(* the loop, with fuel; None = fuel exhausted (proved unreachable with fuel > length input) *)
Fixpoint run (fuel : nat) (s : list N) (line : N) (m : mstate) : option (list N * N * mstate) :=
  if terminal m then Some (s, line, m)
  else match fuel with
       | O => None
       | S f => let '(t, r, n) := next false s in run f r (line + n) (step_tok t m)
       end.

Inductive presult :=
| POk (v : jv) (rest : list N)
| PFail (line : N)
| PFuel.

Definition init_state : mstate := (SVal, [], [], JUndef).

Definition parse (full : bool) (s : list N) : presult :=
  match run (S (length s)) s 1 init_state with
  | None => PFuel
  | Some (r, line, m) =>
      match m_st m with
      | SDone =>
          if full then
            let '(t, r', n) := next false r in
            match t with TEof => POk (m_res m) r' | _ => PFail (line + n) end
          else POk (m_res m) r
      | _ => PFail line
      end
  end.

(* value::load: the target is replaced only on success (out.swap(result)) *)
Definition load (target : jv) (full : bool) (s : list N) : bool * jv :=
  match parse full s with
  | POk v _ => (true, v)
  | _ => (false, target)
  end.

(* ------------------------------------------------------------------------------------------ *)
(* writer                                                                                       *)
(* ------------------------------------------------------------------------------------------ *)
Definition hexdig (n : N) : N := if n <? 10 then 48 + n else 87 + n.
(* generic_append: what is emitted for one input byte *)
Definition esc1 (c : N) : list N :=
  if c =? 34 then [92; 34]
  else if c =? 92 then [92; 92]
  else if c =? 8 then [92; 98]
  else if c =? 12 then [92; 102]
  else if c =? 10 then [92; 110]
  else if c =? 13 then [92; 114]
  else if c =? 9 then [92; 116]
  else if c <=? 31 then [92; 117; 48; 48; hexdig (c / 16); hexdig (c mod 16)]
  else [c].
Definition write_string (s : list N) : list N := 34 :: flat_map esc1 s ++ [34].

Definition pad (n : nat) : list N := repeat 9 n.
(* indent(out,c,tabs): tabs = None is the compact form (tabs < 0) *)
Definition w_open (c : N) (tabs : option nat) : list N :=
  match tabs with Some n => [c; 10] ++ pad (S n) | None => [c] end.
Definition w_comma (inner : option nat) : list N :=
  match inner with Some n => [44; 10] ++ pad n | None => [44] end.
Definition w_colon (tabs : option nat) : list N :=
  match tabs with Some _ => [32; 58; 9] | None => [58] end.
Definition w_close (c : N) (tabs : option nat) : list N :=
  match tabs with Some n => [10] ++ pad n ++ [c; 10] ++ pad n | None => [c] end.

Definition lit_null : list N := [110; 117; 108; 108].
Definition lit_true : list N := [116; 114; 117; 101].
Definition lit_false : list N := [102; 97; 108; 115; 101].

Definition opt_app (a b : option (list N)) : option (list N) :=
  match a, b with Some x, Some y => Some (x ++ y) | _, _ => None end.

(* value::write_value; None = bad_value_cast (an undefined value somewhere) *)
Fixpoint write (tabs : option nat) (v : jv) : option (list N) :=
  let inner := option_map S tabs in
  match v with
  | JUndef => None
  | JNull => Some lit_null
  | JBool b => Some (if b then lit_true else lit_false)
  | JNum x => Some (print16 x)
  | JStr s => Some (write_string s)
  | JArr l =>
      opt_app (Some (w_open 91 tabs))
        (opt_app ((fix elems (l : list jv) : option (list N) :=
                     match l with
                     | [] => Some []
                     | x :: r =>
                         match r with
                         | [] => write inner x
                         | _ :: _ => opt_app (write inner x) (opt_app (Some (w_comma inner)) (elems r))
                         end
                     end) l)
                 (Some (w_close 93 tabs)))
  | JObj m =>
      opt_app (Some (w_open 123 tabs))
        (opt_app ((fix membs (m : list (list N * jv)) : option (list N) :=
                     match m with
                     | [] => Some []
                     | (k, x) :: r =>
                         let one := opt_app (Some (write_string k ++ w_colon inner)) (write inner x) in
                         match r with
                         | [] => one
                         | _ :: _ => opt_app one (opt_app (Some (w_comma inner)) (membs r))
                         end
                     end) m)
                 (Some (w_close 125 tabs)))
  end.

(* value::save(how): readable -> tabs = 0, compact -> tabs = -1 *)
Definition save (readable : bool) (v : jv) : option (list N) :=
  write (if readable then Some O else None) v.

End Conv.

(* ------------------------------------------------------------------------------------------ *)
(* predicates on values used by the theorems                                                    *)
(* ------------------------------------------------------------------------------------------ *)
Fixpoint depth (v : jv) : nat :=
  match v with
  | JArr l => S (fold_right (fun x a => Nat.max (depth x) a) O l)
  | JObj m => S (fold_right (fun kx a => Nat.max (depth (snd kx)) a) O m)
  | _ => O
  end.
Fixpoint no_undef (v : jv) : bool :=
  match v with
  | JUndef => false
  | JArr l => forallb no_undef l
  | JObj m => forallb (fun kx => no_undef (snd kx)) m
  | _ => true
  end.
(* every string and key satisfies p *)
Fixpoint strings_ok (p : list N -> bool) (v : jv) : bool :=
  match v with
  | JStr s => p s
  | JArr l => forallb (strings_ok p) l
  | JObj m => forallb (fun kx => p (fst kx) && strings_ok p (snd kx)) m
  | _ => true
  end.
Fixpoint nums_ok (p : N -> bool) (v : jv) : bool :=
  match v with
  | JNum x => p x
  | JArr l => forallb (nums_ok p) l
  | JObj m => forallb (fun kx => nums_ok p (snd kx)) m
  | _ => true
  end.
(* keys strictly increasing (hence unique), as in a std::map *)
Fixpoint keys_sorted {A} (m : list (list N * A)) : bool :=
  match m with
  | (k1, _) :: ((k2, _) :: _) as r => key_ltb k1 k2 && keys_sorted r
  | _ => true
  end.
Fixpoint maps_ok (v : jv) : bool :=
  match v with
  | JArr l => forallb maps_ok l
  | JObj m => keys_sorted m && forallb (fun kx => maps_ok (snd kx)) m
  | _ => true
  end.
Fixpoint map_nums (f : N -> N) (v : jv) : jv :=
  match v with
  | JNum x => JNum (f x)
  | JArr l => JArr (map (map_nums f) l)
  | JObj m => JObj (map (fun kx => (fst kx, map_nums f (snd kx))) m)
  | _ => v
  end.

(* ------------------------------------------------------------------------------------------ *)
(* typed extraction (cppcms/json.h traits<T>::get)                                              *)
(* ------------------------------------------------------------------------------------------ *)
(* finite binary64 -> (negative?, mantissa, exponent): value = (-1)^neg * mant * 2^exp *)
Definition dbl_decode (b : N) : option (bool * Z * Z) :=
  let neg := 9223372036854775808 <=? b in
  let e := (b / 4503599627370496) mod 2048 in
  let f := b mod 4503599627370496 in
  if e =? 2047 then None
  else if e =? 0 then Some (neg, Z.of_N f, (-1074)%Z)
  else Some (neg, Z.of_N (4503599627370496 + f), (Z.of_N e - 1075)%Z).
(* Some n when the value is the integer n *)
Definition dbl_int (b : N) : option Z :=
  match dbl_decode b with
  | None => None
  | Some (neg, m, e) =>
      let sg := (if neg then -1 else 1)%Z in
      if (0 <=? e)%Z then Some (sg * (m * 2 ^ e))%Z
      else if (m mod 2 ^ (- e) =? 0)%Z then Some (sg * (m / 2 ^ (- e)))%Z
      else None
  end.
(* CPPCMS_JSON_SPECIALIZE_INT(type)::get for a type with range lo..hi; None = bad_value_cast *)
Definition get_int (lo hi : Z) (b : N) : option Z :=
  match dbl_int b with
  | Some n => if ((lo <=? n) && (n <=? hi))%Z then Some n else None
  | None => None
  end.
(* traits<float>::get: range check against numeric_limits<float>::max() = (2^24-1)*2^104, then
   the (hardware) conversion to_float *)
Definition flt_max_m : Z := 16777215.
Definition in_float_range (b : N) : bool :=
  match dbl_decode b with
  | None => false
  | Some (_, m, e) =>
      if (0 <=? e)%Z then (m * 2 ^ e <=? flt_max_m * 2 ^ 104)%Z
      else (m <=? flt_max_m * 2 ^ (104 - e))%Z
  end.
Definition get_float (to_float : N -> N) (b : N) : option N :=
  if in_float_range b then Some (to_float b) else None.
