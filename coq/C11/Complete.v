(* C11: completeness for the token grammar of Sound.v, hence an exact characterisation of the accepted inputs:
   parse accepts s with value v  <->  the tokens of s form a text of TVal denoting v, nested at most 512 deep, followed by
   the end of input. *)
From CppcmsV Require Import Base.Tac C11.Defs C11.Proofs1 C11.Proofs2 C11.Proofs3 C11.Proofs4 C11.Sound.
Local Open Scope N_scope.

(* the machine on a list of tokens *)
Inductive treaches : list token -> mstate -> mstate -> Prop :=
| T0 m : treaches [] m m
| TS t ts m m' : terminal m = false -> treaches ts (step_tok t m) m' -> treaches (t :: ts) m m'.

Lemma treaches_app a b m1 m2 m3 : treaches a m1 m2 -> treaches b m2 m3 -> treaches (a ++ b) m1 m3.
Proof. induction 1 as [|t ts m m' T _ IH]; intros H; [exact H|]. cbn [app]. apply TS; [exact T|apply IH; exact H]. Qed.
Lemma treaches_one t m : terminal m = false -> treaches [t] m (step_tok t m).
Proof. intros T. apply TS; [exact T|apply T0]. Qed.

Lemma insert_Forall_inv {A} (P : list N * A -> Prop) k v : forall m, map_mem k m = false ->
  Forall P (map_insert k v m) -> P (k, v) /\ Forall P m.
Proof.
  induction m as [|[k' v'] m IH]; intros M H; cbn [map_insert] in H.
  - inversion H; subst. split; [assumption|constructor].
  - cbn [map_mem] in M. apply orb_false_iff in M. destruct M as [E M].
    destruct (key_ltb k k'); [inversion H; subst; split; assumption|].
    rewrite E in H. inversion H as [|? ? H1 H2]; subst. destruct (IH M H2) as [HA HB]. split; [exact HA|constructor; assumption].
Qed.

Definition fits (d : nat) (v : jv) : Prop := (d + depth v <= max_depth)%nat.

Definition Q_val (tv : list token) (v : jv) : Prop :=
  forall s K key K2 res, vstate s K key K2 -> fits (length K2) v ->
  exists key', treaches tv (s, K, key, res) (plug v K2 key' res).
Definition Q_arr (s : st) (items : list jv) (ts : list token) : Prop :=
  forall s0 K key K2 res, vstate s0 K key K2 -> (S (length K2) <= max_depth)%nat -> Forall (fits (S (length K2))) items ->
  exists key', treaches ts (s0, K, key, res) (s, FArr items :: K2, key', res).
Definition Q_obj (s : st) (m : list (list N * jv)) (k : list N) (ts : list token) : Prop :=
  forall s0 K key K2 res, vstate s0 K key K2 -> (S (length K2) <= max_depth)%nat ->
  Forall (fun kx => fits (S (length K2)) (snd kx)) m ->
  exists key' k0, treaches ts (s0, K, key, res) (s, FObj m k0 :: K2, key', res) /\
                  (s = SObjColon \/ s = SObjValue -> key' = k).

Lemma depth_arr_fits d items : fits d (JArr (rev items)) -> (S d <= max_depth)%nat /\ Forall (fits (S d)) items.
Proof.
  unfold fits. cbn [depth]. intros H. split; [lia|].
  pose proof (fold_max_Forall depth (fold_right (fun x a => Nat.max (depth x) a) O (rev items)) (rev items) (le_n _)) as F.
  apply Forall_rev in F. rewrite rev_involutive in F.
  eapply Forall_impl; [|exact F]. cbn beta. intros x Hx. lia.
Qed.
Lemma depth_obj_fits d m : fits d (JObj m) -> (S d <= max_depth)%nat /\ Forall (fun kx => fits (S d) (snd kx)) m.
Proof.
  unfold fits. cbn [depth]. intros H. split; [lia|].
  pose proof (fold_max_Forall (fun kx : list N * jv => depth (snd kx)) (fold_right (fun kx a => Nat.max (depth (snd kx)) a) O m) m (le_n _)) as F.
  eapply Forall_impl; [|exact F]. cbn beta. intros x Hx. lia.
Qed.

Lemma grammar_complete :
  (forall tv v, TVal tv v -> Q_val tv v) /\
  (forall s items ts, PArr s items ts -> Q_arr s items ts) /\
  (forall s m k ts, PObj s m k ts -> Q_obj s m k ts).
Proof.
  apply TVal_PArr_PObj_ind.
  - (* scalar *)
    intros t v Hv s K key K2 res VS F. exists key.
    assert (NT : terminal (s, K, key, res) = false) by (eapply vstate_nonterm; [exact VS|unfold fits in F; lia]).
    assert (N93 : is_tstruct t 93 = false) by (destruct t; cbn [vtok_of] in Hv; try discriminate; try reflexivity;
      cbn [is_tstruct]; destruct (N.eqb_spec c 93); [subst; discriminate|reflexivity]).
    replace (plug v K2 key res) with (step_tok t (s, K, key, res)); [apply treaches_one; exact NT|].
    rewrite (vstate_step _ _ _ _ res t VS N93). unfold on_value. rewrite Hv. reflexivity.
  - (* array closed *)
    intros s items ts P IH s0 K key K2 res VS F. destruct (depth_arr_fits _ _ F) as [L FA].
    destruct (IH s0 K key K2 res VS L FA) as [key' R]. exists key'.
    eapply treaches_app; [exact R|].
    replace (plug (JArr (rev items)) K2 key' res) with (step_tok (TStruct 93) (s, FArr items :: K2, key', res)).
    + apply treaches_one. inversion P; subst; apply nonterm; try discriminate; cbn [length]; lia.
    + inversion P; subst; reflexivity.
  - (* object closed *)
    intros s m k ts P IH Hs s0 K key K2 res VS F. destruct (depth_obj_fits _ _ F) as [L FA].
    destruct (IH s0 K key K2 res VS L FA) as [key' [k0 [R _]]]. exists key'.
    eapply treaches_app; [exact R|].
    replace (plug (JObj m) K2 key' res) with (step_tok (TStruct 125) (s, FObj m k0 :: K2, key', res)).
    + apply treaches_one. destruct Hs; subst; apply nonterm; try discriminate; cbn [length]; lia.
    + destruct Hs; subst; reflexivity.
  - (* PA_open *)
    intros s0 K key K2 res VS L _. exists key.
    replace (SArrValOrClose, FArr [] :: K2, key, res) with (step_tok (TStruct 91) (s0, K, key, res)).
    + apply treaches_one. eapply vstate_nonterm; [exact VS|lia].
    + rewrite (vstate_step _ _ _ _ res (TStruct 91) VS eq_refl). reflexivity.
  - (* PA_val *)
    intros items ts tv v P IHP T IHT s0 K key K2 res VS L FA. inversion FA as [|? ? Fv Fi]; subst.
    destruct (IHP s0 K key K2 res VS L Fi) as [key1 R1].
    destruct (IHT SArrValOrClose (FArr items :: K2) key1 (FArr items :: K2) res (VS_arr items K2 key1) Fv) as [key2 R2].
    exists key2. eapply treaches_app; [exact R1|exact R2].
  - (* PA_comma *)
    intros items ts P IHP s0 K key K2 res VS L FA.
    destruct (IHP s0 K key K2 res VS L FA) as [key1 R1]. exists key1.
    eapply treaches_app; [exact R1|].
    replace (SArrValOrClose, FArr items :: K2, key1, res) with (step_tok (TStruct 44) (SArrCloseOrComma, FArr items :: K2, key1, res)) by reflexivity.
    apply treaches_one. apply nonterm; try discriminate. cbn [length]. lia.
  - (* PO_open *)
    intros k s0 K key K2 res VS L _. exists key, [].
    split; [|intros [H|H]; discriminate].
    replace (SObjKeyOrClose, FObj [] [] :: K2, key, res) with (step_tok (TStruct 123) (s0, K, key, res)).
    + apply treaches_one. eapply vstate_nonterm; [exact VS|lia].
    + rewrite (vstate_step _ _ _ _ res (TStruct 123) VS eq_refl). reflexivity.
  - (* PO_key *)
    intros m k0 ts k P IHP s0 K key K2 res VS L FA.
    destruct (IHP s0 K key K2 res VS L FA) as [key1 [k1 [R1 _]]]. exists k, k1.
    split; [|intros _; reflexivity].
    eapply treaches_app; [exact R1|].
    replace (SObjColon, FObj m k1 :: K2, k, res) with (step_tok (TStr k) (SObjKeyOrClose, FObj m k1 :: K2, key1, res)) by reflexivity.
    apply treaches_one. apply nonterm; try discriminate. cbn [length]. lia.
  - (* PO_colon *)
    intros m k ts P IHP s0 K key K2 res VS L FA.
    destruct (IHP s0 K key K2 res VS L FA) as [key1 [k1 [R1 E]]]. rewrite (E (or_introl eq_refl)) in R1. exists k, k1.
    split; [|intros _; reflexivity].
    eapply treaches_app; [exact R1|].
    replace (SObjValue, FObj m k1 :: K2, k, res) with (step_tok (TStruct 58) (SObjColon, FObj m k1 :: K2, k, res)) by reflexivity.
    apply treaches_one. apply nonterm; try discriminate. cbn [length]. lia.
  - (* PO_val *)
    intros m k ts tv v P IHP M T IHT s0 K key K2 res VS L FA.
    destruct (insert_Forall_inv _ k v m M FA) as [Fv Fm]. cbn [snd] in Fv.
    destruct (IHP s0 K key K2 res VS L Fm) as [key1 [k1 [R1 E]]]. rewrite (E (or_intror eq_refl)) in R1.
    destruct (IHT SObjValue (FObj m k1 :: K2) k (FObj m k :: K2) res (VS_obj m k1 K2 k M) Fv) as [key2 R2].
    exists key2, k. split; [|intros [H|H]; discriminate].
    eapply treaches_app; [exact R1|exact R2].
  - (* PO_comma *)
    intros m k ts P IHP s0 K key K2 res VS L FA.
    destruct (IHP s0 K key K2 res VS L FA) as [key1 [k1 [R1 _]]]. exists key1, k1.
    split; [|intros [H|H]; discriminate].
    eapply treaches_app; [exact R1|].
    replace (SObjKeyOrClose, FObj m k1 :: K2, key1, res) with (step_tok (TStruct 44) (SObjCloseOrComma, FObj m k1 :: K2, key1, res)) by reflexivity.
    apply treaches_one. apply nonterm; try discriminate. cbn [length]. lia.
Qed.

Section C.
Variable to_double : list N -> option N.
Notation next := (next to_double).
Notation run := (run to_double).
Notation parse := (parse to_double).

(* token runs and byte runs *)
Lemma lexes_reaches s toks s' : lexes to_double s toks s' -> forall m m', treaches toks m m' -> reaches to_double s m s' m'.
Proof.
  induction 1 as [s|s t r n toks s' E _ IH]; intros m m' T.
  - inversion T; subst. apply R0.
  - inversion T as [|? ? ? ? NT T']; subst. eapply RS; [exact NT|exists n; exact E|apply IH; exact T'].
Qed.

Theorem grammar_text_accepted s toks s' v rest n : lexes to_double s toks s' -> TVal toks v -> (depth v <= max_depth)%nat ->
  next false s' = (TEof, rest, n) -> parse true s = POk v rest.
Proof.
  intros L T D E.
  destruct (proj1 grammar_complete toks v T SVal [] [] [] JUndef (VS_top [] []) D) as [key' R].
  pose proof (lexes_reaches s toks s' L _ _ R) as RB. cbn [plug] in RB.
  destruct (reaches_final to_double _ _ _ _ 1 RB eq_refl) as [line Hr].
  unfold Defs.parse. change init_state with (SVal, @nil frame, @nil N, JUndef). rewrite Hr. cbn [m_st m_res]. rewrite E. reflexivity.
Qed.

(* exactly *)
Theorem parse_accepts_exactly s v rest :
  parse true s = POk v rest <->
  exists toks s' n, lexes to_double s toks s' /\ TVal toks v /\ (depth v <= max_depth)%nat /\ next false s' = (TEof, rest, n).
Proof.
  split.
  - intros H. destruct (parse_accepts_only_grammar to_double true s v rest H) as [toks [s' [L [T [_ [n E]]]]]].
    exists toks, s', n. repeat split; try assumption.
    apply (Proofs2.parse_sound to_double true s v rest H).
  - intros [toks [s' [n [L [T [D E]]]]]]. eapply grammar_text_accepted; eassumption.
Qed.

(* the same in prefix mode (full = false, operator>> and load(...,false)): parsing stops right after the last token of the value *)
Theorem grammar_text_accepted_prefix s toks s' v : lexes to_double s toks s' -> TVal toks v -> (depth v <= max_depth)%nat ->
  parse false s = POk v s'.
Proof.
  intros L T D.
  destruct (proj1 grammar_complete toks v T SVal [] [] [] JUndef (VS_top [] []) D) as [key' R].
  pose proof (lexes_reaches s toks s' L _ _ R) as RB. cbn [plug] in RB.
  destruct (reaches_final to_double _ _ _ _ 1 RB eq_refl) as [line Hr].
  unfold Defs.parse. change init_state with (SVal, @nil frame, @nil N, JUndef). rewrite Hr. reflexivity.
Qed.

Theorem parse_prefix_accepts_exactly s v rest :
  parse false s = POk v rest <-> exists toks, lexes to_double s toks rest /\ TVal toks v /\ (depth v <= max_depth)%nat.
Proof.
  split.
  - intros H. destruct (parse_accepts_only_grammar to_double false s v rest H) as [toks [s' [L [T [_ E]]]]]. subst s'.
    exists toks. repeat split; try assumption. apply (Proofs2.parse_sound to_double false s v rest H).
  - intros [toks [L [T D]]]. eapply grammar_text_accepted_prefix; eassumption.
Qed.
End C.
