(* C11: the number round trip stated with two global laws of the printer and of strtod and the excluded class made explicit. *)
From CppcmsV Require Import Base.Tac C11.Defs C11.Proofs1 C11.Proofs3 C11.Proofs4 C11.Proofs5 C11.NumGrammar.
Local Open Scope N_scope.

Section L.
Variable to_double : list N -> option N.
Variable print16 : N -> list N.
Variable rt : N -> N.
(* the numbers the claim is about (finite ones) *)
Variable finite : N -> bool.

(* what the reader hands to strtod for the printed text of x *)
Definition reread (x : N) : option N := to_double (fst (scan_number (print16 x))).
(* the excluded class: the printed decimal does not read back as a finite double (known finding 2: the printed 16 digits
   round up beyond DBL_MAX) *)
Definition excluded (x : N) : Prop := reread x = None.

(* law 1: the 16-digit printer emits an RFC 8259 number for every finite double *)
Hypothesis print_is_rfc : forall x, finite x = true -> rfc_num (print16 x) = true.
(* law 2: rt x names the double strtod returns for the printed text, when it returns one *)
Hypothesis reread_is_rt : forall x b, finite x = true -> reread x = Some b -> b = rt x.

Lemma num_ok_of_laws x : finite x = true -> ~ excluded x -> num_ok to_double print16 rt x.
Proof.
  intros F NE. pose proof (print_is_rfc x F) as PR. apply rfc_num_inv in PR. destruct PR as [neg [i [f [e [Hi [Hf [He HL]]]]]]].
  exists neg, i, f, e. repeat split; try assumption.
  unfold excluded, reread in NE. pose proof (reread_is_rt x) as R. unfold reread in R.
  pose proof (scan_number_ok neg i f e [] Hi Hf He I) as SN. rewrite app_nil_r in SN. rewrite HL, SN in *. cbn [fst] in *.
  destruct (to_double (num_norm neg i f e)) as [b|]; [|contradiction]. rewrite (R b F eq_refl). reflexivity.
Qed.

Inductive nums_in (P : N -> Prop) : jv -> Prop :=
| NI_undef : nums_in P JUndef | NI_null : nums_in P JNull | NI_bool b : nums_in P (JBool b) | NI_str s : nums_in P (JStr s)
| NI_num x : P x -> nums_in P (JNum x)
| NI_arr l : Forall (nums_in P) l -> nums_in P (JArr l)
| NI_obj m : Forall (fun kv => nums_in P (snd kv)) m -> nums_in P (JObj m).

Theorem roundtrip_outside_excluded_class v tabs :
  no_undef v = true -> strings_ok utf8_valid v = true -> maps_ok v = true ->
  nums_in (fun x => finite x = true /\ ~ excluded x) v -> (depth v <= max_depth)%nat ->
  exists txt, write print16 tabs v = Some txt /\ parse to_double true txt = POk (map_nums rt v) [].
Proof.
  intros H1 H2 H3 H4 D. apply write_parse; [|exact D].
  revert H1 H2 H3 H4. apply (jv_ind' (fun v => no_undef v = true -> strings_ok utf8_valid v = true -> maps_ok v = true ->
    nums_in (fun x => finite x = true /\ ~ excluded x) v -> wgood to_double print16 rt v)).
  - discriminate.
  - intros; constructor.
  - intros; constructor.
  - intros x _ _ _ H. inversion H as [| | | |? [F NE]| |]; subst. constructor. apply num_ok_of_laws; assumption.
  - intros s _ H _ _. constructor. exact H.
  - intros l IH A B C E. cbn [no_undef strings_ok maps_ok] in *. inversion E as [| | | | |? EL|]; subst. clear E. constructor.
    revert A B C EL. induction IH as [|x l Hx _ IHl]; intros A B C EL; [constructor|]. cbn [forallb] in *. inversion EL; subst.
    apply andb_true_iff in A, B, C. destruct A, B, C. constructor; [apply Hx; assumption|apply IHl; assumption].
  - intros m IH A B C E. cbn [no_undef strings_ok maps_ok] in *. inversion E as [| | | | | |? EL]; subst. clear E.
    apply andb_true_iff in C. destruct C as [HS C]. constructor; [exact HS|]. clear HS.
    revert A B C EL. induction IH as [|x l Hx _ IHl]; intros A B C EL; [constructor|]. cbn [forallb] in *. inversion EL; subst.
    apply andb_true_iff in A, B, C. destruct A, B as [B ?], C. apply andb_true_iff in B. destruct B.
    constructor; [split; [assumption|apply Hx; assumption]|apply IHl; assumption].
Qed.

(* a value that is one number of the excluded class is written to text the reader rejects (finding 2 on the model) *)
Theorem excluded_number_rejected x tabs : finite x = true -> excluded x ->
  exists txt, write print16 tabs (JNum x) = Some txt /\ parse to_double true txt = PFail 1.
Proof.
  intros F E. exists (print16 x). split; [reflexivity|].
  pose proof (print_is_rfc x F) as R. apply rfc_num_inv in R. destruct R as [neg [i [f [e [Hi [Hf [He HL]]]]]]].
  rewrite HL. apply number_overflow_rejected; try assumption.
  unfold excluded, reread in E. pose proof (scan_number_ok neg i f e [] Hi Hf He I) as SN. rewrite app_nil_r in SN.
  rewrite HL, SN in E. exact E.
Qed.
End L.
