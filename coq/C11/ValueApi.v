(* C11: the part of the value API the round trip relies on: the order of object members (std::map<string_key,value> with
   string_key::operator< = lexicographic order of unsigned bytes), map::insert, and value::operator== (variant comparison,
   numbers compared as doubles). *)
From CppcmsV Require Import Base.Tac C11.Defs C11.Proofs1 C11.Proofs2 C11.Proofs4.
Local Open Scope N_scope.

(* ------------------------------------------------------------------------------------------ *)
(* key order                                                                                    *)
(* ------------------------------------------------------------------------------------------ *)
Theorem key_order_strict_total :
  (forall a, key_ltb a a = false) /\
  (forall a b c, key_ltb a b = true -> key_ltb b c = true -> key_ltb a c = true) /\
  (forall a b, key_ltb a b = true \/ a = b \/ key_ltb b a = true) /\
  (forall a b, key_ltb a b = true -> key_ltb b a = false).
Proof.
  split; [exact key_ltb_irrefl|]. split; [exact key_ltb_trans|]. split; [|exact key_ltb_asym].
  intros a b. destruct (key_ltb a b) eqn:E1; [left; reflexivity|].
  destruct (key_eqb a b) eqn:E2; [right; left; apply key_eqb_eq; exact E2|].
  right. right. apply key_tricho; assumption.
Qed.

(* a proper prefix sorts first; otherwise the first differing byte decides, as unsigned *)
Theorem key_order_lexicographic p x y a b : x < y -> key_ltb (p ++ x :: a) (p ++ y :: b) = true.
Proof.
  intros H. induction p as [|c p IH]; cbn [app key_ltb].
  - apply N.ltb_lt in H. rewrite H. reflexivity.
  - rewrite N.ltb_irrefl. exact IH.
Qed.
Theorem key_order_prefix p c a : key_ltb p (p ++ c :: a) = true.
Proof. induction p as [|d p IH]; cbn [app key_ltb]; [reflexivity|]. rewrite N.ltb_irrefl. exact IH. Qed.

(* ------------------------------------------------------------------------------------------ *)
(* map::insert                                                                                  *)
(* ------------------------------------------------------------------------------------------ *)
Fixpoint map_find {A} (k : list N) (m : list (list N * A)) : option A :=
  match m with
  | [] => None
  | (k', v) :: r => if key_eqb k k' then Some v else map_find k r
  end.

Lemma key_eqb_sym a b : key_eqb a b = key_eqb b a.
Proof.
  destruct (key_eqb a b) eqn:E.
  - apply key_eqb_eq in E. subst. symmetry. apply key_eqb_refl.
  - destruct (key_eqb b a) eqn:E2; [|reflexivity]. apply key_eqb_eq in E2. subst. rewrite key_eqb_refl in E. discriminate.
Qed.

Theorem insert_existing_keeps {A} k (v : A) : forall m, keys_sorted m = true -> map_mem k m = true -> map_insert k v m = m.
Proof.
  induction m as [|[k' v'] m IH]; intros S H; [discriminate|].
  cbn [map_mem] in H. cbn [map_insert].
  destruct (key_eqb k k') eqn:E.
  - apply key_eqb_eq in E. subst. rewrite key_ltb_irrefl. reflexivity.
  - cbn [orb] in H. rewrite keys_sorted_cons in S. apply andb_true_iff in S. destruct S as [LB S].
    destruct (key_ltb k k') eqn:L.
    + (* k below the head of a sorted list cannot be a member of the tail *)
      exfalso. pose proof (lb_all k' m LB S) as F.
      clear IH. induction m as [|[k2 v2] m IHm]; [discriminate|]. cbn [map_mem] in H. inversion F as [|? ? F1 F2]; subst. cbn [fst] in F1.
      destruct (key_eqb k k2) eqn:E2.
      * apply key_eqb_eq in E2. subst. pose proof (key_ltb_trans _ _ _ L F1) as C. rewrite key_ltb_irrefl in C. discriminate.
      * cbn [orb] in H. rewrite keys_sorted_cons in S. apply andb_true_iff in S. destruct S as [LB2 S2].
        apply IHm; try assumption. destruct m as [|[k3 v3] m3]; [reflexivity|]. cbn [lb] in *. inversion F2; subst. assumption.
    + f_equal. apply IH; assumption.
Qed.

Theorem find_after_insert {A} k (v : A) : forall m, map_mem k m = false -> map_find k (map_insert k v m) = Some v.
Proof.
  induction m as [|[k' v'] m IH]; intros H; cbn [map_insert map_find].
  - rewrite key_eqb_refl. reflexivity.
  - cbn [map_mem] in H. apply orb_false_iff in H. destruct H as [E H].
    destruct (key_ltb k k'); cbn [map_find]; [rewrite key_eqb_refl; reflexivity|].
    rewrite E. cbn [map_find]. rewrite E. apply IH. exact H.
Qed.

Theorem find_other_after_insert {A} k k2 (v : A) : forall m, key_eqb k2 k = false -> map_find k2 (map_insert k v m) = map_find k2 m.
Proof.
  induction m as [|[k' v'] m IH]; intros H; cbn [map_insert map_find].
  - rewrite H. reflexivity.
  - destruct (key_ltb k k'); cbn [map_find]; [rewrite H; reflexivity|].
    destruct (key_eqb k k'); cbn [map_find]; [reflexivity|]. destruct (key_eqb k2 k'); [reflexivity|]. apply IH. exact H.
Qed.

(* the order of insertion does not matter: the enumeration (hence the written text) depends on the set of members only *)
Theorem insert_commute {A} k1 k2 (v1 v2 : A) : key_eqb k1 k2 = false -> forall m, keys_sorted m = true ->
  map_insert k1 v1 (map_insert k2 v2 m) = map_insert k2 v2 (map_insert k1 v1 m).
Proof.
  intros NE. assert (NE' : key_eqb k2 k1 = false) by (rewrite key_eqb_sym; exact NE).
  induction m as [|[k v] m IH]; intros S.
  - cbn [map_insert]. rewrite NE, NE'.
    destruct (key_ltb k1 k2) eqn:L; [rewrite (key_ltb_asym _ _ L); reflexivity|].
    rewrite (key_tricho _ _ L NE). reflexivity.
  - rewrite keys_sorted_cons in S. apply andb_true_iff in S. destruct S as [LB S]. specialize (IH S).
    cbn [map_insert].
    destruct (key_ltb k2 k) eqn:L2; destruct (key_ltb k1 k) eqn:L1; cbn [map_insert].
    + rewrite NE, NE'. destruct (key_ltb k1 k2) eqn:L.
      * rewrite (key_ltb_asym _ _ L). rewrite L2. reflexivity.
      * rewrite (key_tricho _ _ L NE). rewrite L1. reflexivity.
    + (* k2 < k <= k1 *)
      assert (L21 : key_ltb k2 k1 = true).
      { destruct (key_eqb k1 k) eqn:E; [apply key_eqb_eq in E; subst; exact L2|].
        apply (key_ltb_trans _ _ _ L2). apply key_tricho; assumption. }
      rewrite (key_ltb_asym _ _ L21), NE, L1. destruct (key_eqb k1 k); cbn [map_insert]; rewrite L2; reflexivity.
    + assert (L12 : key_ltb k1 k2 = true).
      { destruct (key_eqb k2 k) eqn:E; [apply key_eqb_eq in E; subst; exact L1|].
        apply (key_ltb_trans _ _ _ L1). apply key_tricho; assumption. }
      rewrite (key_ltb_asym _ _ L12), NE', L2. destruct (key_eqb k2 k); cbn [map_insert]; rewrite L1; reflexivity.
    + destruct (key_eqb k2 k) eqn:E2; destruct (key_eqb k1 k) eqn:E1; cbn [map_insert]; rewrite ?L1, ?L2, ?E1, ?E2.
      * apply key_eqb_eq in E1, E2. subst. rewrite key_eqb_refl in NE. discriminate.
      * reflexivity.
      * reflexivity.
      * f_equal. exact IH.
Qed.

(* ------------------------------------------------------------------------------------------ *)
(* operator==                                                                                   *)
(* ------------------------------------------------------------------------------------------ *)
Definition is_nan (b : N) : bool := ((b / 4503599627370496) mod 2048 =? 2047) && negb (b mod 4503599627370496 =? 0).
Definition is_zero (b : N) : bool := b mod 9223372036854775808 =? 0.
(* IEEE-754 equality of two binary64 patterns *)
Definition dbl_eqb (a b : N) : bool :=
  if is_nan a || is_nan b then false else if is_zero a && is_zero b then true else a =? b.

Fixpoint jv_eqb (x y : jv) : bool :=
  match x, y with
  | JUndef, JUndef => true
  | JNull, JNull => true
  | JBool a, JBool b => Bool.eqb a b
  | JNum a, JNum b => dbl_eqb a b
  | JStr a, JStr b => key_eqb a b
  | JArr l, JArr m =>
      (fix go (l m : list jv) : bool :=
         match l, m with
         | [], [] => true
         | a :: l', b :: m' => jv_eqb a b && go l' m'
         | _, _ => false
         end) l m
  | JObj l, JObj m =>
      (fix go (l m : list (list N * jv)) : bool :=
         match l, m with
         | [], [] => true
         | (k, a) :: l', (k', b) :: m' => key_eqb k k' && jv_eqb a b && go l' m'
         | _, _ => false
         end) l m
  | _, _ => false
  end.

(* a value without NaN equals itself; this is what the check observes after a bit-identical reload *)
Theorem jv_eqb_refl : forall v, nums_ok (fun b => negb (is_nan b)) v = true -> jv_eqb v v = true.
Proof.
  apply (jv_ind' (fun v => nums_ok (fun b => negb (is_nan b)) v = true -> jv_eqb v v = true)); try reflexivity.
  - intros b _. destruct b; reflexivity.
  - intros x H. cbn [nums_ok] in H. cbn [jv_eqb]. unfold dbl_eqb. apply negb_true_iff in H. rewrite H. cbn [orb].
    destruct (is_zero x); cbn [andb]; [reflexivity|apply N.eqb_refl].
  - intros s _. cbn [jv_eqb]. apply key_eqb_refl.
  - intros l IH H. cbn [nums_ok] in H. cbn [jv_eqb].
    induction IH as [|x l Hx _ IHl]; [reflexivity|]. cbn [forallb] in H. apply andb_true_iff in H. destruct H as [H1 H2].
    rewrite (Hx H1). cbn [andb]. apply IHl. exact H2.
  - intros m IH H. cbn [nums_ok] in H. cbn [jv_eqb].
    induction IH as [|[k x] l Hx _ IHl]; [reflexivity|]. cbn [forallb snd] in *. apply andb_true_iff in H. destruct H as [H1 H2].
    rewrite key_eqb_refl, (Hx H1). cbn [andb]. apply IHl. exact H2.
Qed.

(* equal values are identical up to the sign of zeros *)
Definition canon_zero (b : N) : N := if is_zero b then 0 else b.
Lemma dbl_eqb_canon a b : dbl_eqb a b = true -> canon_zero a = canon_zero b.
Proof.
  unfold dbl_eqb, canon_zero. destruct (is_nan a || is_nan b); [discriminate|].
  destruct (is_zero a) eqn:Za; destruct (is_zero b) eqn:Zb; cbn [andb]; intros H; try reflexivity.
  - apply N.eqb_eq in H. subst. rewrite Za in Zb. discriminate.
  - apply N.eqb_eq in H. subst. rewrite Za in Zb. discriminate.
  - apply N.eqb_eq in H. exact H.
Qed.

Theorem jv_eqb_sound : forall v w, jv_eqb v w = true -> map_nums canon_zero v = map_nums canon_zero w.
Proof.
  apply (jv_ind' (fun v => forall w, jv_eqb v w = true -> map_nums canon_zero v = map_nums canon_zero w)).
  - intros [] H; try discriminate. reflexivity.
  - intros [] H; try discriminate. reflexivity.
  - intros b [] H; try discriminate. cbn [jv_eqb] in H. apply eqb_prop in H. subst. reflexivity.
  - intros x [] H; try discriminate. cbn [jv_eqb] in H. cbn [map_nums]. f_equal. apply dbl_eqb_canon. exact H.
  - intros s [] H; try discriminate. cbn [jv_eqb] in H. apply key_eqb_eq in H. subst. reflexivity.
  - intros l IH [] H; try discriminate. cbn [jv_eqb] in H. cbn [map_nums]. f_equal.
    revert l0 H. induction IH as [|x l Hx _ IHl]; intros [|y m] H; try discriminate; [reflexivity|].
    apply andb_true_iff in H. destruct H as [H1 H2]. cbn [map]. f_equal; [apply Hx; exact H1|apply IHl; exact H2].
  - intros m IH [] H; try discriminate. cbn [jv_eqb] in H. cbn [map_nums]. f_equal.
    revert m0 H. induction IH as [|[k x] l Hx _ IHl]; intros [|[k' y] m'] H; try discriminate; [reflexivity|].
    apply andb_true_iff in H. destruct H as [H1 H2]. apply andb_true_iff in H1. destruct H1 as [Hk H1].
    apply key_eqb_eq in Hk. subst. cbn [map fst snd] in *. f_equal; [f_equal; apply Hx; exact H1|apply IHl; exact H2].
Qed.

(* {"b":1,"a":2} built in either order enumerates a before b; a proper prefix sorts first; bytes compare unsigned (7F < C3 A9);
   +0 == -0 and NaN != NaN *)
Example value_api_nonvacuous :
  map_insert [98] JNull (map_insert [97] (JBool true) []) = [([97], JBool true); ([98], JNull)] /\
  map_insert [97] (JBool true) (map_insert [98] JNull []) = [([97], JBool true); ([98], JNull)] /\
  map_insert [97] JNull [([97], JBool true)] = [([97], JBool true)] /\
  key_ltb [97] [97; 0] = true /\ key_ltb [127] [195; 169] = true /\ key_ltb [] [0] = true /\
  jv_eqb (JArr [JNum 0]) (JArr [JNum 9223372036854775808]) = true /\
  jv_eqb (JNum 9221120237041090560) (JNum 9221120237041090560) = false /\
  jv_eqb (JObj [([97], JNum 1)]) (JObj [([97], JNum 2)]) = false.
Proof. repeat split; vm_compute; reflexivity. Qed.
