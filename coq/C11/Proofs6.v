(* C11 proofs, part 6: what utf8::validate accepts.  A byte string is accepted exactly when it is the
   concatenation of the UTF-8 encodings (utf8::encode) of Unicode scalar values (code points up to
   10FFFF that are not surrogates).  Consequence: a string literal given by code points (raw
   characters, short escapes, \uXXXX, surrogate pairs) always decodes to accepted content. *)
From CppcmsV Require Import Base.Tac C11.Defs C11.Proofs1 C11.Proofs2 C11.Proofs3.
Local Open Scope N_scope.

Ltac bprop :=
  repeat match goal with
  | H : andb _ _ = true |- _ => apply andb_true_iff in H; destruct H
  | H : N.leb _ _ = true |- _ => apply N.leb_le in H
  | H : N.leb _ _ = false |- _ => apply N.leb_gt in H
  | H : N.ltb _ _ = true |- _ => apply N.ltb_lt in H
  | H : N.ltb _ _ = false |- _ => apply N.ltb_ge in H
  | H : N.eqb _ _ = true |- _ => apply N.eqb_eq in H
  | H : N.eqb _ _ = false |- _ => apply N.eqb_neq in H
  end.

Lemma cp_valid_spec x : cp_valid x = true <-> x <= 1114111 /\ ~ (55296 <= x <= 57343).
Proof.
  unfold cp_valid. destruct (1114111 <? x) eqn:A; [bprop; split; [discriminate|lia]|].
  destruct ((55296 <=? x) && (x <=? 57343)) eqn:B; bprop.
  - split; [discriminate|lia].
  - split; [intros _|reflexivity]. apply andb_false_iff in B. destruct B; bprop; lia.
Qed.

Lemma trail_ok t : 128 <= t < 192 -> is_trail t = true.
Proof. intros H. unfold is_trail. apply andb_true_iff. split; [apply N.leb_le|apply N.ltb_lt]; lia. Qed.
Lemma is_trail_spec t : is_trail t = true -> 128 <= t < 192.
Proof. unfold is_trail. intros H. bprop. lia. Qed.

Lemma tl_val c : (c < 128 -> trail_length c = 0) /\ (128 <= c < 194 -> trail_length c = 4) /\
  (194 <= c < 224 -> trail_length c = 1) /\ (224 <= c < 240 -> trail_length c = 2) /\
  (240 <= c <= 244 -> trail_length c = 3) /\ (244 < c -> trail_length c = 4).
Proof.
  unfold trail_length.
  destruct (c <? 128) eqn:A; bprop; [repeat split; intros; try lia; reflexivity|].
  destruct (c <? 194) eqn:B; bprop; [repeat split; intros; try lia; reflexivity|].
  destruct (c <? 224) eqn:C; bprop; [repeat split; intros; try lia; reflexivity|].
  destruct (c <? 240) eqn:D; bprop; [repeat split; intros; try lia; reflexivity|].
  destruct (c <=? 244) eqn:E; bprop; repeat split; intros; try lia; reflexivity.
Qed.

Lemma cp_ok_intro trail x : cp_valid x = true -> cp_width x = trail + 1 -> cp_ok trail x = true.
Proof. intros H1 H2. unfold cp_ok. rewrite H1, H2, N.eqb_refl. reflexivity. Qed.

Lemma width_val x : (x <= 127 -> cp_width x = 1) /\ (127 < x <= 2047 -> cp_width x = 2) /\
  (2047 < x <= 65535 -> cp_width x = 3) /\ (65535 < x -> cp_width x = 4).
Proof.
  unfold cp_width.
  destruct (x <=? 127) eqn:A; bprop; [repeat split; intros; try lia; reflexivity|].
  destruct (x <=? 2047) eqn:B; bprop; [repeat split; intros; try lia; reflexivity|].
  destruct (x <=? 65535) eqn:C; bprop; repeat split; intros; try lia; reflexivity.
Qed.

(* encodings of scalar values are accepted *)
Lemma valid_encode x r : cp_valid x = true -> utf8_valid (utf8_encode x ++ r) = utf8_valid r.
Proof.
  intros V. pose proof (proj1 (cp_valid_spec x) V) as [V1 V2]. unfold utf8_encode.
  destruct (width_val x) as [W1 [W2 [W3 W4]]].
  destruct (x <=? 127) eqn:A; bprop.
  { cbn [app utf8_valid]. destruct (tl_val x) as [T _]. rewrite T by lia. reflexivity. }
  destruct (x <=? 2047) eqn:B; bprop.
  { cbn [app utf8_valid]. destruct (tl_val (192 + x / 64)) as [_ [_ [T _]]]. rewrite T by lia.
    rewrite trail_ok by lia.
    replace ((192 + x / 64) mod 32 * 64 + (128 + x mod 64) mod 64) with x by lia.
    rewrite cp_ok_intro; [reflexivity|exact V|apply W2; lia]. }
  destruct (x <=? 65535) eqn:C; bprop.
  { cbn [app utf8_valid]. destruct (tl_val (224 + x / 4096)) as [_ [_ [_ [T _]]]]. rewrite T by lia.
    rewrite !trail_ok by lia.
    replace (((224 + x / 4096) mod 16 * 64 + (128 + x / 64 mod 64) mod 64) * 64 + (128 + x mod 64) mod 64) with x by lia.
    rewrite cp_ok_intro; [reflexivity|exact V|apply W3; lia]. }
  cbn [app utf8_valid]. destruct (tl_val (240 + x / 262144)) as [_ [_ [_ [_ [T _]]]]]. rewrite T by lia.
  rewrite !trail_ok by lia.
  replace ((((240 + x / 262144) mod 8 * 64 + (128 + x / 4096 mod 64) mod 64) * 64 + (128 + x / 64 mod 64) mod 64) * 64 + (128 + x mod 64) mod 64) with x by lia.
  rewrite cp_ok_intro; [reflexivity|exact V|apply W4; lia].
Qed.

Lemma valid_encodings cps : Forall (fun x => cp_valid x = true) cps -> utf8_valid (flat_map utf8_encode cps) = true.
Proof. induction 1 as [|x l Hx _ IH]; [reflexivity|]. cbn [flat_map]. rewrite valid_encode by exact Hx. exact IH. Qed.

Lemma cp_ok_spec trail x : cp_ok trail x = true -> cp_valid x = true /\ cp_width x = trail + 1.
Proof. unfold cp_ok. intros H. bprop. auto. Qed.

(* everything accepted is such a concatenation *)
Lemma valid_decodes_aux n : forall s, (length s <= n)%nat -> utf8_valid s = true ->
  exists cps, Forall (fun x => cp_valid x = true) cps /\ s = flat_map utf8_encode cps.
Proof.
  induction n as [|n IH]; intros s Hn H.
  { destruct s; [exists []; split; [constructor|reflexivity]|cbn in Hn; lia]. }
  destruct s as [|a r]; [exists []; split; [constructor|reflexivity]|]. cbn [length] in Hn.
  cbn [utf8_valid] in H. destruct (tl_val a) as [T0 [T4 [T1 [T2 [T3 T5]]]]].
  assert (CASES : a < 128 \/ 128 <= a < 194 \/ 194 <= a < 224 \/ 224 <= a < 240 \/ 240 <= a <= 244 \/ 244 < a) by lia.
  destruct CASES as [C|[C|[C|[C|[C|C]]]]].
  - rewrite (T0 C) in H. destruct (IH r ltac:(lia) H) as [cps [F E]].
    exists (a :: cps). split; [constructor; [apply cp_valid_spec; lia|exact F]|].
    cbn [flat_map]. rewrite <- E. unfold utf8_encode. destruct (N.leb_spec a 127); [|lia]. reflexivity.
  - rewrite (T4 C) in H. discriminate.
  - rewrite (T1 C) in H. destruct r as [|t1 r1]; [discriminate|]. bprop.
    match goal with H : is_trail t1 = true |- _ => apply is_trail_spec in H end.
    match goal with H : cp_ok 1 _ = true |- _ => apply cp_ok_spec in H; destruct H as [V W] end.
    cbn [length] in Hn. destruct (IH r1 ltac:(lia) ltac:(assumption)) as [cps [F E]].
    set (x := a mod 32 * 64 + t1 mod 64) in *.
    exists (x :: cps). split; [constructor; assumption|]. cbn [flat_map]. rewrite <- E. unfold utf8_encode.
    destruct (width_val x) as [W1 [W2 [W3 W4]]].
    destruct (N.leb_spec x 127); [rewrite W1 in W by lia; discriminate|].
    destruct (N.leb_spec x 2047); [|unfold x in *; lia].
    cbn [app]. f_equal; [unfold x; lia|f_equal; unfold x; lia].
  - rewrite (T2 C) in H. destruct r as [|t1 [|t2 r2]]; try discriminate. bprop.
    repeat match goal with H : is_trail _ = true |- _ => apply is_trail_spec in H end.
    match goal with H : cp_ok 2 _ = true |- _ => apply cp_ok_spec in H; destruct H as [V W] end.
    cbn [length] in Hn. destruct (IH r2 ltac:(lia) ltac:(assumption)) as [cps [F E]].
    set (x := (a mod 16 * 64 + t1 mod 64) * 64 + t2 mod 64) in *.
    exists (x :: cps). split; [constructor; assumption|]. cbn [flat_map]. rewrite <- E. unfold utf8_encode.
    destruct (width_val x) as [W1 [W2 [W3 W4]]].
    destruct (N.leb_spec x 127); [rewrite W1 in W by lia; discriminate|].
    destruct (N.leb_spec x 2047); [rewrite W2 in W by lia; discriminate|].
    destruct (N.leb_spec x 65535); [|unfold x in *; lia].
    cbn [app]. f_equal; [unfold x; lia|f_equal; [unfold x; lia|f_equal; unfold x; lia]].
  - rewrite (T3 C) in H. destruct r as [|t1 [|t2 [|t3 r3]]]; try discriminate. bprop.
    repeat match goal with H : is_trail _ = true |- _ => apply is_trail_spec in H end.
    match goal with H : cp_ok 3 _ = true |- _ => apply cp_ok_spec in H; destruct H as [V W] end.
    cbn [length] in Hn. destruct (IH r3 ltac:(lia) ltac:(assumption)) as [cps [F E]].
    set (x := ((a mod 8 * 64 + t1 mod 64) * 64 + t2 mod 64) * 64 + t3 mod 64) in *.
    exists (x :: cps). split; [constructor; assumption|]. cbn [flat_map]. rewrite <- E. unfold utf8_encode.
    destruct (width_val x) as [W1 [W2 [W3 W4]]].
    destruct (N.leb_spec x 127); [rewrite W1 in W by lia; discriminate|].
    destruct (N.leb_spec x 2047); [rewrite W2 in W by lia; discriminate|].
    destruct (N.leb_spec x 65535); [rewrite W3 in W by lia; discriminate|].
    cbn [app]. f_equal; [unfold x; lia|f_equal; [unfold x; lia|f_equal; [unfold x; lia|f_equal; unfold x; lia]]].
  - rewrite (T5 C) in H. discriminate.
Qed.

Theorem utf8_valid_iff s :
  utf8_valid s = true <-> exists cps, Forall (fun x => cp_valid x = true) cps /\ s = flat_map utf8_encode cps.
Proof.
  split.
  - apply (valid_decodes_aux (length s)). lia.
  - intros [cps [F E]]. subst. apply valid_encodings. exact F.
Qed.

(* string literals given by code points *)
Inductive StrCP : list N -> list N -> Prop :=
| SC_nil : StrCP [] []
| SC_raw x b s : cp_valid x = true -> 32 <= x -> x <> 34 -> x <> 92 -> StrCP b s ->
    StrCP (utf8_encode x ++ b) (utf8_encode x ++ s)
| SC_esc e x b s : simple_esc e = Some x -> StrCP b s -> StrCP (92 :: e :: b) (x :: s)
| SC_u h1 h2 h3 h4 b s :
    hex4_ok h1 h2 h3 h4 = true -> cp_valid (hex4 h1 h2 h3 h4) = true ->
    StrCP b s -> StrCP (92 :: 117 :: h1 :: h2 :: h3 :: h4 :: b) (utf8_encode (hex4 h1 h2 h3 h4) ++ s)
| SC_pair h1 h2 h3 h4 l1 l2 l3 l4 b s :
    hex4_ok h1 h2 h3 h4 = true -> is_first_surrogate (hex4 h1 h2 h3 h4) = true ->
    hex4_ok l1 l2 l3 l4 = true -> is_second_surrogate (hex4 l1 l2 l3 l4) = true ->
    StrCP b s ->
    StrCP (92 :: 117 :: h1 :: h2 :: h3 :: h4 :: 92 :: 117 :: l1 :: l2 :: l3 :: l4 :: b)
          (utf8_encode (combine_surrogate (hex4 h1 h2 h3 h4) (hex4 l1 l2 l3 l4)) ++ s).

Lemma raw_bytes l b s : Forall (fun c => 32 <= c /\ c <> 34 /\ c <> 92) l -> StrBody b s -> StrBody (l ++ b) (l ++ s).
Proof. induction 1 as [|c l [H1 [H2 H3]] _ IH]; intros H; [exact H|]. cbn [app]. apply SB_raw; auto. Qed.

Lemma encode_raw x : 32 <= x -> x <> 34 -> x <> 92 -> x <= 1114111 ->
  Forall (fun c => 32 <= c /\ c <> 34 /\ c <> 92) (utf8_encode x).
Proof.
  intros H1 H2 H3 H4. unfold utf8_encode.
  destruct (N.leb_spec x 127); [repeat constructor; lia|].
  destruct (N.leb_spec x 2047); [repeat constructor; lia|].
  destruct (N.leb_spec x 65535); repeat constructor; lia.
Qed.

Lemma simple_esc_small e x : simple_esc e = Some x -> x <= 127.
Proof.
  unfold simple_esc. repeat match goal with |- context[if ?c then _ else _] => destruct c end;
    intros H; inversion H; subst; lia.
Qed.

Lemma combine_valid w1 w2 : is_first_surrogate w1 = true -> is_second_surrogate w2 = true ->
  cp_valid (combine_surrogate w1 w2) = true.
Proof.
  unfold is_first_surrogate, is_second_surrogate, combine_surrogate. intros H1 H2. bprop.
  apply cp_valid_spec. lia.
Qed.

Theorem strcp_ok b s : StrCP b s -> StrBody b s /\ utf8_valid s = true.
Proof.
  induction 1 as [|x b s V H1 H2 H3 _ [IH1 IH2]|e x b s He _ [IH1 IH2]|h1 h2 h3 h4 b s Hh V _ [IH1 IH2]
                  |h1 h2 h3 h4 l1 l2 l3 l4 b s Hh Hf Hl Hs _ [IH1 IH2]].
  - split; [constructor|reflexivity].
  - split; [|rewrite valid_encode by exact V; exact IH2].
    apply raw_bytes; [|exact IH1]. apply encode_raw; try assumption. apply cp_valid_spec in V. lia.
  - split; [apply SB_esc; assumption|].
    pose proof (simple_esc_small e x He) as L. change (x :: s) with ([x] ++ s).
    replace [x] with (utf8_encode x) by (unfold utf8_encode; destruct (N.leb_spec x 127); [reflexivity|lia]).
    rewrite valid_encode; [exact IH2|apply cp_valid_spec; lia].
  - split; [|rewrite valid_encode by exact V; exact IH2].
    apply SB_u; try assumption. apply cp_valid_spec in V. unfold is_first_surrogate.
    destruct (N.leb_spec 55296 (hex4 h1 h2 h3 h4)); [|reflexivity].
    destruct (N.leb_spec (hex4 h1 h2 h3 h4) 56319); [lia|reflexivity].
  - split; [apply SB_pair; assumption|].
    rewrite valid_encode; [exact IH2|apply combine_valid; assumption].
Qed.
