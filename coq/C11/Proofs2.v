(* C11 proofs, part 2: soundness of an accepted parse - every string and key of the result is valid
   UTF-8, every object has strictly increasing (hence unique) keys, no member is undefined, nesting
   is at most max_depth = 512.  Invariant of the explicit-stack loop. *)
From CppcmsV Require Import Base.Tac C11.Defs C11.Proofs1.
Local Open Scope N_scope.

(* ------------------------------------------------------------------------------------------ *)
(* keys                                                                                         *)
(* ------------------------------------------------------------------------------------------ *)
Lemma key_eqb_eq a : forall b, key_eqb a b = true <-> a = b.
Proof.
  induction a as [|x a IH]; intros [|y b]; cbn [key_eqb]; split; intros H; try reflexivity; try discriminate.
  - apply andb_true_iff in H. destruct H as [H1 H2]. apply N.eqb_eq in H1. apply IH in H2. subst. reflexivity.
  - inversion H; subst. rewrite N.eqb_refl. apply IH. reflexivity.
Qed.
Lemma key_eqb_refl a : key_eqb a a = true.
Proof. apply key_eqb_eq. reflexivity. Qed.

Lemma key_ltb_irrefl a : key_ltb a a = false.
Proof. induction a as [|x a IH]; cbn [key_ltb]; [reflexivity|]. rewrite N.ltb_irrefl. exact IH. Qed.

Lemma key_ltb_trans a : forall b c, key_ltb a b = true -> key_ltb b c = true -> key_ltb a c = true.
Proof.
  induction a as [|x a IH]; intros [|y b] [|z c] H1 H2; cbn [key_ltb] in *; try discriminate; try reflexivity.
  destruct (N.ltb_spec x y) as [Hxy|Hxy].
  - destruct (N.ltb_spec y z) as [Hyz|Hyz].
    + destruct (N.ltb_spec x z); [reflexivity|lia].
    + destruct (N.ltb_spec z y) as [Hzy|Hzy]; [discriminate|].
      assert (y = z) by lia. subst. destruct (N.ltb_spec x z); [reflexivity|lia].
  - destruct (N.ltb_spec y x) as [Hyx|Hyx]; [discriminate|]. assert (x = y) by lia. subst.
    destruct (N.ltb_spec y z) as [Hyz|Hyz]; [reflexivity|].
    destruct (N.ltb_spec z y) as [Hzy|Hzy]; [discriminate|]. eapply IH; eassumption.
Qed.

(* trichotomy as used by map_insert *)
Lemma key_tricho a : forall b, key_ltb a b = false -> key_eqb a b = false -> key_ltb b a = true.
Proof.
  induction a as [|x a IH]; intros [|y b] H1 H2; cbn [key_ltb key_eqb] in *; try discriminate; try reflexivity.
  destruct (N.ltb_spec x y) as [Hxy|Hxy]; [discriminate|].
  destruct (N.ltb_spec y x) as [Hyx|Hyx]; [reflexivity|].
  assert (x = y) by lia. subst. rewrite N.eqb_refl in H2. cbn [andb] in H2. apply IH; assumption.
Qed.

Definition lb {A} (k : list N) (m : list (list N * A)) : bool :=
  match m with [] => true | (k2, _) :: _ => key_ltb k k2 end.

Lemma keys_sorted_cons {A} k (v : A) m : keys_sorted ((k, v) :: m) = lb k m && keys_sorted m.
Proof. destruct m as [|[k2 v2] r]; reflexivity. Qed.

Lemma lb_insert {A} k0 k (v : A) m : lb k0 m = true -> key_ltb k0 k = true -> lb k0 (map_insert k v m) = true.
Proof.
  destruct m as [|[k2 v2] r]; cbn [map_insert lb]; intros H1 H2; [exact H2|].
  destruct (key_ltb k k2); [exact H2|]. destruct (key_eqb k k2); exact H1.
Qed.

Lemma insert_sorted {A} k (v : A) : forall m, keys_sorted m = true -> keys_sorted (map_insert k v m) = true.
Proof.
  induction m as [|[k2 v2] r IH]; intros H; [reflexivity|].
  cbn [map_insert]. destruct (key_ltb k k2) eqn:L.
  - rewrite keys_sorted_cons. cbn [lb]. rewrite L. exact H.
  - destruct (key_eqb k k2) eqn:E; [exact H|].
    rewrite keys_sorted_cons in *. apply andb_true_iff in H. destruct H as [H1 H2].
    rewrite (IH H2), andb_true_r. apply lb_insert; [exact H1|]. apply key_tricho; assumption.
Qed.

Lemma insert_Forall {A} (P : list N * A -> Prop) k v : forall m, Forall P m -> P (k, v) -> Forall P (map_insert k v m).
Proof.
  induction m as [|[k2 v2] r IH]; intros H Hk; cbn [map_insert]; [constructor; [exact Hk|constructor]|].
  destruct (key_ltb k k2); [constructor; assumption|]. destruct (key_eqb k k2); [exact H|].
  inversion H; subst. constructor; [assumption|]. apply IH; assumption.
Qed.

(* strictly increasing keys are pairwise different *)
Lemma lb_all {A} k : forall (m : list (list N * A)), lb k m = true -> keys_sorted m = true ->
  Forall (fun kv => key_ltb k (fst kv) = true) m.
Proof.
  induction m as [|[k2 v2] r IH]; intros H1 H2; [constructor|].
  rewrite keys_sorted_cons in H2. apply andb_true_iff in H2. destruct H2 as [H2 H3]. cbn [lb] in H1.
  constructor; [exact H1|]. apply IH; [|exact H3].
  destruct r as [|[k3 v3] r']; [reflexivity|]. cbn [lb] in *. eapply key_ltb_trans; eassumption.
Qed.

Lemma sorted_NoDup {A} : forall (m : list (list N * A)), keys_sorted m = true -> NoDup (map fst m).
Proof.
  induction m as [|[k v] r IH]; intros H; [constructor|].
  rewrite keys_sorted_cons in H. apply andb_true_iff in H. destruct H as [H1 H2].
  cbn [map fst]. constructor; [|apply IH; exact H2].
  intros Hin. apply in_map_iff in Hin. destruct Hin as [[k' v'] [E Hin]]. cbn [fst] in E. subst k'.
  pose proof (lb_all k r H1 H2) as F. rewrite Forall_forall in F. specialize (F _ Hin). cbn [fst] in F.
  rewrite key_ltb_irrefl in F. discriminate.
Qed.

(* ------------------------------------------------------------------------------------------ *)
(* good values                                                                                  *)
(* ------------------------------------------------------------------------------------------ *)
Definition vgood (v : jv) : bool := strings_ok utf8_valid v && maps_ok v && no_undef v.
Definition vok (d : nat) (v : jv) : Prop := vgood v = true /\ (depth v <= d)%nat.
Definition mok (d : nat) (kv : list N * jv) : Prop := utf8_valid (fst kv) = true /\ vok d (snd kv).

Lemma max_fold_le {A} (f : A -> nat) d : forall l, Forall (fun x => (f x <= d)%nat) l ->
  (fold_right (fun x a => Nat.max (f x) a) O l <= d)%nat.
Proof. induction l as [|x l IH]; intros H; cbn [fold_right]; [lia|]. inversion H; subst. specialize (IH H3). lia. Qed.

Lemma vok_arr d l : Forall (vok d) l -> vok (S d) (JArr l).
Proof.
  intros H. split.
  - unfold vgood. cbn [strings_ok maps_ok no_undef].
    assert (forallb (strings_ok utf8_valid) l = true /\ forallb maps_ok l = true /\ forallb no_undef l = true) as [A [B C]].
    { induction H as [|x l [Hx _] _ IH]; [auto|]. cbn [forallb]. destruct IH as [A [B C]].
      unfold vgood in Hx. apply andb_true_iff in Hx. destruct Hx as [Hx H3]. apply andb_true_iff in Hx. destruct Hx as [H1 H2].
      rewrite A, B, C, H1, H2, H3. auto. }
    rewrite A, B, C. reflexivity.
  - cbn [depth]. apply le_n_S. apply (max_fold_le depth). eapply Forall_impl; [|exact H]. intros a [_ Ha]. exact Ha.
Qed.

Lemma vok_obj d m : keys_sorted m = true -> Forall (mok d) m -> vok (S d) (JObj m).
Proof.
  intros Hs H. split.
  - unfold vgood. cbn [strings_ok maps_ok no_undef]. rewrite Hs. cbn [andb]. clear Hs.
    assert (forallb (fun kx : list N * jv => utf8_valid (fst kx) && strings_ok utf8_valid (snd kx)) m = true /\
            forallb (fun kx : list N * jv => maps_ok (snd kx)) m = true /\
            forallb (fun kx : list N * jv => no_undef (snd kx)) m = true) as [A [B C]].
    { induction H as [|x l [Hk [Hx _]] _ IH]; [auto|]. cbn [forallb]. destruct IH as [A [B C]].
      unfold vgood in Hx. apply andb_true_iff in Hx. destruct Hx as [Hx H3]. apply andb_true_iff in Hx. destruct Hx as [H1 H2].
      rewrite A, B, C, H1, H2, H3, Hk. auto. }
    rewrite A, B, C. reflexivity.
  - cbn [depth]. apply le_n_S. apply (max_fold_le (fun kx : list N * jv => depth (snd kx))).
    eapply Forall_impl; [|exact H]. intros a [_ [_ Ha]]. exact Ha.
Qed.

(* ------------------------------------------------------------------------------------------ *)
(* the loop invariant                                                                           *)
(* ------------------------------------------------------------------------------------------ *)
Definition frame_ok (d : nat) (f : frame) : Prop :=
  match f with
  | FArr items => Forall (vok d) items
  | FObj m k => keys_sorted m = true /\ Forall (mok d) m /\ utf8_valid k = true
  end.
Fixpoint stack_ok (K : list frame) : Prop :=
  match K with
  | [] => True
  | f :: K' => frame_ok (max_depth - S (length K')) f /\ stack_ok K'
  end.
Definition state_ok (m : mstate) : Prop :=
  let '(s, K, key, res) := m in
  stack_ok K /\ utf8_valid key = true /\ (s = SDone -> vok max_depth res).
Definition tok_ok (t : token) : Prop := match t with TStr s => utf8_valid s = true | _ => True end.

Lemma plug_ok v K key res :
  stack_ok K -> utf8_valid key = true -> vok (max_depth - length K) v -> state_ok (plug v K key res).
Proof.
  intros HK Hk Hv. destruct K as [|[items|m k] K']; cbn [plug state_ok].
  - cbn [length] in Hv. rewrite Nat.sub_0_r in Hv. auto.
  - cbn [stack_ok frame_ok length] in *. destruct HK as [H1 H2].
    split; [|split; [exact Hk|discriminate]]. split; [|exact H2]. constructor; assumption.
  - cbn [stack_ok frame_ok length] in *. destruct HK as [[H1 [H3 H4]] H2].
    split; [|split; [exact Hk|discriminate]]. split; [|exact H2].
    split; [apply insert_sorted; exact H1|]. split; [|exact H4].
    apply insert_Forall; [exact H3|]. split; assumption.
Qed.

Lemma on_value_ok t K key res :
  stack_ok K -> utf8_valid key = true -> tok_ok t -> state_ok (on_value t K key res).
Proof.
  intros HK Hk Ht. unfold on_value.
  assert (SC : forall v, vgood v = true -> depth v = O -> state_ok (plug v K key res)).
  { intros v G D. apply plug_ok; [exact HK|exact Hk|]. split; [exact G|lia]. }
  destruct t as [c| | |s|b| | |]; cbn [vtok_of]; try (apply SC; reflexivity);
    try (cbn [state_ok]; split; [exact HK|split; [exact Hk|discriminate]]).
  - destruct (c =? 91); [|destruct (c =? 123)]; cbn [state_ok stack_ok frame_ok];
      (split; [|split; [exact Hk|discriminate]]); try exact HK; split; auto.
  - apply SC; [|reflexivity]. unfold vgood. cbn [strings_ok maps_ok no_undef]. cbn [tok_ok] in Ht. rewrite Ht. reflexivity.
Qed.

Lemma terminal_false_len s K key res : terminal (s, K, key, res) = false -> (length K <= max_depth)%nat.
Proof.
  unfold terminal. cbn [m_st m_stack]. intros H.
  destruct s; try discriminate; apply Nat.ltb_ge in H; exact H.
Qed.

Lemma step_ok t m : terminal m = false -> state_ok m -> tok_ok t -> state_ok (step_tok t m).
Proof.
  destruct m as [[[s K] key] res]. intros T [HK [Hk Hd]] Ht.
  pose proof (terminal_false_len _ _ _ _ T) as L.
  assert (ERR : state_ok (SErr, K, key, res)) by (cbn [state_ok]; split; [exact HK|split; [exact Hk|discriminate]]).
  assert (CLOSEA : forall items K', K = FArr items :: K' -> state_ok (plug (JArr (rev items)) K' key res)).
  { intros items K' E. subst K. cbn [stack_ok frame_ok length] in *. destruct HK as [H1 H2].
    apply plug_ok; [exact H2|exact Hk|].
    replace (max_depth - length K')%nat with (S (max_depth - S (length K'))) by lia.
    apply vok_arr. apply Forall_rev. exact H1. }
  assert (CLOSEO : forall mm k K', K = FObj mm k :: K' -> state_ok (plug (JObj mm) K' key res)).
  { intros mm k K' E. subst K. cbn [stack_ok frame_ok length] in *. destruct HK as [[H1 [H3 H4]] H2].
    apply plug_ok; [exact H2|exact Hk|].
    replace (max_depth - length K')%nat with (S (max_depth - S (length K'))) by lia.
    apply vok_obj; assumption. }
  destruct s; cbn [step_tok].
  - apply on_value_ok; assumption.
  - destruct K as [|[items|mm k] K']; try exact ERR.
    destruct (is_tstruct t 125); [eapply CLOSEO; reflexivity|].
    destruct t; try exact ERR. cbn [state_ok]. split; [exact HK|split; [exact Ht|discriminate]].
  - destruct (is_tstruct t 58); [|exact ERR]. cbn [state_ok]. split; [exact HK|split; [exact Hk|discriminate]].
  - destruct K as [|[items|mm k] K']; try exact ERR.
    destruct (map_mem key mm); [exact ERR|].
    apply on_value_ok; [|exact Hk|exact Ht].
    cbn [stack_ok frame_ok length] in *. destruct HK as [[H1 [H3 H4]] H2]. auto.
  - destruct K as [|[items|mm k] K']; try exact ERR.
    destruct (is_tstruct t 44). { cbn [state_ok]. split; [exact HK|split; [exact Hk|discriminate]]. }
    destruct (is_tstruct t 125); [eapply CLOSEO; reflexivity|exact ERR].
  - destruct K as [|[items|mm k] K']; try exact ERR.
    destruct (is_tstruct t 93); [eapply CLOSEA; reflexivity|].
    apply on_value_ok; assumption.
  - destruct K as [|[items|mm k] K']; try exact ERR.
    destruct (is_tstruct t 93); [eapply CLOSEA; reflexivity|].
    destruct (is_tstruct t 44); [|exact ERR]. cbn [state_ok]. split; [exact HK|split; [exact Hk|discriminate]].
  - exact ERR.
  - cbn [state_ok]. auto.
Qed.

Section WithConv.
Variable to_double : list N -> option N.

Lemma next_tok_ok_aux n : forall s cm, (length s <= n)%nat -> tok_ok (tok_tok (next to_double cm s)).
Proof.
  induction n as [|n IHn]; intros s cm Hn.
  { destruct s; [exact I|cbn in Hn; lia]. }
  destruct s as [|c r]; [exact I|]. cbn [length] in Hn. cbn [next]. unfold tok_tok in *.
  assert (IH' : forall cm, tok_ok (fst (fst (next to_double cm r)))) by (intros; apply IHn; lia).
  destruct cm. { destruct (c =? 10); apply IH'. }
  destruct (is_struct c); [exact I|].
  destruct ((c =? 32) || (c =? 9) || (c =? 13)); [apply IH'|].
  destruct (c =? 10).
  { specialize (IH' false). destruct (next to_double false r) as [[t r'] k]. exact IH'. }
  destruct (c =? 34).
  { destruct (scan_string None r) as [[str r']|]; [|exact I]. destruct (utf8_valid str) eqn:U; [exact U|exact I]. }
  destruct (c =? 116). { destruct (check_kw _ r); exact I. }
  destruct (c =? 110). { destruct (check_kw _ r); exact I. }
  destruct (c =? 102). { destruct (check_kw _ r); exact I. }
  destruct ((c =? 45) || is_digit c).
  { destruct (scan_number (c :: r)) as [x r']. destruct (to_double x); exact I. }
  destruct (c =? 47); [|exact I].
  destruct r as [|c2 r2]; [exact I|]. destruct (c2 =? 47); [|exact I].
  apply IHn. cbn [length] in Hn. lia.
Qed.
Lemma next_tok_ok s cm : tok_ok (tok_tok (next to_double cm s)).
Proof. apply (next_tok_ok_aux (length s)). lia. Qed.

Lemma run_ok : forall fuel s line m r line' m',
  state_ok m -> run to_double fuel s line m = Some (r, line', m') -> state_ok m'.
Proof.
  induction fuel as [|f IH]; intros s line m r line' m' Hm H; cbn [run] in H.
  - destruct (terminal m); [|discriminate]. inversion H; subst. exact Hm.
  - destruct (terminal m) eqn:T. { inversion H; subst. exact Hm. }
    pose proof (next_tok_ok s false) as Ht. unfold tok_tok in Ht.
    destruct (next to_double false s) as [[t r0] n]. cbn [fst] in Ht.
    eapply IH; [|exact H]. apply step_ok; assumption.
Qed.

Lemma init_ok : state_ok init_state.
Proof. cbn. split; [exact I|split; [reflexivity|discriminate]]. Qed.

Lemma parse_sound_vok full s v rest : parse to_double full s = POk v rest -> vok max_depth v.
Proof.
  unfold parse. destruct (run to_double (S (length s)) s 1 init_state) as [[[r line] m]|] eqn:R; [|discriminate].
  pose proof (run_ok _ _ _ _ _ _ _ init_ok R) as Hm.
  destruct m as [[[st K] key] res]. cbn [m_st m_res]. destruct Hm as [_ [_ Hd]].
  destruct st; try discriminate. specialize (Hd eq_refl).
  destruct full.
  - destruct (next to_double false r) as [[t r'] n]. destruct t; try discriminate. intros H. inversion H; subst. exact Hd.
  - intros H. inversion H; subst. exact Hd.
Qed.

Lemma parse_sound full s v rest :
  parse to_double full s = POk v rest ->
  strings_ok utf8_valid v = true /\ maps_ok v = true /\ no_undef v = true /\ (depth v <= max_depth)%nat.
Proof.
  intros H. apply parse_sound_vok in H. destruct H as [G D]. unfold vgood in G.
  apply andb_true_iff in G. destruct G as [G G3]. apply andb_true_iff in G. destruct G as [G1 G2]. auto.
Qed.

End WithConv.

(* maps_ok means: every object of the tree has pairwise different keys *)
Fixpoint keys_unique (v : jv) : Prop :=
  match v with
  | JArr l => (fix all (l : list jv) : Prop := match l with [] => True | x :: r => keys_unique x /\ all r end) l
  | JObj m => NoDup (map fst m) /\
      (fix all (m : list (list N * jv)) : Prop := match m with [] => True | (_, x) :: r => keys_unique x /\ all r end) m
  | _ => True
  end.

Lemma maps_ok_unique : forall v, maps_ok v = true -> keys_unique v.
Proof.
  fix IH 1. intros v. destruct v as [| | | | |l|m]; cbn [maps_ok keys_unique]; try (intros; exact I).
  - induction l as [|x r IHl]; cbn [forallb]; intros H; [exact I|].
    apply andb_true_iff in H. destruct H as [H1 H2]. split; [apply IH; exact H1|apply IHl; exact H2].
  - intros H. apply andb_true_iff in H. destruct H as [H0 H]. split; [apply sorted_NoDup; exact H0|].
    clear H0. induction m as [|[k x] r IHm]; cbn [forallb snd] in *; [exact I|].
    apply andb_true_iff in H. destruct H as [H1 H2]. split; [apply IH; exact H1|apply IHm; exact H2].
Qed.
