(* C11: the leaf functions regenerated from /repo's current source (coq/gen/Gen_json.v from
   private/utf_iterator.h through src/json.cpp, coq/gen/Gen_json_esc.v from the escape switch of
   generic_append) equal the model's leafs.  Byte-indexed facts are 256-point sweeps; code-point
   indexed facts are proved for all code points by case analysis with lia. *)
From CppcmsV Require Import Base.Tac Base.CSem Base.CSemFacts Base.Sweep C11.Defs gen.Gen_json gen.Gen_json_esc.
Local Open Scope N_scope.

Definition zs2ns (l : list Z) : list N := map Z.to_N l.

Lemma link_max_depth : g_json_max_depth = Z.of_nat max_depth.
Proof. reflexivity. Qed.

Lemma link_is_trail b : b < 256 -> g_is_trail (Z.of_N b) = is_trail b.
Proof.
  intros H. apply eqb_prop.
  apply (sweep256 (fun b => eqb (g_is_trail (Z.of_N b)) (is_trail b))); [vm_compute; reflexivity|exact H].
Qed.

(* trail_length: the model writes 4 for the -1 of the source *)
Lemma link_trail_length b : b < 256 ->
  g_trail_length (Z.of_N b) = (if trail_length b =? 4 then (-1)%Z else Z.of_N (trail_length b)).
Proof.
  intros H. apply Z.eqb_eq.
  apply (sweep256 (fun b => Z.eqb (g_trail_length (Z.of_N b))
                              (if trail_length b =? 4 then (-1)%Z else Z.of_N (trail_length b))));
    [vm_compute; reflexivity|exact H].
Qed.

Ltac bprop :=
  repeat match goal with
  | H : andb _ _ = true |- _ => apply andb_true_iff in H; destruct H
  | H : andb _ _ = false |- _ => apply andb_false_iff in H; destruct H
  | H : N.leb _ _ = true |- _ => apply N.leb_le in H
  | H : N.leb _ _ = false |- _ => apply N.leb_gt in H
  | H : N.ltb _ _ = true |- _ => apply N.ltb_lt in H
  | H : N.ltb _ _ = false |- _ => apply N.ltb_ge in H
  | H : Z.leb _ _ = true |- _ => apply Z.leb_le in H
  | H : Z.leb _ _ = false |- _ => apply Z.leb_gt in H
  | H : Z.ltb _ _ = true |- _ => apply Z.ltb_lt in H
  | H : Z.ltb _ _ = false |- _ => apply Z.ltb_ge in H
  end.
Ltac bcases := repeat match goal with |- context[if ?c then _ else _] => destruct c eqn:? end;
  try reflexivity; bprop; lia.

Lemma link_width v : g_width (Z.of_N v) = Z.of_N (cp_width v).
Proof. unfold g_width, cp_width. bcases. Qed.

Lemma link_valid v : g_valid (Z.of_N v) = cp_valid v.
Proof. unfold g_valid, cp_valid. rewrite Z.gtb_ltb. bcases. Qed.

Lemma link_is_first_surrogate x : g_is_first_surrogate (Z.of_N x) = is_first_surrogate x.
Proof. unfold g_is_first_surrogate, is_first_surrogate. bcases. Qed.

Lemma link_is_second_surrogate x : g_is_second_surrogate (Z.of_N x) = is_second_surrogate x.
Proof. unfold g_is_second_surrogate, is_second_surrogate. bcases. Qed.

(* the escape switch of generic_append: [] (null addon) means the byte is copied *)
Lemma link_esc1 b : b < 256 ->
  zs2ns (g_json_addon (Z.of_N b)) = (if leqb (esc1 b) [b] then [] else esc1 b).
Proof.
  intros H. apply leqb_eq.
  apply (sweep256 (fun b => leqb (zs2ns (g_json_addon (Z.of_N b))) (if leqb (esc1 b) [b] then [] else esc1 b)));
    [vm_compute; reflexivity|exact H].
Qed.

(* combine_surrogate on the whole surrogate domain (1024 x 1024 points) *)
Lemma link_combine_surrogate a b : a < 1024 -> b < 1024 ->
  g_combine_surrogate (Z.of_N (55296 + a)) (Z.of_N (56320 + b)) = Z.of_N (combine_surrogate (55296 + a) (56320 + b)).
Proof.
  intros Ha Hb. apply Z.eqb_eq.
  pose (P := fun a b => Z.eqb (g_combine_surrogate (Z.of_N (55296 + a)) (Z.of_N (56320 + b)))
                              (Z.of_N (combine_surrogate (55296 + a) (56320 + b)))).
  assert (H : forallb (fun a => forallb (P a) (N_seq 1024)) (N_seq 1024) = true) by (vm_compute; reflexivity).
  pose proof (sweep_N 1024 _ H a Ha) as H1. cbv beta in H1.
  exact (sweep_N 1024 _ H1 b Hb).
Qed.
