(* C11: the leaf functions regenerated from /repo's current source (coq/gen/Gen_json.v from
   private/utf_iterator.h through src/json.cpp, coq/gen/Gen_json_esc.v from the escape switch of
   generic_append) equal the model's leafs.  Byte-indexed facts are 256-point sweeps; code-point
   indexed facts are proved for all code points by case analysis with lia. *)
From CppcmsV Require Import Base.Tac Base.CSem Base.CSemFacts Base.Sweep C11.Defs gen.Gen_json gen.Gen_json_esc.
Local Open Scope N_scope.

Definition zs2ns (l : list Z) : list N := map Z.to_N l.

Lemma link_max_depth : g_json_max_depth = Z.of_nat max_depth.
Proof. reflexivity. Qed.

Lemma link_is_trail b : b < 256 -> g_is_trail (Z.of_N b) = is_trail b.
Proof.
  intros H. apply eqb_prop.
  apply (sweep256 (fun b => eqb (g_is_trail (Z.of_N b)) (is_trail b))); [vm_compute; reflexivity|exact H].
Qed.

(* trail_length: the model writes 4 for the -1 of the source *)
Lemma link_trail_length b : b < 256 ->
  g_trail_length (Z.of_N b) = (if trail_length b =? 4 then (-1)%Z else Z.of_N (trail_length b)).
Proof.
  intros H. apply Z.eqb_eq.
  apply (sweep256 (fun b => Z.eqb (g_trail_length (Z.of_N b))
                              (if trail_length b =? 4 then (-1)%Z else Z.of_N (trail_length b))));
    [vm_compute; reflexivity|exact H].
Qed.

Lemma link_width v : g_width (Z.of_N v) = Z.of_N (cp_width v).
Proof.
  unfold g_width, cp_width.
  destruct (N.leb_spec v 127), (Z.leb_spec (Z.of_N v) 127); try lia.
  destruct (N.leb_spec v 2047), (Z.leb_spec (Z.of_N v) 2047); try lia.
  destruct (N.leb_spec v 65535), (Z.leb_spec (Z.of_N v) 65535); try lia.
Qed.

Lemma link_valid v : g_valid (Z.of_N v) = cp_valid v.
Proof.
  unfold g_valid, cp_valid. rewrite Z.gtb_ltb.
  destruct (N.ltb_spec 1114111 v), (Z.ltb_spec 1114111 (Z.of_N v)); try lia; try reflexivity.
  destruct (N.leb_spec 55296 v), (Z.leb_spec 55296 (Z.of_N v)); try lia; cbn [andb]; try reflexivity.
  destruct (N.leb_spec v 57343), (Z.leb_spec (Z.of_N v) 57343); try lia; reflexivity.
Qed.

Lemma link_is_first_surrogate x : g_is_first_surrogate (Z.of_N x) = is_first_surrogate x.
Proof.
  unfold g_is_first_surrogate, is_first_surrogate.
  destruct (N.leb_spec 55296 x), (Z.leb_spec 55296 (Z.of_N x)); try lia; cbn [andb]; try reflexivity.
  destruct (N.leb_spec x 56319), (Z.leb_spec (Z.of_N x) 56319); try lia; reflexivity.
Qed.

Lemma link_is_second_surrogate x : g_is_second_surrogate (Z.of_N x) = is_second_surrogate x.
Proof.
  unfold g_is_second_surrogate, is_second_surrogate.
  destruct (N.leb_spec 56320 x), (Z.leb_spec 56320 (Z.of_N x)); try lia; cbn [andb]; try reflexivity.
  destruct (N.leb_spec x 57343), (Z.leb_spec (Z.of_N x) 57343); try lia; reflexivity.
Qed.

(* the escape switch of generic_append: [] (null addon) means the byte is copied *)
Lemma link_esc1 b : b < 256 ->
  zs2ns (g_json_addon (Z.of_N b)) = (if leqb (esc1 b) [b] then [] else esc1 b).
Proof.
  intros H. apply leqb_eq.
  apply (sweep256 (fun b => leqb (zs2ns (g_json_addon (Z.of_N b))) (if leqb (esc1 b) [b] then [] else esc1 b)));
    [vm_compute; reflexivity|exact H].
Qed.
