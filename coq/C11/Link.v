(* C11: the leaf functions regenerated from /repo's current source (coq/gen/Gen_json.v from
   private/utf_iterator.h through src/json.cpp, coq/gen/Gen_json_esc.v from the escape switch of
   generic_append) equal the model's leafs.  Byte-indexed facts are 256-point sweeps; code-point
   indexed facts are proved for all code points by case analysis with lia. *)
From CppcmsV Require Import Base.Tac Base.CSem Base.CSemFacts Base.Sweep C11.Defs gen.Gen_json gen.Gen_json_esc.
Local Open Scope N_scope.

Definition zs2ns (l : list Z) : list N := map Z.to_N l.

Lemma link_max_depth : g_json_max_depth = Z.of_nat max_depth.
Proof. reflexivity. Qed.

Lemma link_is_trail b : b < 256 -> g_is_trail (Z.of_N b) = is_trail b.
Proof.
  intros H. apply eqb_prop.
  apply (sweep256 (fun b => eqb (g_is_trail (Z.of_N b)) (is_trail b))); [vm_compute; reflexivity|exact H].
Qed.

(* trail_length: the model writes 4 for the -1 of the source *)
Lemma link_trail_length b : b < 256 ->
  g_trail_length (Z.of_N b) = (if trail_length b =? 4 then (-1)%Z else Z.of_N (trail_length b)).
Proof.
  intros H. apply Z.eqb_eq.
  apply (sweep256 (fun b => Z.eqb (g_trail_length (Z.of_N b))
                              (if trail_length b =? 4 then (-1)%Z else Z.of_N (trail_length b))));
    [vm_compute; reflexivity|exact H].
Qed.

Ltac bprop :=
  repeat match goal with
  | H : andb _ _ = true |- _ => apply andb_true_iff in H; destruct H
  | H : andb _ _ = false |- _ => apply andb_false_iff in H; destruct H
  | H : N.leb _ _ = true |- _ => apply N.leb_le in H
  | H : N.leb _ _ = false |- _ => apply N.leb_gt in H
  | H : N.ltb _ _ = true |- _ => apply N.ltb_lt in H
  | H : N.ltb _ _ = false |- _ => apply N.ltb_ge in H
  | H : Z.leb _ _ = true |- _ => apply Z.leb_le in H
  | H : Z.leb _ _ = false |- _ => apply Z.leb_gt in H
  | H : Z.ltb _ _ = true |- _ => apply Z.ltb_lt in H
  | H : Z.ltb _ _ = false |- _ => apply Z.ltb_ge in H
  end.
Ltac bcases := repeat match goal with |- context[if ?c then _ else _] => destruct c eqn:? end;
  try reflexivity; bprop; lia.

Lemma link_width v : g_width (Z.of_N v) = Z.of_N (cp_width v).
Proof. unfold g_width, cp_width. bcases. Qed.

Lemma link_valid v : g_valid (Z.of_N v) = cp_valid v.
Proof. unfold g_valid, cp_valid. rewrite Z.gtb_ltb. bcases. Qed.

Lemma link_is_first_surrogate x : g_is_first_surrogate (Z.of_N x) = is_first_surrogate x.
Proof. unfold g_is_first_surrogate, is_first_surrogate. bcases. Qed.

Lemma link_is_second_surrogate x : g_is_second_surrogate (Z.of_N x) = is_second_surrogate x.
Proof. unfold g_is_second_surrogate, is_second_surrogate. bcases. Qed.

(* the escape switch of generic_append: [] (null addon) means the byte is copied *)
Lemma link_esc1 b : b < 256 ->
  zs2ns (g_json_addon (Z.of_N b)) = (if leqb (esc1 b) [b] then [] else esc1 b).
Proof.
  intros H. apply leqb_eq.
  apply (sweep256 (fun b => leqb (zs2ns (g_json_addon (Z.of_N b))) (if leqb (esc1 b) [b] then [] else esc1 b)));
    [vm_compute; reflexivity|exact H].
Qed.

(* combine_surrogate for all 16-bit code units *)
Lemma lor_shift10 a b : (0 <= a)%Z -> (0 <= b < 1024)%Z -> Z.lor (Z.shiftl a 10) b = (a * 1024 + b)%Z.
Proof.
  intros Ha Hb.
  assert (L : Z.land (Z.shiftl a 10) b = 0%Z).
  { apply Z.bits_inj'. intros n Hn. rewrite Z.land_spec, Z.bits_0.
    destruct (Z.ltb_spec n 10) as [Hlt|Hge].
    - rewrite Z.shiftl_spec_low by lia. reflexivity.
    - replace b with (b mod 2 ^ 10)%Z by (apply Z.mod_small; lia).
      rewrite Z.mod_pow2_bits_high by lia. apply andb_false_r. }
  rewrite <- Z.lxor_lor by exact L. rewrite <- Z.add_nocarry_lxor by exact L.
  rewrite Z.shiftl_mul_pow2 by lia. reflexivity.
Qed.

Lemma link_combine_surrogate w1 w2 : w1 < 65536 -> w2 < 65536 ->
  g_combine_surrogate (Z.of_N w1) (Z.of_N w2) = Z.of_N (combine_surrogate w1 w2).
Proof.
  intros H1 H2. unfold g_combine_surrogate, combine_surrogate.
  change 1023%Z with (Z.ones 10). rewrite !Z.land_ones by lia.
  change (2 ^ 10)%Z with 1024%Z.
  assert (A : (0 <= Z.of_N w1 mod 1024 < 1024)%Z) by (apply Z.mod_pos_bound; lia).
  assert (B : (0 <= Z.of_N w2 mod 1024 < 1024)%Z) by (apply Z.mod_pos_bound; lia).
  unfold wrapu. change (2 ^ 32)%Z with 4294967296%Z.
  rewrite (Z.mod_small (Z.of_N w1 mod 1024)) by lia.
  rewrite (Z.mod_small (Z.of_N w2 mod 1024)) by lia.
  rewrite (Z.mod_small (Z.shiftl _ _)) by (rewrite Z.shiftl_mul_pow2 by lia; lia).
  rewrite lor_shift10 by lia.
  rewrite !Z.mod_small by lia. lia.
Qed.

(* ------------------------------------------------------------------------------------------ *)
(* the reader: dispatch switch of tockenizer::next, escape switch of parse_string, byte tests     *)
(* (coq/gen/Gen_json_tok.v, regenerated from src/json.cpp by checks/C11.py)                       *)
(* ------------------------------------------------------------------------------------------ *)
From CppcmsV Require Import C11.Proofs3 C11.TokClass gen.Gen_json_tok.

Lemma link_tokclass b : b < 256 -> g_json_tokclass (Z.of_N b) = Z.of_N (tok_class b).
Proof.
  intros H. apply Z.eqb_eq.
  apply (sweep256 (fun b => Z.eqb (g_json_tokclass (Z.of_N b)) (Z.of_N (tok_class b)))); [vm_compute; reflexivity|exact H].
Qed.
Lemma link_kw b : b < 256 -> zs2ns (g_json_kw (Z.of_N b)) = kw_tail b.
Proof.
  intros H. apply leqb_eq.
  apply (sweep256 (fun b => leqb (zs2ns (g_json_kw (Z.of_N b))) (kw_tail b))); [vm_compute; reflexivity|exact H].
Qed.
(* -3 = the byte itself, -2 = the \u path, -1 = rejected *)
Definition unesc_code (b : N) : Z :=
  match simple_esc b with
  | Some x => if x =? b then (-3)%Z else Z.of_N x
  | None => if b =? 117 then (-2)%Z else (-1)%Z
  end.
Lemma link_unesc b : b < 256 -> g_json_unesc (Z.of_N b) = unesc_code b.
Proof.
  intros H. apply Z.eqb_eq.
  apply (sweep256 (fun b => Z.eqb (g_json_unesc (Z.of_N b)) (unesc_code b))); [vm_compute; reflexivity|exact H].
Qed.
(* the control-character test is applied to an int holding the byte, the hex test to a (signed) char *)
Lemma link_is_ctl b : b < 256 -> g_json_is_ctl (Z.of_N b) = (b <=? 31).
Proof.
  intros H. apply eqb_prop.
  apply (sweep256 (fun b => eqb (g_json_is_ctl (Z.of_N b)) (b <=? 31))); [vm_compute; reflexivity|exact H].
Qed.
Lemma link_is_hex b : b < 256 -> g_json_is_hex (wraps 8 (Z.of_N b)) = is_hex b.
Proof.
  intros H. apply eqb_prop.
  apply (sweep256 (fun b => eqb (g_json_is_hex (wraps 8 (Z.of_N b))) (is_hex b))); [vm_compute; reflexivity|exact H].
Qed.

(* ------------------------------------------------------------------------------------------ *)
(* the writer layout: indent(out,c,tabs) / pad(out,tb) read from the source as statement codes,     *)
(* interpreted here, equal the model's w_open / w_comma / w_colon / w_close for every indentation    *)
(* ------------------------------------------------------------------------------------------ *)
Fixpoint run_ev (evs : list Z) (c : N) (tabs : nat) (acc : list N) : list N * nat :=
  match evs with
  | [] => (acc, tabs)
  | e :: r =>
      if (e =? -1)%Z then run_ev r c tabs (acc ++ [c])
      else if (e =? -2)%Z then run_ev r c (S tabs) acc
      else if (e =? -3)%Z then run_ev r c (pred tabs) acc
      else if (e =? -4)%Z then run_ev r c tabs (acc ++ repeat (Z.to_N g_json_pad_char) tabs)
      else run_ev r c tabs (acc ++ [Z.to_N e])
  end.
(* indent with tabs >= 0 *)
Definition g_indent (c : N) (tabs : nat) : list N * nat := run_ev (g_json_indent (Z.of_N c)) c tabs [].

Lemma link_indent_open c n : c = 91 \/ c = 123 -> g_indent c n = (w_open c (Some n), S n).
Proof. intros [H|H]; subst; reflexivity. Qed.
Lemma link_indent_comma t : g_indent 44 t = (w_comma (Some t), t).
Proof. reflexivity. Qed.
Lemma link_indent_colon t : g_indent 58 t = (w_colon (Some t), t).
Proof. reflexivity. Qed.
Lemma link_indent_close c n : c = 93 \/ c = 125 -> g_indent c (S n) = (w_close c (Some n), n).
Proof.
  intros [H|H]; subst; unfold g_indent, w_close, pad; cbn [g_json_indent Z.of_N Z.eqb Pos.eqb run_ev pred app];
    change (Z.to_N g_json_pad_char) with 9; rewrite <- !app_assoc; reflexivity.
Qed.
