(* C11 proofs, part 5: the second save/load round is exact; the two input classes on which the
   round trip fails (recorded findings): a string that is not valid UTF-8, a number whose printed
   decimal strtod does not convert to a finite double. *)
From CppcmsV Require Import Base.Tac C11.Defs C11.Proofs1 C11.Proofs2 C11.Proofs3 C11.Proofs4.
Local Open Scope N_scope.

Section R.
Variable to_double : list N -> option N.
Variable print16 : N -> list N.
Variable rt : N -> N.
Notation wgood := (wgood to_double print16 rt).
Notation num_ok := (num_ok to_double print16 rt).
Notation mapf := (mapf rt).

(* numbers for which the printed text of the re-read number reads back as itself *)
Definition num_ok2 (x : N) : Prop := num_ok x /\ num_ok (rt x) /\ rt (rt x) = rt x.
Inductive wgood2 : jv -> Prop :=
| G2_null : wgood2 JNull
| G2_bool b : wgood2 (JBool b)
| G2_num x : num_ok2 x -> wgood2 (JNum x)
| G2_str s : utf8_valid s = true -> wgood2 (JStr s)
| G2_arr l : Forall wgood2 l -> wgood2 (JArr l)
| G2_obj m : keys_sorted m = true -> Forall (fun kv => utf8_valid (fst kv) = true /\ wgood2 (snd kv)) m -> wgood2 (JObj m).

Lemma keys_sorted_mapf : forall m, keys_sorted (mapf m) = keys_sorted m.
Proof.
  induction m as [|[k x] m IH]; [reflexivity|]. unfold Proofs4.mapf in *. cbn [map fst snd].
  rewrite !keys_sorted_cons, IH. f_equal. destruct m as [|[k2 x2] m']; reflexivity.
Qed.

Definition P2 (v : jv) : Prop :=
  wgood2 v -> wgood v /\ wgood (map_nums rt v) /\ map_nums rt (map_nums rt v) = map_nums rt v /\ depth (map_nums rt v) = depth v.

Lemma second_round_aux : forall v, P2 v.
Proof.
  apply jv_ind'; unfold P2.
  - intros G. inversion G.
  - intros _. repeat split; constructor.
  - intros b _. repeat split; constructor.
  - intros x G. inversion G as [| |? [H1 [H2 H3]]| | |]; subst. cbn [map_nums depth].
    repeat split; [constructor; exact H1|constructor; exact H2|rewrite H3; reflexivity].
  - intros s G. inversion G as [| | |? Hu| |]; subst. repeat split; constructor; exact Hu.
  - intros l IH G. inversion G as [| | | |? HG|]; subst. cbn [map_nums depth].
    fold (map (map_nums rt) l). fold (map (map_nums rt) (map (map_nums rt) l)).
    assert (A : Forall wgood l /\ Forall wgood (map (map_nums rt) l) /\
                map (map_nums rt) (map (map_nums rt) l) = map (map_nums rt) l /\
                fold_right (fun x a => Nat.max (depth x) a) O (map (map_nums rt) l) = fold_right (fun x a => Nat.max (depth x) a) O l).
    { induction IH as [|x l Hx _ IHl]; [repeat split; constructor|].
      inversion HG as [|? ? Gx Gl]; subst. destruct (Hx Gx) as [A0 [A1 [A2 A3]]]. destruct (IHl (G2_arr l Gl) Gl) as [B0 [B1 [B2 B3]]].
      cbn [map fold_right]. repeat split; [constructor; assumption|constructor; assumption|rewrite A2, B2; reflexivity|rewrite A3, B3; reflexivity]. }
    destruct A as [A0 [A1 [A2 A3]]]. repeat split; [constructor; exact A0|constructor; exact A1|rewrite A2; reflexivity|rewrite A3; reflexivity].
  - intros m IH G. inversion G as [| | | | |? HS HG]; subst. cbn [map_nums depth].
    fold (mapf m). fold (mapf (mapf m)).
    assert (A : Forall (fun kv => utf8_valid (fst kv) = true /\ wgood (snd kv)) m /\
                Forall (fun kv => utf8_valid (fst kv) = true /\ wgood (snd kv)) (mapf m) /\
                mapf (mapf m) = mapf m /\
                fold_right (fun kx a => Nat.max (depth (snd kx)) a) O (mapf m) = fold_right (fun kx a => Nat.max (depth (snd kx)) a) O m).
    { clear HS G. induction IH as [|[k x] m Hx _ IHm]; [repeat split; constructor|].
      inversion HG as [|? ? [Gk Gx] Gm]; subst. cbn [fst snd] in *.
      destruct (Hx Gx) as [A0 [A1 [A2 A3]]]. destruct (IHm Gm) as [B0 [B1 [B2 B3]]].
      unfold Proofs4.mapf in *. cbn [map fold_right fst snd].
      repeat split; [constructor; [split; assumption|assumption]|constructor; [split; assumption|assumption]
                    |rewrite A2, B2; reflexivity|rewrite A3, B3; reflexivity]. }
    destruct A as [A0 [A1 [A2 A3]]].
    repeat split; [constructor; assumption|constructor; [rewrite keys_sorted_mapf; exact HS|exact A1]
                  |rewrite A2; reflexivity|rewrite A3; reflexivity].
Qed.

(* first round: value up to the printed precision; every later round, in either layout: exactly
   the value of the first reload *)
Theorem second_round_exact v tabs1 tabs2 : wgood2 v -> (depth v <= max_depth)%nat ->
  exists txt1 txt2,
    write print16 tabs1 v = Some txt1 /\ parse to_double true txt1 = POk (map_nums rt v) [] /\
    write print16 tabs2 (map_nums rt v) = Some txt2 /\ parse to_double true txt2 = POk (map_nums rt v) [].
Proof.
  intros G D. destruct (second_round_aux v G) as [G0 [G1 [E1 E2]]].
  destruct (write_parse to_double print16 rt v tabs1 G0 D) as [txt1 [W1 P1]].
  destruct (write_parse to_double print16 rt (map_nums rt v) tabs2 G1 ltac:(rewrite E2; exact D)) as [txt2 [W2 Q2]].
  exists txt1, txt2. rewrite E1 in Q2. auto.
Qed.

(* the failing classes *)
Lemma err_token_fails s r n : next to_double false s = (TErr, r, n) -> parse to_double true s = PFail (1 + n).
Proof.
  intros H. unfold parse. change (run to_double (S (length s)) s 1 init_state) with
    (let '(t, r, n) := next to_double false s in run to_double (length s) r (1 + n) (step_tok t init_state)).
  rewrite H. rewrite run_terminal by reflexivity. reflexivity.
Qed.

Theorem number_overflow_rejected neg i f e : int_ok i -> frac_ok f -> exp_ok e ->
  to_double (num_norm neg i f e) = None -> parse to_double true (num_text neg i f e) = PFail 1.
Proof.
  intros Hi Hf He Hn.
  pose proof (scan_number_ok neg i f e [] Hi Hf He I) as SN. rewrite app_nil_r in SN.
  assert (HD : exists c r, num_text neg i f e = c :: r /\ (c = 45 \/ is_digit c = true)).
  { unfold num_text. destruct neg; cbn [app]; [eauto|].
    destruct Hi as [Hi|[d [ds [Hi [Hd _]]]]]; subst i; cbn [app]; eauto. }
  destruct HD as [c [r [E Hc]]]. rewrite E in *.
  apply (err_token_fails (c :: r) r 0). rewrite (next_number to_double c r Hc). rewrite SN, Hn. reflexivity.
Qed.

End R.

Theorem write_parse_refuted_non_utf8 :
  exists v, no_undef v = true /\ (depth v <= max_depth)%nat /\
    forall to_double print16 tabs, exists txt, write print16 tabs v = Some txt /\ parse to_double true txt = PFail 1.
Proof.
  exists (JStr [255]). split; [reflexivity|]. split; [cbn; lia|].
  intros td p16 tabs. exists [34; 255; 34]. split; [reflexivity|]. vm_compute. reflexivity.
Qed.
