(* C11: the nesting bound from both sides for arbitrary mixtures of arrays and objects, duplicate keys, and the
   surrogate cases of string literals. *)
From CppcmsV Require Import Base.Tac C11.Defs C11.Proofs1 C11.Proofs2 C11.Proofs3 C11.Proofs6.
Local Open Scope N_scope.

(* one level of nesting: an array bracket, or an object brace with a key and its colon *)
Inductive opener := OArr | OObj (kb k : list N).
Definition opener_ok (o : opener) : Prop :=
  match o with OArr => True | OObj kb k => StrBody kb k /\ utf8_valid k = true end.
Definition otext (o : opener) : list N := match o with OArr => [91] | OObj kb k => 123 :: 34 :: kb ++ [34; 58] end.
Definition ctext (o : opener) : list N := match o with OArr => [93] | OObj _ _ => [125] end.
Definition wrapv (o : opener) (v : jv) : jv := match o with OArr => JArr [v] | OObj _ k => JObj [(k, v)] end.
Fixpoint wrap (os : list opener) (inner : list N) : list N :=
  match os with [] => inner | o :: r => otext o ++ wrap r inner ++ ctext o end.
Fixpoint wrapvs (os : list opener) (v : jv) : jv :=
  match os with [] => v | o :: r => wrapv o (wrapvs r v) end.

Section D.
Variable to_double : list N -> option N.
Notation next := (next to_double).
Notation parse := (parse to_double).
Notation reaches := (reaches to_double).
Notation tok_at := (tok_at to_double).
Notation Val := (Val to_double).

Lemma open_step o s K key K2 res rest : opener_ok o -> vstate s K key K2 -> (S (length K2) <= max_depth)%nat ->
  exists s' K' key' K2', reaches (otext o ++ rest) (s, K, key, res) rest (s', K', key', res) /\
                         vstate s' K' key' K2' /\ length K2' = S (length K2).
Proof.
  intros Ho Hv L.
  assert (NT : terminal (s, K, key, res) = false) by (eapply vstate_nonterm; [exact Hv|lia]).
  destruct o as [|kb k]; cbn [otext app].
  - exists SArrValOrClose, (FArr [] :: K2), key, (FArr [] :: K2). split; [|split; [constructor|reflexivity]].
    replace (SArrValOrClose, FArr [] :: K2, key, res) with (step_tok (TStruct 91) (s, K, key, res)).
    + apply reaches_one; [exact NT|apply tok_struct; reflexivity].
    + rewrite (vstate_step _ _ _ _ res (TStruct 91) Hv eq_refl). reflexivity.
  - destruct Ho as [Hb Hu]. rewrite <- app_assoc. cbn [app].
    exists SObjValue, (FObj [] [] :: K2), k, (FObj [] k :: K2). split; [|split; [constructor; reflexivity|reflexivity]].
    eapply RS; [exact NT|apply tok_struct; reflexivity|].
    rewrite (vstate_step _ _ _ _ res (TStruct 123) Hv eq_refl). unfold on_value. cbn [vtok_of]. change (123 =? 91) with false. change (123 =? 123) with true. cbv iota.
    eapply RS; [apply nonterm; [discriminate|discriminate|cbn [length]; lia]| |].
    { apply (Proofs3.tok_string to_double kb k); assumption. }
    cbn [step_tok is_tstruct].
    eapply RS; [apply nonterm; [discriminate|discriminate|cbn [length]; lia]|apply tok_struct; reflexivity|].
    cbn [step_tok is_tstruct]. change (58 =? 58) with true. cbv iota. apply R0.
Qed.

Lemma opens_reach : forall os, Forall opener_ok os -> forall s K key K2 res rest,
  vstate s K key K2 -> (length K2 + length os <= max_depth)%nat ->
  exists s' K' key' K2', reaches (flat_map otext os ++ rest) (s, K, key, res) rest (s', K', key', res) /\
                         vstate s' K' key' K2' /\ length K2' = (length K2 + length os)%nat.
Proof.
  induction 1 as [|o os Ho _ IH]; intros s K key K2 res rest Hv L.
  - exists s, K, key, K2. split; [apply R0|split; [exact Hv|cbn [length]; lia]].
  - cbn [length] in L. cbn [flat_map]. rewrite <- app_assoc.
    destruct (open_step o s K key K2 res (flat_map otext os ++ rest) Ho Hv ltac:(lia)) as [s1 [K1 [key1 [K21 [R1 [V1 L1]]]]]].
    destruct (IH s1 K1 key1 K21 res rest V1 ltac:(lia)) as [s2 [K2' [key2 [K22 [R2 [V2 L2]]]]]].
    exists s2, K2', key2, K22. split; [eapply reaches_trans; eassumption|split; [exact V2|cbn [length]; lia]].
Qed.

(* 512 levels of any mixture followed by one more opening bracket or brace: rejected, whatever follows *)
Theorem depth_513_rejected os c rest full : Forall opener_ok os -> length os = max_depth -> c = 91 \/ c = 123 ->
  exists line, parse full (flat_map otext os ++ c :: rest) = PFail line.
Proof.
  intros Ho Hl Hc.
  destruct (opens_reach os Ho SVal [] [] [] JUndef (c :: rest) (VS_top [] []) ltac:(cbn [length]; lia)) as [s [K [key [K2 [R [V L]]]]]].
  cbn [length] in L.
  assert (NT : terminal (s, K, key, JUndef) = false) by (eapply vstate_nonterm; [exact V|lia]).
  assert (ST : is_struct c = true) by (destruct Hc; subst; reflexivity).
  assert (FIN : exists s' f, step_tok (TStruct c) (s, K, key, JUndef) = (s', f :: K2, key, JUndef) /\ s' <> SDone).
  { rewrite (vstate_step _ _ _ _ JUndef (TStruct c) V ltac:(destruct Hc; subst; reflexivity)).
    destruct Hc; subst c; [exists SArrValOrClose, (FArr [])|exists SObjKeyOrClose, (FObj [] [])]; split; try reflexivity; discriminate. }
  destruct FIN as [s' [f [E Nd]]].
  assert (R2 : reaches (flat_map otext os ++ c :: rest) init_state rest (s', f :: K2, key, JUndef)).
  { eapply reaches_trans; [exact R|]. rewrite <- E. apply reaches_one; [exact NT|apply tok_struct; exact ST]. }
  assert (T : terminal (s', f :: K2, key, JUndef) = true).
  { unfold terminal. cbn [m_st m_stack length]. destruct s'; try reflexivity; apply Nat.ltb_lt; lia. }
  destruct (reaches_final to_double _ _ _ _ 1 R2 T) as [line Hr].
  exists line. unfold Defs.parse. rewrite Hr. cbn [m_st]. destruct s'; try reflexivity. contradiction.
Qed.

(* up to 512 levels of any mixture around a value of the grammar: accepted, with the nested value *)
Lemma wrap_val : forall os, Forall opener_ok os -> forall n inner v, Val n inner v ->
  Val (length os + n) (wrap os inner) (wrapvs os v).
Proof.
  induction 1 as [|o os Ho _ IH]; intros n inner v Hv; [exact Hv|].
  cbn [length plus wrap wrapvs]. specialize (IH n inner v Hv).
  destruct o as [|kb k]; cbn [otext ctext wrapv app].
  - apply V_arr. replace (wrap os inner) with ([] ++ wrap os inner ++ []) by (cbn [app]; apply app_nil_r).
    apply E_one; [constructor|exact IH|constructor].
  - destruct Ho as [Hb Hu].
    assert (E : 123 :: 34 :: (kb ++ [34; 58]) ++ wrap os inner ++ [125] =
                123 :: ([] ++ 34 :: kb ++ 34 :: [] ++ 58 :: [] ++ wrap os inner ++ []) ++ [125]).
    { cbn [app]. rewrite app_nil_r. f_equal. f_equal. rewrite <- !app_assoc. reflexivity. }
    rewrite E.
    apply V_obj. apply (M_one to_double _ [] kb k [] [] (wrap os inner) (wrapvs os v) [] []); try constructor; assumption.
Qed.

Theorem depth_512_accepted os n inner v : Forall opener_ok os -> Val n inner v -> (length os + n <= max_depth)%nat ->
  parse true (wrap os inner) = POk (wrapvs os v) [].
Proof.
  intros Ho Hv L.
  pose proof (rfc_accepted to_double _ _ _ [] [] (wrap_val os Ho n inner v Hv) L (Forall_nil _) (Forall_nil _)) as P.
  cbn [app] in P. rewrite app_nil_r in P. exact P.
Qed.

(* duplicate key: in the state that expects the value of a member whose key is already in the object, every token
   (a well-formed value, a bracket, the end of input) leads to the error state *)
Theorem duplicate_key_is_error t mm k0 K' key res : map_mem key mm = true ->
  step_tok t (SObjValue, FObj mm k0 :: K', key, res) = (SErr, FObj mm k0 :: K', key, res).
Proof. intros H. cbn [step_tok]. rewrite H. reflexivity. Qed.

Theorem map_mem_iff {A} k (m : list (list N * A)) : map_mem k m = true <-> In k (map fst m).
Proof.
  induction m as [|[k' v] m IH]; cbn [map_mem map In fst]; [split; [discriminate|contradiction]|].
  rewrite orb_true_iff, IH, key_eqb_eq. split; (intros [H|H]; [left; congruence|right; exact H]).
Qed.

End D.

(* ------------------------------------------------------------------------------------------ *)
(* surrogates                                                                                   *)
(* ------------------------------------------------------------------------------------------ *)
(* scan_string over a literal prefix *)
Lemma scan_string_prefix b s : StrBody b s -> forall r, scan_string None (b ++ r) = appb s (scan_string None r).
Proof.
  assert (A0 : forall o, appb [] o = o) by (intros [[x y]|]; reflexivity).
  assert (AC : forall c l o, consb c (appb l o) = appb (c :: l) o) by (intros c l [[x y]|]; reflexivity).
  assert (AA : forall l1 l2 o, appb l1 (appb l2 o) = appb (l1 ++ l2) o) by (intros l1 l2 [[x y]|]; cbn [appb]; [rewrite app_assoc|]; reflexivity).
  induction 1 as [|c b s H1 H2 H3 _ IH|e x b s He _ IH|h1 h2 h3 h4 b s Hh Hf _ IH
                  |h1 h2 h3 h4 l1 l2 l3 l4 b s Hh Hf Hl Hs _ IH]; intros r.
  - cbn [app]. symmetry. apply A0.
  - cbn [app scan_string is_some andb].
    destruct (N.leb_spec c 31); [lia|]. destruct (N.eqb_spec c 34); [contradiction|].
    destruct (N.eqb_spec c 92); [contradiction|]. rewrite IH. apply AC.
  - cbn [app]. rewrite scan_esc. unfold simple_esc in He.
    destruct (N.eqb_spec e 34). { inversion He; subst. cbn [orb]. rewrite IH. apply AC. }
    destruct (N.eqb_spec e 92). { inversion He; subst. cbn [orb]. rewrite IH. apply AC. }
    destruct (N.eqb_spec e 47). { inversion He; subst. cbn [orb]. rewrite IH. apply AC. }
    cbn [orb].
    destruct (N.eqb_spec e 98). { inversion He; subst. rewrite IH. apply AC. }
    destruct (N.eqb_spec e 102). { inversion He; subst. rewrite IH. apply AC. }
    destruct (N.eqb_spec e 110). { inversion He; subst. rewrite IH. apply AC. }
    destruct (N.eqb_spec e 114). { inversion He; subst. rewrite IH. apply AC. }
    destruct (N.eqb_spec e 116). { inversion He; subst. rewrite IH. apply AC. }
    discriminate.
  - cbn [app]. rewrite scan_u_none, Hh, Hf, IH. apply AA.
  - cbn [app]. rewrite scan_u_none, Hh, Hf, scan_u_some, Hl, Hs, IH. apply AA.
Qed.

Definition is_surrogate (x : N) : bool := (55296 <=? x) && (x <=? 57343).

Lemma surrogate_encoding_invalid x r : is_surrogate x = true -> utf8_valid (utf8_encode x ++ r) = false.
Proof.
  unfold is_surrogate. intros H. apply andb_true_iff in H. destruct H as [H1 H2]. apply N.leb_le in H1, H2.
  unfold utf8_encode. destruct (N.leb_spec x 127); [lia|]. destruct (N.leb_spec x 2047); [lia|]. destruct (N.leb_spec x 65535); [|lia].
  assert (E : 224 + x / 4096 = 237) by lia. rewrite E. cbn [app utf8_valid]. change (trail_length 237) with 2.
  cbv iota.
  assert (C : cp_ok 2 ((237 mod 16 * 64 + (128 + x / 64 mod 64) mod 64) * 64 + (128 + x mod 64) mod 64) = false).
  { unfold cp_ok. replace ((237 mod 16 * 64 + (128 + x / 64 mod 64) mod 64) * 64 + (128 + x mod 64) mod 64) with x by lia.
    unfold cp_valid. destruct (N.ltb_spec 1114111 x); [reflexivity|].
    destruct (N.leb_spec 55296 x); [|lia]. destruct (N.leb_spec x 57343); [|lia]. reflexivity. }
  rewrite C. rewrite andb_false_r. reflexivity.
Qed.

Lemma valid_prefix_skip s r : utf8_valid s = true -> utf8_valid (s ++ r) = utf8_valid r.
Proof.
  intros H. apply utf8_valid_iff in H. destruct H as [cps [F E]]. subst s.
  induction F as [|x cps Hx _ IH]; [reflexivity|]. cbn [flat_map]. rewrite <- app_assoc. rewrite valid_encode by exact Hx. exact IH.
Qed.

(* a \uXXXX escape of a low surrogate that does not follow a high one, or any lone surrogate that the scanner lets
   through, makes the literal fail: the decoded bytes are not valid UTF-8 *)
Theorem lone_second_surrogate_rejected to_double b s h1 h2 h3 h4 r :
  StrBody b s -> utf8_valid s = true -> hex4_ok h1 h2 h3 h4 = true -> is_second_surrogate (hex4 h1 h2 h3 h4) = true ->
  exists r' n, next to_double false (34 :: b ++ 92 :: 117 :: h1 :: h2 :: h3 :: h4 :: r) = (TErr, r', n).
Proof.
  intros Hb Hu Hh Hs.
  assert (NF : is_first_surrogate (hex4 h1 h2 h3 h4) = false).
  { unfold is_first_surrogate, is_second_surrogate in *. apply andb_true_iff in Hs. destruct Hs as [S1 S2]. apply N.leb_le in S1.
    destruct (N.leb_spec (hex4 h1 h2 h3 h4) 56319); [lia|]. apply andb_false_r. }
  assert (SU : is_surrogate (hex4 h1 h2 h3 h4) = true).
  { unfold is_surrogate, is_second_surrogate in *. apply andb_true_iff in Hs. destruct Hs as [S1 S2]. apply N.leb_le in S1. rewrite S2.
    destruct (N.leb_spec 55296 (hex4 h1 h2 h3 h4)); [reflexivity|lia]. }
  cbn [Defs.next]. change (is_struct 34) with false.
  change ((34 =? 32) || (34 =? 9) || (34 =? 13)) with false. change (34 =? 10) with false.
  change (34 =? 34) with true. cbv iota.
  rewrite (scan_string_prefix b s Hb). rewrite scan_u_none, Hh, NF.
  destruct (scan_string None r) as [[s' r']|]; cbn [appb].
  - rewrite (valid_prefix_skip s _ Hu). rewrite (surrogate_encoding_invalid _ s' SU). eauto.
  - eauto.
Qed.

(* a high surrogate must be followed immediately by backslash, u, and a low surrogate *)
Theorem first_surrogate_needs_u w e r : e <> 117 -> scan_string (Some w) (92 :: e :: r) = None.
Proof.
  intros H. cbn [scan_string is_some andb]. change (92 =? 92) with true. cbn [negb]. change (92 <=? 31) with false.
  change (92 =? 34) with false. cbv iota. apply N.eqb_neq in H. rewrite H. reflexivity.
Qed.
Theorem first_surrogate_needs_second w h1 h2 h3 h4 r : is_second_surrogate (hex4 h1 h2 h3 h4) = false ->
  scan_string (Some w) (92 :: 117 :: h1 :: h2 :: h3 :: h4 :: r) = None.
Proof. intros H. rewrite scan_u_some, H. destruct (hex4_ok h1 h2 h3 h4); reflexivity. Qed.

(* \u0000, the non-characters U+FFFE / U+FFFF and U+10FFFF (as a pair) are accepted, as RFC 8259 requires; a reversed pair,
   a high surrogate followed by a non-surrogate escape, two high surrogates, a pair split by a short escape are rejected;
   duplicate keys are compared after decoding the escapes *)
Example escapes_and_duplicates : forall td,
  parse td true [34;92;117;48;48;48;48;34] = POk (JStr [0]) [] /\
  parse td true [34;92;117;102;102;102;101;92;117;70;70;70;70;34] = POk (JStr [239;191;190;239;191;191]) [] /\
  parse td true [34;92;117;100;98;102;102;92;117;100;102;102;102;34] = POk (JStr [244;143;191;191]) [] /\
  parse td true [34;92;117;100;99;48;48;92;117;100;56;48;48;34] = PFail 1 /\
  parse td true [34;92;117;100;56;48;48;92;117;48;48;52;49;34] = PFail 1 /\
  parse td true [34;92;117;100;56;48;48;92;117;100;56;48;48;34] = PFail 1 /\
  parse td true [34;92;117;100;56;48;48;92;110;92;117;100;99;48;48;34] = PFail 1 /\
  parse td true [123;34;97;34;58;110;117;108;108;44;34;92;117;48;48;54;49;34;58;110;117;108;108;125] = PFail 1 /\
  parse td true [123;34;97;34;58;123;34;97;34;58;110;117;108;108;125;44;34;65;34;58;110;117;108;108;125]
    = POk (JObj [([65], JNull); ([97], JObj [([97], JNull)])]) [].
Proof. intros. repeat split; vm_compute; reflexivity. Qed.

(* ------------------------------------------------------------------------------------------ *)
(* trailing comma: the states reached after a comma are the states that also accept the closing   *)
(* bracket / brace (st_array_value_or_close_expected, st_object_key_or_close_expected), so a comma *)
(* directly before the closing token is ignored - an extension over RFC 8259, like // comments    *)
(* ------------------------------------------------------------------------------------------ *)
Theorem trailing_comma_ignored :
  (forall items K' key res,
     step_tok (TStruct 93) (step_tok (TStruct 44) (SArrCloseOrComma, FArr items :: K', key, res)) =
     step_tok (TStruct 93) (SArrCloseOrComma, FArr items :: K', key, res)) /\
  (forall mm k0 K' key res,
     step_tok (TStruct 125) (step_tok (TStruct 44) (SObjCloseOrComma, FObj mm k0 :: K', key, res)) =
     step_tok (TStruct 125) (SObjCloseOrComma, FObj mm k0 :: K', key, res)).
Proof. split; intros; reflexivity. Qed.

(* [null,] and {"a":null,} are accepted as [null] and {"a":null}; [,] [null,,] {,} are not *)
Example trailing_comma_examples : forall td,
  parse td true [91;110;117;108;108;44;93] = POk (JArr [JNull]) [] /\
  parse td true [123;34;97;34;58;110;117;108;108;44;125] = POk (JObj [([97], JNull)]) [] /\
  parse td true [91;44;93] = PFail 1 /\
  parse td true [91;110;117;108;108;44;44;93] = PFail 1 /\
  parse td true [123;44;125] = PFail 1.
Proof. intros. repeat split; vm_compute; reflexivity. Qed.
