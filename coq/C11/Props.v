(* C11 -- JSON parsing accepts exactly well-formed documents; serialization round-trips.
   Only property theorems here, each closed by `exact <lemma>`; proofs are in Proofs*.v (model) and
   Link.v (leaf functions regenerated from the source = model leafs).
   to_double (strtod on the accumulated number text), print16 (the 16-digit printer) and to_float
   are parameters of the model: they appear as universally quantified arguments. *)
From CppcmsV Require Import Base.Tac Base.CSem Base.Sweep C11.Defs C11.Proofs1 C11.Proofs2 C11.Proofs3 C11.Proofs4 C11.Proofs5 C11.Link gen.Gen_json gen.Gen_json_esc.
Local Open Scope N_scope.

(* 1. parsing any byte string terminates: the fuel S (length s) of the loop is never exhausted *)
Theorem parse_total : forall to_double full s, parse to_double full s <> PFuel.
Proof. exact Proofs1.parse_total. Qed.
Print Assumptions parse_total.
Theorem parse_ok_or_fail : forall to_double full s,
  (exists v rest, parse to_double full s = POk v rest) \/ (exists line, parse to_double full s = PFail line).
Proof. exact Proofs1.parse_total'. Qed.
Print Assumptions parse_ok_or_fail.
Theorem tokenizer_consumes : forall to_double s cm,
  (length (tok_rest (next to_double cm s)) <= pred (length s))%nat.
Proof. exact Proofs1.next_len. Qed.
Print Assumptions tokenizer_consumes.

(* 2. an accepted parse yields a tree whose strings and keys are valid UTF-8 (utf8::validate), whose objects
      have strictly increasing - hence pairwise different - keys, without undefined members, nested at most
      max_depth = 512 deep; the bound is tight *)
Theorem parse_sound : forall to_double full s v rest,
  parse to_double full s = POk v rest ->
  strings_ok utf8_valid v = true /\ maps_ok v = true /\ no_undef v = true /\ (depth v <= max_depth)%nat.
Proof. exact Proofs2.parse_sound. Qed.
Print Assumptions parse_sound.
Theorem parsed_keys_unique : forall to_double full s v rest,
  parse to_double full s = POk v rest -> keys_unique v.
Proof. intros td full s v rest H. apply maps_ok_unique. apply (Proofs2.parse_sound td full s v rest H). Qed.
Print Assumptions parsed_keys_unique.
Theorem sorted_keys_are_unique : forall (m : list (list N * jv)), keys_sorted m = true -> NoDup (map fst m).
Proof. exact (@sorted_NoDup jv). Qed.
Print Assumptions sorted_keys_are_unique.
Fixpoint nest (n : nat) : jv := match n with O => JArr [] | S k => JArr [nest k] end.
Theorem depth_bound_tight : forall to_double,
  parse to_double true (repeat 91 512 ++ repeat 93 512) = POk (nest 511) [] /\
  parse to_double true (repeat 91 513 ++ repeat 93 513) = PFail 1.
Proof. intros. split; vm_compute; reflexivity. Qed.
Print Assumptions depth_bound_tight.
Theorem control_char_in_string_rejected : forall pend c r, c <= 31 -> scan_string pend (c :: r) = None.
Proof.
  intros pend c r H. cbn [scan_string]. destruct (is_some pend && negb (c =? 92)); [reflexivity|].
  apply N.leb_le in H. rewrite H. reflexivity.
Qed.
Print Assumptions control_char_in_string_rejected.
Theorem unpaired_first_surrogate_rejected : forall w c r, c <> 92 -> scan_string (Some w) (c :: r) = None.
Proof.
  intros w c r H. cbn [scan_string is_some]. apply N.eqb_neq in H. rewrite H. reflexivity.
Qed.
Print Assumptions unpaired_first_surrogate_rejected.
(* {"a":[1,"\u00e9"],"a":2} is rejected (duplicate key), {"b":null,"a":"\ud83d\ude00"} gives sorted keys
   and the 4-byte encoding of U+1F600; "\udc00" (lone second surrogate) and "\ud800x" are rejected *)
Example parse_sound_nonvacuous : forall to_double,
  parse to_double true [123;34;97;34;58;110;117;108;108;44;34;97;34;58;116;114;117;101;125] = PFail 1 /\
  parse to_double true [123;34;98;34;58;110;117;108;108;44;34;97;34;58;34;92;117;100;56;51;100;92;117;100;101;48;48;34;125]
    = POk (JObj [([97], JStr [240;159;152;128]); ([98], JNull)]) [] /\
  parse to_double true [34;92;117;100;99;48;48;34] = PFail 1 /\
  parse to_double true [34;92;117;100;56;48;48;120;34] = PFail 1.
Proof. intros. repeat split; vm_compute; reflexivity. Qed.

(* 3. every text of the RFC 8259 grammar `Val n doc v` (Proofs3.v: insignificant whitespace anywhere the RFC
      allows it, strings with raw bytes >= 0x20, the eight short escapes, \uXXXX and paired surrogate escapes whose
      decoded content is valid UTF-8, the full number grammar with a lexeme strtod converts to a finite b, arrays,
      objects with pairwise different keys, nesting budget n) with n <= max_depth, surrounded by whitespace, is
      accepted, and the result is exactly the value the grammar assigns (objects as the sorted map) *)
Theorem rfc8259_accepted : forall to_double n doc v w1 w2,
  Val to_double n doc v -> (n <= max_depth)%nat -> ws w1 -> ws w2 ->
  parse to_double true (w1 ++ doc ++ w2) = POk v [].
Proof. exact Proofs3.rfc_accepted. Qed.
Print Assumptions rfc8259_accepted.
Theorem rfc8259_accepted_prefix_mode : forall to_double n doc v w1 rest,
  Val to_double n doc v -> (n <= max_depth)%nat -> ws w1 -> stops rest ->
  parse to_double false (w1 ++ doc ++ rest) = POk v rest.
Proof. exact Proofs3.rfc_accepted_prefix. Qed.
Print Assumptions rfc8259_accepted_prefix_mode.
Theorem string_body_decoded : forall b s, StrBody b s -> forall r, scan_string None (b ++ 34 :: r) = Some (s, r).
Proof. exact scan_string_body. Qed.
Print Assumptions string_body_decoded.
Theorem number_lexeme_scanned : forall neg i f e rest, int_ok i -> frac_ok f -> exp_ok e -> stops rest ->
  scan_number (num_text neg i f e ++ rest) = (num_norm neg i f e, rest).
Proof. exact scan_number_ok. Qed.
Print Assumptions number_lexeme_scanned.
(* [null , "a\u00e9"] and -12.5E+3 are texts of the grammar *)
Example rfc8259_nonvacuous : forall to_double,
  Val to_double 1 [91;110;117;108;108;32;44;32;34;97;92;117;48;48;101;57;34;93] (JArr [JNull; JStr [97;195;169]]) /\
  (forall b, to_double [45;49;50;46;53;101;43;51] = Some b -> Val to_double 0 [45;49;50;46;53;69;43;51] (JNum b)).
Proof.
  intros td. split.
  - apply (V_arr td 0 ([] ++ lit_null ++ [32] ++ 44 :: ([32] ++ (34 :: [97;92;117;48;48;101;57] ++ [34]) ++ [])) [JNull; JStr [97;195;169]]).
    apply E_cons; [constructor|apply V_null|repeat constructor|].
    apply E_one; [repeat constructor| |constructor].
    apply (V_str td 0 [97;92;117;48;48;101;57] [97;195;169]); [|reflexivity].
    apply SB_raw; [lia|lia|lia|]. apply (SB_u 48 48 101 57 [] []); [reflexivity|reflexivity|constructor].
  - intros b Hb. apply (V_num td 0 true [49;50] [46;53] (Some (69, [43], [51])) b).
    + right. exists 49, [50]. repeat split; [lia|repeat constructor].
    + right. exists 53, []. split; [reflexivity|repeat constructor].
    + cbn. repeat split; auto; [repeat constructor|discriminate].
    + exact Hb.
Qed.

(* 4. a failed load leaves the target untouched *)
Theorem fail_keeps_target : forall to_double target full s t,
  load to_double target full s = (false, t) -> t = target.
Proof. exact Proofs1.load_fail_keeps. Qed.
Print Assumptions fail_keeps_target.
Example fail_keeps_target_nonvacuous : forall to_double,
  load to_double (JStr [120]) true [91; 34; 34; 44] = (false, JStr [120]) /\
  load to_double (JStr [120]) true [91; 93] = (true, JArr []).
Proof. intros. split; vm_compute; reflexivity. Qed.

(* 5. serialization round-trips.  wgood v (Proofs4.v): no undefined member, every string and key valid UTF-8, objects
      sorted by key (a std::map), and for every number x of v: print16 x is an RFC 8259 number lexeme that strtod
      converts to the finite double rt x.  Then for every layout (tabs = None is compact, Some n readable at
      indentation n; save uses None and Some 0) the written text parses back to v with every number x replaced by
      rt x; if moreover print16 (rt x) reads back as rt x itself (wgood2, Proofs5.v) every later round is exact, whatever
      the layouts.  The writer output lies in the RFC grammar of theorem 3 (write_in_rfc_grammar). *)
Theorem write_in_rfc_grammar : forall to_double print16 rt v, wgood to_double print16 rt v ->
  forall tabs n, (depth v <= n)%nat ->
  exists d w, write print16 tabs v = Some (d ++ w) /\ ws w /\ Val to_double n d (map_nums rt v).
Proof. exact Proofs4.write_in_grammar. Qed.
Print Assumptions write_in_rfc_grammar.
Theorem write_parse : forall to_double print16 rt v tabs,
  wgood to_double print16 rt v -> (depth v <= max_depth)%nat ->
  exists txt, write print16 tabs v = Some txt /\ parse to_double true txt = POk (map_nums rt v) [].
Proof. exact Proofs4.write_parse. Qed.
Print Assumptions write_parse.
Theorem save_load_roundtrip : forall to_double print16 rt v readable,
  wgood to_double print16 rt v -> (depth v <= max_depth)%nat ->
  exists txt, save print16 readable v = Some txt /\
    forall target, load to_double target true txt = (true, map_nums rt v).
Proof. exact Proofs4.save_load. Qed.
Print Assumptions save_load_roundtrip.
Theorem write_parse_second_round_exact : forall to_double print16 rt v tabs1 tabs2,
  wgood2 to_double print16 rt v -> (depth v <= max_depth)%nat ->
  exists txt1 txt2,
    write print16 tabs1 v = Some txt1 /\ parse to_double true txt1 = POk (map_nums rt v) [] /\
    write print16 tabs2 (map_nums rt v) = Some txt2 /\ parse to_double true txt2 = POk (map_nums rt v) [].
Proof. exact Proofs5.second_round_exact. Qed.
Print Assumptions write_parse_second_round_exact.
Theorem wgood_from_predicates : forall to_double print16 rt (p : N -> bool),
  (forall x, p x = true -> num_ok to_double print16 rt x) ->
  forall v, no_undef v = true -> strings_ok utf8_valid v = true -> maps_ok v = true -> nums_ok p v = true ->
  wgood to_double print16 rt v.
Proof. exact Proofs4.wgood_of_bools. Qed.
Print Assumptions wgood_from_predicates.
Theorem escaped_string_denotes_itself : forall s, StrBody (flat_map esc1 s) s.
Proof. exact esc_body. Qed.
Print Assumptions escaped_string_denotes_itself.
(* the two classes on which the round trip fails on the code as it is (known findings, replayed by the check):
   a string that is not valid UTF-8 is written verbatim and rejected by the reader; a finite number whose
   printed decimal strtod does not convert to a finite double is rejected by the reader *)
Theorem write_parse_refuted_non_utf8 :
  exists v, no_undef v = true /\ (depth v <= max_depth)%nat /\
    forall to_double print16 tabs, exists txt, write print16 tabs v = Some txt /\ parse to_double true txt = PFail 1.
Proof. exact Proofs5.write_parse_refuted_non_utf8. Qed.
Print Assumptions write_parse_refuted_non_utf8.
Theorem printed_number_overflow_rejected : forall to_double neg i f e, int_ok i -> frac_ok f -> exp_ok e ->
  to_double (num_norm neg i f e) = None -> parse to_double true (num_text neg i f e) = PFail 1.
Proof. exact Proofs5.number_overflow_rejected. Qed.
Print Assumptions printed_number_overflow_rejected.
(* {"a":[null,"e-acute LF"],"b":true} is wgood whatever the conversions are, [x,"e-acute"] when x prints as 1.5 *)
Example write_parse_nonvacuous : forall to_double print16 rt,
  wgood to_double print16 rt (JObj [([97], JArr [JNull; JStr [195;169;10]]); ([98], JBool true)]) /\
  save print16 false (JObj [([97], JArr [JNull; JStr [195;169;10]]); ([98], JBool true)])
    = Some [123;34;97;34;58;91;110;117;108;108;44;34;195;169;92;110;34;93;44;34;98;34;58;116;114;117;101;125] /\
  parse to_double true [123;34;97;34;58;91;110;117;108;108;44;34;195;169;92;110;34;93;44;34;98;34;58;116;114;117;101;125]
    = POk (JObj [([97], JArr [JNull; JStr [195;169;10]]); ([98], JBool true)]) [] /\
  (forall x, print16 x = [49;46;53] -> to_double [49;46;53] = Some (rt x) ->
     wgood to_double print16 rt (JArr [JNum x; JStr [195;169]])).
Proof.
  intros td p16 rt. split; [|split; [reflexivity|split; [vm_compute; reflexivity|]]].
  - apply G_obj; [reflexivity|]. repeat constructor.
  - intros x Hp Ht. apply G_arr. constructor; [|repeat constructor].
    apply G_num. exists false, [49], [46;53], None. repeat split; try assumption.
    + right. exists 49, []. repeat split; [lia|constructor].
    + right. exists 53, []. split; [reflexivity|repeat constructor].
Qed.

(* 7. typed extraction returns the exact number or fails *)
Theorem get_int_exact : forall lo hi b n,
  get_int lo hi b = Some n ->
  (lo <= n <= hi)%Z /\ exists neg m e, dbl_decode b = Some (neg, m, e) /\ denotes_int neg m e n.
Proof. intros lo hi b n H. apply get_int_sound in H. destruct H as [H1 H2]. split; [exact H2|]. exact (dbl_int_exact b n H1). Qed.
Print Assumptions get_int_exact.
Theorem get_int_fails_iff : forall lo hi b,
  get_int lo hi b = None <-> (dbl_int b = None \/ exists n, dbl_int b = Some n /\ ~ (lo <= n <= hi)%Z).
Proof. exact get_int_fails. Qed.
Print Assumptions get_int_fails_iff.
Theorem dbl_int_none_not_integer : forall b,
  dbl_int b = None ->
  dbl_decode b = None \/ exists neg m e, dbl_decode b = Some (neg, m, e) /\ (e < 0)%Z /\ (m mod 2 ^ (- e) <> 0)%Z.
Proof. exact dbl_int_not_integer. Qed.
Print Assumptions dbl_int_none_not_integer.
(* 0x4060000000000000 = 128.0, 0x405fc00000000000 = 127.0, 0x3fe0000000000000 = 0.5 *)
Example get_int_nonvacuous :
  get_int (-128) 127 4638707616191610880 = None /\ get_int 0 255 4638707616191610880 = Some 128%Z /\
  get_int (-128) 127 4638637247447433216 = Some 127%Z /\ get_int 0 255 4602678819172646912 = None.
Proof. vm_compute. repeat split. Qed.

(* T. the leaf functions and the depth constant regenerated from the current source equal the model leafs *)
Theorem src_max_depth : g_json_max_depth = Z.of_nat max_depth.
Proof. exact link_max_depth. Qed.
Print Assumptions src_max_depth.
Theorem src_is_trail : forall b, b < 256 -> g_is_trail (Z.of_N b) = is_trail b.
Proof. exact link_is_trail. Qed.
Print Assumptions src_is_trail.
Theorem src_trail_length : forall b, b < 256 ->
  g_trail_length (Z.of_N b) = (if trail_length b =? 4 then (-1)%Z else Z.of_N (trail_length b)).
Proof. exact link_trail_length. Qed.
Print Assumptions src_trail_length.
Theorem src_width : forall v, g_width (Z.of_N v) = Z.of_N (cp_width v).
Proof. exact link_width. Qed.
Print Assumptions src_width.
Theorem src_valid : forall v, g_valid (Z.of_N v) = cp_valid v.
Proof. exact link_valid. Qed.
Print Assumptions src_valid.
Theorem src_is_first_surrogate : forall x, g_is_first_surrogate (Z.of_N x) = is_first_surrogate x.
Proof. exact link_is_first_surrogate. Qed.
Print Assumptions src_is_first_surrogate.
Theorem src_is_second_surrogate : forall x, g_is_second_surrogate (Z.of_N x) = is_second_surrogate x.
Proof. exact link_is_second_surrogate. Qed.
Print Assumptions src_is_second_surrogate.
Theorem src_combine_surrogate : forall w1 w2, w1 < 65536 -> w2 < 65536 ->
  g_combine_surrogate (Z.of_N w1) (Z.of_N w2) = Z.of_N (combine_surrogate w1 w2).
Proof. exact link_combine_surrogate. Qed.
Print Assumptions src_combine_surrogate.
Theorem src_escape_switch : forall b, b < 256 ->
  zs2ns (g_json_addon (Z.of_N b)) = (if leqb (esc1 b) [b] then [] else esc1 b).
Proof. exact link_esc1. Qed.
Print Assumptions src_escape_switch.
