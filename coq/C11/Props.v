(* C11 -- JSON parsing accepts exactly well-formed documents; serialization round-trips.
   Only property theorems here, each closed by `exact <lemma>`; proofs are in Proofs*.v (model) and
   Link.v (leaf functions regenerated from the source = model leafs).
   to_double (strtod on the accumulated number text), print16 (the 16-digit printer) and to_float
   are parameters of the model: they appear as universally quantified arguments. *)
From CppcmsV Require Import Base.Tac Base.CSem Base.Sweep C11.Defs C11.Proofs1 C11.Proofs2 C11.Proofs3 C11.Proofs4 C11.Proofs5 C11.Proofs6 C11.NumGrammar C11.StrExact C11.Sound C11.Complete C11.Lex C11.NumRound C11.IntRound C11.DepthDup C11.TokClass C11.ValueApi C11.Link gen.Gen_json gen.Gen_json_esc gen.Gen_json_tok.
Local Open Scope N_scope.

(* 1. parsing any byte string terminates: the fuel S (length s) of the loop is never exhausted *)
Theorem parse_total : forall to_double full s, parse to_double full s <> PFuel.
Proof. exact Proofs1.parse_total. Qed.
Print Assumptions parse_total.
Theorem parse_ok_or_fail : forall to_double full s,
  (exists v rest, parse to_double full s = POk v rest) \/ (exists line, parse to_double full s = PFail line).
Proof. exact Proofs1.parse_total'. Qed.
Print Assumptions parse_ok_or_fail.
Theorem tokenizer_consumes : forall to_double s cm,
  (length (tok_rest (next to_double cm s)) <= pred (length s))%nat.
Proof. exact Proofs1.next_len. Qed.
Print Assumptions tokenizer_consumes.

(* 2. an accepted parse yields a tree whose strings and keys are valid UTF-8 (utf8::validate), whose objects
      have strictly increasing - hence pairwise different - keys, without undefined members, nested at most
      max_depth = 512 deep; the bound is tight *)
Theorem parse_sound : forall to_double full s v rest,
  parse to_double full s = POk v rest ->
  strings_ok utf8_valid v = true /\ maps_ok v = true /\ no_undef v = true /\ (depth v <= max_depth)%nat.
Proof. exact Proofs2.parse_sound. Qed.
Print Assumptions parse_sound.
Theorem parsed_keys_unique : forall to_double full s v rest,
  parse to_double full s = POk v rest -> keys_unique v.
Proof. intros td full s v rest H. apply maps_ok_unique. apply (Proofs2.parse_sound td full s v rest H). Qed.
Print Assumptions parsed_keys_unique.
Theorem sorted_keys_are_unique : forall (m : list (list N * jv)), keys_sorted m = true -> NoDup (map fst m).
Proof. exact (@sorted_NoDup jv). Qed.
Print Assumptions sorted_keys_are_unique.
Fixpoint nest (n : nat) : jv := match n with O => JArr [] | S k => JArr [nest k] end.
Theorem depth_bound_tight : forall to_double,
  parse to_double true (repeat 91 512 ++ repeat 93 512) = POk (nest 511) [] /\
  parse to_double true (repeat 91 513 ++ repeat 93 513) = PFail 1.
Proof. intros. split; vm_compute; reflexivity. Qed.
Print Assumptions depth_bound_tight.
Theorem control_char_in_string_rejected : forall pend c r, c <= 31 -> scan_string pend (c :: r) = None.
Proof.
  intros pend c r H. cbn [scan_string]. destruct (is_some pend && negb (c =? 92)); [reflexivity|].
  apply N.leb_le in H. rewrite H. reflexivity.
Qed.
Print Assumptions control_char_in_string_rejected.
Theorem unpaired_first_surrogate_rejected : forall w c r, c <> 92 -> scan_string (Some w) (c :: r) = None.
Proof.
  intros w c r H. cbn [scan_string is_some]. apply N.eqb_neq in H. rewrite H. reflexivity.
Qed.
Print Assumptions unpaired_first_surrogate_rejected.
(* {"a":[1,"\u00e9"],"a":2} is rejected (duplicate key), {"b":null,"a":"\ud83d\ude00"} gives sorted keys
   and the 4-byte encoding of U+1F600; "\udc00" (lone second surrogate) and "\ud800x" are rejected *)
Example parse_sound_nonvacuous : forall to_double,
  parse to_double true [123;34;97;34;58;110;117;108;108;44;34;97;34;58;116;114;117;101;125] = PFail 1 /\
  parse to_double true [123;34;98;34;58;110;117;108;108;44;34;97;34;58;34;92;117;100;56;51;100;92;117;100;101;48;48;34;125]
    = POk (JObj [([97], JStr [240;159;152;128]); ([98], JNull)]) [] /\
  parse to_double true [34;92;117;100;99;48;48;34] = PFail 1 /\
  parse to_double true [34;92;117;100;56;48;48;120;34] = PFail 1.
Proof. intros. repeat split; vm_compute; reflexivity. Qed.

(* 3. every text of the RFC 8259 grammar `Val n doc v` (Proofs3.v: insignificant whitespace anywhere the RFC
      allows it, strings with raw bytes >= 0x20, the eight short escapes, \uXXXX and paired surrogate escapes whose
      decoded content is valid UTF-8, the full number grammar with a lexeme strtod converts to a finite b, arrays,
      objects with pairwise different keys, nesting budget n) with n <= max_depth, surrounded by whitespace, is
      accepted, and the result is exactly the value the grammar assigns (objects as the sorted map) *)
Theorem rfc8259_accepted : forall to_double n doc v w1 w2,
  Val to_double n doc v -> (n <= max_depth)%nat -> ws w1 -> ws w2 ->
  parse to_double true (w1 ++ doc ++ w2) = POk v [].
Proof. exact Proofs3.rfc_accepted. Qed.
Print Assumptions rfc8259_accepted.
Theorem rfc8259_accepted_prefix_mode : forall to_double n doc v w1 rest,
  Val to_double n doc v -> (n <= max_depth)%nat -> ws w1 -> stops rest ->
  parse to_double false (w1 ++ doc ++ rest) = POk v rest.
Proof. exact Proofs3.rfc_accepted_prefix. Qed.
Print Assumptions rfc8259_accepted_prefix_mode.
Theorem string_body_decoded : forall b s, StrBody b s -> forall r, scan_string None (b ++ 34 :: r) = Some (s, r).
Proof. exact scan_string_body. Qed.
Print Assumptions string_body_decoded.
Theorem number_lexeme_scanned : forall neg i f e rest, int_ok i -> frac_ok f -> exp_ok e -> stops rest ->
  scan_number (num_text neg i f e ++ rest) = (num_norm neg i f e, rest).
Proof. exact scan_number_ok. Qed.
Print Assumptions number_lexeme_scanned.
(* [null , "a\u00e9"] and -12.5E+3 are texts of the grammar *)
Example rfc8259_nonvacuous : forall to_double,
  Val to_double 1 [91;110;117;108;108;32;44;32;34;97;92;117;48;48;101;57;34;93] (JArr [JNull; JStr [97;195;169]]) /\
  (forall b, to_double [45;49;50;46;53;101;43;51] = Some b -> Val to_double 0 [45;49;50;46;53;69;43;51] (JNum b)).
Proof.
  intros td. split.
  - apply (V_arr td 0 ([] ++ lit_null ++ [32] ++ 44 :: ([32] ++ (34 :: [97;92;117;48;48;101;57] ++ [34]) ++ [])) [JNull; JStr [97;195;169]]).
    apply E_cons; [constructor|apply V_null|repeat constructor|].
    apply E_one; [repeat constructor| |constructor].
    apply (V_str td 0 [97;92;117;48;48;101;57] [97;195;169]); [|reflexivity].
    apply SB_raw; [lia|lia|lia|]. apply (SB_u 48 48 101 57 [] []); [reflexivity|reflexivity|constructor].
  - intros b Hb. apply (V_num td 0 true [49;50] [46;53] (Some (69, [43], [51])) b).
    + right. exists 49, [50]. repeat split; [lia|repeat constructor].
    + right. exists 53, []. split; [reflexivity|repeat constructor].
    + cbn. repeat split; auto; [repeat constructor|discriminate].
    + exact Hb.
Qed.

(* 2b. the nesting bound, from both sides, for every mixture of arrays and objects (DepthDup.v).  An opener is an array bracket or
   an object brace with a key literal and its colon; wrap os inner puts the levels os around the text inner. *)
Theorem depth_512_accepted : forall to_double os n inner v,
  Forall opener_ok os -> Val to_double n inner v -> (length os + n <= max_depth)%nat ->
  parse to_double true (wrap os inner) = POk (wrapvs os v) [].
Proof. exact DepthDup.depth_512_accepted. Qed.
Print Assumptions depth_512_accepted.
Theorem depth_513_rejected : forall to_double os c rest full,
  Forall opener_ok os -> length os = max_depth -> c = 91 \/ c = 123 ->
  exists line, parse to_double full (flat_map otext os ++ c :: rest) = PFail line.
Proof. exact DepthDup.depth_513_rejected. Qed.
Print Assumptions depth_513_rejected.
(* 512 levels alternating object / array around the string "s" are accepted; the same 512 openers followed by one more brace fail *)
Fixpoint alt_openers (n : nat) : list opener :=
  match n with O => [] | S k => (if Nat.even k then OArr else OObj [107] [107]) :: alt_openers k end.
Example depth_bound_nonvacuous : forall to_double,
  Forall opener_ok (alt_openers 512) /\ length (alt_openers 512) = max_depth /\
  (exists v, parse to_double true (wrap (alt_openers 512) [34;115;34]) = POk v [] /\ depth v = 512%nat) /\
  (exists line, parse to_double true (flat_map otext (alt_openers 512) ++ [123;125]) = PFail line).
Proof.
  intros td.
  assert (F : forall n, Forall opener_ok (alt_openers n)).
  { induction n as [|n IH]; [constructor|]. cbn [alt_openers]. constructor; [|exact IH].
    destruct (Nat.even n); [exact I|]. split; [|reflexivity]. apply SB_raw; [lia|lia|lia|constructor]. }
  split; [apply F|]. split; [reflexivity|]. split.
  - exists (wrapvs (alt_openers 512) (JStr [115])). split; [|vm_compute; reflexivity].
    apply (DepthDup.depth_512_accepted td (alt_openers 512) 0 [34;115;34] (JStr [115]) (F _)); [|apply Nat.leb_le; vm_compute; reflexivity].
    apply (V_str td 0 [115] [115]); [apply SB_raw; [lia|lia|lia|constructor]|reflexivity].
  - apply (DepthDup.depth_513_rejected td (alt_openers 512) 123 [125] true (F _) eq_refl). right. reflexivity.
Qed.

(* 2c. duplicate keys: the state that expects the value of a member whose (decoded) key is already in the object goes to the error
   state on every token; keys are compared as decoded byte strings *)
Theorem duplicate_key_is_error : forall t mm k0 K' key res, map_mem key mm = true ->
  step_tok t (SObjValue, FObj mm k0 :: K', key, res) = (SErr, FObj mm k0 :: K', key, res).
Proof. exact DepthDup.duplicate_key_is_error. Qed.
Print Assumptions duplicate_key_is_error.
Theorem key_present_iff : forall k (m : list (list N * jv)), map_mem k m = true <-> In k (map fst m).
Proof. exact (@DepthDup.map_mem_iff jv). Qed.
Print Assumptions key_present_iff.

(* 2c'. an extension over RFC 8259 found by the exactness oracle: the state after a comma is the state that also accepts the closing
   bracket / brace, so a comma directly before the closing token is ignored ([1,] reads as [1]); modelled as it is, see docs/C11.md *)
Theorem trailing_comma_ignored :
  (forall items K' key res,
     step_tok (TStruct 93) (step_tok (TStruct 44) (SArrCloseOrComma, FArr items :: K', key, res)) =
     step_tok (TStruct 93) (SArrCloseOrComma, FArr items :: K', key, res)) /\
  (forall mm k0 K' key res,
     step_tok (TStruct 125) (step_tok (TStruct 44) (SObjCloseOrComma, FObj mm k0 :: K', key, res)) =
     step_tok (TStruct 125) (SObjCloseOrComma, FObj mm k0 :: K', key, res)).
Proof. exact DepthDup.trailing_comma_ignored. Qed.
Print Assumptions trailing_comma_ignored.
Example trailing_comma_nonvacuous : forall td,
  parse td true [91;110;117;108;108;44;93] = POk (JArr [JNull]) [] /\
  parse td true [123;34;97;34;58;110;117;108;108;44;125] = POk (JObj [([97], JNull)]) [] /\
  parse td true [91;44;93] = PFail 1 /\
  parse td true [91;110;117;108;108;44;44;93] = PFail 1 /\
  parse td true [123;44;125] = PFail 1.
Proof. exact trailing_comma_examples. Qed.

(* 2d. surrogates: a low-surrogate escape that does not complete a pair is rejected wherever it stands in a literal (its three-byte
   encoding fails utf8::validate); a high-surrogate escape must be followed by backslash, u and a low surrogate *)
Theorem lone_second_surrogate_rejected : forall to_double b s h1 h2 h3 h4 r,
  StrBody b s -> utf8_valid s = true -> hex4_ok h1 h2 h3 h4 = true -> is_second_surrogate (hex4 h1 h2 h3 h4) = true ->
  exists r' n, next to_double false (34 :: b ++ 92 :: 117 :: h1 :: h2 :: h3 :: h4 :: r) = (TErr, r', n).
Proof. exact DepthDup.lone_second_surrogate_rejected. Qed.
Print Assumptions lone_second_surrogate_rejected.
Theorem first_surrogate_needs_u_and_second :
  (forall w e r, e <> 117 -> scan_string (Some w) (92 :: e :: r) = None) /\
  (forall w h1 h2 h3 h4 r, is_second_surrogate (hex4 h1 h2 h3 h4) = false ->
     scan_string (Some w) (92 :: 117 :: h1 :: h2 :: h3 :: h4 :: r) = None).
Proof. split; [exact DepthDup.first_surrogate_needs_u|exact DepthDup.first_surrogate_needs_second]. Qed.
Print Assumptions first_surrogate_needs_u_and_second.
Theorem surrogate_encoding_never_valid : forall x r, is_surrogate x = true -> utf8_valid (utf8_encode x ++ r) = false.
Proof. exact DepthDup.surrogate_encoding_invalid. Qed.
Print Assumptions surrogate_encoding_never_valid.
Example escapes_and_duplicates_nonvacuous : forall td,
  parse td true [34;92;117;48;48;48;48;34] = POk (JStr [0]) [] /\
  parse td true [34;92;117;102;102;102;101;92;117;70;70;70;70;34] = POk (JStr [239;191;190;239;191;191]) [] /\
  parse td true [34;92;117;100;98;102;102;92;117;100;102;102;102;34] = POk (JStr [244;143;191;191]) [] /\
  parse td true [34;92;117;100;99;48;48;92;117;100;56;48;48;34] = PFail 1 /\
  parse td true [34;92;117;100;56;48;48;92;117;48;48;52;49;34] = PFail 1 /\
  parse td true [34;92;117;100;56;48;48;92;117;100;56;48;48;34] = PFail 1 /\
  parse td true [34;92;117;100;56;48;48;92;110;92;117;100;99;48;48;34] = PFail 1 /\
  parse td true [123;34;97;34;58;110;117;108;108;44;34;92;117;48;48;54;49;34;58;110;117;108;108;125] = PFail 1 /\
  parse td true [123;34;97;34;58;123;34;97;34;58;110;117;108;108;125;44;34;65;34;58;110;117;108;108;125]
    = POk (JObj [([65], JNull); ([97], JObj [([97], JNull)])]) [].
Proof. exact escapes_and_duplicates. Qed.

(* 3b. numbers: the exact language of lexemes the tokenizer turns into a number.  rfc_num = RFC 8259 section 6,
   len_num = -? ( DIGIT+ ( . DIGIT* )? | . DIGIT+ ) ( [eE] [+-]? DIGIT+ )?, strtod_dec = the same with [+-]? (the decimal
   subject sequence of strtod); all three are one span-based matcher (NumGrammar.v).  num_start L = L begins with a minus
   or a digit (the only bytes on which tockenizer::next calls parse_number). *)
Theorem number_lexeme_exact : forall L, num_start L ->
  strtod_dec (fst (scan_number L)) && isnil (snd (scan_number L)) = len_num L.
Proof. exact lexeme_exact. Qed.
Print Assumptions number_lexeme_exact.
Theorem rfc_number_iff_int_frac_exp : forall L,
  rfc_num L = true <-> exists neg i f e, int_ok i /\ frac_ok f /\ exp_ok e /\ L = num_text neg i f e.
Proof. exact rfc_num_iff. Qed.
Print Assumptions rfc_number_iff_int_frac_exp.
Theorem rfc_number_in_accepted_language : forall L, rfc_num L = true -> len_num L = true.
Proof. exact rfc_sub_len. Qed.
Print Assumptions rfc_number_in_accepted_language.
(* the accepted lexemes that are not RFC numbers are exactly: a leading zero before another digit (01, -007), no digit
   before the point (-.5), no digit after the point (1., 1.e5) *)
Theorem accepted_non_rfc_number_classes : forall L, len_num L = true ->
  (rfc_num L = false <-> leading_zero L = true \/ empty_int L = true \/ empty_frac L = true).
Proof. intros L H. split; [apply len_not_rfc_classes; exact H|apply classes_not_rfc]. Qed.
Print Assumptions accepted_non_rfc_number_classes.
(* strtod_law: the conversion behind istream >> double succeeds exactly on whole decimal subject sequences whose value
   does not round to an infinity; rounds_finite stays abstract (the value of a number is an oracle) *)
Theorem number_token_exact : forall to_double rounds_finite,
  (forall x, to_double x <> None <-> (strtod_dec x = true /\ rounds_finite x = true)) ->
  forall L, num_start L ->
  ((exists b, next to_double false L = (TNum b, [], 0)) <->
   (len_num L = true /\ rounds_finite (fst (scan_number L)) = true)).
Proof. exact NumGrammar.number_token_exact. Qed.
Print Assumptions number_token_exact.
Theorem number_document_accepted : forall to_double L b, num_start L -> len_num L = true ->
  to_double (fst (scan_number L)) = Some b -> parse to_double true L = POk (JNum b) [].
Proof. exact NumGrammar.number_document. Qed.
Print Assumptions number_document_accepted.
Theorem number_document_rejected : forall to_double rounds_finite,
  (forall x, to_double x <> None <-> (strtod_dec x = true /\ rounds_finite x = true)) ->
  forall L, num_start L -> (len_num L = false \/ rounds_finite (fst (scan_number L)) = false) ->
  snd (scan_number L) = [] -> parse to_double true L = PFail 1.
Proof. exact NumGrammar.number_not_accepted_fails. Qed.
Print Assumptions number_document_rejected.
Example number_language_nonvacuous :
  map len_num [[48;49]; [45;48;48;55]; [49;46]; [45;46;53]; [49;46;101;53]; [45;48;46]] = [true; true; true; true; true; true] /\
  map rfc_num [[48;49]; [45;48;48;55]; [49;46]; [45;46;53]; [49;46;101;53]; [45;48;46]] = [false; false; false; false; false; false] /\
  map len_num [[43;49]; [49;101]; [49;101;43]; [45]; [45;46;101;53]; [48;120;49;48]; [49;46;53;46;51]]
    = [false; false; false; false; false; false; false] /\
  (forall td, parse td true [46;53] = PFail 1 /\ parse td true [43;49] = PFail 1).
Proof. exact discrepancy_witnesses. Qed.

(* 3c. strings: utf8::validate accepts exactly the concatenations of encodings of scalar values, and a string literal
   given as a sequence of code points (raw, short escape, \uXXXX, surrogate pair) satisfies the UTF-8 premise of the grammar *)
Theorem utf8_valid_iff_encodings : forall s,
  utf8_valid s = true <-> exists cps, Forall (fun x => cp_valid x = true) cps /\ s = flat_map utf8_encode cps.
Proof. exact Proofs6.utf8_valid_iff. Qed.
Print Assumptions utf8_valid_iff_encodings.
Theorem code_point_string_literal_ok : forall b s, StrCP b s -> StrBody b s /\ utf8_valid s = true.
Proof. exact Proofs6.strcp_ok. Qed.
Print Assumptions code_point_string_literal_ok.

(* 3d. strings, exactly: the scanner accepts precisely the literals of the grammar StrBody (raw bytes >= 0x20 other than quote and backslash,
   the eight short escapes, \uXXXX of a non-surrogate, a high+low surrogate pair) and returns the bytes the grammar assigns; the tokenizer
   answers a string token exactly when moreover the decoded bytes are valid UTF-8 *)
Theorem string_literal_exact : forall s str r,
  scan_string None s = Some (str, r) <-> exists b, s = b ++ 34 :: r /\ StrBody b str.
Proof. exact scan_string_exact. Qed.
Print Assumptions string_literal_exact.
Theorem string_token_exact : forall to_double s str r n,
  next to_double false (34 :: s) = (TStr str, r, n) <->
  (n = 0 /\ exists b, s = b ++ 34 :: r /\ StrBody b str /\ utf8_valid str = true).
Proof. exact StrExact.string_token_exact. Qed.
Print Assumptions string_token_exact.

(* 3e. the converse of theorem 3 ("accepts exactly"): whatever parse accepts is, token by token (lexes = the tokens the tokenizer delivers),
   a text of the token grammar TVal of Sound.v - JSON values written left to right: PArr s items ts = an opening bracket followed by
   elements and commas, a value only in value position, a comma only after a value, the closing bracket at any point (this is where a trailing
   comma gets in, PA_comma then TV_arr); objects likewise with key, colon, value and the duplicate-key test (PO_val) - and the value returned
   is the value the grammar assigns; every token is a structural character, a string, a number or a keyword.  With string_token_exact,
   number_token_exact and tokenizer_dispatch_by_class (whitespace, // comments) each token's lexeme is characterised exactly. *)
Theorem parse_accepts_only_grammar : forall to_double full s v rest, parse to_double full s = POk v rest ->
  exists toks s', lexes to_double s toks s' /\ TVal toks v /\ Forall good_token toks /\
    (if full then exists n, next to_double false s' = (TEof, rest, n) else rest = s').
Proof. exact Sound.parse_accepts_only_grammar. Qed.
Print Assumptions parse_accepts_only_grammar.
Example token_grammar_nonvacuous :
  TVal [TStruct 91; TNull; TStruct 44; TStruct 93] (JArr [JNull]) /\
  TVal [TStruct 123; TStr [97]; TStruct 58; TStruct 91; TStruct 93; TStruct 125] (JObj [([97], JArr [])]).
Proof. exact Sound.token_grammar_nonvacuous. Qed.

(* 3f. exactly: an input is accepted with value v iff its tokens form a text of the token grammar denoting v, nested at most 512 deep, and
   are followed by the end of input (Complete.v: the machine run on the tokens of any TVal text within the bound reaches the done state) *)
Theorem grammar_text_accepted : forall to_double s toks s' v rest n,
  lexes to_double s toks s' -> TVal toks v -> (depth v <= max_depth)%nat ->
  next to_double false s' = (TEof, rest, n) -> parse to_double true s = POk v rest.
Proof. exact Complete.grammar_text_accepted. Qed.
Print Assumptions grammar_text_accepted.
Theorem parse_accepts_exactly : forall to_double s v rest,
  parse to_double true s = POk v rest <->
  exists toks s' n, lexes to_double s toks s' /\ TVal toks v /\ (depth v <= max_depth)%nat /\
                    next to_double false s' = (TEof, rest, n).
Proof. exact Complete.parse_accepts_exactly. Qed.
Print Assumptions parse_accepts_exactly.

Theorem parse_prefix_accepts_exactly : forall to_double s v rest,
  parse to_double false s = POk v rest <->
  exists toks, lexes to_double s toks rest /\ TVal toks v /\ (depth v <= max_depth)%nat.
Proof. exact Complete.parse_prefix_accepts_exactly. Qed.
Print Assumptions parse_prefix_accepts_exactly.
(* 3g. what the tokenizer skips: before a proper token it skips exactly a sequence of SP / HT / CR / LF bytes and // comments ended by LF
   (Skip), then reads the token at an input that starts with the token's first byte (token_start: not whitespace, newline or comment
   start) - the form on which string_token_exact, number_token_exact and tokenizer_dispatch_by_class are stated *)
Theorem next_skips_then_reads : forall to_double s t r k, next to_double false s = (t, r, k) -> good_token t ->
  exists pre tl k0, s = pre ++ tl /\ Skip pre /\ token_start tl /\ next to_double false tl = (t, r, k0).
Proof. exact Lex.next_skips_then_reads. Qed.
Print Assumptions next_skips_then_reads.
(* SP // c LF HT [ : the bracket is read after a space, a comment and a tab *)
Example next_skips_nonvacuous : forall td,
  next td false [32;47;47;99;10;9;91;49] = (TStruct 91, [49], 0) /\ Skip [32;47;47;99;10;9] /\ token_start [91;49].
Proof.
  intros. split; [reflexivity|]. split; [|repeat split; discriminate].
  apply SK_ws; [reflexivity|]. apply (SK_comment [99] [9]); [repeat constructor; discriminate|]. apply SK_ws; [reflexivity|constructor].
Qed.

(* 3h. the \u accumulation (sscanf "%x" of four hex digits stored into a uint16_t; libc, not translatable): the model's hex4 is the
   positional value of the digits, each digit below 16 with the usual values for 0-9, A-F, a-f, and the result fits 16 bits (no truncation) *)
Theorem hex_escape_accumulation : forall h1 h2 h3 h4, hex4_ok h1 h2 h3 h4 = true ->
  hex4 h1 h2 h3 h4 = 4096 * hexval h1 + 256 * hexval h2 + 16 * hexval h3 + hexval h4 /\
  hexval h1 < 16 /\ hexval h2 < 16 /\ hexval h3 < 16 /\ hexval h4 < 16 /\ hex4 h1 h2 h3 h4 < 65536.
Proof. exact hex_accumulation. Qed.
Print Assumptions hex_escape_accumulation.
Theorem hex_digit_values : forall c, is_hex c = true ->
  (48 <= c <= 57 /\ hexval c = c - 48) \/ (65 <= c <= 70 /\ hexval c = c - 55) \/ (97 <= c <= 102 /\ hexval c = c - 87).
Proof. exact hexval_digit. Qed.
Print Assumptions hex_digit_values.

(* 4. a failed load leaves the target untouched *)
Theorem fail_keeps_target : forall to_double target full s t,
  load to_double target full s = (false, t) -> t = target.
Proof. exact Proofs1.load_fail_keeps. Qed.
Print Assumptions fail_keeps_target.
Example fail_keeps_target_nonvacuous : forall to_double,
  load to_double (JStr [120]) true [91; 34; 34; 44] = (false, JStr [120]) /\
  load to_double (JStr [120]) true [91; 93] = (true, JArr []).
Proof. intros. split; vm_compute; reflexivity. Qed.

(* 5. serialization round-trips.  wgood v (Proofs4.v): no undefined member, every string and key valid UTF-8, objects
      sorted by key (a std::map), and for every number x of v: print16 x is an RFC 8259 number lexeme that strtod
      converts to the finite double rt x.  Then for every layout (tabs = None is compact, Some n readable at
      indentation n; save uses None and Some 0) the written text parses back to v with every number x replaced by
      rt x; if moreover print16 (rt x) reads back as rt x itself (wgood2, Proofs5.v) every later round is exact, whatever
      the layouts.  The writer output lies in the RFC grammar of theorem 3 (write_in_rfc_grammar). *)
Theorem write_in_rfc_grammar : forall to_double print16 rt v, wgood to_double print16 rt v ->
  forall tabs n, (depth v <= n)%nat ->
  exists d w, write print16 tabs v = Some (d ++ w) /\ ws w /\ Val to_double n d (map_nums rt v).
Proof. exact Proofs4.write_in_grammar. Qed.
Print Assumptions write_in_rfc_grammar.
Theorem write_parse : forall to_double print16 rt v tabs,
  wgood to_double print16 rt v -> (depth v <= max_depth)%nat ->
  exists txt, write print16 tabs v = Some txt /\ parse to_double true txt = POk (map_nums rt v) [].
Proof. exact Proofs4.write_parse. Qed.
Print Assumptions write_parse.
Theorem save_load_roundtrip : forall to_double print16 rt v readable,
  wgood to_double print16 rt v -> (depth v <= max_depth)%nat ->
  exists txt, save print16 readable v = Some txt /\
    forall target, load to_double target true txt = (true, map_nums rt v).
Proof. exact Proofs4.save_load. Qed.
Print Assumptions save_load_roundtrip.
Theorem write_parse_second_round_exact : forall to_double print16 rt v tabs1 tabs2,
  wgood2 to_double print16 rt v -> (depth v <= max_depth)%nat ->
  exists txt1 txt2,
    write print16 tabs1 v = Some txt1 /\ parse to_double true txt1 = POk (map_nums rt v) [] /\
    write print16 tabs2 (map_nums rt v) = Some txt2 /\ parse to_double true txt2 = POk (map_nums rt v) [].
Proof. exact Proofs5.second_round_exact. Qed.
Print Assumptions write_parse_second_round_exact.
Theorem wgood_from_predicates : forall to_double print16 rt (p : N -> bool),
  (forall x, p x = true -> num_ok to_double print16 rt x) ->
  forall v, no_undef v = true -> strings_ok utf8_valid v = true -> maps_ok v = true -> nums_ok p v = true ->
  wgood to_double print16 rt v.
Proof. exact Proofs4.wgood_of_bools. Qed.
Print Assumptions wgood_from_predicates.
Theorem escaped_string_denotes_itself : forall s, StrBody (flat_map esc1 s) s.
Proof. exact esc_body. Qed.
Print Assumptions escaped_string_denotes_itself.
(* the two classes on which the round trip fails on the code as it is (known findings, replayed by the check):
   a string that is not valid UTF-8 is written verbatim and rejected by the reader; a finite number whose
   printed decimal strtod does not convert to a finite double is rejected by the reader *)
Theorem write_parse_refuted_non_utf8 :
  exists v, no_undef v = true /\ (depth v <= max_depth)%nat /\
    forall to_double print16 tabs, exists txt, write print16 tabs v = Some txt /\ parse to_double true txt = PFail 1.
Proof. exact Proofs5.write_parse_refuted_non_utf8. Qed.
Print Assumptions write_parse_refuted_non_utf8.
Theorem printed_number_overflow_rejected : forall to_double neg i f e, int_ok i -> frac_ok f -> exp_ok e ->
  to_double (num_norm neg i f e) = None -> parse to_double true (num_text neg i f e) = PFail 1.
Proof. exact Proofs5.number_overflow_rejected. Qed.
Print Assumptions printed_number_overflow_rejected.
(* {"a":[null,"e-acute LF"],"b":true} is wgood whatever the conversions are, [x,"e-acute"] when x prints as 1.5 *)
Example write_parse_nonvacuous : forall to_double print16 rt,
  wgood to_double print16 rt (JObj [([97], JArr [JNull; JStr [195;169;10]]); ([98], JBool true)]) /\
  save print16 false (JObj [([97], JArr [JNull; JStr [195;169;10]]); ([98], JBool true)])
    = Some [123;34;97;34;58;91;110;117;108;108;44;34;195;169;92;110;34;93;44;34;98;34;58;116;114;117;101;125] /\
  parse to_double true [123;34;97;34;58;91;110;117;108;108;44;34;195;169;92;110;34;93;44;34;98;34;58;116;114;117;101;125]
    = POk (JObj [([97], JArr [JNull; JStr [195;169;10]]); ([98], JBool true)]) [] /\
  (forall x, print16 x = [49;46;53] -> to_double [49;46;53] = Some (rt x) ->
     wgood to_double print16 rt (JArr [JNum x; JStr [195;169]])).
Proof.
  intros td p16 rt. split; [|split; [reflexivity|split; [vm_compute; reflexivity|]]].
  - apply G_obj; [reflexivity|]. repeat constructor.
  - intros x Hp Ht. apply G_arr. constructor; [|repeat constructor].
    apply G_num. exists false, [49], [46;53], None. repeat split; try assumption.
    + right. exists 49, []. repeat split; [lia|constructor].
    + right. exists 53, []. split; [reflexivity|repeat constructor].
Qed.

(* 5b. the number round trip from two global laws, with the excluded class explicit (NumRound.v).  reread x = what strtod returns for
   the text the scanner extracts from print16 x; excluded x = (reread x = None): the printed 16 digits do not read back as a finite
   double - known finding 2 (the two largest finite doubles of each sign).  Law 1: the printer emits an RFC 8259 number for every finite
   double; law 2: rt x is the double read back.  Outside the excluded class the value is reloaded as map_nums rt v; a number of the
   excluded class is written to text the reader rejects. *)
Theorem roundtrip_outside_excluded_class : forall to_double print16 rt finite,
  (forall x, finite x = true -> rfc_num (print16 x) = true) ->
  (forall x b, finite x = true -> reread to_double print16 x = Some b -> b = rt x) ->
  forall v tabs, no_undef v = true -> strings_ok utf8_valid v = true -> maps_ok v = true ->
  nums_in (fun x => finite x = true /\ ~ excluded to_double print16 x) v -> (depth v <= max_depth)%nat ->
  exists txt, write print16 tabs v = Some txt /\ parse to_double true txt = POk (map_nums rt v) [].
Proof. exact NumRound.roundtrip_outside_excluded_class. Qed.
Print Assumptions roundtrip_outside_excluded_class.
Theorem excluded_number_rejected : forall to_double print16 finite,
  (forall x, finite x = true -> rfc_num (print16 x) = true) ->
  forall x tabs, finite x = true -> excluded to_double print16 x ->
  exists txt, write print16 tabs (JNum x) = Some txt /\ parse to_double true txt = PFail 1.
Proof. exact NumRound.excluded_number_rejected. Qed.
Print Assumptions excluded_number_rejected.

(* the two laws and the side conditions are satisfiable together (a printer that always prints 1, a reader that always answers 7) *)
Example roundtrip_laws_nonvacuous :
  let td := fun _ : list N => Some 7 in let p16 := fun _ : N => [49] in let rt := fun _ : N => 7 in let fin := fun _ : N => true in
  (forall x, fin x = true -> rfc_num (p16 x) = true) /\
  (forall x b, fin x = true -> reread td p16 x = Some b -> b = rt x) /\
  nums_in (fun x => fin x = true /\ ~ excluded td p16 x) (JArr [JNum 5; JNull]) /\
  parse td true [91;49;44;110;117;108;108;93] = POk (JArr [JNum 7; JNull]) [].
Proof.
  cbv zeta. split; [intros; reflexivity|]. split; [intros x b _ H; inversion H; reflexivity|]. split; [|vm_compute; reflexivity].
  constructor. constructor; [constructor; split; [reflexivity|discriminate]|]. constructor; [constructor|constructor].
Qed.

(* 6. integers.  The printer and the reader are concrete on the class of integer-valued numbers (IntRound.v): print_nat = decimal
   digits, dec_value = their value, enc_sm neg a = the binary64 pattern of (-1)^neg * a, print16_int / to_double_int = what
   printf %.16g emits for / strtod returns on that class, small_int b = "b holds an integer of magnitude below 2^53".  Every such integer
   (both signs, -0 included) is representable, prints as an RFC 8259 integer lexeme that the scanner takes whole and that denotes it, and
   reads back as the same bit pattern: under the two laws "the platform printer / strtod agree with print16_int / to_double_int on
   the class", a value whose numbers are all small integers round-trips exactly in the FIRST round, in every layout. *)
Theorem decimal_digits_of_natural : forall n, int_ok (print_nat n) /\ dec_value (print_nat n) = n.
Proof. exact print_nat_spec. Qed.
Print Assumptions decimal_digits_of_natural.
Theorem small_integers_representable : forall neg a, (0 < a)%N -> a < 9007199254740992 ->
  dbl_int (enc_sm neg a) = Some ((if neg then -1 else 1) * Z.of_N a)%Z /\ small_int (enc_sm neg a) = true.
Proof. intros neg a H1 H2. split; [apply dbl_int_enc; assumption|apply small_int_enc; exact H2]. Qed.
Print Assumptions small_integers_representable.
Theorem integer_print_scan_concrete : forall b, small_int b = true ->
  exists neg i, int_ok i /\ print16_int b = Some (num_text neg i [] None) /\
                rfc_num (num_text neg i [] None) = true /\
                (forall rest, stops rest -> scan_number (num_text neg i [] None ++ rest) = (num_norm neg i [] None, rest)) /\
                to_double_int (num_norm neg i [] None) = b.
Proof. exact int_print_scan. Qed.
Print Assumptions integer_print_scan_concrete.
Theorem integers_roundtrip_exact : forall to_double print16,
  (forall b x, small_int b = true -> print16_int b = Some x -> print16 b = x) ->
  (forall neg i, int_ok i -> dec_value i < 9007199254740992 ->
     to_double (num_norm neg i [] None) = Some (to_double_int (num_norm neg i [] None))) ->
  forall v tabs, no_undef v = true -> strings_ok utf8_valid v = true -> maps_ok v = true -> nums_ok small_int v = true ->
  (depth v <= max_depth)%nat ->
  exists txt, write print16 tabs v = Some txt /\ parse to_double true txt = POk v [].
Proof. exact IntRound.integers_roundtrip_exact. Qed.
Print Assumptions integers_roundtrip_exact.
(* 2^53 - 1, -0 and -12345 with their bit patterns *)
Example integers_roundtrip_nonvacuous :
  small_int (enc_sm false 9007199254740991) = true /\
  print16_int (enc_sm false 9007199254740991) = Some [57;48;48;55;49;57;57;50;53;52;55;52;48;57;57;49] /\
  to_double_int [57;48;48;55;49;57;57;50;53;52;55;52;48;57;57;49] = enc_sm false 9007199254740991 /\
  enc_sm false 9007199254740991 = 4845873199050653695 /\
  print16_int sign_bit = Some [45;48] /\ to_double_int [45;48] = sign_bit /\
  print16_int (enc_sm true 12345) = Some [45;49;50;51;52;53] /\ enc_sm true 12345 = 13891384386705686528.
Proof. exact int_roundtrip_nonvacuous. Qed.

(* 7. typed extraction returns the exact number or fails *)
Theorem get_int_exact : forall lo hi b n,
  get_int lo hi b = Some n ->
  (lo <= n <= hi)%Z /\ exists neg m e, dbl_decode b = Some (neg, m, e) /\ denotes_int neg m e n.
Proof. intros lo hi b n H. apply get_int_sound in H. destruct H as [H1 H2]. split; [exact H2|]. exact (dbl_int_exact b n H1). Qed.
Print Assumptions get_int_exact.
Theorem get_int_fails_iff : forall lo hi b,
  get_int lo hi b = None <-> (dbl_int b = None \/ exists n, dbl_int b = Some n /\ ~ (lo <= n <= hi)%Z).
Proof. exact get_int_fails. Qed.
Print Assumptions get_int_fails_iff.
Theorem dbl_int_none_not_integer : forall b,
  dbl_int b = None ->
  dbl_decode b = None \/ exists neg m e, dbl_decode b = Some (neg, m, e) /\ (e < 0)%Z /\ (m mod 2 ^ (- e) <> 0)%Z.
Proof. exact dbl_int_not_integer. Qed.
Print Assumptions dbl_int_none_not_integer.
(* 0x4060000000000000 = 128.0, 0x405fc00000000000 = 127.0, 0x3fe0000000000000 = 0.5 *)
Example get_int_nonvacuous :
  get_int (-128) 127 4638707616191610880 = None /\ get_int 0 255 4638707616191610880 = Some 128%Z /\
  get_int (-128) 127 4638637247447433216 = Some 127%Z /\ get_int 0 255 4602678819172646912 = None.
Proof. vm_compute. repeat split. Qed.

(* 8. the value API the round trip relies on (ValueApi.v): member order = std::map order of string_key::operator< (lexicographic
   by unsigned byte, a proper prefix first), map::insert keeps an existing member, insertion order does not matter, and
   value::operator== (jv_eqb: numbers by IEEE equality) is reflexive on NaN-free values and implies identity up to the sign of zeros *)
Theorem key_order_is_strict_total_lexicographic :
  ((forall a, key_ltb a a = false) /\
   (forall a b c, key_ltb a b = true -> key_ltb b c = true -> key_ltb a c = true) /\
   (forall a b, key_ltb a b = true \/ a = b \/ key_ltb b a = true) /\
   (forall a b, key_ltb a b = true -> key_ltb b a = false)) /\
  (forall p x y a b, x < y -> key_ltb (p ++ x :: a) (p ++ y :: b) = true) /\
  (forall p c a, key_ltb p (p ++ c :: a) = true).
Proof. split; [exact key_order_strict_total|]. split; [exact key_order_lexicographic|exact key_order_prefix]. Qed.
Print Assumptions key_order_is_strict_total_lexicographic.
Theorem map_insert_semantics :
  (forall k (v : jv) m, keys_sorted m = true -> keys_sorted (map_insert k v m) = true) /\
  (forall k (v : jv) m, keys_sorted m = true -> map_mem k m = true -> map_insert k v m = m) /\
  (forall k (v : jv) m, map_mem k m = false -> map_find k (map_insert k v m) = Some v) /\
  (forall k k2 (v : jv) m, key_eqb k2 k = false -> map_find k2 (map_insert k v m) = map_find k2 m).
Proof.
  split; [exact (@insert_sorted jv)|]. split; [exact (@insert_existing_keeps jv)|].
  split; [exact (@find_after_insert jv)|exact (@find_other_after_insert jv)].
Qed.
Print Assumptions map_insert_semantics.
Theorem member_order_independent_of_insertion_order : forall k1 k2 (v1 v2 : jv), key_eqb k1 k2 = false ->
  forall m, keys_sorted m = true -> map_insert k1 v1 (map_insert k2 v2 m) = map_insert k2 v2 (map_insert k1 v1 m).
Proof. exact (@insert_commute jv). Qed.
Print Assumptions member_order_independent_of_insertion_order.
Theorem value_equality :
  (forall v, nums_ok (fun b => negb (is_nan b)) v = true -> jv_eqb v v = true) /\
  (forall v w, jv_eqb v w = true -> map_nums canon_zero v = map_nums canon_zero w).
Proof. split; [exact jv_eqb_refl|exact jv_eqb_sound]. Qed.
Print Assumptions value_equality.
Example value_api_nonvacuous :
  map_insert [98] JNull (map_insert [97] (JBool true) []) = [([97], JBool true); ([98], JNull)] /\
  map_insert [97] (JBool true) (map_insert [98] JNull []) = [([97], JBool true); ([98], JNull)] /\
  map_insert [97] JNull [([97], JBool true)] = [([97], JBool true)] /\
  key_ltb [97] [97; 0] = true /\ key_ltb [127] [195; 169] = true /\ key_ltb [] [0] = true /\
  jv_eqb (JArr [JNum 0]) (JArr [JNum 9223372036854775808]) = true /\
  jv_eqb (JNum 9221120237041090560) (JNum 9221120237041090560) = false /\
  jv_eqb (JObj [([97], JNum 1)]) (JObj [([97], JNum 2)]) = false.
Proof. exact ValueApi.value_api_nonvacuous. Qed.

(* T. the leaf functions, tables and the depth constant regenerated from the current source equal the model leafs.
   utf helpers of private/utf_iterator.h (trail_length: the model writes 4 for the -1 of the source; combine_surrogate with the
   uint32_t wrap, for all 16-bit units) *)
Theorem src_constants_and_utf_helpers :
  g_json_max_depth = Z.of_nat max_depth /\
  (forall b, b < 256 -> g_is_trail (Z.of_N b) = is_trail b) /\
  (forall b, b < 256 -> g_trail_length (Z.of_N b) = (if trail_length b =? 4 then (-1)%Z else Z.of_N (trail_length b))) /\
  (forall v, g_width (Z.of_N v) = Z.of_N (cp_width v)) /\
  (forall v, g_valid (Z.of_N v) = cp_valid v) /\
  (forall x, g_is_first_surrogate (Z.of_N x) = is_first_surrogate x) /\
  (forall x, g_is_second_surrogate (Z.of_N x) = is_second_surrogate x) /\
  (forall w1 w2, w1 < 65536 -> w2 < 65536 -> g_combine_surrogate (Z.of_N w1) (Z.of_N w2) = Z.of_N (combine_surrogate w1 w2)).
Proof.
  split; [exact link_max_depth|]. split; [exact link_is_trail|]. split; [exact link_trail_length|]. split; [exact link_width|].
  split; [exact link_valid|]. split; [exact link_is_first_surrogate|]. split; [exact link_is_second_surrogate|exact link_combine_surrogate].
Qed.
Print Assumptions src_constants_and_utf_helpers.
(* the reader.  The dispatch switch of tockenizer::next read from the source as byte -> class (1 structural, 2 skipped, 3 newline,
   4 string, 5 true, 6 null, 7 false, 8 number, 9 comment start, 0 error) and keyword tails equals tok_class / kw_tail, and the
   model's next is, for every input, the function next_spec of these classes *)
Theorem src_reader_dispatch :
  (forall b, b < 256 -> g_json_tokclass (Z.of_N b) = Z.of_N (tok_class b)) /\
  (forall b, b < 256 -> zs2ns (g_json_kw (Z.of_N b)) = kw_tail b).
Proof. split; [exact link_tokclass|exact link_kw]. Qed.
Print Assumptions src_reader_dispatch.
Theorem tokenizer_dispatch_by_class : forall to_double c r, next to_double false (c :: r) = next_spec to_double c r.
Proof. exact TokClass.next_by_class. Qed.
Print Assumptions tokenizer_dispatch_by_class.
(* the escape switch of parse_string (-3 the byte itself, -2 the \u path, -1 rejected, else the character appended), the control
   character test (on an int holding the byte) and the hex digit test of read_4_digits (on a signed char) *)
Theorem src_reader_escape_switch_and_byte_tests :
  (forall b, b < 256 -> g_json_unesc (Z.of_N b) = unesc_code b) /\
  (forall b, b < 256 -> g_json_is_ctl (Z.of_N b) = (b <=? 31)) /\
  (forall b, b < 256 -> g_json_is_hex (wraps 8 (Z.of_N b)) = is_hex b).
Proof. split; [exact link_unesc|]. split; [exact link_is_ctl|exact link_is_hex]. Qed.
Print Assumptions src_reader_escape_switch_and_byte_tests.
Theorem escape_dispatch_by_class : forall e r, e <> 117 ->
  scan_string None (92 :: e :: r) = match simple_esc e with Some x => consb x (scan_string None r) | None => None end.
Proof. exact TokClass.scan_esc_by_class. Qed.
Print Assumptions escape_dispatch_by_class.
(* the writer layout: the statements of indent(out,c,tabs) and pad read from the source (codes interpreted by Link.run_ev) produce,
   for every indentation, exactly the model's w_open / w_comma / w_colon / w_close and the same change of tabs *)
Theorem src_writer_layout :
  (forall c n, c = 91 \/ c = 123 -> g_indent c n = (w_open c (Some n), S n)) /\
  (forall t, g_indent 44 t = (w_comma (Some t), t)) /\
  (forall t, g_indent 58 t = (w_colon (Some t), t)) /\
  (forall c n, c = 93 \/ c = 125 -> g_indent c (S n) = (w_close c (Some n), n)).
Proof. split; [exact link_indent_open|]. split; [exact link_indent_comma|]. split; [exact link_indent_colon|exact link_indent_close]. Qed.
Print Assumptions src_writer_layout.
Theorem src_escape_switch : forall b, b < 256 ->
  zs2ns (g_json_addon (Z.of_N b)) = (if leqb (esc1 b) [b] then [] else esc1 b).
Proof. exact link_esc1. Qed.
Print Assumptions src_escape_switch.
