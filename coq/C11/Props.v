(* C11 -- JSON parsing accepts exactly well-formed documents; serialization round-trips.
   Only property theorems here, each closed by `exact <lemma>`; proofs are in Proofs*.v (model) and
   Link.v (leaf functions regenerated from the source = model leafs).
   to_double (strtod on the accumulated number text), print16 (the 16-digit printer) and to_float
   are parameters of the model: they appear as universally quantified arguments. *)
From CppcmsV Require Import Base.Tac Base.CSem Base.Sweep C11.Defs C11.Proofs1 C11.Proofs2 C11.Link gen.Gen_json gen.Gen_json_esc.
Local Open Scope N_scope.

(* 1. parsing any byte string terminates: the fuel S (length s) of the loop is never exhausted *)
Theorem parse_total : forall to_double full s, parse to_double full s <> PFuel.
Proof. exact Proofs1.parse_total. Qed.
Print Assumptions parse_total.
Theorem parse_ok_or_fail : forall to_double full s,
  (exists v rest, parse to_double full s = POk v rest) \/ (exists line, parse to_double full s = PFail line).
Proof. exact Proofs1.parse_total'. Qed.
Print Assumptions parse_ok_or_fail.
Theorem tokenizer_consumes : forall to_double s cm,
  (length (tok_rest (next to_double cm s)) <= pred (length s))%nat.
Proof. exact Proofs1.next_len. Qed.
Print Assumptions tokenizer_consumes.

(* 2. an accepted parse yields a tree whose strings and keys are valid UTF-8 (utf8::validate), whose objects
      have strictly increasing - hence pairwise different - keys, without undefined members, nested at most
      max_depth = 512 deep; the bound is tight *)
Theorem parse_sound : forall to_double full s v rest,
  parse to_double full s = POk v rest ->
  strings_ok utf8_valid v = true /\ maps_ok v = true /\ no_undef v = true /\ (depth v <= max_depth)%nat.
Proof. exact Proofs2.parse_sound. Qed.
Print Assumptions parse_sound.
Theorem parsed_keys_unique : forall to_double full s v rest,
  parse to_double full s = POk v rest -> keys_unique v.
Proof. intros td full s v rest H. apply maps_ok_unique. apply (Proofs2.parse_sound td full s v rest H). Qed.
Print Assumptions parsed_keys_unique.
Theorem sorted_keys_are_unique : forall (m : list (list N * jv)), keys_sorted m = true -> NoDup (map fst m).
Proof. exact (@sorted_NoDup jv). Qed.
Print Assumptions sorted_keys_are_unique.
Fixpoint nest (n : nat) : jv := match n with O => JArr [] | S k => JArr [nest k] end.
Theorem depth_bound_tight : forall to_double,
  parse to_double true (repeat 91 512 ++ repeat 93 512) = POk (nest 511) [] /\
  parse to_double true (repeat 91 513 ++ repeat 93 513) = PFail 1.
Proof. intros. split; vm_compute; reflexivity. Qed.
Print Assumptions depth_bound_tight.
Theorem control_char_in_string_rejected : forall pend c r, c <= 31 -> scan_string pend (c :: r) = None.
Proof.
  intros pend c r H. cbn [scan_string]. destruct (is_some pend && negb (c =? 92)); [reflexivity|].
  apply N.leb_le in H. rewrite H. reflexivity.
Qed.
Print Assumptions control_char_in_string_rejected.
Theorem unpaired_first_surrogate_rejected : forall w c r, c <> 92 -> scan_string (Some w) (c :: r) = None.
Proof.
  intros w c r H. cbn [scan_string is_some]. apply N.eqb_neq in H. rewrite H. reflexivity.
Qed.
Print Assumptions unpaired_first_surrogate_rejected.
(* {"a":[1,"\u00e9"],"a":2} is rejected (duplicate key), {"b":null,"a":"\ud83d\ude00"} gives sorted keys
   and the 4-byte encoding of U+1F600; "\udc00" (lone second surrogate) and "\ud800x" are rejected *)
Example parse_sound_nonvacuous : forall to_double,
  parse to_double true [123;34;97;34;58;110;117;108;108;44;34;97;34;58;116;114;117;101;125] = PFail 1 /\
  parse to_double true [123;34;98;34;58;110;117;108;108;44;34;97;34;58;34;92;117;100;56;51;100;92;117;100;101;48;48;34;125]
    = POk (JObj [([97], JStr [240;159;152;128]); ([98], JNull)]) [] /\
  parse to_double true [34;92;117;100;99;48;48;34] = PFail 1 /\
  parse to_double true [34;92;117;100;56;48;48;120;34] = PFail 1.
Proof. intros. repeat split; vm_compute; reflexivity. Qed.

(* 4. a failed load leaves the target untouched *)
Theorem fail_keeps_target : forall to_double target full s t,
  load to_double target full s = (false, t) -> t = target.
Proof. exact Proofs1.load_fail_keeps. Qed.
Print Assumptions fail_keeps_target.
Example fail_keeps_target_nonvacuous : forall to_double,
  load to_double (JStr [120]) true [91; 34; 34; 44] = (false, JStr [120]) /\
  load to_double (JStr [120]) true [91; 93] = (true, JArr []).
Proof. intros. split; vm_compute; reflexivity. Qed.

(* 7. typed extraction returns the exact number or fails *)
Theorem get_int_exact : forall lo hi b n,
  get_int lo hi b = Some n ->
  (lo <= n <= hi)%Z /\ exists neg m e, dbl_decode b = Some (neg, m, e) /\ denotes_int neg m e n.
Proof. intros lo hi b n H. apply get_int_sound in H. destruct H as [H1 H2]. split; [exact H2|]. exact (dbl_int_exact b n H1). Qed.
Print Assumptions get_int_exact.
Theorem get_int_fails_iff : forall lo hi b,
  get_int lo hi b = None <-> (dbl_int b = None \/ exists n, dbl_int b = Some n /\ ~ (lo <= n <= hi)%Z).
Proof. exact get_int_fails. Qed.
Print Assumptions get_int_fails_iff.
Theorem dbl_int_none_not_integer : forall b,
  dbl_int b = None ->
  dbl_decode b = None \/ exists neg m e, dbl_decode b = Some (neg, m, e) /\ (e < 0)%Z /\ (m mod 2 ^ (- e) <> 0)%Z.
Proof. exact dbl_int_not_integer. Qed.
Print Assumptions dbl_int_none_not_integer.
(* 0x4060000000000000 = 128.0, 0x405fc00000000000 = 127.0, 0x3fe0000000000000 = 0.5 *)
Example get_int_nonvacuous :
  get_int (-128) 127 4638707616191610880 = None /\ get_int 0 255 4638707616191610880 = Some 128%Z /\
  get_int (-128) 127 4638637247447433216 = Some 127%Z /\ get_int 0 255 4602678819172646912 = None.
Proof. vm_compute. repeat split. Qed.

(* T. the leaf functions and the depth constant regenerated from the current source equal the model leafs *)
Theorem src_max_depth : g_json_max_depth = Z.of_nat max_depth.
Proof. exact link_max_depth. Qed.
Print Assumptions src_max_depth.
Theorem src_is_trail : forall b, b < 256 -> g_is_trail (Z.of_N b) = is_trail b.
Proof. exact link_is_trail. Qed.
Print Assumptions src_is_trail.
Theorem src_trail_length : forall b, b < 256 ->
  g_trail_length (Z.of_N b) = (if trail_length b =? 4 then (-1)%Z else Z.of_N (trail_length b)).
Proof. exact link_trail_length. Qed.
Print Assumptions src_trail_length.
Theorem src_width : forall v, g_width (Z.of_N v) = Z.of_N (cp_width v).
Proof. exact link_width. Qed.
Print Assumptions src_width.
Theorem src_valid : forall v, g_valid (Z.of_N v) = cp_valid v.
Proof. exact link_valid. Qed.
Print Assumptions src_valid.
Theorem src_is_first_surrogate : forall x, g_is_first_surrogate (Z.of_N x) = is_first_surrogate x.
Proof. exact link_is_first_surrogate. Qed.
Print Assumptions src_is_first_surrogate.
Theorem src_is_second_surrogate : forall x, g_is_second_surrogate (Z.of_N x) = is_second_surrogate x.
Proof. exact link_is_second_surrogate. Qed.
Print Assumptions src_is_second_surrogate.
Theorem src_combine_surrogate : forall w1 w2, w1 < 65536 -> w2 < 65536 ->
  g_combine_surrogate (Z.of_N w1) (Z.of_N w2) = Z.of_N (combine_surrogate w1 w2).
Proof. exact link_combine_surrogate. Qed.
Print Assumptions src_combine_surrogate.
Theorem src_escape_switch : forall b, b < 256 ->
  zs2ns (g_json_addon (Z.of_N b)) = (if leqb (esc1 b) [b] then [] else esc1 b).
Proof. exact link_esc1. Qed.
Print Assumptions src_escape_switch.
