(* C11: converse of the grammar theorem.  Whatever parse accepts is, as a sequence of tokens, a text of the token grammar TVal
   below (JSON values with the one extension the machine has at this level: a comma may directly precede a closing bracket
   or brace), and the value returned is the value the grammar assigns.  Together with the exact characterisations of the
   lexemes (string_token_exact, number_token_exact, tokenizer_dispatch_by_class) this is "accepts exactly".
   The grammar is written left to right: PArr s items ts = "ts is an opening bracket followed by elements and commas, the
   elements read so far are items (newest first), and what may come next is described by s". *)
From CppcmsV Require Import Base.Tac C11.Defs C11.Proofs1 C11.Proofs2 C11.Proofs3.
Local Open Scope N_scope.

Inductive TVal : list token -> jv -> Prop :=
| TV_scalar t v : vtok_of t = VScalar v -> TVal [t] v
| TV_arr s items ts : PArr s items ts -> TVal (ts ++ [TStruct 93]) (JArr (rev items))
| TV_obj s m k ts : PObj s m k ts -> s = SObjKeyOrClose \/ s = SObjCloseOrComma -> TVal (ts ++ [TStruct 125]) (JObj m)
with PArr : st -> list jv -> list token -> Prop :=
| PA_open : PArr SArrValOrClose [] [TStruct 91]
| PA_val items ts tv v : PArr SArrValOrClose items ts -> TVal tv v -> PArr SArrCloseOrComma (v :: items) (ts ++ tv)
| PA_comma items ts : PArr SArrCloseOrComma items ts -> PArr SArrValOrClose items (ts ++ [TStruct 44])
with PObj : st -> list (list N * jv) -> list N -> list token -> Prop :=
| PO_open k : PObj SObjKeyOrClose [] k [TStruct 123]
| PO_key m k0 ts k : PObj SObjKeyOrClose m k0 ts -> PObj SObjColon m k (ts ++ [TStr k])
| PO_colon m k ts : PObj SObjColon m k ts -> PObj SObjValue m k (ts ++ [TStruct 58])
| PO_val m k ts tv v : PObj SObjValue m k ts -> map_mem k m = false -> TVal tv v ->
    PObj SObjCloseOrComma (map_insert k v m) k (ts ++ tv)
| PO_comma m k ts : PObj SObjCloseOrComma m k ts -> PObj SObjKeyOrClose m k (ts ++ [TStruct 44]).

(* the open containers that wait for the value being read, outermost last; t0 = all tokens consumed before that value *)
Fixpoint await (K : list frame) (t0 : list token) : Prop :=
  match K with
  | [] => t0 = []
  | FArr items :: K' => exists t1 ts, t0 = t1 ++ ts /\ PArr SArrValOrClose items ts /\ await K' t1
  | FObj mm k :: K' => exists t1 ts, t0 = t1 ++ ts /\ PObj SObjValue mm k ts /\ map_mem k mm = false /\ await K' t1
  end.

Definition Inv (m : mstate) (toks : list token) : Prop :=
  let '(s, K, key, res) := m in
  match s with
  | SErr => True
  | SDone => K = [] /\ TVal toks res
  | SVal => K = [] /\ toks = []
  | SArrValOrClose => match K with FArr _ :: _ => await K toks | _ => False end
  | SArrCloseOrComma =>
      match K with
      | FArr items :: K' => exists t0 ts, toks = t0 ++ ts /\ PArr SArrCloseOrComma items ts /\ await K' t0
      | _ => False
      end
  | SObjKeyOrClose =>
      match K with
      | FObj mm _ :: K' => exists t0 ts k, toks = t0 ++ ts /\ PObj SObjKeyOrClose mm k ts /\ await K' t0
      | _ => False
      end
  | SObjColon =>
      match K with
      | FObj mm _ :: K' => exists t0 ts, toks = t0 ++ ts /\ PObj SObjColon mm key ts /\ await K' t0
      | _ => False
      end
  | SObjValue =>
      match K with
      | FObj mm _ :: K' => exists t0 ts, toks = t0 ++ ts /\ PObj SObjValue mm key ts /\ await K' t0
      | _ => False
      end
  | SObjCloseOrComma =>
      match K with
      | FObj mm _ :: K' => exists t0 ts k, toks = t0 ++ ts /\ PObj SObjCloseOrComma mm k ts /\ await K' t0
      | _ => False
      end
  end.

(* a finished value goes to the innermost waiting container *)
Lemma plug_inv v K key res t0 tv : await K t0 -> TVal tv v -> Inv (plug v K key res) (t0 ++ tv).
Proof.
  intros A T. destruct K as [|[items|mm k] K']; cbn [plug Inv].
  - cbn [await] in A. subst. split; [reflexivity|exact T].
  - cbn [await] in A. destruct A as [t1 [ts [E [P A]]]]. subst.
    exists t1, (ts ++ tv). split; [rewrite app_assoc; reflexivity|]. split; [apply PA_val; assumption|exact A].
  - cbn [await] in A. destruct A as [t1 [ts [E [P [M A]]]]]. subst.
    exists t1, (ts ++ tv), k. split; [rewrite app_assoc; reflexivity|]. split; [apply PO_val; assumption|exact A].
Qed.

(* a token in value position *)
Lemma on_value_inv t K key res toks : await K toks -> Inv (on_value t K key res) (toks ++ [t]).
Proof.
  intros A. unfold on_value. destruct (vtok_of t) as [v| | |] eqn:V.
  - apply plug_inv; [exact A|apply TV_scalar; exact V].
  - assert (E : t = TStruct 91).
    { destruct t; cbn [vtok_of] in V; try discriminate. destruct (N.eqb_spec c 91); [subst; reflexivity|]. destruct (c =? 123); discriminate. }
    subst t. cbn [Inv await]. exists toks, [TStruct 91]. split; [reflexivity|]. split; [constructor|exact A].
  - assert (E : t = TStruct 123).
    { destruct t; cbn [vtok_of] in V; try discriminate. destruct (c =? 91); [discriminate|]. destruct (N.eqb_spec c 123); [subst; reflexivity|discriminate]. }
    subst t. cbn [Inv]. exists toks, [TStruct 123], []. split; [reflexivity|]. split; [constructor|exact A].
  - exact I.
Qed.

Lemma is_tstruct_eq t c : is_tstruct t c = true -> t = TStruct c.
Proof. destruct t; cbn [is_tstruct]; try discriminate. intros H. apply N.eqb_eq in H. subst. reflexivity. Qed.

Theorem step_inv t m toks : terminal m = false -> Inv m toks -> Inv (step_tok t m) (toks ++ [t]).
Proof.
  destruct m as [[[s K] key] res]. intros T H. destruct s; cbn [Inv] in H.
  - (* SVal *) destruct H as [HK Ht]. subst. cbn [step_tok]. apply (on_value_inv t [] key res []). reflexivity.
  - (* SObjKeyOrClose *)
    destruct K as [|[items|mm k0] K']; try contradiction. destruct H as [t0 [ts [k [E [P A]]]]]. subst. cbn [step_tok].
    destruct (is_tstruct t 125) eqn:C.
    + apply is_tstruct_eq in C. subst t. rewrite <- app_assoc. apply plug_inv; [exact A|].
      apply (TV_obj SObjKeyOrClose mm k ts P). left. reflexivity.
    + destruct t; try exact I. cbn [Inv]. exists t0, (ts ++ [TStr s]). split; [rewrite app_assoc; reflexivity|].
      split; [apply (PO_key mm k ts s P)|exact A].
  - (* SObjColon *)
    destruct K as [|[items|mm k0] K']; try contradiction. destruct H as [t0 [ts [E [P A]]]]. subst. cbn [step_tok].
    destruct (is_tstruct t 58) eqn:C; [|destruct K'; exact I].
    apply is_tstruct_eq in C. subst t. cbn [Inv]. exists t0, (ts ++ [TStruct 58]). split; [rewrite app_assoc; reflexivity|].
    split; [apply PO_colon; exact P|exact A].
  - (* SObjValue *)
    destruct K as [|[items|mm k0] K']; try contradiction. destruct H as [t0 [ts [E [P A]]]]. subst. cbn [step_tok].
    destruct (map_mem key mm) eqn:M; [exact I|].
    apply on_value_inv. cbn [await]. exists t0, ts. repeat split; assumption.
  - (* SObjCloseOrComma *)
    destruct K as [|[items|mm k0] K']; try contradiction. destruct H as [t0 [ts [k [E [P A]]]]]. subst. cbn [step_tok].
    destruct (is_tstruct t 44) eqn:C1.
    + apply is_tstruct_eq in C1. subst t. cbn [Inv]. exists t0, (ts ++ [TStruct 44]), k. split; [rewrite app_assoc; reflexivity|].
      split; [apply PO_comma; exact P|exact A].
    + destruct (is_tstruct t 125) eqn:C2; [|exact I].
      apply is_tstruct_eq in C2. subst t. rewrite <- app_assoc. apply plug_inv; [exact A|].
      apply (TV_obj SObjCloseOrComma mm k ts P). right. reflexivity.
  - (* SArrValOrClose *)
    destruct K as [|[items|mm k0] K']; try contradiction. cbn [step_tok].
    destruct (is_tstruct t 93) eqn:C.
    + apply is_tstruct_eq in C. subst t. cbn [await] in H. destruct H as [t1 [ts [E [P A]]]]. subst.
      rewrite <- app_assoc. apply plug_inv; [exact A|]. apply (TV_arr SArrValOrClose items ts P).
    + apply on_value_inv. exact H.
  - (* SArrCloseOrComma *)
    destruct K as [|[items|mm k0] K']; try contradiction. destruct H as [t0 [ts [E [P A]]]]. subst. cbn [step_tok].
    destruct (is_tstruct t 93) eqn:C1.
    + apply is_tstruct_eq in C1. subst t. rewrite <- app_assoc. apply plug_inv; [exact A|]. apply (TV_arr SArrCloseOrComma items ts P).
    + destruct (is_tstruct t 44) eqn:C2; [|exact I].
      apply is_tstruct_eq in C2. subst t. cbn [Inv await]. exists t0, (ts ++ [TStruct 44]). split; [rewrite app_assoc; reflexivity|].
      split; [apply PA_comma; exact P|exact A].
  - (* SErr *) discriminate T.
  - (* SDone *) discriminate T.
Qed.

(* every token of a text of the grammar is a structural character, a string, a number or a keyword *)
Definition good_token (t : token) : Prop := match t with TErr | TEof => False | _ => True end.
Scheme TVal_m := Induction for TVal Sort Prop
with PArr_m := Induction for PArr Sort Prop
with PObj_m := Induction for PObj Sort Prop.
Combined Scheme TVal_PArr_PObj_ind from TVal_m, PArr_m, PObj_m.

Lemma grammar_tokens_good :
  (forall ts v, TVal ts v -> Forall good_token ts) /\
  (forall s items ts, PArr s items ts -> Forall good_token ts) /\
  (forall s m k ts, PObj s m k ts -> Forall good_token ts).
Proof.
  apply TVal_PArr_PObj_ind; intros; repeat (apply Forall_app; split); try assumption; try (repeat constructor; fail).
  constructor; [|constructor]. destruct t; cbn [vtok_of] in e; try discriminate; exact I.
Qed.

Section S.
Variable to_double : list N -> option N.
Notation next := (next to_double).
Notation run := (run to_double).
Notation parse := (parse to_double).

(* the tokens the tokenizer delivers from s until s' is left *)
Inductive lexes : list N -> list token -> list N -> Prop :=
| L0 s : lexes s [] s
| LS s t r n toks s' : next false s = (t, r, n) -> lexes r toks s' -> lexes s (t :: toks) s'.

Lemma run_inv : forall fuel s line m s' line' m' pre, run fuel s line m = Some (s', line', m') -> Inv m pre ->
  exists toks, lexes s toks s' /\ Inv m' (pre ++ toks).
Proof.
  induction fuel as [|fuel IH]; intros s line m s' line' m' pre H HI; cbn [Defs.run] in H; destruct (terminal m) eqn:T.
  - inversion H; subst. exists []. split; [constructor|rewrite app_nil_r; exact HI].
  - discriminate.
  - inversion H; subst. exists []. split; [constructor|rewrite app_nil_r; exact HI].
  - destruct (next false s) as [[t r] n] eqn:E.
    apply (IH _ _ _ _ _ _ (pre ++ [t])) in H; [|apply step_inv; assumption].
    destruct H as [toks [L HI']]. exists (t :: toks). split; [econstructor; eassumption|].
    rewrite <- app_assoc in HI'. exact HI'.
Qed.

(* soundness: an accepted input is, token by token, a text of the grammar, and the result is the value it denotes *)
Theorem parse_accepts_only_grammar full s v rest : parse full s = POk v rest ->
  exists toks s', lexes s toks s' /\ TVal toks v /\ Forall good_token toks /\
    (if full then exists n, next false s' = (TEof, rest, n) else rest = s').
Proof.
  unfold Defs.parse. destruct (run (S (length s)) s 1 init_state) as [[[r line] m]|] eqn:R; [|discriminate].
  apply (run_inv _ _ _ _ _ _ _ []) in R; [|split; reflexivity].
  destruct R as [toks [L HI]]. cbn [app] in HI.
  destruct m as [[[s0 K] key] res]. cbn [m_st m_res]. destruct s0; try discriminate.
  cbn [Inv] in HI. destruct HI as [_ HT].
  pose proof (proj1 grammar_tokens_good toks res HT) as G.
  destruct full.
  - destruct (next false r) as [[t r'] n] eqn:E. destruct t; try discriminate. intros H. inversion H; subst.
    exists toks, r. repeat split; try assumption. exists n. exact E.
  - intros H. inversion H; subst. exists toks, rest. repeat split; assumption.
Qed.
End S.

(* [null,] is a text of the token grammar (through PA_comma), [,] is not accepted *)
Example token_grammar_nonvacuous :
  TVal [TStruct 91; TNull; TStruct 44; TStruct 93] (JArr [JNull]) /\
  TVal [TStruct 123; TStr [97]; TStruct 58; TStruct 91; TStruct 93; TStruct 125] (JObj [([97], JArr [])]).
Proof.
  split.
  - apply (TV_arr SArrValOrClose [JNull] [TStruct 91; TNull; TStruct 44]).
    apply (PA_comma [JNull] [TStruct 91; TNull]). apply (PA_val [] [TStruct 91] [TNull] JNull); [constructor|].
    apply TV_scalar. reflexivity.
  - apply (TV_obj SObjCloseOrComma [([97], JArr [])] [97] [TStruct 123; TStr [97]; TStruct 58; TStruct 91; TStruct 93]); [|right; reflexivity].
    apply (PO_val [] [97] [TStruct 123; TStr [97]; TStruct 58] [TStruct 91; TStruct 93] (JArr [])); [|reflexivity|].
    + apply (PO_colon [] [97] [TStruct 123; TStr [97]]). apply (PO_key [] [] [TStruct 123] [97]). constructor.
    + apply (TV_arr SArrValOrClose [] [TStruct 91]). constructor.
Qed.
