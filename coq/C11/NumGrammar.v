(* C11, numbers: the exact language of number lexemes the tokenizer accepts, against RFC 8259.
   rfc_num   L : L is a number of RFC 8259 section 6:  -? int frac? exp?
   len_num   L : -? ( DIGIT+ ( . DIGIT* )? | . DIGIT+ ) ( [eE] [+-]? DIGIT+ )?     (what the code accepts)
   strtod_dec x: [+-]? ( DIGIT+ ( . DIGIT* )? | . DIGIT+ ) ( [eE] [+-]? DIGIT+ )?  (decimal subject sequence of strtod)
   All three are written with the same span-based matcher, so that the difference is visible in the
   definition: strict = no leading zero before another digit, at least one digit on each side of the point. *)
From CppcmsV Require Import Base.Tac C11.Defs C11.Proofs1 C11.Proofs3 C11.Proofs4 C11.Proofs5.
Local Open Scope N_scope.

Fixpoint span (s : list N) : list N * list N :=
  match s with
  | c :: r => if is_digit c then let (d, t) := span r in (c :: d, t) else ([], s)
  | [] => ([], [])
  end.
Definition nonnil {A} (l : list A) : bool := match l with [] => false | _ => true end.
Definition isnil {A} (l : list A) : bool := match l with [] => true | _ => false end.
Definition is_e (c : N) : bool := (c =? 101) || (c =? 69).
Definition is_sign (c : N) : bool := (c =? 43) || (c =? 45).

(* nothing, or  e [+-]? DIGIT+  and then the end *)
Definition exp_tail (r : list N) : bool :=
  match r with
  | [] => true
  | c :: r1 =>
      is_e c &&
      (let r2 := match r1 with c2 :: r2 => if is_sign c2 then r2 else r1 | [] => [] end in
       let (eds, r3) := span r2 in nonnil eds && isnil r3)
  end.
(* int = zero / digit1-9 *DIGIT *)
Definition int_form (ds : list N) : bool :=
  match ds with
  | [] => false
  | [d] => true
  | d :: _ :: _ => negb (d =? 48)
  end.
Definition mant_tail (strict : bool) (L : list N) : bool :=
  let (ds, r) := span L in
  match r with
  | c :: r1 =>
      if c =? 46 then
        let (fds, r2) := span r1 in
        (if strict then int_form ds && nonnil fds else nonnil ds || nonnil fds) && exp_tail r2
      else (if strict then int_form ds else nonnil ds) && exp_tail r
  | [] => (if strict then int_form ds else nonnil ds)
  end.
Definition strip_minus (L : list N) : list N := match L with c :: r => if c =? 45 then r else L | [] => [] end.
Definition strip_sign (L : list N) : list N := match L with c :: r => if is_sign c then r else L | [] => [] end.

Definition rfc_num (L : list N) : bool := mant_tail true (strip_minus L).
Definition len_num (L : list N) : bool := mant_tail false (strip_minus L).
Definition strtod_dec (x : list N) : bool := mant_tail false (strip_sign x).

(* the three ways in which an accepted lexeme can fail to be an RFC number *)
Definition leading_zero (L : list N) : bool :=
  match fst (span (strip_minus L)) with d :: _ :: _ => d =? 48 | _ => false end.
Definition empty_int (L : list N) : bool := isnil (fst (span (strip_minus L))).
Definition empty_frac (L : list N) : bool :=
  match snd (span (strip_minus L)) with
  | c :: r1 => (c =? 46) && isnil (fst (span r1))
  | [] => false
  end.

(* ------------------------------------------------------------------------------------------ *)
(* span                                                                                         *)
(* ------------------------------------------------------------------------------------------ *)
Definition nd (r : list N) : Prop := match r with c :: _ => is_digit c = false | [] => True end.

Lemma span_spec s : forall ds r, span s = (ds, r) -> s = ds ++ r /\ digits ds /\ nd r.
Proof.
  induction s as [|c s IH]; intros ds r H; cbn [span] in H.
  - inversion H; subst. repeat split; constructor.
  - destruct (is_digit c) eqn:Ec.
    + destruct (span s) as [d t] eqn:Es. inversion H; subst. destruct (IH d r eq_refl) as [A [B C]].
      repeat split; [cbn [app]; f_equal; exact A|constructor; assumption|exact C].
    + inversion H; subst. repeat split; [constructor|exact Ec].
Qed.
Lemma span_app ds r : digits ds -> nd r -> span (ds ++ r) = (ds, r).
Proof.
  induction 1 as [|d ds Hd _ IH]; intros Hr.
  - cbn [app]. destruct r as [|c r]; [reflexivity|]. cbn [span nd] in *. rewrite Hr. reflexivity.
  - cbn [app span]. rewrite Hd, (IH Hr). reflexivity.
Qed.
Lemma span_digits ds : digits ds -> span ds = (ds, []).
Proof. intros H. rewrite <- (app_nil_r ds) at 1. apply span_app; [exact H|exact I]. Qed.
Lemma nd_e c r : is_e c = true -> nd (c :: r).
Proof. unfold is_e, nd. intros H. apply orb_true_iff in H. destruct H as [H|H]; apply N.eqb_eq in H; subst; reflexivity. Qed.
Lemma nd_46 r : nd (46 :: r).
Proof. reflexivity. Qed.

(* ------------------------------------------------------------------------------------------ *)
(* the scanner in span form                                                                     *)
(* ------------------------------------------------------------------------------------------ *)
Lemma scan_main_fs fm fd s : scan_main fm fd true s = span s.
Proof.
  revert fm. induction s as [|c s IH]; intros fm; [reflexivity|].
  cbn [scan_main span]. destruct (is_digit c) eqn:Ec.
  - rewrite IH. reflexivity.
  - cbn [negb]. rewrite !andb_false_r. cbn [andb]. reflexivity.
Qed.

Lemma scan_main_pre ds r fm fd fs : digits ds ->
  scan_main fm fd fs (ds ++ r) =
  (ds ++ fst (scan_main (fm || nonnil ds) fd fs r), snd (scan_main (fm || nonnil ds) fd fs r)).
Proof.
  intros H. rewrite (scan_main_digits ds H). destruct ds as [|d ds'].
  - cbn [nonnil app]. rewrite orb_false_r. destruct (scan_main fm fd fs r); reflexivity.
  - cbn [nonnil]. rewrite orb_true_r. reflexivity.
Qed.

(* no mantissa digit so far: neither an exponent nor (after a point) anything else is taken *)
Lemma no_mant fd r : nd r -> (fd = true \/ match r with c :: _ => c <> 46 | [] => True end) ->
  scan_main false fd false r = ([], r).
Proof.
  destruct r as [|c r]; [reflexivity|]. cbn [nd scan_main]. intros Hd Hp. rewrite Hd.
  rewrite andb_false_r.
  destruct Hp as [Hp|Hp].
  - subst fd. cbn [negb andb]. rewrite andb_false_r. reflexivity.
  - apply N.eqb_neq in Hp. rewrite Hp. reflexivity.
Qed.

(* a mantissa digit was seen: what follows the mantissa *)
Lemma exp_phase fd r : nd r -> (fd = true \/ match r with c :: _ => c <> 46 | [] => True end) ->
  exists x t, scan_main true fd false r = (x, t) /\ (x = [] \/ exists y, x = 101 :: y) /\
              exp_tail x && isnil t = exp_tail r.
Proof.
  destruct r as [|c r]; intros Hd Hp.
  - exists [], []. repeat split. left. reflexivity.
  - cbn [nd] in Hd. cbn [scan_main]. rewrite Hd.
    assert (P : (c =? 46) && negb fd && negb false = false).
    { destruct Hp as [Hp|Hp]; [subst fd; rewrite andb_false_r; reflexivity|].
      apply N.eqb_neq in Hp. rewrite Hp. reflexivity. }
    rewrite P. clear P. cbn [negb]. rewrite !andb_true_r. fold (is_e c).
    destruct (is_e c) eqn:Ee.
    + destruct r as [|c2 r2].
      * exists [101], []. repeat split; [right; exists []; reflexivity|].
        cbn [exp_tail isnil]. rewrite Ee. reflexivity.
      * fold (is_sign c2). destruct (is_sign c2) eqn:Es.
        -- rewrite scan_main_fs. destruct (span r2) as [eds t] eqn:Er.
           exists (101 :: c2 :: eds), t. repeat split; [right; eexists; reflexivity|].
           destruct (span_spec _ _ _ Er) as [_ [De _]].
           cbn [exp_tail]. rewrite Es, Ee, Er. change (is_e 101) with true. rewrite (span_digits eds De).
           cbn [andb isnil]. rewrite andb_true_r. reflexivity.
        -- rewrite scan_main_fs. destruct (span (c2 :: r2)) as [eds t] eqn:Er.
           exists (101 :: eds), t. repeat split; [right; eexists; reflexivity|].
           destruct (span_spec _ _ _ Er) as [_ [De _]].
           cbn [exp_tail]. rewrite Es, Ee, Er. change (is_e 101) with true. cbn [andb].
           destruct eds as [|d eds'].
           ++ reflexivity.
           ++ inversion De as [|? ? Dd De']; subst.
              assert (Sd : is_sign d = false).
              { apply digit_facts in Dd. unfold is_sign. destruct (N.eqb_spec d 43); [lia|]. destruct (N.eqb_spec d 45); [lia|]. reflexivity. }
              rewrite Sd. rewrite (span_digits (d :: eds') De). cbn [nonnil isnil andb]. reflexivity.
    + exists [], (c :: r). repeat split; [left; reflexivity|].
      cbn [exp_tail isnil]. rewrite Ee. reflexivity.
Qed.

Lemma exp_tail_nohead c r : is_e c = false -> exp_tail (c :: r) = false.
Proof. intros H. cbn [exp_tail]. rewrite H. reflexivity. Qed.

(* mant_tail of a normalised text *)
Lemma mant_tail_nopoint P x : digits P -> (x = [] \/ exists y, x = 101 :: y) ->
  mant_tail false (P ++ x) = nonnil P && exp_tail x.
Proof.
  intros HP Hx. unfold mant_tail.
  assert (N : nd x) by (destruct Hx as [Hx|[y Hx]]; subst; [exact I|reflexivity]).
  rewrite (span_app P x HP N). destruct Hx as [Hx|[y Hx]]; subst.
  - cbn [exp_tail]. rewrite andb_true_r. reflexivity.
  - change (101 =? 46) with false. cbv iota. reflexivity.
Qed.
Lemma mant_tail_point P F x : digits P -> digits F -> (x = [] \/ exists y, x = 101 :: y) ->
  mant_tail false (P ++ 46 :: F ++ x) = (nonnil P || nonnil F) && exp_tail x.
Proof.
  intros HP HF Hx. unfold mant_tail.
  assert (N : nd x) by (destruct Hx as [Hx|[y Hx]]; subst; [exact I|reflexivity]).
  rewrite (span_app P (46 :: F ++ x) HP (nd_46 _)). change (46 =? 46) with true. cbv iota.
  rewrite (span_app F x HF N). reflexivity.
Qed.

Lemma skip_zeros_spec s : exists zs, s = zs ++ skip_zeros s /\ Forall (fun c => c = 48) zs /\
  match skip_zeros s with c :: _ => c <> 48 | [] => True end.
Proof.
  induction s as [|c s [zs [A [B C]]]].
  - exists []. repeat split. constructor.
  - cbn [skip_zeros]. destruct (N.eqb_spec c 48) as [E|E].
    + exists (c :: zs). repeat split; [cbn [app]; f_equal; exact A|constructor; assumption|exact C].
    + exists []. repeat split; [constructor|exact E].
Qed.
Lemma zeros_digits zs : Forall (fun c => c = 48) zs -> digits zs.
Proof. induction 1; constructor; [subst; reflexivity|assumption]. Qed.

(* core: the unsigned part.  zero / skip_zeros / scan_main as in scan_number *)
Lemma unsigned_exact L1 :
  let zero := match L1 with c :: _ => c =? 48 | [] => false end in
  let x := fst (scan_main zero false false (skip_zeros L1)) in
  let t := snd (scan_main zero false false (skip_zeros L1)) in
  mant_tail false ((if zero then [48] else []) ++ x) && isnil t = mant_tail false L1.
Proof.
  intros zero x t.
  destruct (skip_zeros_spec L1) as [zs [A [Z NZ]]].
  assert (Zd : digits zs) by (apply zeros_digits; exact Z).
  assert (Ez : zero = nonnil zs).
  { subst zero. destruct zs as [|z zs'].
    - cbn [app] in A. rewrite A. cbn [nonnil]. destruct (skip_zeros L1) as [|c r]; [reflexivity|]. apply N.eqb_neq. exact NZ.
    - rewrite A. inversion Z; subst. reflexivity. }
  destruct (span (skip_zeros L1)) as [ds2 r] eqn:Es.
  destruct (span_spec _ _ _ Es) as [B [D2 Nr]].
  assert (SL : span L1 = (zs ++ ds2, r)).
  { rewrite A, B, app_assoc. apply span_app; [|exact Nr]. apply Forall_app. split; assumption. }
  set (pre := if zero then [48] else []).
  assert (Dp : digits (pre ++ ds2)).
  { apply Forall_app. split; [|exact D2]. subst pre. destruct zero; repeat constructor. }
  assert (NP : nonnil (pre ++ ds2) = nonnil (zs ++ ds2)).
  { subst pre. rewrite Ez. destruct zs; reflexivity. }
  assert (FM : zero || nonnil ds2 = nonnil (zs ++ ds2)).
  { rewrite Ez. destruct zs; reflexivity. }
  subst x t. rewrite B. rewrite (scan_main_pre ds2 r zero false false D2). cbn [fst snd]. rewrite FM.
  rewrite app_assoc.
  unfold mant_tail at 2. rewrite SL.
  destruct r as [|c r1].
  - (* end of lexeme after the integer digits *)
    destruct (nonnil (zs ++ ds2)); cbn [scan_main fst snd]; rewrite (mant_tail_nopoint _ [] Dp (or_introl eq_refl));
      rewrite NP; cbn [exp_tail isnil]; rewrite !andb_true_r; reflexivity.
  - destruct (N.eqb_spec c 46) as [E46|N46].
    + (* decimal point *)
      subst c. cbn [scan_main]. change (is_digit 46) with false. cbv iota.
      change ((46 =? 46) && negb false && negb false) with true. cbv iota.
      destruct (span r1) as [fds r2] eqn:Ef. destruct (span_spec _ _ _ Ef) as [C [Df N2]].
      rewrite C. rewrite (scan_main_pre fds r2 _ true false Df).
      set (fm2 := nonnil (zs ++ ds2) || nonnil fds).
      destruct fm2 eqn:Efm.
      * destruct (exp_phase true r2 N2 (or_introl eq_refl)) as [x' [t' [S1 [Hx S2]]]].
        rewrite S1. cbn [fst snd].
        change ((pre ++ ds2) ++ 46 :: fds ++ x') with ((pre ++ ds2) ++ 46 :: fds ++ x').
        rewrite (mant_tail_point _ fds x' Dp Df Hx). rewrite NP. fold fm2. rewrite Efm. cbn [andb]. exact S2.
      * rewrite (no_mant true r2 N2 (or_introl eq_refl)). cbn [fst snd].
        rewrite (mant_tail_point _ fds [] Dp Df (or_introl eq_refl)). rewrite NP. fold fm2. rewrite Efm. reflexivity.
    + (* something else: exponent or garbage *)
      assert (Hp : false = true \/ match c :: r1 with c0 :: _ => c0 <> 46 | [] => True end) by (right; exact N46).
      destruct (nonnil (zs ++ ds2)) eqn:Efm.
      * destruct (exp_phase false (c :: r1) Nr Hp) as [x' [t' [S1 [Hx S2]]]].
        rewrite S1. cbn [fst snd]. rewrite (mant_tail_nopoint _ x' Dp Hx). rewrite NP. cbn [andb]. exact S2.
      * rewrite (no_mant false (c :: r1) Nr Hp). cbn [fst snd].
        rewrite (mant_tail_nopoint _ [] Dp (or_introl eq_refl)). rewrite NP. reflexivity.
Qed.

(* the tokenizer hands a byte string to parse_number only when it starts with a minus or a digit *)
Definition num_start (L : list N) : Prop := match L with c :: _ => c = 45 \/ is_digit c = true | [] => False end.

Theorem lexeme_exact L : num_start L ->
  strtod_dec (fst (scan_number L)) && isnil (snd (scan_number L)) = len_num L.
Proof.
  destruct L as [|c L1]; [intros []|]. cbn [num_start]. intros [Hc|Hc].
  - subst c. unfold scan_number, len_num. change ((45 =? 43) || (45 =? 45)) with true. cbv iota.
    cbn [strip_minus]. change (45 =? 45) with true. cbv iota.
    pose proof (unsigned_exact L1) as U. cbv zeta in U.
    destruct (scan_main _ false false (skip_zeros L1)) as [x t] eqn:Es. cbn [fst snd] in *.
    unfold strtod_dec. cbn [app strip_sign]. change (is_sign 45) with true. cbv iota. exact U.
  - pose proof (digit_facts c Hc) as Dc.
    unfold scan_number, len_num.
    destruct (N.eqb_spec c 43); [lia|]. destruct (N.eqb_spec c 45); [lia|]. cbn [orb].
    cbn [strip_minus]. destruct (N.eqb_spec c 45); [lia|].
    pose proof (unsigned_exact (c :: L1)) as U. cbv zeta in U.
    destruct (scan_main _ false false (skip_zeros (c :: L1))) as [x t] eqn:Es. cbn [fst snd] in *.
    cbn [app]. unfold strtod_dec.
    (* the text starts with a digit, so strip_sign is the identity *)
    assert (Hx : strip_sign ((if c =? 48 then [48] else []) ++ x) = (if c =? 48 then [48] else []) ++ x).
    { destruct (N.eqb_spec c 48) as [E|E]; [reflexivity|].
      cbn [app]. cbn [skip_zeros] in Es. destruct (N.eqb_spec c 48); [contradiction|].
      cbn [scan_main] in Es. rewrite Hc in Es. destruct (scan_main true false false L1) as [x1 t1].
      inversion Es; subst. cbn [strip_sign]. unfold is_sign.
      destruct (N.eqb_spec c 43); [lia|]. destruct (N.eqb_spec c 45); [lia|]. reflexivity. }
    rewrite Hx. exact U.
Qed.

(* ------------------------------------------------------------------------------------------ *)
(* RFC numbers are accepted; the accepted non-RFC lexemes are exactly three classes              *)
(* ------------------------------------------------------------------------------------------ *)
Lemma int_form_nonnil ds : int_form ds = true -> nonnil ds = true.
Proof. destruct ds; [discriminate|reflexivity]. Qed.

Theorem rfc_sub_len L : rfc_num L = true -> len_num L = true.
Proof.
  unfold rfc_num, len_num, mant_tail. destruct (span (strip_minus L)) as [ds r].
  destruct r as [|c r1]; [apply int_form_nonnil|].
  destruct (c =? 46).
  - destruct (span r1) as [fds r2]. intros H. apply andb_true_iff in H. destruct H as [H1 H2].
    apply andb_true_iff in H1. destruct H1 as [H1 _]. rewrite (int_form_nonnil _ H1), H2. reflexivity.
  - intros H. apply andb_true_iff in H. destruct H as [H1 H2]. rewrite (int_form_nonnil _ H1), H2. reflexivity.
Qed.

Theorem len_not_rfc_classes L : len_num L = true -> rfc_num L = false ->
  leading_zero L = true \/ empty_int L = true \/ empty_frac L = true.
Proof.
  unfold rfc_num, len_num, mant_tail, leading_zero, empty_int, empty_frac.
  destruct (span (strip_minus L)) as [ds r]. cbn [fst snd].
  assert (IF : int_form ds = false -> (match ds with d :: _ :: _ => d =? 48 | _ => false end) = true \/ isnil ds = true).
  { destruct ds as [|d [|d2 ds']]; cbn [int_form isnil]; intros H; [right; reflexivity|discriminate|].
    left. destruct (d =? 48); [reflexivity|discriminate]. }
  destruct r as [|c r1].
  - intros _ H. destruct (IF H) as [K|K]; [left; exact K|right; left; exact K].
  - destruct (c =? 46).
    + destruct (span r1) as [fds r2]. cbn [fst andb]. intros H1 H2.
      apply andb_true_iff in H1. destruct H1 as [_ He]. rewrite He, andb_true_r in H2.
      apply andb_false_iff in H2. destruct H2 as [H2|H2].
      * destruct (IF H2) as [K|K]; [left; exact K|right; left; exact K].
      * right. right. destruct fds; [reflexivity|discriminate].
    + intros H1 H2. apply andb_true_iff in H1. destruct H1 as [_ He]. rewrite He, andb_true_r in H2.
      destruct (IF H2) as [K|K]; [left; exact K|right; left; exact K].
Qed.

(* conversely each class is outside the RFC grammar *)
Theorem classes_not_rfc L : leading_zero L = true \/ empty_int L = true \/ empty_frac L = true -> rfc_num L = false.
Proof.
  unfold rfc_num, mant_tail, leading_zero, empty_int, empty_frac.
  destruct (span (strip_minus L)) as [ds r]. cbn [fst snd]. intros [H|[H|H]].
  - assert (I0 : int_form ds = false).
    { destruct ds as [|d [|d2 ds']]; try discriminate. cbn [int_form]. rewrite H. reflexivity. }
    rewrite I0. destruct r as [|c r1]; [reflexivity|]. destruct (c =? 46); [destruct (span r1)|]; reflexivity.
  - destruct ds; [|discriminate]. cbn [int_form]. destruct r as [|c r1]; [reflexivity|]. destruct (c =? 46); [destruct (span r1)|]; reflexivity.
  - destruct r as [|c r1]; [discriminate|]. apply andb_true_iff in H. destruct H as [H1 H2]. rewrite H1.
    destruct (span r1) as [fds r2]. cbn [fst] in H2. destruct fds; [|discriminate]. cbn [nonnil]. rewrite andb_false_r. reflexivity.
Qed.

(* the boolean RFC recognizer and the (int, frac, exp) presentation used by the document grammar Val agree *)
Lemma span_int i r : int_ok i -> nd r -> span (i ++ r) = (i, r) /\ int_form i = true.
Proof.
  intros [Hi|[d [ds [Hi [Hd [Hnz Hds]]]]]] Hr; subst i.
  - split; [apply span_app; [repeat constructor|exact Hr]|reflexivity].
  - split; [apply span_app; [constructor; assumption|exact Hr]|].
    destruct ds; [reflexivity|]. cbn [int_form]. apply N.eqb_neq in Hnz. rewrite Hnz. reflexivity.
Qed.
Lemma exp_tail_text e : exp_ok e -> exp_tail (exp_text e) = true /\ nd (exp_text e) /\
  match exp_text e with c :: _ => c <> 46 | [] => True end.
Proof.
  destruct e as [[[ec sg] ds]|]; cbn [exp_ok exp_text]; [|intros _; repeat split].
  intros [Hec [Hsg [Hds Hne]]].
  assert (Ee : is_e ec = true) by (destruct Hec; subst; reflexivity).
  split; [|split; [apply nd_e; exact Ee|destruct Hec; subst; lia]].
  cbn [exp_tail]. rewrite Ee. cbn [andb].
  destruct Hsg as [Hsg|[Hsg|Hsg]]; subst sg; cbn [app].
  - destruct ds as [|d ds']; [contradiction|]. inversion Hds as [|? ? Dd _]; subst.
    assert (Sd : is_sign d = false).
    { apply digit_facts in Dd. unfold is_sign. destruct (N.eqb_spec d 43); [lia|]. destruct (N.eqb_spec d 45); [lia|]. reflexivity. }
    rewrite Sd, (span_digits _ Hds). reflexivity.
  - change (is_sign 43) with true. cbv iota. rewrite (span_digits _ Hds). destruct ds; [contradiction|reflexivity].
  - change (is_sign 45) with true. cbv iota. rewrite (span_digits _ Hds). destruct ds; [contradiction|reflexivity].
Qed.

Theorem rfc_num_text neg i f e : int_ok i -> frac_ok f -> exp_ok e -> rfc_num (num_text neg i f e) = true.
Proof.
  intros Hi Hf He. destruct (exp_tail_text e He) as [E1 [E2 E3]].
  assert (SM : strip_minus (num_text neg i f e) = i ++ f ++ exp_text e).
  { unfold num_text. destruct neg; cbn [app strip_minus]; [reflexivity|].
    destruct Hi as [Hi|[d [ds [Hi [Hd _]]]]]; subst i; cbn [app strip_minus]; [reflexivity|].
    apply digit_facts in Hd. destruct (N.eqb_spec d 45); [lia|reflexivity]. }
  unfold rfc_num. rewrite SM. unfold mant_tail.
  destruct Hf as [Hf|[d [ds [Hf Hd]]]]; subst f.
  - cbn [app]. destruct (span_int i (exp_text e) Hi E2) as [S1 S2]. rewrite S1, S2.
    destruct (exp_text e) as [|c r] eqn:Ex; [reflexivity|].
    apply N.eqb_neq in E3. rewrite E3. exact E1.
  - change ((46 :: d :: ds) ++ exp_text e) with (46 :: (d :: ds) ++ exp_text e).
    destruct (span_int i (46 :: (d :: ds) ++ exp_text e) Hi (nd_46 _)) as [S1 S2]. rewrite S1, S2.
    change (46 =? 46) with true. cbv iota. rewrite (span_app (d :: ds) (exp_text e) Hd E2). cbn [nonnil andb]. exact E1.
Qed.

Lemma exp_tail_inv r : exp_tail r = true -> exists e, exp_ok e /\ exp_text e = r.
Proof.
  destruct r as [|c r1]; [exists None; split; [exact I|reflexivity]|].
  cbn [exp_tail]. intros H. apply andb_true_iff in H. destruct H as [He H].
  assert (Hc : c = 101 \/ c = 69).
  { unfold is_e in He. apply orb_true_iff in He. destruct He as [He|He]; apply N.eqb_eq in He; [left|right]; exact He. }
  destruct r1 as [|c2 r2].
  - cbn [span nonnil andb] in H. discriminate.
  - destruct (is_sign c2) eqn:Es.
    + destruct (span r2) as [eds r3] eqn:Er. destruct (span_spec _ _ _ Er) as [A [D _]].
      apply andb_true_iff in H. destruct H as [H1 H2]. destruct r3; [|discriminate]. rewrite app_nil_r in A. subst r2.
      exists (Some (c, [c2], eds)). split; [|reflexivity]. cbn [exp_ok]. repeat split; [exact Hc| |exact D|destruct eds; [discriminate|discriminate]].
      unfold is_sign in Es. apply orb_true_iff in Es. destruct Es as [Es|Es]; apply N.eqb_eq in Es; subst; auto.
    + destruct (span (c2 :: r2)) as [eds r3] eqn:Er. destruct (span_spec _ _ _ Er) as [A [D _]].
      apply andb_true_iff in H. destruct H as [H1 H2]. destruct r3; [|discriminate]. rewrite app_nil_r in A.
      exists (Some (c, [], eds)). split; [|cbn [exp_text app]; rewrite A; reflexivity]. cbn [exp_ok]. repeat split; [exact Hc|auto|exact D|destruct eds; discriminate].
Qed.

Lemma int_form_ok ds : digits ds -> int_form ds = true -> int_ok ds.
Proof.
  intros D H. destruct ds as [|d [|d2 ds']]; [discriminate| |].
  - inversion D; subst. destruct (N.eqb_spec d 48) as [E|E]; [left; subst; reflexivity|].
    right. exists d, []. repeat split; [assumption|exact E|constructor].
  - cbn [int_form] in H. inversion D; subst. right. exists d, (d2 :: ds'). repeat split; [assumption| |assumption].
    intros E. subst d. discriminate.
Qed.

Theorem rfc_num_inv L : rfc_num L = true -> exists neg i f e, int_ok i /\ frac_ok f /\ exp_ok e /\ L = num_text neg i f e.
Proof.
  unfold rfc_num. intros H.
  assert (SM : exists neg : bool, L = (if neg then [45] else []) ++ strip_minus L).
  { destruct L as [|c r]; [exists false; reflexivity|]. cbn [strip_minus]. destruct (N.eqb_spec c 45) as [E|E]; [exists true; subst; reflexivity|exists false; reflexivity]. }
  destruct SM as [neg SM]. revert H. generalize dependent (strip_minus L). intros L1 SM. unfold mant_tail.
  destruct (span L1) as [ds r] eqn:Es. destruct (span_spec _ _ _ Es) as [A [D _]].
  destruct r as [|c r1].
  - intros H. exists neg, ds, [], None. repeat split; [apply int_form_ok; assumption|left; reflexivity|].
    rewrite SM, A. unfold num_text. cbn [exp_text]. reflexivity.
  - destruct (N.eqb_spec c 46) as [E|E].
    + subst c. destruct (span r1) as [fds r2] eqn:Ef. destruct (span_spec _ _ _ Ef) as [B [Df _]].
      intros H. apply andb_true_iff in H. destruct H as [H He]. apply andb_true_iff in H. destruct H as [Hi Hn].
      destruct (exp_tail_inv r2 He) as [e [Oe Te]].
      destruct fds as [|d fds']; [discriminate|].
      exists neg, ds, (46 :: d :: fds'), e. repeat split; [apply int_form_ok; assumption|right; exists d, fds'; split; [reflexivity|exact Df]|exact Oe|].
      rewrite SM, A, B, <- Te. unfold num_text. cbn [app]. reflexivity.
    + intros H. apply andb_true_iff in H. destruct H as [Hi He].
      destruct (exp_tail_inv (c :: r1) He) as [e [Oe Te]].
      exists neg, ds, [], e. repeat split; [apply int_form_ok; assumption|left; reflexivity|exact Oe|].
      rewrite SM, A, <- Te. unfold num_text. reflexivity.
Qed.

(* ------------------------------------------------------------------------------------------ *)
(* token level, under the law of strtod                                                         *)
(* ------------------------------------------------------------------------------------------ *)
Section StrtodLaw.
Variable to_double : list N -> option N.
(* the correctly rounded value of a decimal text is finite (magnitude below 2^1024 - 2^970) *)
Variable rounds_finite : list N -> bool.
(* strtod + __convert_to_v: the conversion succeeds exactly on the texts that are wholly a decimal subject
   sequence and whose value does not round to an infinity (underflow is not an error) *)
Hypothesis strtod_law : forall x, to_double x <> None <-> (strtod_dec x = true /\ rounds_finite x = true).

Theorem number_token_exact L : num_start L ->
  ((exists b, next to_double false L = (TNum b, [], 0)) <->
   (len_num L = true /\ rounds_finite (fst (scan_number L)) = true)).
Proof.
  intros HL. pose proof (lexeme_exact L HL) as LE.
  destruct L as [|c r]; [destruct HL|]. cbn [num_start] in HL.
  rewrite (next_number to_double c r HL).
  destruct (scan_number (c :: r)) as [x t] eqn:Es. cbn [fst snd] in *.
  split.
  - intros [b H]. destruct (to_double x) as [b'|] eqn:Ex; [|discriminate].
    inversion H; subst.
    assert (NN : to_double x <> None) by (rewrite Ex; discriminate).
    apply strtod_law in NN. destruct NN as [S1 S2]. rewrite S1 in LE. cbn [isnil andb] in LE. split; [symmetry; exact LE|exact S2].
  - intros [H1 H2]. rewrite H1 in LE. apply andb_true_iff in LE. destruct LE as [S1 S2].
    destruct t; [|discriminate].
    assert (NN : to_double x <> None) by (apply strtod_law; split; assumption).
    destruct (to_double x) as [b|]; [exists b; reflexivity|contradiction].
Qed.

(* a document that is one accepted lexeme parses to that number; one that is a non-accepted lexeme fails *)
Theorem number_document L b : num_start L -> len_num L = true -> to_double (fst (scan_number L)) = Some b ->
  parse to_double true L = POk (JNum b) [].
Proof.
  intros HL H1 H2. pose proof (lexeme_exact L HL) as LE. rewrite H1 in LE.
  apply andb_true_iff in LE. destruct LE as [_ S2].
  destruct L as [|c r]; [destruct HL|]. cbn [num_start] in HL.
  pose proof (next_number to_double c r HL) as NX.
  destruct (scan_number (c :: r)) as [x t] eqn:Es. cbn [fst snd] in *. destruct t; [|discriminate].
  rewrite H2 in NX.
  unfold parse. change (run to_double (S (length (c :: r))) (c :: r) 1 init_state) with
    (let '(t, r', n) := next to_double false (c :: r) in run to_double (length (c :: r)) r' (1 + n) (step_tok t init_state)).
  rewrite NX. rewrite run_terminal by reflexivity. reflexivity.
Qed.

Theorem number_not_accepted_fails L : num_start L ->
  (len_num L = false \/ rounds_finite (fst (scan_number L)) = false) -> snd (scan_number L) = [] ->
  parse to_double true L = PFail 1.
Proof.
  intros HL H Ht. pose proof (lexeme_exact L HL) as LE.
  destruct L as [|c r]; [destruct HL|]. cbn [num_start] in HL.
  pose proof (next_number to_double c r HL) as NX.
  destruct (scan_number (c :: r)) as [x t] eqn:Es. cbn [fst snd] in *. subst t. cbn [isnil] in LE. rewrite andb_true_r in LE.
  assert (NN : to_double x = None).
  { destruct (to_double x) eqn:Ex; [|reflexivity]. exfalso.
    assert (K : to_double x <> None) by (rewrite Ex; discriminate). apply strtod_law in K. destruct K as [K1 K2].
    destruct H as [H|H]; [rewrite K1 in LE; rewrite H in LE; discriminate|rewrite K2 in H; discriminate]. }
  rewrite NN in NX. apply (Proofs5.err_token_fails to_double (c :: r) r 0). exact NX.
Qed.
End StrtodLaw.

(* the discrepancies, as lexemes: 01, -007, 1., -.5, 1.e5, -0. are accepted without being RFC numbers;
   +1, 1e, 1e+, -, -.e5, 0x10, 1.5.3 are in neither language; .5 is in len_num but never reaches parse_number
   (num_start fails: the tokenizer answers tock_err on the point) *)
Example discrepancy_witnesses :
  map len_num [[48;49]; [45;48;48;55]; [49;46]; [45;46;53]; [49;46;101;53]; [45;48;46]] = [true; true; true; true; true; true] /\
  map rfc_num [[48;49]; [45;48;48;55]; [49;46]; [45;46;53]; [49;46;101;53]; [45;48;46]] = [false; false; false; false; false; false] /\
  map len_num [[43;49]; [49;101]; [49;101;43]; [45]; [45;46;101;53]; [48;120;49;48]; [49;46;53;46;51]]
    = [false; false; false; false; false; false; false] /\
  (forall td, parse td true [46;53] = PFail 1 /\ parse td true [43;49] = PFail 1).
Proof. repeat split; vm_compute; reflexivity. Qed.

Theorem rfc_num_iff L : rfc_num L = true <-> exists neg i f e, int_ok i /\ frac_ok f /\ exp_ok e /\ L = num_text neg i f e.
Proof.
  split; [apply rfc_num_inv|]. intros [neg [i [f [e [Hi [Hf [He HL]]]]]]]. subst L. apply rfc_num_text; assumption.
Qed.
