Require Extraction.
Require Import ExtrOcamlBasic.
From Coq Require Import NArith ZArith List.
From CppcmsV Require Import C11.Defs C11.NumGrammar C11.IntRound C11.ValueApi.
Definition keep_types : (N * Z * nat) := (0%N, 0%Z, 0%nat).
Extraction "c11m.ml" keep_types parse load save write_string map_insert get_int get_float utf8_valid utf8_table
  depth no_undef strings_ok maps_ok
  strtod_dec len_num rfc_num scan_number
  small_int print16_int to_double_int dec_value jv_eqb map_find.
