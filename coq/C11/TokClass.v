(* C11: the dispatch of tockenizer::next and of the escape switch of parse_string as byte classes, and the proof that the
   model's next / scan_string follow exactly these classes (Link.v then proves the classes equal to the tables generated
   from the source). *)
From CppcmsV Require Import Base.Tac C11.Defs C11.Proofs3.
Local Open Scope N_scope.

(* 1 structural, 2 skipped, 3 newline, 4 string, 5 true, 6 null, 7 false, 8 number, 9 comment start, 0 error *)
Definition tok_class (c : N) : N :=
  if is_struct c then 1 else if (c =? 32) || (c =? 9) || (c =? 13) then 2 else if c =? 10 then 3 else if c =? 34 then 4
  else if c =? 116 then 5 else if c =? 110 then 6 else if c =? 102 then 7 else if (c =? 45) || is_digit c then 8
  else if c =? 47 then 9 else 0.
Definition kw_tail (c : N) : list N :=
  if c =? 116 then [114; 117; 101] else if c =? 110 then [117; 108; 108] else if c =? 102 then [97; 108; 115; 101] else [].
Definition kw_token (c : N) : token := if c =? 116 then TTrue else if c =? 110 then TNull else TFalse.

Section T.
Variable to_double : list N -> option N.
Notation next := (next to_double).

(* what next does on a non-empty input outside a comment, by the class of the first byte *)
Definition next_spec (c : N) (r : list N) : token * list N * N :=
  match tok_class c with
  | 1 => (TStruct c, r, 0)
  | 2 => next false r
  | 3 => let '(t, r', n) := next false r in (t, r', n + 1)
  | 4 => match scan_string None r with
         | Some (str, r') => if utf8_valid str then (TStr str, r', 0) else (TErr, r, 0)
         | None => (TErr, r, 0)
         end
  | 5 | 6 | 7 => match check_kw (kw_tail c) r with Some r' => (kw_token c, r', 0) | None => (TErr, r, 0) end
  | 8 => let (x, r') := scan_number (c :: r) in
         match to_double x with Some b => (TNum b, r', 0) | None => (TErr, r, 0) end
  | 9 => match r with
         | c2 :: r2 => if c2 =? 47 then next true r2 else (TErr, r, 0)
         | [] => (TErr, r, 0)
         end
  | _ => (TErr, r, 0)
  end.

Theorem next_by_class c r : next false (c :: r) = next_spec c r.
Proof.
  unfold next_spec, tok_class, kw_tail, kw_token. cbn [Defs.next].
  destruct (is_struct c); [reflexivity|].
  destruct ((c =? 32) || (c =? 9) || (c =? 13)); [reflexivity|].
  destruct (c =? 10); [reflexivity|].
  destruct (c =? 34); [reflexivity|].
  destruct (N.eqb_spec c 116) as [E|E]; [subst; reflexivity|].
  destruct (N.eqb_spec c 110) as [E1|E1]; [subst; reflexivity|].
  destruct (N.eqb_spec c 102) as [E2|E2]; [subst; reflexivity|].
  destruct ((c =? 45) || is_digit c); [reflexivity|].
  destruct (c =? 47); reflexivity.
Qed.
End T.

(* the byte after a backslash (no surrogate pending): Some x = x is appended, None with e = 117 = the \u path *)
Theorem scan_esc_by_class e r : e <> 117 ->
  scan_string None (92 :: e :: r) = match simple_esc e with Some x => consb x (scan_string None r) | None => None end.
Proof.
  intros H. rewrite scan_esc. unfold simple_esc.
  destruct (N.eqb_spec e 34); [subst; reflexivity|]. destruct (N.eqb_spec e 92); [subst; reflexivity|].
  destruct (N.eqb_spec e 47); [subst; reflexivity|]. cbn [orb].
  destruct (e =? 98); [reflexivity|]. destruct (e =? 102); [reflexivity|]. destruct (e =? 110); [reflexivity|].
  destruct (e =? 114); [reflexivity|]. destruct (e =? 116); [reflexivity|].
  destruct (N.eqb_spec e 117); [contradiction|reflexivity].
Qed.
