(* C11 proofs, part 3: completeness for RFC 8259.  An inductive grammar of JSON texts (values with
   arbitrary insignificant whitespace, strings with every escape form and paired surrogates, the
   full number grammar, arrays, objects with pairwise different keys, nesting budget n) together
   with the value each text denotes; every text of the grammar with n <= max_depth is accepted by
   the parser with exactly that value. *)
From CppcmsV Require Import Base.Tac C11.Defs C11.Proofs1 C11.Proofs2.
Local Open Scope N_scope.

(* ------------------------------------------------------------------------------------------ *)
(* lexical grammar                                                                              *)
(* ------------------------------------------------------------------------------------------ *)
Definition is_ws (c : N) : bool := (c =? 32) || (c =? 9) || (c =? 10) || (c =? 13).
Definition ws (w : list N) : Prop := Forall (fun c => is_ws c = true) w.

Definition digits (l : list N) : Prop := Forall (fun c => is_digit c = true) l.
(* int = zero / ( digit1-9 *DIGIT ) *)
Definition int_ok (i : list N) : Prop :=
  i = [48] \/ exists d ds, i = d :: ds /\ is_digit d = true /\ d <> 48 /\ digits ds.
(* frac = decimal-point 1*DIGIT *)
Definition frac_ok (f : list N) : Prop := f = [] \/ exists d ds, f = 46 :: d :: ds /\ digits (d :: ds).
(* exp = e [ minus / plus ] 1*DIGIT, given as (e-char, sign chars, digits) *)
Definition exp_ok (e : option (N * list N * list N)) : Prop :=
  match e with
  | None => True
  | Some (ec, sg, ds) => (ec = 101 \/ ec = 69) /\ (sg = [] \/ sg = [43] \/ sg = [45]) /\ digits ds /\ ds <> []
  end.
Definition exp_text (e : option (N * list N * list N)) : list N :=
  match e with None => [] | Some (ec, sg, ds) => ec :: sg ++ ds end.
Definition exp_norm (e : option (N * list N * list N)) : list N :=
  match e with None => [] | Some (_, sg, ds) => 101 :: sg ++ ds end.
Definition num_text (neg : bool) (i f : list N) (e : option (N * list N * list N)) : list N :=
  (if neg then [45] else []) ++ i ++ f ++ exp_text e.
(* the text handed to strtod: the lexeme with the exponent letter in lower case *)
Definition num_norm (neg : bool) (i f : list N) (e : option (N * list N * list N)) : list N :=
  (if neg then [45] else []) ++ i ++ f ++ exp_norm e.

(* what may follow a number: end of input or a byte that cannot continue it *)
Definition stops (s : list N) : Prop :=
  match s with [] => True | c :: _ => is_digit c = false /\ c <> 46 /\ c <> 101 /\ c <> 69 end.

Definition simple_esc (e : N) : option N :=
  if e =? 34 then Some 34 else if e =? 92 then Some 92 else if e =? 47 then Some 47
  else if e =? 98 then Some 8 else if e =? 102 then Some 12 else if e =? 110 then Some 10
  else if e =? 114 then Some 13 else if e =? 116 then Some 9 else None.
Definition hex4 (h1 h2 h3 h4 : N) : N := ((hexval h1 * 16 + hexval h2) * 16 + hexval h3) * 16 + hexval h4.
Definition hex4_ok (h1 h2 h3 h4 : N) : bool := is_hex h1 && is_hex h2 && is_hex h3 && is_hex h4.

(* characters between the quotes and the byte string they denote *)
Inductive StrBody : list N -> list N -> Prop :=
| SB_nil : StrBody [] []
| SB_raw c b s : 32 <= c -> c <> 34 -> c <> 92 -> StrBody b s -> StrBody (c :: b) (c :: s)
| SB_esc e x b s : simple_esc e = Some x -> StrBody b s -> StrBody (92 :: e :: b) (x :: s)
| SB_u h1 h2 h3 h4 b s :
    hex4_ok h1 h2 h3 h4 = true -> is_first_surrogate (hex4 h1 h2 h3 h4) = false ->
    StrBody b s -> StrBody (92 :: 117 :: h1 :: h2 :: h3 :: h4 :: b) (utf8_encode (hex4 h1 h2 h3 h4) ++ s)
| SB_pair h1 h2 h3 h4 l1 l2 l3 l4 b s :
    hex4_ok h1 h2 h3 h4 = true -> is_first_surrogate (hex4 h1 h2 h3 h4) = true ->
    hex4_ok l1 l2 l3 l4 = true -> is_second_surrogate (hex4 l1 l2 l3 l4) = true ->
    StrBody b s ->
    StrBody (92 :: 117 :: h1 :: h2 :: h3 :: h4 :: 92 :: 117 :: l1 :: l2 :: l3 :: l4 :: b)
            (utf8_encode (combine_surrogate (hex4 h1 h2 h3 h4) (hex4 l1 l2 l3 l4)) ++ s).

Lemma scan_u_none h1 h2 h3 h4 r :
  scan_string None (92 :: 117 :: h1 :: h2 :: h3 :: h4 :: r) =
  if hex4_ok h1 h2 h3 h4 then
    if is_first_surrogate (hex4 h1 h2 h3 h4) then scan_string (Some (hex4 h1 h2 h3 h4)) r
    else appb (utf8_encode (hex4 h1 h2 h3 h4)) (scan_string None r)
  else None.
Proof. reflexivity. Qed.
Lemma scan_u_some w h1 h2 h3 h4 r :
  scan_string (Some w) (92 :: 117 :: h1 :: h2 :: h3 :: h4 :: r) =
  if hex4_ok h1 h2 h3 h4 then
    if is_second_surrogate (hex4 h1 h2 h3 h4)
    then appb (utf8_encode (combine_surrogate w (hex4 h1 h2 h3 h4))) (scan_string None r)
    else None
  else None.
Proof. reflexivity. Qed.
Lemma scan_esc e r : scan_string None (92 :: e :: r) =
  if (e =? 34) || (e =? 92) || (e =? 47) then consb e (scan_string None r)
  else if e =? 98 then consb 8 (scan_string None r)
  else if e =? 102 then consb 12 (scan_string None r)
  else if e =? 110 then consb 10 (scan_string None r)
  else if e =? 114 then consb 13 (scan_string None r)
  else if e =? 116 then consb 9 (scan_string None r)
  else if e =? 117 then scan_string None (92 :: e :: r)
  else None.
Proof.
  destruct (N.eqb_spec e 117) as [E|E].
  - subst e. reflexivity.
  - cbn [scan_string is_some andb]. change (92 <=? 31) with false. change (92 =? 34) with false.
    change (92 =? 92) with true. cbv iota. apply N.eqb_neq in E. rewrite E. reflexivity.
Qed.

Lemma scan_string_body b s : StrBody b s -> forall r, scan_string None (b ++ 34 :: r) = Some (s, r).
Proof.
  induction 1 as [|c b s H1 H2 H3 _ IH|e x b s He _ IH|h1 h2 h3 h4 b s Hh Hf _ IH
                  |h1 h2 h3 h4 l1 l2 l3 l4 b s Hh Hf Hl Hs _ IH]; intros r.
  - reflexivity.
  - cbn [app scan_string is_some andb].
    destruct (N.leb_spec c 31); [lia|]. destruct (N.eqb_spec c 34); [contradiction|].
    destruct (N.eqb_spec c 92); [contradiction|]. rewrite IH. reflexivity.
  - cbn [app]. rewrite scan_esc. unfold simple_esc in He.
    destruct (N.eqb_spec e 34). { inversion He; subst. cbn [orb]. rewrite IH. reflexivity. }
    destruct (N.eqb_spec e 92). { inversion He; subst. cbn [orb]. rewrite IH. reflexivity. }
    destruct (N.eqb_spec e 47). { inversion He; subst. cbn [orb]. rewrite IH. reflexivity. }
    cbn [orb].
    destruct (N.eqb_spec e 98). { inversion He; subst. rewrite IH. reflexivity. }
    destruct (N.eqb_spec e 102). { inversion He; subst. rewrite IH. reflexivity. }
    destruct (N.eqb_spec e 110). { inversion He; subst. rewrite IH. reflexivity. }
    destruct (N.eqb_spec e 114). { inversion He; subst. rewrite IH. reflexivity. }
    destruct (N.eqb_spec e 116). { inversion He; subst. rewrite IH. reflexivity. }
    discriminate.
  - cbn [app]. rewrite scan_u_none, Hh, Hf, IH. reflexivity.
  - cbn [app]. rewrite scan_u_none, Hh, Hf, scan_u_some, Hl, Hs, IH. reflexivity.
Qed.

(* ------------------------------------------------------------------------------------------ *)
(* numbers                                                                                      *)
(* ------------------------------------------------------------------------------------------ *)
Lemma scan_main_digits ds : digits ds -> forall fm fd fs s,
  scan_main fm fd fs (ds ++ s) =
  match ds with
  | [] => scan_main fm fd fs s
  | _ => (ds ++ fst (scan_main true fd fs s), snd (scan_main true fd fs s))
  end.
Proof.
  induction 1 as [|d ds Hd _ IH]; intros fm fd fs s; [reflexivity|].
  cbn [app scan_main]. rewrite Hd. rewrite (IH true fd fs s).
  destruct ds as [|d' ds'].
  - cbn [app]. destruct (scan_main true fd fs s) as [x t]. reflexivity.
  - reflexivity.
Qed.

Lemma scan_main_stop fm fd fs s : stops s -> scan_main fm fd fs s = ([], s).
Proof.
  destruct s as [|c r]; [reflexivity|]. cbn [stops scan_main]. intros [H1 [H2 [H3 H4]]]. rewrite H1.
  destruct (N.eqb_spec c 46); [contradiction|]. destruct (N.eqb_spec c 101); [contradiction|].
  destruct (N.eqb_spec c 69); [contradiction|]. reflexivity.
Qed.

Lemma digit_facts c : is_digit c = true -> 48 <= c <= 57.
Proof. unfold is_digit. intros H. apply andb_true_iff in H. destruct H as [H1 H2]. apply N.leb_le in H1. apply N.leb_le in H2. lia. Qed.

Lemma scan_exp e fd rest : exp_ok e -> stops rest ->
  scan_main true fd false (exp_text e ++ rest) = (exp_norm e, rest).
Proof.
  intros He Hr. destruct e as [[[ec sg] ds]|]; cbn [exp_text exp_norm exp_ok] in *.
  - destruct He as [Hec [Hsg [Hds Hne]]].
    assert (D : scan_main true fd true (ds ++ rest) = (ds ++ [], rest)).
    { rewrite (scan_main_digits ds Hds). destruct ds; [contradiction|].
      rewrite (scan_main_stop true fd true rest Hr). reflexivity. }
    rewrite app_nil_r in D.
    cbn [app scan_main].
    assert (E1 : is_digit ec = false) by (destruct Hec; subst; reflexivity).
    assert (E2 : (ec =? 46) = false) by (destruct Hec; subst; reflexivity).
    assert (E3 : (ec =? 101) || (ec =? 69) = true) by (destruct Hec; subst; reflexivity).
    rewrite E1, E2, E3. cbn [andb negb].
    destruct Hsg as [Hsg|[Hsg|Hsg]]; subst sg; cbn [app].
    + destruct ds as [|d ds']; [contradiction|]. cbn [app] in *.
      inversion Hds as [|? ? Hd Hds']; subst. apply digit_facts in Hd.
      destruct (N.eqb_spec d 43); [lia|]. destruct (N.eqb_spec d 45); [lia|]. cbn [orb].
      rewrite D. reflexivity.
    + change ((43 =? 43) || (43 =? 45)) with true. cbv iota. rewrite D. reflexivity.
    + change ((45 =? 43) || (45 =? 45)) with true. cbv iota. rewrite D. reflexivity.
  - cbn [app]. apply scan_main_stop. exact Hr.
Qed.

Lemma scan_main_point r : scan_main true false false (46 :: r) =
  (let (x, t) := scan_main true true false r in (46 :: x, t)).
Proof. reflexivity. Qed.

Lemma scan_frac_exp f e rest : frac_ok f -> exp_ok e -> stops rest ->
  scan_main true false false (f ++ exp_text e ++ rest) = (f ++ exp_norm e, rest).
Proof.
  intros Hf He Hr. destruct Hf as [Hf|[d [ds [Hf Hd]]]]; subst f.
  - cbn [app]. apply scan_exp; assumption.
  - change ((46 :: d :: ds) ++ exp_text e ++ rest) with (46 :: (d :: ds) ++ exp_text e ++ rest).
    rewrite scan_main_point.
    rewrite (scan_main_digits (d :: ds) Hd). rewrite scan_exp by assumption. reflexivity.
Qed.

Lemma skip_zeros_id s : match s with c :: _ => c <> 48 | [] => True end -> skip_zeros s = s.
Proof. destruct s as [|c r]; [reflexivity|]. intros H. cbn [skip_zeros]. destruct (N.eqb_spec c 48); [contradiction|reflexivity]. Qed.

(* head of  f ++ exp_text e ++ rest  is not a zero digit *)
Lemma tail_not_zero f e rest : frac_ok f -> exp_ok e -> stops rest ->
  match f ++ exp_text e ++ rest with c :: _ => c <> 48 | [] => True end.
Proof.
  intros Hf He Hr. destruct Hf as [Hf|[d [ds [Hf _]]]]; subst f; cbn [app]; [|lia].
  destruct e as [[[ec sg] ds]|]; cbn [exp_text app exp_ok] in *.
  - destruct He as [[H|H] _]; subst; lia.
  - destruct rest as [|c r]; [exact I|]. cbn [stops] in Hr. destruct Hr as [H _].
    intros E. subst c. discriminate.
Qed.

Lemma scan_number_ok neg i f e rest : int_ok i -> frac_ok f -> exp_ok e -> stops rest ->
  scan_number (num_text neg i f e ++ rest) = (num_norm neg i f e, rest).
Proof.
  intros Hi Hf He Hr.
  assert (POS : scan_number (i ++ f ++ exp_text e ++ rest) = (i ++ f ++ exp_norm e, rest) /\
                (forall sgn, scan_number (sgn :: i ++ f ++ exp_text e ++ rest) =
                   (if (sgn =? 43) || (sgn =? 45) then (sgn :: i ++ f ++ exp_norm e, rest)
                    else scan_number (sgn :: i ++ f ++ exp_text e ++ rest)))).
  { pose proof (tail_not_zero f e rest Hf He Hr) as TZ.
    pose proof (scan_frac_exp f e rest Hf He Hr) as FE.
    destruct Hi as [Hi|[d [ds [Hi [Hd [Hnz Hds]]]]]]; subst i.
    - split.
      + unfold scan_number. cbn [app]. change ((48 =? 43) || (48 =? 45)) with false. cbv iota.
        change (48 =? 48) with true. cbn [skip_zeros]. change (48 =? 48) with true. cbv iota.
        rewrite (skip_zeros_id _ TZ). rewrite FE. reflexivity.
      + intros sgn. destruct ((sgn =? 43) || (sgn =? 45)) eqn:Es; [|reflexivity].
        unfold scan_number. rewrite Es. cbn [app]. change (48 =? 48) with true. cbn [skip_zeros].
        change (48 =? 48) with true. cbv iota.
        rewrite (skip_zeros_id _ TZ). rewrite FE. reflexivity.
    - pose proof (digit_facts d Hd) as Dd.
      assert (M : scan_main false false false ((d :: ds) ++ f ++ exp_text e ++ rest) = ((d :: ds) ++ f ++ exp_norm e, rest)).
      { rewrite (scan_main_digits (d :: ds)) by (constructor; assumption). rewrite FE. cbn [fst snd]. reflexivity. }
      split.
      + unfold scan_number. cbn [app].
        destruct (N.eqb_spec d 43); [lia|]. destruct (N.eqb_spec d 45); [lia|]. cbn [orb].
        destruct (N.eqb_spec d 48); [contradiction|]. cbn [skip_zeros].
        destruct (N.eqb_spec d 48); [contradiction|].
        cbn [app] in M. rewrite M. reflexivity.
      + intros sgn. destruct ((sgn =? 43) || (sgn =? 45)) eqn:Es; [|reflexivity].
        unfold scan_number. rewrite Es. cbn [app].
        destruct (N.eqb_spec d 48); [contradiction|]. cbn [skip_zeros].
        destruct (N.eqb_spec d 48); [contradiction|].
        cbn [app] in M. rewrite M. reflexivity. }
  destruct POS as [P1 P2]. unfold num_text, num_norm. destruct neg; cbn [app].
  - rewrite <- !app_assoc. rewrite (P2 45). reflexivity.
  - rewrite <- !app_assoc. exact P1.
Qed.

(* ------------------------------------------------------------------------------------------ *)
(* tokens                                                                                       *)
(* ------------------------------------------------------------------------------------------ *)
Section WithConv.
Variable to_double : list N -> option N.
Notation next := (next to_double).
Notation run := (run to_double).
Notation parse := (parse to_double).

Definition tok_at (s : list N) (t : token) (r : list N) : Prop := exists n, next false s = (t, r, n).

Lemma tok_ws w : ws w -> forall s t r, tok_at s t r -> tok_at (w ++ s) t r.
Proof.
  induction 1 as [|c w Hc _ IH]; intros s t r H; [exact H|].
  specialize (IH s t r H). destruct IH as [n IH]. cbn [app]. unfold tok_at. cbn [Defs.next].
  unfold is_ws in Hc.
  destruct (is_struct c) eqn:S1.
  { exfalso. unfold is_struct in S1. repeat (apply orb_true_iff in Hc; destruct Hc as [Hc|Hc]);
      apply N.eqb_eq in Hc; subst c; discriminate. }
  destruct ((c =? 32) || (c =? 9) || (c =? 13)) eqn:S2; [exists n; exact IH|].
  destruct (c =? 10) eqn:S3.
  { rewrite IH. eexists. reflexivity. }
  exfalso. apply orb_false_iff in S2. destruct S2 as [S2 S4]. apply orb_false_iff in S2. destruct S2 as [S2 S5].
  rewrite S2, S5, S4 in Hc. discriminate.
Qed.

Lemma tok_struct c s : is_struct c = true -> tok_at (c :: s) (TStruct c) s.
Proof. intros H. exists 0. cbn [Defs.next]. rewrite H. reflexivity. Qed.

Lemma tok_null s : tok_at (lit_null ++ s) TNull s.
Proof. exists 0. reflexivity. Qed.
Lemma tok_true s : tok_at (lit_true ++ s) TTrue s.
Proof. exists 0. reflexivity. Qed.
Lemma tok_false s : tok_at (lit_false ++ s) TFalse s.
Proof. exists 0. reflexivity. Qed.

Lemma tok_string body str s : StrBody body str -> utf8_valid str = true ->
  tok_at (34 :: body ++ 34 :: s) (TStr str) s.
Proof.
  intros Hb Hu. exists 0. cbn [Defs.next]. change (is_struct 34) with false.
  change ((34 =? 32) || (34 =? 9) || (34 =? 13)) with false. change (34 =? 10) with false.
  change (34 =? 34) with true. cbv iota. rewrite (scan_string_body body str Hb s). rewrite Hu. reflexivity.
Qed.

Lemma next_number c r : (c = 45 \/ is_digit c = true) ->
  next false (c :: r) =
  (let (x, r') := scan_number (c :: r) in
   match to_double x with Some b => (TNum b, r', 0) | None => (TErr, r, 0) end).
Proof.
  intros H. assert (R : c = 45 \/ 48 <= c <= 57) by (destruct H as [H|H]; [left; exact H|right; apply digit_facts; exact H]).
  assert (D : (c =? 45) || is_digit c = true).
  { destruct H as [H|H]; [subst; reflexivity|rewrite H; apply orb_true_r]. }
  cbn [Defs.next]. unfold is_struct.
  destruct (N.eqb_spec c 91); [lia|]. destruct (N.eqb_spec c 123); [lia|]. destruct (N.eqb_spec c 58); [lia|].
  destruct (N.eqb_spec c 44); [lia|]. destruct (N.eqb_spec c 125); [lia|]. destruct (N.eqb_spec c 93); [lia|].
  destruct (N.eqb_spec c 32); [lia|]. destruct (N.eqb_spec c 9); [lia|]. destruct (N.eqb_spec c 13); [lia|].
  destruct (N.eqb_spec c 10); [lia|]. destruct (N.eqb_spec c 34); [lia|]. destruct (N.eqb_spec c 116); [lia|].
  destruct (N.eqb_spec c 110); [lia|]. destruct (N.eqb_spec c 102); [lia|]. cbn [orb].
  rewrite D. reflexivity.
Qed.

Lemma tok_number neg i f e b s : int_ok i -> frac_ok f -> exp_ok e -> stops s ->
  to_double (num_norm neg i f e) = Some b ->
  tok_at (num_text neg i f e ++ s) (TNum b) s.
Proof.
  intros Hi Hf He Hs Hb. exists 0.
  pose proof (scan_number_ok neg i f e s Hi Hf He Hs) as SN.
  assert (HD : exists c r, num_text neg i f e ++ s = c :: r /\ (c = 45 \/ is_digit c = true)).
  { unfold num_text. destruct neg; cbn [app]; [eauto|].
    destruct Hi as [Hi|[d [ds [Hi [Hd _]]]]]; subst i; cbn [app]; eauto. }
  destruct HD as [c [r [E Hc]]]. rewrite E in *. rewrite (next_number c r Hc). rewrite SN. rewrite Hb. reflexivity.
Qed.

(* ------------------------------------------------------------------------------------------ *)
(* fuel-free execution                                                                          *)
(* ------------------------------------------------------------------------------------------ *)
Inductive reaches : list N -> mstate -> list N -> mstate -> Prop :=
| R0 s m : reaches s m s m
| RS s m t r s' m' : terminal m = false -> tok_at s t r -> reaches r (step_tok t m) s' m' -> reaches s m s' m'.

Lemma reaches_trans s1 m1 s2 m2 s3 m3 : reaches s1 m1 s2 m2 -> reaches s2 m2 s3 m3 -> reaches s1 m1 s3 m3.
Proof. induction 1 as [|s m t r s' m' T Ht _ IH]; intros H2; [exact H2|]. eapply RS; [exact T|exact Ht|]. apply IH. exact H2. Qed.

Lemma reaches_one s m t r : terminal m = false -> tok_at s t r -> reaches s m r (step_tok t m).
Proof. intros T H. eapply RS; [exact T|exact H|apply R0]. Qed.

Lemma run_mono : forall f s line m x, run f s line m = Some x -> run (S f) s line m = Some x.
Proof.
  induction f as [|f IH]; intros s line m x H.
  - cbn [Defs.run] in *. destruct (terminal m); [exact H|discriminate].
  - cbn [Defs.run] in H. change (run (S (S f)) s line m) with
      (if terminal m then Some (s, line, m) else let '(t, r, n) := next false s in run (S f) r (line + n) (step_tok t m)).
    destruct (terminal m); [exact H|].
    destruct (next false s) as [[t r] n]. apply IH. exact H.
Qed.
Lemma run_mono_le f f' s line m x : (f <= f')%nat -> run f s line m = Some x -> run f' s line m = Some x.
Proof. induction 1 as [|f' _ IH]; intros H; [exact H|]. apply run_mono. apply IH. exact H. Qed.

Lemma reaches_run s m s' m' : reaches s m s' m' -> forall line, exists k line', forall f,
  run (k + f) s line m = run f s' line' m'.
Proof.
  induction 1 as [s m|s m t r s' m' T [n Ht] _ IH]; intros line.
  - exists O, line. reflexivity.
  - destruct (IH (line + n)) as [k [line' Hk]]. exists (S k), line'. intros f.
    cbn [plus Defs.run]. rewrite T, Ht. apply Hk.
Qed.

Lemma reaches_final s m s' m' line : reaches s m s' m' -> terminal m' = true ->
  exists line', run (S (length s)) s line m = Some (s', line', m').
Proof.
  intros H T. destruct (reaches_run _ _ _ _ H line) as [k [line' Hk]].
  exists line'. specialize (Hk O). rewrite (run_terminal to_double O s' line' m' T) in Hk.
  pose proof (run_total to_double (S (length s)) s line m ltac:(lia)) as NT.
  destruct (run (S (length s)) s line m) as [y|] eqn:E; [|congruence].
  pose proof (run_mono_le (S (length s)) (Nat.max (S (length s)) (k + 0)) _ _ _ _ ltac:(lia) E) as E1.
  pose proof (run_mono_le (k + 0) (Nat.max (S (length s)) (k + 0)) _ _ _ _ ltac:(lia) Hk) as E2.
  congruence.
Qed.

(* ------------------------------------------------------------------------------------------ *)
(* the grammar of values, with the value denoted; n = nesting budget                            *)
(* ------------------------------------------------------------------------------------------ *)
Inductive Val : nat -> list N -> jv -> Prop :=
| V_null n : Val n lit_null JNull
| V_true n : Val n lit_true (JBool true)
| V_false n : Val n lit_false (JBool false)
| V_num n neg i f e b : int_ok i -> frac_ok f -> exp_ok e -> to_double (num_norm neg i f e) = Some b ->
    Val n (num_text neg i f e) (JNum b)
| V_str n body s : StrBody body s -> utf8_valid s = true -> Val n (34 :: body ++ [34]) (JStr s)
| V_arr0 n w : ws w -> Val (S n) (91 :: w ++ [93]) (JArr [])
| V_arr n els l : Elems n els l -> Val (S n) (91 :: els ++ [93]) (JArr l)
| V_obj0 n w : ws w -> Val (S n) (123 :: w ++ [125]) (JObj [])
| V_obj n mems m : Members n mems [] m -> Val (S n) (123 :: mems ++ [125]) (JObj m)
with Elems : nat -> list N -> list jv -> Prop :=
| E_one n w1 d v w2 : ws w1 -> Val n d v -> ws w2 -> Elems n (w1 ++ d ++ w2) [v]
| E_cons n w1 d v w2 els l : ws w1 -> Val n d v -> ws w2 -> Elems n els l ->
    Elems n (w1 ++ d ++ w2 ++ 44 :: els) (v :: l)
with Members : nat -> list N -> list (list N * jv) -> list (list N * jv) -> Prop :=
| M_one n w1 kb k w2 w3 d v w4 m0 : ws w1 -> StrBody kb k -> utf8_valid k = true -> ws w2 -> ws w3 ->
    Val n d v -> ws w4 -> map_mem k m0 = false ->
    Members n (w1 ++ 34 :: kb ++ 34 :: w2 ++ 58 :: w3 ++ d ++ w4) m0 (map_insert k v m0)
| M_cons n w1 kb k w2 w3 d v w4 m0 mems m : ws w1 -> StrBody kb k -> utf8_valid k = true -> ws w2 -> ws w3 ->
    Val n d v -> ws w4 -> map_mem k m0 = false -> Members n mems (map_insert k v m0) m ->
    Members n (w1 ++ 34 :: kb ++ 34 :: w2 ++ 58 :: w3 ++ d ++ w4 ++ 44 :: mems) m0 m.

Scheme Val_mut := Induction for Val Sort Prop
with Elems_mut := Induction for Elems Sort Prop
with Members_mut := Induction for Members Sort Prop.
Combined Scheme Val_Elems_Members_ind from Val_mut, Elems_mut, Members_mut.

(* states in which a value is expected: the next token t (not a closing bracket) is handed to
   on_value t K2 *)
Inductive vstate : st -> list frame -> list N -> list frame -> Prop :=
| VS_top K key : vstate SVal K key K
| VS_obj mm k0 K' key : map_mem key mm = false -> vstate SObjValue (FObj mm k0 :: K') key (FObj mm key :: K')
| VS_arr items K' key : vstate SArrValOrClose (FArr items :: K') key (FArr items :: K').

Lemma vstate_len s K key K2 : vstate s K key K2 -> length K2 = length K.
Proof. destruct 1; reflexivity. Qed.

Lemma vstate_step s K key K2 res t : vstate s K key K2 -> is_tstruct t 93 = false ->
  step_tok t (s, K, key, res) = on_value t K2 key res.
Proof.
  intros HV Ht. destruct HV as [K0 key0|mm k0 K' key0 Hm|items K' key0]; cbn [step_tok];
    [reflexivity|rewrite Hm; reflexivity|rewrite Ht; reflexivity].
Qed.

Lemma nonterm s K key res : s <> SErr -> s <> SDone -> (length K <= max_depth)%nat -> terminal (s, K, key, res) = false.
Proof.
  intros H1 H2 L. unfold terminal. cbn [m_st m_stack].
  destruct s; try contradiction; apply Nat.ltb_ge; exact L.
Qed.

Lemma vstate_nonterm s K key K2 res : vstate s K key K2 -> (length K2 <= max_depth)%nat -> terminal (s, K, key, res) = false.
Proof. intros H L. rewrite (vstate_len _ _ _ _ H) in L. destruct H; apply nonterm; try discriminate; exact L. Qed.

Lemma ws_stops w c r : ws w -> is_struct c = true -> stops (w ++ c :: r).
Proof.
  intros Hw Hc. destruct w as [|x w]; cbn [app stops].
  - unfold is_struct in Hc. repeat (apply orb_true_iff in Hc; destruct Hc as [Hc|Hc]); apply N.eqb_eq in Hc; subst c;
      (split; [reflexivity|]); lia.
  - inversion Hw as [|? ? Hx _]; subst. unfold is_ws in Hx.
    repeat (apply orb_true_iff in Hx; destruct Hx as [Hx|Hx]); apply N.eqb_eq in Hx; subst x;
      (split; [reflexivity|]); lia.
Qed.
Lemma ws_stops_end w : ws w -> stops w.
Proof.
  intros Hw. destruct w as [|x w]; [exact I|]. inversion Hw as [|? ? Hx _]; subst. unfold is_ws in Hx. cbn [stops].
  repeat (apply orb_true_iff in Hx; destruct Hx as [Hx|Hx]); apply N.eqb_eq in Hx; subst x; (split; [reflexivity|]); lia.
Qed.

Definition P_val (n : nat) (d : list N) (v : jv) : Prop :=
  forall w s K key K2 res rest, ws w -> vstate s K key K2 -> (length K2 + n <= max_depth)%nat -> stops rest ->
  exists key', reaches (w ++ d ++ rest) (s, K, key, res) rest (plug v K2 key' res).
Definition P_elems (n : nat) (els : list N) (l : list jv) : Prop :=
  forall items K' key res rest, (S (length K') + n <= max_depth)%nat ->
  exists key', reaches (els ++ 93 :: rest) (SArrValOrClose, FArr items :: K', key, res) rest
                       (plug (JArr (rev items ++ l)) K' key' res).
Definition P_members (n : nat) (mems : list N) (m0 m : list (list N * jv)) : Prop :=
  forall k0 K' key res rest, (S (length K') + n <= max_depth)%nat ->
  exists key', reaches (mems ++ 125 :: rest) (SObjKeyOrClose, FObj m0 k0 :: K', key, res) rest
                       (plug (JObj m) K' key' res).

(* a scalar token in a value state *)
Lemma scalar_step w s K key K2 res rest d t v :
  ws w -> vstate s K key K2 -> (length K2 <= max_depth)%nat ->
  tok_at (d ++ rest) t rest -> vtok_of t = VScalar v -> is_tstruct t 93 = false ->
  reaches (w ++ d ++ rest) (s, K, key, res) rest (plug v K2 key res).
Proof.
  intros Hw Hv L Ht Hs Hn.
  replace (plug v K2 key res) with (step_tok t (s, K, key, res)).
  - apply reaches_one; [eapply vstate_nonterm; eassumption|apply tok_ws; assumption].
  - rewrite (vstate_step _ _ _ _ res t Hv Hn). unfold on_value. rewrite Hs. reflexivity.
Qed.

Ltac norm_app := repeat (rewrite <- app_assoc || rewrite <- app_comm_cons).

Lemma grammar_accepted :
  (forall n d v, Val n d v -> P_val n d v) /\
  (forall n els l, Elems n els l -> P_elems n els l) /\
  (forall n mems m0 m, Members n mems m0 m -> P_members n mems m0 m).
Proof.
  apply Val_Elems_Members_ind.
  - (* null *) intros n w s K key K2 res rest Hw Hv L Hr. exists key.
    eapply scalar_step; try eassumption; [lia|apply tok_null|reflexivity|reflexivity].
  - intros n w s K key K2 res rest Hw Hv L Hr. exists key.
    eapply scalar_step; try eassumption; [lia|apply tok_true|reflexivity|reflexivity].
  - intros n w s K key K2 res rest Hw Hv L Hr. exists key.
    eapply scalar_step; try eassumption; [lia|apply tok_false|reflexivity|reflexivity].
  - (* number *) intros n neg i f e b Hi Hf He Hb w s K key K2 res rest Hw Hv L Hr. exists key.
    eapply scalar_step; try eassumption; [lia|apply (tok_number neg i f e b); assumption|reflexivity|reflexivity].
  - (* string *) intros n body str Hb Hu w s K key K2 res rest Hw Hv L Hr. exists key.
    eapply scalar_step with (t := TStr str); try eassumption; [lia| |reflexivity|reflexivity].
    norm_app. apply tok_string; assumption.
  - (* empty array *) intros n w0 Hw0 w s K key K2 res rest Hw Hv L Hr. exists key.
    norm_app. eapply RS; [eapply vstate_nonterm; [eassumption|lia]|apply tok_ws; [exact Hw|apply (tok_struct 91); reflexivity]|].
    rewrite (vstate_step _ _ _ _ res (TStruct 91) Hv eq_refl). unfold on_value. cbn [vtok_of]. change (91 =? 91) with true. cbv iota.
    replace (plug (JArr []) K2 key res) with (step_tok (TStruct 93) (SArrValOrClose, FArr [] :: K2, key, res)) by reflexivity.
    apply reaches_one; [apply nonterm; try discriminate; cbn [length]; lia|].
    apply tok_ws; [exact Hw0|apply (tok_struct 93); reflexivity].
  - (* array *) intros n els l He IH w s K key K2 res rest Hw Hv L Hr.
    destruct (IH [] K2 key res rest ltac:(lia)) as [key' R]. exists key'.
    norm_app. eapply RS; [eapply vstate_nonterm; [eassumption|lia]|apply tok_ws; [exact Hw|apply (tok_struct 91); reflexivity]|].
    rewrite (vstate_step _ _ _ _ res (TStruct 91) Hv eq_refl). unfold on_value. cbn [vtok_of]. change (91 =? 91) with true. cbv iota.
    exact R.
  - (* empty object *) intros n w0 Hw0 w s K key K2 res rest Hw Hv L Hr. exists key.
    norm_app. eapply RS; [eapply vstate_nonterm; [eassumption|lia]|apply tok_ws; [exact Hw|apply (tok_struct 123); reflexivity]|].
    rewrite (vstate_step _ _ _ _ res (TStruct 123) Hv eq_refl). unfold on_value. cbn [vtok_of].
    change (123 =? 91) with false. change (123 =? 123) with true. cbv iota.
    replace (plug (JObj []) K2 key res) with (step_tok (TStruct 125) (SObjKeyOrClose, FObj [] [] :: K2, key, res)) by reflexivity.
    apply reaches_one; [apply nonterm; try discriminate; cbn [length]; lia|].
    apply tok_ws; [exact Hw0|apply (tok_struct 125); reflexivity].
  - (* object *) intros n mems m Hm IH w s K key K2 res rest Hw Hv L Hr.
    destruct (IH [] K2 key res rest ltac:(lia)) as [key' R]. exists key'.
    norm_app. eapply RS; [eapply vstate_nonterm; [eassumption|lia]|apply tok_ws; [exact Hw|apply (tok_struct 123); reflexivity]|].
    rewrite (vstate_step _ _ _ _ res (TStruct 123) Hv eq_refl). unfold on_value. cbn [vtok_of].
    change (123 =? 91) with false. change (123 =? 123) with true. cbv iota.
    exact R.
  - (* one element *) intros n w1 d v w2 Hw1 Hd IH Hw2 items K' key res rest L.
    destruct (IH w1 SArrValOrClose (FArr items :: K') key (FArr items :: K') res (w2 ++ 93 :: rest) Hw1
                 (VS_arr items K' key) ltac:(cbn [length]; lia) (ws_stops w2 93 rest Hw2 eq_refl)) as [key' R].
    exists key'. norm_app. eapply reaches_trans; [exact R|].
    cbn [plug].
    replace (plug (JArr (rev items ++ [v])) K' key' res)
      with (step_tok (TStruct 93) (SArrCloseOrComma, FArr (v :: items) :: K', key', res)) by reflexivity.
    apply reaches_one; [apply nonterm; try discriminate; cbn [length]; lia|].
    apply tok_ws; [exact Hw2|apply (tok_struct 93); reflexivity].
  - (* element, comma, more *) intros n w1 d v w2 els l Hw1 Hd IH Hw2 He IHe items K' key res rest L.
    destruct (IH w1 SArrValOrClose (FArr items :: K') key (FArr items :: K') res (w2 ++ 44 :: els ++ 93 :: rest) Hw1
                 (VS_arr items K' key) ltac:(cbn [length]; lia) (ws_stops w2 44 _ Hw2 eq_refl)) as [key1 R1].
    destruct (IHe (v :: items) K' key1 res rest L) as [key' R2].
    exists key'. norm_app. eapply reaches_trans; [exact R1|]. cbn [plug].
    eapply RS; [apply nonterm; try discriminate; cbn [length]; lia
               |apply tok_ws; [exact Hw2|apply (tok_struct 44); reflexivity]|].
    cbn [step_tok is_tstruct]. change (44 =? 93) with false. change (44 =? 44) with true. cbv iota.
    cbn [rev] in R2. rewrite <- app_assoc in R2. exact R2.
  - (* one member *) intros n w1 kb k w2 w3 d v w4 m0 Hw1 Hkb Hku Hw2 Hw3 Hd IH Hw4 Hnm k0 K' key res rest L.
    destruct (IH w3 SObjValue (FObj m0 k0 :: K') k (FObj m0 k :: K') res (w4 ++ 125 :: rest) Hw3
                 (VS_obj m0 k0 K' k Hnm) ltac:(cbn [length]; lia) (ws_stops w4 125 rest Hw4 eq_refl)) as [key' R].
    exists key'. norm_app. eapply RS; [apply nonterm; try discriminate; cbn [length]; lia
               |apply tok_ws; [exact Hw1|apply tok_string; eassumption]|].
    cbn [step_tok is_tstruct].
    eapply RS; [apply nonterm; try discriminate; cbn [length]; lia
               |apply tok_ws; [exact Hw2|apply (tok_struct 58); reflexivity]|].
    cbn [step_tok is_tstruct]. change (58 =? 58) with true. cbv iota.
    eapply reaches_trans; [exact R|]. cbn [plug].
    replace (plug (JObj (map_insert k v m0)) K' key' res)
      with (step_tok (TStruct 125) (SObjCloseOrComma, FObj (map_insert k v m0) k :: K', key', res)) by reflexivity.
    apply reaches_one; [apply nonterm; try discriminate; cbn [length]; lia|].
    apply tok_ws; [exact Hw4|apply (tok_struct 125); reflexivity].
  - (* member, comma, more *)
    intros n w1 kb k w2 w3 d v w4 m0 mems m Hw1 Hkb Hku Hw2 Hw3 Hd IH Hw4 Hnm Hm IHm k0 K' key res rest L.
    destruct (IH w3 SObjValue (FObj m0 k0 :: K') k (FObj m0 k :: K') res (w4 ++ 44 :: mems ++ 125 :: rest) Hw3
                 (VS_obj m0 k0 K' k Hnm) ltac:(cbn [length]; lia) (ws_stops w4 44 _ Hw4 eq_refl)) as [key1 R1].
    destruct (IHm k K' key1 res rest L) as [key' R2].
    exists key'. norm_app. eapply RS; [apply nonterm; try discriminate; cbn [length]; lia
               |apply tok_ws; [exact Hw1|apply tok_string; eassumption]|].
    cbn [step_tok is_tstruct].
    eapply RS; [apply nonterm; try discriminate; cbn [length]; lia
               |apply tok_ws; [exact Hw2|apply (tok_struct 58); reflexivity]|].
    cbn [step_tok is_tstruct]. change (58 =? 58) with true. cbv iota.
    eapply reaches_trans; [exact R1|]. cbn [plug].
    eapply RS; [apply nonterm; try discriminate; cbn [length]; lia
               |apply tok_ws; [exact Hw4|apply (tok_struct 44); reflexivity]|].
    cbn [step_tok is_tstruct]. change (44 =? 44) with true. cbv iota.
    exact R2.
Qed.

(* ------------------------------------------------------------------------------------------ *)
(* the theorem                                                                                  *)
(* ------------------------------------------------------------------------------------------ *)
Lemma next_ws_eof w : ws w -> tok_at w TEof [].
Proof. intros H. rewrite <- (app_nil_r w). apply tok_ws; [exact H|]. exists 0. reflexivity. Qed.

Theorem rfc_accepted n doc v w1 w2 :
  Val n doc v -> (n <= max_depth)%nat -> ws w1 -> ws w2 ->
  parse true (w1 ++ doc ++ w2) = POk v [].
Proof.
  intros HV Hn Hw1 Hw2.
  destruct grammar_accepted as [G _].
  destruct (G n doc v HV w1 SVal [] [] [] JUndef w2 Hw1 (VS_top [] []) ltac:(cbn [length]; lia) (ws_stops_end w2 Hw2)) as [key' R].
  cbn [plug] in R.
  destruct (reaches_final _ _ _ _ 1 R eq_refl) as [line' E].
  unfold Defs.parse. fold init_state in E. rewrite E. cbn [m_st m_res].
  destruct (next_ws_eof w2 Hw2) as [k Hk]. rewrite Hk. reflexivity.
Qed.

(* prefix mode (full = false, used by operator>>): the value is accepted whatever follows, as long
   as what follows cannot continue a number *)
Theorem rfc_accepted_prefix n doc v w1 rest :
  Val n doc v -> (n <= max_depth)%nat -> ws w1 -> stops rest ->
  parse false (w1 ++ doc ++ rest) = POk v rest.
Proof.
  intros HV Hn Hw1 Hr.
  destruct grammar_accepted as [G _].
  destruct (G n doc v HV w1 SVal [] [] [] JUndef rest Hw1 (VS_top [] []) ltac:(cbn [length]; lia) Hr) as [key' R].
  cbn [plug] in R.
  destruct (reaches_final _ _ _ _ 1 R eq_refl) as [line' E].
  unfold Defs.parse. fold init_state in E. rewrite E. reflexivity.
Qed.

End WithConv.
