(* C11 proofs, part 4: the writer produces a text of the RFC 8259 grammar of Proofs3.v that denotes
   the value written (numbers through the printer), in the compact and in the readable layout;
   hence save followed by load gives the value back. *)
From CppcmsV Require Import Base.Tac Base.Sweep C11.Defs C11.Proofs1 C11.Proofs2 C11.Proofs3.
Local Open Scope N_scope.

Lemma jv_ind' (P : jv -> Prop) :
  P JUndef -> P JNull -> (forall b, P (JBool b)) -> (forall x, P (JNum x)) -> (forall s, P (JStr s)) ->
  (forall l, Forall P l -> P (JArr l)) ->
  (forall m, Forall (fun kv : list N * jv => P (snd kv)) m -> P (JObj m)) ->
  forall v, P v.
Proof.
  intros H1 H2 H3 H4 H5 H6 H7. fix IH 1. intros v. destruct v as [| |b|x|s|l|m].
  - exact H1.
  - exact H2.
  - apply H3.
  - apply H4.
  - apply H5.
  - apply H6. induction l as [|a l IHl]; constructor; [apply IH|exact IHl].
  - apply H7. induction m as [|[k a] m IHm]; constructor; [apply IH|exact IHm].
Qed.

(* ------------------------------------------------------------------------------------------ *)
(* strings: the escaped text denotes the string                                                 *)
(* ------------------------------------------------------------------------------------------ *)
Definition ctl_ok (c : N) : bool :=
  hex4_ok 48 48 (hexdig (c / 16)) (hexdig (c mod 16)) && (hex4 48 48 (hexdig (c / 16)) (hexdig (c mod 16)) =? c)
  && negb (is_first_surrogate c) && leqb (utf8_encode c) [c].
Lemma ctl_sweep c : c < 32 -> ctl_ok c = true.
Proof. intros H. apply (sweep_N 32 ctl_ok); [vm_compute; reflexivity|exact H]. Qed.

Lemma esc1_body c b s : StrBody b s -> StrBody (esc1 c ++ b) (c :: s).
Proof.
  intros H. unfold esc1.
  destruct (N.eqb_spec c 34). { subst. apply (SB_esc 34 34); [reflexivity|exact H]. }
  destruct (N.eqb_spec c 92). { subst. apply (SB_esc 92 92); [reflexivity|exact H]. }
  destruct (N.eqb_spec c 8). { subst. apply (SB_esc 98 8); [reflexivity|exact H]. }
  destruct (N.eqb_spec c 12). { subst. apply (SB_esc 102 12); [reflexivity|exact H]. }
  destruct (N.eqb_spec c 10). { subst. apply (SB_esc 110 10); [reflexivity|exact H]. }
  destruct (N.eqb_spec c 13). { subst. apply (SB_esc 114 13); [reflexivity|exact H]. }
  destruct (N.eqb_spec c 9). { subst. apply (SB_esc 116 9); [reflexivity|exact H]. }
  destruct (N.leb_spec c 31) as [L|L].
  - pose proof (ctl_sweep c ltac:(lia)) as S. unfold ctl_ok in S.
    apply andb_true_iff in S. destruct S as [S S4]. apply andb_true_iff in S. destruct S as [S S3].
    apply andb_true_iff in S. destruct S as [S1 S2]. apply N.eqb_eq in S2. apply leqb_eq in S4.
    apply negb_true_iff in S3.
    pose proof (SB_u 48 48 (hexdig (c / 16)) (hexdig (c mod 16)) b s S1) as U.
    rewrite S2 in U. rewrite S4 in U. apply U; assumption.
  - apply SB_raw; [lia|assumption|assumption|exact H].
Qed.

Lemma esc_body s : StrBody (flat_map esc1 s) s.
Proof. induction s as [|c s IH]; [constructor|]. cbn [flat_map]. apply esc1_body. exact IH. Qed.

(* ------------------------------------------------------------------------------------------ *)
(* layout                                                                                       *)
(* ------------------------------------------------------------------------------------------ *)
Definition lead (t : option nat) : list N := match t with Some n => 10 :: pad n | None => [] end.
Lemma w_open_eq c tabs : w_open c tabs = c :: lead (option_map S tabs).
Proof. destruct tabs; reflexivity. Qed.
Lemma w_comma_eq inner : w_comma inner = 44 :: lead inner.
Proof. destruct inner; reflexivity. Qed.
Lemma w_close_eq c tabs : w_close c tabs = lead tabs ++ c :: lead tabs.
Proof. destruct tabs; reflexivity. Qed.
Lemma ws_pad n : ws (pad n).
Proof. induction n; [constructor|]. constructor; [reflexivity|exact IHn]. Qed.
Lemma ws_lead t : ws (lead t).
Proof. destruct t; [constructor; [reflexivity|apply ws_pad]|constructor]. Qed.
Lemma ws_app a b : ws a -> ws b -> ws (a ++ b).
Proof. intros. apply Forall_app. auto. Qed.

Ltac norm_app := repeat (rewrite <- app_assoc || rewrite <- app_comm_cons).

Section W.
Variable to_double : list N -> option N.
Variable print16 : N -> list N.
(* the number a printed number reads back as *)
Variable rt : N -> N.
Notation write := (write print16).
Notation Val := (Val to_double).
Notation Elems := (Elems to_double).
Notation Members := (Members to_double).

Fixpoint welems (inner : option nat) (l : list jv) : option (list N) :=
  match l with
  | [] => Some []
  | x :: r => match r with
              | [] => write inner x
              | _ :: _ => opt_app (write inner x) (opt_app (Some (w_comma inner)) (welems inner r))
              end
  end.
Fixpoint wmembs (inner : option nat) (m : list (list N * jv)) : option (list N) :=
  match m with
  | [] => Some []
  | (k, x) :: r =>
      let one := opt_app (Some (write_string k ++ w_colon inner)) (write inner x) in
      match r with
      | [] => one
      | _ :: _ => opt_app one (opt_app (Some (w_comma inner)) (wmembs inner r))
      end
  end.

Lemma write_arr tabs l : write tabs (JArr l) =
  opt_app (Some (w_open 91 tabs)) (opt_app (welems (option_map S tabs) l) (Some (w_close 93 tabs))).
Proof.
  cbn [Defs.write]. f_equal. f_equal.
  induction l as [|x r IH]; [reflexivity|]. destruct r as [|y r']; [reflexivity|].
  change (welems (option_map S tabs) (x :: y :: r')) with
    (opt_app (write (option_map S tabs) x) (opt_app (Some (w_comma (option_map S tabs))) (welems (option_map S tabs) (y :: r')))).
  rewrite <- IH. reflexivity.
Qed.
Lemma write_obj tabs m : write tabs (JObj m) =
  opt_app (Some (w_open 123 tabs)) (opt_app (wmembs (option_map S tabs) m) (Some (w_close 125 tabs))).
Proof.
  cbn [Defs.write]. f_equal. f_equal.
  induction m as [|[k x] r IH]; [reflexivity|]. destruct r as [|y r']; [reflexivity|].
  change (wmembs (option_map S tabs) ((k, x) :: y :: r')) with
    (opt_app (opt_app (Some (write_string k ++ w_colon (option_map S tabs))) (write (option_map S tabs) x))
       (opt_app (Some (w_comma (option_map S tabs))) (wmembs (option_map S tabs) (y :: r')))).
  rewrite <- IH. reflexivity.
Qed.

(* values the round trip is claimed for: no undefined member, strings and keys valid UTF-8, objects
   sorted by key (what a std::map is), every number printed as an RFC number that reads back *)
Definition num_ok (x : N) : Prop :=
  exists neg i f e, int_ok i /\ frac_ok f /\ exp_ok e /\
    print16 x = num_text neg i f e /\ to_double (num_norm neg i f e) = Some (rt x).
Inductive wgood : jv -> Prop :=
| G_null : wgood JNull
| G_bool b : wgood (JBool b)
| G_num x : num_ok x -> wgood (JNum x)
| G_str s : utf8_valid s = true -> wgood (JStr s)
| G_arr l : Forall wgood l -> wgood (JArr l)
| G_obj m : keys_sorted m = true -> Forall (fun kv => utf8_valid (fst kv) = true /\ wgood (snd kv)) m -> wgood (JObj m).

Definition mapf (m : list (list N * jv)) : list (list N * jv) := map (fun kx => (fst kx, map_nums rt (snd kx))) m.

Lemma fold_max_Forall {A} (f : A -> nat) d : forall l,
  (fold_right (fun x a => Nat.max (f x) a) O l <= d)%nat -> Forall (fun x => (f x <= d)%nat) l.
Proof. induction l as [|x l IH]; cbn [fold_right]; intros H; constructor; [lia|apply IH; lia]. Qed.

(* inserting a key above all present keys appends *)
Lemma key_ltb_asym a b : key_ltb a b = true -> key_ltb b a = false.
Proof.
  intros H. destruct (key_ltb b a) eqn:E; [|reflexivity].
  pose proof (key_ltb_trans _ _ _ H E) as T. rewrite key_ltb_irrefl in T. discriminate.
Qed.
Lemma key_ltb_neq a b : key_ltb a b = true -> key_eqb b a = false.
Proof.
  intros H. destruct (key_eqb b a) eqn:E; [|reflexivity]. apply key_eqb_eq in E. subst.
  rewrite key_ltb_irrefl in H. discriminate.
Qed.
Lemma insert_above {A} k (v : A) : forall m, Forall (fun kv => key_ltb (fst kv) k = true) m ->
  map_mem k m = false /\ map_insert k v m = m ++ [(k, v)].
Proof.
  induction m as [|[k1 v1] m IH]; intros H; [split; reflexivity|].
  inversion H as [|? ? H1 H2]; subst. cbn [fst] in H1. destruct (IH H2) as [I1 I2].
  cbn [map_mem map_insert]. rewrite (key_ltb_asym _ _ H1), (key_ltb_neq _ _ H1), I1, I2. split; reflexivity.
Qed.
Lemma sorted_app_lt {A} k (x : A) r : forall pre, keys_sorted (pre ++ (k, x) :: r) = true ->
  Forall (fun kv => key_ltb (fst kv) k = true) pre.
Proof.
  induction pre as [|[k1 v1] pre IH]; intros H; [constructor|].
  cbn [app] in H. rewrite keys_sorted_cons in H. apply andb_true_iff in H. destruct H as [H1 H2].
  specialize (IH H2). constructor; [|exact IH]. cbn [fst].
  destruct pre as [|[k2 v2] pre']; cbn [app lb] in H1; [exact H1|].
  inversion IH as [|? ? H3 _]; subst. cbn [fst] in H3. eapply key_ltb_trans; eassumption.
Qed.
Lemma sorted_app_r {A} : forall (pre r : list (list N * A)), keys_sorted (pre ++ r) = true -> keys_sorted r = true.
Proof.
  induction pre as [|[k1 v1] pre IH]; intros r H; [exact H|].
  cbn [app] in H. rewrite keys_sorted_cons in H. apply andb_true_iff in H. destruct H as [_ H]. apply IH. exact H.
Qed.
Lemma mapf_keys_lt k pre : Forall (fun kv : list N * jv => key_ltb (fst kv) k = true) pre ->
  Forall (fun kv : list N * jv => key_ltb (fst kv) k = true) (mapf pre).
Proof. intros H. unfold mapf. apply Forall_map. eapply Forall_impl; [|exact H]. intros a Ha. exact Ha. Qed.

Definition P_w (v : jv) : Prop :=
  wgood v -> forall tabs n, (depth v <= n)%nat ->
  exists d w, write tabs v = Some (d ++ w) /\ ws w /\ Val n d (map_nums rt v).

Lemma elems_text inner n : forall l, l <> [] ->
  Forall P_w l -> Forall wgood l -> Forall (fun x => (depth x <= n)%nat) l ->
  exists txt, welems inner l = Some txt /\
    forall wend, ws wend -> Elems n (lead inner ++ txt ++ wend) (map (map_nums rt) l).
Proof.
  induction l as [|x r IH]; intros Hne HP HG HD; [contradiction|].
  inversion HP as [|? ? HPx HPr]; subst. inversion HG as [|? ? HGx HGr]; subst. inversion HD as [|? ? HDx HDr]; subst.
  destruct (HPx HGx inner n HDx) as [d [w [Hw [Hws HV]]]].
  destruct r as [|y r'].
  - exists (d ++ w). split; [exact Hw|]. intros wend Hwe. cbn [map].
    rewrite <- app_assoc. apply E_one; [apply ws_lead|exact HV|apply ws_app; assumption].
  - destruct (IH ltac:(discriminate) HPr HGr HDr) as [txt' [Ht' HE]].
    exists ((d ++ w) ++ (44 :: lead inner) ++ txt'). split.
    + change (welems inner (x :: y :: r')) with
        (opt_app (write inner x) (opt_app (Some (w_comma inner)) (welems inner (y :: r')))).
      rewrite Hw, Ht', w_comma_eq. reflexivity.
    + intros wend Hwe. change (map (map_nums rt) (x :: y :: r')) with (map_nums rt x :: map (map_nums rt) (y :: r')).
      replace (lead inner ++ ((d ++ w) ++ (44 :: lead inner) ++ txt') ++ wend)
        with (lead inner ++ d ++ w ++ 44 :: (lead inner ++ txt' ++ wend)).
      * apply E_cons; [apply ws_lead|exact HV|exact Hws|apply HE; exact Hwe].
      * norm_app. reflexivity.
Qed.

Lemma colon_split inner : exists w2 w3, w_colon inner = w2 ++ 58 :: w3 /\ ws w2 /\ ws w3.
Proof.
  destruct inner; cbn [w_colon].
  - exists [32], [9]. repeat split; repeat constructor.
  - exists [], []. repeat split; constructor.
Qed.

Lemma membs_text inner n : forall rest pre, rest <> [] ->
  keys_sorted (pre ++ rest) = true ->
  Forall (fun kv : list N * jv => P_w (snd kv)) rest ->
  Forall (fun kv : list N * jv => utf8_valid (fst kv) = true /\ wgood (snd kv)) rest ->
  Forall (fun kv : list N * jv => (depth (snd kv) <= n)%nat) rest ->
  exists txt, wmembs inner rest = Some txt /\
    forall wend, ws wend -> Members n (lead inner ++ txt ++ wend) (mapf pre) (mapf (pre ++ rest)).
Proof.
  induction rest as [|[k x] r IH]; intros pre Hne HS HP HG HD; [contradiction|].
  inversion HP as [|? ? HPx HPr]; subst. inversion HG as [|? ? [HGk HGx] HGr]; subst. inversion HD as [|? ? HDx HDr]; subst.
  cbn [fst snd] in *.
  destruct (HPx HGx inner n HDx) as [d [w [Hw [Hws HV]]]].
  destruct (colon_split inner) as [w2 [w3 [Hc [Hw2 Hw3]]]].
  pose proof (sorted_app_lt k x r pre HS) as LT.
  destruct (insert_above k (map_nums rt x) (mapf pre) (mapf_keys_lt k pre LT)) as [NM INS].
  assert (MP : mapf pre ++ [(k, map_nums rt x)] = mapf (pre ++ [(k, x)])).
  { unfold mapf. rewrite map_app. reflexivity. }
  destruct r as [|y r'].
  - exists ((write_string k ++ w_colon inner) ++ d ++ w). split.
    + cbn [wmembs]. rewrite Hw. reflexivity.
    + intros wend Hwe. rewrite <- MP, <- INS.
      replace (lead inner ++ ((write_string k ++ w_colon inner) ++ d ++ w) ++ wend)
        with (lead inner ++ 34 :: flat_map esc1 k ++ 34 :: w2 ++ 58 :: w3 ++ d ++ (w ++ wend)).
      * apply M_one; try assumption; [apply ws_lead|apply esc_body|apply ws_app; assumption].
      * unfold write_string. rewrite Hc. norm_app. reflexivity.
  - assert (HS' : keys_sorted ((pre ++ [(k, x)]) ++ y :: r') = true) by (rewrite <- app_assoc; exact HS).
    destruct (IH (pre ++ [(k, x)]) ltac:(discriminate) HS' HPr HGr HDr) as [txt' [Ht' HM]].
    exists (((write_string k ++ w_colon inner) ++ d ++ w) ++ (44 :: lead inner) ++ txt'). split.
    + change (wmembs inner ((k, x) :: y :: r')) with
        (opt_app (opt_app (Some (write_string k ++ w_colon inner)) (write inner x))
           (opt_app (Some (w_comma inner)) (wmembs inner (y :: r')))).
      rewrite Hw, Ht', w_comma_eq. reflexivity.
    + intros wend Hwe.
      replace (lead inner ++ (((write_string k ++ w_colon inner) ++ d ++ w) ++ (44 :: lead inner) ++ txt') ++ wend)
        with (lead inner ++ 34 :: flat_map esc1 k ++ 34 :: w2 ++ 58 :: w3 ++ d ++ w ++ 44 :: (lead inner ++ txt' ++ wend)).
      * apply M_cons with (k := k) (v := map_nums rt x); try assumption; [apply ws_lead|apply esc_body|].
        rewrite INS, MP. replace (pre ++ (k, x) :: y :: r') with ((pre ++ [(k, x)]) ++ y :: r') by (rewrite <- app_assoc; reflexivity).
        apply HM. exact Hwe.
      * unfold write_string. rewrite Hc. norm_app. reflexivity.
Qed.

Lemma write_in_grammar : forall v, P_w v.
Proof.
  apply jv_ind'; unfold P_w.
  - intros G. inversion G.
  - intros _ tabs n _. exists lit_null, []. rewrite app_nil_r. repeat split; [constructor|apply V_null].
  - intros b _ tabs n _. destruct b.
    + exists lit_true, []. repeat split; [constructor|apply V_true].
    + exists lit_false, []. repeat split; [constructor|apply V_false].
  - intros x G tabs n _. inversion G as [| |? [neg [i [f [e [Hi [Hf [He [Hp Ht]]]]]]]]| | |]; subst.
    exists (print16 x), []. rewrite app_nil_r. repeat split; [constructor|].
    cbn [map_nums]. rewrite Hp. apply V_num; assumption.
  - intros s G tabs n _. inversion G as [| | |? Hu| |]; subst.
    exists (write_string s), []. rewrite app_nil_r. repeat split; [constructor|].
    cbn [map_nums]. unfold write_string. apply V_str; [apply esc_body|exact Hu].
  - intros l HP G tabs n Hd. inversion G as [| | | |? HG|]; subst.
    cbn [depth] in Hd. destruct n as [|n0]; [lia|].
    rewrite write_arr, w_open_eq, w_close_eq. cbn [map_nums]. fold (map (map_nums rt) l).
    destruct l as [|x r].
    + exists (91 :: (lead (option_map S tabs) ++ lead tabs) ++ [93]), (lead tabs).
      split; [cbn [welems opt_app]; norm_app; reflexivity|].
      split; [apply ws_lead|]. apply V_arr0. apply ws_app; apply ws_lead.
    + assert (HD : Forall (fun x => (depth x <= n0)%nat) (x :: r)) by (apply (fold_max_Forall depth); lia).
      destruct (elems_text (option_map S tabs) n0 (x :: r) ltac:(discriminate) HP HG HD) as [txt [Ht HE]].
      exists (91 :: (lead (option_map S tabs) ++ txt ++ lead tabs) ++ [93]), (lead tabs).
      split; [rewrite Ht; cbn [opt_app]; norm_app; reflexivity|].
      split; [apply ws_lead|]. apply V_arr. apply HE. apply ws_lead.
  - intros m HP G tabs n Hd. inversion G as [| | | | |? HS HG]; subst.
    cbn [depth] in Hd. destruct n as [|n0]; [lia|].
    rewrite write_obj, w_open_eq, w_close_eq. cbn [map_nums]. fold (mapf m).
    destruct m as [|kx r].
    + exists (123 :: (lead (option_map S tabs) ++ lead tabs) ++ [125]), (lead tabs).
      split; [cbn [wmembs opt_app]; norm_app; reflexivity|].
      split; [apply ws_lead|]. apply V_obj0. apply ws_app; apply ws_lead.
    + assert (HD : Forall (fun kv : list N * jv => (depth (snd kv) <= n0)%nat) (kx :: r))
        by (apply (fold_max_Forall (fun kv : list N * jv => depth (snd kv))); lia).
      destruct (membs_text (option_map S tabs) n0 (kx :: r) [] ltac:(discriminate) HS HP HG HD) as [txt [Ht HM]].
      exists (123 :: (lead (option_map S tabs) ++ txt ++ lead tabs) ++ [125]), (lead tabs).
      split; [rewrite Ht; cbn [opt_app]; norm_app; reflexivity|].
      split; [apply ws_lead|]. apply V_obj. apply (HM (lead tabs)). apply ws_lead.
Qed.

(* save then load gives the value back (numbers through the printer) *)
Theorem write_parse v tabs : wgood v -> (depth v <= max_depth)%nat ->
  exists txt, write tabs v = Some txt /\ parse to_double true txt = POk (map_nums rt v) [].
Proof.
  intros G D. destruct (write_in_grammar v G tabs max_depth D) as [d [w [Hw [Hws HV]]]].
  exists (d ++ w). split; [exact Hw|].
  apply (rfc_accepted to_double max_depth d (map_nums rt v) [] w HV (le_n _)); [constructor|exact Hws].
Qed.

Theorem save_load v readable : wgood v -> (depth v <= max_depth)%nat ->
  exists txt, save print16 readable v = Some txt /\
    forall target, load to_double target true txt = (true, map_nums rt v).
Proof.
  intros G D. unfold save. destruct (write_parse v (if readable then Some O else None) G D) as [txt [H1 H2]].
  exists txt. split; [exact H1|]. intros target. unfold load. rewrite H2. reflexivity.
Qed.

(* from the boolean predicates of Defs.v *)
Lemma wgood_of_bools (p : N -> bool) : (forall x, p x = true -> num_ok x) ->
  forall v, no_undef v = true -> strings_ok utf8_valid v = true -> maps_ok v = true -> nums_ok p v = true -> wgood v.
Proof.
  intros Hp. apply (jv_ind' (fun v => no_undef v = true -> strings_ok utf8_valid v = true -> maps_ok v = true -> nums_ok p v = true -> wgood v)).
  - discriminate.
  - intros; constructor.
  - intros; constructor.
  - intros x _ _ _ H. constructor. apply Hp. exact H.
  - intros s _ H _ _. constructor. exact H.
  - intros l IH H1 H2 H3 H4. cbn [no_undef strings_ok maps_ok nums_ok] in *. constructor.
    induction IH as [|x l Hx _ IHl]; [constructor|]. cbn [forallb] in *.
    apply andb_true_iff in H1, H2, H3, H4. destruct H1, H2, H3, H4. constructor; [apply Hx; assumption|apply IHl; assumption].
  - intros m IH H1 H2 H3 H4. cbn [no_undef strings_ok maps_ok nums_ok] in *.
    apply andb_true_iff in H3. destruct H3 as [HS H3]. constructor; [exact HS|]. clear HS.
    induction IH as [|x l Hx _ IHl]; [constructor|]. cbn [forallb] in *.
    apply andb_true_iff in H1, H2, H3, H4. destruct H1, H2 as [H2 ?], H3, H4. apply andb_true_iff in H2. destruct H2.
    constructor; [split; [assumption|apply Hx; assumption]|apply IHl; assumption].
Qed.

End W.
