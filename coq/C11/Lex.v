(* C11: what the tokenizer skips.  next false s = (t, r, _) for a proper token t means: s = pre ++ tl where pre is a sequence of
   SP / HT / CR / LF bytes and // comments ended by LF, tl starts with a byte that begins a token, and the token is read at tl.
   Together with string_token_exact, number_token_exact and tokenizer_dispatch_by_class (all stated on an input that starts
   with the first byte of the token) this describes the accepted inputs byte by byte. *)
From CppcmsV Require Import Base.Tac C11.Defs C11.Proofs1 C11.Proofs3 C11.TokClass C11.Sound.
Local Open Scope N_scope.

(* skipped text outside a comment *)
Inductive Skip : list N -> Prop :=
| SK_nil : Skip []
| SK_ws c pre : is_ws c = true -> Skip pre -> Skip (c :: pre)
| SK_comment body pre : Forall (fun c => c <> 10) body -> Skip pre -> Skip (47 :: 47 :: body ++ 10 :: pre).
(* skipped text when the scan starts inside a comment *)
Definition SkipC (cm : bool) (pre : list N) : Prop :=
  if cm then exists body pre', pre = body ++ 10 :: pre' /\ Forall (fun c => c <> 10) body /\ Skip pre' else Skip pre.
(* the byte begins a token: not whitespace, not a newline, not a comment start *)
Definition token_start (tl : list N) : Prop :=
  match tl with c :: _ => tok_class c <> 2 /\ tok_class c <> 3 /\ tok_class c <> 9 | [] => False end.

Section L.
Variable to_double : list N -> option N.
Notation next := (next to_double).

Lemma ws_class c : tok_class c = 2 \/ tok_class c = 3 -> is_ws c = true.
Proof.
  unfold tok_class, is_ws. destruct (is_struct c); [intros [H|H]; discriminate|].
  destruct (N.eqb_spec c 32); [subst; reflexivity|]. destruct (N.eqb_spec c 9); [subst; reflexivity|].
  destruct (N.eqb_spec c 13); [subst; reflexivity|]. cbn [orb].
  destruct (N.eqb_spec c 10); [subst; reflexivity|].
  destruct (c =? 34); [intros [H|H]; discriminate|]. destruct (c =? 116); [intros [H|H]; discriminate|].
  destruct (c =? 110); [intros [H|H]; discriminate|]. destruct (c =? 102); [intros [H|H]; discriminate|].
  destruct ((c =? 45) || is_digit c); [intros [H|H]; discriminate|]. destruct (c =? 47); intros [H|H]; discriminate.
Qed.
Lemma class9 c : tok_class c = 9 -> c = 47.
Proof.
  unfold tok_class. destruct (is_struct c); [discriminate|]. destruct ((c =? 32) || (c =? 9) || (c =? 13)); [discriminate|].
  destruct (c =? 10); [discriminate|]. destruct (c =? 34); [discriminate|]. destruct (c =? 116); [discriminate|].
  destruct (c =? 110); [discriminate|]. destruct (c =? 102); [discriminate|]. destruct ((c =? 45) || is_digit c); [discriminate|].
  destruct (N.eqb_spec c 47); [intros _; assumption|discriminate].
Qed.

Lemma next_skips_aux n : forall s cm t r k, (length s <= n)%nat -> next cm s = (t, r, k) -> good_token t ->
  exists pre tl k0, s = pre ++ tl /\ SkipC cm pre /\ token_start tl /\ next false tl = (t, r, k0).
Proof.
  induction n as [|n IH]; intros s cm t r k L H G.
  - destruct s; [|cbn [length] in L; lia]. cbn [Defs.next] in H. inversion H; subst. destruct G.
  - destruct s as [|c s1]; [cbn [Defs.next] in H; inversion H; subst; destruct G|]. cbn [length] in L.
    destruct cm.
    + (* inside a comment *)
      cbn [Defs.next] in H. destruct (N.eqb_spec c 10) as [E|E].
      * subst c. destruct (IH s1 false t r k ltac:(lia) H G) as [pre [tl [k0 [E1 [S1 [T1 N1]]]]]].
        exists (10 :: pre), tl, k0. split; [rewrite E1; reflexivity|]. split; [|split; assumption].
        exists [], pre. split; [reflexivity|]. split; [constructor|exact S1].
      * destruct (IH s1 true t r k ltac:(lia) H G) as [pre [tl [k0 [E1 [[body [pre' [E2 [F2 S2]]]] [T1 N1]]]]]].
        exists (c :: pre), tl, k0. split; [rewrite E1; reflexivity|]. split; [|split; assumption].
        exists (c :: body), pre'. split; [rewrite E2; reflexivity|]. split; [constructor; assumption|exact S2].
    + rewrite (next_by_class to_double c s1) in H. unfold next_spec in H.
      destruct (N.eq_dec (tok_class c) 2) as [C2|C2].
      { rewrite C2 in H. destruct (IH s1 false t r k ltac:(lia) H G) as [pre [tl [k0 [E1 [S1 [T1 N1]]]]]].
        exists (c :: pre), tl, k0. split; [rewrite E1; reflexivity|]. split; [|split; assumption].
        apply SK_ws; [apply ws_class; left; exact C2|exact S1]. }
      destruct (N.eq_dec (tok_class c) 3) as [C3|C3].
      { rewrite C3 in H. destruct (next false s1) as [[t' r'] k'] eqn:E. inversion H; subst.
        destruct (IH s1 false t r k' ltac:(lia) E G) as [pre [tl [k0 [E1 [S1 [T1 N1]]]]]].
        exists (c :: pre), tl, k0. split; [rewrite E1; reflexivity|]. split; [|split; assumption].
        apply SK_ws; [apply ws_class; right; exact C3|exact S1]. }
      destruct (N.eq_dec (tok_class c) 9) as [C9|C9].
      { rewrite C9 in H. pose proof (class9 c C9) as Ec. subst c.
        destruct s1 as [|c2 s2]; [inversion H; subst; destruct G|].
        destruct (N.eqb_spec c2 47) as [E2|E2]; [subst c2|inversion H; subst; destruct G]. cbn [length] in L.
        destruct (IH s2 true t r k ltac:(lia) H G) as [pre [tl [k0 [E1 [[body [pre' [E3 [F3 S3]]]] [T1 N1]]]]]].
        exists (47 :: 47 :: pre), tl, k0. split; [rewrite E1; reflexivity|]. split; [|split; assumption].
        rewrite E3. apply SK_comment; assumption. }
      exists [], (c :: s1), k. split; [reflexivity|]. split; [constructor|]. split; [repeat split; assumption|].
      rewrite (next_by_class to_double c s1). exact H.
Qed.

Theorem next_skips_then_reads s t r k : next false s = (t, r, k) -> good_token t ->
  exists pre tl k0, s = pre ++ tl /\ Skip pre /\ token_start tl /\ next false tl = (t, r, k0).
Proof. intros H G. exact (next_skips_aux (length s) s false t r k (le_n _) H G). Qed.
End L.
