(* C11: the string literals the tokenizer accepts are exactly the texts of the grammar StrBody whose decoded content is
   valid UTF-8 (converse of Proofs3.scan_string_body). *)
From CppcmsV Require Import Base.Tac C11.Defs C11.Proofs1 C11.Proofs3.
Local Open Scope N_scope.

Lemma simple_esc_of e x : (e =? 34) || (e =? 92) || (e =? 47) = true -> x = e -> simple_esc e = Some x.
Proof.
  intros H E. subst x. unfold simple_esc.
  destruct (N.eqb_spec e 34); [subst; reflexivity|]. destruct (N.eqb_spec e 92); [subst; reflexivity|].
  destruct (N.eqb_spec e 47); [subst; reflexivity|]. discriminate.
Qed.

(* what an accepted scan looks like, by the surrogate state it starts in *)
Definition shape (pend : option N) (s str r : list N) : Prop :=
  match pend with
  | None => exists b, s = b ++ 34 :: r /\ StrBody b str
  | Some w => exists l1 l2 l3 l4 b str', s = 92 :: 117 :: l1 :: l2 :: l3 :: l4 :: b ++ 34 :: r /\
                hex4_ok l1 l2 l3 l4 = true /\ is_second_surrogate (hex4 l1 l2 l3 l4) = true /\
                StrBody b str' /\ str = utf8_encode (combine_surrogate w (hex4 l1 l2 l3 l4)) ++ str'
  end.

Lemma scan_string_inv_aux n : forall s pend str r, (length s <= n)%nat -> scan_string pend s = Some (str, r) -> shape pend s str r.
Proof.
  induction n as [|n IH]; intros s pend str r L H.
  - destruct s; [discriminate|cbn [length] in L; lia].
  - destruct s as [|c s1]; [discriminate|]. cbn [length] in L.
    destruct pend as [w|].
    + (* a low surrogate escape must follow *)
      cbn [scan_string is_some andb] in H.
      destruct (N.eqb_spec c 92) as [Ec|Ec]; [subst c|discriminate]. cbn [negb] in H.
      change (92 <=? 31) with false in H. change (92 =? 34) with false in H. cbv iota in H.
      destruct s1 as [|e s2]; [discriminate|].
      destruct (N.eqb_spec e 117) as [Ee|Ee]; [subst e|discriminate]. cbn [negb] in H.
      change ((117 =? 34) || (117 =? 92) || (117 =? 47)) with false in H.
      change (117 =? 98) with false in H. change (117 =? 102) with false in H. change (117 =? 110) with false in H.
      change (117 =? 114) with false in H. change (117 =? 116) with false in H. cbv iota in H.
      destruct s2 as [|l1 [|l2 [|l3 [|l4 s3]]]]; try discriminate.
      fold (hex4_ok l1 l2 l3 l4) in H. fold (hex4 l1 l2 l3 l4) in H.
      destruct (hex4_ok l1 l2 l3 l4) eqn:Hh; [|discriminate]. cbv zeta in H.
      destruct (is_second_surrogate (hex4 l1 l2 l3 l4)) eqn:Hs; [|discriminate].
      apply appb_inv in H. destruct H as [str' [H1 H2]].
      apply IH in H1; [|cbn [length] in L; lia]. destruct H1 as [b [E B]].
      exists l1, l2, l3, l4, b, str'. repeat split; try assumption. rewrite E. reflexivity.
    + cbn [scan_string is_some andb] in H.
      destruct (N.leb_spec c 31) as [C31|C31]; [discriminate|].
      destruct (N.eqb_spec c 34) as [E34|E34].
      { inversion H; subst. exists []. split; [reflexivity|constructor]. }
      destruct (N.eqb_spec c 92) as [E92|E92].
      * subst c. destruct s1 as [|e s2]; [discriminate|]. cbn [length] in L.
        destruct ((e =? 34) || (e =? 92) || (e =? 47)) eqn:E1.
        { apply consb_inv in H. destruct H as [str' [H1 H2]]. apply IH in H1; [|lia]. destruct H1 as [b [E B]]. subst.
          exists (92 :: e :: b). split; [reflexivity|]. apply (SB_esc e e); [apply simple_esc_of; [exact E1|reflexivity]|exact B]. }
        destruct (N.eqb_spec e 98). { subst. apply consb_inv in H. destruct H as [str' [H1 H2]]. apply IH in H1; [|lia]. destruct H1 as [b [E B]]. subst.
          exists (92 :: 98 :: b). split; [reflexivity|]. apply (SB_esc 98 8); [reflexivity|exact B]. }
        destruct (N.eqb_spec e 102). { subst. apply consb_inv in H. destruct H as [str' [H1 H2]]. apply IH in H1; [|lia]. destruct H1 as [b [E B]]. subst.
          exists (92 :: 102 :: b). split; [reflexivity|]. apply (SB_esc 102 12); [reflexivity|exact B]. }
        destruct (N.eqb_spec e 110). { subst. apply consb_inv in H. destruct H as [str' [H1 H2]]. apply IH in H1; [|lia]. destruct H1 as [b [E B]]. subst.
          exists (92 :: 110 :: b). split; [reflexivity|]. apply (SB_esc 110 10); [reflexivity|exact B]. }
        destruct (N.eqb_spec e 114). { subst. apply consb_inv in H. destruct H as [str' [H1 H2]]. apply IH in H1; [|lia]. destruct H1 as [b [E B]]. subst.
          exists (92 :: 114 :: b). split; [reflexivity|]. apply (SB_esc 114 13); [reflexivity|exact B]. }
        destruct (N.eqb_spec e 116). { subst. apply consb_inv in H. destruct H as [str' [H1 H2]]. apply IH in H1; [|lia]. destruct H1 as [b [E B]]. subst.
          exists (92 :: 116 :: b). split; [reflexivity|]. apply (SB_esc 116 9); [reflexivity|exact B]. }
        destruct (N.eqb_spec e 117) as [E117|E117]; [subst e|discriminate].
        destruct s2 as [|h1 [|h2 [|h3 [|h4 s3]]]]; try discriminate. cbn [length] in L.
        fold (hex4_ok h1 h2 h3 h4) in H. fold (hex4 h1 h2 h3 h4) in H.
        destruct (hex4_ok h1 h2 h3 h4) eqn:Hh; [|discriminate]. cbv zeta in H.
        destruct (is_first_surrogate (hex4 h1 h2 h3 h4)) eqn:Hf.
        -- apply IH in H; [|lia]. destruct H as [l1 [l2 [l3 [l4 [b [str' [E [Hl [Hs [B Es]]]]]]]]]]. subst.
           exists (92 :: 117 :: h1 :: h2 :: h3 :: h4 :: 92 :: 117 :: l1 :: l2 :: l3 :: l4 :: b). split; [reflexivity|].
           apply SB_pair; assumption.
        -- apply appb_inv in H. destruct H as [str' [H1 H2]]. apply IH in H1; [|lia]. destruct H1 as [b [E B]]. subst.
           exists (92 :: 117 :: h1 :: h2 :: h3 :: h4 :: b). split; [reflexivity|]. apply SB_u; assumption.
      * apply consb_inv in H. destruct H as [str' [H1 H2]]. apply IH in H1; [|lia]. destruct H1 as [b [E B]]. subst.
        exists (c :: b). split; [reflexivity|]. apply SB_raw; [lia|exact E34|exact E92|exact B].
Qed.

Theorem scan_string_exact s str r :
  scan_string None s = Some (str, r) <-> exists b, s = b ++ 34 :: r /\ StrBody b str.
Proof.
  split.
  - intros H. exact (scan_string_inv_aux (length s) s None str r (le_n _) H).
  - intros [b [E B]]. subst. apply scan_string_body. exact B.
Qed.

(* token level: the tokenizer answers a string token on an input starting with a quote exactly for the literals of the grammar
   whose decoded content is valid UTF-8 *)
Theorem string_token_exact to_double s str r n :
  next to_double false (34 :: s) = (TStr str, r, n) <->
  (n = 0 /\ exists b, s = b ++ 34 :: r /\ StrBody b str /\ utf8_valid str = true).
Proof.
  cbn [Defs.next]. change (is_struct 34) with false.
  change ((34 =? 32) || (34 =? 9) || (34 =? 13)) with false. change (34 =? 10) with false.
  change (34 =? 34) with true. cbv iota.
  split.
  - destruct (scan_string None s) as [[str' r']|] eqn:E; [|discriminate].
    destruct (utf8_valid str') eqn:U; [|discriminate]. intros H. inversion H; subst.
    apply scan_string_exact in E. destruct E as [b [E B]]. split; [reflexivity|]. exists b. repeat split; assumption.
  - intros [Hn [b [E [B U]]]]. subst. rewrite (scan_string_body b str B r), U. reflexivity.
Qed.

(* the \u accumulation (sscanf "%x" on four hex digits, stored into a uint16_t): digit values and no truncation *)
Lemma hexval_digit c : is_hex c = true ->
  (48 <= c <= 57 /\ hexval c = c - 48) \/ (65 <= c <= 70 /\ hexval c = c - 55) \/ (97 <= c <= 102 /\ hexval c = c - 87).
Proof.
  unfold is_hex, is_digit, hexval. intros H.
  destruct (N.leb_spec 48 c); destruct (N.leb_spec c 57); destruct (N.leb_spec 65 c); destruct (N.leb_spec c 70);
    destruct (N.leb_spec 97 c); destruct (N.leb_spec c 102); cbn [andb orb] in H; try discriminate; try lia;
    solve [left; split; lia | right; left; split; lia | right; right; split; lia].
Qed.
Theorem hex_accumulation h1 h2 h3 h4 : hex4_ok h1 h2 h3 h4 = true ->
  hex4 h1 h2 h3 h4 = 4096 * hexval h1 + 256 * hexval h2 + 16 * hexval h3 + hexval h4 /\
  hexval h1 < 16 /\ hexval h2 < 16 /\ hexval h3 < 16 /\ hexval h4 < 16 /\ hex4 h1 h2 h3 h4 < 65536.
Proof.
  unfold hex4_ok. intros H. apply andb_true_iff in H. destruct H as [H H4]. apply andb_true_iff in H. destruct H as [H H3].
  apply andb_true_iff in H. destruct H as [H1 H2].
  pose proof (hexval_digit h1 H1) as D1. pose proof (hexval_digit h2 H2) as D2.
  pose proof (hexval_digit h3 H3) as D3. pose proof (hexval_digit h4 H4) as D4.
  unfold hex4. lia.
Qed.
