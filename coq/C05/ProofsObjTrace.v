(* C05: the object-level history (explicit iv_enc / iv_dec state, Defs.v) refines the IV-passing history of
   ProofsTrace.v: the verdict of a load does not depend on the state of the object at all (neither on earlier
   saves nor on earlier loads), so every theorem about the trace model holds for histories on one object. *)
From CppcmsV Require Import Base.Tac Base.Sweep C15.Defs C15.Proofs C05.Defs C05.Proofs C05.ProofsAes C05.ProofsCookies
  C05.ProofsTrace C05.ProofsObj.
Local Open Scope N_scope.

Definition trace_op (op : sop) : ProofsTrace.op :=
  match op with SSave d t => OSave d t | SLoad now ck => OLoad ck now end.
Definition obj_res (r : list N + verdict) : sres :=
  match r with inl ck => RSaved ck | inr v => RLoaded v end.

Lemma cbc_dec_next_length : forall nb iv inp, length iv = 16%nat -> (16 * nb <= length inp)%nat ->
  length (cbc_dec_next nb iv inp) = 16%nat.
Proof.
  induction nb as [|n IH]; intros iv inp Hiv Hl; cbn [cbc_dec_next]; [exact Hiv|].
  apply IH; [apply firstn_length_le; lia|rewrite skipn_length; lia].
Qed.

Section ObjTrace.
  Variable hmac : N -> list N -> list N -> list N.
  Variable dlen : N -> nat.
  Variable E D : list N -> list N -> list N.
  Hypothesis hmac_len : forall a k m, length (hmac a k m) = dlen a.
  Hypothesis Elen : forall k b, length (E k b) = 16%nat.
  Hypothesis Dlen : forall k b, length (D k b) = 16%nat.
  Hypothesis DE : forall k b, length b = 16%nat -> D k (E k b) = b.

  (* the decryption vector never decides anything: the first plain block, the only one it touches, is discarded *)
  Lemma decrypt_iv_indep c ivd1 ivd2 ci : length ivd1 = 16%nat -> length ivd2 = 16%nat ->
    decrypt hmac dlen D c ivd1 ci = decrypt hmac dlen D c ivd2 ci.
  Proof.
    intros H1 H2.
    pose proof (decrypt_spec hmac dlen E D hmac_len Elen Dlen DE c ivd1 ci) as S1.
    pose proof (decrypt_spec hmac dlen E D hmac_len Elen Dlen DE c ivd2 ci) as S2.
    destruct (decrypt hmac dlen D c ivd1 ci) as [m|] eqn:E1.
    - symmetry. apply (S2 m H2). apply (S1 m H1). reflexivity.
    - destruct (decrypt hmac dlen D c ivd2 ci) as [m'|] eqn:E2; [|reflexivity].
      assert (Hs : Some m' = Some m') by reflexivity.
      apply (S2 m' H2) in Hs. apply (S1 m' H1) in Hs. discriminate.
  Qed.

  Lemma cookies_load_iv_indep c now ivd1 ivd2 ck : length ivd1 = 16%nat -> length ivd2 = 16%nat ->
    cookies_load hmac dlen D c now ivd1 ck = cookies_load hmac dlen D c now ivd2 ck.
  Proof.
    intros H1 H2. unfold cookies_load. destruct ck as [|c0 rest]; [reflexivity|].
    destruct (negb (c0 =? 67)); [reflexivity|].
    destruct (decode_str rest) as [ci|]; [|reflexivity].
    rewrite (decrypt_iv_indep c ivd1 ivd2 ci H1 H2). reflexivity.
  Qed.

  (* invariant of the decryption side: always one block *)
  Lemma aes_auth_ok_blocks ma mk ci : aes_auth_ok hmac dlen ma mk ci = true ->
    (16 * ((length ci - dlen ma) / 16) <= length ci)%nat.
  Proof.
    unfold aes_auth_ok. destruct (Nat.ltb_spec (length ci) (dlen ma + 16)) as [H|H]; [discriminate|].
    intros _. pose proof (Nat.mul_div_le (length ci - dlen ma) 16 ltac:(lia)). lia.
  Qed.

  Lemma load_keeps_iv_dec_length c now o ck : length (iv_dec o) = 16%nat ->
    length (iv_dec (snd (cookies_obj_load hmac dlen D c now o ck))) = 16%nat.
  Proof.
    intros H. unfold cookies_obj_load. cbn [snd].
    destruct ck as [|c0 rest]; [exact H|].
    destruct (negb (c0 =? 67)); [exact H|].
    destruct (decode_str rest) as [ci|]; [|exact H].
    destruct c as [a k|ck' ma mk]; cbn [enc_obj_decrypt snd]; [exact H|].
    unfold aes_obj_decrypt. cbn [snd].
    destruct (aes_auth_ok hmac dlen ma mk ci) eqn:Ha; [|exact H].
    cbn [iv_dec]. apply cbc_dec_next_length; [exact H|apply (aes_auth_ok_blocks ma mk); exact Ha].
  Qed.

  (* REFINEMENT: a history on one object answers exactly as the IV-passing history of ProofsTrace.v started from the
     encryption vector of the object; in particular load verdicts are those of the stateless cookies_load *)
  Lemma obj_run_is_trace c : forall ops o, length (iv_dec o) = 16%nat ->
    cookies_obj_run hmac dlen E D c o ops = map obj_res (run hmac dlen E D c (iv_enc o) (map trace_op ops)).
  Proof.
    induction ops as [|op r IH]; intros o Hd; [reflexivity|].
    destruct op as [d t|now ck]; cbn [cookies_obj_run cookies_obj_step map trace_op run obj_res].
    - pose proof (cookies_obj_save_is_save hmac E c o d t) as (H1 & H2 & H3 & _).
      destruct (cookies_obj_save hmac E c o d t) as [k1 o1]. cbn [fst snd] in *.
      rewrite H1. f_equal. rewrite <- H2. apply IH. rewrite H3. exact Hd.
    - pose proof (cookies_obj_load_keeps_enc_side hmac dlen D c now o ck) as [He _].
      pose proof (load_keeps_iv_dec_length c now o ck Hd) as Hl.
      pose proof (cookies_obj_load_is_load hmac dlen D c now o ck) as Hv.
      destruct (cookies_obj_load hmac dlen D c now o ck) as [v o1]. cbn [fst snd] in *.
      subst v. rewrite (cookies_load_iv_indep c now (iv_dec o) zero16 ck Hd (repeat_length _ _)).
      f_equal. rewrite <- He. apply IH. exact Hl.
  Qed.

  (* hence: the verdict of every load of a history is the stateless verdict, whatever the object went through before *)
  Lemma load_verdict_stateless c now o ck ivd : length (iv_dec o) = 16%nat -> length ivd = 16%nat ->
    fst (cookies_obj_load hmac dlen D c now o ck) = cookies_load hmac dlen D c now ivd ck.
  Proof. intros H1 H2. cbn [cookies_obj_load fst]. apply cookies_load_iv_indep; assumption. Qed.
End ObjTrace.

Section ObjTraceProperty.
  Variable hmac : N -> list N -> list N -> list N.
  Variable dlen : N -> nat.
  Variable E D : list N -> list N -> list N.
  Hypothesis hmac_len : forall a k m, length (hmac a k m) = dlen a.
  Hypothesis Elen : forall k b, length (E k b) = 16%nat.
  Hypothesis Dlen : forall k b, length (D k b) = 16%nat.
  Hypothesis DE : forall k b, length b = 16%nat -> D k (E k b) = b.
  Hypothesis hmac_bytes : forall a k m, bytes_ok (hmac a k m).
  Hypothesis E_bytes : forall k b, bytes_ok b -> bytes_ok (E k b).

  (* the first sentence of the property for every history on one encryptor object with its two chaining vectors *)
  Lemma obj_history_accepts_only_issued c ops o hist :
    length (iv_enc o) = 16%nat -> length (iv_dec o) = 16%nat -> Forall save_ok hist -> Forall op_ok (map trace_op ops) ->
    unforgeable hmac E c (iv_enc o) hist (map trace_op ops) ->
    cookies_obj_run hmac dlen E D c o ops = map obj_res (run hmac dlen E D c (iv_enc o) (map trace_op ops)) /\
    accepted_were_issued hmac dlen E D c (iv_enc o) hist (map trace_op ops).
  Proof.
    intros He Hd Hh Hops UF. split.
    - apply (obj_run_is_trace hmac dlen E D hmac_len Elen Dlen DE). exact Hd.
    - apply (history_accepts_only_issued hmac dlen E D hmac_len Elen Dlen DE hmac_bytes E_bytes); assumption.
  Qed.
End ObjTraceProperty.

(* the cbc object is a working CBC: after set_iv, what encrypt produced is read back by decrypt on the same object
   (both sides start from the vector that was set), and the two sides are then positioned after the same block *)
Section ObjRoundTrip.
  Variable E D : list N -> list N -> list N.
  Hypothesis Elen : forall k b, length (E k b) = 16%nat.
  Hypothesis Dlen : forall k b, length (D k b) = 16%nat.
  Hypothesis DE : forall k b, length b = 16%nat -> D k (E k b) = b.

  Lemma obj_set_iv_encrypt_decrypt k o iv p nb : length iv = 16%nat -> length p = (16 * nb)%nat ->
    obj_run E D k o [OSetIv iv; OEnc p; ODec (fst (cbc_enc E k nb iv p))] =
      [ONoOut; OOut (fst (cbc_enc E k nb iv p)); OOut p].
  Proof.
    intros Hiv Hp. cbn [obj_run obj_step]. rewrite Hiv. cbn [Nat.eqb iv_init].
    unfold obj_encrypt. cbn [iv_enc iv_dec iv_init].
    assert (Hq : (length p / 16 = nb)%nat) by (rewrite Hp; rewrite Nat.mul_comm; apply Nat.div_mul; discriminate).
    rewrite Hq.
    pose proof (cbc_enc_length E D Elen Dlen DE k nb iv p) as Hl.
    pose proof (cbc_dec_enc E D Elen Dlen DE k nb iv p Hiv Hp) as Hr.
    destruct (cbc_enc E k nb iv p) as [c iv'] eqn:Ec. cbn [fst] in *.
    cbn [obj_run obj_step iv_init]. unfold obj_decrypt. cbn [iv_dec iv_enc iv_init].
    assert (Hq2 : (length c / 16 = nb)%nat) by (rewrite Hl; rewrite Nat.mul_comm; apply Nat.div_mul; discriminate).
    rewrite Hq2, Hr. reflexivity.
  Qed.
End ObjRoundTrip.

(* the cbc object is reached by decrypt only for AUTHENTIC input: a cipher text whose tag is not the MAC of everything
   before it (or whose structure is wrong) leaves the whole encryptor state untouched, the decryption vector included *)
Section AuthGate.
  Variable hmac : N -> list N -> list N -> list N.
  Variable dlen : N -> nat.
  Variable D : list N -> list N -> list N.
  Hypothesis hmac_len : forall a k m, length (hmac a k m) = dlen a.

  Lemma aes_auth_ok_spec ma mk c :
    aes_auth_ok hmac dlen ma mk c = true <->
    (dlen ma + 16 <= length c)%nat /\ ((length c - dlen ma) mod 16 = 0)%nat /\ (2 <= (length c - dlen ma) / 16)%nat /\
    skipn (length c - dlen ma) c = hmac ma mk (firstn (length c - dlen ma) c).
  Proof.
    unfold aes_auth_ok.
    destruct (Nat.ltb_spec (length c) (dlen ma + 16)) as [H1|H1]; [split; [discriminate|intros (H & _); lia]|].
    set (real := (length c - dlen ma)%nat).
    destruct (Nat.eqb_spec (real mod 16) 0) as [H2|H2]; cbn [negb]; [|split; [discriminate|intros (_ & H & _); contradiction]].
    destruct (Nat.ltb_spec (real / 16) 2) as [H3|H3]; [split; [discriminate|intros (_ & _ & H & _); lia]|].
    assert (Hs : length (skipn real c) = dlen ma) by (rewrite skipn_length; unfold real; lia).
    rewrite (ct_equal_spec (dlen ma) _ _ (hmac_len _ _ _) Hs).
    split.
    - intros H. repeat split; auto.
    - intros (_ & _ & _ & H). symmetry. exact H.
  Qed.

  Lemma unauthenticated_input_leaves_object c o ci :
    snd (enc_obj_decrypt hmac dlen D c o ci) <> o ->
    exists ck ma mk, c = CAes ck ma mk /\
      skipn (length ci - dlen ma) ci = hmac ma mk (firstn (length ci - dlen ma) ci) /\
      ((length ci - dlen ma) mod 16 = 0)%nat /\ (2 <= (length ci - dlen ma) / 16)%nat.
  Proof.
    destruct c as [a k|ck ma mk]; cbn [enc_obj_decrypt snd]; [intros H; contradiction H; reflexivity|].
    unfold aes_obj_decrypt. cbn [snd].
    destruct (aes_auth_ok hmac dlen ma mk ci) eqn:Ha; [|intros H; contradiction H; reflexivity].
    intros _. apply aes_auth_ok_spec in Ha. destruct Ha as (H1 & H2 & H3 & H4).
    exists ck, ma, mk. repeat split; assumption.
  Qed.

  (* and accepted input is authentic input: decrypt returning a plaintext implies the gate was passed *)
  Lemma aes_decrypt_some_auth_ok ck ma mk ivd c m :
    aes_decrypt hmac dlen D ck ma mk ivd c = Some m -> aes_auth_ok hmac dlen ma mk c = true.
  Proof.
    unfold aes_decrypt, aes_auth_ok.
    destruct (Nat.ltb (length c) (dlen ma + 16)); [discriminate|].
    destruct (negb (Nat.eqb ((length c - dlen ma) mod 16) 0)); [discriminate|].
    destruct (Nat.ltb ((length c - dlen ma) / 16) 2); [discriminate|].
    destruct (ct_equal (dlen ma) (hmac ma mk (firstn (length c - dlen ma) c)) (skipn (length c - dlen ma) c)); [reflexivity|].
    cbn [negb]. discriminate.
  Qed.
End AuthGate.
