(* C05: leaf function regenerated from /repo's current source (coq/gen/Gen_c05key.v, by tools/cxx2v.py)
   proved equal to the model's leaf.  crypto::key::from_hex(char) is the digit value used by key::set_hex
   for every key read from the configuration. *)
From CppcmsV Require Import Base.Tac Base.CSem Base.Sweep C05.Defs gen.Gen_c05key.
Local Open Scope N_scope.

Lemma link_from_hex b : b < 256 ->
  Z.to_N (g_key_from_hex (wraps 8 (Z.of_N b))) = match hexv b with Some v => v | None => 0 end.
Proof.
  intros H. apply N.eqb_eq.
  apply (sweep256 (fun b => Z.to_N (g_key_from_hex (wraps 8 (Z.of_N b))) =? match hexv b with Some v => v | None => 0 end));
    [vm_compute; reflexivity|exact H].
Qed.

(* characters the model accepts as hex digits are exactly 0-9 a-f A-F, and then the value is below 16 *)
Lemma hexv_range b v : hexv b = Some v -> v < 16.
Proof.
  unfold hexv.
  destruct ((48 <=? b) && (b <=? 57)) eqn:H1; [intros H; injection H as <-; lia|].
  destruct ((97 <=? b) && (b <=? 102)) eqn:H2; [intros H; injection H as <-; lia|].
  destruct ((65 <=? b) && (b <=? 70)) eqn:H3; [intros H; injection H as <-; lia|discriminate].
Qed.
