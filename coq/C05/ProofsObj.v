(* C05: the encryptor OBJECT (two chaining vectors of src/aes.cpp, one cbc object per aes_cipher, one
   aes_cipher per session_cookies).  Non-interference: what encrypt produces, and the chaining vector it
   starts from, is a function of the initial encryption vector and of the earlier ENCRYPT calls only; no
   decrypted (client presented) input ever reaches it.  Symmetrically for decrypt. *)
From CppcmsV Require Import Base.Tac C15.Defs C05.Defs C05.Proofs C05.ProofsAes.
Local Open Scope N_scope.

Definition enc_side_eq (o o' : cbcobj) : Prop := iv_enc o = iv_enc o' /\ iv_init o = iv_init o'.
Definition dec_side_eq (o o' : cbcobj) : Prop := iv_dec o = iv_dec o' /\ iv_init o = iv_init o'.
Definition not_dec (op : cbcop) : bool := negb (is_dec_op op).
Definition not_enc (op : cbcop) : bool := negb (is_enc_op op).

(* the inputs of the encrypt calls of a history *)
Fixpoint enc_inputs (ops : list cbcop) : list (list N) :=
  match ops with
  | [] => []
  | OEnc inp :: r => inp :: enc_inputs r
  | _ :: r => enc_inputs r
  end.
Definition only_enc_dec (op : cbcop) : bool := is_enc_op op || is_dec_op op.

Section ObjGeneric.
  Variable hmac : N -> list N -> list N -> list N.
  Variable dlen : N -> nat.
  Variable E D : list N -> list N -> list N.

  (* ---------- cbc object ---------- *)
  Lemma obj_step_dec_keeps_enc_side k o inp : enc_side_eq (snd (obj_step E D k o (ODec inp))) o.
  Proof.
    unfold obj_step, enc_side_eq. destruct (iv_init o) eqn:Hi; cbn [snd]; [|split; congruence].
    unfold obj_decrypt. cbn [snd iv_enc iv_init]. split; congruence.
  Qed.

  Lemma obj_step_enc_keeps_dec_side k o inp : dec_side_eq (snd (obj_step E D k o (OEnc inp))) o.
  Proof.
    unfold obj_step, dec_side_eq. destruct (iv_init o) eqn:Hi; cbn [snd]; [|split; congruence].
    unfold obj_encrypt. destruct (cbc_enc E k (length inp / 16) (iv_enc o) inp) as [out iv'].
    cbn [snd iv_dec iv_init]. split; congruence.
  Qed.

  Lemma obj_step_not_dec k o o' op : enc_side_eq o o' -> is_dec_op op = false ->
    fst (obj_step E D k o op) = fst (obj_step E D k o' op) /\
    enc_side_eq (snd (obj_step E D k o op)) (snd (obj_step E D k o' op)).
  Proof.
    intros [Hiv Hin] Hop. destruct op as [iv|ne nd|inp|inp]; cbn [obj_step]; try discriminate.
    - destruct (Nat.eqb (length iv) 16); cbn [fst snd]; split; try reflexivity; split; assumption || reflexivity.
    - cbn [fst snd]. split; [reflexivity|split; reflexivity].
    - rewrite <- Hin. destruct (iv_init o) eqn:Hi; [|cbn [fst snd]; split; [reflexivity|split; [exact Hiv|congruence]]].
      unfold obj_encrypt. rewrite <- Hiv, <- Hin, Hi.
      destruct (cbc_enc E k (length inp / 16) (iv_enc o) inp) as [out iv'].
      cbn [fst snd]. split; [reflexivity|split; reflexivity].
  Qed.

  Lemma obj_step_not_enc k o o' op : dec_side_eq o o' -> is_enc_op op = false ->
    fst (obj_step E D k o op) = fst (obj_step E D k o' op) /\
    dec_side_eq (snd (obj_step E D k o op)) (snd (obj_step E D k o' op)).
  Proof.
    intros [Hiv Hin] Hop. destruct op as [iv|ne nd|inp|inp]; cbn [obj_step]; try discriminate.
    - destruct (Nat.eqb (length iv) 16); cbn [fst snd]; split; try reflexivity; split; assumption || reflexivity.
    - cbn [fst snd]. split; [reflexivity|split; reflexivity].
    - rewrite <- Hin. destruct (iv_init o) eqn:Hi; [|cbn [fst snd]; split; [reflexivity|split; [exact Hiv|congruence]]].
      unfold obj_decrypt. rewrite <- Hiv, <- Hin, Hi.
      cbn [fst snd]. split; [reflexivity|split; reflexivity].
  Qed.

  (* NON-INTERFERENCE, cbc object: the answers of the encrypt calls of ANY history are those of the
     history with every decrypt call deleted, from any state that agrees on the encryption side *)
  Lemma obj_enc_noninterference k : forall ops o o', enc_side_eq o o' ->
    obj_outs E D is_enc_op k o ops = obj_outs E D is_enc_op k o' (filter not_dec ops).
  Proof.
    induction ops as [|op r IH]; intros o o' Heq; [reflexivity|].
    cbn [obj_outs filter]. unfold not_dec at 1.
    destruct (is_dec_op op) eqn:Hd; cbn [negb].
    - destruct op as [iv|ne nd|inp|inp]; try discriminate.
      pose proof (obj_step_dec_keeps_enc_side k o inp) as Hk.
      destruct (obj_step E D k o (ODec inp)) as [res o1]. cbn [snd is_enc_op] in *.
      apply IH. destruct Hk as [H1 H2]. destruct Heq as [H3 H4]. split; congruence.
    - cbn [obj_outs].
      pose proof (obj_step_not_dec k o o' op Heq Hd) as [Hres Hst].
      destruct (obj_step E D k o op) as [res o1]. destruct (obj_step E D k o' op) as [res' o1'].
      cbn [fst snd] in *. subst res'.
      destruct (is_enc_op op); [f_equal|]; apply IH; exact Hst.
  Qed.

  Lemma obj_enc_ivs_noninterference k : forall ops o o', enc_side_eq o o' ->
    obj_enc_ivs E D k o ops = obj_enc_ivs E D k o' (filter not_dec ops).
  Proof.
    induction ops as [|op r IH]; intros o o' Heq; [reflexivity|].
    cbn [obj_enc_ivs filter]. unfold not_dec at 1.
    destruct (is_dec_op op) eqn:Hd; cbn [negb].
    - destruct op as [iv|ne nd|inp|inp]; try discriminate. cbn [is_enc_op].
      pose proof (obj_step_dec_keeps_enc_side k o inp) as Hk.
      apply IH. destruct Hk as [H1 H2]. destruct Heq as [H3 H4]. split; congruence.
    - cbn [obj_enc_ivs].
      pose proof (obj_step_not_dec k o o' op Heq Hd) as [Hres Hst].
      destruct Heq as [H3 H4].
      destruct (is_enc_op op); [rewrite H3; f_equal|]; apply IH; exact Hst.
  Qed.

  (* symmetric: decrypt answers do not depend on the encrypt calls *)
  Lemma obj_dec_noninterference k : forall ops o o', dec_side_eq o o' ->
    obj_outs E D is_dec_op k o ops = obj_outs E D is_dec_op k o' (filter not_enc ops).
  Proof.
    induction ops as [|op r IH]; intros o o' Heq; [reflexivity|].
    cbn [obj_outs filter]. unfold not_enc at 1.
    destruct (is_enc_op op) eqn:Hd; cbn [negb].
    - destruct op as [iv|ne nd|inp|inp]; try discriminate.
      pose proof (obj_step_enc_keeps_dec_side k o inp) as Hk.
      destruct (obj_step E D k o (OEnc inp)) as [res o1]. cbn [snd is_dec_op] in *.
      apply IH. destruct Hk as [H1 H2]. destruct Heq as [H3 H4]. split; congruence.
    - cbn [obj_outs].
      pose proof (obj_step_not_enc k o o' op Heq Hd) as [Hres Hst].
      destruct (obj_step E D k o op) as [res o1]. destruct (obj_step E D k o' op) as [res' o1'].
      cbn [fst snd] in *. subst res'.
      destruct (is_dec_op op); [f_equal|]; apply IH; exact Hst.
  Qed.

  (* the chain written out: with the vector set once (nonce) and then only encrypt / decrypt calls, the
     vector of the n-th encrypt is the nonce for n = 0 and otherwise what the (n-1)-th ENCRYPT left *)
  Fixpoint enc_chain (k iv : list N) (inps : list (list N)) : list (list N) :=
    match inps with
    | [] => []
    | inp :: r => iv :: enc_chain k (snd (cbc_enc E k (length inp / 16) iv inp)) r
    end.

  Lemma obj_enc_ivs_chain k : forall ops o, iv_init o = true -> forallb only_enc_dec ops = true ->
    obj_enc_ivs E D k o ops = enc_chain k (iv_enc o) (enc_inputs ops).
  Proof.
    induction ops as [|op r IH]; intros o Hi Hall; [reflexivity|].
    cbn [forallb] in Hall. apply andb_prop in Hall as [Hop Hall].
    destruct op as [iv|ne nd|inp|inp]; try discriminate; cbn [obj_enc_ivs is_enc_op enc_inputs enc_chain obj_step]; rewrite Hi.
    - unfold obj_encrypt. destruct (cbc_enc E k (length inp / 16) (iv_enc o) inp) as [out iv'] eqn:Ec.
      cbn [snd]. f_equal. rewrite IH; [reflexivity|exact Hi|exact Hall].
    - unfold obj_decrypt. cbn [snd]. rewrite IH; [reflexivity|exact Hi|exact Hall].
  Qed.

  (* ---------- aes_cipher / encryptor / session_cookies on the object ---------- *)
  Lemma enc_obj_decrypt_keeps_enc_side c o ci : enc_side_eq (snd (enc_obj_decrypt hmac dlen D c o ci)) o.
  Proof.
    destruct c as [a k|ck ma mk]; cbn [enc_obj_decrypt snd]; [split; reflexivity|].
    unfold aes_obj_decrypt. cbn [snd]. destruct (aes_auth_ok hmac dlen ma mk ci); split; reflexivity.
  Qed.

  Lemma cookies_obj_load_keeps_enc_side c now o ck : enc_side_eq (snd (cookies_obj_load hmac dlen D c now o ck)) o.
  Proof.
    unfold cookies_obj_load. cbn [snd].
    destruct ck as [|c0 rest]; [split; reflexivity|].
    destruct (negb (c0 =? 67)); [split; reflexivity|].
    destruct (decode_str rest) as [ci|]; [apply enc_obj_decrypt_keeps_enc_side|split; reflexivity].
  Qed.

  (* the object level is the IV-passing level of Defs.v with st = iv_enc *)
  Lemma enc_obj_encrypt_is_encrypt c o p :
    fst (enc_obj_encrypt hmac E c o p) = fst (encrypt hmac E c (iv_enc o) p) /\
    iv_enc (snd (enc_obj_encrypt hmac E c o p)) = snd (encrypt hmac E c (iv_enc o) p) /\
    iv_dec (snd (enc_obj_encrypt hmac E c o p)) = iv_dec o /\
    iv_init (snd (enc_obj_encrypt hmac E c o p)) = iv_init o.
  Proof.
    destruct c as [a k|ck ma mk]; cbn [enc_obj_encrypt encrypt fst snd]; [repeat split|].
    unfold aes_obj_encrypt. destruct (aes_encrypt hmac E ck ma mk (iv_enc o) p) as [ci iv'].
    cbn [fst snd iv_enc iv_dec iv_init]. repeat split.
  Qed.

  Lemma cookies_obj_save_is_save c o d t :
    fst (cookies_obj_save hmac E c o d t) = fst (cookies_save hmac E c (iv_enc o) d t) /\
    iv_enc (snd (cookies_obj_save hmac E c o d t)) = snd (cookies_save hmac E c (iv_enc o) d t) /\
    iv_dec (snd (cookies_obj_save hmac E c o d t)) = iv_dec o /\
    iv_init (snd (cookies_obj_save hmac E c o d t)) = iv_init o.
  Proof.
    unfold cookies_obj_save, cookies_save.
    pose proof (enc_obj_encrypt_is_encrypt c o (le64_enc t ++ d)) as (H1 & H2 & H3 & H4).
    destruct (enc_obj_encrypt hmac E c o (le64_enc t ++ d)) as [ci o'].
    destruct (encrypt hmac E c (iv_enc o) (le64_enc t ++ d)) as [ci' st'].
    cbn [fst snd] in *. subst ci'. repeat split; assumption.
  Qed.

  Lemma cookies_obj_load_is_load c now o ck :
    fst (cookies_obj_load hmac dlen D c now o ck) = cookies_load hmac dlen D c now (iv_dec o) ck.
  Proof. reflexivity. Qed.

  Lemma cookies_obj_save_enc_side c o o' d t : iv_enc o = iv_enc o' ->
    fst (cookies_obj_save hmac E c o d t) = fst (cookies_obj_save hmac E c o' d t) /\
    iv_enc (snd (cookies_obj_save hmac E c o d t)) = iv_enc (snd (cookies_obj_save hmac E c o' d t)).
  Proof.
    intros H.
    pose proof (cookies_obj_save_is_save c o d t) as (H1 & H2 & _).
    pose proof (cookies_obj_save_is_save c o' d t) as (H1' & H2' & _).
    rewrite H1, H1', H2, H2', H. split; reflexivity.
  Qed.

  (* NON-INTERFERENCE, session level: the cookies a session_cookies object issues over ANY history of saves
     and loads are those it would issue if no cookie had ever been presented to it *)
  Lemma cookies_issued_noninterference c : forall ops o o', iv_enc o = iv_enc o' ->
    cookies_issued hmac dlen E D c o ops = cookies_issued hmac dlen E D c o' (filter is_save_op ops).
  Proof.
    induction ops as [|op r IH]; intros o o' Heq; [reflexivity|].
    destruct op as [d t|now ck]; cbn [cookies_issued filter is_save_op cookies_obj_step].
    - pose proof (cookies_obj_save_enc_side c o o' d t Heq) as [H1 H2].
      destruct (cookies_obj_save hmac E c o d t) as [k1 o1]. destruct (cookies_obj_save hmac E c o' d t) as [k2 o2].
      cbn [fst snd] in *. subst k2. f_equal. apply IH. exact H2.
    - pose proof (cookies_obj_load_keeps_enc_side c now o ck) as [H1 _].
      destruct (cookies_obj_load hmac dlen D c now o ck) as [v o1]. cbn [snd] in H1.
      apply IH. congruence.
  Qed.

  Lemma cookies_save_ivs_noninterference c : forall ops o o', iv_enc o = iv_enc o' ->
    cookies_save_ivs hmac dlen E D c o ops = cookies_save_ivs hmac dlen E D c o' (filter is_save_op ops).
  Proof.
    induction ops as [|op r IH]; intros o o' Heq; [reflexivity|].
    destruct op as [d t|now ck]; cbn [cookies_save_ivs filter is_save_op cookies_obj_step].
    - pose proof (cookies_obj_save_enc_side c o o' d t Heq) as [H1 H2].
      destruct (cookies_obj_save hmac E c o d t) as [k1 o1]. destruct (cookies_obj_save hmac E c o' d t) as [k2 o2].
      cbn [fst snd] in *. rewrite Heq. f_equal. apply IH. exact H2.
    - pose proof (cookies_obj_load_keeps_enc_side c now o ck) as [H1 _].
      destruct (cookies_obj_load hmac dlen D c now o ck) as [v o1]. cbn [snd] in *.
      apply IH. congruence.
  Qed.

  (* a request = loads of presented cookies, then a save: the save does not see the loads *)
  Fixpoint after_loads (c : cfg) (o : cbcobj) (ls : list (Z * list N)) : cbcobj :=
    match ls with
    | [] => o
    | (now, ck) :: r => after_loads c (snd (cookies_obj_load hmac dlen D c now o ck)) r
    end.
  Lemma after_loads_iv_enc c : forall ls o, iv_enc (after_loads c o ls) = iv_enc o.
  Proof.
    induction ls as [|[now ck] r IH]; intros o; [reflexivity|].
    cbn [after_loads]. rewrite IH. apply cookies_obj_load_keeps_enc_side.
  Qed.
  Lemma save_after_loads c o ls d t :
    fst (cookies_obj_save hmac E c (after_loads c o ls) d t) = fst (cookies_save hmac E c (iv_enc o) d t).
  Proof.
    pose proof (cookies_obj_save_is_save c (after_loads c o ls) d t) as (H1 & _).
    rewrite H1, after_loads_iv_enc. reflexivity.
  Qed.
End ObjGeneric.

(* ---------- with a block cipher that can be inverted ---------- *)
Section ObjAes.
  Variable hmac : N -> list N -> list N -> list N.
  Variable dlen : N -> nat.
  Variable E D : list N -> list N -> list N.
  Hypothesis hmac_len : forall a k m, length (hmac a k m) = dlen a.
  Hypothesis Elen : forall k b, length (E k b) = 16%nat.
  Hypothesis Dlen : forall k b, length (D k b) = 16%nat.
  Hypothesis DE : forall k b, length b = 16%nat -> D k (E k b) = b.

  (* the first cipher block of every issued cipher text is E(chaining vector): payload independent *)
  Lemma aes_obj_first_block ck ma mk o p : length (iv_enc o) = 16%nat ->
    firstn 16 (fst (aes_obj_encrypt hmac E ck ma mk o p)) = E ck (iv_enc o).
  Proof.
    intros Hiv. unfold aes_obj_encrypt.
    pose proof (aes_encrypt_shape hmac E ck ma mk (iv_enc o) p) as Hs.
    destruct (aes_encrypt hmac E ck ma mk (iv_enc o) p) as [ci iv']. cbn [fst] in *. subst ci.
    pose proof (aes_body_length hmac dlen E D hmac_len Elen Dlen DE ck (iv_enc o) p) as Hl.
    pose proof (aes_total_facts (length p)) as (_ & Hge & Hnb & _).
    rewrite firstn_app. replace (16 - length (aes_body E ck (iv_enc o) p))%nat with 0%nat by lia.
    rewrite firstn_O, app_nil_r. unfold aes_body.
    destruct (aes_total (length p) / 16)%nat as [|nb] eqn:Enb; [lia|].
    rewrite (cbc_enc_first_block E Elen). unfold aes_input.
    rewrite (firstn_app_len 16) by apply repeat_length.
    rewrite xorl_zero_l by exact Hiv. reflexivity.
  Qed.

  (* which is why the harness can read the vector off a cookie: D(first block) *)
  Lemma aes_obj_first_block_reveals_iv ck ma mk o p : length (iv_enc o) = 16%nat ->
    D ck (firstn 16 (fst (aes_obj_encrypt hmac E ck ma mk o p))) = iv_enc o.
  Proof. intros Hiv. rewrite aes_obj_first_block by exact Hiv. apply DE. exact Hiv. Qed.

  (* two objects whose nonces differ: whatever cookies were presented to either of them before, and whatever
     they are asked to save (equal payloads included), the first blocks of what they issue differ *)
  Lemma distinct_nonce_distinct_first_block ck ma mk o1 o2 ls1 ls2 p1 p2 :
    length (iv_enc o1) = 16%nat -> length (iv_enc o2) = 16%nat -> iv_enc o1 <> iv_enc o2 ->
    let c := CAes ck ma mk in
    firstn 16 (fst (enc_obj_encrypt hmac E c (after_loads hmac dlen D c o1 ls1) p1)) <>
    firstn 16 (fst (enc_obj_encrypt hmac E c (after_loads hmac dlen D c o2 ls2) p2)).
  Proof.
    intros H1 H2 Hne c. subst c. cbn [enc_obj_encrypt].
    rewrite !aes_obj_first_block by (rewrite after_loads_iv_enc; assumption).
    rewrite !after_loads_iv_enc. intros Heq. apply Hne.
    apply (E_injective E D DE ck); assumption.
  Qed.

  Lemma distinct_nonce_distinct_cookie ck ma mk o1 o2 ls1 ls2 d t :
    length (iv_enc o1) = 16%nat -> length (iv_enc o2) = 16%nat -> iv_enc o1 <> iv_enc o2 ->
    let c := CAes ck ma mk in
    fst (enc_obj_encrypt hmac E c (after_loads hmac dlen D c o1 ls1) (le64_enc t ++ d)) <>
    fst (enc_obj_encrypt hmac E c (after_loads hmac dlen D c o2 ls2) (le64_enc t ++ d)).
  Proof.
    intros H1 H2 Hne c Heq. subst c.
    apply (distinct_nonce_distinct_first_block ck ma mk o1 o2 ls1 ls2 (le64_enc t ++ d) (le64_enc t ++ d) H1 H2 Hne).
    rewrite Heq. reflexivity.
  Qed.

  (* within one object: the vector of the next save is the last cipher block of the cookie just issued,
     also when cookies are presented in between *)
  Lemma next_save_iv_is_last_block ck ma mk o p ls :
    let c := CAes ck ma mk in
    iv_enc (after_loads hmac dlen D c (snd (enc_obj_encrypt hmac E c o p)) ls) =
    skipn (aes_total (length p) - 16) (aes_body E ck (iv_enc o) p).
  Proof.
    intros c. rewrite after_loads_iv_enc.
    pose proof (enc_obj_encrypt_is_encrypt hmac E c o p) as (_ & H2 & _). rewrite H2.
    subst c. cbn [encrypt]. apply (aes_encrypt_next_iv hmac dlen E D hmac_len Elen Dlen DE).
  Qed.
End ObjAes.
