(* C05: executable model of the client-side session path of CppCMS:
     cppcms::sessions::impl::hmac_cipher   (src/hmac_encryptor.cpp)
     cppcms::sessions::impl::aes_cipher / aes_factory (src/aes_encryptor.cpp, CBC of src/aes.cpp)
     cppcms::sessions::session_cookies     (src/session_cookies.cpp)
     encryptor selection of cppcms::session_pool::init (src/session_pool.cpp)
   Bytes are N, strings list N.  The cryptographic primitives are Section variables:
     hmac a k m  : HMAC with hash number a (0 md5 1 sha1 2 sha224 3 sha256 4 sha384 5 sha512), key k, over m
     dlen a      : its digest size
     E k b / D k b : one raw AES block operation under key k
   No proofs in this file. *)
From Coq Require Import NArith ZArith List Bool.
From CppcmsV Require Import C15.Defs.
Import ListNotations.
Local Open Scope N_scope.

(* ---------- little-endian integers (x86-64: memcpy of uint32_t / time_t) ---------- *)
Fixpoint le_enc (n : nat) (v : N) : list N :=
  match n with O => [] | S k => (v mod 256) :: le_enc k (v / 256) end.
Fixpoint le_dec (l : list N) : N :=
  match l with [] => 0 | b :: r => b + 256 * le_dec r end.

Definition two63 : Z := 9223372036854775808%Z.
Definition two64 : Z := 18446744073709551616%Z.
(* time_t <-> 8 bytes, two's complement *)
Definition le64_enc (t : Z) : list N := le_enc 8 (Z.to_N (t mod two64)).
Definition le64_dec (l : list N) : Z :=
  let u := Z.of_N (le_dec l) in if (u <? two63)%Z then u else (u - two64)%Z.

Fixpoint xorl (a b : list N) : list N :=
  match a, b with
  | x :: a', y :: b' => N.lxor x y :: xorl a' b'
  | _, _ => []
  end.

(* hmac_cipher::equal : counts the differing positions among the first n, true iff none *)
Fixpoint ct_diff (n : nat) (a b : list N) : nat :=
  match n with
  | O => O
  | S k => match a, b with
           | x :: a', y :: b' => if x =? y then ct_diff k a' b' else S (ct_diff k a' b')
           | _, _ => S (ct_diff k (tl a) (tl b))   (* not reachable: both have n bytes *)
           end
  end.
Definition ct_equal (n : nat) (a b : list N) : bool := Nat.eqb (ct_diff n a b) 0.

Inductive verdict :=
| Accept (data : list N) (timeout : Z)
| Reject (cleared : bool).

(* which encryptor a pool is configured with (after key preparation) *)
Inductive cfg :=
| CHmac (alg : N) (key : list N)
| CAes (ckey : list N) (malg : N) (mkey : list N).

Section Enc.
  Variable hmac : N -> list N -> list N -> list N.
  Variable dlen : N -> nat.
  Variable E D : list N -> list N -> list N.

  (* ---------- hmac_cipher ---------- *)
  Definition hmac_encrypt (a : N) (k p : list N) : list N := p ++ hmac a k p.

  Definition hmac_decrypt (a : N) (k c : list N) : option (list N) :=
    if Nat.ltb (length c) (dlen a) then None
    else
      let msz := (length c - dlen a)%nat in
      let m := firstn msz c in
      if ct_equal (dlen a) (hmac a k m) (skipn msz c) then Some m else None.

  (* ---------- CBC over 16-byte blocks (AES_cbc_encrypt with a length that is a block multiple) ---------- *)
  Fixpoint cbc_enc (k : list N) (nb : nat) (iv inp : list N) : list N * list N :=
    match nb with
    | O => ([], iv)
    | S n =>
        let c := E k (xorl (firstn 16 inp) iv) in
        let (r, iv') := cbc_enc k n c (skipn 16 inp) in
        (c ++ r, iv')
    end.
  Fixpoint cbc_dec (k : list N) (nb : nat) (iv inp : list N) : list N :=
    match nb with
    | O => []
    | S n =>
        let c := firstn 16 inp in
        xorl (D k c) iv ++ cbc_dec k n c (skipn 16 inp)
    end.

  (* ---------- aes_cipher ---------- *)
  (* block_size = (size + 4 + 15)/16*16 + 16 ; input = 16 zero bytes, uint32 size, plain, zero padding *)
  Definition aes_total (size : nat) : nat := ((size + 4 + 15) / 16 * 16 + 16)%nat.
  Definition aes_input (p : list N) : list N :=
    repeat 0 16 ++ le_enc 4 (N.of_nat (length p)) ++ p
      ++ repeat 0 (aes_total (length p) - 20 - length p).

  (* returns (cipher text, next IV of the encrypting cbc object) *)
  Definition aes_encrypt (ck : list N) (ma : N) (mk : list N) (iv p : list N) : list N * list N :=
    let inp := aes_input p in
    let (body, iv') := cbc_enc ck (aes_total (length p) / 16) iv inp in
    (body ++ hmac ma mk body, iv').

  Definition aes_decrypt (ck : list N) (ma : N) (mk : list N) (ivd c : list N) : option (list N) :=
    if Nat.ltb (length c) (dlen ma + 16) then None
    else
      let real := (length c - dlen ma)%nat in
      if negb (Nat.eqb (real mod 16) 0) then None
      else if Nat.ltb (real / 16) 2 then None
      else
        let body := firstn real c in
        if negb (ct_equal (dlen ma) (hmac ma mk body) (skipn real c)) then None
        else
          let full := cbc_dec ck (real / 16) ivd body in
          let size := le_dec (firstn 4 (skipn 16 full)) in
          if N.of_nat (real - 16 - 4) <? size then None
          else Some (firstn (N.to_nat size) (skipn 20 full)).

  (* ---------- encryptor interface ---------- *)
  (* st = IV of the encrypting side (ignored by the hmac encryptor) *)
  Definition encrypt (c : cfg) (st p : list N) : list N * list N :=
    match c with
    | CHmac a k => (hmac_encrypt a k p, st)
    | CAes ck ma mk => aes_encrypt ck ma mk st p
    end.
  Definition decrypt (c : cfg) (ivd ci : list N) : option (list N) :=
    match c with
    | CHmac a k => hmac_decrypt a k ci
    | CAes ck ma mk => aes_decrypt ck ma mk ivd ci
    end.

  (* ---------- session_cookies ---------- *)
  Definition cookies_save (c : cfg) (st data : list N) (timeout : Z) : list N * list N :=
    let (ci, st') := encrypt c st (le64_enc timeout ++ data) in
    (67 :: encode_str ci, st').

  Definition cookies_load (c : cfg) (now : Z) (ivd cookie : list N) : verdict :=
    match cookie with
    | [] => Reject false
    | c0 :: rest =>
        if negb (c0 =? 67) then Reject true
        else match decode_str rest with
             | None => Reject true
             | Some ci =>
                 match decrypt c ivd ci with
                 | None => Reject true
                 | Some tmp =>
                     if Nat.ltb (length tmp) 8 then Reject true
                     else
                       let t := le64_dec (firstn 8 tmp) in
                       if (t <? now)%Z then Reject true
                       else Accept (skipn 8 tmp) t
                 end
             end
    end.

  (* ---------- aes_factory(algo, key): split or derived keys ---------- *)
  (* cks = cbc key size in bytes (16/24/32); the MAC is sha1 (hash number 1) *)
  Definition aes_combined_keys (cks : nat) (k : list N) : option (list N * list N) :=
    if Nat.eqb (length k) (cks + dlen 1) then Some (firstn cks k, skipn cks k)
    else if Nat.leb cks (length k) then
      let a := if Nat.leb (length k * 8) 256 then 3 else 5 in
      Some (firstn cks (hmac a k [48]), firstn (dlen 1) (hmac a k [1]))
    else None.
End Enc.

(* ---------- session_pool::init : which client-side encryptor, or which refusal ---------- *)
(* the three option strings session.client.{encryptor,hmac,cbc}; key lengths are checked later
   by the encryptor constructors *)
Inductive pool_choice :=
| PErrNoMethod            (* client storage without encryption method *)
| PErrBoth                (* encryptor together with hmac / cbc *)
| PErrNoMac               (* cbc without hmac *)
| PEncHmacSha1            (* encryptor = hmac *)
| PEncHmacNamed           (* encryptor = hmac-<name> *)
| PEncAesCombined         (* encryptor = aes... *)
| PErrUnknown             (* other encryptor string *)
| PMacOnly                (* hmac given, no cbc *)
| PAesSplit.              (* cbc and hmac given *)

Fixpoint starts_with (p s : list N) : bool :=
  match p, s with
  | [], _ => true
  | x :: p', y :: s' => (x =? y) && starts_with p' s'
  | _ :: _, [] => false
  end.
Fixpoint list_eqb (a b : list N) : bool :=
  match a, b with
  | [], [] => true
  | x :: a', y :: b' => (x =? y) && list_eqb a' b'
  | _, _ => false
  end.
Definition is_nil (l : list N) : bool := match l with [] => true | _ => false end.

Definition pool_decide (enc mac cbc : list N) : pool_choice :=
  if is_nil enc && is_nil mac && is_nil cbc then PErrNoMethod
  else if negb (is_nil enc) && (negb (is_nil mac) || negb (is_nil cbc)) then PErrBoth
  else if negb (is_nil cbc) && is_nil mac then PErrNoMac
  else if negb (is_nil enc) then
    if list_eqb enc [104;109;97;99] then PEncHmacSha1
    else if starts_with [104;109;97;99;45] enc then PEncHmacNamed
    else if starts_with [97;101;115] enc then PEncAesCombined
    else PErrUnknown
  else if is_nil cbc then PMacOnly else PAesSplit.

(* hmac_cipher constructor: keys shorter than 16 bytes are refused *)
Definition hmac_key_ok (k : list N) : bool := negb (Nat.ltb (length k) 16).

(* message_digest::create_by_name: ASCII upper case folded, then one of six names *)
Definition lower (c : N) : N := if (65 <=? c) && (c <=? 90) then c + 32 else c.
Definition hash_id (name : list N) : option N :=
  let n := map lower name in
  if list_eqb n [109;100;53] then Some 0
  else if list_eqb n [115;104;97;49] then Some 1
  else if list_eqb n [115;104;97;50;50;52] then Some 2
  else if list_eqb n [115;104;97;50;53;54] then Some 3
  else if list_eqb n [115;104;97;51;56;52] then Some 4
  else if list_eqb n [115;104;97;53;49;50] then Some 5
  else None.

(* cbc::create(name): key size in bytes *)
Definition cbc_key_size (name : list N) : option nat :=
  if list_eqb name [97;101;115] || list_eqb name [65;69;83]
     || list_eqb name [97;101;115;49;50;56] || list_eqb name [97;101;115;45;49;50;56]
     || list_eqb name [65;69;83;49;50;56] || list_eqb name [65;69;83;45;49;50;56] then Some 16%nat
  else if list_eqb name [97;101;115;49;57;50] || list_eqb name [97;101;115;45;49;57;50]
     || list_eqb name [65;69;83;49;57;50] || list_eqb name [65;69;83;45;49;57;50] then Some 24%nat
  else if list_eqb name [97;101;115;50;53;54] || list_eqb name [97;101;115;45;50;53;54]
     || list_eqb name [65;69;83;50;53;54] || list_eqb name [65;69;83;45;50;53;54] then Some 32%nat
  else None.

(* crypto::key::set_hex: empty -> empty key; odd length or a non-hex character -> refused *)
Definition hexv (c : N) : option N :=
  if (48 <=? c) && (c <=? 57) then Some (c - 48)
  else if (97 <=? c) && (c <=? 102) then Some (c - 87)
  else if (65 <=? c) && (c <=? 70) then Some (c - 55)
  else None.
Fixpoint all_hex (s : list N) : bool :=
  match s with [] => true | c :: r => match hexv c with Some _ => all_hex r | None => false end end.
Fixpoint hex_pairs (s : list N) : list N :=
  match s with
  | a :: b :: r =>
      (match hexv a, hexv b with Some x, Some y => (x * 16 + y) mod 256 | _, _ => 0 end) :: hex_pairs r
  | _ => []
  end.
(* the length test comes first in set_hex, then the character scan *)
Definition key_of_hex (s : list N) : option (list N) :=
  if is_nil s then Some []
  else if negb (Nat.even (length s)) then None
  else if all_hex s then Some (hex_pairs s) else None.

(* where a key comes from: the hex string of the configuration, or the content of session.client.*_file
   (crypto::key::read_from_file: an empty file is refused, trailing blanks / line ends are dropped, the rest is hex) *)
Inductive keysrc := KHex (s : list N) | KFile (content : list N).
Inductive keyres := KeyOk (k : list N) | KeyBadHex | KeyEmptyFile.
Definition is_ws (c : N) : bool := (c =? 32) || (c =? 10) || (c =? 13) || (c =? 9).
Fixpoint rtrim (s : list N) : list N :=
  match s with
  | [] => []
  | c :: r => match rtrim r with
              | [] => if is_ws c then [] else [c]
              | r' => c :: r'
              end
  end.
Definition key_of_src (k : keysrc) : keyres :=
  match k with
  | KHex s => match key_of_hex s with Some k => KeyOk k | None => KeyBadHex end
  | KFile content =>
      if is_nil content then KeyEmptyFile
      else match key_of_hex (rtrim content) with Some k => KeyOk k | None => KeyBadHex end
  end.

(* configuration before key preparation, as the factories receive it *)
Inductive rawcfg :=
| RHmac (alg_name key : list N)
| RAes (cbc_name ckey mac_name mkey : list N)
| RAesK (name key : list N).

(* error codes: 1 no method, 2 encryptor together with hmac/cbc, 3 cbc without hmac, 4 unknown encryptor,
   5 combined aes key length, 6 cipher or hash not supported by the aes encryptor, 7 malformed hex key,
   8 hmac key shorter than 16 bytes, 9 cbc key size, 10 unknown hash for the hmac encryptor, 11 empty key file.
   at_use = false: raised while the pool / encryptor object is built; true: raised by the first use *)
Inductive prep :=
| PrepErr (code : N) (at_use : bool)
| PrepOk (c : cfg).

Section Prep.
  Variable hmac : N -> list N -> list N -> list N.
  Variable dlen : N -> nat.

  Definition prepare (r : rawcfg) : prep :=
    match r with
    | RHmac an k =>
        if negb (hmac_key_ok k) then PrepErr 8 false
        else match hash_id an with None => PrepErr 10 true | Some a => PrepOk (CHmac a k) end
    | RAes cn ck mn mk =>
        match cbc_key_size cn with
        | None => PrepErr 6 true
        | Some sz =>
            if negb (Nat.eqb (length ck) sz) then PrepErr 9 true
            else match hash_id mn with None => PrepErr 6 true | Some a => PrepOk (CAes ck a mk) end
        end
    | RAesK n k =>
        match cbc_key_size n with
        | None => PrepErr 6 false
        | Some sz =>
            match aes_combined_keys hmac dlen sz k with
            | None => PrepErr 5 false
            | Some (ck, mk) => PrepOk (CAes ck 1 mk)
            end
        end
    end.

  (* session_pool::init for session.location = client: option strings and the three key sources *)
  Definition with_key (k : keysrc) (f : list N -> prep + rawcfg) : prep + rawcfg :=
    match key_of_src k with
    | KeyOk key => f key
    | KeyBadHex => inl (PrepErr 7 false)
    | KeyEmptyFile => inl (PrepErr 11 false)
    end.
  Definition pool_config (enc mac cbc : list N) (key hkey ckey : keysrc) : prep + rawcfg :=
    match pool_decide enc mac cbc with
    | PErrNoMethod => inl (PrepErr 1 false)
    | PErrBoth => inl (PrepErr 2 false)
    | PErrNoMac => inl (PrepErr 3 false)
    | PEncHmacSha1 => with_key key (fun k => inr (RHmac [115;104;97;49] k))
    | PEncHmacNamed => with_key key (fun k => inr (RHmac (skipn 5 enc) k))
    | PEncAesCombined => with_key key (fun k => inr (RAesK enc k))
    | PErrUnknown => with_key key (fun _ => inl (PrepErr 4 false))
    | PMacOnly => with_key hkey (fun k => inr (RHmac mac k))
    | PAesSplit => with_key hkey (fun mk => with_key ckey (fun ck => inr (RAes cbc ck mac mk)))
    end.
End Prep.

(* what load does when the encryptor cannot be used: the checks made before decrypt() still apply *)
Inductive outcome := Verdict (v : verdict) | Throws.
Definition load_unusable (cookie : list N) : outcome :=
  match cookie with
  | [] => Verdict (Reject false)
  | c0 :: rest =>
      if negb (c0 =? 67) then Verdict (Reject true)
      else match decode_str rest with None => Verdict (Reject true) | Some _ => Throws end
  end.

(* session_interface::save_data for unexposed entries: 32-bit packed header (key_size:10, exposed:1,
   data_size:21, little endian bit-field order of the x86-64 ABI), key, value; entries in map order *)
Definition packed_header (ks : nat) (exposed : bool) (ds : nat) : list N :=
  le_enc 4 (N.of_nat ks + (if exposed then 1024 else 0) + 2048 * N.of_nat ds).
Fixpoint session_save_data (kvs : list (list N * list N)) : list N :=
  match kvs with
  | [] => []
  | (k, v) :: r => packed_header (length k) false (length v) ++ k ++ v ++ session_save_data r
  end.

(* ====================================================================================================
   The encryptor OBJECT: state carried from one call to the next.
   src/aes.cpp, openssl_aes_encryptor keeps TWO chaining vectors: iv_enc_ (read and updated by encrypt only)
   and iv_dec_ (read and updated by decrypt only); set_iv writes both, set_nonce_iv draws both from the random
   device; encrypt/decrypt before an IV was set raise.  AES_cbc_encrypt leaves the last cipher block (of its
   output when encrypting, of its input when decrypting) in the vector it was given.
   aes_cipher (src/aes_encryptor.cpp) owns one such object: load() draws the nonce once; encrypt() chains
   through iv_enc; decrypt() reaches the cbc object only after the structure and MAC checks passed.
   ==================================================================================================== *)
Record cbcobj := mkobj { iv_enc : list N; iv_dec : list N; iv_init : bool }.
Definition zeros16 : list N := repeat 0 16.
Definition obj_fresh : cbcobj := mkobj zeros16 zeros16 false.      (* reset() in the constructor *)

Inductive cbcop :=
| OSetIv (iv : list N)            (* set_iv(ptr,size) *)
| ONonce (ne nd : list N)         (* set_nonce_iv(): two draws of 16 random bytes, encryption side first *)
| OEnc (inp : list N)             (* encrypt(in,out,len), len a multiple of 16 *)
| ODec (inp : list N).            (* decrypt(in,out,len), len a multiple of 16 *)
Inductive ores := ONoOut | OOut (out : list N) | OThrow.

(* the vector AES_cbc_encrypt(..., AES_DECRYPT) leaves behind: the last cipher block of the input *)
Fixpoint cbc_dec_next (nb : nat) (iv inp : list N) : list N :=
  match nb with O => iv | S n => cbc_dec_next n (firstn 16 inp) (skipn 16 inp) end.

Definition is_enc_op (op : cbcop) : bool := match op with OEnc _ => true | _ => false end.
Definition is_dec_op (op : cbcop) : bool := match op with ODec _ => true | _ => false end.

(* a history of calls on one session_cookies object (one request = load then save on the same object) *)
Inductive sop := SSave (data : list N) (t : Z) | SLoad (now : Z) (cookie : list N).
Inductive sres := RSaved (cookie : list N) | RLoaded (v : verdict).
Definition is_save_op (op : sop) : bool := match op with SSave _ _ => true | _ => false end.

Section Obj.
  Variable hmac : N -> list N -> list N -> list N.
  Variable dlen : N -> nat.
  Variable E D : list N -> list N -> list N.

  (* ---------- crypto::cbc object ---------- *)
  Definition obj_encrypt (k : list N) (o : cbcobj) (inp : list N) : list N * cbcobj :=
    let (out, iv') := cbc_enc E k (length inp / 16) (iv_enc o) inp in
    (out, mkobj iv' (iv_dec o) (iv_init o)).
  Definition obj_decrypt (k : list N) (o : cbcobj) (inp : list N) : list N * cbcobj :=
    let nb := (length inp / 16)%nat in
    (cbc_dec D k nb (iv_dec o) inp, mkobj (iv_enc o) (cbc_dec_next nb (iv_dec o) inp) (iv_init o)).

  Definition obj_step (k : list N) (o : cbcobj) (op : cbcop) : ores * cbcobj :=
    match op with
    | OSetIv iv => if Nat.eqb (length iv) 16 then (ONoOut, mkobj iv iv true) else (OThrow, o)
    | ONonce ne nd => (ONoOut, mkobj ne nd true)
    | OEnc inp => if iv_init o then let (out, o') := obj_encrypt k o inp in (OOut out, o') else (OThrow, o)
    | ODec inp => if iv_init o then let (out, o') := obj_decrypt k o inp in (OOut out, o') else (OThrow, o)
    end.
  Fixpoint obj_run (k : list N) (o : cbcobj) (ops : list cbcop) : list ores :=
    match ops with
    | [] => []
    | op :: r => let (res, o') := obj_step k o op in res :: obj_run k o' r
    end.
  (* the answers to the calls selected by sel, in order *)
  Fixpoint obj_outs (sel : cbcop -> bool) (k : list N) (o : cbcobj) (ops : list cbcop) : list ores :=
    match ops with
    | [] => []
    | op :: r => let (res, o') := obj_step k o op in
                 if sel op then res :: obj_outs sel k o' r else obj_outs sel k o' r
    end.
  (* the chaining vectors encrypt calls start from, in order *)
  Fixpoint obj_enc_ivs (k : list N) (o : cbcobj) (ops : list cbcop) : list (list N) :=
    match ops with
    | [] => []
    | op :: r => let o' := snd (obj_step k o op) in
                 if is_enc_op op then iv_enc o :: obj_enc_ivs k o' r else obj_enc_ivs k o' r
    end.

  (* ---------- aes_cipher on its cbc object ---------- *)
  (* everything aes_cipher::decrypt checks before it calls cbc_->decrypt *)
  Definition aes_auth_ok (ma : N) (mk c : list N) : bool :=
    if Nat.ltb (length c) (dlen ma + 16) then false
    else
      let real := (length c - dlen ma)%nat in
      if negb (Nat.eqb (real mod 16) 0) then false
      else if Nat.ltb (real / 16) 2 then false
      else ct_equal (dlen ma) (hmac ma mk (firstn real c)) (skipn real c).

  Definition aes_obj_encrypt (ck : list N) (ma : N) (mk : list N) (o : cbcobj) (p : list N) : list N * cbcobj :=
    let (ci, iv') := aes_encrypt hmac E ck ma mk (iv_enc o) p in
    (ci, mkobj iv' (iv_dec o) (iv_init o)).
  Definition aes_obj_decrypt (ck : list N) (ma : N) (mk : list N) (o : cbcobj) (c : list N) : option (list N) * cbcobj :=
    (aes_decrypt hmac dlen D ck ma mk (iv_dec o) c,
     if aes_auth_ok ma mk c
     then mkobj (iv_enc o) (cbc_dec_next ((length c - dlen ma) / 16) (iv_dec o) c) (iv_init o)
     else o).

  Definition enc_obj_encrypt (c : cfg) (o : cbcobj) (p : list N) : list N * cbcobj :=
    match c with
    | CHmac a k => (hmac_encrypt hmac a k p, o)
    | CAes ck ma mk => aes_obj_encrypt ck ma mk o p
    end.
  Definition enc_obj_decrypt (c : cfg) (o : cbcobj) (ci : list N) : option (list N) * cbcobj :=
    match c with
    | CHmac a k => (hmac_decrypt hmac dlen a k ci, o)
    | CAes ck ma mk => aes_obj_decrypt ck ma mk o ci
    end.

  (* ---------- session_cookies on its encryptor object ---------- *)
  Definition cookies_obj_save (c : cfg) (o : cbcobj) (data : list N) (t : Z) : list N * cbcobj :=
    let (ci, o') := enc_obj_encrypt c o (le64_enc t ++ data) in
    (67 :: encode_str ci, o').
  Definition cookies_obj_load (c : cfg) (now : Z) (o : cbcobj) (cookie : list N) : verdict * cbcobj :=
    (cookies_load hmac dlen D c now (iv_dec o) cookie,
     match cookie with
     | [] => o
     | c0 :: rest =>
         if negb (c0 =? 67) then o
         else match decode_str rest with
              | None => o
              | Some ci => snd (enc_obj_decrypt c o ci)
              end
     end).

  Definition cookies_obj_step (c : cfg) (o : cbcobj) (op : sop) : sres * cbcobj :=
    match op with
    | SSave d t => let (ck, o') := cookies_obj_save c o d t in (RSaved ck, o')
    | SLoad now ck => let (v, o') := cookies_obj_load c now o ck in (RLoaded v, o')
    end.
  Fixpoint cookies_obj_run (c : cfg) (o : cbcobj) (ops : list sop) : list sres :=
    match ops with
    | [] => []
    | op :: r => let (res, o') := cookies_obj_step c o op in res :: cookies_obj_run c o' r
    end.
  (* the cookies issued by a history, in order *)
  Fixpoint cookies_issued (c : cfg) (o : cbcobj) (ops : list sop) : list (list N) :=
    match ops with
    | [] => []
    | op :: r => let (res, o') := cookies_obj_step c o op in
                 match res with
                 | RSaved ck => ck :: cookies_issued c o' r
                 | RLoaded _ => cookies_issued c o' r
                 end
    end.
  (* the chaining vector each save starts from *)
  Fixpoint cookies_save_ivs (c : cfg) (o : cbcobj) (ops : list sop) : list (list N) :=
    match ops with
    | [] => []
    | op :: r => let o' := snd (cookies_obj_step c o op) in
                 if is_save_op op then iv_enc o :: cookies_save_ivs c o' r else cookies_save_ivs c o' r
    end.
End Obj.

(* ---------- session_interface: the data of a request and whether save() issues a cookie ---------- *)
(* std::map<std::string,entry> order: byte-wise lexicographic, a proper prefix first *)
Fixpoint list_ltb (a b : list N) : bool :=
  match a, b with
  | [], [] => false
  | [], _ :: _ => true
  | _ :: _, [] => false
  | x :: a', y :: b' => if x <? y then true else if y <? x then false else list_ltb a' b'
  end.
Fixpoint kv_set (k v : list N) (l : list (list N * list N)) : list (list N * list N) :=
  match l with
  | [] => [(k, v)]
  | (k', v') :: r =>
      if list_eqb k k' then (k, v) :: r
      else if list_ltb k k' then (k, v) :: l
      else (k', v') :: kv_set k v r
  end.
Fixpoint kv_set_all (sets l : list (list N * list N)) : list (list N * list N) :=
  match sets with
  | [] => l
  | (k, v) :: r => kv_set_all r (kv_set k v l)
  end.
Fixpoint kv_eqb (a b : list (list N * list N)) : bool :=
  match a, b with
  | [], [] => true
  | (k, v) :: a', (k', v') :: b' => list_eqb k k' && list_eqb v v' && kv_eqb a' b'
  | _, _ => false
  end.
Definition is_nil_kv (l : list (list N * list N)) : bool := match l with [] => true | _ => false end.
(* expiration policy: 0 fixed, 1 renew, 2 browser.  session_interface::save for a non-empty data map without
   csrf / exposed entries / _t _h _s overrides:
     loaded = Some (data_copy, timeout_in) if load() accepted the presented cookie
     -> None (no cookie issued) | Some expiry to save with *)
Definition si_save_decide (how : N) (timeout_val now : Z) (loaded : option (list (list N * list N) * Z))
           (data : list (list N * list N)) : option Z :=
  let new_session := match loaded with None => true | Some (dc, _) => is_nil_kv dc end in
  let fresh := (timeout_val + now)%Z in
  match loaded with
  | Some (dc, tin) =>
      if kv_eqb data dc && negb new_session then
        if how =? 0 then None
        else
          (* delta < timeout_val * 0.1  (double arithmetic; compared exactly as 10*delta < timeout_val) *)
          if (10 * (now + timeout_val - tin) <? timeout_val)%Z then None
          else Some fresh
      else if (how =? 0) && negb new_session then Some tin else Some fresh
  | None => Some fresh
  end.

(* session_interface::load_data: packed header, key, value, repeated; data[key] = value (a later entry with the same
   key replaces the earlier one); a header or an entry that does not fit raises (None).  fuel = length of the text *)
Fixpoint session_load_data (fuel : nat) (s : list N) (acc : list (list N * list N)) : option (list (list N * list N)) :=
  match s with
  | [] => Some acc
  | _ :: _ =>
      match fuel with
      | O => None
      | S f =>
          if Nat.ltb (length s) 4 then None
          else
            let h := le_dec (firstn 4 s) in
            let ks := N.to_nat (h mod 1024) in
            let ds := N.to_nat (h / 2048) in
            let rest := skipn 4 s in
            if Nat.ltb (length rest) (ks + ds) then None
            else session_load_data f (skipn (ks + ds) rest) (kv_set (firstn ks rest) (firstn ds (skipn ks rest)) acc)
      end
  end.
