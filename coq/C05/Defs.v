(* C05: executable model of the client-side session path of CppCMS:
     cppcms::sessions::impl::hmac_cipher   (src/hmac_encryptor.cpp)
     cppcms::sessions::impl::aes_cipher / aes_factory (src/aes_encryptor.cpp, CBC of src/aes.cpp)
     cppcms::sessions::session_cookies     (src/session_cookies.cpp)
     encryptor selection of cppcms::session_pool::init (src/session_pool.cpp)
   Bytes are N, strings list N.  The cryptographic primitives are Section variables:
     hmac a k m  : HMAC with hash number a (0 md5 1 sha1 2 sha224 3 sha256 4 sha384 5 sha512), key k, over m
     dlen a      : its digest size
     E k b / D k b : one raw AES block operation under key k
   No proofs in this file. *)
From Coq Require Import NArith ZArith List Bool.
From CppcmsV Require Import C15.Defs.
Import ListNotations.
Local Open Scope N_scope.

(* ---------- little-endian integers (x86-64: memcpy of uint32_t / time_t) ---------- *)
Fixpoint le_enc (n : nat) (v : N) : list N :=
  match n with O => [] | S k => (v mod 256) :: le_enc k (v / 256) end.
Fixpoint le_dec (l : list N) : N :=
  match l with [] => 0 | b :: r => b + 256 * le_dec r end.

Definition two63 : Z := 9223372036854775808%Z.
Definition two64 : Z := 18446744073709551616%Z.
(* time_t <-> 8 bytes, two's complement *)
Definition le64_enc (t : Z) : list N := le_enc 8 (Z.to_N (t mod two64)).
Definition le64_dec (l : list N) : Z :=
  let u := Z.of_N (le_dec l) in if (u <? two63)%Z then u else (u - two64)%Z.

Fixpoint xorl (a b : list N) : list N :=
  match a, b with
  | x :: a', y :: b' => N.lxor x y :: xorl a' b'
  | _, _ => []
  end.

(* hmac_cipher::equal : counts the differing positions among the first n, true iff none *)
Fixpoint ct_diff (n : nat) (a b : list N) : nat :=
  match n with
  | O => O
  | S k => match a, b with
           | x :: a', y :: b' => if x =? y then ct_diff k a' b' else S (ct_diff k a' b')
           | _, _ => S (ct_diff k (tl a) (tl b))   (* not reachable: both have n bytes *)
           end
  end.
Definition ct_equal (n : nat) (a b : list N) : bool := Nat.eqb (ct_diff n a b) 0.

Inductive verdict :=
| Accept (data : list N) (timeout : Z)
| Reject (cleared : bool).

(* which encryptor a pool is configured with (after key preparation) *)
Inductive cfg :=
| CHmac (alg : N) (key : list N)
| CAes (ckey : list N) (malg : N) (mkey : list N).

Section Enc.
  Variable hmac : N -> list N -> list N -> list N.
  Variable dlen : N -> nat.
  Variable E D : list N -> list N -> list N.

  (* ---------- hmac_cipher ---------- *)
  Definition hmac_encrypt (a : N) (k p : list N) : list N := p ++ hmac a k p.

  Definition hmac_decrypt (a : N) (k c : list N) : option (list N) :=
    if Nat.ltb (length c) (dlen a) then None
    else
      let msz := (length c - dlen a)%nat in
      let m := firstn msz c in
      if ct_equal (dlen a) (hmac a k m) (skipn msz c) then Some m else None.

  (* ---------- CBC over 16-byte blocks (AES_cbc_encrypt with a length that is a block multiple) ---------- *)
  Fixpoint cbc_enc (k : list N) (nb : nat) (iv inp : list N) : list N * list N :=
    match nb with
    | O => ([], iv)
    | S n =>
        let c := E k (xorl (firstn 16 inp) iv) in
        let (r, iv') := cbc_enc k n c (skipn 16 inp) in
        (c ++ r, iv')
    end.
  Fixpoint cbc_dec (k : list N) (nb : nat) (iv inp : list N) : list N :=
    match nb with
    | O => []
    | S n =>
        let c := firstn 16 inp in
        xorl (D k c) iv ++ cbc_dec k n c (skipn 16 inp)
    end.

  (* ---------- aes_cipher ---------- *)
  (* block_size = (size + 4 + 15)/16*16 + 16 ; input = 16 zero bytes, uint32 size, plain, zero padding *)
  Definition aes_total (size : nat) : nat := ((size + 4 + 15) / 16 * 16 + 16)%nat.
  Definition aes_input (p : list N) : list N :=
    repeat 0 16 ++ le_enc 4 (N.of_nat (length p)) ++ p
      ++ repeat 0 (aes_total (length p) - 20 - length p).

  (* returns (cipher text, next IV of the encrypting cbc object) *)
  Definition aes_encrypt (ck : list N) (ma : N) (mk : list N) (iv p : list N) : list N * list N :=
    let inp := aes_input p in
    let (body, iv') := cbc_enc ck (aes_total (length p) / 16) iv inp in
    (body ++ hmac ma mk body, iv').

  Definition aes_decrypt (ck : list N) (ma : N) (mk : list N) (ivd c : list N) : option (list N) :=
    if Nat.ltb (length c) (dlen ma + 16) then None
    else
      let real := (length c - dlen ma)%nat in
      if negb (Nat.eqb (real mod 16) 0) then None
      else if Nat.ltb (real / 16) 2 then None
      else
        let body := firstn real c in
        if negb (ct_equal (dlen ma) (hmac ma mk body) (skipn real c)) then None
        else
          let full := cbc_dec ck (real / 16) ivd body in
          let size := le_dec (firstn 4 (skipn 16 full)) in
          if N.of_nat (real - 16 - 4) <? size then None
          else Some (firstn (N.to_nat size) (skipn 20 full)).

  (* ---------- encryptor interface ---------- *)
  (* st = IV of the encrypting side (ignored by the hmac encryptor) *)
  Definition encrypt (c : cfg) (st p : list N) : list N * list N :=
    match c with
    | CHmac a k => (hmac_encrypt a k p, st)
    | CAes ck ma mk => aes_encrypt ck ma mk st p
    end.
  Definition decrypt (c : cfg) (ivd ci : list N) : option (list N) :=
    match c with
    | CHmac a k => hmac_decrypt a k ci
    | CAes ck ma mk => aes_decrypt ck ma mk ivd ci
    end.

  (* ---------- session_cookies ---------- *)
  Definition cookies_save (c : cfg) (st data : list N) (timeout : Z) : list N * list N :=
    let (ci, st') := encrypt c st (le64_enc timeout ++ data) in
    (67 :: encode_str ci, st').

  Definition cookies_load (c : cfg) (now : Z) (ivd cookie : list N) : verdict :=
    match cookie with
    | [] => Reject false
    | c0 :: rest =>
        if negb (c0 =? 67) then Reject true
        else match decode_str rest with
             | None => Reject true
             | Some ci =>
                 match decrypt c ivd ci with
                 | None => Reject true
                 | Some tmp =>
                     if Nat.ltb (length tmp) 8 then Reject true
                     else
                       let t := le64_dec (firstn 8 tmp) in
                       if (t <? now)%Z then Reject true
                       else Accept (skipn 8 tmp) t
                 end
             end
    end.

  (* ---------- aes_factory(algo, key): split or derived keys ---------- *)
  (* cks = cbc key size in bytes (16/24/32); the MAC is sha1 (hash number 1) *)
  Definition aes_combined_keys (cks : nat) (k : list N) : option (list N * list N) :=
    if Nat.eqb (length k) (cks + dlen 1) then Some (firstn cks k, skipn cks k)
    else if Nat.leb cks (length k) then
      let a := if Nat.leb (length k * 8) 256 then 3 else 5 in
      Some (firstn cks (hmac a k [48]), firstn (dlen 1) (hmac a k [1]))
    else None.
End Enc.

(* ---------- session_pool::init : which client-side encryptor, or which refusal ---------- *)
(* the three option strings session.client.{encryptor,hmac,cbc}; key lengths are checked later
   by the encryptor constructors *)
Inductive pool_choice :=
| PErrNoMethod            (* client storage without encryption method *)
| PErrBoth                (* encryptor together with hmac / cbc *)
| PErrNoMac               (* cbc without hmac *)
| PEncHmacSha1            (* encryptor = hmac *)
| PEncHmacNamed           (* encryptor = hmac-<name> *)
| PEncAesCombined         (* encryptor = aes... *)
| PErrUnknown             (* other encryptor string *)
| PMacOnly                (* hmac given, no cbc *)
| PAesSplit.              (* cbc and hmac given *)

Fixpoint starts_with (p s : list N) : bool :=
  match p, s with
  | [], _ => true
  | x :: p', y :: s' => (x =? y) && starts_with p' s'
  | _ :: _, [] => false
  end.
Fixpoint list_eqb (a b : list N) : bool :=
  match a, b with
  | [], [] => true
  | x :: a', y :: b' => (x =? y) && list_eqb a' b'
  | _, _ => false
  end.
Definition is_nil (l : list N) : bool := match l with [] => true | _ => false end.

Definition pool_decide (enc mac cbc : list N) : pool_choice :=
  if is_nil enc && is_nil mac && is_nil cbc then PErrNoMethod
  else if negb (is_nil enc) && (negb (is_nil mac) || negb (is_nil cbc)) then PErrBoth
  else if negb (is_nil cbc) && is_nil mac then PErrNoMac
  else if negb (is_nil enc) then
    if list_eqb enc [104;109;97;99] then PEncHmacSha1
    else if starts_with [104;109;97;99;45] enc then PEncHmacNamed
    else if starts_with [97;101;115] enc then PEncAesCombined
    else PErrUnknown
  else if is_nil cbc then PMacOnly else PAesSplit.

(* hmac_cipher constructor: keys shorter than 16 bytes are refused *)
Definition hmac_key_ok (k : list N) : bool := negb (Nat.ltb (length k) 16).

(* message_digest::create_by_name: ASCII upper case folded, then one of six names *)
Definition lower (c : N) : N := if (65 <=? c) && (c <=? 90) then c + 32 else c.
Definition hash_id (name : list N) : option N :=
  let n := map lower name in
  if list_eqb n [109;100;53] then Some 0
  else if list_eqb n [115;104;97;49] then Some 1
  else if list_eqb n [115;104;97;50;50;52] then Some 2
  else if list_eqb n [115;104;97;50;53;54] then Some 3
  else if list_eqb n [115;104;97;51;56;52] then Some 4
  else if list_eqb n [115;104;97;53;49;50] then Some 5
  else None.

(* cbc::create(name): key size in bytes *)
Definition cbc_key_size (name : list N) : option nat :=
  if list_eqb name [97;101;115] || list_eqb name [65;69;83]
     || list_eqb name [97;101;115;49;50;56] || list_eqb name [97;101;115;45;49;50;56]
     || list_eqb name [65;69;83;49;50;56] || list_eqb name [65;69;83;45;49;50;56] then Some 16%nat
  else if list_eqb name [97;101;115;49;57;50] || list_eqb name [97;101;115;45;49;57;50]
     || list_eqb name [65;69;83;49;57;50] || list_eqb name [65;69;83;45;49;57;50] then Some 24%nat
  else if list_eqb name [97;101;115;50;53;54] || list_eqb name [97;101;115;45;50;53;54]
     || list_eqb name [65;69;83;50;53;54] || list_eqb name [65;69;83;45;50;53;54] then Some 32%nat
  else None.

(* crypto::key::set_hex: empty -> empty key; odd length or a non-hex character -> refused *)
Definition hexv (c : N) : option N :=
  if (48 <=? c) && (c <=? 57) then Some (c - 48)
  else if (97 <=? c) && (c <=? 102) then Some (c - 87)
  else if (65 <=? c) && (c <=? 70) then Some (c - 55)
  else None.
Fixpoint all_hex (s : list N) : bool :=
  match s with [] => true | c :: r => match hexv c with Some _ => all_hex r | None => false end end.
Fixpoint hex_pairs (s : list N) : list N :=
  match s with
  | a :: b :: r =>
      (match hexv a, hexv b with Some x, Some y => (x * 16 + y) mod 256 | _, _ => 0 end) :: hex_pairs r
  | _ => []
  end.
(* the length test comes first in set_hex, then the character scan *)
Definition key_of_hex (s : list N) : option (list N) :=
  if is_nil s then Some []
  else if negb (Nat.even (length s)) then None
  else if all_hex s then Some (hex_pairs s) else None.

(* where a key comes from: the hex string of the configuration, or the content of session.client.*_file
   (crypto::key::read_from_file: an empty file is refused, trailing blanks / line ends are dropped, the rest is hex) *)
Inductive keysrc := KHex (s : list N) | KFile (content : list N).
Inductive keyres := KeyOk (k : list N) | KeyBadHex | KeyEmptyFile.
Definition is_ws (c : N) : bool := (c =? 32) || (c =? 10) || (c =? 13) || (c =? 9).
Fixpoint rtrim (s : list N) : list N :=
  match s with
  | [] => []
  | c :: r => match rtrim r with
              | [] => if is_ws c then [] else [c]
              | r' => c :: r'
              end
  end.
Definition key_of_src (k : keysrc) : keyres :=
  match k with
  | KHex s => match key_of_hex s with Some k => KeyOk k | None => KeyBadHex end
  | KFile content =>
      if is_nil content then KeyEmptyFile
      else match key_of_hex (rtrim content) with Some k => KeyOk k | None => KeyBadHex end
  end.

(* configuration before key preparation, as the factories receive it *)
Inductive rawcfg :=
| RHmac (alg_name key : list N)
| RAes (cbc_name ckey mac_name mkey : list N)
| RAesK (name key : list N).

(* error codes: 1 no method, 2 encryptor together with hmac/cbc, 3 cbc without hmac, 4 unknown encryptor,
   5 combined aes key length, 6 cipher or hash not supported by the aes encryptor, 7 malformed hex key,
   8 hmac key shorter than 16 bytes, 9 cbc key size, 10 unknown hash for the hmac encryptor, 11 empty key file.
   at_use = false: raised while the pool / encryptor object is built; true: raised by the first use *)
Inductive prep :=
| PrepErr (code : N) (at_use : bool)
| PrepOk (c : cfg).

Section Prep.
  Variable hmac : N -> list N -> list N -> list N.
  Variable dlen : N -> nat.

  Definition prepare (r : rawcfg) : prep :=
    match r with
    | RHmac an k =>
        if negb (hmac_key_ok k) then PrepErr 8 false
        else match hash_id an with None => PrepErr 10 true | Some a => PrepOk (CHmac a k) end
    | RAes cn ck mn mk =>
        match cbc_key_size cn with
        | None => PrepErr 6 true
        | Some sz =>
            if negb (Nat.eqb (length ck) sz) then PrepErr 9 true
            else match hash_id mn with None => PrepErr 6 true | Some a => PrepOk (CAes ck a mk) end
        end
    | RAesK n k =>
        match cbc_key_size n with
        | None => PrepErr 6 false
        | Some sz =>
            match aes_combined_keys hmac dlen sz k with
            | None => PrepErr 5 false
            | Some (ck, mk) => PrepOk (CAes ck 1 mk)
            end
        end
    end.

  (* session_pool::init for session.location = client: option strings and the three key sources *)
  Definition with_key (k : keysrc) (f : list N -> prep + rawcfg) : prep + rawcfg :=
    match key_of_src k with
    | KeyOk key => f key
    | KeyBadHex => inl (PrepErr 7 false)
    | KeyEmptyFile => inl (PrepErr 11 false)
    end.
  Definition pool_config (enc mac cbc : list N) (key hkey ckey : keysrc) : prep + rawcfg :=
    match pool_decide enc mac cbc with
    | PErrNoMethod => inl (PrepErr 1 false)
    | PErrBoth => inl (PrepErr 2 false)
    | PErrNoMac => inl (PrepErr 3 false)
    | PEncHmacSha1 => with_key key (fun k => inr (RHmac [115;104;97;49] k))
    | PEncHmacNamed => with_key key (fun k => inr (RHmac (skipn 5 enc) k))
    | PEncAesCombined => with_key key (fun k => inr (RAesK enc k))
    | PErrUnknown => with_key key (fun _ => inl (PrepErr 4 false))
    | PMacOnly => with_key hkey (fun k => inr (RHmac mac k))
    | PAesSplit => with_key hkey (fun mk => with_key ckey (fun ck => inr (RAes cbc ck mac mk)))
    end.
End Prep.

(* what load does when the encryptor cannot be used: the checks made before decrypt() still apply *)
Inductive outcome := Verdict (v : verdict) | Throws.
Definition load_unusable (cookie : list N) : outcome :=
  match cookie with
  | [] => Verdict (Reject false)
  | c0 :: rest =>
      if negb (c0 =? 67) then Verdict (Reject true)
      else match decode_str rest with None => Verdict (Reject true) | Some _ => Throws end
  end.

(* session_interface::save_data for unexposed entries: 32-bit packed header (key_size:10, exposed:1,
   data_size:21, little endian bit-field order of the x86-64 ABI), key, value; entries in map order *)
Definition packed_header (ks : nat) (exposed : bool) (ds : nat) : list N :=
  le_enc 4 (N.of_nat ks + (if exposed then 1024 else 0) + 2048 * N.of_nat ds).
Fixpoint session_save_data (kvs : list (list N * list N)) : list N :=
  match kvs with
  | [] => []
  | (k, v) :: r => packed_header (length k) false (length v) ++ k ++ v ++ session_save_data r
  end.
