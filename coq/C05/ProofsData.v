(* C05: the session data codec of session_interface (save_data / load_data, packed 10/1/21-bit header) round trips:
   what one request saves is what the next request loads (model functions session_save_data / session_load_data). *)
From CppcmsV Require Import Base.Tac C15.Defs C05.Defs C05.Proofs C05.ProofsAes.
From Coq Require Import Sorting.Sorted.
Local Open Scope N_scope.

Definition key_lt (a b : list N * list N) : Prop := list_ltb (fst a) (fst b) = true.
Definition kv_fits (e : list N * list N) : Prop := N.of_nat (length (fst e)) < 1024 /\ N.of_nat (length (snd e)) < 2097152.

Lemma list_ltb_asym : forall a b, list_ltb a b = true -> list_ltb b a = false /\ list_eqb b a = false.
Proof.
  induction a as [|x a IH]; intros b H; destruct b as [|y b]; cbn [list_ltb list_eqb] in *; try discriminate.
  - split; reflexivity.
  - destruct (N.ltb_spec x y) as [Hxy|Hxy].
    + destruct (N.ltb_spec y x); [lia|]. destruct (N.eqb_spec y x); [lia|]. split; reflexivity.
    + destruct (N.ltb_spec y x) as [Hyx|Hyx]; [discriminate|].
      assert (x = y) by lia. subst y. rewrite N.eqb_refl. cbn [andb]. apply IH. exact H.
Qed.

(* inserting a key greater than every key present appends *)
Lemma kv_set_append k v : forall acc, Forall (fun e => list_ltb (fst e) k = true) acc -> kv_set k v acc = acc ++ [(k, v)].
Proof.
  induction acc as [|[k' v'] acc IH]; intros H; [reflexivity|].
  inversion H as [|e l He Hl]; subst. cbn [fst] in He.
  destruct (list_ltb_asym k' k He) as [H1 H2].
  cbn [kv_set]. rewrite H2, H1. cbn [app]. f_equal. apply IH. exact Hl.
Qed.

Lemma sorted_app_lt (acc : list (list N * list N)) x r :
  StronglySorted key_lt (acc ++ x :: r) -> Forall (fun e => list_ltb (fst e) (fst x) = true) acc.
Proof.
  induction acc as [|a acc IH]; intros H; [constructor|].
  cbn [app] in H. apply StronglySorted_inv in H as [Hs Hf].
  constructor; [|apply IH; exact Hs].
  apply Forall_app in Hf as [_ Hf]. inversion Hf; subst. assumption.
Qed.

Lemma header_fields ks ds : N.of_nat ks < 1024 -> N.of_nat ds < 2097152 ->
  let h := N.of_nat ks + 0 + 2048 * N.of_nat ds in
  h < 256 ^ 4 /\ N.to_nat (h mod 1024) = ks /\ N.to_nat (h / 2048) = ds.
Proof.
  intros Hk' Hd' h. unfold h. change (256 ^ 4) with 4294967296.
  split; [lia|]. split.
  - replace ((N.of_nat ks + 0 + 2048 * N.of_nat ds) mod 1024) with (N.of_nat ks) by lia. lia.
  - replace ((N.of_nat ks + 0 + 2048 * N.of_nat ds) / 2048) with (N.of_nat ds) by lia. lia.
Qed.

Lemma save_data_length_pos k v r : (4 <= length (session_save_data ((k, v) :: r)))%nat.
Proof. cbn [session_save_data]. unfold packed_header. rewrite app_length, le_enc_length. lia. Qed.

Lemma session_load_data_step f s acc : s <> [] ->
  session_load_data (S f) s acc =
    if Nat.ltb (length s) 4 then None
    else
      let h := le_dec (firstn 4 s) in
      let ks := N.to_nat (h mod 1024) in
      let ds := N.to_nat (h / 2048) in
      let rest := skipn 4 s in
      if Nat.ltb (length rest) (ks + ds) then None
      else session_load_data f (skipn (ks + ds) rest) (kv_set (firstn ks rest) (firstn ds (skipn ks rest)) acc).
Proof. intros H. destruct s; [contradiction|reflexivity]. Qed.

Lemma load_save_data_aux : forall kvs acc fuel,
  Forall kv_fits kvs -> StronglySorted key_lt (acc ++ kvs) -> (length (session_save_data kvs) <= fuel)%nat ->
  session_load_data fuel (session_save_data kvs) acc = Some (acc ++ kvs).
Proof.
  induction kvs as [|[k v] r IH]; intros acc fuel Hfit Hs Hfuel.
  - cbn [session_save_data]. destruct fuel; cbn [session_load_data]; rewrite app_nil_r; reflexivity.
  - inversion Hfit as [|e l [Hk Hv] Hr]; subst. cbn [fst snd] in Hk, Hv.
    pose proof (save_data_length_pos k v r) as Hpos.
    destruct fuel as [|f]; [lia|].
    cbn [session_save_data] in *.
    pose proof (header_fields (length k) (length v) Hk Hv) as (Hh & Hks & Hds). cbv zeta in Hh, Hks, Hds.
    set (hd := packed_header (length k) false (length v)) in *.
    assert (Hlen : length hd = 4%nat) by (unfold hd, packed_header; apply le_enc_length).
    set (s := hd ++ k ++ v ++ session_save_data r) in *.
    assert (Hs4 : firstn 4 s = hd) by (unfold s; apply firstn_app_len; exact Hlen).
    assert (Hr4 : skipn 4 s = k ++ v ++ session_save_data r) by (unfold s; apply skipn_app_len; exact Hlen).
    assert (Hdec : le_dec hd = N.of_nat (length k) + 0 + 2048 * N.of_nat (length v))
      by (unfold hd, packed_header; apply le_dec_enc; exact Hh).
    assert (Hls : (4 <= length s)%nat) by (unfold s; rewrite app_length; lia).
    rewrite session_load_data_step by (intros Hn; rewrite Hn in Hls; cbn in Hls; lia).
    cbv zeta.
    destruct (Nat.ltb_spec (length s) 4) as [Hc|_]; [lia|].
    rewrite Hs4, Hr4, Hdec, Hks, Hds.
    destruct (Nat.ltb_spec (length (k ++ v ++ session_save_data r)) (length k + length v)) as [Hc|_];
      [rewrite !app_length in Hc; lia|].
    rewrite firstn_app_exact.
    replace (skipn (length k) (k ++ v ++ session_save_data r)) with (v ++ session_save_data r) by (symmetry; apply skipn_app_exact).
    rewrite firstn_app_exact.
    replace (skipn (length k + length v) (k ++ v ++ session_save_data r)) with (session_save_data r)
      by (rewrite app_assoc; rewrite <- app_length; symmetry; apply skipn_app_exact).
    rewrite (kv_set_append k v acc) by (apply (sorted_app_lt acc (k, v) r); exact Hs).
    rewrite IH; [rewrite <- app_assoc; reflexivity|exact Hr|rewrite <- app_assoc; exact Hs|].
    unfold s in Hfuel. rewrite !app_length in Hfuel. cbn in Hfuel. lia.
Qed.

(* what a request saves is what the next request loads: every data map whose keys and values fit the packed header
   (keys in std::map order) *)
Lemma load_save_data kvs : Forall kv_fits kvs -> StronglySorted key_lt kvs ->
  session_load_data (length (session_save_data kvs)) (session_save_data kvs) [] = Some kvs.
Proof. intros Hf Hs. apply (load_save_data_aux kvs [] _ Hf Hs). lia. Qed.
