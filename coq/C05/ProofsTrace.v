(* C05 proofs, part 5: a server history (any interleaving of saves and loads under one configuration).
   Invariant carried by induction over the history: the encryptor IV has 16 bytes and every recorded save is
   well-formed; consequence: every accepted load returns the data and expiry of a save made EARLIER in the
   same history, provided no body is ever presented with a correct MAC that was not issued earlier. *)
From CppcmsV Require Import Base.Tac Base.Sweep C15.Defs C15.Proofs C05.Defs C05.Proofs C05.ProofsAes C05.ProofsCookies.
Local Open Scope N_scope.

Inductive op :=
| OSave (d : list N) (t : Z)
| OLoad (cookie : list N) (now : Z).

Section Trace.
  Variable hmac : N -> list N -> list N -> list N.
  Variable dlen : N -> nat.
  Variable E D : list N -> list N -> list N.
  Hypothesis hmac_len : forall a k m, length (hmac a k m) = dlen a.
  Hypothesis Elen : forall k b, length (E k b) = 16%nat.
  Hypothesis Dlen : forall k b, length (D k b) = 16%nat.
  Hypothesis DE : forall k b, length b = 16%nat -> D k (E k b) = b.
  Hypothesis hmac_bytes : forall a k m, bytes_ok (hmac a k m).
  Hypothesis E_bytes : forall k b, bytes_ok b -> bytes_ok (E k b).

  (* what the server answers along a history; st = IV of the encryptor, hist = saves so far *)
  Fixpoint run (c : cfg) (st : list N) (ops : list op) : list (list N + verdict) :=
    match ops with
    | [] => []
    | OSave d t :: r => inl (fst (cookies_save hmac E c st d t)) :: run c (snd (cookies_save hmac E c st d t)) r
    | OLoad ck now :: r => inr (cookies_load hmac dlen D c now zero16 ck) :: run c st r
    end.

  Definition op_ok (o : op) : Prop :=
    match o with
    | OSave d t => bytes_ok d /\ time_ok t /\ N.of_nat (length d) + 8 < 4294967296
    | OLoad _ _ => True
    end.

  (* unforgeability along the history: whenever a load presents body ++ MAC(body), that body was issued by an earlier save *)
  Fixpoint unforgeable (c : cfg) (st : list N) (hist : list (list N * Z * list N)) (ops : list op) : Prop :=
    match ops with
    | [] => True
    | OSave d t :: r => unforgeable c (snd (cookies_save hmac E c st d t)) (hist ++ [(d, t, st)]) r
    | OLoad ck now :: r =>
        (forall rest body, ck = 67 :: rest -> decode_str rest = Some (body ++ mac_of hmac c body) ->
                           In body (issued_bodies E c hist)) /\
        unforgeable c st hist r
    end.

  (* the property along the history *)
  Fixpoint accepted_were_issued (c : cfg) (st : list N) (hist : list (list N * Z * list N)) (ops : list op) : Prop :=
    match ops with
    | [] => True
    | OSave d t :: r => accepted_were_issued c (snd (cookies_save hmac E c st d t)) (hist ++ [(d, t, st)]) r
    | OLoad ck now :: r =>
        (forall d t, cookies_load hmac dlen D c now zero16 ck = Accept d t ->
                     (now <= t)%Z /\ exists st0, In (d, t, st0) hist) /\
        accepted_were_issued c st hist r
    end.

  Lemma save_keeps_iv_length c st d t : length st = 16%nat -> length (snd (cookies_save hmac E c st d t)) = 16%nat.
  Proof.
    intros H. unfold cookies_save.
    destruct (encrypt hmac E c st (le64_enc t ++ d)) as [ci st'] eqn:He. cbn [snd].
    destruct c as [a k|ck ma mk]; cbn [encrypt] in He.
    - injection He as _ <-. exact H.
    - unfold aes_encrypt in He.
      pose proof (cbc_enc_iv_length E Elen ck (aes_total (length (le64_enc t ++ d)) / 16) st (aes_input (le64_enc t ++ d)) H) as Hl.
      destruct (cbc_enc E ck (aes_total (length (le64_enc t ++ d)) / 16) st (aes_input (le64_enc t ++ d))) as [body iv'].
      injection He as _ <-. exact Hl.
  Qed.

  Theorem history_accepts_only_issued c : forall ops st hist,
    length st = 16%nat -> Forall (save_ok) hist -> Forall op_ok ops ->
    unforgeable c st hist ops -> accepted_were_issued c st hist ops.
  Proof.
    induction ops as [|o r IH]; intros st hist Hst Hh Hops UF; [exact I|].
    inversion Hops as [|o' r' Ho Hr]; subst.
    destruct o as [d t|ck now]; cbn [unforgeable accepted_were_issued] in *.
    - apply IH; [apply save_keeps_iv_length; exact Hst| |exact Hr|exact UF].
      apply Forall_app. split; [exact Hh|]. constructor; [|constructor].
      destruct Ho as (H1 & H2 & H3). unfold save_ok. auto.
    - destruct UF as [UF1 UF2]. split; [|apply IH; assumption].
      intros d t Hacc.
      apply (issued_only hmac dlen E D hmac_len Elen Dlen DE hmac_bytes E_bytes c now zero16 ck d t hist);
        [apply repeat_length|exact Hh|exact UF1|exact Hacc].
  Qed.

  (* and along the same history every save is read back: the cookie issued by a save, presented at a clock not past its
     expiry, is accepted with exactly the saved data *)
  Lemma run_save_then_load c st d t now : length st = 16%nat -> bytes_ok st -> op_ok (OSave d t) -> (now <= t)%Z ->
    run c st [OSave d t; OLoad (fst (cookies_save hmac E c st d t)) now] =
      [inl (fst (cookies_save hmac E c st d t)); inr (Accept d t)].
  Proof.
    intros Hst Hb (H1 & H2 & H3) Hnow. cbn [run].
    rewrite (save_load hmac dlen E D hmac_len Elen Dlen DE hmac_bytes E_bytes c now st zero16 d t Hst Hb (repeat_length _ _) H1 H2 H3).
    destruct (Z.ltb_spec t now); [lia|reflexivity].
  Qed.
End Trace.
