(* C05 -- client-side sessions are accepted only if issued by this server and unexpired.
   Only property theorems here, each closed by `exact <lemma>`; proofs are in Proofs*.v.
   hmac / dlen / E / D are universally quantified (Section variables of the model); the hypotheses
   about them appear as premises. *)
From CppcmsV Require Import Base.Tac Base.Sweep C15.Defs C05.Defs C05.Proofs.
Local Open Scope N_scope.

(* A. the signing encryptor (hmac_cipher) *)
Theorem hmac_save_load : forall hmac dlen, (forall a k m, length (hmac a k m) = dlen a) ->
  forall a k p, hmac_decrypt hmac dlen a k (hmac_encrypt hmac a k p) = Some p.
Proof. exact hmac_decrypt_encrypt. Qed.
Print Assumptions hmac_save_load.

(* acceptance <-> the last dlen bytes are the MAC of everything before them (whole tag, whole message) *)
Theorem hmac_accept_iff_mac_of_whole_body : forall hmac dlen, (forall a k m, length (hmac a k m) = dlen a) ->
  forall a k c m,
  hmac_decrypt hmac dlen a k c = Some m <->
  (dlen a <= length c)%nat /\ m = firstn (length c - dlen a) c /\ skipn (length c - dlen a) c = hmac a k m.
Proof. exact hmac_decrypt_some. Qed.
Print Assumptions hmac_accept_iff_mac_of_whole_body.

Theorem hmac_mutation_accepted_iff_collision : forall hmac dlen, (forall a k m, length (hmac a k m) = dlen a) ->
  forall a k body tag, length tag = dlen a ->
  (hmac_decrypt hmac dlen a k (body ++ tag) = Some body <-> tag = hmac a k body) /\
  (hmac_decrypt hmac dlen a k (body ++ tag) = None <-> tag <> hmac a k body).
Proof. exact hmac_decrypt_body_tag. Qed.
Print Assumptions hmac_mutation_accepted_iff_collision.

Theorem hmac_short_rejected : forall hmac dlen, (forall a k m, length (hmac a k m) = dlen a) ->
  forall a k c, (length c < dlen a)%nat -> hmac_decrypt hmac dlen a k c = None.
Proof. exact hmac_decrypt_short. Qed.
Print Assumptions hmac_short_rejected.
