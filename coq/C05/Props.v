(* C05 -- client-side sessions are accepted only if issued by this server and unexpired.
   Only property theorems here, each closed by `exact <lemma>`; proofs are in Proofs.v, ProofsAes.v,
   ProofsCookies.v, ProofsConfig.v.  The model (Defs.v) is parametrised by the cryptographic primitives
     hmac a k m : HMAC with hash number a and key k over m        dlen a : its digest size
     E k b / D k b : one raw AES block operation under key k
   which are universally quantified in every theorem; what is assumed about them is spelled out by the
   abbreviations below and appears as premises.  Vocabulary (ProofsCookies.v): mac_of c body = the MAC the
   configuration c computes over body; tag_len c its length; body_ok c body = block structure demanded of
   an authenticated body (aes: whole blocks, at least two); plaintext_of c body = the plaintext an
   authenticated body stands for (a function of the body and the cipher key only: no IV, no clock);
   save_body c st p = the body a save produces for plaintext p when the encryptor IV is st;
   session_plain d t = 8-byte expiry followed by the data. *)
From CppcmsV Require Import Base.Tac Base.CSem Base.Sweep C15.Defs C05.Defs C05.Proofs C05.ProofsAes C05.ProofsCookies
  C05.ProofsConfig C05.ProofsTrace C05.ProofsObj C05.ProofsObjTrace C05.ProofsObjLive C05.ProofsSi C05.ProofsData C05.Toy C05.Link C05.LinkEqual gen.Gen_c05key gen.Gen_c05equal.
Local Open Scope N_scope.

Definition hmac_fixed_len (hmac : N -> list N -> list N -> list N) (dlen : N -> nat) : Prop :=
  forall a k m, length (hmac a k m) = dlen a.
Definition block_len (F : list N -> list N -> list N) : Prop := forall k b, length (F k b) = 16%nat.
Definition block_inverse (E D : list N -> list N -> list N) : Prop := forall k b, length b = 16%nat -> D k (E k b) = b.
Definition hmac_bytes_ok (hmac : N -> list N -> list N -> list N) : Prop := forall a k m, bytes_ok (hmac a k m).
Definition block_bytes_ok (E : list N -> list N -> list N) : Prop := forall k b, bytes_ok b -> bytes_ok (E k b).

(* ===== 1. save then load returns the saved data and expiry iff not expired (every payload, IV, clock, both encryptors) ===== *)
Theorem save_then_load : forall hmac dlen E D,
  hmac_fixed_len hmac dlen -> block_len E -> block_len D -> block_inverse E D -> hmac_bytes_ok hmac -> block_bytes_ok E ->
  forall c now st ivd d t,
  length st = 16%nat -> bytes_ok st -> length ivd = 16%nat -> bytes_ok d -> time_ok t ->
  N.of_nat (length d) + 8 < 4294967296 ->
  cookies_load hmac dlen D c now ivd (fst (cookies_save hmac E c st d t)) =
    if (t <? now)%Z then Reject true else Accept d t.
Proof. exact save_load. Qed.
Print Assumptions save_then_load.

Theorem hmac_encryptor_roundtrip : forall hmac dlen, hmac_fixed_len hmac dlen ->
  forall a k p, hmac_decrypt hmac dlen a k (hmac_encrypt hmac a k p) = Some p.
Proof. exact hmac_decrypt_encrypt. Qed.
Print Assumptions hmac_encryptor_roundtrip.

Theorem aes_encryptor_roundtrip : forall hmac dlen E D,
  hmac_fixed_len hmac dlen -> block_len E -> block_len D -> block_inverse E D ->
  forall ck ma mk iv ivd p, length iv = 16%nat -> length ivd = 16%nat -> N.of_nat (length p) < 4294967296 ->
  aes_decrypt hmac dlen D ck ma mk ivd (fst (aes_encrypt hmac E ck ma mk iv p)) = Some p.
Proof. exact aes_decrypt_encrypt. Qed.
Print Assumptions aes_encryptor_roundtrip.

Example save_then_load_nonvacuous :
  hmac_fixed_len toy_hmac toy_dlen /\ block_len toy_E /\ block_len toy_D /\ block_inverse toy_E toy_D /\
  hmac_bytes_ok toy_hmac /\ block_bytes_ok toy_E /\
  cookies_load toy_hmac toy_dlen toy_D toy_aes_cfg 1000 toy_iv2 (fst (cookies_save toy_hmac toy_E toy_aes_cfg toy_iv [104;105] 2000))
    = Accept [104;105] 2000 /\
  cookies_load toy_hmac toy_dlen toy_D toy_aes_cfg 2001 toy_iv2 (fst (cookies_save toy_hmac toy_E toy_aes_cfg toy_iv [104;105] 2000))
    = Reject true /\
  cookies_load toy_hmac toy_dlen toy_D toy_hmac_cfg 1000 toy_iv2 (fst (cookies_save toy_hmac toy_E toy_hmac_cfg toy_iv [104;105] 2000))
    = Accept [104;105] 2000.
Proof.
  split; [exact toy_hmac_len|]. split; [exact toy_Elen|]. split; [exact toy_Elen|]. split; [exact toy_DE|].
  split; [exact toy_hmac_bytes|]. split; [exact toy_E_bytes|].
  split; [vm_compute; reflexivity|]. split; vm_compute; reflexivity.
Qed.

(* ===== 2. every accepted cookie carries a correct MAC over its ENTIRE cipher text; MAC before decryption ===== *)
(* decrypt accepts iff: the last tag_len bytes are the MAC of everything before them, AND the body has the
   demanded block structure, AND the plaintext read from the body is m.  The plaintext is plaintext_of c body. *)
Theorem decrypt_accepts_iff_authentic : forall hmac dlen E D,
  hmac_fixed_len hmac dlen -> block_len E -> block_len D -> block_inverse E D ->
  forall c ivd ci m, length ivd = 16%nat ->
  (decrypt hmac dlen D c ivd ci = Some m <->
   (tag_len dlen c <= length ci)%nat /\
   skipn (length ci - tag_len dlen c) ci = mac_of hmac c (firstn (length ci - tag_len dlen c) ci) /\
   body_ok c (firstn (length ci - tag_len dlen c) ci) /\
   plaintext_of D c (firstn (length ci - tag_len dlen c) ci) = Some m).
Proof. exact decrypt_spec. Qed.
Print Assumptions decrypt_accepts_iff_authentic.

Theorem load_is_authentic : forall hmac dlen E D,
  hmac_fixed_len hmac dlen -> block_len E -> block_len D -> block_inverse E D ->
  forall c now ivd cookie d t, length ivd = 16%nat ->
  cookies_load hmac dlen D c now ivd cookie = Accept d t ->
  (now <= t)%Z /\
  exists rest body tmp,
    cookie = 67 :: rest /\
    decode_str rest = Some (body ++ mac_of hmac c body) /\
    body_ok c body /\
    plaintext_of D c body = Some tmp /\
    (8 <= length tmp)%nat /\ t = le64_dec (firstn 8 tmp) /\ d = skipn 8 tmp.
Proof. exact load_authentic. Qed.
Print Assumptions load_is_authentic.

Theorem hmac_accepts_iff_mac_of_whole_message : forall hmac dlen, hmac_fixed_len hmac dlen ->
  forall a k c m,
  hmac_decrypt hmac dlen a k c = Some m <->
  (dlen a <= length c)%nat /\ m = firstn (length c - dlen a) c /\ skipn (length c - dlen a) c = hmac a k m.
Proof. exact hmac_decrypt_some. Qed.
Print Assumptions hmac_accepts_iff_mac_of_whole_message.

(* opening what a save sealed gives the saved plaintext, whatever IV sealed it: plaintext_of is the inverse of save_body *)
Theorem authenticated_body_determines_plaintext : forall hmac dlen E D,
  hmac_fixed_len hmac dlen -> block_len E -> block_len D -> block_inverse E D ->
  forall c st p, length st = 16%nat -> N.of_nat (length p) < 4294967296 ->
  plaintext_of D c (save_body E c st p) = Some p.
Proof. exact plaintext_of_save_body. Qed.
Print Assumptions authenticated_body_determines_plaintext.

Example load_is_authentic_nonvacuous :
  exists d t, cookies_load toy_hmac toy_dlen toy_D toy_aes_cfg 1000 toy_iv2
                (fst (cookies_save toy_hmac toy_E toy_aes_cfg toy_iv [1;2;3] 5000)) = Accept d t /\ d = [1;2;3] /\ t = 5000%Z.
Proof. exists [1;2;3], 5000%Z. vm_compute. auto. Qed.

(* ===== 3. accepted only if issued (first sentence of the property), under the one cryptographic assumption ===== *)
(* hist: the saves made so far under configuration c, each with the IV the encryptor had.  The hypothesis UF is
   existential unforgeability stated on this history and this cookie: if the presented cookie carries a correct
   MAC over some body then that body is one the server issued.  Conclusion: the data and expiry returned are
   exactly those of an earlier save, and the expiry is not in the past. *)
Theorem accepted_only_if_issued : forall hmac dlen E D,
  hmac_fixed_len hmac dlen -> block_len E -> block_len D -> block_inverse E D -> hmac_bytes_ok hmac -> block_bytes_ok E ->
  forall c now ivd cookie d t (hist : list (list N * Z * list N)),
  length ivd = 16%nat ->
  Forall save_ok hist ->
  (forall rest body, cookie = 67 :: rest -> decode_str rest = Some (body ++ mac_of hmac c body) ->
                     In body (issued_bodies E c hist)) ->
  cookies_load hmac dlen D c now ivd cookie = Accept d t ->
  (now <= t)%Z /\ exists st, In (d, t, st) hist.
Proof. exact issued_only. Qed.
Print Assumptions accepted_only_if_issued.

Example accepted_only_if_issued_nonvacuous :
  let hist := [([1;2;3], 5000%Z, toy_iv)] in
  Forall save_ok hist /\
  In (save_body toy_E toy_aes_cfg toy_iv (session_plain [1;2;3] 5000)) (issued_bodies toy_E toy_aes_cfg hist) /\
  cookies_load toy_hmac toy_dlen toy_D toy_aes_cfg 1000 toy_iv2
    (fst (cookies_save toy_hmac toy_E toy_aes_cfg toy_iv [1;2;3] 5000)) = Accept [1;2;3] 5000.
Proof.
  cbv zeta. split; [|split; [left; reflexivity|vm_compute; reflexivity]].
  constructor; [|constructor]. unfold save_ok, time_ok.
  repeat split; try (vm_compute; congruence); try reflexivity.
  repeat (apply bytes_ok_cons; split; [lia|]). constructor.
Qed.

(* the same over a whole server history (any interleaving of saves and loads; the encryptor IV evolves with the saves):
   by induction over the history, every accepted load returns the data and expiry of a save made EARLIER in that
   history, provided that along the history no body is presented with a correct MAC before it was issued *)
Theorem history_accepted_only_if_issued_earlier : forall hmac dlen E D,
  hmac_fixed_len hmac dlen -> block_len E -> block_len D -> block_inverse E D -> hmac_bytes_ok hmac -> block_bytes_ok E ->
  forall c ops st hist, length st = 16%nat -> Forall save_ok hist -> Forall op_ok ops ->
  unforgeable hmac E c st hist ops -> accepted_were_issued hmac dlen E D c st hist ops.
Proof. exact history_accepts_only_issued. Qed.
Print Assumptions history_accepted_only_if_issued_earlier.

Example history_nonvacuous :
  (* save, load it back, load a cookie with a wrong tag: answers of the toy instance *)
  let ck := fst (cookies_save toy_hmac toy_E toy_aes_cfg toy_iv [7;7] 90) in
  exists bad, run toy_hmac toy_dlen toy_E toy_D toy_aes_cfg toy_iv [OSave [7;7] 90; OLoad ck 80; OLoad ck 91; OLoad bad 80]
              = [inl ck; inr (Accept [7;7] 90); inr (Reject true); inr (Reject true)] /\ bad <> ck /\ length bad = length ck.
Proof. cbv zeta. exists (67 :: 66 :: tl (tl (fst (cookies_save toy_hmac toy_E toy_aes_cfg toy_iv [7;7] 90)))). vm_compute. repeat split; congruence. Qed.

(* all spellings of one cipher text (non-alphabet characters, unused low bits of the last character) are treated alike *)
Theorem verdict_depends_on_decoded_text_only : forall hmac dlen D c now ivd r1 r2,
  decode_str r1 = decode_str r2 ->
  cookies_load hmac dlen D c now ivd (67 :: r1) = cookies_load hmac dlen D c now ivd (67 :: r2).
Proof. exact load_decoded_only. Qed.
Print Assumptions verdict_depends_on_decoded_text_only.

(* ===== 4. mutations: acceptance of a changed cookie is exactly a MAC collision ===== *)
(* any cipher text body' ++ tag' (tag of the right length) that is accepted has tag' = MAC(body') *)
Theorem mutation_accepted_only_with_correct_mac : forall hmac dlen E D,
  hmac_fixed_len hmac dlen -> block_len E -> block_len D -> block_inverse E D -> hmac_bytes_ok hmac -> block_bytes_ok E ->
  forall c now ivd body' tag' d t, length ivd = 16%nat -> length tag' = tag_len dlen c -> bytes_ok (body' ++ tag') ->
  cookies_load hmac dlen D c now ivd (67 :: encode_str (body' ++ tag')) = Accept d t -> tag' = mac_of hmac c body'.
Proof. exact load_mutation_needs_mac. Qed.
Print Assumptions mutation_accepted_only_with_correct_mac.

(* bytes of the tag changed, body unchanged: always rejected and cleared (no assumption about the MAC at all) *)
Theorem tag_mutation_rejected : forall hmac dlen E D,
  hmac_fixed_len hmac dlen -> block_len E -> block_len D -> block_inverse E D -> hmac_bytes_ok hmac -> block_bytes_ok E ->
  forall c now ivd body tag', length ivd = 16%nat -> length tag' = tag_len dlen c -> bytes_ok (body ++ tag') ->
  tag' <> mac_of hmac c body ->
  cookies_load hmac dlen D c now ivd (67 :: encode_str (body ++ tag')) = Reject true.
Proof. exact load_tag_mutation_rejected. Qed.
Print Assumptions tag_mutation_rejected.

(* bytes of the body changed (bit flips, block swaps, splices, whole-block truncation/extension) under the original
   tag: accepted only if MAC(body') = MAC(body) *)
Theorem body_mutation_accepted_only_on_collision : forall hmac dlen E D,
  hmac_fixed_len hmac dlen -> block_len E -> block_len D -> block_inverse E D -> hmac_bytes_ok hmac -> block_bytes_ok E ->
  forall c now ivd body body' d t, length ivd = 16%nat -> bytes_ok (body' ++ mac_of hmac c body) ->
  cookies_load hmac dlen D c now ivd (67 :: encode_str (body' ++ mac_of hmac c body)) = Accept d t ->
  mac_of hmac c body' = mac_of hmac c body.
Proof. exact load_body_mutation_needs_collision. Qed.
Print Assumptions body_mutation_accepted_only_on_collision.

(* cross-key / cross-algorithm transplant: a cookie saved under c1 is accepted under c2 only if both MACs agree on its body *)
Theorem transplant_accepted_only_if_macs_agree : forall hmac dlen E D,
  hmac_fixed_len hmac dlen -> block_len E -> block_len D -> block_inverse E D -> hmac_bytes_ok hmac -> block_bytes_ok E ->
  forall c1 c2 now ivd st d0 t0 d t, length ivd = 16%nat -> tag_len dlen c1 = tag_len dlen c2 -> bytes_ok st -> bytes_ok d0 ->
  cookies_load hmac dlen D c2 now ivd (fst (cookies_save hmac E c1 st d0 t0)) = Accept d t ->
  mac_of hmac c2 (save_body E c1 st (session_plain d0 t0)) = mac_of hmac c1 (save_body E c1 st (session_plain d0 t0)).
Proof. exact load_transplant_needs_equal_macs. Qed.
Print Assumptions transplant_accepted_only_if_macs_agree.

Theorem hmac_mutation_iff_collision : forall hmac dlen, hmac_fixed_len hmac dlen ->
  forall a k body tag, length tag = dlen a ->
  (hmac_decrypt hmac dlen a k (body ++ tag) = Some body <-> tag = hmac a k body) /\
  (hmac_decrypt hmac dlen a k (body ++ tag) = None <-> tag <> hmac a k body).
Proof. exact hmac_decrypt_body_tag. Qed.
Print Assumptions hmac_mutation_iff_collision.

(* structure: shorter than the digest; aes: shorter than digest + two blocks, or not a whole number of blocks *)
Theorem too_short_rejected : forall hmac dlen E D,
  hmac_fixed_len hmac dlen -> block_len E -> block_len D -> block_inverse E D ->
  forall c ivd ci, (length ci < tag_len dlen c)%nat -> decrypt hmac dlen D c ivd ci = None.
Proof. exact decrypt_short_rejected. Qed.
Print Assumptions too_short_rejected.

Theorem aes_bad_structure_rejected : forall hmac dlen E D,
  hmac_fixed_len hmac dlen -> block_len E -> block_len D -> block_inverse E D ->
  forall ck ma mk ivd ci,
  ((length ci < dlen ma + 32)%nat \/ ((length ci - dlen ma) mod 16 <> 0)%nat) ->
  aes_decrypt hmac dlen D ck ma mk ivd ci = None.
Proof. exact aes_decrypt_structure_rejected. Qed.
Print Assumptions aes_bad_structure_rejected.

Example mutation_nonvacuous :
  (* one flipped bit in the tag, one in the body, one block dropped: all rejected by the toy instance *)
  let ck := fst (cookies_save toy_hmac toy_E toy_hmac_cfg toy_iv [1;2;3] 5000) in
  cookies_load toy_hmac toy_dlen toy_D toy_hmac_cfg 1000 toy_iv2 ck = Accept [1;2;3] 5000 /\
  cookies_load toy_hmac toy_dlen toy_D toy_hmac_cfg 1000 toy_iv2
    (67 :: encode_str (session_plain [1;2;3] 5000 ++ [0; 0])) = Reject true /\
  cookies_load toy_hmac toy_dlen toy_D toy_hmac_cfg 1000 toy_iv2
    (67 :: encode_str (session_plain [1;2;7] 5000 ++ mac_of toy_hmac toy_hmac_cfg (session_plain [1;2;3] 5000))) = Reject true.
Proof. vm_compute. auto. Qed.

(* ===== 5. rejects are safe ===== *)
(* every reject clears the cookie (unless none was sent) *)
Theorem reject_clears_cookie : forall hmac dlen D c now ivd cookie b,
  cookies_load hmac dlen D c now ivd cookie = Reject b -> (cookie = [] /\ b = false) \/ (cookie <> [] /\ b = true).
Proof. exact load_reject_cleared. Qed.
Print Assumptions reject_clears_cookie.

Theorem encryptor_reject_is_cookie_reject : forall hmac dlen D c now ivd rest ci,
  decode_str rest = Some ci -> decrypt hmac dlen D c ivd ci = None ->
  cookies_load hmac dlen D c now ivd (67 :: rest) = Reject true.
Proof. exact load_rejects_what_decrypt_rejects. Qed.
Print Assumptions encryptor_reject_is_cookie_reject.

(* the inner length field of an accepted aes cipher text never reaches past the decrypted bytes:
   size + 16 (unused first block) + 4 (length field) <= body length *)
Theorem aes_inner_length_in_range : forall hmac dlen E D,
  hmac_fixed_len hmac dlen -> block_len E -> block_len D -> block_inverse E D ->
  forall ck ma mk ivd ci m, length ivd = 16%nat ->
  aes_decrypt hmac dlen D ck ma mk ivd ci = Some m ->
  exists size, (size + 20 <= length ci - dlen ma)%nat /\
    m = firstn size (skipn 20 (cbc_dec D ck ((length ci - dlen ma) / 16) zero16 (firstn (length ci - dlen ma) ci))).
Proof. exact aes_accept_in_range. Qed.
Print Assumptions aes_inner_length_in_range.

(* ===== 6. structural preconditions of confidentiality (the indistinguishability claim itself is NOT proved) ===== *)
(* after an encryption the IV of the encryptor is the last cipher block (chained, never reset to the nonce) *)
Theorem aes_iv_is_chained : forall hmac dlen E D,
  hmac_fixed_len hmac dlen -> block_len E -> block_len D -> block_inverse E D ->
  forall ck ma mk iv p,
  snd (aes_encrypt hmac E ck ma mk iv p) = skipn (aes_total (length p) - 16) (aes_body E ck iv p).
Proof. exact aes_encrypt_next_iv. Qed.
Print Assumptions aes_iv_is_chained.

(* different IVs give different cipher texts for the same payload *)
Theorem aes_different_iv_different_ciphertext : forall hmac dlen E D,
  hmac_fixed_len hmac dlen -> block_len E -> block_len D -> block_inverse E D ->
  forall ck ma mk iv1 iv2 p, length iv1 = 16%nat -> length iv2 = 16%nat -> iv1 <> iv2 ->
  fst (aes_encrypt hmac E ck ma mk iv1 p) <> fst (aes_encrypt hmac E ck ma mk iv2 p).
Proof. exact aes_encrypt_iv_injective. Qed.
Print Assumptions aes_different_iv_different_ciphertext.

Example aes_iv_nonvacuous :
  fst (aes_encrypt toy_hmac toy_E toy_key 1 [42;43] toy_iv [1;2;3]) <> fst (aes_encrypt toy_hmac toy_E toy_key 1 [42;43] toy_iv2 [1;2;3]) /\
  length (snd (aes_encrypt toy_hmac toy_E toy_key 1 [42;43] toy_iv [1;2;3])) = 16%nat.
Proof. split; [vm_compute; congruence|reflexivity]. Qed.

(* ===== 7. configuration: no cipher without MAC, no short signing key ===== *)
Theorem cipher_without_mac_refused : forall enc cbc key hkey ckey, cbc <> [] ->
  exists code, pool_config enc [] cbc key hkey ckey = inl (PrepErr code false) /\ (code = 2 \/ code = 3).
Proof. exact pool_cbc_without_mac_refused. Qed.
Print Assumptions cipher_without_mac_refused.

Theorem short_signing_key_refused : forall hmac dlen an k, (length k < 16)%nat ->
  prepare hmac dlen (RHmac an k) = PrepErr 8 false.
Proof. exact prepare_hmac_short_key_refused. Qed.
Print Assumptions short_signing_key_refused.

Theorem usable_signing_key_has_16_bytes : forall hmac dlen an k a k',
  prepare hmac dlen (RHmac an k) = PrepOk (CHmac a k') -> k' = k /\ (16 <= length k)%nat /\ hash_id an = Some a.
Proof. exact prepare_hmac_ok_key_length. Qed.
Print Assumptions usable_signing_key_has_16_bytes.

Theorem usable_cipher_key_has_exact_size : forall hmac dlen cn ck mn mk ck' a mk',
  prepare hmac dlen (RAes cn ck mn mk) = PrepOk (CAes ck' a mk') ->
  ck' = ck /\ mk' = mk /\ cbc_key_size cn = Some (length ck) /\ hash_id mn = Some a.
Proof. exact prepare_aes_ok_key_size. Qed.
Print Assumptions usable_cipher_key_has_exact_size.

Theorem combined_key_split_exactly : forall hmac (dlen : N -> nat) cks k, length k = (cks + dlen 1%N)%nat ->
  aes_combined_keys hmac dlen cks k = Some (firstn cks k, skipn cks k).
Proof. exact aes_combined_split. Qed.
Print Assumptions combined_key_split_exactly.

Theorem key_file_trailing_blanks_ignored : forall s w, s <> [] -> forallb is_ws w = true ->
  key_of_src (KFile (s ++ w)) = key_of_src (KFile s).
Proof. exact key_file_trailing_blanks. Qed.
Print Assumptions key_file_trailing_blanks_ignored.

Example configuration_nonvacuous :
  pool_config [] [] [97;101;115] (KHex []) (KFile []) (KHex [48;48]) = inl (PrepErr 3 false) /\
  prepare toy_hmac toy_dlen (RHmac [115;104;97;49] [1;2;3]) = PrepErr 8 false /\
  prepare toy_hmac toy_dlen (RHmac [83;72;65;49] toy_key) = PrepOk (CHmac 1 toy_key) /\
  key_of_src (KFile [65;98;10;13;32]) = KeyOk [171] /\ key_of_src (KFile [65;32;98;10]) = KeyBadHex /\
  pool_config [104;109;97;99] [] [] (KFile []) (KHex []) (KHex []) = inl (PrepErr 11 false).
Proof. vm_compute. repeat split; reflexivity. Qed.

(* ===== 8. tie to the source: crypto::key::from_hex regenerated from src/crypto.cpp equals the model's digit value ===== *)
Theorem source_from_hex_is_model_hexv : forall b, b < 256 ->
  Z.to_N (g_key_from_hex (wraps 8 (Z.of_N b))) = match hexv b with Some v => v | None => 0 end.
Proof. exact link_from_hex. Qed.
Print Assumptions source_from_hex_is_model_hexv.

(* ===== 9. the encryptor OBJECT: presented cookies never influence what is issued (non-interference) =====
   Defs.v models the state an encryptor carries between calls as the code has it: the cbc object of src/aes.cpp keeps two
   chaining vectors (iv_enc read/written by encrypt only, iv_dec by decrypt only; set_iv writes both, set_nonce_iv draws
   both), aes_cipher owns one cbc object, session_cookies one aes_cipher; every request does load then save on ONE object.
   enc_side_eq o o2 = the two states agree on iv_enc and on "a vector was set"; not_dec / is_save_op select the calls. *)

(* cbc object, any history of set_iv / set_nonce_iv / encrypt / decrypt: the answers of the encrypt calls are those of the
   history with EVERY decrypt call deleted (whatever the decryption side of the state was) *)
Theorem cbc_encrypt_ignores_decrypts : forall E D k ops o o2, enc_side_eq o o2 ->
  obj_outs E D is_enc_op k o ops = obj_outs E D is_enc_op k o2 (filter not_dec ops).
Proof. exact obj_enc_noninterference. Qed.
Print Assumptions cbc_encrypt_ignores_decrypts.

(* ... and so are the chaining vectors those encrypt calls start from *)
Theorem cbc_encrypt_iv_ignores_decrypts : forall E D k ops o o2, enc_side_eq o o2 ->
  obj_enc_ivs E D k o ops = obj_enc_ivs E D k o2 (filter not_dec ops).
Proof. exact obj_enc_ivs_noninterference. Qed.
Print Assumptions cbc_encrypt_iv_ignores_decrypts.

(* symmetric: decrypt answers do not depend on the encrypt calls *)
Theorem cbc_decrypt_ignores_encrypts : forall E D k ops o o2, dec_side_eq o o2 ->
  obj_outs E D is_dec_op k o ops = obj_outs E D is_dec_op k o2 (filter not_enc ops).
Proof. exact obj_dec_noninterference. Qed.
Print Assumptions cbc_decrypt_ignores_encrypts.

(* written out: once a vector is set (the nonce) and only encrypt / decrypt calls follow, the vector of the n-th encrypt is the
   nonce for n = 0 and otherwise what the (n-1)-th ENCRYPT call left behind: a function of the nonce and the encrypt inputs *)
Theorem cbc_encrypt_iv_is_nonce_chain : forall E D k ops o, iv_init o = true -> forallb only_enc_dec ops = true ->
  obj_enc_ivs E D k o ops = enc_chain E k (iv_enc o) (enc_inputs ops).
Proof. exact obj_enc_ivs_chain. Qed.
Print Assumptions cbc_encrypt_iv_is_nonce_chain.

(* session level, both encryptors, any history of saves and loads on one session_cookies object: the cookies issued are those
   the object would issue if no cookie had ever been presented to it *)
Theorem issued_cookies_ignore_presented_cookies : forall hmac dlen E D c ops o o2, iv_enc o = iv_enc o2 ->
  cookies_issued hmac dlen E D c o ops = cookies_issued hmac dlen E D c o2 (filter is_save_op ops).
Proof. exact cookies_issued_noninterference. Qed.
Print Assumptions issued_cookies_ignore_presented_cookies.

Theorem save_ivs_ignore_presented_cookies : forall hmac dlen E D c ops o o2, iv_enc o = iv_enc o2 ->
  cookies_save_ivs hmac dlen E D c o ops = cookies_save_ivs hmac dlen E D c o2 (filter is_save_op ops).
Proof. exact cookies_save_ivs_noninterference. Qed.
Print Assumptions save_ivs_ignore_presented_cookies.

(* one request: whatever cookies were loaded on the object before, the save is the save of section 1 from the object own
   encryption vector (so every theorem above about cookies_save applies to it) *)
Theorem save_after_loads_uses_own_chain : forall hmac dlen E D c o ls d t,
  fst (cookies_obj_save hmac E c (after_loads hmac dlen D c o ls) d t) = fst (cookies_save hmac E c (iv_enc o) d t).
Proof. exact save_after_loads. Qed.
Print Assumptions save_after_loads_uses_own_chain.

(* the first cipher block of an issued cipher text is E(chaining vector), independent of the payload; D of it is the vector
   (this is how the check recovers the nonce from a cookie) *)
Theorem first_block_is_E_of_iv : forall hmac dlen E D,
  hmac_fixed_len hmac dlen -> block_len E -> block_len D -> block_inverse E D ->
  forall ck ma mk o p, length (iv_enc o) = 16%nat ->
  firstn 16 (fst (aes_obj_encrypt hmac E ck ma mk o p)) = E ck (iv_enc o) /\
  D ck (firstn 16 (fst (aes_obj_encrypt hmac E ck ma mk o p))) = iv_enc o.
Proof.
  intros hmac dlen E D H1 H2 H3 H4 ck ma mk o p Hiv.
  split; [exact (aes_obj_first_block hmac dlen E D H1 H2 H3 H4 ck ma mk o p Hiv)
         |exact (aes_obj_first_block_reveals_iv hmac dlen E D H1 H2 H3 H4 ck ma mk o p Hiv)].
Qed.
Print Assumptions first_block_is_E_of_iv.

(* two objects whose nonces differ: whatever was presented to either of them, whatever they save (equal payloads included),
   the first blocks of what they issue differ, hence the cipher texts differ *)
Theorem distinct_nonces_distinct_first_blocks : forall hmac dlen E D,
  hmac_fixed_len hmac dlen -> block_len E -> block_len D -> block_inverse E D ->
  forall ck ma mk o1 o2 ls1 ls2 p1 p2,
  length (iv_enc o1) = 16%nat -> length (iv_enc o2) = 16%nat -> iv_enc o1 <> iv_enc o2 ->
  firstn 16 (fst (enc_obj_encrypt hmac E (CAes ck ma mk) (after_loads hmac dlen D (CAes ck ma mk) o1 ls1) p1)) <>
  firstn 16 (fst (enc_obj_encrypt hmac E (CAes ck ma mk) (after_loads hmac dlen D (CAes ck ma mk) o2 ls2) p2)).
Proof. exact distinct_nonce_distinct_first_block. Qed.
Print Assumptions distinct_nonces_distinct_first_blocks.

Theorem distinct_nonces_distinct_ciphertexts : forall hmac dlen E D,
  hmac_fixed_len hmac dlen -> block_len E -> block_len D -> block_inverse E D ->
  forall ck ma mk o1 o2 ls1 ls2 d t,
  length (iv_enc o1) = 16%nat -> length (iv_enc o2) = 16%nat -> iv_enc o1 <> iv_enc o2 ->
  fst (enc_obj_encrypt hmac E (CAes ck ma mk) (after_loads hmac dlen D (CAes ck ma mk) o1 ls1) (le64_enc t ++ d)) <>
  fst (enc_obj_encrypt hmac E (CAes ck ma mk) (after_loads hmac dlen D (CAes ck ma mk) o2 ls2) (le64_enc t ++ d)).
Proof. exact distinct_nonce_distinct_cookie. Qed.
Print Assumptions distinct_nonces_distinct_ciphertexts.

(* within one object the vector of the next save is the last cipher block of the cipher text just issued, also when cookies
   are presented in between *)
Theorem next_save_iv_is_own_last_block : forall hmac dlen E D,
  hmac_fixed_len hmac dlen -> block_len E -> block_len D -> block_inverse E D ->
  forall ck ma mk o p ls,
  iv_enc (after_loads hmac dlen D (CAes ck ma mk) (snd (enc_obj_encrypt hmac E (CAes ck ma mk) o p)) ls) =
  skipn (aes_total (length p) - 16) (aes_body E ck (iv_enc o) p).
Proof. exact next_save_iv_is_last_block. Qed.
Print Assumptions next_save_iv_is_own_last_block.

(* the cbc object is a working CBC: after set_iv both sides start from the vector that was set, and what encrypt
   produced is read back by decrypt on the same object *)
Theorem cbc_object_roundtrip_after_set_iv : forall E D, block_len E -> block_len D -> block_inverse E D ->
  forall k o iv p nb, length iv = 16%nat -> length p = (16 * nb)%nat ->
  obj_run E D k o [OSetIv iv; OEnc p; ODec (fst (cbc_enc E k nb iv p))] =
    [ONoOut; OOut (fst (cbc_enc E k nb iv p)); OOut p].
Proof. exact obj_set_iv_encrypt_decrypt. Qed.
Print Assumptions cbc_object_roundtrip_after_set_iv.

(* the cipher state is reached by decrypt only for AUTHENTIC input: if a presented cipher text changes the state of the
   encryptor object at all (even the decryption vector), then the encryptor is the aes one, the structure is whole blocks
   (at least two) and the tag is the MAC of everything before it -- without the key nothing moves.  Conversely every
   accepted cipher text passed that gate. *)
Theorem unauthenticated_input_never_reaches_cipher_state : forall hmac dlen D, hmac_fixed_len hmac dlen ->
  forall c o ci, snd (enc_obj_decrypt hmac dlen D c o ci) <> o ->
  exists ck ma mk, c = CAes ck ma mk /\
    skipn (length ci - dlen ma) ci = hmac ma mk (firstn (length ci - dlen ma) ci) /\
    ((length ci - dlen ma) mod 16 = 0)%nat /\ (2 <= (length ci - dlen ma) / 16)%nat.
Proof. exact unauthenticated_input_leaves_object. Qed.
Print Assumptions unauthenticated_input_never_reaches_cipher_state.

Theorem accepted_ciphertext_passed_the_gate : forall hmac dlen D ck ma mk ivd c m,
  aes_decrypt hmac dlen D ck ma mk ivd c = Some m -> aes_auth_ok hmac dlen ma mk c = true.
Proof. exact aes_decrypt_some_auth_ok. Qed.
Print Assumptions accepted_ciphertext_passed_the_gate.

(* the verdict of a load does not depend on the state of the object: whatever it saved or loaded before (any decryption
   vector of one block), the answer is the stateless cookies_load of sections 1-5 *)
Theorem load_verdict_independent_of_object_state : forall hmac dlen E D,
  hmac_fixed_len hmac dlen -> block_len E -> block_len D -> block_inverse E D ->
  forall c now o ck ivd, length (iv_dec o) = 16%nat -> length ivd = 16%nat ->
  fst (cookies_obj_load hmac dlen D c now o ck) = cookies_load hmac dlen D c now ivd ck.
Proof. exact load_verdict_stateless. Qed.
Print Assumptions load_verdict_independent_of_object_state.

(* REFINEMENT + the first sentence of the property on objects: a history of saves and loads on one encryptor object (two
   chaining vectors evolving as in the code) answers exactly as the IV-passing history of section 3 started from the object
   encryption vector, and -- under the same unforgeability hypothesis on the history -- every accepted load returns the
   data and expiry of a save made earlier in it, unexpired *)
Theorem object_history_accepted_only_if_issued_earlier : forall hmac dlen E D,
  hmac_fixed_len hmac dlen -> block_len E -> block_len D -> block_inverse E D -> hmac_bytes_ok hmac -> block_bytes_ok E ->
  forall c ops o hist,
  length (iv_enc o) = 16%nat -> length (iv_dec o) = 16%nat -> Forall save_ok hist -> Forall op_ok (map trace_op ops) ->
  unforgeable hmac E c (iv_enc o) hist (map trace_op ops) ->
  cookies_obj_run hmac dlen E D c o ops = map obj_res (run hmac dlen E D c (iv_enc o) (map trace_op ops)) /\
  accepted_were_issued hmac dlen E D c (iv_enc o) hist (map trace_op ops).
Proof. exact obj_history_accepts_only_issued. Qed.
Print Assumptions object_history_accepted_only_if_issued_earlier.

(* COMPLETENESS over object histories: a cookie issued at ANY point of ANY history on an encryptor object (obj_after = the
   state after a history; obj_ok = both chaining vectors are one block of bytes, an invariant of every history) is accepted
   at any later point of that history with exactly the saved data and expiry, as long as the expiry has not passed ... *)
Theorem issued_cookie_is_accepted_later_in_any_history : forall hmac dlen E D,
  hmac_fixed_len hmac dlen -> block_len E -> block_len D -> block_inverse E D -> hmac_bytes_ok hmac -> block_bytes_ok E ->
  forall c o ops1 d t ops2 now,
  obj_ok o -> Forall sop_ok ops1 -> sop_ok (SSave d t) -> Forall sop_ok ops2 -> (now <= t)%Z ->
  fst (cookies_obj_load hmac dlen D c now
         (obj_after hmac dlen E D c (snd (cookies_obj_save hmac E c (obj_after hmac dlen E D c o ops1) d t)) ops2)
         (fst (cookies_obj_save hmac E c (obj_after hmac dlen E D c o ops1) d t))) = Accept d t.
Proof. exact issued_cookie_accepted_later. Qed.
Print Assumptions issued_cookie_is_accepted_later_in_any_history.

(* ... and by any OTHER object of the same configuration, whatever that object did before *)
Theorem issued_cookie_is_accepted_by_any_other_object : forall hmac dlen E D,
  hmac_fixed_len hmac dlen -> block_len E -> block_len D -> block_inverse E D -> hmac_bytes_ok hmac -> block_bytes_ok E ->
  forall c o ops1 d t o2 now,
  obj_ok o -> Forall sop_ok ops1 -> sop_ok (SSave d t) -> length (iv_dec o2) = 16%nat -> (now <= t)%Z ->
  fst (cookies_obj_load hmac dlen D c now o2 (fst (cookies_obj_save hmac E c (obj_after hmac dlen E D c o ops1) d t))) = Accept d t.
Proof. exact issued_cookie_accepted_by_other_object. Qed.
Print Assumptions issued_cookie_is_accepted_by_any_other_object.

(* non-vacuity: a toy history  save, save, load(first cookie), save, load(second), save  -- both loads are ACCEPTED (the
   decryption side of the state really moves: iv_dec changes), and the four cookies are those of the four saves alone *)
Definition toy_obj : cbcobj := mkobj toy_iv toy_iv2 true.
Definition toy_ck1 := fst (cookies_obj_save toy_hmac toy_E toy_aes_cfg toy_obj [1;2;3] 2000).
Definition toy_o1 := snd (cookies_obj_save toy_hmac toy_E toy_aes_cfg toy_obj [1;2;3] 2000).
Definition toy_ck2 := fst (cookies_obj_save toy_hmac toy_E toy_aes_cfg toy_o1 [4;5] 2000).
Definition toy_hist : list sop :=
  [SSave [1;2;3] 2000; SSave [4;5] 2000; SLoad 1000 toy_ck1; SSave [4;5] 2000; SLoad 1000 toy_ck2; SSave [4;5] 2000].
Example object_noninterference_nonvacuous :
  cookies_obj_run toy_hmac toy_dlen toy_E toy_D toy_aes_cfg toy_obj toy_hist =
    [RSaved toy_ck1; RSaved toy_ck2; RLoaded (Accept [1;2;3] 2000);
     RSaved (nth 2 (cookies_issued toy_hmac toy_dlen toy_E toy_D toy_aes_cfg toy_obj toy_hist) []);
     RLoaded (Accept [4;5] 2000);
     RSaved (nth 3 (cookies_issued toy_hmac toy_dlen toy_E toy_D toy_aes_cfg toy_obj toy_hist) [])] /\
  cookies_issued toy_hmac toy_dlen toy_E toy_D toy_aes_cfg toy_obj toy_hist =
    cookies_issued toy_hmac toy_dlen toy_E toy_D toy_aes_cfg (mkobj toy_iv toy_iv true) (filter is_save_op toy_hist) /\
  length (filter is_save_op toy_hist) = 4%nat /\
  iv_dec (snd (cookies_obj_load toy_hmac toy_dlen toy_D toy_aes_cfg 1000 toy_obj toy_ck1)) <> iv_dec toy_obj /\
  iv_enc (snd (cookies_obj_load toy_hmac toy_dlen toy_D toy_aes_cfg 1000 toy_obj toy_ck1)) = iv_enc toy_obj /\
  obj_outs toy_E toy_D is_enc_op toy_key (mkobj toy_iv toy_iv2 true) [OEnc toy_iv2; ODec toy_key; OEnc toy_iv2] =
    obj_outs toy_E toy_D is_enc_op toy_key (mkobj toy_iv toy_key true) [OEnc toy_iv2; OEnc toy_iv2] /\
  obj_run toy_E toy_D toy_key obj_fresh [OEnc toy_iv; OSetIv [1;2]; OSetIv toy_iv; ODec toy_iv2] =
    [OThrow; OThrow; ONoOut; OOut (xorl (toy_D toy_key toy_iv2) toy_iv)].
Proof.
  split; [vm_compute; reflexivity|]. split; [vm_compute; reflexivity|]. split; [reflexivity|].
  split; [vm_compute; congruence|]. split; [vm_compute; reflexivity|]. split; vm_compute; reflexivity.
Qed.

(* ===== 10. what a request may do to the expiry (session_interface::save decision, model si_save_decide) =====
   how = 0 fixed, 1 renew, 2 browser; loaded = Some (data, expiry) when load() accepted the presented cookie *)
(* fixed policy: re-saving an existing session never moves its expiry (nothing issued, or the loaded expiry is kept) *)
Theorem fixed_policy_never_extends_expiry : forall timeout_val now dc tin data r, dc <> [] ->
  si_save_decide 0 timeout_val now (Some (dc, tin)) data = Some r -> r = tin.
Proof. exact si_fixed_keeps_expiry. Qed.
Print Assumptions fixed_policy_never_extends_expiry.

(* a request that changes the data always issues a cookie *)
Theorem changed_session_is_always_saved : forall how timeout_val now loaded data,
  (forall dc tin, loaded = Some (dc, tin) -> kv_eqb data dc = false) ->
  si_save_decide how timeout_val now loaded data <> None.
Proof. exact si_changed_data_is_saved. Qed.
Print Assumptions changed_session_is_always_saved.

(* renew / browser policy: an issued cookie expires at now + timeout; a new session does under every policy *)
Theorem renewed_expiry_is_now_plus_timeout : forall how timeout_val now loaded data r, how <> 0 ->
  si_save_decide how timeout_val now loaded data = Some r -> r = (timeout_val + now)%Z.
Proof. exact si_renew_expiry. Qed.
Print Assumptions renewed_expiry_is_now_plus_timeout.

(* what a request saves is what the next request loads: the session data codec (packed 10/1/21-bit header, key, value)
   round trips for every data map whose keys (< 1024 bytes) and values (< 2 MiB) fit the header, keys in std::map order *)
Theorem saved_session_data_is_loaded_back : forall kvs, Forall kv_fits kvs -> Sorted.StronglySorted key_lt kvs ->
  session_load_data (length (session_save_data kvs)) (session_save_data kvs) [] = Some kvs.
Proof. exact load_save_data. Qed.
Print Assumptions saved_session_data_is_loaded_back.

Example save_decision_nonvacuous :
  si_save_decide 0 3600 1000 (Some ([([97],[1])], 2000%Z)) [([97],[2])] = Some 2000%Z /\
  si_save_decide 0 3600 1000 (Some ([([97],[1])], 2000%Z)) [([97],[1])] = None /\
  si_save_decide 1 3600 1000 (Some ([([97],[1])], 2000%Z)) [([97],[1])] = Some 4600%Z /\
  si_save_decide 1 3600 1000 (Some ([([97],[1])], 4500%Z)) [([97],[1])] = None /\
  si_save_decide 0 3600 1000 None [([97],[1])] = Some 4600%Z /\
  session_load_data 20 (session_save_data [([97],[1;2]); ([98;99],[])]) [] = Some [([97],[1;2]); ([98;99],[])] /\
  kv_set_all [([98],[7]); ([97],[8])] [([97],[1]); ([99],[2])] = [([97],[8]); ([98],[7]); ([99],[2])].
Proof. vm_compute. repeat split; reflexivity. Qed.

(* ===== 11. tie to the source: hmac_cipher::equal, the tag comparator of BOTH encryptors (src/hmac_encryptor.cpp) =====
   g_equal_step / g_equal_done are the loop body and the return test of the function as they are in the current source
   (coq/gen/Gen_c05equal.v, regenerated on every run; checks/C05.py insists on the byte-loop frame around them).
   src_equal a b = the source loop run over the two byte strings, then the return test.  It is an equality test of ALL
   bytes and it is the model's ct_equal -- so tag_mutation_rejected & co. speak about the comparator the code really has.
   A comparator whose accumulator can cancel (xor of lanes, wrapping sums) or looks one way only cannot satisfy this. *)
Theorem source_equal_is_equality_of_all_bytes : forall a b, bytes_ok a -> bytes_ok b -> length a = length b ->
  (Z.of_nat (length a) < 18446744073709551616)%Z ->
  (src_equal a b = true <-> a = b).
Proof. exact link_equal_iff_eq. Qed.
Print Assumptions source_equal_is_equality_of_all_bytes.

Theorem source_equal_is_model_ct_equal : forall a b, bytes_ok a -> bytes_ok b -> length a = length b ->
  (Z.of_nat (length a) < 18446744073709551616)%Z ->
  src_equal a b = ct_equal (length a) a b.
Proof. exact link_equal_is_model. Qed.
Print Assumptions source_equal_is_model_ct_equal.

Theorem source_equal_step_counts_differences : forall d x y, x < 256 -> y < 256 -> (0 <= d < 18446744073709551615)%Z ->
  g_equal_step d (as_char x) (as_char y) = if x =? y then d else (d + 1)%Z.
Proof. exact link_equal_step. Qed.
Print Assumptions source_equal_step_counts_differences.

Example source_equal_nonvacuous :
  src_equal [1;2;3;4;5;6;7;8] [1;2;3;4;5;6;7;8] = true /\
  src_equal [1;2;3;4;5;6;7;8] [5;6;7;8;1;2;3;4] = false /\        (* two words exchanged *)
  src_equal [1;2;3;4;5;6;7;8] [0;2;3;4;4;6;7;8] = false /\        (* the same bit flipped at offsets equal mod 4 *)
  src_equal [128;0;0;0;0;0;0;0] [0;0;0;0;128;0;0;0] = false /\
  src_equal [255;255] [255;254] = false /\ src_equal [0;0] [0;1] = false.
Proof. vm_compute. repeat split; reflexivity. Qed.
