(* C05 -- client-side sessions are accepted only if issued by this server and unexpired.
   Only property theorems here, each closed by `exact <lemma>`; proofs are in Proofs.v, ProofsAes.v,
   ProofsCookies.v, ProofsConfig.v.  The model (Defs.v) is parametrised by the cryptographic primitives
     hmac a k m : HMAC with hash number a and key k over m        dlen a : its digest size
     E k b / D k b : one raw AES block operation under key k
   which are universally quantified in every theorem; what is assumed about them is spelled out by the
   abbreviations below and appears as premises.  Vocabulary (ProofsCookies.v): mac_of c body = the MAC the
   configuration c computes over body; tag_len c its length; body_ok c body = block structure demanded of
   an authenticated body (aes: whole blocks, at least two); plaintext_of c body = the plaintext an
   authenticated body stands for (a function of the body and the cipher key only: no IV, no clock);
   save_body c st p = the body a save produces for plaintext p when the encryptor IV is st;
   session_plain d t = 8-byte expiry followed by the data. *)
From CppcmsV Require Import Base.Tac Base.CSem Base.Sweep C15.Defs C05.Defs C05.Proofs C05.ProofsAes C05.ProofsCookies
  C05.ProofsConfig C05.ProofsTrace C05.Toy C05.Link gen.Gen_c05key.
Local Open Scope N_scope.

Definition hmac_fixed_len (hmac : N -> list N -> list N -> list N) (dlen : N -> nat) : Prop :=
  forall a k m, length (hmac a k m) = dlen a.
Definition block_len (F : list N -> list N -> list N) : Prop := forall k b, length (F k b) = 16%nat.
Definition block_inverse (E D : list N -> list N -> list N) : Prop := forall k b, length b = 16%nat -> D k (E k b) = b.
Definition hmac_bytes_ok (hmac : N -> list N -> list N -> list N) : Prop := forall a k m, bytes_ok (hmac a k m).
Definition block_bytes_ok (E : list N -> list N -> list N) : Prop := forall k b, bytes_ok b -> bytes_ok (E k b).

(* ===== 1. save then load returns the saved data and expiry iff not expired (every payload, IV, clock, both encryptors) ===== *)
Theorem save_then_load : forall hmac dlen E D,
  hmac_fixed_len hmac dlen -> block_len E -> block_len D -> block_inverse E D -> hmac_bytes_ok hmac -> block_bytes_ok E ->
  forall c now st ivd d t,
  length st = 16%nat -> bytes_ok st -> length ivd = 16%nat -> bytes_ok d -> time_ok t ->
  N.of_nat (length d) + 8 < 4294967296 ->
  cookies_load hmac dlen D c now ivd (fst (cookies_save hmac E c st d t)) =
    if (t <? now)%Z then Reject true else Accept d t.
Proof. exact save_load. Qed.
Print Assumptions save_then_load.

Theorem hmac_encryptor_roundtrip : forall hmac dlen, hmac_fixed_len hmac dlen ->
  forall a k p, hmac_decrypt hmac dlen a k (hmac_encrypt hmac a k p) = Some p.
Proof. exact hmac_decrypt_encrypt. Qed.
Print Assumptions hmac_encryptor_roundtrip.

Theorem aes_encryptor_roundtrip : forall hmac dlen E D,
  hmac_fixed_len hmac dlen -> block_len E -> block_len D -> block_inverse E D ->
  forall ck ma mk iv ivd p, length iv = 16%nat -> length ivd = 16%nat -> N.of_nat (length p) < 4294967296 ->
  aes_decrypt hmac dlen D ck ma mk ivd (fst (aes_encrypt hmac E ck ma mk iv p)) = Some p.
Proof. exact aes_decrypt_encrypt. Qed.
Print Assumptions aes_encryptor_roundtrip.

Example save_then_load_nonvacuous :
  hmac_fixed_len toy_hmac toy_dlen /\ block_len toy_E /\ block_len toy_D /\ block_inverse toy_E toy_D /\
  hmac_bytes_ok toy_hmac /\ block_bytes_ok toy_E /\
  cookies_load toy_hmac toy_dlen toy_D toy_aes_cfg 1000 toy_iv2 (fst (cookies_save toy_hmac toy_E toy_aes_cfg toy_iv [104;105] 2000))
    = Accept [104;105] 2000 /\
  cookies_load toy_hmac toy_dlen toy_D toy_aes_cfg 2001 toy_iv2 (fst (cookies_save toy_hmac toy_E toy_aes_cfg toy_iv [104;105] 2000))
    = Reject true /\
  cookies_load toy_hmac toy_dlen toy_D toy_hmac_cfg 1000 toy_iv2 (fst (cookies_save toy_hmac toy_E toy_hmac_cfg toy_iv [104;105] 2000))
    = Accept [104;105] 2000.
Proof.
  split; [exact toy_hmac_len|]. split; [exact toy_Elen|]. split; [exact toy_Elen|]. split; [exact toy_DE|].
  split; [exact toy_hmac_bytes|]. split; [exact toy_E_bytes|].
  split; [vm_compute; reflexivity|]. split; vm_compute; reflexivity.
Qed.

(* ===== 2. every accepted cookie carries a correct MAC over its ENTIRE cipher text; MAC before decryption ===== *)
(* decrypt accepts iff: the last tag_len bytes are the MAC of everything before them, AND the body has the
   demanded block structure, AND the plaintext read from the body is m.  The plaintext is plaintext_of c body. *)
Theorem decrypt_accepts_iff_authentic : forall hmac dlen E D,
  hmac_fixed_len hmac dlen -> block_len E -> block_len D -> block_inverse E D ->
  forall c ivd ci m, length ivd = 16%nat ->
  (decrypt hmac dlen D c ivd ci = Some m <->
   (tag_len dlen c <= length ci)%nat /\
   skipn (length ci - tag_len dlen c) ci = mac_of hmac c (firstn (length ci - tag_len dlen c) ci) /\
   body_ok c (firstn (length ci - tag_len dlen c) ci) /\
   plaintext_of D c (firstn (length ci - tag_len dlen c) ci) = Some m).
Proof. exact decrypt_spec. Qed.
Print Assumptions decrypt_accepts_iff_authentic.

Theorem load_is_authentic : forall hmac dlen E D,
  hmac_fixed_len hmac dlen -> block_len E -> block_len D -> block_inverse E D ->
  forall c now ivd cookie d t, length ivd = 16%nat ->
  cookies_load hmac dlen D c now ivd cookie = Accept d t ->
  (now <= t)%Z /\
  exists rest body tmp,
    cookie = 67 :: rest /\
    decode_str rest = Some (body ++ mac_of hmac c body) /\
    body_ok c body /\
    plaintext_of D c body = Some tmp /\
    (8 <= length tmp)%nat /\ t = le64_dec (firstn 8 tmp) /\ d = skipn 8 tmp.
Proof. exact load_authentic. Qed.
Print Assumptions load_is_authentic.

Theorem hmac_accepts_iff_mac_of_whole_message : forall hmac dlen, hmac_fixed_len hmac dlen ->
  forall a k c m,
  hmac_decrypt hmac dlen a k c = Some m <->
  (dlen a <= length c)%nat /\ m = firstn (length c - dlen a) c /\ skipn (length c - dlen a) c = hmac a k m.
Proof. exact hmac_decrypt_some. Qed.
Print Assumptions hmac_accepts_iff_mac_of_whole_message.

(* opening what a save sealed gives the saved plaintext, whatever IV sealed it: plaintext_of is the inverse of save_body *)
Theorem authenticated_body_determines_plaintext : forall hmac dlen E D,
  hmac_fixed_len hmac dlen -> block_len E -> block_len D -> block_inverse E D ->
  forall c st p, length st = 16%nat -> N.of_nat (length p) < 4294967296 ->
  plaintext_of D c (save_body E c st p) = Some p.
Proof. exact plaintext_of_save_body. Qed.
Print Assumptions authenticated_body_determines_plaintext.

Example load_is_authentic_nonvacuous :
  exists d t, cookies_load toy_hmac toy_dlen toy_D toy_aes_cfg 1000 toy_iv2
                (fst (cookies_save toy_hmac toy_E toy_aes_cfg toy_iv [1;2;3] 5000)) = Accept d t /\ d = [1;2;3] /\ t = 5000%Z.
Proof. exists [1;2;3], 5000%Z. vm_compute. auto. Qed.

(* ===== 3. accepted only if issued (first sentence of the property), under the one cryptographic assumption ===== *)
(* hist: the saves made so far under configuration c, each with the IV the encryptor had.  The hypothesis UF is
   existential unforgeability stated on this history and this cookie: if the presented cookie carries a correct
   MAC over some body then that body is one the server issued.  Conclusion: the data and expiry returned are
   exactly those of an earlier save, and the expiry is not in the past. *)
Theorem accepted_only_if_issued : forall hmac dlen E D,
  hmac_fixed_len hmac dlen -> block_len E -> block_len D -> block_inverse E D -> hmac_bytes_ok hmac -> block_bytes_ok E ->
  forall c now ivd cookie d t (hist : list (list N * Z * list N)),
  length ivd = 16%nat ->
  Forall save_ok hist ->
  (forall rest body, cookie = 67 :: rest -> decode_str rest = Some (body ++ mac_of hmac c body) ->
                     In body (issued_bodies E c hist)) ->
  cookies_load hmac dlen D c now ivd cookie = Accept d t ->
  (now <= t)%Z /\ exists st, In (d, t, st) hist.
Proof. exact issued_only. Qed.
Print Assumptions accepted_only_if_issued.

Example accepted_only_if_issued_nonvacuous :
  let hist := [([1;2;3], 5000%Z, toy_iv)] in
  Forall save_ok hist /\
  In (save_body toy_E toy_aes_cfg toy_iv (session_plain [1;2;3] 5000)) (issued_bodies toy_E toy_aes_cfg hist) /\
  cookies_load toy_hmac toy_dlen toy_D toy_aes_cfg 1000 toy_iv2
    (fst (cookies_save toy_hmac toy_E toy_aes_cfg toy_iv [1;2;3] 5000)) = Accept [1;2;3] 5000.
Proof.
  cbv zeta. split; [|split; [left; reflexivity|vm_compute; reflexivity]].
  constructor; [|constructor]. unfold save_ok, time_ok.
  repeat split; try (vm_compute; congruence); try reflexivity.
  repeat (apply bytes_ok_cons; split; [lia|]). constructor.
Qed.

(* the same over a whole server history (any interleaving of saves and loads; the encryptor IV evolves with the saves):
   by induction over the history, every accepted load returns the data and expiry of a save made EARLIER in that
   history, provided that along the history no body is presented with a correct MAC before it was issued *)
Theorem history_accepted_only_if_issued_earlier : forall hmac dlen E D,
  hmac_fixed_len hmac dlen -> block_len E -> block_len D -> block_inverse E D -> hmac_bytes_ok hmac -> block_bytes_ok E ->
  forall c ops st hist, length st = 16%nat -> Forall save_ok hist -> Forall op_ok ops ->
  unforgeable hmac E c st hist ops -> accepted_were_issued hmac dlen E D c st hist ops.
Proof. exact history_accepts_only_issued. Qed.
Print Assumptions history_accepted_only_if_issued_earlier.

Example history_nonvacuous :
  (* save, load it back, load a cookie with a wrong tag: answers of the toy instance *)
  let ck := fst (cookies_save toy_hmac toy_E toy_aes_cfg toy_iv [7;7] 90) in
  exists bad, run toy_hmac toy_dlen toy_E toy_D toy_aes_cfg toy_iv [OSave [7;7] 90; OLoad ck 80; OLoad ck 91; OLoad bad 80]
              = [inl ck; inr (Accept [7;7] 90); inr (Reject true); inr (Reject true)] /\ bad <> ck /\ length bad = length ck.
Proof. cbv zeta. exists (67 :: 66 :: tl (tl (fst (cookies_save toy_hmac toy_E toy_aes_cfg toy_iv [7;7] 90)))). vm_compute. repeat split; congruence. Qed.

(* all spellings of one cipher text (non-alphabet characters, unused low bits of the last character) are treated alike *)
Theorem verdict_depends_on_decoded_text_only : forall hmac dlen D c now ivd r1 r2,
  decode_str r1 = decode_str r2 ->
  cookies_load hmac dlen D c now ivd (67 :: r1) = cookies_load hmac dlen D c now ivd (67 :: r2).
Proof. exact load_decoded_only. Qed.
Print Assumptions verdict_depends_on_decoded_text_only.

(* ===== 4. mutations: acceptance of a changed cookie is exactly a MAC collision ===== *)
(* any cipher text body' ++ tag' (tag of the right length) that is accepted has tag' = MAC(body') *)
Theorem mutation_accepted_only_with_correct_mac : forall hmac dlen E D,
  hmac_fixed_len hmac dlen -> block_len E -> block_len D -> block_inverse E D -> hmac_bytes_ok hmac -> block_bytes_ok E ->
  forall c now ivd body' tag' d t, length ivd = 16%nat -> length tag' = tag_len dlen c -> bytes_ok (body' ++ tag') ->
  cookies_load hmac dlen D c now ivd (67 :: encode_str (body' ++ tag')) = Accept d t -> tag' = mac_of hmac c body'.
Proof. exact load_mutation_needs_mac. Qed.
Print Assumptions mutation_accepted_only_with_correct_mac.

(* bytes of the tag changed, body unchanged: always rejected and cleared (no assumption about the MAC at all) *)
Theorem tag_mutation_rejected : forall hmac dlen E D,
  hmac_fixed_len hmac dlen -> block_len E -> block_len D -> block_inverse E D -> hmac_bytes_ok hmac -> block_bytes_ok E ->
  forall c now ivd body tag', length ivd = 16%nat -> length tag' = tag_len dlen c -> bytes_ok (body ++ tag') ->
  tag' <> mac_of hmac c body ->
  cookies_load hmac dlen D c now ivd (67 :: encode_str (body ++ tag')) = Reject true.
Proof. exact load_tag_mutation_rejected. Qed.
Print Assumptions tag_mutation_rejected.

(* bytes of the body changed (bit flips, block swaps, splices, whole-block truncation/extension) under the original
   tag: accepted only if MAC(body') = MAC(body) *)
Theorem body_mutation_accepted_only_on_collision : forall hmac dlen E D,
  hmac_fixed_len hmac dlen -> block_len E -> block_len D -> block_inverse E D -> hmac_bytes_ok hmac -> block_bytes_ok E ->
  forall c now ivd body body' d t, length ivd = 16%nat -> bytes_ok (body' ++ mac_of hmac c body) ->
  cookies_load hmac dlen D c now ivd (67 :: encode_str (body' ++ mac_of hmac c body)) = Accept d t ->
  mac_of hmac c body' = mac_of hmac c body.
Proof. exact load_body_mutation_needs_collision. Qed.
Print Assumptions body_mutation_accepted_only_on_collision.

(* cross-key / cross-algorithm transplant: a cookie saved under c1 is accepted under c2 only if both MACs agree on its body *)
Theorem transplant_accepted_only_if_macs_agree : forall hmac dlen E D,
  hmac_fixed_len hmac dlen -> block_len E -> block_len D -> block_inverse E D -> hmac_bytes_ok hmac -> block_bytes_ok E ->
  forall c1 c2 now ivd st d0 t0 d t, length ivd = 16%nat -> tag_len dlen c1 = tag_len dlen c2 -> bytes_ok st -> bytes_ok d0 ->
  cookies_load hmac dlen D c2 now ivd (fst (cookies_save hmac E c1 st d0 t0)) = Accept d t ->
  mac_of hmac c2 (save_body E c1 st (session_plain d0 t0)) = mac_of hmac c1 (save_body E c1 st (session_plain d0 t0)).
Proof. exact load_transplant_needs_equal_macs. Qed.
Print Assumptions transplant_accepted_only_if_macs_agree.

Theorem hmac_mutation_iff_collision : forall hmac dlen, hmac_fixed_len hmac dlen ->
  forall a k body tag, length tag = dlen a ->
  (hmac_decrypt hmac dlen a k (body ++ tag) = Some body <-> tag = hmac a k body) /\
  (hmac_decrypt hmac dlen a k (body ++ tag) = None <-> tag <> hmac a k body).
Proof. exact hmac_decrypt_body_tag. Qed.
Print Assumptions hmac_mutation_iff_collision.

(* structure: shorter than the digest; aes: shorter than digest + two blocks, or not a whole number of blocks *)
Theorem too_short_rejected : forall hmac dlen E D,
  hmac_fixed_len hmac dlen -> block_len E -> block_len D -> block_inverse E D ->
  forall c ivd ci, (length ci < tag_len dlen c)%nat -> decrypt hmac dlen D c ivd ci = None.
Proof. exact decrypt_short_rejected. Qed.
Print Assumptions too_short_rejected.

Theorem aes_bad_structure_rejected : forall hmac dlen E D,
  hmac_fixed_len hmac dlen -> block_len E -> block_len D -> block_inverse E D ->
  forall ck ma mk ivd ci,
  ((length ci < dlen ma + 32)%nat \/ ((length ci - dlen ma) mod 16 <> 0)%nat) ->
  aes_decrypt hmac dlen D ck ma mk ivd ci = None.
Proof. exact aes_decrypt_structure_rejected. Qed.
Print Assumptions aes_bad_structure_rejected.

Example mutation_nonvacuous :
  (* one flipped bit in the tag, one in the body, one block dropped: all rejected by the toy instance *)
  let ck := fst (cookies_save toy_hmac toy_E toy_hmac_cfg toy_iv [1;2;3] 5000) in
  cookies_load toy_hmac toy_dlen toy_D toy_hmac_cfg 1000 toy_iv2 ck = Accept [1;2;3] 5000 /\
  cookies_load toy_hmac toy_dlen toy_D toy_hmac_cfg 1000 toy_iv2
    (67 :: encode_str (session_plain [1;2;3] 5000 ++ [0; 0])) = Reject true /\
  cookies_load toy_hmac toy_dlen toy_D toy_hmac_cfg 1000 toy_iv2
    (67 :: encode_str (session_plain [1;2;7] 5000 ++ mac_of toy_hmac toy_hmac_cfg (session_plain [1;2;3] 5000))) = Reject true.
Proof. vm_compute. auto. Qed.

(* ===== 5. rejects are safe ===== *)
(* every reject clears the cookie (unless none was sent) *)
Theorem reject_clears_cookie : forall hmac dlen D c now ivd cookie b,
  cookies_load hmac dlen D c now ivd cookie = Reject b -> (cookie = [] /\ b = false) \/ (cookie <> [] /\ b = true).
Proof. exact load_reject_cleared. Qed.
Print Assumptions reject_clears_cookie.

Theorem encryptor_reject_is_cookie_reject : forall hmac dlen D c now ivd rest ci,
  decode_str rest = Some ci -> decrypt hmac dlen D c ivd ci = None ->
  cookies_load hmac dlen D c now ivd (67 :: rest) = Reject true.
Proof. exact load_rejects_what_decrypt_rejects. Qed.
Print Assumptions encryptor_reject_is_cookie_reject.

(* the inner length field of an accepted aes cipher text never reaches past the decrypted bytes:
   size + 16 (unused first block) + 4 (length field) <= body length *)
Theorem aes_inner_length_in_range : forall hmac dlen E D,
  hmac_fixed_len hmac dlen -> block_len E -> block_len D -> block_inverse E D ->
  forall ck ma mk ivd ci m, length ivd = 16%nat ->
  aes_decrypt hmac dlen D ck ma mk ivd ci = Some m ->
  exists size, (size + 20 <= length ci - dlen ma)%nat /\
    m = firstn size (skipn 20 (cbc_dec D ck ((length ci - dlen ma) / 16) zero16 (firstn (length ci - dlen ma) ci))).
Proof. exact aes_accept_in_range. Qed.
Print Assumptions aes_inner_length_in_range.

(* ===== 6. structural preconditions of confidentiality (the indistinguishability claim itself is NOT proved) ===== *)
(* after an encryption the IV of the encryptor is the last cipher block (chained, never reset to the nonce) *)
Theorem aes_iv_is_chained : forall hmac dlen E D,
  hmac_fixed_len hmac dlen -> block_len E -> block_len D -> block_inverse E D ->
  forall ck ma mk iv p,
  snd (aes_encrypt hmac E ck ma mk iv p) = skipn (aes_total (length p) - 16) (aes_body E ck iv p).
Proof. exact aes_encrypt_next_iv. Qed.
Print Assumptions aes_iv_is_chained.

(* different IVs give different cipher texts for the same payload *)
Theorem aes_different_iv_different_ciphertext : forall hmac dlen E D,
  hmac_fixed_len hmac dlen -> block_len E -> block_len D -> block_inverse E D ->
  forall ck ma mk iv1 iv2 p, length iv1 = 16%nat -> length iv2 = 16%nat -> iv1 <> iv2 ->
  fst (aes_encrypt hmac E ck ma mk iv1 p) <> fst (aes_encrypt hmac E ck ma mk iv2 p).
Proof. exact aes_encrypt_iv_injective. Qed.
Print Assumptions aes_different_iv_different_ciphertext.

Example aes_iv_nonvacuous :
  fst (aes_encrypt toy_hmac toy_E toy_key 1 [42;43] toy_iv [1;2;3]) <> fst (aes_encrypt toy_hmac toy_E toy_key 1 [42;43] toy_iv2 [1;2;3]) /\
  length (snd (aes_encrypt toy_hmac toy_E toy_key 1 [42;43] toy_iv [1;2;3])) = 16%nat.
Proof. split; [vm_compute; congruence|reflexivity]. Qed.

(* ===== 7. configuration: no cipher without MAC, no short signing key ===== *)
Theorem cipher_without_mac_refused : forall enc cbc key hkey ckey, cbc <> [] ->
  exists code, pool_config enc [] cbc key hkey ckey = inl (PrepErr code false) /\ (code = 2 \/ code = 3).
Proof. exact pool_cbc_without_mac_refused. Qed.
Print Assumptions cipher_without_mac_refused.

Theorem short_signing_key_refused : forall hmac dlen an k, (length k < 16)%nat ->
  prepare hmac dlen (RHmac an k) = PrepErr 8 false.
Proof. exact prepare_hmac_short_key_refused. Qed.
Print Assumptions short_signing_key_refused.

Theorem usable_signing_key_has_16_bytes : forall hmac dlen an k a k',
  prepare hmac dlen (RHmac an k) = PrepOk (CHmac a k') -> k' = k /\ (16 <= length k)%nat /\ hash_id an = Some a.
Proof. exact prepare_hmac_ok_key_length. Qed.
Print Assumptions usable_signing_key_has_16_bytes.

Theorem usable_cipher_key_has_exact_size : forall hmac dlen cn ck mn mk ck' a mk',
  prepare hmac dlen (RAes cn ck mn mk) = PrepOk (CAes ck' a mk') ->
  ck' = ck /\ mk' = mk /\ cbc_key_size cn = Some (length ck) /\ hash_id mn = Some a.
Proof. exact prepare_aes_ok_key_size. Qed.
Print Assumptions usable_cipher_key_has_exact_size.

Theorem combined_key_split_exactly : forall hmac (dlen : N -> nat) cks k, length k = (cks + dlen 1%N)%nat ->
  aes_combined_keys hmac dlen cks k = Some (firstn cks k, skipn cks k).
Proof. exact aes_combined_split. Qed.
Print Assumptions combined_key_split_exactly.

Theorem key_file_trailing_blanks_ignored : forall s w, s <> [] -> forallb is_ws w = true ->
  key_of_src (KFile (s ++ w)) = key_of_src (KFile s).
Proof. exact key_file_trailing_blanks. Qed.
Print Assumptions key_file_trailing_blanks_ignored.

Example configuration_nonvacuous :
  pool_config [] [] [97;101;115] (KHex []) (KFile []) (KHex [48;48]) = inl (PrepErr 3 false) /\
  prepare toy_hmac toy_dlen (RHmac [115;104;97;49] [1;2;3]) = PrepErr 8 false /\
  prepare toy_hmac toy_dlen (RHmac [83;72;65;49] toy_key) = PrepOk (CHmac 1 toy_key) /\
  key_of_src (KFile [65;98;10;13;32]) = KeyOk [171] /\ key_of_src (KFile [65;32;98;10]) = KeyBadHex /\
  pool_config [104;109;97;99] [] [] (KFile []) (KHex []) (KHex []) = inl (PrepErr 11 false).
Proof. vm_compute. repeat split; reflexivity. Qed.

(* ===== 8. tie to the source: crypto::key::from_hex regenerated from src/crypto.cpp equals the model's digit value ===== *)
Theorem source_from_hex_is_model_hexv : forall b, b < 256 ->
  Z.to_N (g_key_from_hex (wraps 8 (Z.of_N b))) = match hexv b with Some v => v | None => 0 end.
Proof. exact link_from_hex. Qed.
Print Assumptions source_from_hex_is_model_hexv.
