(* C05: completeness over object histories: a cookie issued at ANY point of ANY history on an encryptor object is accepted
   at any later point of that history (and by any other object in any state) with exactly the saved data, as long as its
   expiry has not passed.  Invariant carried through the history: both chaining vectors are one block of bytes. *)
From CppcmsV Require Import Base.Tac Base.Sweep C15.Defs C15.Proofs C05.Defs C05.Proofs C05.ProofsAes C05.ProofsCookies
  C05.ProofsTrace C05.ProofsObj C05.ProofsObjTrace.
Local Open Scope N_scope.

Definition obj_ok (o : cbcobj) : Prop := length (iv_enc o) = 16%nat /\ bytes_ok (iv_enc o) /\ length (iv_dec o) = 16%nat.
Definition sop_ok (op : sop) : Prop :=
  match op with
  | SSave d t => bytes_ok d /\ time_ok t /\ N.of_nat (length d) + 8 < 4294967296
  | SLoad _ _ => True
  end.

Section ObjLive.
  Variable hmac : N -> list N -> list N -> list N.
  Variable dlen : N -> nat.
  Variable E D : list N -> list N -> list N.
  Hypothesis hmac_len : forall a k m, length (hmac a k m) = dlen a.
  Hypothesis Elen : forall k b, length (E k b) = 16%nat.
  Hypothesis Dlen : forall k b, length (D k b) = 16%nat.
  Hypothesis DE : forall k b, length b = 16%nat -> D k (E k b) = b.
  Hypothesis hmac_bytes : forall a k m, bytes_ok (hmac a k m).
  Hypothesis E_bytes : forall k b, bytes_ok b -> bytes_ok (E k b).

  (* the state of the object after a history *)
  Fixpoint obj_after (c : cfg) (o : cbcobj) (ops : list sop) : cbcobj :=
    match ops with
    | [] => o
    | op :: r => obj_after c (snd (cookies_obj_step hmac dlen E D c o op)) r
    end.

  Lemma save_keeps_iv_bytes c st d t : length st = 16%nat -> bytes_ok st -> bytes_ok d ->
    bytes_ok (snd (cookies_save hmac E c st d t)).
  Proof.
    intros Hl Hb Hd. unfold cookies_save.
    destruct (encrypt hmac E c st (le64_enc t ++ d)) as [ci st'] eqn:He. cbn [snd].
    destruct c as [a k|ck ma mk]; cbn [encrypt] in He.
    - injection He as _ <-. exact Hb.
    - pose proof (aes_encrypt_next_iv hmac dlen E D hmac_len Elen Dlen DE ck ma mk st (le64_enc t ++ d)) as Hn.
      rewrite He in Hn. cbn [snd] in Hn. rewrite Hn. apply bytes_ok_skipn. unfold aes_body.
      apply (cbc_enc_bytes E E_bytes); [exact Hb|].
      apply aes_input_bytes. apply bytes_ok_app. split; [apply le64_enc_bytes|exact Hd].
  Qed.

  Lemma step_keeps_ok c o op : obj_ok o -> sop_ok op -> obj_ok (snd (cookies_obj_step hmac dlen E D c o op)).
  Proof.
    intros (H1 & H2 & H3) Hop. destruct op as [d t|now ck]; cbn [cookies_obj_step].
    - pose proof (cookies_obj_save_is_save hmac E c o d t) as (_ & Hs & Hd' & _).
      destruct (cookies_obj_save hmac E c o d t) as [k1 o1]. cbn [snd] in *.
      destruct Hop as (Hb & _ & _).
      repeat split.
      + rewrite Hs. apply (save_keeps_iv_length hmac E Elen). exact H1.
      + rewrite Hs. apply save_keeps_iv_bytes; assumption.
      + rewrite Hd'. exact H3.
    - pose proof (cookies_obj_load_keeps_enc_side hmac dlen D c now o ck) as [He _].
      pose proof (load_keeps_iv_dec_length hmac dlen E D hmac_len Elen Dlen DE c now o ck H3) as Hl.
      destruct (cookies_obj_load hmac dlen D c now o ck) as [v o1]. cbn [snd] in *.
      repeat split; [rewrite He; exact H1|rewrite He; exact H2|exact Hl].
  Qed.

  Lemma after_keeps_ok c : forall ops o, obj_ok o -> Forall sop_ok ops -> obj_ok (obj_after c o ops).
  Proof.
    induction ops as [|op r IH]; intros o Ho Hops; [exact Ho|].
    inversion Hops; subst. cbn [obj_after]. apply IH; [apply step_keeps_ok; assumption|assumption].
  Qed.

  (* COMPLETENESS over histories *)
  Lemma issued_cookie_accepted_later c o ops1 d t ops2 now :
    obj_ok o -> Forall sop_ok ops1 -> sop_ok (SSave d t) -> Forall sop_ok ops2 -> (now <= t)%Z ->
    let o1 := obj_after c o ops1 in
    let ck := fst (cookies_obj_save hmac E c o1 d t) in
    let o3 := obj_after c (snd (cookies_obj_save hmac E c o1 d t)) ops2 in
    fst (cookies_obj_load hmac dlen D c now o3 ck) = Accept d t.
  Proof.
    intros Ho H1 Hs H2 Hnow o1 ck o3.
    assert (Ho1 : obj_ok o1) by (apply after_keeps_ok; assumption).
    assert (Ho2 : obj_ok (snd (cookies_obj_save hmac E c o1 d t))).
    { pose proof (step_keeps_ok c o1 (SSave d t) Ho1 Hs) as H. cbn [cookies_obj_step] in H.
      destruct (cookies_obj_save hmac E c o1 d t) as [k1 o2]. exact H. }
    assert (Ho3 : obj_ok o3) by (apply after_keeps_ok; assumption).
    destruct Ho1 as (A1 & A2 & A3). destruct Ho3 as (C1 & C2 & C3). destruct Hs as (S1 & S2 & S3).
    rewrite cookies_obj_load_is_load. unfold ck.
    pose proof (cookies_obj_save_is_save hmac E c o1 d t) as (Hk & _). rewrite Hk.
    rewrite (save_load hmac dlen E D hmac_len Elen Dlen DE hmac_bytes E_bytes c now (iv_enc o1) (iv_dec o3) d t A1 A2 C3 S1 S2 S3).
    destruct (Z.ltb_spec t now); [lia|reflexivity].
  Qed.

  (* ... also by ANOTHER object of the same configuration, in any state *)
  Lemma issued_cookie_accepted_by_other_object c o ops1 d t o' now :
    obj_ok o -> Forall sop_ok ops1 -> sop_ok (SSave d t) -> length (iv_dec o') = 16%nat -> (now <= t)%Z ->
    fst (cookies_obj_load hmac dlen D c now o' (fst (cookies_obj_save hmac E c (obj_after c o ops1) d t))) = Accept d t.
  Proof.
    intros Ho H1 Hs Hd Hnow.
    assert (Ho1 : obj_ok (obj_after c o ops1)) by (apply after_keeps_ok; assumption).
    destruct Ho1 as (A1 & A2 & A3). destruct Hs as (S1 & S2 & S3).
    rewrite cookies_obj_load_is_load.
    pose proof (cookies_obj_save_is_save hmac E c (obj_after c o ops1) d t) as (Hk & _). rewrite Hk.
    rewrite (save_load hmac dlen E D hmac_len Elen Dlen DE hmac_bytes E_bytes c now _ (iv_dec o') d t A1 A2 Hd S1 S2 S3).
    destruct (Z.ltb_spec t now); [lia|reflexivity].
  Qed.
End ObjLive.
