(* C05 proofs, part 3: the encryptor interface and session_cookies save / load *)
From CppcmsV Require Import Base.Tac Base.Sweep C15.Defs C15.Proofs C05.Defs C05.Proofs C05.ProofsAes.
Local Open Scope N_scope.

(* ---------- specification vocabulary (used in the statements of Props.v) ---------- *)
Section Spec.
  Variable hmac : N -> list N -> list N -> list N.
  Variable dlen : N -> nat.
  Variable E D : list N -> list N -> list N.

  (* the MAC the configuration puts after an authenticated body, and its length *)
  Definition mac_of (c : cfg) (body : list N) : list N :=
    match c with CHmac a k => hmac a k body | CAes _ ma mk => hmac ma mk body end.
  Definition tag_len (c : cfg) : nat :=
    match c with CHmac a _ => dlen a | CAes _ ma _ => dlen ma end.
  (* block structure demanded of an authenticated body *)
  Definition body_ok (c : cfg) (body : list N) : Prop :=
    match c with
    | CHmac _ _ => True
    | CAes _ _ _ => (length body mod 16 = 0)%nat /\ (2 <= length body / 16)%nat
    end.
  (* the plaintext an authenticated body stands for: depends on the body and the cipher key only *)
  Definition plaintext_of (c : cfg) (body : list N) : option (list N) :=
    match c with CHmac _ _ => Some body | CAes ck _ _ => aes_open D ck body end.
  (* the authenticated body a save produces from plaintext p when the encryptor's IV is st *)
  Definition save_body (c : cfg) (st p : list N) : list N :=
    match c with CHmac _ _ => p | CAes ck _ _ => aes_body E ck st p end.
  (* plaintext of a session: 8-byte expiry then the data *)
  Definition session_plain (d : list N) (t : Z) : list N := le64_enc t ++ d.
End Spec.

Lemma bytes_ok_repeat0 n : bytes_ok (repeat 0 n).
Proof. induction n; cbn; [constructor|apply bytes_ok_cons; split; [lia|assumption]]. Qed.

Lemma bytes_ok_firstn n l : bytes_ok l -> bytes_ok (firstn n l).
Proof. intros H. rewrite <- (firstn_skipn n l) in H. apply bytes_ok_app in H. tauto. Qed.
Lemma bytes_ok_skipn n l : bytes_ok l -> bytes_ok (skipn n l).
Proof. intros H. rewrite <- (firstn_skipn n l) in H. apply bytes_ok_app in H. tauto. Qed.

Lemma lxor_byte a b : a < 256 -> b < 256 -> N.lxor a b < 256.
Proof.
  intros Ha Hb. apply N.ltb_lt.
  apply (sweep256_2 (fun a b => N.lxor a b <? 256)); [vm_compute; reflexivity|exact Ha|exact Hb].
Qed.

Lemma xorl_bytes : forall a b, bytes_ok a -> bytes_ok b -> bytes_ok (xorl a b).
Proof.
  induction a as [|x a IH]; intros [|y b] Ha Hb; cbn [xorl]; try constructor.
  - apply bytes_ok_cons in Ha, Hb. apply lxor_byte; tauto.
  - apply bytes_ok_cons in Ha, Hb. apply IH; tauto.
Qed.

Section Cookies.
  Variable hmac : N -> list N -> list N -> list N.
  Variable dlen : N -> nat.
  Variable E D : list N -> list N -> list N.
  Hypothesis hmac_len : forall a k m, length (hmac a k m) = dlen a.
  Hypothesis Elen : forall k b, length (E k b) = 16%nat.
  Hypothesis Dlen : forall k b, length (D k b) = 16%nat.
  Hypothesis DE : forall k b, length b = 16%nat -> D k (E k b) = b.

  Notation mac_of := (mac_of hmac).
  Notation tag_len := (tag_len dlen).
  Notation plaintext_of := (plaintext_of D).
  Notation save_body := (save_body E).
  Notation decrypt := (decrypt hmac dlen D).
  Notation encrypt := (encrypt hmac E).
  Notation cookies_load := (cookies_load hmac dlen D).
  Notation cookies_save := (cookies_save hmac E).

  Lemma mac_of_length c body : length (mac_of c body) = tag_len c.
  Proof. destruct c; apply hmac_len. Qed.

  (* ---------- decrypt: accepted iff correct MAC over the whole body, then structure, then plaintext ---------- *)
  Lemma decrypt_spec c ivd ci m : length ivd = 16%nat ->
    (decrypt c ivd ci = Some m <->
     (tag_len c <= length ci)%nat /\
     skipn (length ci - tag_len c) ci = mac_of c (firstn (length ci - tag_len c) ci) /\
     body_ok c (firstn (length ci - tag_len c) ci) /\
     plaintext_of c (firstn (length ci - tag_len c) ci) = Some m).
  Proof.
    intros Hiv. destruct c as [a k|ck ma mk]; cbn [Defs.decrypt ProofsCookies.mac_of ProofsCookies.tag_len body_ok ProofsCookies.plaintext_of].
    - rewrite (hmac_decrypt_some hmac dlen hmac_len). split.
      + intros (H1 & -> & H3). repeat split; auto.
      + intros (H1 & H2 & _ & H4). injection H4 as <-. auto.
    - rewrite (aes_decrypt_spec hmac dlen E D hmac_len Elen Dlen DE ck ma mk ivd ci m Hiv).
      set (real := (length ci - dlen ma)%nat).
      split.
      + intros (H1 & H2 & H3 & H4 & H5).
        assert (Hf : length (firstn real ci) = real) by (apply firstn_length_le; unfold real; lia).
        rewrite Hf. repeat split; auto. lia.
      + intros (H1 & H2 & (H3 & H4) & H5).
        assert (Hf : length (firstn real ci) = real) by (apply firstn_length_le; unfold real; lia).
        rewrite Hf in H3, H4. repeat split; auto.
        unfold real in *. lia.
  Qed.

  (* ---------- encrypt: body ++ MAC(body); opening the body returns the plaintext ---------- *)
  Lemma encrypt_shape c st p : fst (encrypt c st p) = save_body c st p ++ mac_of c (save_body c st p).
  Proof.
    destruct c as [a k|ck ma mk]; cbn [Defs.encrypt fst ProofsCookies.save_body ProofsCookies.mac_of].
    - reflexivity.
    - apply aes_encrypt_shape.
  Qed.

  Lemma save_body_ok c st p : body_ok c (save_body c st p).
  Proof.
    destruct c as [a k|ck ma mk]; cbn [body_ok ProofsCookies.save_body]; [exact I|].
    rewrite (aes_body_length hmac dlen E D hmac_len Elen Dlen DE). pose proof (aes_total_facts (length p)). lia.
  Qed.

  Lemma plaintext_of_save_body c st p : length st = 16%nat -> N.of_nat (length p) < 4294967296 ->
    plaintext_of c (save_body c st p) = Some p.
  Proof.
    intros Hst Hp. destruct c as [a k|ck ma mk]; cbn [ProofsCookies.plaintext_of ProofsCookies.save_body]; [reflexivity|].
    apply (aes_open_body hmac dlen E D hmac_len Elen Dlen DE); assumption.
  Qed.

  Lemma decrypt_encrypt c st ivd p : length st = 16%nat -> length ivd = 16%nat -> N.of_nat (length p) < 4294967296 ->
    decrypt c ivd (fst (encrypt c st p)) = Some p.
  Proof.
    intros Hst Hiv Hp. apply (decrypt_spec c ivd _ p Hiv). rewrite encrypt_shape.
    rewrite app_length, mac_of_length.
    replace (length (save_body c st p) + tag_len c - tag_len c)%nat with (length (save_body c st p)) by lia.
    rewrite firstn_app_exact, skipn_app_exact.
    repeat split; [lia|apply save_body_ok|apply plaintext_of_save_body; assumption].
  Qed.

  (* ---------- load: inversion ---------- *)
  Lemma load_accept_inv c now ivd cookie d t :
    cookies_load c now ivd cookie = Accept d t <->
    exists rest ci tmp, cookie = 67 :: rest /\ decode_str rest = Some ci /\ decrypt c ivd ci = Some tmp /\
      (8 <= length tmp)%nat /\ t = le64_dec (firstn 8 tmp) /\ d = skipn 8 tmp /\ (now <= t)%Z.
  Proof.
    unfold Defs.cookies_load. destruct cookie as [|c0 rest].
    - split; [discriminate|]. intros (r & ci & tmp & H & _). discriminate.
    - destruct (N.eqb_spec c0 67) as [->|Hne]; cbn [negb].
      2:{ split; [discriminate|]. intros (r & ci & tmp & H & _). injection H as H _. contradiction. }
      destruct (decode_str rest) as [ci|] eqn:Hdec.
      2:{ split; [discriminate|]. intros (r & ci & tmp & H & H2 & _). injection H as <-. congruence. }
      destruct (Defs.decrypt hmac dlen D c ivd ci) as [tmp|] eqn:Hd.
      2:{ split; [discriminate|]. intros (r & ci' & tmp & H & H2 & H3 & _). injection H as <-. congruence. }
      destruct (Nat.ltb_spec (length tmp) 8) as [Hl|Hl].
      { split; [discriminate|]. intros (r & ci' & tmp' & H & H2 & H3 & H4 & _). injection H as <-.
        rewrite Hdec in H2. injection H2 as <-. rewrite Hd in H3. injection H3 as <-. lia. }
      destruct (Z.ltb_spec (le64_dec (firstn 8 tmp)) now) as [Ht|Ht].
      { split; [discriminate|]. intros (r & ci' & tmp' & H & H2 & H3 & _ & H5 & _ & H7). injection H as <-.
        rewrite Hdec in H2. injection H2 as <-. rewrite Hd in H3. injection H3 as <-. lia. }
      split.
      + intros H. injection H as <- <-. exists rest, ci, tmp. repeat split; auto.
      + intros (r & ci' & tmp' & H & H2 & H3 & _ & -> & -> & _). injection H as <-.
        rewrite Hdec in H2. injection H2 as <-. rewrite Hd in H3. injection H3 as <-. reflexivity.
  Qed.

  (* every reject clears the cookie, except when no cookie was sent *)
  Lemma load_reject_cleared c now ivd cookie b :
    cookies_load c now ivd cookie = Reject b -> (cookie = [] /\ b = false) \/ (cookie <> [] /\ b = true).
  Proof.
    unfold Defs.cookies_load. destruct cookie as [|c0 rest].
    - intros H. injection H as <-. left. auto.
    - intros H. right. split; [discriminate|].
      destruct (negb (c0 =? 67)); [injection H as <-; reflexivity|].
      destruct (decode_str rest) as [ci|]; [|injection H as <-; reflexivity].
      destruct (Defs.decrypt hmac dlen D c ivd ci) as [tmp|]; [|injection H as <-; reflexivity].
      destruct (Nat.ltb (length tmp) 8); [injection H as <-; reflexivity|].
      destruct (Z.ltb (le64_dec (firstn 8 tmp)) now); [injection H as <-; reflexivity|discriminate].
  Qed.

  (* the verdict depends on the decoded cipher text only: all spellings of one cipher text are treated alike *)
  Lemma load_decoded_only c now ivd r1 r2 : decode_str r1 = decode_str r2 ->
    cookies_load c now ivd (67 :: r1) = cookies_load c now ivd (67 :: r2).
  Proof. intros H. unfold Defs.cookies_load. rewrite H. reflexivity. Qed.

  (* ---------- load_authentic ---------- *)
  Lemma load_authentic c now ivd cookie d t : length ivd = 16%nat ->
    cookies_load c now ivd cookie = Accept d t ->
    (now <= t)%Z /\
    exists rest body tmp,
      cookie = 67 :: rest /\
      decode_str rest = Some (body ++ mac_of c body) /\
      body_ok c body /\
      plaintext_of c body = Some tmp /\
      (8 <= length tmp)%nat /\ t = le64_dec (firstn 8 tmp) /\ d = skipn 8 tmp.
  Proof.
    intros Hiv H. apply load_accept_inv in H. destruct H as (rest & ci & tmp & -> & Hdec & Hd & Hl & -> & -> & Hnow).
    split; [exact Hnow|].
    apply (decrypt_spec c ivd ci tmp Hiv) in Hd. destruct Hd as (H1 & H2 & H3 & H4).
    exists rest, (firstn (length ci - tag_len c) ci), tmp.
    repeat split; auto.
    rewrite <- H2, firstn_skipn. exact Hdec.
  Qed.

  (* ---------- structural rejects ---------- *)
  Lemma decrypt_short_rejected c ivd ci : (length ci < tag_len c)%nat -> decrypt c ivd ci = None.
  Proof.
    intros H. destruct c as [a k|ck ma mk]; cbn [Defs.decrypt ProofsCookies.tag_len] in *.
    - apply hmac_decrypt_short; assumption.
    - unfold aes_decrypt. destruct (Nat.ltb_spec (length ci) (dlen ma + 16)); [reflexivity|lia].
  Qed.

  Lemma aes_decrypt_structure_rejected ck ma mk ivd ci :
    ((length ci < dlen ma + 32)%nat \/ ((length ci - dlen ma) mod 16 <> 0)%nat) ->
    aes_decrypt hmac dlen D ck ma mk ivd ci = None.
  Proof.
    intros H. unfold aes_decrypt.
    destruct (Nat.ltb_spec (length ci) (dlen ma + 16)) as [H1|H1]; [reflexivity|].
    destruct (Nat.eqb_spec ((length ci - dlen ma) mod 16) 0) as [H2|H2]; cbn [negb]; [|reflexivity].
    destruct (Nat.ltb_spec ((length ci - dlen ma) / 16) 2) as [H3|H3]; [reflexivity|].
    exfalso. destruct H as [H|H]; [|contradiction]. lia.
  Qed.

  Lemma load_rejects_what_decrypt_rejects c now ivd rest ci :
    decode_str rest = Some ci -> decrypt c ivd ci = None -> cookies_load c now ivd (67 :: rest) = Reject true.
  Proof.
    intros Hdec Hd. unfold Defs.cookies_load. rewrite N.eqb_refl. cbn [negb]. rewrite Hdec, Hd. reflexivity.
  Qed.

  (* accepted aes plaintext lies inside the decrypted bytes: inner length + 20 <= body length *)
  Lemma aes_accept_in_range ck ma mk ivd ci m : length ivd = 16%nat ->
    aes_decrypt hmac dlen D ck ma mk ivd ci = Some m ->
    exists size, (size + 20 <= length ci - dlen ma)%nat /\
      m = firstn size (skipn 20 (cbc_dec D ck ((length ci - dlen ma) / 16) zero16 (firstn (length ci - dlen ma) ci))).
  Proof.
    intros Hiv H. apply (aes_decrypt_spec hmac dlen E D hmac_len Elen Dlen DE ck ma mk ivd ci m Hiv) in H.
    destruct H as (H1 & H2 & H3 & _ & H5).
    assert (Hf : length (firstn (length ci - dlen ma) ci) = (length ci - dlen ma)%nat) by (apply firstn_length_le; lia).
    apply (aes_open_in_range hmac dlen E D hmac_len Elen Dlen DE) in H5; [|rewrite Hf; lia].
    rewrite Hf in H5. exact H5.
  Qed.
  (* ---------- save_load ---------- *)
  Hypothesis hmac_bytes : forall a k m, bytes_ok (hmac a k m).
  Hypothesis E_bytes : forall k b, bytes_ok b -> bytes_ok (E k b).

  Lemma cbc_enc_bytes k : forall nb iv inp, bytes_ok iv -> bytes_ok inp -> bytes_ok (fst (cbc_enc E k nb iv inp)).
  Proof.
    induction nb as [|n IH]; intros iv inp Hiv Hin; cbn [cbc_enc].
    - constructor.
    - assert (Hc : bytes_ok (E k (xorl (firstn 16 inp) iv)))
        by (apply E_bytes, xorl_bytes; [apply bytes_ok_firstn; exact Hin|exact Hiv]).
      specialize (IH (E k (xorl (firstn 16 inp) iv)) (skipn 16 inp) Hc (bytes_ok_skipn _ _ Hin)).
      destruct (cbc_enc E k n (E k (xorl (firstn 16 inp) iv)) (skipn 16 inp)) as [r iv'].
      cbn [fst] in *. apply bytes_ok_app. split; [exact Hc|exact IH].
  Qed.

  Lemma aes_input_bytes p : bytes_ok p -> bytes_ok (aes_input p).
  Proof.
    intros Hp. unfold aes_input. repeat (apply bytes_ok_app; split); auto using bytes_ok_repeat0, le_enc_bytes.
  Qed.

  Lemma encrypt_bytes c st p : bytes_ok st -> bytes_ok p -> bytes_ok (fst (encrypt c st p)).
  Proof.
    intros Hst Hp. rewrite encrypt_shape. apply bytes_ok_app. split.
    - destruct c as [a k|ck ma mk]; cbn [ProofsCookies.save_body]; [exact Hp|].
      apply cbc_enc_bytes; [exact Hst|apply aes_input_bytes; exact Hp].
    - destruct c; apply hmac_bytes.
  Qed.

  Lemma session_plain_bytes d t : bytes_ok d -> bytes_ok (session_plain d t).
  Proof. intros H. apply bytes_ok_app. split; [apply le64_enc_bytes|exact H]. Qed.

  Lemma cookies_save_shape c st d t :
    fst (cookies_save c st d t) = 67 :: encode_str (fst (encrypt c st (session_plain d t))).
  Proof.
    unfold Defs.cookies_save, session_plain.
    destruct (Defs.encrypt hmac E c st (le64_enc t ++ d)) as [ci st']. reflexivity.
  Qed.

  Lemma save_load c now st ivd d t :
    length st = 16%nat -> bytes_ok st -> length ivd = 16%nat -> bytes_ok d -> time_ok t ->
    N.of_nat (length d) + 8 < 4294967296 ->
    cookies_load c now ivd (fst (cookies_save c st d t)) =
      if (t <? now)%Z then Reject true else Accept d t.
  Proof.
    intros Hst Hstb Hiv Hd Ht Hlen. rewrite cookies_save_shape.
    unfold Defs.cookies_load. rewrite N.eqb_refl. cbn [negb].
    rewrite decode_str_encode_str by (apply encrypt_bytes; [exact Hstb|apply session_plain_bytes; exact Hd]).
    rewrite decrypt_encrypt; try assumption.
    2:{ unfold session_plain. rewrite app_length, le64_enc_length. lia. }
    unfold session_plain. rewrite app_length, le64_enc_length.
    destruct (Nat.ltb_spec (8 + length d) 8) as [H|H]; [lia|].
    rewrite (firstn_app_len 8) by apply le64_enc_length.
    rewrite (skipn_app_len 8) by apply le64_enc_length.
    rewrite le64_dec_enc by exact Ht. reflexivity.
  Qed.

  (* ---------- issued_only ---------- *)
  (* a history of saves: (data, expiry, IV of the encryptor at that moment) *)
  Definition save_ok (s : list N * Z * list N) : Prop :=
    let '(d, t, st) := s in
    bytes_ok d /\ time_ok t /\ length st = 16%nat /\ N.of_nat (length d) + 8 < 4294967296.
  Definition issued_bodies (c : cfg) (hist : list (list N * Z * list N)) : list (list N) :=
    map (fun s => let '(d, t, st) := s in save_body c st (session_plain d t)) hist.

  Lemma issued_only c now ivd cookie d t hist :
    length ivd = 16%nat ->
    Forall save_ok hist ->
    (* unforgeability, as a hypothesis on this history and this cookie: a body presented with its
       correct MAC is one of the bodies the server issued *)
    (forall rest body, cookie = 67 :: rest -> decode_str rest = Some (body ++ mac_of c body) ->
                       In body (issued_bodies c hist)) ->
    cookies_load c now ivd cookie = Accept d t ->
    (now <= t)%Z /\ exists st, In (d, t, st) hist.
  Proof.
    intros Hiv Hok UF Hacc.
    destruct (load_authentic c now ivd cookie d t Hiv Hacc) as (Hnow & rest & body & tmp & Hc & Hdec & _ & Hpl & Hl & Ht & Hd).
    split; [exact Hnow|].
    specialize (UF rest body Hc Hdec). unfold issued_bodies in UF. apply in_map_iff in UF.
    destruct UF as (((d', t'), st') & Hb & Hin).
    rewrite Forall_forall in Hok. specialize (Hok _ Hin). destruct Hok as (Hd' & Ht' & Hst' & Hlen').
    rewrite <- Hb in Hpl. rewrite plaintext_of_save_body in Hpl.
    2:{ exact Hst'. }
    2:{ unfold session_plain. rewrite app_length, le64_enc_length. lia. }
    injection Hpl as <-.
    unfold session_plain in Ht, Hd.
    rewrite (firstn_app_len 8) in Ht by apply le64_enc_length.
    rewrite (skipn_app_len 8) in Hd by apply le64_enc_length.
    rewrite le64_dec_enc in Ht by exact Ht'. subst. exists st'. exact Hin.
  Qed.

  (* ---------- mutations: acceptance is exactly a correct MAC over the presented body ---------- *)
  (* any cipher text body' ++ tag' with a tag of the right length: not rejected by the encryptor only if
     tag' is the MAC of body' *)
  Lemma decrypt_accepts_only_correct_mac c ivd body' tag' m : length ivd = 16%nat -> length tag' = tag_len c ->
    decrypt c ivd (body' ++ tag') = Some m -> tag' = mac_of c body'.
  Proof.
    intros Hiv Ht H. apply (decrypt_spec c ivd _ m Hiv) in H. destruct H as (_ & H & _).
    rewrite app_length, Ht in H.
    replace (length body' + tag_len c - tag_len c)%nat with (length body') in H by lia.
    rewrite firstn_app_exact, skipn_app_exact in H. exact H.
  Qed.

  Lemma load_mutation_needs_mac c now ivd body' tag' d t : length ivd = 16%nat -> length tag' = tag_len c ->
    bytes_ok (body' ++ tag') ->
    cookies_load c now ivd (67 :: encode_str (body' ++ tag')) = Accept d t -> tag' = mac_of c body'.
  Proof.
    intros Hiv Ht Hb H. apply load_accept_inv in H. destruct H as (rest & ci & tmp & Hc & Hdec & Hd & _).
    injection Hc as <-. rewrite decode_str_encode_str in Hdec by exact Hb. injection Hdec as <-.
    apply (decrypt_accepts_only_correct_mac c ivd body' tag' tmp Hiv Ht Hd).
  Qed.

  (* a changed tag over an unchanged body is always rejected (no assumption on the MAC needed) *)
  Lemma load_tag_mutation_rejected c now ivd body tag' : length ivd = 16%nat -> length tag' = tag_len c ->
    bytes_ok (body ++ tag') -> tag' <> mac_of c body ->
    cookies_load c now ivd (67 :: encode_str (body ++ tag')) = Reject true.
  Proof.
    intros Hiv Ht Hb Hne.
    destruct (cookies_load c now ivd (67 :: encode_str (body ++ tag'))) as [d t|b] eqn:H.
    - exfalso. apply Hne. apply (load_mutation_needs_mac c now ivd body tag' d t Hiv Ht Hb H).
    - apply load_reject_cleared in H. destruct H as [[H _]|[_ ->]]; [discriminate|reflexivity].
  Qed.

  (* a changed body under the original tag is accepted only if the MAC collides *)
  Lemma load_body_mutation_needs_collision c now ivd body body' d t : length ivd = 16%nat ->
    bytes_ok (body' ++ mac_of c body) ->
    cookies_load c now ivd (67 :: encode_str (body' ++ mac_of c body)) = Accept d t ->
    mac_of c body' = mac_of c body.
  Proof.
    intros Hiv Hb H. symmetry.
    apply (load_mutation_needs_mac c now ivd body' (mac_of c body) d t Hiv (mac_of_length c body) Hb H).
  Qed.

  (* a cookie issued under configuration c1 and accepted under c2 (same tag length): the two MACs agree on its body *)
  Lemma load_transplant_needs_equal_macs c1 c2 now ivd st d0 t0 d t :
    length ivd = 16%nat -> tag_len c1 = tag_len c2 -> bytes_ok st -> bytes_ok d0 ->
    cookies_load c2 now ivd (fst (Defs.cookies_save hmac E c1 st d0 t0)) = Accept d t ->
    mac_of c2 (save_body c1 st (session_plain d0 t0)) = mac_of c1 (save_body c1 st (session_plain d0 t0)).
  Proof.
    intros Hiv Htl Hstb Hd0 H. rewrite cookies_save_shape, encrypt_shape in H.
    symmetry. apply (load_mutation_needs_mac c2 now ivd _ _ d t Hiv); [rewrite mac_of_length; exact Htl| |exact H].
    rewrite <- encrypt_shape. apply encrypt_bytes; [exact Hstb|apply session_plain_bytes; exact Hd0].
  Qed.

End Cookies.
