(* C05 proofs, part 2: CBC over an abstract block cipher and the aes encryptor *)
From CppcmsV Require Import Base.Tac Base.Sweep C15.Defs C05.Defs C05.Proofs.
Local Open Scope N_scope.

(* ---------- xor ---------- *)
Lemma xorl_length : forall a b, length (xorl a b) = Nat.min (length a) (length b).
Proof.
  induction a as [|x a IH]; intros [|y b]; cbn [xorl length Nat.min]; try reflexivity.
  rewrite IH. reflexivity.
Qed.

Lemma xorl_invol : forall a b, length a = length b -> xorl (xorl a b) b = a.
Proof.
  induction a as [|x a IH]; intros [|y b] H; cbn in *; try reflexivity; try discriminate.
  injection H as H. rewrite IH by exact H.
  rewrite N.lxor_assoc, N.lxor_nilpotent, N.lxor_0_r. reflexivity.
Qed.

Lemma xorl_zero_l : forall n b, length b = n -> xorl (repeat 0 n) b = b.
Proof.
  induction n as [|n IH]; intros [|y b] H; cbn [xorl repeat length] in *; try reflexivity; try discriminate.
  injection H as H. rewrite IH by exact H. rewrite N.lxor_0_l. reflexivity.
Qed.

Lemma xorl_cancel_r : forall a b c, length a = length c -> length b = length c -> xorl a c = xorl b c -> a = b.
Proof.
  intros a b c Ha Hb H. rewrite <- (xorl_invol a c Ha), <- (xorl_invol b c Hb), H. reflexivity.
Qed.

Lemma firstn_length_le {A} n (l : list A) : (n <= length l)%nat -> length (firstn n l) = n.
Proof. intros H. rewrite firstn_length. lia. Qed.

Lemma firstn_app_len {A} n (a b : list A) : length a = n -> firstn n (a ++ b) = a.
Proof. intros <-. apply firstn_app_exact. Qed.
Lemma skipn_app_len {A} n (a b : list A) : length a = n -> skipn n (a ++ b) = b.
Proof. intros <-. apply skipn_app_exact. Qed.

Lemma skipn_skipn' {A} : forall a b (l : list A), skipn a (skipn b l) = skipn (b + a) l.
Proof.
  intros a b. induction b as [|b IH]; intros l; [reflexivity|].
  destruct l as [|x l]; [cbn; apply skipn_nil|]. cbn [skipn Nat.add]. apply IH.
Qed.

Section Cbc.
  Variable E D : list N -> list N -> list N.
  Hypothesis Elen : forall k b, length (E k b) = 16%nat.
  Hypothesis Dlen : forall k b, length (D k b) = 16%nat.
  Hypothesis DE : forall k b, length b = 16%nat -> D k (E k b) = b.

  Lemma cbc_enc_length k : forall nb iv inp, length (fst (cbc_enc E k nb iv inp)) = (16 * nb)%nat.
  Proof.
    induction nb as [|n IH]; intros iv inp; cbn [cbc_enc].
    - reflexivity.
    - specialize (IH (E k (xorl (firstn 16 inp) iv)) (skipn 16 inp)).
      destruct (cbc_enc E k n (E k (xorl (firstn 16 inp) iv)) (skipn 16 inp)) as [r iv'].
      cbn [fst] in *. rewrite app_length, Elen, IH. lia.
  Qed.

  Lemma cbc_enc_iv_length k : forall nb iv inp, length iv = 16%nat -> length (snd (cbc_enc E k nb iv inp)) = 16%nat.
  Proof.
    induction nb as [|n IH]; intros iv inp Hiv; cbn [cbc_enc].
    - exact Hiv.
    - specialize (IH (E k (xorl (firstn 16 inp) iv)) (skipn 16 inp) (Elen _ _)).
      destruct (cbc_enc E k n (E k (xorl (firstn 16 inp) iv)) (skipn 16 inp)) as [r iv'].
      exact IH.
  Qed.

  (* decrypting what was encrypted, with the same IV *)
  Lemma cbc_dec_enc k : forall nb iv inp, length iv = 16%nat -> length inp = (16 * nb)%nat ->
    cbc_dec D k nb iv (fst (cbc_enc E k nb iv inp)) = inp.
  Proof.
    induction nb as [|n IH]; intros iv inp Hiv Hin; cbn [cbc_enc cbc_dec].
    - destruct inp; [reflexivity|cbn in Hin; lia].
    - pose proof (IH (E k (xorl (firstn 16 inp) iv)) (skipn 16 inp) (Elen _ _)) as IH'.
      pose proof (cbc_enc_length k n (E k (xorl (firstn 16 inp) iv)) (skipn 16 inp)) as Hl.
      destruct (cbc_enc E k n (E k (xorl (firstn 16 inp) iv)) (skipn 16 inp)) as [r iv'].
      cbn [fst] in *.
      assert (Hf : length (firstn 16 inp) = 16%nat) by (apply firstn_length_le; lia).
      assert (Hx : length (xorl (firstn 16 inp) iv) = 16%nat) by (rewrite xorl_length, Hf, Hiv; reflexivity).
      rewrite (firstn_app_len 16) by apply Elen. rewrite (skipn_app_len 16) by apply Elen.
      rewrite DE by exact Hx. rewrite xorl_invol by (rewrite Hf, Hiv; reflexivity).
      rewrite IH' by (rewrite skipn_length; lia).
      apply firstn_skipn.
  Qed.

  (* the IV only influences the first plaintext block *)
  Lemma cbc_dec_skip_first k nb iv body : length iv = 16%nat ->
    skipn 16 (cbc_dec D k (S nb) iv body) = cbc_dec D k nb (firstn 16 body) (skipn 16 body).
  Proof.
    intros Hiv. cbn [cbc_dec].
    assert (Hx : length (xorl (D k (firstn 16 body)) iv) = 16%nat) by (rewrite xorl_length, Dlen, Hiv; reflexivity).
    apply skipn_app_len. exact Hx.
  Qed.

  Lemma cbc_dec_iv_indep k nb iv1 iv2 body : length iv1 = 16%nat -> length iv2 = 16%nat ->
    skipn 16 (cbc_dec D k nb iv1 body) = skipn 16 (cbc_dec D k nb iv2 body).
  Proof.
    intros H1 H2. destruct nb as [|n]; [reflexivity|].
    rewrite !cbc_dec_skip_first by assumption. reflexivity.
  Qed.

  Lemma cbc_dec_length k : forall nb iv body, length iv = 16%nat -> length body = (16 * nb)%nat ->
    length (cbc_dec D k nb iv body) = (16 * nb)%nat.
  Proof.
    induction nb as [|n IH]; intros iv body Hiv Hb; cbn [cbc_dec].
    - reflexivity.
    - rewrite app_length, xorl_length, Dlen, Hiv.
      rewrite IH; [cbn [Nat.min]; lia|apply firstn_length_le; lia|rewrite skipn_length; lia].
  Qed.

  (* the encryptor leaves the last cipher block as its next IV *)
  Lemma cbc_enc_next_iv k : forall nb iv inp, (1 <= nb)%nat ->
    snd (cbc_enc E k nb iv inp) = skipn (16 * nb - 16) (fst (cbc_enc E k nb iv inp)).
  Proof.
    induction nb as [|n IH]; intros iv inp Hnb; [lia|].
    cbn [cbc_enc].
    pose proof (cbc_enc_length k n (E k (xorl (firstn 16 inp) iv)) (skipn 16 inp)) as Hl.
    destruct n as [|m].
    - cbn [cbc_enc fst snd]. cbn. rewrite app_nil_r. reflexivity.
    - specialize (IH (E k (xorl (firstn 16 inp) iv)) (skipn 16 inp) ltac:(lia)).
      destruct (cbc_enc E k (S m) (E k (xorl (firstn 16 inp) iv)) (skipn 16 inp)) as [r iv'].
      cbn [fst snd] in *. rewrite IH.
      rewrite skipn_app. rewrite (skipn_all2 (E k (xorl (firstn 16 inp) iv))) by (rewrite Elen; lia).
      rewrite Elen. replace (16 * S (S m) - 16 - 16)%nat with (16 * S m - 16)%nat by lia. reflexivity.
  Qed.

  (* different IVs give different first cipher blocks *)
  Lemma E_injective k a b : length a = 16%nat -> length b = 16%nat -> E k a = E k b -> a = b.
  Proof. intros Ha Hb H. rewrite <- (DE k a Ha), <- (DE k b Hb), H. reflexivity. Qed.

  Lemma cbc_enc_first_block k nb iv inp :
    firstn 16 (fst (cbc_enc E k (S nb) iv inp)) = E k (xorl (firstn 16 inp) iv).
  Proof.
    cbn [cbc_enc].
    destruct (cbc_enc E k nb (E k (xorl (firstn 16 inp) iv)) (skipn 16 inp)) as [r iv'].
    cbn [fst]. apply firstn_app_len. apply Elen.
  Qed.
End Cbc.

(* ---------- the aes encryptor ---------- *)
Lemma aes_total_facts n :
  (aes_total n = 16 * (aes_total n / 16) /\ n + 20 <= aes_total n /\ 2 <= aes_total n / 16 /\ aes_total n < n + 36)%nat.
Proof. unfold aes_total. lia. Qed.

Lemma aes_input_length p : length (aes_input p) = aes_total (length p).
Proof.
  unfold aes_input. rewrite !app_length, !repeat_length, le_enc_length.
  pose proof (aes_total_facts (length p)). lia.
Qed.

Definition zero16 : list N := repeat 0 16.

(* what the code does with the decrypted text after the first block *)
Definition aes_open_tail (real : nat) (tail : list N) : option (list N) :=
  let size := le_dec (firstn 4 tail) in
  if N.of_nat (real - 16 - 4) <? size then None
  else Some (firstn (N.to_nat size) (skipn 4 tail)).

Section Aes.
  Variable hmac : N -> list N -> list N -> list N.
  Variable dlen : N -> nat.
  Variable E D : list N -> list N -> list N.
  Hypothesis hmac_len : forall a k m, length (hmac a k m) = dlen a.
  Hypothesis Elen : forall k b, length (E k b) = 16%nat.
  Hypothesis Dlen : forall k b, length (D k b) = 16%nat.
  Hypothesis DE : forall k b, length b = 16%nat -> D k (E k b) = b.

  (* the plaintext carried by an authenticated body: a function of the cipher key and the body only *)
  Definition aes_open (ck body : list N) : option (list N) :=
    aes_open_tail (length body) (skipn 16 (cbc_dec D ck (length body / 16) zero16 body)).

  Definition aes_body (ck iv p : list N) : list N :=
    fst (cbc_enc E ck (aes_total (length p) / 16) iv (aes_input p)).

  Lemma aes_encrypt_shape ck ma mk iv p :
    fst (aes_encrypt hmac E ck ma mk iv p) = aes_body ck iv p ++ hmac ma mk (aes_body ck iv p).
  Proof.
    unfold aes_encrypt, aes_body.
    destruct (cbc_enc E ck (aes_total (length p) / 16) iv (aes_input p)) as [body iv']. reflexivity.
  Qed.

  Lemma aes_body_length ck iv p : length (aes_body ck iv p) = aes_total (length p).
  Proof.
    unfold aes_body. rewrite (cbc_enc_length E D Elen Dlen DE).
    pose proof (aes_total_facts (length p)). lia.
  Qed.

  Lemma aes_decrypt_spec ck ma mk ivd c m : length ivd = 16%nat ->
    (aes_decrypt hmac dlen D ck ma mk ivd c = Some m <->
     (dlen ma + 16 <= length c)%nat /\ ((length c - dlen ma) mod 16 = 0)%nat /\ (2 <= (length c - dlen ma) / 16)%nat /\
     skipn (length c - dlen ma) c = hmac ma mk (firstn (length c - dlen ma) c) /\
     aes_open ck (firstn (length c - dlen ma) c) = Some m).
  Proof.
    intros Hiv. unfold aes_decrypt.
    destruct (Nat.ltb_spec (length c) (dlen ma + 16)) as [H1|H1]; [split; [discriminate|intros (H & _); lia]|].
    set (real := (length c - dlen ma)%nat).
    destruct (Nat.eqb_spec (real mod 16) 0) as [H2|H2]; cbn [negb]; [|split; [discriminate|intros (_ & H & _); contradiction]].
    destruct (Nat.ltb_spec (real / 16) 2) as [H3|H3]; [split; [discriminate|intros (_ & _ & H & _); lia]|].
    assert (Hs : length (skipn real c) = dlen ma) by (rewrite skipn_length; unfold real; lia).
    assert (Hf : length (firstn real c) = real) by (apply firstn_length_le; unfold real; lia).
    assert (Htail : skipn 20 (cbc_dec D ck (real / 16) ivd (firstn real c)) =
                    skipn 4 (skipn 16 (cbc_dec D ck (real / 16) ivd (firstn real c)))) by (rewrite skipn_skipn'; reflexivity).
    assert (Hind : skipn 16 (cbc_dec D ck (real / 16) ivd (firstn real c)) =
                   skipn 16 (cbc_dec D ck (real / 16) zero16 (firstn real c)))
      by (apply (cbc_dec_iv_indep D Dlen); [exact Hiv|apply repeat_length]).
    unfold aes_open, aes_open_tail. rewrite Hf. rewrite Htail, Hind.
    destruct (ct_equal (dlen ma) (hmac ma mk (firstn real c)) (skipn real c)) eqn:Heq; cbn [negb].
    - apply (ct_equal_spec _ _ _ (hmac_len _ _ _) Hs) in Heq.
      split.
      + intros H. repeat split; auto; lia.
      + intros (_ & _ & _ & _ & H). exact H.
    - split; [discriminate|]. intros (_ & _ & _ & Ht & _).
      assert (ct_equal (dlen ma) (hmac ma mk (firstn real c)) (skipn real c) = true)
        by (apply (ct_equal_spec _ _ _ (hmac_len _ _ _) Hs); symmetry; exact Ht).
      congruence.
  Qed.

  (* opening a sealed body gives the plaintext back, whatever IV was used for sealing *)
  Lemma aes_open_body ck iv p : length iv = 16%nat -> N.of_nat (length p) < 4294967296 ->
    aes_open ck (aes_body ck iv p) = Some p.
  Proof.
    intros Hiv Hp. unfold aes_open. rewrite aes_body_length.
    pose proof (aes_total_facts (length p)) as (Hm & Hge & Hnb & _).
    set (nb := (aes_total (length p) / 16)%nat) in *.
    rewrite (cbc_dec_iv_indep D Dlen ck nb zero16 iv) by (try apply repeat_length; exact Hiv).
    unfold aes_body. fold nb.
    rewrite (cbc_dec_enc E D Elen Dlen DE) by (try exact Hiv; rewrite aes_input_length; exact Hm).
    unfold aes_input. rewrite (skipn_app_len 16) by apply repeat_length.
    unfold aes_open_tail.
    rewrite (firstn_app_len 4) by apply le_enc_length.
    rewrite le_dec_enc by (change (256 ^ N.of_nat 4) with 4294967296; exact Hp).
    destruct (N.ltb_spec (N.of_nat (aes_total (length p) - 16 - 4)) (N.of_nat (length p))) as [H|H]; [lia|].
    rewrite (skipn_app_len 4) by apply le_enc_length.
    rewrite Nat2N.id. rewrite firstn_app_exact. reflexivity.
  Qed.

  Lemma aes_decrypt_encrypt ck ma mk iv ivd p : length iv = 16%nat -> length ivd = 16%nat ->
    N.of_nat (length p) < 4294967296 ->
    aes_decrypt hmac dlen D ck ma mk ivd (fst (aes_encrypt hmac E ck ma mk iv p)) = Some p.
  Proof.
    intros Hiv Hivd Hp. rewrite aes_encrypt_shape.
    apply (aes_decrypt_spec ck ma mk ivd _ p Hivd).
    pose proof (aes_total_facts (length p)) as (Hm & Hge & Hnb & _).
    rewrite app_length, hmac_len, aes_body_length.
    replace (aes_total (length p) + dlen ma - dlen ma)%nat with (aes_total (length p)) by lia.
    rewrite (firstn_app_len (aes_total (length p))) by apply aes_body_length.
    rewrite (skipn_app_len (aes_total (length p))) by apply aes_body_length.
    repeat split; try lia.
    apply aes_open_body; assumption.
  Qed.

  (* an accepted plaintext never extends past the decrypted bytes *)
  Lemma aes_open_in_range ck body m : (20 <= length body)%nat -> aes_open ck body = Some m ->
    exists size, (size + 20 <= length body)%nat /\
      m = firstn size (skipn 20 (cbc_dec D ck (length body / 16) zero16 body)).
  Proof.
    intros Hb. unfold aes_open, aes_open_tail.
    set (tail := skipn 16 (cbc_dec D ck (length body / 16) zero16 body)).
    destruct (N.ltb_spec (N.of_nat (length body - 16 - 4)) (le_dec (firstn 4 tail))) as [H|H]; [discriminate|].
    intros Hm. exists (N.to_nat (le_dec (firstn 4 tail))).
    split; [lia|].
    assert (Hk : skipn 20 (cbc_dec D ck (length body / 16) zero16 body) = skipn 4 tail)
      by (unfold tail; rewrite skipn_skipn'; reflexivity).
    rewrite Hk. congruence.
  Qed.

  Lemma aes_encrypt_next_iv ck ma mk iv p :
    snd (aes_encrypt hmac E ck ma mk iv p) =
    skipn (aes_total (length p) - 16) (aes_body ck iv p).
  Proof.
    unfold aes_encrypt, aes_body.
    pose proof (aes_total_facts (length p)) as (Hm & _ & Hnb & _).
    pose proof (cbc_enc_next_iv E D Elen Dlen DE ck (aes_total (length p) / 16) iv (aes_input p) ltac:(lia)) as H.
    destruct (cbc_enc E ck (aes_total (length p) / 16) iv (aes_input p)) as [body iv'].
    cbn [fst snd] in *. rewrite H. f_equal. lia.
  Qed.

  Lemma aes_encrypt_iv_injective ck ma mk iv1 iv2 p : length iv1 = 16%nat -> length iv2 = 16%nat ->
    iv1 <> iv2 -> fst (aes_encrypt hmac E ck ma mk iv1 p) <> fst (aes_encrypt hmac E ck ma mk iv2 p).
  Proof.
    intros H1 H2 Hne Heq. apply Hne. rewrite !aes_encrypt_shape in Heq.
    assert (Hb : aes_body ck iv1 p = aes_body ck iv2 p).
    { apply (f_equal (firstn (aes_total (length p)))) in Heq.
      rewrite !(firstn_app_len (aes_total (length p))) in Heq by apply aes_body_length. exact Heq. }
    unfold aes_body in Hb.
    pose proof (aes_total_facts (length p)) as (_ & _ & Hnb & _).
    destruct (aes_total (length p) / 16)%nat as [|nb] eqn:Enb; [lia|].
    apply (f_equal (firstn 16)) in Hb. rewrite !(cbc_enc_first_block E Elen) in Hb.
    apply (E_injective E D DE) in Hb.
    - unfold aes_input in Hb. rewrite (firstn_app_len 16) in Hb by apply repeat_length.
      rewrite !xorl_zero_l in Hb by assumption. exact Hb.
    - rewrite xorl_length, H1. unfold aes_input. rewrite (firstn_app_len 16) by apply repeat_length.
      rewrite repeat_length. reflexivity.
    - rewrite xorl_length, H2. unfold aes_input. rewrite (firstn_app_len 16) by apply repeat_length.
      rewrite repeat_length. reflexivity.
  Qed.
End Aes.
