(* C05: a toy instance of the abstract primitives, used only to show that the hypotheses of the
   theorems in Props.v are jointly satisfiable and their conclusions non-trivial (NOT a cipher). *)
From CppcmsV Require Import Base.Tac Base.Sweep C15.Defs C05.Defs C05.Proofs C05.ProofsAes C05.ProofsCookies.
Local Open Scope N_scope.

Definition toy_dlen (a : N) : nat := 2%nat.
Definition toy_hmac (a : N) (k m : list N) : list N :=
  let s := fold_left N.add (k ++ m) (a + 7 + N.of_nat (length m)) in [s mod 256; (s / 256) mod 256].
Definition toy_mask (k : list N) : N := hd 0 k mod 256.
Definition toy_E (k b : list N) : list N := firstn 16 (map (N.lxor (toy_mask k)) b ++ repeat 0 16).
Definition toy_D := toy_E.

Lemma toy_hmac_len a k m : length (toy_hmac a k m) = toy_dlen a.
Proof. reflexivity. Qed.
Lemma toy_hmac_bytes a k m : bytes_ok (toy_hmac a k m).
Proof. unfold toy_hmac. repeat (apply bytes_ok_cons; split); try (apply N.mod_lt; discriminate). constructor. Qed.
Lemma toy_Elen k b : length (toy_E k b) = 16%nat.
Proof. unfold toy_E. rewrite firstn_length, app_length, repeat_length. lia. Qed.
Lemma toy_DE k b : length b = 16%nat -> toy_D k (toy_E k b) = b.
Proof.
  intros H. unfold toy_D, toy_E.
  rewrite (firstn_app_len 16 (map (N.lxor (toy_mask k)) b)) by (rewrite map_length; exact H).
  rewrite (firstn_app_len 16) by (rewrite !map_length; exact H).
  rewrite map_map. rewrite <- (map_id b) at 2. apply map_ext. intros x.
  rewrite <- N.lxor_assoc, N.lxor_nilpotent, N.lxor_0_l. reflexivity.
Qed.
Lemma toy_E_bytes k b : bytes_ok b -> bytes_ok (toy_E k b).
Proof.
  intros H. unfold toy_E. apply bytes_ok_firstn. apply bytes_ok_app. split; [|apply bytes_ok_repeat0].
  induction b as [|x b IH]; cbn [map]; [constructor|].
  apply bytes_ok_cons in H. apply bytes_ok_cons. split; [|apply IH; tauto].
  apply lxor_byte; [apply N.mod_lt; discriminate|tauto].
Qed.

Definition toy_key : list N := [1;2;3;4;5;6;7;8;9;10;11;12;13;14;15;16].
Definition toy_iv : list N := [9;9;9;9;8;8;8;8;7;7;7;7;6;6;6;6].
Definition toy_iv2 : list N := [1;9;9;9;8;8;8;8;7;7;7;7;6;6;6;6].
Definition toy_hmac_cfg : cfg := CHmac 1 toy_key.
Definition toy_aes_cfg : cfg := CAes toy_key 1 [42;43].
