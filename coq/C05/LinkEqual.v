(* C05: tie of hmac_cipher::equal (src/hmac_encryptor.cpp), the tag comparator of BOTH encryptors, to the model.
   coq/gen/Gen_c05equal.v holds the loop BODY (g_equal_step: new value of `diff` from its old value and the two bytes
   left[i], right[i] as C `char`s) and the RETURN test (g_equal_done) of the function, translated by tools/cxx2v.py from
   the current source (checks/C05.py copies them verbatim out of the rigid byte-loop frame).  Proved here: running the
   translated step over two byte strings of equal length and applying the translated test is LIST EQUALITY, and is the
   model's ct_equal.  An accumulator that can cancel (xor of lanes, wrapping sums), that sees one direction only, or that
   skips positions does not satisfy these lemmas: the tie breaks. *)
From CppcmsV Require Import Base.Tac Base.CSem Base.CSemFacts Base.Sweep C15.Defs C05.Defs C05.Proofs gen.Gen_c05equal.
Local Open Scope N_scope.

(* a byte as the C `char` the loop reads *)
Definition as_char (b : N) : Z := wraps 8 (Z.of_N b).

(* the source loop: for(i=0;i<n;i++) BODY  over the first min(length a, length b) positions, then the return test *)
Fixpoint src_diff (d : Z) (a b : list N) : Z :=
  match a, b with
  | x :: a', y :: b' => src_diff (g_equal_step d (as_char x) (as_char y)) a' b'
  | _, _ => d
  end.
Definition src_equal (a b : list N) : bool := g_equal_done (src_diff 0%Z a b).

Lemma as_char_inj x y : x < 256 -> y < 256 -> as_char x = as_char y -> x = y.
Proof.
  intros Hx Hy. unfold as_char, wraps. change (2 ^ (8 - 1))%Z with 128%Z. change (2 ^ 8)%Z with 256%Z.
  intros H. assert (((Z.of_N x + 128) mod 256) = ((Z.of_N y + 128) mod 256))%Z by lia. lia.
Qed.

(* one iteration of the source loop: diff is incremented exactly when the bytes differ (no wrap below 2^64 - 1) *)
Lemma link_equal_step d x y : x < 256 -> y < 256 -> (0 <= d < 18446744073709551615)%Z ->
  g_equal_step d (as_char x) (as_char y) = if x =? y then d else (d + 1)%Z.
Proof.
  intros Hx Hy Hd. unfold g_equal_step.
  destruct (N.eqb_spec x y) as [->|Hne].
  - rewrite Z.eqb_refl. reflexivity.
  - destruct (Z.eqb_spec (as_char x) (as_char y)) as [He|_]; [apply as_char_inj in He; [contradiction|assumption|assumption]|].
    cbn [negb]. apply wrapu64_small. lia.
Qed.

Lemma link_equal_done d : g_equal_done d = (d =? 0)%Z.
Proof. reflexivity. Qed.

(* the whole loop counts the differing positions: it is the model's ct_diff *)
Lemma src_diff_is_ct_diff : forall a b d, bytes_ok a -> bytes_ok b -> length a = length b ->
  (0 <= d)%Z -> (d + Z.of_nat (length a) < 18446744073709551616)%Z ->
  src_diff d a b = (d + Z.of_nat (ct_diff (length a) a b))%Z.
Proof.
  induction a as [|x a IH]; intros b d Ha Hb Hl Hd Hn; destruct b as [|y b]; try discriminate.
  - cbn. lia.
  - apply bytes_ok_cons in Ha as [Hx Ha]. apply bytes_ok_cons in Hb as [Hy Hb].
    cbn [src_diff length ct_diff]. cbn [length] in Hn, Hl.
    rewrite link_equal_step by (try assumption; lia).
    destruct (N.eqb_spec x y) as [->|Hne].
    + rewrite IH by (try assumption; lia). reflexivity.
    + rewrite IH by (try assumption; lia). lia.
Qed.

Lemma link_equal_is_model a b : bytes_ok a -> bytes_ok b -> length a = length b ->
  (Z.of_nat (length a) < 18446744073709551616)%Z ->
  src_equal a b = ct_equal (length a) a b.
Proof.
  intros Ha Hb Hl Hn. unfold src_equal, ct_equal. rewrite link_equal_done.
  rewrite src_diff_is_ct_diff by (try assumption; lia).
  destruct (ct_diff (length a) a b); cbn; [reflexivity|].
  destruct (Z.eqb_spec (0 + Z.of_nat (S n)) 0); [lia|reflexivity].
Qed.

(* THE comparator of the source is an equality test of ALL bytes *)
Lemma link_equal_iff_eq a b : bytes_ok a -> bytes_ok b -> length a = length b ->
  (Z.of_nat (length a) < 18446744073709551616)%Z ->
  (src_equal a b = true <-> a = b).
Proof.
  intros Ha Hb Hl Hn. rewrite link_equal_is_model by assumption.
  apply ct_equal_spec; [reflexivity|symmetry; exact Hl].
Qed.
