(* C05: the save decision of session_interface::save (model si_save_decide): what a request may do to the expiry *)
From CppcmsV Require Import Base.Tac C15.Defs C05.Defs.
Local Open Scope N_scope.

(* fixed policy: a request on an existing (non-empty) session never moves its expiry: either nothing is issued or the
   cookie carries the expiry that was loaded *)
Lemma si_fixed_keeps_expiry timeout_val now dc tin data r : dc <> [] ->
  si_save_decide 0 timeout_val now (Some (dc, tin)) data = Some r -> r = tin.
Proof.
  intros Hdc. unfold si_save_decide.
  destruct dc as [|e dc']; [contradiction|]. cbn [is_nil_kv negb andb].
  rewrite andb_true_r. cbn [N.eqb]. 
  destruct (kv_eqb data (e :: dc')); [discriminate|].
  cbn [andb]. intros H. injection H as <-. reflexivity.
Qed.

(* a request that changes the data always issues a cookie, under every policy *)
Lemma si_changed_data_is_saved how timeout_val now loaded data :
  (forall dc tin, loaded = Some (dc, tin) -> kv_eqb data dc = false) ->
  si_save_decide how timeout_val now loaded data <> None.
Proof.
  intros H. unfold si_save_decide. destruct loaded as [[dc tin]|]; [|discriminate].
  rewrite (H dc tin eq_refl). cbn [andb].
  destruct ((how =? 0) && negb (is_nil_kv dc)); discriminate.
Qed.

(* a new session (nothing loaded, or the cookie was rejected) always gets expiry now + timeout *)
Lemma si_new_session_expiry how timeout_val now data :
  si_save_decide how timeout_val now None data = Some (timeout_val + now)%Z.
Proof. reflexivity. Qed.

(* renew / browser: whenever a cookie is issued it expires at now + timeout *)
Lemma si_renew_expiry how timeout_val now loaded data r : how <> 0 ->
  si_save_decide how timeout_val now loaded data = Some r -> r = (timeout_val + now)%Z.
Proof.
  intros Hh. unfold si_save_decide. destruct (N.eqb_spec how 0) as [->|_]; [contradiction|].
  destruct loaded as [[dc tin]|]; [|intros H; injection H as <-; reflexivity].
  cbn [andb].
  destruct (kv_eqb data dc && negb (is_nil_kv dc)).
  - destruct (10 * (now + timeout_val - tin) <? timeout_val)%Z; [discriminate|intros H; injection H as <-; reflexivity].
  - intros H; injection H as <-; reflexivity.
Qed.
