(* C05 proofs, part 4: configuration decisions (session_pool::init, encryptor constructors) *)
From CppcmsV Require Import Base.Tac Base.Sweep C15.Defs C05.Defs C05.Proofs.
Local Open Scope N_scope.

Section Config.
  Variable hmac : N -> list N -> list N -> list N.
  Variable dlen : N -> nat.

  (* encryption is never configured without a MAC *)
  Lemma pool_cbc_without_mac_refused enc cbc key hkey ckey : cbc <> [] ->
    exists code, pool_config enc [] cbc key hkey ckey = inl (PrepErr code false) /\ (code = 2 \/ code = 3).
  Proof.
    intros Hc. unfold pool_config, pool_decide.
    destruct cbc as [|c0 cbc]; [contradiction|]. destruct enc as [|e0 enc]; cbn.
    - exists 3. auto.
    - exists 2. auto.
  Qed.

  (* the signing encryptor refuses keys shorter than 16 bytes *)
  Lemma prepare_hmac_short_key_refused an k : (length k < 16)%nat ->
    prepare hmac dlen (RHmac an k) = PrepErr 8 false.
  Proof.
    intros H. cbn [prepare]. unfold hmac_key_ok.
    destruct (Nat.ltb_spec (length k) 16); [reflexivity|lia].
  Qed.

  Lemma prepare_hmac_ok_key_length an k a k' :
    prepare hmac dlen (RHmac an k) = PrepOk (CHmac a k') -> k' = k /\ (16 <= length k)%nat /\ hash_id an = Some a.
  Proof.
    cbn [prepare]. unfold hmac_key_ok.
    destruct (Nat.ltb_spec (length k) 16) as [H|H]; cbn [negb]; [discriminate|].
    destruct (hash_id an) as [a'|]; [|discriminate].
    intros Hx. injection Hx as <- <-. auto.
  Qed.

  (* separate keys: the cbc key has exactly the size the cipher name asks for *)
  Lemma prepare_aes_ok_key_size cn ck mn mk ck' a mk' :
    prepare hmac dlen (RAes cn ck mn mk) = PrepOk (CAes ck' a mk') ->
    ck' = ck /\ mk' = mk /\ cbc_key_size cn = Some (length ck) /\ hash_id mn = Some a.
  Proof.
    cbn [prepare]. destruct (cbc_key_size cn) as [sz|]; [|discriminate].
    destruct (Nat.eqb_spec (length ck) sz) as [H|H]; cbn [negb]; [|discriminate].
    destruct (hash_id mn) as [a'|]; [|discriminate].
    intros Hx. injection Hx as <- <- <-. subst. auto.
  Qed.

  (* combined key of exactly cipher-key-size + sha1-digest-size bytes is split, nothing is derived *)
  Lemma aes_combined_split cks k : length k = (cks + dlen 1)%nat ->
    aes_combined_keys hmac dlen cks k = Some (firstn cks k, skipn cks k).
  Proof. intros H. unfold aes_combined_keys. rewrite H, Nat.eqb_refl. reflexivity. Qed.

  Lemma aes_combined_too_short cks k : (length k < cks)%nat -> aes_combined_keys hmac dlen cks k = None.
  Proof.
    intros H. unfold aes_combined_keys.
    destruct (Nat.eqb_spec (length k) (cks + dlen 1)); [lia|].
    destruct (Nat.leb_spec cks (length k)); [lia|reflexivity].
  Qed.
End Config.

(* key files: trailing blanks and line ends do not matter, an empty file is refused *)
Lemma rtrim_ws w : forallb is_ws w = true -> rtrim w = [].
Proof.
  induction w as [|c w IH]; intros H; [reflexivity|].
  cbn [forallb] in H. apply andb_true_iff in H. destruct H as [Hc Hw].
  cbn [rtrim]. rewrite (IH Hw), Hc. reflexivity.
Qed.

Lemma rtrim_app_ws s w : forallb is_ws w = true -> rtrim (s ++ w) = rtrim s.
Proof.
  intros Hw. induction s as [|c s IH]; cbn [app]; [cbn [rtrim]; apply rtrim_ws; exact Hw|].
  cbn [rtrim]. rewrite IH. reflexivity.
Qed.

Lemma key_file_trailing_blanks s w : s <> [] -> forallb is_ws w = true ->
  key_of_src (KFile (s ++ w)) = key_of_src (KFile s).
Proof.
  intros Hs Hw. unfold key_of_src.
  destruct s as [|c s]; [contradiction|]. cbn [app is_nil].
  change (c :: s ++ w) with ((c :: s) ++ w). rewrite rtrim_app_ws by exact Hw. reflexivity.
Qed.

Lemma key_file_empty_refused enc mac cbc hkey ckey :
  pool_decide enc mac cbc = PEncHmacSha1 -> pool_config enc mac cbc (KFile []) hkey ckey = inl (PrepErr 11 false).
Proof. intros H. unfold pool_config. rewrite H. reflexivity. Qed.

Lemma cbc_key_size_values n sz : cbc_key_size n = Some sz -> sz = 16%nat \/ sz = 24%nat \/ sz = 32%nat.
Proof.
  unfold cbc_key_size.
  repeat match goal with |- context [if ?b then _ else _] => destruct b end;
    intros H; try discriminate; injection H as <-; auto.
Qed.
