(* C05 proofs, part 1: constant-time compare, little-endian codecs, the hmac encryptor *)
From CppcmsV Require Import Base.Tac Base.Sweep C15.Defs C15.Proofs C05.Defs.
Local Open Scope N_scope.

(* ---------- ct_equal is equality on n-byte strings ---------- *)
Lemma ct_diff_zero n : forall a b, length a = n -> length b = n -> (ct_diff n a b = 0%nat <-> a = b).
Proof.
  induction n as [|n IH]; intros a b Ha Hb.
  - destruct a; [|discriminate]. destruct b; [|discriminate]. cbn. tauto.
  - destruct a as [|x a]; [discriminate|]. destruct b as [|y b]; [discriminate|].
    cbn [ct_diff]. injection Ha as Ha. injection Hb as Hb.
    destruct (N.eqb_spec x y) as [->|Hne].
    + rewrite (IH a b Ha Hb). split; [intros ->; reflexivity|intros H; injection H; auto].
    + split; [discriminate|intros H; injection H; intros; contradiction].
Qed.

Lemma ct_equal_spec n a b : length a = n -> length b = n -> (ct_equal n a b = true <-> a = b).
Proof.
  intros Ha Hb. unfold ct_equal. rewrite Nat.eqb_eq. apply ct_diff_zero; assumption.
Qed.

Lemma ct_equal_refl n a : length a = n -> ct_equal n a a = true.
Proof. intros H. apply (ct_equal_spec n a a H H). reflexivity. Qed.

(* ---------- little endian ---------- *)
Lemma le_enc_length n : forall v, length (le_enc n v) = n.
Proof. induction n as [|n IH]; intros v; cbn; [reflexivity|rewrite IH; reflexivity]. Qed.

Lemma le_enc_bytes n : forall v, bytes_ok (le_enc n v).
Proof.
  induction n as [|n IH]; intros v; cbn.
  - constructor.
  - apply bytes_ok_cons. split; [apply N.mod_lt; discriminate|apply IH].
Qed.

Lemma le_dec_enc n : forall v, v < 256 ^ N.of_nat n -> le_dec (le_enc n v) = v.
Proof.
  induction n as [|n IH]; intros v Hv.
  - cbn in *. lia.
  - cbn [le_enc le_dec]. rewrite IH.
    + pose proof (N.div_mod v 256). lia.
    + rewrite Nat2N.inj_succ, N.pow_succ_r' in Hv. apply N.div_lt_upper_bound; lia.
Qed.

Lemma le_dec_bound l : bytes_ok l -> le_dec l < 256 ^ N.of_nat (length l).
Proof.
  induction l as [|b l IH]; intros H.
  - cbn. lia.
  - apply bytes_ok_cons in H. destruct H as [Hb Hl]. specialize (IH Hl).
    cbn [le_dec length]. rewrite Nat2N.inj_succ, N.pow_succ_r'. lia.
Qed.

Lemma le_enc_dec l : bytes_ok l -> le_enc (length l) (le_dec l) = l.
Proof.
  induction l as [|b l IH]; intros H.
  - reflexivity.
  - apply bytes_ok_cons in H. destruct H as [Hb Hl].
    cbn [le_dec length le_enc].
    replace ((b + 256 * le_dec l) mod 256) with b by lia.
    replace ((b + 256 * le_dec l) / 256) with (le_dec l) by lia.
    rewrite IH by exact Hl. reflexivity.
Qed.

Definition time_ok (t : Z) : Prop := (- two63 <= t < two63)%Z.

Lemma le64_enc_length t : length (le64_enc t) = 8%nat.
Proof. apply le_enc_length. Qed.

Lemma le64_enc_bytes t : bytes_ok (le64_enc t).
Proof. apply le_enc_bytes. Qed.

Lemma le64_dec_enc t : time_ok t -> le64_dec (le64_enc t) = t.
Proof.
  unfold time_ok, le64_dec, le64_enc, two63, two64. intros H.
  rewrite le_dec_enc.
  2:{ change (256 ^ N.of_nat 8) with 18446744073709551616.
      assert (0 <= t mod 18446744073709551616 < 18446744073709551616)%Z by (apply Z.mod_pos_bound; lia). lia. }
  rewrite Z2N.id by (apply Z.mod_pos_bound; lia).
  destruct (Z.ltb_spec (t mod 18446744073709551616) 9223372036854775808); lia.
Qed.

Lemma le64_dec_range l : bytes_ok l -> length l = 8%nat -> time_ok (le64_dec l).
Proof.
  intros Hb Hl. unfold time_ok, le64_dec, two63, two64.
  pose proof (le_dec_bound l Hb) as H. rewrite Hl in H. change (256 ^ N.of_nat 8) with 18446744073709551616 in H.
  destruct (Z.ltb_spec (Z.of_N (le_dec l)) 9223372036854775808); lia.
Qed.

Lemma le64_enc_dec l : bytes_ok l -> length l = 8%nat -> le64_enc (le64_dec l) = l.
Proof.
  intros Hb Hl. unfold le64_dec, le64_enc, two63, two64.
  pose proof (le_dec_bound l Hb) as H. rewrite Hl in H. change (256 ^ N.of_nat 8) with 18446744073709551616 in H.
  assert (Hv : Z.to_N ((if (Z.of_N (le_dec l) <? 9223372036854775808)%Z then Z.of_N (le_dec l)
                         else (Z.of_N (le_dec l) - 18446744073709551616)%Z) mod 18446744073709551616) = le_dec l).
  { destruct (Z.ltb_spec (Z.of_N (le_dec l)) 9223372036854775808) as [Hlt|Hge].
    - rewrite Z.mod_small by lia. apply N2Z.id.
    - replace (Z.of_N (le_dec l) - 18446744073709551616)%Z
        with (Z.of_N (le_dec l) + (-1) * 18446744073709551616)%Z by lia.
      rewrite Z_mod_plus_full, Z.mod_small by lia. apply N2Z.id. }
  rewrite Hv. rewrite <- Hl. apply le_enc_dec. exact Hb.
Qed.

(* ---------- list helpers ---------- *)
Lemma firstn_app_exact {A} (a b : list A) : firstn (length a) (a ++ b) = a.
Proof. rewrite firstn_app, Nat.sub_diag, firstn_all. cbn. apply app_nil_r. Qed.
Lemma skipn_app_exact {A} (a b : list A) : skipn (length a) (a ++ b) = b.
Proof. rewrite skipn_app, Nat.sub_diag, skipn_all. reflexivity. Qed.

Section HmacProofs.
  Variable hmac : N -> list N -> list N -> list N.
  Variable dlen : N -> nat.
  Hypothesis hmac_len : forall a k m, length (hmac a k m) = dlen a.

  Lemma hmac_decrypt_encrypt a k p : hmac_decrypt hmac dlen a k (hmac_encrypt hmac a k p) = Some p.
  Proof.
    unfold hmac_decrypt, hmac_encrypt.
    rewrite app_length, hmac_len.
    destruct (Nat.ltb_spec (length p + dlen a) (dlen a)) as [H|H]; [lia|].
    replace (length p + dlen a - dlen a)%nat with (length p) by lia.
    rewrite firstn_app_exact, skipn_app_exact.
    rewrite ct_equal_refl by apply hmac_len. reflexivity.
  Qed.

  (* acceptance is exactly: the last dlen bytes are the MAC of everything before them *)
  Lemma hmac_decrypt_some a k c m :
    hmac_decrypt hmac dlen a k c = Some m <->
    (dlen a <= length c)%nat /\ m = firstn (length c - dlen a) c /\
    skipn (length c - dlen a) c = hmac a k m.
  Proof.
    unfold hmac_decrypt.
    destruct (Nat.ltb_spec (length c) (dlen a)) as [H|H].
    - split; [discriminate|intros [H1 _]; lia].
    - set (msz := (length c - dlen a)%nat).
      assert (Hs : length (skipn msz c) = dlen a) by (rewrite skipn_length; unfold msz; lia).
      destruct (ct_equal (dlen a) (hmac a k (firstn msz c)) (skipn msz c)) eqn:Heq.
      + apply (ct_equal_spec _ _ _ (hmac_len _ _ _) Hs) in Heq.
        split.
        * intros Hm. injection Hm as <-. auto.
        * intros (_ & -> & _). reflexivity.
      + split; [discriminate|]. intros (_ & -> & Ht). fold msz in Ht.
        assert (ct_equal (dlen a) (hmac a k (firstn msz c)) (skipn msz c) = true)
          by (apply (ct_equal_spec _ _ _ (hmac_len _ _ _) Hs); symmetry; exact Ht).
        congruence.
  Qed.

  Lemma hmac_decrypt_body_tag a k body tag :
    length tag = dlen a ->
    (hmac_decrypt hmac dlen a k (body ++ tag) = Some body <-> tag = hmac a k body) /\
    (hmac_decrypt hmac dlen a k (body ++ tag) = None <-> tag <> hmac a k body).
  Proof.
    intros Ht.
    assert (Hl : (length (body ++ tag) - dlen a)%nat = length body) by (rewrite app_length; lia).
    assert (Hsome : forall m, hmac_decrypt hmac dlen a k (body ++ tag) = Some m <-> m = body /\ tag = hmac a k body).
    { intros m. rewrite hmac_decrypt_some, Hl, firstn_app_exact, skipn_app_exact.
      split.
      - intros (_ & -> & H). auto.
      - intros (-> & H). rewrite app_length. split; [lia|auto]. }
    split.
    - rewrite Hsome. tauto.
    - case_eq (hmac_decrypt hmac dlen a k (body ++ tag)); [intros m Hd|intros Hd].
      + apply Hsome in Hd. destruct Hd as [-> Hd]. split; [discriminate|intros Hn; contradiction].
      + split; [|reflexivity]. intros _ Heq.
        assert (hmac_decrypt hmac dlen a k (body ++ tag) = Some body) by (apply Hsome; auto). congruence.
  Qed.

  Lemma hmac_decrypt_short a k c : (length c < dlen a)%nat -> hmac_decrypt hmac dlen a k c = None.
  Proof. intros H. unfold hmac_decrypt. destruct (Nat.ltb_spec (length c) (dlen a)); [reflexivity|lia]. Qed.
End HmacProofs.
