Require Extraction.
Require Import ExtrOcamlBasic.
From Coq Require Import NArith ZArith List.
From CppcmsV Require Import C15.Defs C05.Defs.
Definition keep_types : (N * Z * nat) := (0%N, 0%Z, 0%nat).
Definition z_add := Z.add.
Definition z_mul := Z.mul.
Definition z_opp := Z.opp.
Definition z_quotrem := Z.quotrem.
Definition z_ltb := Z.ltb.
Extraction "c05m.ml" keep_types cookies_save cookies_load encrypt decrypt aes_combined_keys pool_decide hmac_key_ok
  encode_str decode_str le64_enc le64_dec prepare pool_config load_unusable session_save_data
  obj_fresh obj_step obj_run cookies_obj_save cookies_obj_load cookies_obj_run cbc_key_size
  kv_set_all session_load_data si_save_decide zeros16
  z_add z_mul z_opp z_quotrem z_ltb.
