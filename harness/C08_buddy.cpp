// C08 correspondence + oracle harness for the buddy allocator: malloc/free sequences on the real
// cppcms::impl::buddy_allocator (private/buddy_allocator.h of the tree under test) placed over a malloc'ed arena,
// the way tests/allocator_test.cpp does it.  Built with -fno-access-control: the harness prints the real free lists
// (in list order) and walks the real page headers; nothing of the allocator is re-implemented.  The repo's own
// invariant checkers (test_consistent / test_free, compiled in with TEST_ALLOCATOR) are run as well.
// Every allocated block is filled with a per-block byte and verified before it is freed and at the end, so that
// overlapping blocks or header bytes inside a user block show up as `corrupt`.
//
// case line:  bud <memory_size> <op> <op> ...
//   m<size>  malloc(size); the result gets the next slot number (0,1,2,... also when it is null)
//   f<slot>  free(slot)            A  free every live slot in ascending order        Z  ... in descending order
//             bud consts   prints  alignment_bits alignment page_in_use sizeof(buddy_allocator) sizeof(page)
// answer:     per op one token   m: <user offset|->:<total_free_memory>:<max_free_chunk>:<hb>    f/A/Z: f:<total>:<max>:<hb>
//             (hb = highest order with a non-empty free list, -1 if none)
//   then      F:<bits>=<page offset>,<page offset>;<bits>=...     the free lists, head first
//             P:<offset>.<bits><u|f>,...                           the pages found by walking the headers from offset 0
//             T:<ok|list of failed checks>                         the repo's test_consistent(), pattern check, test_free() when empty
//   offsets are relative to memory() (the first byte after the allocator object)
#include <map>
#include <utility>
#include <vector>
#include <string>
#include <sstream>
#include <iostream>
#include <stdlib.h>
#include <string.h>
#include <stdio.h>
static int test_failures = 0;
static std::string failed_tests;
#define TEST(X) do { if(!(X)) { test_failures++; if(failed_tests.size()<400) { char b_[32]; snprintf(b_,sizeof(b_),"L%d,",__LINE__); failed_tests+=b_; } } } while(0)
#define TEST_ALLOCATOR
#include "buddy_allocator.h"
#include "hexio.h"

typedef cppcms::impl::buddy_allocator buddy;

struct slot { void *p; size_t size; unsigned char fill; };

static std::string tot(buddy *b)
{
	int hb=-1;
	for(int bits=int(sizeof(void*)*8)-1;bits>=0;bits--) if(b->free_list_[bits]) { hb=bits; break; }
	char buf[128]; snprintf(buf,sizeof(buf),":%zu:%zu:%d",b->total_free_memory(),b->max_free_chunk(),hb);
	return buf;
}
static bool pattern_ok(slot const &s)
{
	unsigned char const *c=static_cast<unsigned char const *>(s.p);
	for(size_t i=0;i<s.size;i++) if(c[i]!=s.fill) return false;
	return true;
}

static std::string run(std::vector<std::string> const &v)
{
	size_t msize=strtoull(v[1].c_str(),0,10);
	if(msize<sizeof(buddy) || msize>(size_t(1)<<28)) return "BAD-CASE";
	void *arena=malloc(msize);
	if(!arena) return "<arena malloc failed>";
	memset(arena,0xEE,msize);
	buddy *b=new(arena) buddy(msize);
	char *mem=b->memory();
	std::vector<slot> slots;
	std::string out;
	bool corrupt=false;
	for(size_t i=2;i<v.size();i++) {
		std::string const &o=v[i];
		if(i>2) out+=' ';
		if(o[0]=='m') {
			size_t n=strtoull(o.c_str()+1,0,10);
			slot s; s.size=n; s.fill=(unsigned char)(0x40+slots.size()%64); s.p=b->malloc(n);
			if(s.p) {
				char buf[32]; snprintf(buf,sizeof(buf),"%zu",(size_t)(static_cast<char *>(s.p)-mem));
				out+=buf;
				if(static_cast<char *>(s.p)<mem || static_cast<char *>(s.p)+n>static_cast<char *>(arena)+msize) { corrupt=true; s.size=0; }
				else memset(s.p,s.fill,n);
			}
			else out+="-";
			slots.push_back(s);
			out+=tot(b);
		}
		else if(o[0]=='f') {
			size_t k=strtoull(o.c_str()+1,0,10);
			if(k<slots.size() && slots[k].p) {
				if(!pattern_ok(slots[k])) corrupt=true;
				b->free(slots[k].p); slots[k].p=0;
			}
			out+="f"+tot(b);
		}
		else if(o=="A" || o=="Z") {
			for(size_t j=0;j<slots.size();j++) {
				size_t k = o=="A" ? j : slots.size()-1-j;
				if(slots[k].p) { if(!pattern_ok(slots[k])) corrupt=true; b->free(slots[k].p); slots[k].p=0; }
			}
			out+="f"+tot(b);
		}
		else out+="BAD-OP";
	}
	// free lists as they are
	out+=" F:";
	bool first=true;
	for(int bits=0;bits<int(sizeof(void*)*8);bits++) {
		if(!b->free_list_[bits]) continue;
		if(!first) out+=';';
		first=false;
		char buf[32]; snprintf(buf,sizeof(buf),"%d=",bits); out+=buf;
		size_t guard=0;
		for(buddy::page *p=b->free_list_[bits];p && guard<100000;p=p->next,guard++) {
			snprintf(buf,sizeof(buf),"%s%zu",p==b->free_list_[bits]?"":",",(size_t)(reinterpret_cast<char *>(p)-mem)); out+=buf;
		}
	}
	if(first) out+="-";
	// page walk over the headers
	out+=" P:";
	size_t pos=0; first=true; bool walk_ok=true;
	while(b->memory_size_-pos >= 2*buddy::alignment) {
		buddy::page *p=reinterpret_cast<buddy::page *>(mem+pos);
		int bits=p->bits & 0xFF;
		if((p->bits & ~0x1FF)!=0 || bits<buddy::alignment_bits || bits>62 || pos+(size_t(1)<<bits)>b->memory_size_) { walk_ok=false; break; }
		char buf[48]; snprintf(buf,sizeof(buf),"%s%zu.%d%c",first?"":",",pos,bits,(p->bits&0x100)?'u':'f'); out+=buf;
		first=false;
		pos+=size_t(1)<<bits;
	}
	if(first) out+="-";
	// the repo's own checkers + byte patterns
	std::vector<void *> live; bool any=false;
	for(size_t j=0;j<slots.size();j++) { live.push_back(slots[j].p); if(slots[j].p) { any=true; if(!pattern_ok(slots[j])) corrupt=true; } }
	test_failures=0; failed_tests.clear();
	try {
		if(live.empty()) b->test_consistent(); else b->test_consistent(&live[0],live.size());
		if(!any) b->test_free();
	}
	catch(...) { failed_tests+="exception,"; test_failures++; }
	out+=" T:";
	std::string t;
	if(!walk_ok) t+="walk-broken,";
	if(corrupt) t+="corrupt,";
	if(test_failures) t+="repo-test:"+failed_tests;
	out+= t.empty() ? "ok" : t;
	b->~buddy();
	free(arena);
	return out;
}

int main()
{
	std::string line;
	while(std::getline(std::cin,line)) {
		std::vector<std::string> v=hx::split(line);
		std::string out;
		if(v.size()==2 && v[0]=="bud" && v[1]=="consts") {
			char buf[128]; snprintf(buf,sizeof(buf),"%d %zu %d %zu %zu",buddy::alignment_bits,(size_t)buddy::alignment,buddy::page_in_use,sizeof(buddy),sizeof(buddy::page));
			out=buf;
		}
		else if(v.size()>=2 && v[0]=="bud") out=run(v);
		else out="BAD-CASE";
		std::cout<<out<<"\n";
	}
	std::cout.flush();
	return 0;
}
