// C03 harness (derived from fe_service.cpp, owned by C03; adds a writev() interposer driven by an accept schedule):
// Front-end harness: one in-process cppcms::service with three acceptors
// (HTTP on an ephemeral loopback port, SCGI and FastCGI on unix sockets), echo applications (sync + async)
// and a response-script application; the client side lives in the main thread and sends each case's byte
// segments so that segment boundaries are real read boundaries (it waits until the server side socket has
// been drained, observed through the fd captured by interposing accept()).
//
// case line:   <proto> <step> <step> ...        proto in {http, scgi, fcgi}
//   S:<hex>  send segment, then wait until the server consumed it
//   s:<hex>  send segment without waiting
//   R        read one response (HTTP: per its framing; SCGI: to EOF; FastCGI: to END_REQUEST)
//   E        read until EOF
//   H        shutdown(SHUT_WR)
//   N        open a new connection (closing the current one) - for multi-connection cases
// result line: one token per R/E step: <hex of bytes received>[!T on timeout], then  calls=<sync>,<async>,<err>
#include <cppcms/service.h>
#include <cppcms/application.h>
#include <cppcms/applications_pool.h>
#include <cppcms/http_request.h>
#include <cppcms/http_response.h>
#include <cppcms/http_context.h>
#include <cppcms/http_cookie.h>
#include <cppcms/http_file.h>
#include <cppcms/mount_point.h>
#include <cppcms/json.h>
#include <cppcms/url_dispatcher.h>
#include <booster/log.h>
#ifndef _GNU_SOURCE
#define _GNU_SOURCE
#endif
#include <dlfcn.h>
#include <sys/socket.h>
#include <sys/un.h>
#include <sys/ioctl.h>
#include <linux/sockios.h>
#include <netinet/in.h>
#include <netinet/tcp.h>
#include <arpa/inet.h>
#include <poll.h>
#include <unistd.h>
#include <signal.h>
#include <errno.h>
#include <thread>
#include <atomic>
#include <chrono>
#include <algorithm>
#include "hexio.h"
#include "C03_resp_app.h"
#include <sys/uio.h>
#include <mutex>
using namespace hx;

static std::atomic<int> last_accepted_fd(-1);
static std::atomic<long> accept_count(0);
extern "C" int accept(int fd, struct sockaddr *a, socklen_t *l)
{
	typedef int (*fn)(int, struct sockaddr *, socklen_t *);
	static fn real = (fn)dlsym(RTLD_NEXT, "accept");
	int r = real(fd, a, l);
	if (r >= 0) { last_accepted_fd = r; accept_count++; }
	return r;
}


// ---- writev interposer: every write of the service to the tracked connection goes through here
// (booster::aio::stream_socket::writev is the only write path).  Schedule entry k: 0 -> EAGAIN,
// k>0 -> accept exactly min(k,total) bytes, exhausted schedule -> accept everything offered.
static std::atomic<int> g_track_fd(-1);
static std::mutex g_wv_mutex;
static std::vector<long> g_sched;
static size_t g_sched_pos = 0;
static std::string g_wv_log;
static int g_wv_calls = 0;
extern "C" ssize_t writev(int fd, const struct iovec *iov, int cnt)
{
	typedef ssize_t (*fn)(int, const struct iovec *, int);
	static fn real = (fn)dlsym(RTLD_NEXT, "writev");
	if (fd < 0 || fd != g_track_fd) return real(fd, iov, cnt);
	size_t total = 0;
	for (int i = 0; i < cnt; i++) total += iov[i].iov_len;
	long k = -1;
	{
		std::lock_guard<std::mutex> g(g_wv_mutex);
		if (g_sched_pos < g_sched.size()) k = g_sched[g_sched_pos++];
	}
	char tmp[64];
	if (k == 0) {
		std::lock_guard<std::mutex> g(g_wv_mutex);
		snprintf(tmp, sizeof(tmp), "%lu:0,", (unsigned long)total); if (g_wv_calls++ < 4000) g_wv_log += tmp;
		errno = EAGAIN;
		return -1;
	}
	size_t want = (k < 0 || size_t(k) > total) ? total : size_t(k);
	// The (offered, accepted) entry is logged BEFORE the bytes are handed to the kernel: the client of the harness collects the log as
	// soon as it has read the complete response, which can be before this thread runs again after the last real writev() (seen on a
	// slow / loaded CPU: the entry of the last call of a response then appeared in the log of the next case).  `want` is known here.
	{
		std::lock_guard<std::mutex> g(g_wv_mutex);
		snprintf(tmp, sizeof(tmp), "%lu:%lu,", (unsigned long)total, (unsigned long)want); if (g_wv_calls++ < 4000) g_wv_log += tmp;
	}
	size_t done = 0;
	while (done < want) {
		struct iovec v[64]; int n = 0; size_t skip = done, left = want - done;
		for (int i = 0; i < cnt && n < 64 && left > 0; i++) {
			size_t len = iov[i].iov_len;
			if (skip >= len) { skip -= len; continue; }
			v[n].iov_base = (char *)iov[i].iov_base + skip; v[n].iov_len = std::min(len - skip, left);
			left -= v[n].iov_len; skip = 0; n++;
		}
		ssize_t r = real(fd, v, n);
		if (r < 0) {
			if (errno == EINTR) continue;
			if (errno == EAGAIN || errno == EWOULDBLOCK) { pollfd p; p.fd = fd; p.events = POLLOUT; p.revents = 0; poll(&p, 1, 5000); continue; }
			int se = errno;
			std::lock_guard<std::mutex> g(g_wv_mutex);
			snprintf(tmp, sizeof(tmp), "%lu:E%d,", (unsigned long)total, se); if (g_wv_calls++ < 4000) g_wv_log += tmp;
			errno = se;
			return done ? ssize_t(done) : -1;
		}
		done += size_t(r);
	}
	return ssize_t(want);
}

std::atomic<int> g_sync_calls(0), g_async_calls(0), g_err_calls(0);

static std::string kv(char const *tag, std::string const &k, std::string const &v)
{
	return std::string(tag) + ":" + hex(k) + "=" + hex(v) + "\n";
}

class echo : public cppcms::application {
public:
	echo(cppcms::service &s) : cppcms::application(s) {}
	virtual void main(std::string)
	{
		if (is_asynchronous()) g_async_calls++; else g_sync_calls++;
		cppcms::http::request &rq = request();
		std::string b;
		b += "M=" + hex(rq.request_method()) + "\n";
		b += "S=" + hex(rq.script_name()) + "\n";
		b += "P=" + hex(rq.path_info()) + "\n";
		b += "Q=" + hex(rq.query_string()) + "\n";
		b += "CT=" + hex(rq.content_type()) + "\n";
		{ std::ostringstream ss; ss << rq.content_length(); b += "CL=" + ss.str() + "\n"; }
		std::map<std::string, std::string> env = rq.getenv();
		for (std::map<std::string, std::string>::const_iterator p = env.begin(); p != env.end(); ++p)
			b += kv("E", p->first, p->second);
		typedef cppcms::http::request::form_type form_type;
		{
			std::vector<std::string> v;
			for (form_type::const_iterator p = rq.get().begin(); p != rq.get().end(); ++p) v.push_back(kv("G", p->first, p->second));
			std::sort(v.begin(), v.end());
			for (size_t i = 0; i < v.size(); i++) b += v[i];
		}
		{
			std::vector<std::string> v;
			for (form_type::const_iterator p = rq.post().begin(); p != rq.post().end(); ++p) v.push_back(kv("O", p->first, p->second));
			std::sort(v.begin(), v.end());
			for (size_t i = 0; i < v.size(); i++) b += v[i];
		}
		{
			cppcms::http::request::cookies_type const &c = rq.cookies();
			for (cppcms::http::request::cookies_type::const_iterator p = c.begin(); p != c.end(); ++p)
				b += kv("C", p->first, p->second.value());
		}
		{
			cppcms::http::request::files_type f = rq.files();
			for (size_t i = 0; i < f.size(); i++) {
				std::ostringstream ss; ss << f[i]->data().rdbuf();
				b += "F:" + hex(f[i]->name()) + "," + hex(f[i]->filename()) + "," + hex(f[i]->mime()) + "=" + hex(ss.str()) + "\n";
			}
		}
		std::pair<void *, size_t> raw = rq.raw_post_data();
		b += "B=" + hex(std::string((char const *)raw.first, raw.second)) + "\n";
		response().set_plain_text_header();
		response().out() << b;
		if (is_asynchronous())
			release_context()->async_complete_response();
	}
};

static int g_port = 0;
static std::string g_dir;

static int free_port()
{
	int s = socket(AF_INET, SOCK_STREAM, 0);
	sockaddr_in a; memset(&a, 0, sizeof(a)); a.sin_family = AF_INET; a.sin_addr.s_addr = htonl(INADDR_LOOPBACK); a.sin_port = 0;
	bind(s, (sockaddr *)&a, sizeof(a));
	socklen_t l = sizeof(a); getsockname(s, (sockaddr *)&a, &l);
	int p = ntohs(a.sin_port); close(s); return p;
}

struct client {
	int fd, srv_fd; bool tcp;
	client() : fd(-1), srv_fd(-1), tcp(false) {}
	void closefd() { if (fd >= 0) { ::close(fd); fd = -1; } }
	bool open(std::string const &proto)
	{
		closefd();
		long before = accept_count;
		if (proto == "http") {
			tcp = true;
			fd = socket(AF_INET, SOCK_STREAM, 0);
			int one = 1; setsockopt(fd, IPPROTO_TCP, TCP_NODELAY, &one, sizeof(one));
			sockaddr_in a; memset(&a, 0, sizeof(a)); a.sin_family = AF_INET; a.sin_addr.s_addr = htonl(INADDR_LOOPBACK); a.sin_port = htons(g_port);
			if (connect(fd, (sockaddr *)&a, sizeof(a)) != 0) return false;
		}
		else {
			tcp = false;
			fd = socket(AF_UNIX, SOCK_STREAM, 0);
			sockaddr_un a; memset(&a, 0, sizeof(a)); a.sun_family = AF_UNIX;
			std::string p = g_dir + "/" + proto + ".sock";
			strncpy(a.sun_path, p.c_str(), sizeof(a.sun_path) - 1);
			if (connect(fd, (sockaddr *)&a, sizeof(a)) != 0) return false;
		}
		for (int i = 0; i < 400000 && accept_count == before; i++) usleep(50);   /* up to ~20 s on an overloaded machine */
		srv_fd = (accept_count == before) ? -1 : int(last_accepted_fd);
		g_track_fd = srv_fd;
		return true;
	}
	void wait_consumed()
	{
		for (int i = 0; i < 40000; i++) {
			int out = 0;
			{ pollfd ph; ph.fd = fd; ph.events = POLLRDHUP; ph.revents = 0; if (poll(&ph, 1, 0) > 0 && (ph.revents & (POLLRDHUP | POLLHUP | POLLERR))) return; }
			if (tcp && ioctl(fd, SIOCOUTQ, &out) == 0 && out > 0) { usleep(20); continue; }
			if (srv_fd < 0) { usleep(200); return; }
			int n = 0;
			if (ioctl(srv_fd, FIONREAD, &n) != 0) return;
			if (n == 0) return;
			usleep(20);
		}
	}
	bool send_all(std::string const &s)
	{
		size_t off = 0;
		while (off < s.size()) {
			ssize_t n = ::send(fd, s.data() + off, s.size() - off, MSG_NOSIGNAL);
			if (n <= 0) { if (n < 0 && errno == EINTR) continue; return false; }
			off += n;
		}
		return true;
	}
	// read some bytes with an inactivity timeout; returns 0 on EOF, -1 on timeout/error
	int read_some(std::string &buf, int timeout_ms = 12000)
	{
		pollfd p; p.fd = fd; p.events = POLLIN; p.revents = 0;
		int r = poll(&p, 1, timeout_ms);
		if (r <= 0) return -1;
		char tmp[65536];
		ssize_t n = ::recv(fd, tmp, sizeof(tmp), 0);
		if (n < 0) return 0; // reset by peer: treat as EOF
		if (n == 0) return 0;
		buf.append(tmp, n);
		return int(n);
	}
};

static size_t http_complete(std::string const &b)
{
	size_t he = b.find("\r\n\r\n");
	if (he == std::string::npos) return 0;
	std::string head = b.substr(0, he + 2);
	std::string lower = head; for (size_t i = 0; i < lower.size(); i++) lower[i] = tolower(lower[i]);
	size_t body = he + 4;
	size_t p = lower.find("\r\ncontent-length:");
	if (p != std::string::npos) {
		long long n = atoll(head.c_str() + p + 17);
		return b.size() >= body + size_t(n) ? body + size_t(n) : 0;
	}
	if (lower.find("\r\ntransfer-encoding: chunked") != std::string::npos) {
		size_t q = body;
		for (;;) {
			size_t e = b.find("\r\n", q);
			if (e == std::string::npos) return 0;
			unsigned long n = strtoul(b.c_str() + q, 0, 16);
			q = e + 2;
			if (n == 0) return b.size() >= q + 2 ? q + 2 : 0;
			if (b.size() < q + n + 2) return 0;
			q += n + 2;
		}
	}
	return 0; // close-delimited
}

static size_t fcgi_complete(std::string const &b)
{
	size_t q = 0;
	while (b.size() >= q + 8) {
		unsigned char const *h = (unsigned char const *)b.data() + q;
		size_t cl = (h[4] << 8) | h[5], pl = h[6];
		if (b.size() < q + 8 + cl + pl) return 0;
		if (h[1] == 3) return q + 8 + cl + pl; // END_REQUEST
		q += 8 + cl + pl;
	}
	return 0;
}

int main(int argc, char **argv)
{
	signal(SIGPIPE, SIG_IGN);
	char tmpl[] = "/tmp/verif-fe-XXXXXX";
	char const *base = getenv("FE_WORKDIR");
	std::string t = base ? std::string(base) + "/fe-XXXXXX" : std::string(tmpl);
	std::vector<char> tb(t.begin(), t.end()); tb.push_back(0);
	if (!mkdtemp(&tb[0])) { perror("mkdtemp"); return 2; }
	g_dir = &tb[0];
	g_port = free_port();
	long long cl_limit = getenv("FE_CL_LIMIT") ? atoll(getenv("FE_CL_LIMIT")) : 1024;
	long long mp_limit = getenv("FE_MP_LIMIT") ? atoll(getenv("FE_MP_LIMIT")) : 65536;
	cppcms::json::value cfg;
	cfg["service"]["list"][0]["api"] = "http";
	cfg["service"]["list"][0]["ip"] = "127.0.0.1";
	cfg["service"]["list"][0]["port"] = g_port;
	cfg["service"]["list"][1]["api"] = "scgi";
	cfg["service"]["list"][1]["socket"] = g_dir + "/scgi.sock";
	cfg["service"]["list"][2]["api"] = "fastcgi";
	cfg["service"]["list"][2]["socket"] = g_dir + "/fcgi.sock";
	cfg["service"]["worker_threads"] = 2;
	cfg["http"]["script_names"][0] = "/sync";
	cfg["http"]["script_names"][1] = "/async";
	cfg["http"]["script_names"][2] = "/resp";
	cfg["http"]["script_names"][3] = "/aresp";
	cfg["http"]["timeout"] = 30;
	cfg["security"]["content_length_limit"] = cl_limit;
	cfg["security"]["multipart_form_data_limit"] = mp_limit;
	cfg["security"]["uploads_path"] = g_dir;
	cfg["logging"]["level"] = "emergency";
	cfg["gzip"]["enable"] = true;
	cfg["localization"]["disable_charset_in_content_type"] = true;
	if (getenv("C03_GZIP_BUFFER")) cfg["gzip"]["buffer"] = atoi(getenv("C03_GZIP_BUFFER"));
	if (getenv("C03_OUTBUF")) cfg["service"]["output_buffer_size"] = atoi(getenv("C03_OUTBUF"));
	if (getenv("C03_ASYNC_OUTBUF")) cfg["service"]["async_output_buffer_size"] = atoi(getenv("C03_ASYNC_OUTBUF"));
	cfg["cache"]["backend"] = "thread_shared";
	cfg["cache"]["limit"] = 100;
	int rc = 0;
	try {
		cppcms::service srv(cfg);
		srv.applications_pool().mount(cppcms::create_pool<echo>(), cppcms::mount_point("/sync"));
		srv.applications_pool().mount(cppcms::create_pool<echo>(), cppcms::mount_point("/async"), cppcms::app::asynchronous);
		c03::mount_resp_apps(srv);
		std::thread th([&srv]() { try { srv.run(); } catch (std::exception const &e) { std::cout << "SERVICE-THREW " << e.what() << std::endl; _exit(3); } });
		// wait until acceptors are up
		{
			client c; int tries = 0;
			while (!c.open("scgi") && tries++ < 400) usleep(5000);
			c.closefd();
			tries = 0;
			while (!c.open("http") && tries++ < 400) usleep(5000);
			c.closefd();
		}
		std::string line;
		while (std::getline(std::cin, line)) {
			std::vector<std::string> v = split(line);
			if (v.empty()) { std::cout << "BAD-CASE" << std::endl; continue; }
			int c0 = g_sync_calls, c1 = g_async_calls, c2 = g_err_calls;
			c03::g_resp_log.clear();
			{ std::lock_guard<std::mutex> g(g_wv_mutex); g_sched.clear(); g_sched_pos = 0; g_wv_log.clear(); g_wv_calls = 0; }
			std::string proto = v[0];
			client c;
			std::string leftover;
			std::ostringstream out;
			bool ok = c.open(proto);
			if (!ok) out << "CONNECT-FAILED ";
			for (size_t i = 1; ok && i < v.size(); i++) {
				std::string const &s = v[i];
				if (s.size() >= 2 && (s[0] == 'S' || s[0] == 's') && s[1] == ':') {
					std::string data = unhex(s.substr(2));
					c.send_all(data);
					if (s[0] == 'S') c.wait_consumed();
				}
				else if (s == "H") { shutdown(c.fd, SHUT_WR); }
				else if (s == "N") { ok = c.open(proto); leftover.clear(); }
				else if (s == "R" || s == "E") {
					std::string buf; bool timeout = false;
					buf.swap(leftover);
					for (;;) {
						if (s == "R") {
							size_t end = 0;
							if (proto == "http") end = http_complete(buf);
							if (proto == "fcgi") end = fcgi_complete(buf);
							if (end) { leftover = buf.substr(end); buf.resize(end); break; }
						}
						int n = c.read_some(buf);
						if (n == 0) break;
						if (n < 0) { timeout = true; break; }
					}
					out << hex(buf) << (timeout ? "!T" : "") << " ";
				}
				else if (s.size() > 1 && s[0] == 'W') { usleep(1000 * atoi(s.c_str() + 1)); }
				else if (s.size() > 1 && (s[0] == 'X' || s[0] == 'M') && (s[1] == ':' || s[1] == '=')) { /* for the oracle / the model: ignored here */ }
				else if (s.size() >= 2 && s[0] == 'K' && s[1] == ':') {
					std::lock_guard<std::mutex> g(g_wv_mutex);
					g_sched.clear(); g_sched_pos = 0;
					std::string l = s.substr(2); size_t q = 0;
					while (q < l.size()) { size_t e = l.find(',', q); if (e == std::string::npos) e = l.size(); if (e > q) g_sched.push_back(atol(l.substr(q, e - q).c_str())); q = e + 1; }
				}
				else out << "BAD-STEP ";
			}
			c.closefd();
			// let the service finish with the connection (handler counters settle)
			for (int i = 0; i < 10; i++) { usleep(100); }
			g_track_fd = -1;
			{ std::lock_guard<std::mutex> g(c03::g_resp_mutex); out << "log=" << (c03::g_resp_log.empty() ? std::string("-") : c03::g_resp_log); }
			{ std::lock_guard<std::mutex> g(g_wv_mutex); out << " wv=" << (g_wv_log.empty() ? std::string("-") : g_wv_log); }
			std::cout << out.str() << std::endl;
		}
		srv.shutdown();
		th.join();
	}
	catch (std::exception const &e) {
		std::cout << "HARNESS-EXCEPTION " << e.what() << std::endl;
		rc = 2;
	}
	std::string cmd = "rm -rf '" + g_dir + "'";
	if (system(cmd.c_str())) {}
	return rc;
}
