// translation unit for tools/cxx2v.py: the bundled CRC-32 table of /repo/private/crc32.h (used when zlib is not available)
#define CPPCMS_NO_GZIP
#include <stddef.h>
#include "crc32.h"
