// C20 correspondence harness, part 3: end to end through the embedded HTTP server.  A real cppcms::service with an
// http acceptor on a loopback port (http.rewrite rules and http.script_names from the case), application pools mounted
// with mount points; every query is a real HTTP/1.0 request sent over a socket.  The code under test is the whole path
// http_api.cpp process_request (rewrite, query split, script name, urldecode) -> http_context.cpp on_headers_ready ->
// applications_pool::get_application_specific_pool -> mount_point::match -> application::main -> url_dispatcher.
//
// case:   E R<k> (<pattern token> <hex rewrite pattern> <final>)*k SN<j> <hex>*j N<n> (<mp> <app>)*n Q (<hex host> <hex uri> <hex method>)*
// answer: per query  400 | 404 | F <hid> <n> <hex args>... | S<status> | TIMEOUT
#define C20_ROUTING_NO_MAIN
#include "C20_routing.cpp"
#include <booster/log.h>
#include <sys/socket.h>
#include <netinet/in.h>
#include <arpa/inet.h>
#include <poll.h>
#include <unistd.h>
#include <signal.h>
#include <errno.h>
#include <thread>

static int free_port()
{
	int fd=::socket(AF_INET,SOCK_STREAM,0);
	sockaddr_in a; memset(&a,0,sizeof(a)); a.sin_family=AF_INET; a.sin_addr.s_addr=htonl(INADDR_LOOPBACK); a.sin_port=0;
	if(::bind(fd,(sockaddr*)&a,sizeof(a))!=0) { ::close(fd); return 0; }
	socklen_t l=sizeof(a); getsockname(fd,(sockaddr*)&a,&l);
	int p=ntohs(a.sin_port); ::close(fd); return p;
}
static int connect_to(int port)
{
	int fd=::socket(AF_INET,SOCK_STREAM,0);
	sockaddr_in a; memset(&a,0,sizeof(a)); a.sin_family=AF_INET; a.sin_addr.s_addr=htonl(INADDR_LOOPBACK); a.sin_port=htons(port);
	if(::connect(fd,(sockaddr*)&a,sizeof(a))!=0) { ::close(fd); return -1; }
	return fd;
}

class HttpPool : public cppcms::application_specific_pool {
public:
	AppD desc;
	HttpPool(AppD const &d) : desc(d) {}
	virtual cppcms::application *new_application(cppcms::service &srv) { Node *n=new Node(srv,desc); n->http_root=true; return n; }
};

struct Server {
	std::string key;
	int port;
	cppcms::service *srv;
	std::thread *th;
	Server() : port(0), srv(0), th(0) {}
	void stop()
	{
		if(!srv) return;
		srv->shutdown();
		th->join();
		delete th; th=0;
		delete srv; srv=0;
	}
	// (re)start with the rewrite rules / script names of the case; throws cppcms_error / regex_error for bad rules
	void start(std::string const &k,cppcms::json::array const &rules,std::vector<std::string> const &names)
	{
		stop();
		for(int attempt=0;;attempt++) {
			port=free_port();
			cppcms::json::value cfg;
			cfg["service"]["api"]="http";
			cfg["service"]["ip"]="127.0.0.1";
			cfg["service"]["port"]=port;
			cfg["service"]["worker_threads"]=1;
			cfg["http"]["timeout"]=30;
			cfg["http"]["script_names"]=cppcms::json::array();
			for(size_t i=0;i<names.size();i++) cfg["http"]["script_names"][i]=names[i];
			if(!rules.empty()) cfg["http"]["rewrite"]=rules;
			cfg["localization"]["locales"][0]="en_US.ISO-8859-1";
			cfg["logging"]["level"]="emergency";
			cfg["misc"]["invalid_url_throws"]=true;
			srv=new cppcms::service(cfg);
			cppcms::service *s=srv;
			bool *failed=new bool(false);
			th=new std::thread([s,failed]() { try { s->run(); } catch(std::exception const &) { *failed=true; } });
			bool up=false;
			for(int i=0;i<2000 && !*failed;i++) {
				int fd=connect_to(port);
				if(fd>=0) { ::close(fd); up=true; break; }
				usleep(2000);
			}
			if(up) { key=k; return; }
			stop();
			if(attempt>=3) throw std::runtime_error("service did not come up");
		}
	}
};
static Server g_server;

static std::string request(int port,std::string const &host,std::string const &uri,std::string const &method)
{
	for(int attempt=0;attempt<2;attempt++) {
		int fd=connect_to(port);
		if(fd<0) { usleep(20000); continue; }
		std::string rq=method+" "+uri+" HTTP/1.0\r\nHost: "+host+"\r\nConnection: close\r\n\r\n";
		size_t off=0; bool sent=true;
		while(off<rq.size()) {
			ssize_t n=::send(fd,rq.data()+off,rq.size()-off,MSG_NOSIGNAL);
			if(n<=0) { if(n<0 && errno==EINTR) continue; sent=false; break; }
			off+=n;
		}
		std::string buf; bool timeout=false;
		while(sent) {
			pollfd p; p.fd=fd; p.events=POLLIN; p.revents=0;
			int r=poll(&p,1,20000);
			if(r<=0) { timeout=true; break; }
			char tmp[65536];
			ssize_t n=::recv(fd,tmp,sizeof(tmp),0);
			if(n<=0) break;
			buf.append(tmp,n);
		}
		::close(fd);
		if(timeout || buf.empty()) continue;
		// status line: HTTP/1.x NNN ...
		size_t sp=buf.find(' ');
		int status=sp==std::string::npos?0:atoi(buf.c_str()+sp+1);
		size_t he=buf.find("\r\n\r\n");
		std::string body=he==std::string::npos?std::string():buf.substr(he+4);
		if(status==200) return body.empty()?"S200-EMPTY":body;
		if(status==400) return "400";
		if(status==404) return "404";
		std::ostringstream o; o<<"S"<<status; return o.str();
	}
	return "TIMEOUT";
}

static std::string run_http(Toks &t)
{
	int k=t.counted('R');
	cppcms::json::array rules;
	std::string key="R";
	for(int i=0;i<k;i++) {
		std::string ptok=t.next(), pat=t.next(), fin=t.next();
		size_t p=ptok.find(':'); if(p==std::string::npos) throw std::runtime_error("abstract pattern");
		cppcms::json::value r;
		r["regex"]=unhex(ptok.substr(0,p));
		r["pattern"]=unhex(pat);
		r["final"]=(fin=="1");
		rules.push_back(r);
		key+=" "+ptok.substr(0,p)+" "+pat+" "+fin;
	}
	std::string sn=t.next();
	if(sn.size()<3 || sn.substr(0,2)!="SN") throw std::runtime_error("SN");
	int j=atoi(sn.c_str()+2);
	std::vector<std::string> names;
	key+=" SN";
	for(int i=0;i<j;i++) { std::string h=t.next(); names.push_back(unhex(h)); key+=" "+h; }
	int n=t.counted('N');
	std::vector<cppcms::mount_point> mps;
	std::vector<booster::shared_ptr<cppcms::application_specific_pool> > pools;
	for(int i=0;i<n;i++) {
		t.expect("{");
		std::string htok=t.next(), stok=t.next(), ptok=t.next();
		int g=t.num();
		std::string sel=t.next();
		t.expect("}");
		mps.push_back(make_mp(htok,stok,ptok,g,sel));
		AppD d=parse_app(t);
		pools.push_back(booster::shared_ptr<cppcms::application_specific_pool>(new HttpPool(d)));
	}
	t.expect("Q");
	if(!g_server.srv || g_server.key!=key) {
		try { g_server.start(key,rules,names); }
		catch(cppcms::cppcms_error const &) { g_server.stop(); g_server.key.clear(); return "CONSTRUCT-ERROR"; }
		catch(booster::regex_error const &) { g_server.stop(); g_server.key.clear(); return "REGEX-ERROR"; }
	}
	cppcms::service &srv=*g_server.srv;
	for(int i=0;i<n;i++) srv.applications_pool().mount(pools[i],mps[i],cppcms::app::synchronous);
	std::ostringstream out;
	bool first=true;
	try {
		while(!t.end()) {
			std::string h=t.hexs(), uri=t.hexs(), m=t.hexs();
			std::string r=request(g_server.port,h,uri,m);
			if(!first) out<<" | ";
			first=false;
			out<<r;
		}
	}
	catch(...) {
		for(int i=0;i<n;i++) srv.applications_pool().unmount(pools[i]);
		throw;
	}
	for(int i=0;i<n;i++) srv.applications_pool().unmount(pools[i]);
	return out.str();
}

#ifndef C20_HTTP_NO_MAIN
int main()
{
	signal(SIGPIPE,SIG_IGN);
	std::string line;
	while(std::getline(std::cin,line)) {
		std::vector<std::string> v=split(line);
		std::string r;
		try {
			Toks t(v);
			std::string kind=t.next();
			if(kind=="E") r=run_http(t);
			else r="BAD-CASE";
		}
		catch(std::exception const &e) { r=std::string("HARNESS-EXN ")+e.what(); }
		std::cout<<r<<std::endl;
	}
	g_server.stop();
	return 0;
}
#endif
