// C18 end-to-end harness: the public session API (cppcms::session_interface over a session_pool configured with
// session.location=server, session.server.storage=files) on a scratch directory, i.e. the real path
//   session_interface::save/load -> session_sid::save/load (valid_sid, get_new_sid) -> session_file_storage::save/load.
// write() and time() are interposed as in C18_filestore.cpp; a crashed save is materialised from the recorded write() calls.
// No model is run on these cases: the property oracle (checks/C18.py) judges the answers alone.
// case line:  E <op> <op> ...      one client (one cookie jar)
//   W:now:map            load the session, make its content exactly <map>, save          map = hexkey=hexval;hexkey=hexval (or -)
//   C:now:map:p0,p1,..   the same, but the save crashes: sector s of the file holds the state after p_s bytes of the write stream
//   R:now                load the session and report its content
//   N                    the client forgets its cookie
//   J:hex                raw bytes are planted into the session file the cookie names (J[1]; J[0] when the cookie names none)
//   B:now:mb             like R, with the address space limited to what the process uses now + mb MiB (RLIMIT_AS) during the load
// answer: one token per op: W[n]  (n = number of write calls seen), C[n], R=none | R=<map> | R=EXC(..), N; each followed by
//   {files=<number of files in the directory>}
#include <cppcms/session_interface.h>
#include <cppcms/session_pool.h>
#include <cppcms/http_cookie.h>
#include <cppcms/json.h>
#include <cppcms/cppcms_error.h>
#include <sys/syscall.h>
#include <sys/stat.h>
#include <sys/types.h>
#include <dirent.h>
#include <unistd.h>
#include <fcntl.h>
#include <stdint.h>
#include <stdlib.h>
#include <string.h>
#include <time.h>
#include <ctype.h>
#include <sys/resource.h>
#include <stdio.h>
#include <new>
#include <algorithm>
#include <map>
#include <set>
#include <typeinfo>
#include "hexio.h"
using namespace hx;

static time_t g_now = 1000;
extern "C" time_t time(time_t *p) { if(p) *p = g_now; return g_now; }

struct wrec { uint64_t off; std::string data; };
static bool g_rec = false;
static std::vector<wrec> g_w;
extern "C" ssize_t write(int fd, const void *buf, size_t n)
{
	off_t o = g_rec ? lseek(fd, 0, SEEK_CUR) : 0;
	ssize_t r = syscall(SYS_write, fd, buf, n);
	if(g_rec && r > 0) { wrec w; w.off = o; w.data.assign(static_cast<char const *>(buf), size_t(r)); g_w.push_back(w); }
	return r;
}

static bool slurp(std::string const &path, std::string &out)
{
	int fd = ::open(path.c_str(), O_RDONLY);
	if(fd < 0) return false;
	out.clear();
	char buf[65536]; ssize_t r;
	while((r = ::read(fd, buf, sizeof(buf))) > 0) out.append(buf, r);
	::close(fd);
	return true;
}
static void spit(std::string const &path, std::string const &data)
{
	int fd = ::open(path.c_str(), O_WRONLY | O_CREAT | O_TRUNC, 0666);
	if(fd < 0) { perror("spit"); exit(3); }
	size_t done = 0;
	while(done < data.size()) {
		ssize_t r = syscall(SYS_write, fd, data.data() + done, data.size() - done);
		if(r <= 0) { perror("spit write"); exit(3); }
		done += r;
	}
	::close(fd);
}
static std::vector<std::string> list_dir(std::string const &dir)
{
	std::vector<std::string> names;
	DIR *d = opendir(dir.c_str());
	if(!d) return names;
	struct dirent *e;
	while((e = readdir(d)) != 0) { std::string n = e->d_name; if(n != "." && n != "..") names.push_back(n); }
	closedir(d);
	return names;
}
static void clean_dir(std::string const &dir)
{
	std::vector<std::string> names = list_dir(dir);
	for(size_t i = 0; i < names.size(); i++) ::unlink((dir + "/" + names[i]).c_str());
}
static std::string materialise(std::string const &F, std::vector<wrec> const &W, std::vector<uint64_t> const &ps)
{
	std::vector<std::pair<uint64_t, unsigned char> > st;
	for(size_t i = 0; i < W.size(); i++)
		for(size_t j = 0; j < W[i].data.size(); j++)
			st.push_back(std::make_pair(W[i].off + j, (unsigned char)W[i].data[j]));
	std::string res = F;
	for(size_t s = 0; s < ps.size(); s++) {
		uint64_t p = std::min<uint64_t>(ps[s], st.size());
		if(p == 0) continue;
		std::string cur = F;
		for(uint64_t k = 0; k < p; k++) {
			if(st[k].first >= cur.size()) cur.resize(st[k].first + 1, 0);
			cur[st[k].first] = char(st[k].second);
		}
		uint64_t lo = 512 * s, hi = std::min<uint64_t>(cur.size(), 512 * (s + 1));
		if(lo < hi) {
			if(res.size() < hi) res.resize(hi, 0);
			std::copy(cur.begin() + lo, cur.begin() + hi, res.begin() + lo);
		}
	}
	return res;
}
static std::vector<std::string> splitc(std::string const &s, char c)
{
	std::vector<std::string> r; std::string cur;
	for(size_t i = 0; i < s.size(); i++) { if(s[i] == c) { r.push_back(cur); cur.clear(); } else cur += s[i]; }
	r.push_back(cur);
	return r;
}

class jar : public cppcms::session_interface_cookie_adapter {
public:
	std::string name, value;
	virtual void set_cookie(cppcms::http::cookie const &c)
	{
		if(c.name() != name) return;
		if((c.max_age_defined() && c.max_age() == 0) || (c.expires_defined() && c.expires() + 1 < time(0)) || c.value().empty())
			value.clear();
		else
			value = c.value();
	}
	virtual std::string get_session_cookie(std::string const &) { return value; }
	virtual std::set<std::string> get_cookie_names() { std::set<std::string> s; if(!value.empty()) s.insert(name); return s; }
};

typedef std::map<std::string, std::string> kv;
static kv parse_map(std::string const &s)
{
	kv m;
	if(s == "-" || s.empty()) return m;
	std::vector<std::string> parts = splitc(s, ';');
	for(size_t i = 0; i < parts.size(); i++) {
		std::vector<std::string> e = splitc(parts[i], '=');
		if(e.size() != 2) throw 1;
		m[unhex(e[0])] = unhex(e[1]);
	}
	return m;
}

int main()
{
	char const *base = getenv("C18_DIR");
	std::string tmpl = std::string(base ? base : "/tmp") + "/c18e.XXXXXX";
	std::vector<char> tb(tmpl.begin(), tmpl.end()); tb.push_back(0);
	if(!mkdtemp(&tb[0])) { perror("mkdtemp"); return 2; }
	std::string dir = &tb[0];
	cppcms::json::value cfg;
	cfg["session"]["location"] = "server";
	cfg["session"]["expire"] = "renew";
	cfg["session"]["timeout"] = 1000;
	cfg["session"]["server"]["storage"] = "files";
	cfg["session"]["server"]["dir"] = dir;
	cppcms::session_pool pool(cfg);
	pool.init();
	std::string line;
	while(std::getline(std::cin, line)) {
		std::vector<std::string> v = split(line);
		std::ostringstream out;
		if(v.size() < 1 || v[0] != "E") { std::cout << "BAD-CASE\n"; continue; }
		clean_dir(dir);
		jar j;
		{ cppcms::session_interface probe(pool, j); j.name = probe.session_cookie_name(); }
		for(size_t k = 1; k < v.size(); k++) {
			std::vector<std::string> a = splitc(v[k], ':');
			if(k > 1) out << ' ';
			try {
				char op = a[0].size() == 1 ? a[0][0] : '?';
				if((op == 'W' && a.size() == 3) || (op == 'C' && a.size() == 4)) {
					g_now = (time_t)strtoll(a[1].c_str(), 0, 10);
					kv m = parse_map(a[2]);
					// the file the save is going to rewrite (if the cookie names one)
					std::string oldsid = (j.value.size() == 33 && j.value[0] == 'I') ? j.value.substr(1) : std::string();
					std::string F; bool had = !oldsid.empty() && slurp(dir + "/" + oldsid, F);
					std::string old_cookie = j.value;
					{
						cppcms::session_interface si(pool, j);
						si.load();
						std::set<std::string> ks = si.key_set();
						for(std::set<std::string>::iterator p = ks.begin(); p != ks.end(); ++p) if(!m.count(*p)) si.erase(*p);
						for(kv::iterator p = m.begin(); p != m.end(); ++p) si.set(p->first, p->second);
						g_w.clear(); g_rec = true;
						try { si.save(); } catch(...) { g_rec = false; throw; }
						g_rec = false;
					}
					out << op << '[' << g_w.size() << ']';
					if(op == 'C') {
						std::vector<uint64_t> ps;
						if(a[3] != "-") { std::vector<std::string> pv = splitc(a[3], ','); for(size_t i = 0; i < pv.size(); i++) ps.push_back(strtoull(pv[i].c_str(), 0, 10)); }
						std::string newsid = (j.value.size() == 33 && j.value[0] == 'I') ? j.value.substr(1) : std::string();
						if(!newsid.empty() && !g_w.empty()) {
							// the write calls went to the file of newsid; if that is a fresh file the old content is "absent"
							std::string Fold = (newsid == oldsid && had) ? F : std::string();
							spit(dir + "/" + newsid, materialise(Fold, g_w, ps));
						}
						(void)old_cookie;
					}
				}
				else if(op == 'J' && a.size() == 2) {
					std::string sid = (j.value.size() == 33 && j.value[0] == 'I') ? j.value.substr(1) : std::string();
					if(sid.empty()) out << "J[0]";
					else { spit(dir + "/" + sid, unhex(a[1])); out << "J[1]"; }
				}
				else if((op == 'R' && a.size() == 2) || (op == 'B' && a.size() == 3)) {
					g_now = (time_t)strtoll(a[1].c_str(), 0, 10);
					cppcms::session_interface si(pool, j);
					bool ok;
					if(op == 'B') {
						unsigned long mb = strtoul(a[2].c_str(), 0, 10), pages = 0;
						{ FILE *f = fopen("/proc/self/statm", "r"); if(f) { if(fscanf(f, "%lu", &pages) != 1) pages = 0; fclose(f); } }
						struct rlimit old_l, new_l; getrlimit(RLIMIT_AS, &old_l);
						new_l = old_l; new_l.rlim_cur = rlim_t(pages) * rlim_t(sysconf(_SC_PAGESIZE)) + rlim_t(mb) * 1048576u;
						if(pages == 0 || setrlimit(RLIMIT_AS, &new_l) != 0) throw 1;
						try { ok = si.load(); } catch(...) { setrlimit(RLIMIT_AS, &old_l); throw; }
						setrlimit(RLIMIT_AS, &old_l);
					}
					else ok = si.load();
					std::set<std::string> ks = si.key_set();
					if(!ok) out << "R=none";
					else {
						out << "R=";
						if(ks.empty()) out << '-';
						bool first = true;
						for(std::set<std::string>::iterator p = ks.begin(); p != ks.end(); ++p) {
							out << (first ? "" : ";") << hex(*p) << '=' << hex(si.get(*p)); first = false;
						}
					}
				}
				else if(op == 'N' && a.size() == 1) { j.value.clear(); out << 'N'; }
				else { out << "BAD-OP"; continue; }
			}
			catch(std::exception const &e) { g_rec = false; out << "EXC(" << typeid(e).name() << ")"; }
			catch(...) { g_rec = false; out << "BAD-OP"; continue; }
			out << "{files=" << list_dir(dir).size() << '}';
		}
		std::cout << out.str() << "\n";
	}
	clean_dir(dir);
	::rmdir(dir.c_str());
	return 0;
}
