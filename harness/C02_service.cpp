// C02 harness: one in-process cppcms::service (HTTP on loopback TCP, SCGI and FastCGI on unix sockets) that is fed
// malformed / truncated / reset byte streams by a client living in the main thread. Derived from fe_service.cpp
// (shared, read-only); additions: an upload application with a content filter that counts error notifications,
// abortive close, probes on separate connections (during and after every case), detection of the moment the
// server side closed the accepted socket (close() interposition), send time-outs.
//
// configuration lines (answered by "probe-set"):   probe <proto> <hex request bytes>
// case line:   <proto> <step> <step> ...        proto in {http, scgi, fcgi}
//   S:<hex>  send segment, then wait until the server consumed it        s:<hex>  send without waiting
//   R        read one response (HTTP: per its framing; SCGI: to EOF; FastCGI: to END_REQUEST)
//   E        read until EOF           H   shutdown(SHUT_WR)          K   abortive close (SO_LINGER 0)
//   N        open a new connection (closing the current one)         W<ms> sleep
//   P        run the configured probe request of this protocol on a separate connection now (token p=<proto>:<hex>)
//   P:<proto> same, for another protocol
//   Z<ms>    hold the connection open (nothing is sent, no half-close) and wait up to <ms> for the SERVER to close it; token
//            z=<1 closed | 0 still open>:<elapsed ms>   (run with FE_HTTP_TIMEOUT=<s>: the HTTP time-out watchdog must close it)
//   M:<proto>:<k>  k connections of that protocol at the same time: all are opened, then the probe request is sent on every one,
//                  then all replies are read (token m=<proto>:<k>,<replies containing the configured probe body>,<time-outs>)
// result line: r=<hex>[!T] per R/E step, p=<hex>[!T] per P step, then
//   closed=<1 if the server closed every accepted socket of the case> calls=<sync>,<async>,<up_setup>,<up_main>,<on_error>,<on_end>,<setup_threw>,<chunk_bytes>
//   probe=<hex>[!T]   (probe on a fresh connection after the case)
//   stalled=1         the event loop did not run a posted marker within 8 s after the case (watchdog): the loop thread is stuck
//                     (e.g. in a probe loop of connection::env_ that never ends); no final probe is attempted
//   restart=1         the case timed out or stalled: the harness process ends after this line (the check starts a fresh one for
//                     the remaining cases, so that one stuck thread costs a few seconds, not a harness-wide time-out)
// echo replies carry a line E=<hexname>:<hexvalue>,... with the whole CGI environment (connection::getenv(), i.e. the walk
// begin()..end() of the string_map) when the request has a variable HTTP_X_ENV.
#include <cppcms/service.h>
#include <cppcms/application.h>
#include <cppcms/applications_pool.h>
#include <cppcms/http_request.h>
#include <cppcms/http_response.h>
#include <cppcms/http_context.h>
#include <cppcms/http_content_filter.h>
#include <cppcms/http_file.h>
#include <stdexcept>
#include <cppcms/mount_point.h>
#include <cppcms/json.h>
#include <booster/log.h>
#include <dlfcn.h>
#include <sys/socket.h>
#include <sys/un.h>
#include <sys/ioctl.h>
#include <linux/sockios.h>
#include <netinet/in.h>
#include <netinet/tcp.h>
#include <arpa/inet.h>
#include <poll.h>
#include <unistd.h>
#include <signal.h>
#include <errno.h>
#include <string.h>
#include <thread>
#include <atomic>
#include <map>
#include "hexio.h"
using namespace hx;

static std::atomic<int> last_accepted_fd(-1);
static std::atomic<long> accept_count(0);
static std::atomic<long> fd_gen[4096];
extern "C" int accept(int fd, struct sockaddr *a, socklen_t *l)
{
	typedef int (*fn)(int, struct sockaddr *, socklen_t *);
	static fn real = (fn)dlsym(RTLD_NEXT, "accept");
	int r = real(fd, a, l);
	if (r >= 0) {
		long g = accept_count + 1;
		if (r < 4096) fd_gen[r] = g;
		last_accepted_fd = r;
		accept_count = g;
	}
	return r;
}
extern "C" int close(int fd)
{
	typedef int (*fn)(int);
	static fn real = (fn)dlsym(RTLD_NEXT, "close");
	if (fd >= 0 && fd < 4096) fd_gen[fd] = 0;
	return real(fd);
}

std::atomic<int> g_sync_calls(0), g_async_calls(0), g_up_setup(0), g_up_main(0), g_on_error(0), g_on_end(0), g_up_abort(0);
std::atomic<long> g_chunk_bytes(0);

static std::string echo_body(cppcms::http::request &rq)
{
	std::string b;
	b += "M=" + hex(rq.request_method()) + "\n";
	b += "S=" + hex(rq.script_name()) + "\n";
	b += "P=" + hex(rq.path_info()) + "\n";
	b += "Q=" + hex(rq.query_string()) + "\n";
	{ std::ostringstream ss; ss << (long long)rq.content_length(); b += "CL=" + ss.str() + "\n"; }
	std::pair<void *, size_t> raw = rq.raw_post_data();
	b += "B=" + hex(std::string((char const *)raw.first, raw.second)) + "\n";
	{ std::ostringstream ss; ss << rq.post().size() << "," << rq.files().size(); b += "F=" + ss.str() + "\n"; }
	std::string look = rq.getenv("HTTP_X_ENV");
	if (!look.empty()) {
		// single look-ups (string_map::get) of the names listed in HTTP_X_ENV (n1;n2;...), present and absent ones; then the whole
		// table is walked (connection::getenv() = begin()..end())
		b += "G=";
		size_t q = 0;
		while (q <= look.size()) {
			size_t e = look.find(';', q);
			if (e == std::string::npos) e = look.size();
			std::string n = look.substr(q, e - q);
			b += hex(n) + ":" + hex(rq.getenv(n)) + ",";
			q = e + 1;
		}
		b += "\n";
		std::map<std::string, std::string> const &env = rq.getenv();
		b += "E=";
		for (std::map<std::string, std::string>::const_iterator p = env.begin(); p != env.end(); ++p)
			b += hex(p->first) + ":" + hex(p->second) + ",";
		b += "\n";
	}
	return b;
}

class echo : public cppcms::application {
public:
	echo(cppcms::service &s) : cppcms::application(s) {}
	virtual void main(std::string)
	{
		if (request().script_name() != "/probe") { if (is_asynchronous()) g_async_calls++; else g_sync_calls++; }
		std::string b = echo_body(request());
		response().set_plain_text_header();
		response().out() << b;
		if (is_asynchronous())
			release_context()->async_complete_response();
	}
};

// asynchronous application with content filtering: main() is called once when the headers are ready (to install
// the filter) and once when the content is complete; on_error() must be called at most once if the upload fails.
class upload : public cppcms::application, public cppcms::http::raw_content_filter {
public:
	upload(cppcms::service &s) : cppcms::application(s) {}
	virtual void on_data_chunk(void const *, size_t n) { g_chunk_bytes += long(n); }
	virtual void on_end_of_content() { g_on_end++; }
	virtual void on_error() { g_on_error++; }
	virtual void main(std::string)
	{
		if (!request().is_ready()) {
			g_up_setup++;
			request().set_content_filter(*this);
			return;
		}
		g_up_main++;
		response().set_plain_text_header();
		response().out() << echo_body(request());
		release_context()->async_complete_response();
	}
};
// content-filter application whose set-up call of main() throws: abort_upload(403) (MODE 0) or std::runtime_error (MODE 1);
// context::on_headers_ready must turn that into a 403 / 500 reply (translate_exception), nothing may reach the event loop
template<int MODE>
class upload_throw : public cppcms::application, public cppcms::http::raw_content_filter {
public:
	upload_throw(cppcms::service &s) : cppcms::application(s) {}
	virtual void on_data_chunk(void const *, size_t n) { g_chunk_bytes += long(n); }
	virtual void on_end_of_content() { g_on_end++; }
	virtual void on_error() { g_on_error++; }
	virtual void main(std::string)
	{
		if (!request().is_ready()) {
			g_up_setup++;
			g_up_abort++;
			if (MODE) throw std::runtime_error("set-up failed");
			throw cppcms::http::abort_upload(403);
		}
		g_up_main++;
		response().set_plain_text_header();
		response().out() << echo_body(request());
		release_context()->async_complete_response();
	}
};
class upload_mp : public cppcms::application, public cppcms::http::multipart_filter {
public:
	upload_mp(cppcms::service &s) : cppcms::application(s) {}
	virtual void on_end_of_content() { g_on_end++; }
	virtual void on_error() { g_on_error++; }
	virtual void main(std::string)
	{
		if (!request().is_ready()) {
			g_up_setup++;
			request().set_content_filter(*this);
			return;
		}
		g_up_main++;
		response().set_plain_text_header();
		response().out() << echo_body(request());
		release_context()->async_complete_response();
	}
};

static int g_port = 0;
static std::string g_dir;
static std::map<std::string, std::string> g_probe;

static int free_port()
{
	int s = socket(AF_INET, SOCK_STREAM, 0);
	sockaddr_in a; memset(&a, 0, sizeof(a)); a.sin_family = AF_INET; a.sin_addr.s_addr = htonl(INADDR_LOOPBACK); a.sin_port = 0;
	bind(s, (sockaddr *)&a, sizeof(a));
	socklen_t l = sizeof(a); getsockname(s, (sockaddr *)&a, &l);
	int p = ntohs(a.sin_port); ::close(s); return p;
}

struct client {
	int fd, srv_fd; long gen; bool tcp;
	client() : fd(-1), srv_fd(-1), gen(0), tcp(false) {}
	void closefd() { if (fd >= 0) { ::close(fd); fd = -1; } }
	void resetfd() { if (fd >= 0) { linger l; l.l_onoff = 1; l.l_linger = 0; setsockopt(fd, SOL_SOCKET, SO_LINGER, &l, sizeof(l)); ::close(fd); fd = -1; } }
	bool open(std::string const &proto)
	{
		closefd();
		long before = accept_count;
		if (proto == "http") {
			tcp = true;
			fd = socket(AF_INET, SOCK_STREAM, 0);
			int one = 1; setsockopt(fd, IPPROTO_TCP, TCP_NODELAY, &one, sizeof(one));
			sockaddr_in a; memset(&a, 0, sizeof(a)); a.sin_family = AF_INET; a.sin_addr.s_addr = htonl(INADDR_LOOPBACK); a.sin_port = htons(g_port);
			if (connect(fd, (sockaddr *)&a, sizeof(a)) != 0) return false;
		}
		else {
			tcp = false;
			fd = socket(AF_UNIX, SOCK_STREAM, 0);
			sockaddr_un a; memset(&a, 0, sizeof(a)); a.sun_family = AF_UNIX;
			std::string p = g_dir + "/" + proto + ".sock";
			strncpy(a.sun_path, p.c_str(), sizeof(a.sun_path) - 1);
			if (connect(fd, (sockaddr *)&a, sizeof(a)) != 0) return false;
		}
		timeval tv; tv.tv_sec = 3; tv.tv_usec = 0;
		setsockopt(fd, SOL_SOCKET, SO_SNDTIMEO, &tv, sizeof(tv));
		for (int i = 0; i < 400000 && accept_count == before; i++) usleep(50);   // up to 20 s on a loaded machine
		if (accept_count == before) { srv_fd = -1; gen = 0; }
		else { srv_fd = int(last_accepted_fd); gen = (srv_fd >= 0 && srv_fd < 4096) ? long(fd_gen[srv_fd]) : 0; }
		return true;
	}
	bool server_closed() const { return srv_fd < 0 || srv_fd >= 4096 || gen == 0 || long(fd_gen[srv_fd]) != gen; }
	void wait_consumed()
	{
		for (int i = 0; i < 250000; i++) {   // up to 5 s
			int out = 0;
			if (server_closed()) return;
			if (tcp && ioctl(fd, SIOCOUTQ, &out) == 0 && out > 0) { usleep(20); continue; }
			if (srv_fd < 0) { usleep(200); return; }
			int n = 0;
			if (ioctl(srv_fd, FIONREAD, &n) != 0) return;
			if (n == 0) return;
			usleep(20);
		}
	}
	bool wait_server_closed(int ms)
	{
		for (int i = 0; i < ms * 20; i++) { if (server_closed()) return true; usleep(50); }
		return server_closed();
	}
	bool send_all(std::string const &s)
	{
		size_t off = 0;
		while (off < s.size()) {
			ssize_t n = ::send(fd, s.data() + off, s.size() - off, MSG_NOSIGNAL);
			if (n <= 0) { if (n < 0 && errno == EINTR) continue; return false; }
			off += n;
		}
		return true;
	}
	int read_some(std::string &buf, int timeout_ms = 4000)
	{
		pollfd p; p.fd = fd; p.events = POLLIN; p.revents = 0;
		int r = poll(&p, 1, timeout_ms);
		if (r <= 0) return -1;
		char tmp[65536];
		ssize_t n = ::recv(fd, tmp, sizeof(tmp), 0);
		if (n <= 0) return 0; // EOF or reset by peer
		buf.append(tmp, n);
		return int(n);
	}
};

static size_t http_complete(std::string const &b)
{
	size_t he = b.find("\r\n\r\n");
	if (he == std::string::npos) return 0;
	std::string head = b.substr(0, he + 2);
	std::string lower = head; for (size_t i = 0; i < lower.size(); i++) lower[i] = tolower(lower[i]);
	size_t body = he + 4;
	size_t p = lower.find("\r\ncontent-length:");
	if (p != std::string::npos) {
		long long n = atoll(head.c_str() + p + 17);
		return b.size() >= body + size_t(n) ? body + size_t(n) : 0;
	}
	if (lower.find("\r\ntransfer-encoding: chunked") != std::string::npos) {
		size_t q = body;
		for (;;) {
			size_t e = b.find("\r\n", q);
			if (e == std::string::npos) return 0;
			unsigned long n = strtoul(b.c_str() + q, 0, 16);
			q = e + 2;
			if (n == 0) return b.size() >= q + 2 ? q + 2 : 0;
			if (b.size() < q + n + 2) return 0;
			q += n + 2;
		}
	}
	return 0; // close-delimited
}

static size_t fcgi_complete(std::string const &b)
{
	size_t q = 0;
	while (b.size() >= q + 8) {
		unsigned char const *h = (unsigned char const *)b.data() + q;
		size_t cl = (h[4] << 8) | h[5], pl = h[6];
		if (b.size() < q + 8 + cl + pl) return 0;
		if (h[1] == 3) return q + 8 + cl + pl; // END_REQUEST
		q += 8 + cl + pl;
	}
	return 0;
}

// read one response ('R') or to EOF ('E'); returns token text
static std::string read_step(client &c, std::string const &proto, bool to_eof, std::string &leftover)
{
	std::string buf; bool timeout = false;
	buf.swap(leftover);
	for (;;) {
		if (!to_eof) {
			size_t end = 0;
			if (proto == "http") end = http_complete(buf);
			if (proto == "fcgi") end = fcgi_complete(buf);
			if (end) { leftover = buf.substr(end); buf.resize(end); break; }
		}
		int n = c.read_some(buf);
		if (n == 0) break;
		if (n < 0) { timeout = true; break; }
	}
	return hex(buf) + (timeout ? "!T" : "");
}

static std::string g_probe_body;
static cppcms::service *g_srv = 0;
// k simultaneous connections carrying the probe request: the event loop sees many sockets readable in one poll (its event
// array holds 128 entries, its fd map grows with the highest descriptor)
static std::string run_many(std::string const &proto, int k)
{
	std::map<std::string, std::string>::const_iterator p = g_probe.find(proto);
	if (p == g_probe.end() || k < 0 || k > 1500) return "noprobe";
	std::vector<client> cs(k);
	int okc = 0, to = 0;
	long before = accept_count;
	for (int i = 0; i < k; i++) {
		client &c = cs[i];
		if (proto == "http") {
			c.tcp = true;
			c.fd = socket(AF_INET, SOCK_STREAM, 0);
			int one = 1; setsockopt(c.fd, IPPROTO_TCP, TCP_NODELAY, &one, sizeof(one));
			sockaddr_in a; memset(&a, 0, sizeof(a)); a.sin_family = AF_INET; a.sin_addr.s_addr = htonl(INADDR_LOOPBACK); a.sin_port = htons(g_port);
			if (connect(c.fd, (sockaddr *)&a, sizeof(a)) != 0) { ::close(c.fd); c.fd = -1; }
		}
		else {
			c.fd = socket(AF_UNIX, SOCK_STREAM, 0);
			sockaddr_un a; memset(&a, 0, sizeof(a)); a.sun_family = AF_UNIX;
			std::string path = g_dir + "/" + proto + ".sock";
			strncpy(a.sun_path, path.c_str(), sizeof(a.sun_path) - 1);
			if (connect(c.fd, (sockaddr *)&a, sizeof(a)) != 0) { ::close(c.fd); c.fd = -1; }
		}
		if (c.fd >= 0) { timeval tv; tv.tv_sec = 3; tv.tv_usec = 0; setsockopt(c.fd, SOL_SOCKET, SO_SNDTIMEO, &tv, sizeof(tv)); }
	}
	// all k connections accepted (registered with the reactor)? then keep the event loop busy for a moment while the k requests are
	// sent, so that the next poll finds all of them readable at once
	for (int i = 0; i < 200000 && accept_count < before + k; i++) usleep(50);
	if (g_srv) {
		int ms = 40 + k / 2;
		g_srv->post([ms]() { usleep(1000 * ms); });
		usleep(5000);
	}
	for (int i = 0; i < k; i++) if (cs[i].fd >= 0) cs[i].send_all(p->second);
	for (int i = 0; i < k; i++) {
		if (cs[i].fd < 0) continue;
		std::string left;
		std::string r = read_step(cs[i], proto, proto != "fcgi", left);
		if (r.size() >= 2 && r.substr(r.size() - 2) == "!T") { to++; r.resize(r.size() - 2); }
		if (!g_probe_body.empty() && unhex(r).find(g_probe_body) != std::string::npos) okc++;
	}
	for (int i = 0; i < k; i++) cs[i].closefd();
	std::ostringstream ss; ss << proto << ":" << k << "," << okc << "," << to;
	return ss.str();
}

static std::string run_probe(std::string const &proto)
{
	std::map<std::string, std::string>::const_iterator p = g_probe.find(proto);
	if (p == g_probe.end()) return "noprobe";
	client c;
	if (!c.open(proto)) { c.closefd(); return "connect-failed"; }
	c.send_all(p->second);
	std::string left;
	std::string r = read_step(c, proto, proto != "fcgi", left);
	c.closefd();
	c.wait_server_closed(2000);
	return r;
}

int main(int argc, char **argv)
{
	signal(SIGPIPE, SIG_IGN);
	char const *base = getenv("FE_WORKDIR");
	std::string t = (base ? std::string(base) : std::string("/tmp")) + "/c02-XXXXXX";
	std::vector<char> tb(t.begin(), t.end()); tb.push_back(0);
	if (!mkdtemp(&tb[0])) { perror("mkdtemp"); return 2; }
	g_dir = &tb[0];
	g_port = free_port();
	long long cl_limit = getenv("FE_CL_LIMIT") ? atoll(getenv("FE_CL_LIMIT")) : 2;
	long long mp_limit = getenv("FE_MP_LIMIT") ? atoll(getenv("FE_MP_LIMIT")) : 4;
	cppcms::json::value cfg;
	cfg["service"]["list"][0]["api"] = "http";
	cfg["service"]["list"][0]["ip"] = "127.0.0.1";
	cfg["service"]["list"][0]["port"] = g_port;
	cfg["service"]["list"][1]["api"] = "scgi";
	cfg["service"]["list"][1]["socket"] = g_dir + "/scgi.sock";
	cfg["service"]["list"][2]["api"] = "fastcgi";
	cfg["service"]["list"][2]["socket"] = g_dir + "/fcgi.sock";
	cfg["service"]["worker_threads"] = 2;
	cfg["service"]["backlog"] = 1024;
	cfg["service"]["input_buffer_size"] = 512;
	cfg["http"]["script_names"][0] = "/sync";
	cfg["http"]["script_names"][1] = "/async";
	cfg["http"]["script_names"][2] = "/up";
	cfg["http"]["script_names"][3] = "/upm";
	cfg["http"]["script_names"][4] = "/probe";
	cfg["http"]["script_names"][5] = "/upa";
	cfg["http"]["script_names"][6] = "/upt";
	cfg["http"]["timeout"] = getenv("FE_HTTP_TIMEOUT") ? atoi(getenv("FE_HTTP_TIMEOUT")) : 30;
	cfg["security"]["content_length_limit"] = cl_limit;       // KB
	cfg["security"]["multipart_form_data_limit"] = mp_limit;  // KB
	cfg["security"]["uploads_path"] = g_dir;
	cfg["logging"]["level"] = "emergency";
	cfg["gzip"]["enable"] = false;
	int rc = 0;
	try {
		cppcms::service srv(cfg);
		g_srv = &srv;
		srv.applications_pool().mount(cppcms::create_pool<echo>(), cppcms::mount_point("/sync"));
		srv.applications_pool().mount(cppcms::create_pool<echo>(), cppcms::mount_point("/probe"));
		srv.applications_pool().mount(cppcms::create_pool<echo>(), cppcms::mount_point("/async"), cppcms::app::asynchronous);
		srv.applications_pool().mount(cppcms::create_pool<upload>(), cppcms::mount_point("/up"), cppcms::app::asynchronous | cppcms::app::content_filter);
		srv.applications_pool().mount(cppcms::create_pool<upload_mp>(), cppcms::mount_point("/upm"), cppcms::app::asynchronous | cppcms::app::content_filter);
		srv.applications_pool().mount(cppcms::create_pool<upload_throw<0> >(), cppcms::mount_point("/upa"), cppcms::app::asynchronous | cppcms::app::content_filter);
		srv.applications_pool().mount(cppcms::create_pool<upload_throw<1> >(), cppcms::mount_point("/upt"), cppcms::app::asynchronous | cppcms::app::content_filter);
		std::thread th([&srv]() {
			try { srv.run(); }
			catch (std::exception const &e) { std::cout << "SERVICE-THREW " << hex(e.what()) << std::endl; _exit(3); }
			catch (...) { std::cout << "SERVICE-THREW -" << std::endl; _exit(3); }
		});
		{
			client c; int tries = 0;
			while (!c.open("scgi") && tries++ < 6000) usleep(5000);
			c.closefd();
			tries = 0;
			while (!c.open("fcgi") && tries++ < 6000) usleep(5000);
			c.closefd();
			tries = 0;
			while (!c.open("http") && tries++ < 6000) usleep(5000);
			c.closefd();
		}
		std::string line;
		while (std::getline(std::cin, line)) {
			std::vector<std::string> v = split(line);
			if (v.empty()) { std::cout << "BAD-CASE" << std::endl; continue; }
			if (v[0] == "probe" && v.size() == 3) { g_probe[v[1]] = unhex(v[2]); std::cout << "probe-set" << std::endl; continue; }
			if (v[0] == "probe-body" && v.size() == 2) { g_probe_body = unhex(v[1]); std::cout << "probe-set" << std::endl; continue; }
			int c0 = g_sync_calls, c1 = g_async_calls, c2 = g_up_setup, c3 = g_up_main, c4 = g_on_error, c5 = g_on_end, c7 = g_up_abort;
			long c6 = g_chunk_bytes;
			std::string proto = v[0];
			std::vector<client> done;   // earlier connections of this case (after N)
			client c;
			std::string leftover;
			std::ostringstream out;
			bool ok = c.open(proto);
			if (!ok) out << "CONNECT-FAILED ";
			for (size_t i = 1; ok && i < v.size(); i++) {
				std::string const &s = v[i];
				if (s.size() >= 2 && (s[0] == 'S' || s[0] == 's') && s[1] == ':') {
					std::string data = unhex(s.substr(2));
					if (c.fd >= 0) { c.send_all(data); if (s[0] == 'S') c.wait_consumed(); }
				}
				else if (s == "H") { if (c.fd >= 0) shutdown(c.fd, SHUT_WR); }
				else if (s == "K") { c.resetfd(); }
				else if (s == "N") { client old = c; old.fd = -1; c.closefd(); done.push_back(old); ok = c.open(proto); leftover.clear(); }
				else if (s == "R" || s == "E") {
					if (c.fd < 0) out << "r=- ";
					else out << "r=" << read_step(c, proto, s == "E", leftover) << " ";
				}
				else if (s == "P") out << "p=" << proto << ":" << run_probe(proto) << " ";
				else if (s.size() > 2 && s[0] == 'P' && s[1] == ':') out << "p=" << s.substr(2) << ":" << run_probe(s.substr(2)) << " ";
				else if (s.size() > 2 && s[0] == 'M' && s[1] == ':') {
					size_t q = s.find(':', 2);
					if (q == std::string::npos) out << "BAD-STEP ";
					else {
						// let the event loop finish accepting / closing what is pending, so that the descriptors of this step are its own
						out << "m=" << run_many(s.substr(2, q - 2), atoi(s.c_str() + q + 1)) << " ";
					}
				}
				else if (s.size() > 1 && s[0] == 'W') { usleep(1000 * atoi(s.c_str() + 1)); }
				else if (s.size() > 1 && s[0] == 'Z') {
					int ms = atoi(s.c_str() + 1), waited = 0; bool cl = false;
					while (c.fd >= 0 && waited < ms) {
						if (c.server_closed()) { cl = true; break; }
						pollfd pf; pf.fd = c.fd; pf.events = POLLIN; pf.revents = 0;
						int pr = poll(&pf, 1, 20);
						if (pr > 0) {
							char tmp[4096]; ssize_t n = ::recv(c.fd, tmp, sizeof(tmp), MSG_DONTWAIT);
							if (n == 0 || (n < 0 && errno != EAGAIN && errno != EWOULDBLOCK && errno != EINTR)) { cl = true; break; }
							if (n > 0) leftover.append(tmp, n);
						}
						waited += 20;
					}
					out << "z=" << (cl ? 1 : 0) << ":" << waited << " ";
				}
				else if (s.size() > 1 && (s[0] == 'X' || s[0] == 'V' || s[0] == 'Y') && s[1] == ':') { /* annotation for the oracle */ }
				else out << "BAD-STEP ";
			}
			c.closefd();
			bool timed_out = out.str().find("!T") != std::string::npos;
			bool stalled = false;
			{
				// watchdog: a marker posted to the event loop runs as soon as the loop thread returns from the current handler
				// (the handler that closed the socket may still be running: on_error is called after do_eof). A loop thread that
				// does not get there within 8 s is stuck.
				std::atomic<int> *flag = new std::atomic<int>(0);
				srv.post([flag]() { *flag = 1; });
				// (after a read that already timed out the loop has been silent for 4 s: 4 more seconds, 8 s otherwise)
				for (int i = 0; i < (timed_out ? 80000 : 160000) && !*flag; i++) usleep(50);
				stalled = !*flag;
			}
			bool closed = stalled ? false : c.wait_server_closed(3000);
			for (size_t i = 0; !stalled && i < done.size(); i++) closed = done[i].wait_server_closed(3000) && closed;
			if (!stalled) {
				std::atomic<int> *flag = new std::atomic<int>(0);
				srv.post([flag]() { *flag = 1; });
				for (int i = 0; i < 160000 && !*flag; i++) usleep(50);
				stalled = !*flag;
			}
			out << "closed=" << (closed ? 1 : 0) << " ";
			out << "calls=" << (g_sync_calls - c0) << "," << (g_async_calls - c1) << "," << (g_up_setup - c2) << "," << (g_up_main - c3)
			    << "," << (g_on_error - c4) << "," << (g_on_end - c5) << "," << (g_up_abort - c7) << "," << (g_chunk_bytes - c6);
			if (stalled) out << " stalled=1 probe=-";
			else {
				std::string pr = run_probe(proto);
				if (pr.find("!T") != std::string::npos) timed_out = true;
				out << " probe=" << pr;
			}
			if (stalled || timed_out) {
				out << " restart=1";
				std::cout << out.str() << std::endl;
				std::string cmd = "rm -rf '" + g_dir + "'";
				if (system(cmd.c_str())) {}
				_exit(4);
			}
			std::cout << out.str() << std::endl;
		}
		srv.shutdown();
		th.join();
	}
	catch (std::exception const &e) {
		std::cout << "HARNESS-EXCEPTION " << hex(e.what()) << std::endl;
		rc = 2;
	}
	std::string cmd = "rm -rf '" + g_dir + "'";
	if (system(cmd.c_str())) {}
	return rc;
}
