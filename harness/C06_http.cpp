// C06 correspondence / oracle harness, production path: the same histories as harness/C06_sessions.cpp, but every request
// is a real HTTP request to an in-process cppcms::service; the session is the automatically loaded and saved
// cppcms::session_interface(http::context&) of the application: cookies arrive in a `Cookie:` header
// (http::request::parse_cookies), leave in `Set-Cookie:` headers (http::cookie::write), update_exposed takes the cookie
// names from the request, load()/save() are called by http::context::dispatch / http::response.
// The jar applies the Set-Cookie headers in order (Max-Age=0 deletes, Max-Age=n expires at now+n, none: session cookie).
// Case grammar and output: see C06_sessions.cpp.  Cases must use cookie-safe keys and attacker strings (token characters)
// and must not raise exceptions in load()/save() (no P steps, no oversized keys, no on_server with client storage).
#include "C06_common.h"
#include <cppcms/service.h>
#include <cppcms/application.h>
#include <cppcms/applications_pool.h>
#include <cppcms/http_request.h>
#include <cppcms/http_response.h>
#include <cppcms/http_context.h>
#include <cppcms/mount_point.h>
#include <thread>
#include <poll.h>
#include <signal.h>

static std::string g_obs;      // what the application observed (same process)
static std::string g_ops;      // script of the current request
static std::string g_probe;    // token of the last start-up probe seen by OUR application

class sess_app : public cppcms::application {
public:
	sess_app(cppcms::service &s) : cppcms::application(s) {}
	virtual void main(std::string /*url*/)
	{
		std::string probe = request().getenv("HTTP_X_PROBE");
		if(!probe.empty()) { g_probe = probe; response().out() << "probe"; return; }
		// the session has been loaded by http::context::dispatch
		std::vector<std::string> ops = hx::split(g_ops);
		std::string exc;
		try {
			// load() was called by the framework; without planted records a loaded session is never empty
			bool ld = !session().key_set().empty() || session().is_set("_t") || session().is_set("_h") || session().is_set("_s");
			g_obs = observe(session(),ld);
			apply_ops(session(),ops);
		}
		catch(cppcms_error const &e) { exc = " EXC:cppcms"; }
		catch(std::exception const &e) { exc = " EXC:std"; }
		g_obs += exc;
		response().out() << "ok";     // first output: http::response saves the session and writes the headers
	}
};

static std::unique_ptr<cppcms::service> g_srv;
static std::unique_ptr<std::thread> g_thread;
static int g_port = 0;

static int connect_port(int port)
{
	int fd = socket(AF_INET,SOCK_STREAM,0);
	struct sockaddr_in a; memset(&a,0,sizeof(a));
	a.sin_family = AF_INET; a.sin_addr.s_addr = htonl(INADDR_LOOPBACK); a.sin_port = htons(port);
	if(connect(fd,(struct sockaddr *)&a,sizeof(a)) != 0) { close(fd); return -1; }
	return fd;
}

static volatile int g_failed = 0;

static void backend_start(json::value &v,std::string const &loc)
{
	v["service"]["api"] = "http";
	v["service"]["ip"] = "127.0.0.1";
	v["service"]["worker_threads"] = 1;
	v["service"]["disable_global_exit_handling"] = true;
	v["http"]["script_names"][0] = "/s";
	v["http"]["timeout"] = 30;
	v["logging"]["level"] = "emergency";
	v["gzip"]["enable"] = false;
	// Ports: a per-process sequence outside the ephemeral range.  The service binds the port itself, so another process may
	// own it already: then run() throws (g_failed).  To be sure that the service we talk to is OURS (and that it reached its
	// event loop: service::shutdown() exit(1)s when called earlier) a probe request must come back through our application.
	static int counter = 0;
	for(int attempt=0;attempt<40;attempt++) {
		g_port = 10000 + (int)(((long long)getpid() * 131 + (long long)(counter++) * 7) % 20000);
		v["service"]["port"] = g_port;
		g_failed = 0;
		g_srv.reset(new cppcms::service(v));
		if(loc!="C") {
			std::unique_ptr<sessions::session_storage_factory> lf(new LogFactory(W->inner));
			g_srv->session_pool().storage(std::move(lf));
		}
		g_srv->applications_pool().mount(cppcms::create_pool<sess_app>(),cppcms::mount_point("/s"));
		cppcms::service *srv = g_srv.get();
		g_thread.reset(new std::thread([srv]() { try { srv->run(); } catch(std::exception const &e) { g_failed = 1; } }));
		std::ostringstream tk; tk << getpid() << "-" << counter;
		std::string token = tk.str();
		bool ours = false;
		for(int tries=0;tries<3000 && !g_failed && !ours;tries++) {
			int fd = connect_port(g_port);
			if(fd < 0) { usleep(2000); continue; }
			std::string probe = "GET /s HTTP/1.0\r\nHost: localhost\r\nX-Probe: " + token + "\r\n\r\n";
			g_probe.clear();
			if(write(fd,probe.data(),probe.size()) > 0) {
				for(;;) {
					struct pollfd pf; pf.fd = fd; pf.events = POLLIN; pf.revents = 0;
					char buf[512];
					if(poll(&pf,1,10000) <= 0) break;
					if(read(fd,buf,sizeof(buf)) <= 0) break;
				}
			}
			close(fd);
			if(g_probe == token) ours = true;
			else usleep(5000);      // somebody else's service answered (or nobody): ours is about to fail to bind, or still starting
		}
		if(ours && !g_failed) return;
		if(!g_failed) throw std::runtime_error("service neither failed nor answered its probe");
		g_thread->join();
		g_thread.reset();
		g_srv.reset();
	}
	throw std::runtime_error("service did not start");
}

static void backend_stop()
{
	if(g_srv.get()) {
		g_srv->shutdown();
		if(g_thread.get()) g_thread->join();
		g_thread.reset();
		g_srv.reset();
	}
}

static bool cookie_safe(std::string const &s)
{
	for(size_t i=0;i<s.size();i++) {
		unsigned char c = s[i];
		if(!(isalnum(c) || c=='-' || c=='_' || c=='.' || c=='%' || c=='~')) return false;
	}
	return !s.empty();
}

static std::string unquote(std::string v)
{
	if(v.size()>=2 && v[0]=='"' && v[v.size()-1]=='"') {
		std::string r;
		for(size_t i=1;i+1<v.size();i++) { if(v[i]=='\\' && i+2<v.size()) i++; r += v[i]; }
		return r;
	}
	return v;
}

static std::string backend_request(int b,std::vector<std::string> const &ops)
{
	std::map<std::string,JarEntry> &jar = W->jars[b];
	std::string cookie_hdr;
	for(std::map<std::string,JarEntry>::iterator p=jar.begin();p!=jar.end();++p) {
		if(!cookie_safe(p->first) || !cookie_safe(p->second.value)) return " UNSAFE-COOKIE";
		if(!cookie_hdr.empty()) cookie_hdr += "; ";
		cookie_hdr += p->first + "=" + p->second.value;
	}
	g_ops.clear();
	for(size_t i=0;i<ops.size();i++) { if(i) g_ops += " "; g_ops += ops[i]; }
	g_obs = " NO-OBS";
	std::string req = "GET /s HTTP/1.0\r\nHost: localhost\r\n";
	if(!cookie_hdr.empty()) req += "Cookie: " + cookie_hdr + "\r\n";
	req += "\r\n";
	int fd = connect_port(g_port);
	if(fd < 0) return " CONNECT-FAILED";
	size_t off = 0;
	while(off < req.size()) { ssize_t n = write(fd,req.data()+off,req.size()-off); if(n <= 0) break; off += n; }
	std::string resp;
	for(;;) {
		struct pollfd pf; pf.fd = fd; pf.events = POLLIN; pf.revents = 0;
		if(poll(&pf,1,20000) <= 0) { close(fd); return " HTTP-TIMEOUT"; }
		char buf[4096];
		ssize_t n = read(fd,buf,sizeof(buf));
		if(n <= 0) break;
		resp.append(buf,n);
	}
	close(fd);
	size_t he = resp.find("\r\n\r\n");
	if(he == std::string::npos || resp.compare(0,5,"HTTP/") != 0) return " BAD-HTTP-RESPONSE";
	std::string status = resp.substr(9,3);
	// apply the Set-Cookie headers in order
	size_t pos = resp.find("\r\n");
	while(pos != std::string::npos && pos < he) {
		size_t nx = resp.find("\r\n",pos+2);
		std::string line = resp.substr(pos+2,nx-pos-2);
		pos = nx;
		if(line.size() < 11 || strncasecmp(line.c_str(),"Set-Cookie:",11) != 0) continue;
		std::string rest = line.substr(11);
		// name=value; attr; attr (a quoted value may contain ';')
		size_t eq = rest.find('=');
		if(eq == std::string::npos) continue;
		std::string name = rest.substr(0,eq);
		while(!name.empty() && name[0]==' ') name.erase(0,1);
		size_t vend;
		if(eq+1 < rest.size() && rest[eq+1]=='"') {
			vend = eq+2;
			while(vend < rest.size() && rest[vend] != '"') { if(rest[vend]=='\\') vend++; vend++; }
			vend++;
		}
		else {
			vend = rest.find(';',eq+1);
			if(vend == std::string::npos) vend = rest.size();
		}
		std::string value = unquote(rest.substr(eq+1,vend-eq-1));
		std::string attrs = vend < rest.size() ? rest.substr(vend) : std::string();
		JarEntry e; e.value = value; e.authentic = true; e.session = true;
		bool del = false;
		size_t ma = attrs.find("Max-Age=");
		if(ma != std::string::npos) {
			long long age = atoll(attrs.c_str()+ma+8);
			if(age == 0) del = true; else { e.session = false; e.exp = (long long)g_now + age; }
		}
		if(del) { note_deletion(name); jar.erase(name); continue; }
		jar[name] = e;
		if(name == PREFIX) {
			bool seen = false;
			for(size_t i=0;i<W->hist.size();i++) if(W->hist[i].value == e.value) seen = true;
			if(!seen) W->hist.push_back(e);
		}
	}
	if(status != "200") return g_obs + " HTTP-" + status;
	return g_obs;
}

int main()
{
	signal(SIGPIPE,SIG_IGN);
	std::string line;
	int serial = 0;
	while(std::getline(std::cin,line)) {
		std::vector<std::string> tok = hx::split(line);
		std::string r;
		if(tok.empty() || tok[0]!="hist") r = "BAD-CASE";
		else r = run_case(tok,serial++);
		std::cout << r << "\n";
	}
	std::cout.flush();
	return 0;
}
