// C06: code shared by harness/C06_sessions.cpp (session_interface over a cookie adapter) and harness/C06_http.cpp
// (session_interface(http::context&) behind a real HTTP front end): virtual clock, cookie jars, logging storage decorator,
// canonical rendering, the history interpreter.  The including file provides backend_start / backend_request / backend_stop.
#pragma once
#include <cppcms/session_interface.h>
#include <cppcms/session_pool.h>
#include <cppcms/session_storage.h>
#include <cppcms/session_api.h>
#include <cppcms/http_cookie.h>
#include <cppcms/json.h>
#include <cppcms/util.h>
#include <cppcms/base64.h>
#include <cppcms/cppcms_error.h>
#include <booster/shared_ptr.h>
#include <booster/backtrace.h>
#include "session_memory_storage.h"
#include "session_posix_file_storage.h"
#include "session_tcp_storage.h"
#include "tcp_cache_server.h"
#include "hexio.h"
#include <map>
#include <set>
#include <vector>
#include <memory>
#include <sstream>
#include <time.h>
#include <stdlib.h>
#include <string.h>
#include <unistd.h>
#include <dirent.h>
#include <sys/stat.h>
#include <sys/socket.h>
#include <netinet/in.h>
#include <arpa/inet.h>

static time_t g_now = 1000000;
extern "C" time_t time(time_t *p) { if(p) *p = g_now; return g_now; }

using namespace cppcms;
typedef booster::shared_ptr<sessions::session_storage> storage_ptr;

static const char *PREFIX = "sc";

// long byte strings (values / blobs at the codec bounds: 2 MiB) are rendered as ~<length>~<crc32> on both sides
static std::string hexd(std::string const &v)
{
	if(v.size() <= 4096) return hx::hex(v);
	static uint32_t tab[256]; static bool init = false;
	if(!init) { for(uint32_t i=0;i<256;i++) { uint32_t c = i; for(int k=0;k<8;k++) c = (c & 1) ? (0xEDB88320u ^ (c >> 1)) : (c >> 1); tab[i] = c; } init = true; }
	uint32_t c = 0xFFFFFFFFu;
	for(size_t i=0;i<v.size();i++) c = tab[(c ^ (unsigned char)v[i]) & 0xFF] ^ (c >> 8);
	c ^= 0xFFFFFFFFu;
	std::ostringstream ss; ss << "~" << v.size() << "~" << c;
	return ss.str();
}

// pattern content for the bound cases: the first n bytes of a 64-byte unit repeated; the unit is itself a well-formed sequence of
// three packed entries (role=admin, uid=0 exposed, p=<filler>), so that a length field that wraps makes load_data read forged keys
static std::string pattern(size_t n)
{
	static std::string unit;
	if(unit.empty()) {
		static const unsigned char h1[4] = {4,40,0,0}, h2[4] = {3,12,0,0}, h3[4] = {1,48,1,0};
		unit.append((char const *)h1,4); unit += "roleadmin";             // key_size 4, data_size 5
		unit.append((char const *)h2,4); unit += "uid0";                  // key_size 3, exposed, data_size 1
		unit.append((char const *)h3,4); unit += "p"; unit += std::string(38,'.');   // key_size 1, data_size 38
		if(unit.size() != 64) abort();
	}
	std::string r; r.reserve(n);
	while(r.size() + 64 <= n) r += unit;
	r += unit.substr(0,n - r.size());
	return r;
}

struct World;
static World *W = 0;

struct JarEntry {
	std::string value;   // as set by the server (url-encoded) or by the attacker (literal)
	bool session;        // no client-side expiry
	long long exp;       // absolute expiry otherwise
	bool authentic;      // produced by the implementation (possibly replayed verbatim)
	JarEntry() : session(true), exp(0), authentic(false) {}
};

struct World {
	std::unique_ptr<session_pool> pool;
	storage_ptr inner;
	std::vector<std::string> log;
	std::set<std::string> dels;      // keys of exposed-value cookies for which a deletion cookie (Max-Age=0) was emitted in this request
	std::vector<std::map<std::string,JarEntry> > jars;
	std::vector<JarEntry> hist;
	std::map<std::string,int> sidmap;
	std::vector<std::string> known_ids;    // issued + planted, in order
	std::set<std::string> attacker_strings;
	std::string render_id(std::string const &id)
	{
		std::map<std::string,int>::iterator p = sidmap.find(id);
		if(p != sidmap.end()) { std::ostringstream ss; ss << "#" << p->second; return ss.str(); }
		return "=" + hx::hex(id);
	}
	void issue(std::string const &id)
	{
		if(sidmap.find(id) != sidmap.end()) return;
		for(size_t i=0;i<known_ids.size();i++) if(known_ids[i]==id) return;   // planted literal id
		if(attacker_strings.count(id)) return;                                // attacker chosen id reached save: print raw
		int n = sidmap.size();
		sidmap[id] = n;
		known_ids.push_back(id);
	}
};

class LogStorage : public sessions::session_storage {
public:
	LogStorage(storage_ptr in) : in_(in) {}
	void save(std::string const &sid,time_t timeout,std::string const &in)
	{
		W->issue(sid);
		std::ostringstream ss; ss << "S:" << W->render_id(sid) << ":" << (long long)timeout << ":" << hexd(in);
		W->log.push_back(ss.str());
		in_->save(sid,timeout,in);
	}
	bool load(std::string const &sid,time_t &timeout,std::string &out)
	{
		bool r = in_->load(sid,timeout,out);
		W->log.push_back("L:" + W->render_id(sid) + ":" + (r ? "1" : "0"));
		return r;
	}
	void remove(std::string const &sid)
	{
		W->log.push_back("D:" + W->render_id(sid));
		in_->remove(sid);
	}
	bool is_blocking() { return in_->is_blocking(); }
private:
	storage_ptr in_;
};

class LogFactory : public sessions::session_storage_factory {
public:
	LogFactory(storage_ptr in) : st_(new LogStorage(in)) {}
	storage_ptr get() { return st_; }
	bool requires_gc() { return false; }
private:
	storage_ptr st_;
};

static void note_deletion(std::string const &name);

class Jar : public session_interface_cookie_adapter {
public:
	Jar(int b) : b_(b) {}
	void set_cookie(http::cookie const &c)
	{
		std::map<std::string,JarEntry> &jar = W->jars[b_];
		std::string name = c.name();
		JarEntry e;
		e.value = c.value();
		e.authentic = true;
		bool del = false;
		if(c.max_age_defined()) {
			if(c.max_age()==0) del = true;
			else { e.session = false; e.exp = (long long)g_now + c.max_age(); }
		}
		else if(c.expires_defined()) {
			if(c.expires() <= g_now) del = true;
			else { e.session = false; e.exp = c.expires(); }
		}
		else
			e.session = true;
		if(del) { note_deletion(name); jar.erase(name); return; }
		jar[name] = e;
		if(name == PREFIX) {
			bool seen = false;
			for(size_t i=0;i<W->hist.size();i++) if(W->hist[i].value == e.value) seen = true;
			if(!seen) W->hist.push_back(e);
		}
	}
	std::string get_session_cookie(std::string const &name)
	{
		std::map<std::string,JarEntry> &jar = W->jars[b_];
		std::map<std::string,JarEntry>::iterator p = jar.find(name);
		if(p == jar.end()) return std::string();
		// what the server sees is the url-decoded value (http::request does that); session cookies are invariant
		return p->second.authentic ? util::urldecode(p->second.value) : p->second.value;
	}
	std::set<std::string> get_cookie_names()
	{
		std::set<std::string> r;
		std::map<std::string,JarEntry> &jar = W->jars[b_];
		for(std::map<std::string,JarEntry>::iterator p=jar.begin();p!=jar.end();++p) r.insert(p->first);
		return r;
	}
private:
	int b_;
};

static std::string render_session_cookie(JarEntry const &e)
{
	std::string v = e.authentic ? util::urldecode(e.value) : e.value;
	if(v.size()==33 && v[0]=='I' && W->sidmap.count(v.substr(1)))
		return "I" + W->render_id(v.substr(1));
	if(e.authentic && !v.empty() && v[0]=='C') {
		std::string cipher;
		if(b64url::decode(v.substr(1),cipher) && cipher.size() >= 20 + 8) {
			std::string plain = cipher.substr(0,cipher.size()-20);   // hmac-sha1: message followed by a 20 byte MAC
			int64_t t; memcpy(&t,plain.data(),8);
			std::ostringstream ss; ss << "C:" << (long long)t << ":" << hexd(plain.substr(8));
			return ss.str();
		}
		return "C?";
	}
	return "raw:" + hx::hex(v);
}

static void note_deletion(std::string const &name)
{
	std::string pfx = std::string(PREFIX) + "_";
	if(name.compare(0,pfx.size(),pfx)==0) W->dels.insert(name.substr(pfx.size()));
}

static std::string render_jar(int b)
{
	std::map<std::string,JarEntry> &jar = W->jars[b];
	std::string out;
	std::string pfx = std::string(PREFIX) + "_";
	for(std::map<std::string,JarEntry>::iterator p=jar.begin();p!=jar.end();++p) {
		std::string item;
		if(p->first == PREFIX) item = "S=" + render_session_cookie(p->second);
		else if(p->first.compare(0,pfx.size(),pfx)==0)
			item = "x" + hx::hex(p->first.substr(pfx.size())) + "=" + hx::hex(p->second.authentic ? util::urldecode(p->second.value) : p->second.value);
		else item = "?" + hx::hex(p->first);
		std::ostringstream ss;
		if(p->second.session) ss << "@s"; else ss << "@" << p->second.exp;
		if(!out.empty()) out += ",";
		out += item + ss.str();
	}
	return out;
}

static void drop_expired(int b)
{
	std::map<std::string,JarEntry> &jar = W->jars[b];
	for(std::map<std::string,JarEntry>::iterator p=jar.begin();p!=jar.end();) {
		if(!p->second.session && (long long)g_now > p->second.exp) jar.erase(p++);
		else ++p;
	}
}

static std::string entry_str(session_interface &s,std::string const &k)
{
	return hx::hex(k) + ":" + (s.is_exposed(k) ? "1" : "0") + ":" + hexd(s.get(k));
}

static std::vector<std::string> splitc(std::string const &s,char c)
{
	std::vector<std::string> v; std::string cur;
	for(size_t i=0;i<s.size();i++) { if(s[i]==c) { v.push_back(cur); cur.clear(); } else cur+=s[i]; }
	v.push_back(cur);
	return v;
}


// what load() gave: " ld=.. d=[k:e:v,..] age=.. how=.. srv=.."
static std::string observe(session_interface &s,bool ld)
{
	std::ostringstream out;
	out << " ld=" << (ld ? 1 : 0) << " d=[";
	std::set<std::string> ks = s.key_set();
	bool first = true;
	for(std::set<std::string>::iterator p=ks.begin();p!=ks.end();++p) {
		if(!first) out << ","; first = false;
		out << entry_str(s,*p);
	}
	static const char *special[] = { "_csrf", "_h", "_s", "_t" };
	for(int i=0;i<4;i++) if(s.is_set(special[i])) {
		if(!first) out << ","; first = false;
		out << entry_str(s,special[i]);
	}
	out << "] age=" << s.age() << " how=" << s.expiration() << " srv=" << (s.on_server() ? 1 : 0);
	return out.str();
}

static bool apply_ops(session_interface &s,std::vector<std::string> const &ops)
{
	for(size_t i=0;i<ops.size();i++) {
		std::vector<std::string> a = splitc(ops[i],':');
		std::string const &o = a[0];
		if(o=="s") s.set(hx::unhex(a.at(1)),hx::unhex(a.at(2)));
		else if(o=="g") s.set(hx::unhex(a.at(1)),pattern(atol(a.at(2).c_str())));          // value = pattern of the given length
		else if(o=="gk") s.set(pattern(atol(a.at(1).c_str())),hx::unhex(a.at(2)));         // key = pattern of the given length
		else if(o=="gg") s.set(pattern(atol(a.at(1).c_str())),pattern(atol(a.at(2).c_str())));  // both
		else if(o=="e") s.erase(hx::unhex(a.at(1)));
		else if(o=="c") s.clear();
		else if(o=="x") s.expose(hx::unhex(a.at(1)));
		else if(o=="h") s.hide(hx::unhex(a.at(1)));
		else if(o=="a") s.age(atoi(a.at(1).c_str()));
		else if(o=="da") s.default_age();
		else if(o=="p") s.expiration(atoi(a.at(1).c_str()));
		else if(o=="dp") s.default_expiration();
		else if(o=="o") s.on_server(a.at(1)=="1");
		else if(o=="r") s.reset_session();
		else return false;
	}
	return true;
}

// ---- provided by the including harness ----
static void backend_start(json::value &config,std::string const &loc);     // W->inner is the real storage; install LogFactory, create pool / service
static std::string backend_request(int b,std::vector<std::string> const &ops); // " ld=.. d=[..] age=.. how=.. srv=.." [" EXC:class"]
static void backend_stop();

static std::string do_request(int b,std::vector<std::string> const &ops)
{
	std::ostringstream out;
	drop_expired(b);
	W->log.clear();
	W->dels.clear();
	out << "R" << backend_request(b,ops);
	out << " ops=[";
	for(size_t i=0;i<W->log.size();i++) { if(i) out << ","; out << W->log[i]; }
	out << "] jar=[" << render_jar(b) << "] del=[";
	{ bool f = true; for(std::set<std::string>::const_iterator p=W->dels.begin();p!=W->dels.end();++p) { if(!f) out << ","; f = false; out << hx::hex(*p); } }
	out << "] alive=[";
	bool first = true;
	for(size_t i=0;i<W->known_ids.size();i++) {
		time_t t = 0; std::string d;
		if(W->inner->load(W->known_ids[i],t,d)) {
			if(!first) out << ","; first = false;
			out << W->render_id(W->known_ids[i]) << ":" << (long long)t;
		}
	}
	out << "]";
	return out.str();
}

static std::string mutate(std::string v,std::string const &m)
{
	if(m=="flip") { if(!v.empty()) { size_t i = v.size()/2; v[i] = (v[i]=='a') ? 'b' : 'a'; } }
	else if(m=="trunc") { if(!v.empty()) v.erase(v.size()-1); }
	else if(m=="ext") v += "0";
	else if(m=="upper") { for(size_t i=1;i<v.size();i++) if(v[i]>='a' && v[i]<='z') v[i] = v[i]-32; }
	else if(m=="path") { if(v.size()>4) { v[1]='.'; v[2]='.'; v[3]='/'; } }
	return v;
}

static void rm_rf(std::string const &dir)
{
	DIR *d = opendir(dir.c_str());
	if(!d) return;
	struct dirent *de;
	while((de = readdir(d)) != 0) {
		std::string n = de->d_name;
		if(n=="." || n=="..") continue;
		unlink((dir + "/" + n).c_str());
	}
	closedir(d);
	rmdir(dir.c_str());
}

static int free_port()
{
	int fd = socket(AF_INET,SOCK_STREAM,0);
	struct sockaddr_in a; memset(&a,0,sizeof(a));
	a.sin_family = AF_INET; a.sin_addr.s_addr = htonl(INADDR_LOOPBACK); a.sin_port = 0;
	bind(fd,(struct sockaddr *)&a,sizeof(a));
	socklen_t l = sizeof(a);
	getsockname(fd,(struct sockaddr *)&a,&l);
	int p = ntohs(a.sin_port);
	close(fd);
	return p;
}

static std::string run_case(std::vector<std::string> const &tok,int serial)
{
	std::map<std::string,std::string> cfg;
	size_t i = 1;
	for(;i<tok.size() && tok[i]!="|";i++) {
		size_t e = tok[i].find('=');
		if(e==std::string::npos) return "BAD-CASE";
		cfg[tok[i].substr(0,e)] = tok[i].substr(e+1);
	}
	World world; W = &world;
	std::string loc = cfg["loc"], stor = cfg["stor"], exp = cfg["exp"];
	json::value v;
	v["session"]["location"] = loc=="S" ? "server" : loc=="C" ? "client" : "both";
	v["session"]["expire"] = exp=="F" ? "fixed" : exp=="R" ? "renew" : "browser";
	v["session"]["timeout"] = atoi(cfg["to"].c_str());
	v["session"]["client_size_limit"] = atoi(cfg["lim"].c_str());
	v["session"]["cookies"]["prefix"] = PREFIX;
	v["session"]["client"]["hmac"] = "sha1";
	v["session"]["client"]["hmac_key"] = "000102030405060708090a0b0c0d0e0f";
	v["session"]["server"]["storage"] = "memory";     // never consulted: the storage factory is installed before init()
	v["security"]["csrf"]["enable"] = false;
	std::string dir;
	std::unique_ptr<sessions::session_storage_factory> real;
	booster::shared_ptr<sessions::session_storage_factory> srv_mem;
	std::unique_ptr<cppcms::impl::tcp_cache_service> tcp_service;
	std::string result;
	try {
		if(stor=="M") real.reset(new sessions::session_memory_storage_factory());
		else if(stor=="F") {
			char const *base = getenv("C06_TMP");
			std::ostringstream ss; ss << (base ? base : "/tmp") << "/c06-" << getpid() << "-" << serial;
			dir = ss.str();
			rm_rf(dir);
			real.reset(new sessions::session_file_storage_factory(dir,2,1,false));
		}
		else if(stor=="N") {
			int port = free_port();
			srv_mem.reset(new sessions::session_memory_storage_factory());
			tcp_service.reset(new cppcms::impl::tcp_cache_service(0,srv_mem,1,"127.0.0.1",port));
			std::vector<std::string> ips(1,"127.0.0.1");
			std::vector<int> ports(1,port);
			real.reset(new sessions::tcp_factory(ips,ports));
		}
		else return "BAD-CASE";
		world.inner = real->get();
		g_now = 1000000;
		backend_start(v,loc);
		std::ostringstream out;
		out << "hist";
		while(i < tok.size()) {
			// tok[i]=="|"
			size_t j = i+1;
			std::vector<std::string> st;
			for(;j<tok.size() && tok[j]!="|";j++) st.push_back(tok[j]);
			i = j;
			if(st.empty()) continue;
			out << " | ";
			if(st[0]=="T") { g_now += atoll(st.at(1).c_str()); out << "T"; }
			else if(st[0]=="R") {
				int b = atoi(st.at(1).c_str());
				if(b >= (int)world.jars.size()) world.jars.resize(b+1);
				std::vector<std::string> ops(st.begin()+2,st.end());
				out << do_request(b,ops);
			}
			else if(st[0]=="A") {
				int b = atoi(st.at(1).c_str());
				if(b >= (int)world.jars.size()) world.jars.resize(b+1);
				JarEntry e;
				bool have = true;
				if(st.at(2)=="raw") { e.value = hx::unhex(st.at(3)); e.authentic = false; world.attacker_strings.insert(e.value.size()>1 ? e.value.substr(1) : e.value); }
				else {
					if(world.hist.empty()) have = false;
					else {
						e = world.hist[atoi(st.at(3).c_str()) % world.hist.size()];
						if(st.at(4)!="id") {
							// a modified copy; an issued id is first replaced by its canonical name so that the
							// literal is the same string for the model (it is an unknown id either way)
							std::string v0 = util::urldecode(e.value);
							if(v0.size()==33 && v0[0]=='I' && world.sidmap.count(v0.substr(1))) {
								char buf[40]; snprintf(buf,sizeof(buf),"Iffffffffffffffff%016x",world.sidmap[v0.substr(1)]);
								v0 = buf;
							}
							e.value = mutate(v0,st.at(4)); e.authentic = false;
						}
					}
				}
				e.session = true;
				if(have) {
					if(e.value.empty()) world.jars[b].erase(PREFIX);
					else world.jars[b][PREFIX] = e;
				}
				out << "A";
			}
			else if(st[0]=="X") {
				int b = atoi(st.at(1).c_str());
				if(b >= (int)world.jars.size()) world.jars.resize(b+1);
				JarEntry e; e.value = hx::unhex(st.at(3)); e.authentic = false; e.session = true;
				world.jars[b][std::string(PREFIX) + "_" + hx::unhex(st.at(2))] = e;
				out << "X";
			}
			else if(st[0]=="P") {
				int b = atoi(st.at(1).c_str());
				if(b >= (int)world.jars.size()) world.jars.resize(b+1);
				std::string id = st.at(2);
				if(loc!="C") {
					bool seen = false;
					for(size_t k=0;k<world.known_ids.size();k++) if(world.known_ids[k]==id) seen = true;
					if(!seen) world.known_ids.push_back(id);
					world.inner->save(id,(time_t)atoll(st.at(3).c_str()),hx::unhex(st.at(4)));
				}
				JarEntry e; e.value = "I" + id; e.authentic = false; e.session = true;
				world.jars[b][PREFIX] = e;
				out << "P";
			}
			else { out << "BAD-STEP"; }
		}
		result = out.str();
	}
	catch(std::exception const &e) {
		result = std::string("HARNESS-EXC ") + e.what();
	}
	try { backend_stop(); } catch(std::exception const &e) { result += std::string(" STOP-EXC ") + e.what(); }
	world.pool.reset();
	world.inner.reset();
	real.reset();
	if(tcp_service.get()) { tcp_service->stop(); tcp_service.reset(); }
	srv_mem.reset();
	if(!dir.empty()) rm_rf(dir);
	W = 0;
	return result;
}

