// C17 harness: shared declarations (loop part in C17_loop.cpp, pool part in C17_pool.cpp)
#pragma once
#include <string>
#include <vector>
std::string c17_pool_case(std::vector<std::string> const &tok);      // deterministic scripted pool case
std::string c17_pool_stress(std::vector<std::string> const &tok);    // multi-threaded pool stress (oracle only)
std::string c17_pool_stop_stress(std::vector<std::string> const &tok); // stop() racing with post()/cancel() (oracle only)
std::string c17_loop_stress(std::vector<std::string> const &tok);    // multi-threaded loop stress (oracle only)
// interposition switch: when false the interposed libc entry points pass straight through
extern volatile bool c17_virtual;
