// C14: translation unit given to clang by checks/C14.py (tools/cxx2v front end).  It only includes the
// headers of the current tree and forces the instantiation of the templates whose bodies are translated to
// Gallina (coq/gen/Gen_C14.v).  Nothing here is executed.
#include "encoding_validators.h"
#include <booster/locale/utf.h>
#include <stddef.h>
namespace c14_tu {
typedef bool (*tester)(char const *,char const *,size_t &);
tester t_ascii       = &cppcms::encoding::ascii_valid<char const *>;
tester t_iso_generic = &cppcms::encoding::iso_8859_1_2_4_5_9_10_13_14_15_16_valid<char const *>;
tester t_iso_3       = &cppcms::encoding::iso_8859_3_valid<char const *>;
tester t_iso_6       = &cppcms::encoding::iso_8859_6_valid<char const *>;
tester t_iso_7       = &cppcms::encoding::iso_8859_7_valid<char const *>;
tester t_iso_8       = &cppcms::encoding::iso_8859_8_valid<char const *>;
tester t_iso_11      = &cppcms::encoding::iso_8859_11_valid<char const *>;
tester t_1250        = &cppcms::encoding::windows_1250_valid<char const *>;
tester t_1251        = &cppcms::encoding::windows_1251_valid<char const *>;
tester t_1252        = &cppcms::encoding::windows_1252_valid<char const *>;
tester t_1253        = &cppcms::encoding::windows_1253_valid<char const *>;
tester t_1254        = &cppcms::encoding::windows_1254_valid<char const *>;
tester t_1255        = &cppcms::encoding::windows_1255_valid<char const *>;
tester t_1256        = &cppcms::encoding::windows_1256_valid<char const *>;
tester t_1257        = &cppcms::encoding::windows_1257_valid<char const *>;
tester t_1258        = &cppcms::encoding::windows_1258_valid<char const *>;
tester t_koi8        = &cppcms::encoding::koi8_valid<char const *>;
int  b_trail_length(char c)   { return booster::locale::utf::utf_traits<char>::trail_length(c); }
int  b_width(unsigned c)      { return booster::locale::utf::utf_traits<char>::width(c); }
bool b_is_trail(char c)       { return booster::locale::utf::utf_traits<char>::is_trail(c); }
bool b_is_lead(char c)        { return booster::locale::utf::utf_traits<char>::is_lead(c); }
// UTF-16 arithmetic of the support library (utf_traits<CharType,2>), instantiated for char16_t
typedef booster::locale::utf::utf_traits<char16_t> u16;
bool     b16_first(unsigned short x)                     { return u16::is_first_surrogate(x); }
bool     b16_second(unsigned short x)                    { return u16::is_second_surrogate(x); }
unsigned b16_combine(unsigned short a,unsigned short b)  { return u16::combine_surrogate(a,b); }
int      b16_trail_length(char16_t c)                    { return u16::trail_length(c); }
int      b16_width(unsigned c)                           { return u16::width(c); }
// the encoders (templates over the output iterator), instantiated for plain pointers
char     *b_encode(unsigned v,char *out)                 { return booster::locale::utf::utf_traits<char>::encode(v,out); }
char16_t *b16_encode(unsigned v,char16_t *out)           { return u16::encode(v,out); }
// the validate loop of the framework (template over the iterator), instantiated for char const *
bool      c_validate(char const *p,char const *e,size_t &count,bool html) { return cppcms::utf8::validate(p,e,count,html); }
// the next-character function of the framework (template over the iterator), instantiated for char const *
unsigned  c_next(char const *&p,char const *e,bool html) { return cppcms::utf8::next(p,e,html,false); }
bool      c_validate3(char const *p,char const *e,bool html)    { return cppcms::utf8::validate(p,e,html); }
unsigned  b_decode(char const *&p,char const *e)         { return booster::locale::utf::utf_traits<char>::decode(p,e); }
int       b_max_width()                                  { return booster::locale::utf::utf_traits<char>::max_width; }
int       b16_max_width()                                { return u16::max_width; }
}
