// C14 form harness: src/form.cpp widgets::base_text::load / validate on a real cppcms::widgets::text inside a real
// cppcms::form, loaded from a real http::context (the in-memory connection of /repo/tests/dummy_api.h) whose GET data
// carry the value.  load() validates the text with encoding::valid(context.locale(),...) and counts code points;
// validate() applies the length limits to that count.
//   frm <locale hex> <low> <high> <validate_charset 0|1> <value hex>   ->   frm <validate()> <valid() after load> <value() hex>
#include <string>
#include <map>
#include <vector>
#include <sstream>
#include <iostream>
#include <stdexcept>
#include <stdio.h>
#include <stdlib.h>
#include <string.h>
#include <new>
#include <cppcms/defs.h>
#include <booster/noncopyable.h>
#include <booster/hold_ptr.h>
#include <booster/shared_ptr.h>
#include <cppcms/http_content_type.h>
// request::prepare() (parses QUERY_STRING into the GET map) is private and normally called by the connection
// state machine; the harness calls it directly.  Layout is unchanged by this define; all headers that
// http_request.h includes are already included above.
#define private public
#include <cppcms/http_request.h>
#undef private
#include <cppcms/http_response.h>
#include <cppcms/http_context.h>
#include <cppcms/application.h>
#include <cppcms/service.h>
#include <cppcms/json.h>
#include <cppcms/form.h>
#include <cppcms/cppcms_error.h>
#include "dummy_api.h"
#include "hexio.h"
using namespace hx;

struct tform : public cppcms::form {
	cppcms::widgets::text t;
	tform() { t.name("t"); add(t); }
};

class app : public cppcms::application {
public:
	app(cppcms::service &s) : cppcms::application(s) {}
	std::string out_;
	std::string run(std::string const &loc,int low,int high,bool cs,std::string const &value)
	{
		static const char *d="0123456789ABCDEF";
		std::string q="t=";
		for(size_t i=0;i<value.size();i++) { unsigned char c=value[i]; q+='%'; q+=d[c>>4]; q+=d[c&15]; }
		std::map<std::string,std::string> env;
		env["HTTP_HOST"]="h"; env["SCRIPT_NAME"]="/s"; env["PATH_INFO"]="/p"; env["REQUEST_METHOD"]="GET";
		env["QUERY_STRING"]=q;
		booster::shared_ptr<dummy_api> api(new dummy_api(service(),env,out_));
		booster::shared_ptr<cppcms::http::context> cnt(new cppcms::http::context(api));
		assign_context(cnt);
		std::string r;
		try {
			request().prepare();
			context().locale(loc);
			tform f;
			f.t.limits(low,high);
			f.t.validate_charset(cs);
			f.load(context());
			bool loaded_valid=f.t.valid();
			std::string v=f.t.value();
			bool ok=f.validate();
			r=std::string("frm ")+(ok?"1":"0")+(loaded_valid?" 1 ":" 0 ")+hex(v);
		}
		catch(std::exception const &e) { r=std::string("frm EXC ")+e.what(); }
		release_context();
		return r;
	}
};

// ---- sequences of operations on ONE form object (three text widgets: "a", "b", and one without an explicit name, which
// the form auto-names "_3" on the first load) across several requests ----
//   seq <locale hex> <op> <op> ...        answer: seq <observation> ...
//   L<f0>,<f1>,<f2>   load from a new request; f = "-" (field absent) or "=<hex>" (field present with this value)
//   C                 form.clear()            c<i>  widget i .clear()
//   S<i>=<hex>        widget i .value(v)      M<i>=<low>:<high>  limits     H<i>=<0|1>  validate_charset
//   V                 each widget's validate(), in order -> V<b0><b1><b2>       F  form.validate() -> F<b>
//   G                 each widget's value() -> G<hex or ! when it throws>,...
//   N<fill hex>:<low>:<high>   a fresh widget constructed over memory filled with <fill>, limits set, validate() -> N<b>
struct sform : public cppcms::form {
	cppcms::widgets::text w[3];
	sform() { w[0].name("a"); w[1].name("b"); add(w[0]); add(w[1]); add(w[2]); }
};

static std::string pct(std::string const &value)
{
	static const char *d="0123456789ABCDEF";
	std::string q;
	for(size_t i=0;i<value.size();i++) { unsigned char c=value[i]; q+='%'; q+=d[c>>4]; q+=d[c&15]; }
	return q;
}

class seqapp : public cppcms::application {
public:
	seqapp(cppcms::service &s) : cppcms::application(s) {}
	std::string out_;
	void do_load(sform &f,std::string const &loc,std::vector<std::string> const &fields)
	{
		static const char *names[3]={"a","b","_3"};
		std::string q;
		for(size_t i=0;i<fields.size() && i<3;i++) {
			if(fields[i].empty() || fields[i][0]!='=') continue;
			if(!q.empty()) q+='&';
			q+=names[i]; q+='='; q+=pct(unhex(fields[i].substr(1)));
		}
		std::map<std::string,std::string> env;
		env["HTTP_HOST"]="h"; env["SCRIPT_NAME"]="/s"; env["PATH_INFO"]="/p"; env["REQUEST_METHOD"]="GET";
		env["QUERY_STRING"]=q;
		booster::shared_ptr<dummy_api> api(new dummy_api(service(),env,out_));
		booster::shared_ptr<cppcms::http::context> cnt(new cppcms::http::context(api));
		assign_context(cnt);
		try {
			request().prepare();
			context().locale(loc);
			f.load(context());
		}
		catch(...) { release_context(); throw; }
		release_context();
	}
	std::string run(std::vector<std::string> const &v)
	{
		std::string r="seq";
		try {
			std::string loc=unhex(v[1]);
			sform f;
			for(size_t k=2;k<v.size();k++) {
				std::string const &op=v[k];
				char c=op[0];
				if(c=='L') {
					std::vector<std::string> fields;
					std::string cur;
					for(size_t i=1;i<=op.size();i++) {
						if(i==op.size() || op[i]==',') { fields.push_back(cur); cur.clear(); }
						else cur+=op[i];
					}
					do_load(f,loc,fields);
				}
				else if(c=='C') f.clear();
				else if(c=='c') f.w[op[1]-'0'].clear();
				else if(c=='S') f.w[op[1]-'0'].value(unhex(op.substr(3)));
				else if(c=='M') {
					size_t colon=op.find(':');
					f.w[op[1]-'0'].limits(atoi(op.substr(3,colon-3).c_str()),atoi(op.substr(colon+1).c_str()));
				}
				else if(c=='H') f.w[op[1]-'0'].validate_charset(op[3]=='1');
				else if(c=='V') {
					r+=" V";
					for(int i=0;i<3;i++) r+= f.w[i].validate() ? '1' : '0';
				}
				else if(c=='F') { r+= f.validate() ? " F1" : " F0"; }
				else if(c=='G') {
					r+=" G";
					for(int i=0;i<3;i++) {
						if(i) r+=',';
						try { r+=hex(f.w[i].value()); } catch(cppcms::cppcms_error const &) { r+='!'; }
					}
				}
				else if(c=='N') {
					size_t c1=op.find(':'),c2=op.find(':',c1+1);
					int fill=strtol(op.substr(1,c1-1).c_str(),0,16);
					static union { long long align; char b[4096]; } mem;
					if(sizeof(cppcms::widgets::text)>sizeof(mem.b)) { r+=" N?"; continue; }
					memset(mem.b,fill,sizeof(mem.b));
					cppcms::widgets::text *t=new (mem.b) cppcms::widgets::text();
					t->limits(atoi(op.substr(c1+1,c2-c1-1).c_str()),atoi(op.substr(c2+1).c_str()));
					r+= t->validate() ? " N1" : " N0";
					t->~text();
				}
				else return "seq BAD-OP "+op;
			}
		}
		catch(std::exception const &e) { r+=std::string(" EXC ")+e.what(); }
		return r;
	}
};

int main()
{
	cppcms::json::value cfg;
	cfg["localization"]["locales"][0]="en_US.UTF-8";
	cfg["localization"]["backend"]="std";
	cppcms::service srv(cfg);
	app a(srv);
	seqapp sa(srv);
	std::string line;
	while(std::getline(std::cin,line)) {
		std::vector<std::string> v=split(line);
		std::string out;
		if(v.size()==6 && v[0]=="frm")
			out=a.run(unhex(v[1]),atoi(v[2].c_str()),atoi(v[3].c_str()),v[4]=="1",unhex(v[5]));
		else if(v.size()>=2 && v[0]=="seq")
			out=sa.run(v);
		else out="BAD-CASE";
		fputs(out.c_str(),stdout); fputc('\n',stdout);
	}
	return 0;
}
