// C14 form harness: src/form.cpp widgets::base_text::load / validate on a real cppcms::widgets::text inside a real
// cppcms::form, loaded from a real http::context (the in-memory connection of /repo/tests/dummy_api.h) whose GET data
// carry the value.  load() validates the text with encoding::valid(context.locale(),...) and counts code points;
// validate() applies the length limits to that count.
//   frm <locale hex> <low> <high> <validate_charset 0|1> <value hex>   ->   frm <validate()> <valid() after load> <value() hex>
#include <string>
#include <map>
#include <vector>
#include <sstream>
#include <iostream>
#include <stdexcept>
#include <stdio.h>
#include <stdlib.h>
#include <cppcms/defs.h>
#include <booster/noncopyable.h>
#include <booster/hold_ptr.h>
#include <booster/shared_ptr.h>
#include <cppcms/http_content_type.h>
// request::prepare() (parses QUERY_STRING into the GET map) is private and normally called by the connection
// state machine; the harness calls it directly.  Layout is unchanged by this define; all headers that
// http_request.h includes are already included above.
#define private public
#include <cppcms/http_request.h>
#undef private
#include <cppcms/http_response.h>
#include <cppcms/http_context.h>
#include <cppcms/application.h>
#include <cppcms/service.h>
#include <cppcms/json.h>
#include <cppcms/form.h>
#include <cppcms/cppcms_error.h>
#include "dummy_api.h"
#include "hexio.h"
using namespace hx;

struct tform : public cppcms::form {
	cppcms::widgets::text t;
	tform() { t.name("t"); add(t); }
};

class app : public cppcms::application {
public:
	app(cppcms::service &s) : cppcms::application(s) {}
	std::string out_;
	std::string run(std::string const &loc,int low,int high,bool cs,std::string const &value)
	{
		static const char *d="0123456789ABCDEF";
		std::string q="t=";
		for(size_t i=0;i<value.size();i++) { unsigned char c=value[i]; q+='%'; q+=d[c>>4]; q+=d[c&15]; }
		std::map<std::string,std::string> env;
		env["HTTP_HOST"]="h"; env["SCRIPT_NAME"]="/s"; env["PATH_INFO"]="/p"; env["REQUEST_METHOD"]="GET";
		env["QUERY_STRING"]=q;
		booster::shared_ptr<dummy_api> api(new dummy_api(service(),env,out_));
		booster::shared_ptr<cppcms::http::context> cnt(new cppcms::http::context(api));
		assign_context(cnt);
		std::string r;
		try {
			request().prepare();
			context().locale(loc);
			tform f;
			f.t.limits(low,high);
			f.t.validate_charset(cs);
			f.load(context());
			bool loaded_valid=f.t.valid();
			std::string v=f.t.value();
			bool ok=f.validate();
			r=std::string("frm ")+(ok?"1":"0")+(loaded_valid?" 1 ":" 0 ")+hex(v);
		}
		catch(std::exception const &e) { r=std::string("frm EXC ")+e.what(); }
		release_context();
		return r;
	}
};

int main()
{
	cppcms::json::value cfg;
	cfg["localization"]["locales"][0]="en_US.UTF-8";
	cfg["localization"]["backend"]="std";
	cppcms::service srv(cfg);
	app a(srv);
	std::string line;
	while(std::getline(std::cin,line)) {
		std::vector<std::string> v=split(line);
		std::string out;
		if(v.size()==6 && v[0]=="frm")
			out=a.run(unhex(v[1]),atoi(v[2].c_str()),atoi(v[3].c_str()),v[4]=="1",unhex(v[5]));
		else out="BAD-CASE";
		fputs(out.c_str(),stdout); fputc('\n',stdout);
	}
	return 0;
}
