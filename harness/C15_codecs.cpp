// C15 correspondence harness: every output path of escape / urlencode / base64url of the current tree
#include <cppcms/util.h>
#include <cppcms/base64.h>
#include <cppcms/filters.h>
#include <cppcms/steal_buf.h>
#include <booster/locale/format.h>
#include <cppcms/form.h>
#include <streambuf>
#include <sstream>
#include <string.h>
#include "hexio.h"
using namespace hx;

// sink that accepts `room` bytes, writes prefixes, then fails
struct bounded_buf : public std::streambuf {
	std::string data; size_t room;
	bounded_buf(size_t r):room(r){}
	std::streamsize xsputn(char const *s,std::streamsize n){ size_t k=std::min<size_t>(n,room-data.size()); data.append(s,k); return k; }
	int overflow(int c){ if(c==EOF) return 0; if(data.size()>=room) return EOF; data+=char(c); return c; }
};
// sink whose failures need not be permanent.  One "call" = one xsputn or one overflow (sputc without put area); calls are
// numbered from 0, refused ones included.  spec:  B<room>  accepts room bytes in total, writes prefixes (= bounded_buf);
// A<budget> all-or-nothing per call: a call that does not fit into the remaining budget is refused entirely, later smaller
// calls are accepted;  K<k> call number k is refused once, everything else accepted;  T every odd-numbered call is refused;
// P<k>.<m> call number k takes only its first m bytes (once), everything else accepted
struct spec_buf : public std::streambuf {
	std::string data; char mode; size_t a,b,calls;
	spec_buf(std::string const &spec) : mode(spec.empty()?'B':spec[0]), a(0), b(0), calls(0) {
		a=strtoul(spec.c_str()+(spec.empty()?0:1),0,10);
		size_t dot=spec.find('.'); if(dot!=std::string::npos) b=strtoul(spec.c_str()+dot+1,0,10);
	}
	size_t accept(size_t n) {
		size_t idx=calls++;
		switch(mode) {
		case 'B': return std::min<size_t>(n, a>data.size() ? a-data.size() : 0);
		case 'A': return data.size()+n<=a ? n : 0;
		case 'K': return idx==a ? 0 : n;
		case 'T': return (idx&1) ? 0 : n;
		case 'P': return idx==a ? std::min(n,b) : n;
		}
		return n;
	}
	std::streamsize xsputn(char const *s,std::streamsize n){ size_t k=accept(n); data.append(s,k); return k; }
	int overflow(int c){ if(c==EOF) return 0; if(accept(1)==0) return EOF; data+=char(c); return (unsigned char)(c); }
};
// sink with a 1-byte put area (forces overflow() on every character)
struct tiny_buf : public std::streambuf {
	std::string data; char b[1];
	tiny_buf(){ setp(b,b+1); }
	int overflow(int c){ data.append(pbase(),pptr()-pbase()); setp(b,b+1); if(c!=EOF) data+=char(c); return 0; }
	int sync(){ overflow(EOF); return 0; }
};


// a streamable value that writes its text in several pieces (as booster::locale::format, user operator<< or template blocks do)
struct pieces { std::vector<std::string> v; };
static std::ostream &operator<<(std::ostream &o,pieces const &p)
{
	for(size_t i=0;i<p.v.size();i++) {
		if(p.v[i].size()==1) o.put(p.v[i][0]); else o.write(p.v[i].data(),p.v[i].size());
	}
	return o;
}
static pieces cut(std::string const &s,std::string const &cuts)   // cuts: comma separated piece lengths; rest = last piece
{
	pieces p; size_t pos=0; std::stringstream ss(cuts); std::string t;
	while(std::getline(ss,t,',')) { size_t n=strtoul(t.c_str(),0,10); n=std::min(n,s.size()-pos); p.v.push_back(s.substr(pos,n)); pos+=n; }
	p.v.push_back(s.substr(pos));
	return p;
}

// the filter buffers of src/filters.cpp are in an anonymous namespace; the same class template with the same convert,
// to observe the return value of release()
struct own_escape_buf : public cppcms::util::filterbuf<own_escape_buf,128> {
	int convert(char const *b,char const *e,std::streambuf *out) { if(!out) return -1; return cppcms::util::escape(b,e,*out); }
};
struct own_urlencode_buf : public cppcms::util::filterbuf<own_urlencode_buf,128> {
	int convert(char const *b,char const *e,std::streambuf *out) { if(!out) return -1; return cppcms::util::urlencode(b,e,*out); }
};

// ---- form widget rendering: render a widget with `val` in the slot `kind`, return the rendered HTML
static std::string render_widget(std::string const &kind,std::string const &val,int mode)
{
	std::ostringstream out;
	cppcms::form_context ctx(out, mode&1 ? cppcms::form_flags::as_xhtml : cppcms::form_flags::as_html,
	                         (mode&2) ? cppcms::form_flags::as_table : cppcms::form_flags::as_p);
	using namespace cppcms::widgets;
	if(kind=="text_value") { text w; w.name("n"); w.value(val); w.render(ctx); }
	else if(kind=="text_value_input") { text w; w.name("n"); w.value(val); w.render_input(ctx); }
	else if(kind=="textarea_value") { textarea w; w.name("n"); w.value(val); w.render(ctx); }
	else if(kind=="hidden_value") { hidden w; w.name("n"); w.value(val); w.render(ctx); }
	else if(kind=="message") { text w; w.name("n"); w.message(val); w.render(ctx); }
	else if(kind=="message_label") { text w; w.name("n"); w.id("i"); w.message(val); w.render(ctx); }
	else if(kind=="help") { text w; w.name("n"); w.help(val); w.render(ctx); }
	else if(kind=="error_message") { text w; w.name("n"); w.error_message(val); w.valid(false); w.render(ctx); }
	else if(kind=="checkbox_ident") { checkbox w; w.name("n"); w.identification(val); w.render(ctx); }
	else if(kind=="submit_value") { submit w; w.name("n"); w.value(val); w.render(ctx); }
	else if(kind=="select_id") { cppcms::widgets::select w; w.name("n"); w.add("shown",val); w.add("other","o2"); w.render(ctx); }
	else if(kind=="select_text") { cppcms::widgets::select w; w.name("n"); w.add(val,"id1"); w.add("other","o2"); w.selected_id("id1"); w.render(ctx); }
	else if(kind=="select_tr_text") { cppcms::widgets::select w; w.name("n"); w.add(booster::locale::message(val),"id1"); w.render(ctx); }
	else if(kind=="multi_id") { select_multiple w; w.name("n"); w.add("shown",val,true); w.add("other","o2"); w.render(ctx); }
	else if(kind=="multi_text") { select_multiple w; w.name("n"); w.add(val,"id1"); w.add("z","o2",true); w.render(ctx); }
	else if(kind=="multi_tr_text") { select_multiple w; w.name("n"); w.add(booster::locale::message(val),"id1"); w.render(ctx); }
	else if(kind=="radio_id") { radio w; w.name("n"); w.add("shown",val); w.add("other","o2"); w.render(ctx); }
	else if(kind=="radio_text") { radio w; w.name("n"); w.add(val,"id1"); w.add("other","o2"); w.selected_id("o2"); w.render(ctx); }
	else if(kind=="radio_tr_text") { radio w; w.name("n"); w.add(booster::locale::message(val),"id1"); w.render(ctx); }
	else return "BAD-KIND";
	return out.str();
}

int main()
{
	std::string line;
	while(std::getline(std::cin,line)) {
		std::vector<std::string> v=split(line);
		std::ostringstream out;
		if(v.size()==2 && v[0]=="esc") {
			std::string s=unhex(v[1]);
			std::string r1=cppcms::util::escape(s);
			std::ostringstream o2; cppcms::util::escape(s.data(),s.data()+s.size(),o2);
			std::stringbuf b3; int rc3=cppcms::util::escape(s.data(),s.data()+s.size(),b3);
			std::ostringstream o4; o4 << cppcms::filters::escape(s);
			tiny_buf b5; { std::ostream o5(&b5); o5 << cppcms::filters::escape(s); o5.flush(); }
			std::ostringstream o6; { cppcms::filters::escape f(s); f(o6); }
			if(r1!=o2.str() || r1!=b3.str() || rc3!=0 || r1!=o4.str() || r1!=b5.data || r1!=o6.str())
				out<<"esc PATHS-DIFFER "<<hex(r1)<<" "<<hex(o2.str())<<" "<<hex(b3.str())<<" "<<hex(o4.str())<<" "<<hex(b5.data)<<" "<<hex(o6.str());
			else
				out<<"esc "<<hex(r1);
		}
		else if(v.size()==3 && v[0]=="escs") {
			std::string s=unhex(v[2]);
			bounded_buf b(atoi(v[1].c_str()));
			int rc=cppcms::util::escape(s.data(),s.data()+s.size(),b);
			out<<"escs "<<hex(b.data)<<" "<<(rc==0?1:0);
		}
		else if(v.size()==3 && v[0]=="uencs") {
			std::string s=unhex(v[2]);
			bounded_buf b(atoi(v[1].c_str()));
			int rc=cppcms::util::urlencode(s.data(),s.data()+s.size(),b);
			out<<"uencs "<<hex(b.data)<<" "<<(rc==0?1:0);
		}
		else if(v.size()==2 && v[0]=="uenc") {
			std::string s=unhex(v[1]);
			std::string r1=cppcms::util::urlencode(s);
			std::ostringstream o2; cppcms::util::urlencode(s.data(),s.data()+s.size(),o2);
			std::stringbuf b3; int rc3=cppcms::util::urlencode(s.data(),s.data()+s.size(),b3);
			std::ostringstream o4; o4 << cppcms::filters::urlencode(s);
			if(r1!=o2.str() || r1!=b3.str() || rc3!=0 || r1!=o4.str())
				out<<"uenc PATHS-DIFFER "<<hex(r1)<<" "<<hex(o2.str())<<" "<<hex(b3.str())<<" "<<hex(o4.str());
			else
				out<<"uenc "<<hex(r1);
		}
		else if(v.size()==2 && v[0]=="udec") {
			std::string s=unhex(v[1]);
			std::string r1=cppcms::util::urldecode(s);
			std::string r2=cppcms::util::urldecode(s.data(),s.data()+s.size());
			// the same range with hex digits directly behind its end: a decoder that looks past `end` decodes differently
			std::string s3=s+"4F";
			std::string r3=cppcms::util::urldecode(s3.data(),s3.data()+s.size());
			if(r1!=r2 || r1!=r3) out<<"udec PATHS-DIFFER "<<hex(r1)<<" "<<hex(r2)<<" "<<hex(r3); else out<<"udec "<<hex(r1);
		}
		else if(v.size()==2 && v[0]=="benc") {
			std::string s=unhex(v[1]);
			std::string r1=cppcms::b64url::encode(s);
			// pointer variant into an exactly sized, canary-guarded buffer
			int es=cppcms::b64url::encoded_size(s.size());
			std::vector<unsigned char> buf(es+8,0xA5);
			unsigned char const *b=reinterpret_cast<unsigned char const*>(s.data());
			unsigned char *e=cppcms::b64url::encode(b,b+s.size(),&buf[0]);
			bool canary=true; for(int i=es;i<es+8;i++) if(buf[i]!=0xA5) canary=false;
			std::string r2(reinterpret_cast<char*>(&buf[0]),e-&buf[0]);
			std::ostringstream o3; cppcms::b64url::encode(b,b+s.size(),o3);
			std::ostringstream o4; o4<<cppcms::filters::base64_urlencode(s);
			if(r1!=r2 || !canary || (e-&buf[0])!=es || r1!=o3.str() || r1!=o4.str())
				out<<"benc PATHS-DIFFER "<<hex(r1)<<" "<<hex(r2)<<" canary="<<canary<<" es="<<es<<" "<<hex(o3.str())<<" "<<hex(o4.str());
			else
				out<<"benc "<<hex(r1);
		}
		else if(v.size()==2 && v[0]=="bdec") {
			std::string s=unhex(v[1]);
			std::string r="stale-previous-content";
			bool ok=cppcms::b64url::decode(s,r);
			// c=1: the accepted string is the (canonical) encoding of what it decodes to
			if(!ok) out<<"bdec invalid"; else out<<"bdec "<<hex(r)<<" c="<<(cppcms::b64url::encode(r)==s ? 1 : 0);
		}
		else if(v.size()==2 && v[0]=="bdecp") {
			std::string s=unhex(v[1]);
			int ds=cppcms::b64url::decoded_size(s.size());
			int cap = ds<0 ? int(s.size()/4*3+3) : ds;   // len%4==1: the call still writes 3 bytes for the tail
			std::vector<unsigned char> buf(cap+8,0xA5);
			unsigned char const *b=reinterpret_cast<unsigned char const*>(s.data());
			unsigned char *e=cppcms::b64url::decode(b,b+s.size(),&buf[0]);
			bool canary=true; for(int i=cap;i<cap+8;i++) if(buf[i]!=0xA5) canary=false;
			std::string r(reinterpret_cast<char*>(&buf[0]),e-&buf[0]);
			if(!canary || (ds>=0 && (e-&buf[0])!=ds)) out<<"bdecp OVERRUN "<<hex(r)<<" ds="<<ds; else out<<"bdecp "<<hex(r);
		}
		else if(v.size()==4 && v[0]=="pcs") {
			// filters applied to a value that is streamed in pieces: op in {esc,uenc,benc}
			std::string s=unhex(v[3]); pieces p=cut(s,v[2]);
			std::ostringstream o1; tiny_buf b2; std::ostream o2(&b2);
			if(v[1]=="esc") { o1<<cppcms::filters::escape(p); o2<<cppcms::filters::escape(p); }
			else if(v[1]=="uenc") { o1<<cppcms::filters::urlencode(p); o2<<cppcms::filters::urlencode(p); }
			else { o1<<cppcms::filters::base64_urlencode(p); o2<<cppcms::filters::base64_urlencode(p); }
			o2.flush();
			if(o1.str()!=b2.data) out<<"pcs PATHS-DIFFER "<<hex(o1.str())<<" "<<hex(b2.data);
			else out<<"pcs "<<hex(o1.str());
		}
		else if(v.size()==5 && v[0]=="pcsf") {
			// the same into a sink that accepts `room` bytes and then fails: what reached the sink, st = state of the stream
			// after the filter, rel = what release() of the filter buffer reported (observed on the same class template with the same convert)
			std::string s=unhex(v[4]); pieces p=cut(s,v[3]); size_t room=atoi(v[2].c_str());
			bounded_buf b(room); std::ostream o(&b);
			bounded_buf b2(room); std::ostream o2(&b2); int rel=0;
			if(v[1]=="esc") { o<<cppcms::filters::escape(p); own_escape_buf fb; fb.steal(o2); o2<<p; rel=fb.release(); }
			else if(v[1]=="uenc") { o<<cppcms::filters::urlencode(p); own_urlencode_buf fb; fb.steal(o2); o2<<p; rel=fb.release(); }
			else { o<<cppcms::filters::base64_urlencode(p); o2<<cppcms::filters::base64_urlencode(p); rel=o2.fail()?-1:0; }
			if(b.data!=b2.data) out<<"pcsf PATHS-DIFFER "<<hex(b.data)<<" "<<hex(b2.data);
			else out<<"pcsf "<<hex(b.data)<<" st="<<(o.fail()?0:1)<<" rel="<<(rel==0?1:0);
		}
		else if(v.size()==3 && v[0]=="escg") {
			// escape into a sink with non-permanent failures: stream buffer overload (data, return value) and ostream overload (data, state)
			std::string s=unhex(v[2]);
			spec_buf b1(v[1]); int rc=cppcms::util::escape(s.data(),s.data()+s.size(),b1);
			spec_buf b2(v[1]); std::ostream o2(&b2); cppcms::util::escape(s.data(),s.data()+s.size(),o2);
			if(b1.data!=b2.data || (rc==0)!=(!o2.fail())) out<<"escg PATHS-DIFFER "<<hex(b1.data)<<" "<<rc<<" "<<hex(b2.data)<<" "<<o2.fail();
			else out<<"escg "<<hex(b1.data)<<" "<<(rc==0?1:0);
		}
		else if(v.size()==3 && v[0]=="uencg") {
			std::string s=unhex(v[2]);
			spec_buf b1(v[1]); int rc=cppcms::util::urlencode(s.data(),s.data()+s.size(),b1);
			spec_buf b2(v[1]); std::ostream o2(&b2); cppcms::util::urlencode(s.data(),s.data()+s.size(),o2);
			if(b1.data!=b2.data || (rc==0)!=(!o2.fail())) out<<"uencg PATHS-DIFFER "<<hex(b1.data)<<" "<<rc<<" "<<hex(b2.data)<<" "<<o2.fail();
			else out<<"uencg "<<hex(b1.data)<<" "<<(rc==0?1:0);
		}
		else if(v.size()==5 && v[0]=="pcsg") {
			// the template filters, value in pieces, into such a sink
			std::string s=unhex(v[4]); pieces p=cut(s,v[3]);
			spec_buf b(v[2]); std::ostream o(&b);
			spec_buf b2(v[2]); std::ostream o2(&b2); int rel=0;
			if(v[1]=="esc") { o<<cppcms::filters::escape(p); own_escape_buf fb; fb.steal(o2); o2<<p; rel=fb.release(); }
			else if(v[1]=="uenc") { o<<cppcms::filters::urlencode(p); own_urlencode_buf fb; fb.steal(o2); o2<<p; rel=fb.release(); }
			else { o<<cppcms::filters::base64_urlencode(p); o2<<cppcms::filters::base64_urlencode(p); rel=o2.fail()?-1:0; }
			if(b.data!=b2.data) out<<"pcsg PATHS-DIFFER "<<hex(b.data)<<" "<<hex(b2.data);
			else out<<"pcsg "<<hex(b.data)<<" st="<<(o.fail()?0:1)<<" rel="<<(rel==0?1:0);
		}
		else if(v.size()==3 && v[0]=="pcsb") {
			// a filter applied to a stream that has already failed (plain writes to such a stream are dropped)
			std::string s=unhex(v[2]);
			std::ostringstream o; o.setstate(std::ios_base::badbit);
			if(v[1]=="esc") o<<cppcms::filters::escape(s); else if(v[1]=="uenc") o<<cppcms::filters::urlencode(s); else o<<cppcms::filters::base64_urlencode(s);
			out<<"pcsb "<<hex(o.str())<<" st="<<(o.fail()?0:1);
		}
		else if(v.size()==3 && v[0]=="strf") {
			// the std::ostream overloads themselves on a stream that has already failed: nothing may be written, the state stays
			std::string s=unhex(v[2]); unsigned char const *ub=reinterpret_cast<unsigned char const*>(s.data());
			std::ostringstream o; o.setstate(std::ios_base::badbit);
			if(v[1]=="esc") cppcms::util::escape(s.data(),s.data()+s.size(),o);
			else if(v[1]=="uenc") cppcms::util::urlencode(s.data(),s.data()+s.size(),o);
			else cppcms::b64url::encode(ub,ub+s.size(),o);
			out<<"strf "<<hex(o.str())<<" st="<<(o.fail()?0:1);
		}
		else if(v.size()==4 && v[0]=="formfull") {
			// the complete HTML of the widget (compared with the rendering skeleton of the model)
			// and the same widget with a harmless placeholder as value (reference structure for the oracle)
			out<<"formfull "<<hex(render_widget(v[1],unhex(v[3]),atoi(v[2].c_str())))<<" "<<hex(render_widget(v[1],"ZqPLACEHOLDERqZ",atoi(v[2].c_str())));
		}
		else if(v.size()==4 && v[0]=="form") {
			// the widget rendered with the payload must equal the widget rendered with a harmless placeholder, with the
			// placeholder replaced by one byte string (printed: what stands in the value's place)
			static const std::string ph="ZqPLACEHOLDERqZ";
			std::string val=unhex(v[3]); int mode=atoi(v[2].c_str());
			std::string a=render_widget(v[1],ph,mode), b=render_widget(v[1],val,mode);
			size_t pos=a.find(ph);
			if(a=="BAD-KIND" || pos==std::string::npos || a.find(ph,pos+1)!=std::string::npos) out<<"form NO-PLACEHOLDER "<<hex(a);
			else {
				std::string pre=a.substr(0,pos), suf=a.substr(pos+ph.size());
				if(b.size()<pre.size()+suf.size() || b.compare(0,pre.size(),pre)!=0 || b.compare(b.size()-suf.size(),suf.size(),suf)!=0)
					out<<"form STRUCTURE-DIFFERS "<<hex(b);
				else {
					// context of the slot: A = inside a tag, as an attribute value written ="..."; E = element text (outside any tag)
					char const *cx="?";
					if(pre.size()>=2 && pre.compare(pre.size()-2,2,"=\"")==0 && !suf.empty() && suf[0]=='"') cx="A";
					else {	// outside any tag: the last angle bracket before the slot is a >
						size_t gt=pre.rfind('>'), lt=pre.rfind('<');
						if(gt!=std::string::npos && (lt==std::string::npos || lt<gt)) cx="E";
					}
					out<<"form "<<hex(b.substr(pre.size(),b.size()-pre.size()-suf.size()))<<" "<<cx;
				}
			}
		}
		else if(v.size()==2 && v[0]=="esz") out<<"esz "<<cppcms::b64url::encoded_size(strtoull(v[1].c_str(),0,10));
		else if(v.size()==2 && v[0]=="dsz") out<<"dsz "<<cppcms::b64url::decoded_size(strtoull(v[1].c_str(),0,10));
		else out<<"BAD-CASE";
		std::cout<<out.str()<<"\n";
	}
	return 0;
}
