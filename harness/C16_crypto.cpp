// C16 correspondence harness: drives cppcms::crypto::message_digest / hmac / key / cbc and the session
// encryptors built on them (the real code paths of src/crypto.cpp, src/md5.cpp, private/sha1.h, src/aes.cpp,
// src/hmac_encryptor.cpp, src/aes_encryptor.cpp).  One case per line, one answer per line.
//
//   dg   <algo> <msg>...            one object, every message appended chunk by chunk and read out
//   hm   <algo> <key> <msg>...      same for hmac (both constructors)
//   key  <hex of text>              key::set_hex / key(std::string) / key(char const *)
//   keyf <hex of file content>      key::read_from_file
//   name <hex of name>              message_digest::create_by_name
//   cbc  <bits> <key> <iv> <msg>    cbc: one-shot and chunked encrypt/decrypt, IV dependence
//   cbcst <bits> <op>...            status machine: k<n> i<n> n e d
//   hexkey <hex>                   private/tohex.h writer, read back through key(std::string)
//   big  <algo> <nbytes> <chunk>   message byte i = i mod 251 generated here, fed in chunks (counter carries)
//   rekey <bits> <key1> <key2> <iv> <plain> <used>   second set_key on one object
//   cbcname <hex of name>        cbc::create(std::string)
//   cbcobj <bits> <op>...          one object, calls with real operands: k<hex> i<hex> e<hex> d<hex>
//   sess hmac <algo> <key> <plain> | sess aes <cbc> <mac> <cbckey> <mackey> <plain>
//   sessd hmac <algo> <key> <cookie> | sessd aes <cbc> <mac> <cbckey> <mackey> <cookie>   decrypt of a cookie made by the check
//   sessk <cbc> <key> <plain>     aes_factory(algo,key): key splitting / stretching
// <msg> = "." (no append call) or chunks separated by ',' (each hex, "-" = empty chunk)
#include <cppcms/crypto.h>
#include <booster/backtrace.h>
#include "hmac_encryptor.h"
#include "aes_encryptor.h"
#include "tohex.h"
#include <string.h>
#include <stdlib.h>
#include <unistd.h>
#include <fstream>
#include <memory>
#include "hexio.h"
using namespace hx;
namespace cr = cppcms::crypto;

static std::vector<std::string> chunks_of(std::string const &tok)
{
	std::vector<std::string> r;
	if(tok==".") return r;
	size_t p=0;
	for(;;) {
		size_t q=tok.find(',',p);
		r.push_back(unhex(tok.substr(p,q==std::string::npos?std::string::npos:q-p)));
		if(q==std::string::npos) break;
		p=q+1;
	}
	return r;
}
static std::string join(std::vector<std::string> const &c){ std::string r; for(size_t i=0;i<c.size();i++) r+=c[i]; return r; }

// append a chunk from an exactly sized heap copy (so that ASan/valgrind builds see over-reads)
template<typename T> static void feed(T &o,std::string const &c)
{
	if(c.empty()) { o.append(c.data(),0); return; }
	std::vector<char> v(c.begin(),c.end());
	o.append(&v[0],v.size());
}
template<typename T> static std::string readout(T &o,unsigned n)
{
	std::vector<unsigned char> buf(n+8,0xA5);
	o.readout(&buf[0]);
	for(unsigned i=n;i<n+8;i++) if(buf[i]!=0xA5) return "OVERRUN";
	return std::string(reinterpret_cast<char*>(&buf[0]),n);
}

static std::string run_digest(cr::message_digest &d,std::vector<std::string> const &msgs)
{
	std::string out;
	for(size_t i=0;i<msgs.size();i++) {
		std::vector<std::string> ch=chunks_of(msgs[i]);
		for(size_t j=0;j<ch.size();j++) feed(d,ch[j]);
		out+=" "+hex(readout(d,d.digest_size()));
	}
	return out;
}
static std::string run_hmac(cr::hmac &d,std::vector<std::string> const &msgs)
{
	std::string out;
	for(size_t i=0;i<msgs.size();i++) {
		std::vector<std::string> ch=chunks_of(msgs[i]);
		for(size_t j=0;j<ch.size();j++) feed(d,ch[j]);
		out+=" "+hex(readout(d,d.digest_size()));
	}
	return out;
}

static std::string key_answer(std::string const &text,int how,std::string const &tmp)
{
	try {
		cr::key k;
		if(how==0) k.set_hex(text.data(),text.size());
		else if(how==1) k=cr::key(text);
		else if(how==2) k=cr::key(text.c_str());
		else {
			{ std::ofstream f(tmp.c_str(),std::ios::binary); f.write(text.data(),text.size()); }
			k.set("stale",5);
			k.read_from_file(tmp);
		}
		return "ok "+hex(std::string(k.data(),k.size()));
	}
	catch(booster::invalid_argument const &e) {
		std::string w=e.what();
		if(w.find("not multiple of 2")!=std::string::npos) return "odd";
		if(w.find("invalid characters")!=std::string::npos) return "badchar";
		return "invalid_argument:"+w.substr(0,60);
	}
	catch(booster::runtime_error const &e) {
		std::string w=e.what();
		if(w.find("is empty")!=std::string::npos) return "emptyfile";
		return "runtime_error:"+w.substr(0,60);
	}
}

static std::unique_ptr<cr::cbc> make_cbc(int bits,std::string const &key,std::string const &iv,bool by_name)
{
	std::unique_ptr<cr::cbc> c;
	if(by_name) {
		char nm[32]; snprintf(nm,sizeof(nm),"aes%d",bits);
		c=cr::cbc::create(nm);
	}
	else c=cr::cbc::create(bits==128?cr::cbc::aes128:bits==192?cr::cbc::aes192:cr::cbc::aes256);
	if(!c.get()) return c;
	c->set_key(cr::key(key.data(),key.size()));
	c->set_iv(iv.data(),iv.size());
	return c;
}
static std::string crypt(cr::cbc &c,std::string const &in,bool enc)
{
	if(in.empty()) return in;
	std::vector<char> i(in.begin(),in.end()),o(in.size()+16,char(0xA5));
	if(enc) c.encrypt(&i[0],&o[0],in.size()); else c.decrypt(&i[0],&o[0],in.size());
	for(size_t k=in.size();k<in.size()+16;k++) if(o[k]!=char(0xA5)) return "OVERRUN";
	return std::string(&o[0],in.size());
}

// the exceptions of the cbc object folded into a small enum
static std::string ia_name(std::string const &w)
{
	return w.find("Invalid key size")!=std::string::npos ? "badkey" : w.find("Invalid IV size")!=std::string::npos ? "badiv" : "invalid_argument";
}
static std::string rt_name(std::string const &w)
{
	return w.find("without key")!=std::string::npos ? "nokey" : w.find("without initial vector")!=std::string::npos ? "noiv"
		: w.find("set key more then once")!=std::string::npos ? "keytwice" : "runtime_error";
}

int main(int argc,char **argv)
{
	std::string line;
	char tmpl[]="/tmp/c16key.XXXXXX";
	int fd=mkstemp(tmpl); if(fd>=0) close(fd);
	std::string tmp=tmpl;
	while(std::getline(std::cin,line)) {
		std::vector<std::string> v=split(line);
		std::ostringstream out;
		try {
		if(v.size()>=2 && v[0]=="dg") {
			std::vector<std::string> msgs(v.begin()+2,v.end());
			std::unique_ptr<cr::message_digest> d=cr::message_digest::create_by_name(v[1]);
			if(!d.get()) out<<"dg null";
			else {
				std::string r1=run_digest(*d,msgs);
				// a clone is a new object of the same algorithm, whatever the state of the original
				feed(*d,"garbage");
				std::unique_ptr<cr::message_digest> d2(d->clone());
				std::string r2=run_digest(*d2,msgs);
				std::string r3=r1;
				if(v[1]=="md5") { std::unique_ptr<cr::message_digest> d3=cr::message_digest::md5(); r3=run_digest(*d3,msgs); }
				if(v[1]=="sha1") { std::unique_ptr<cr::message_digest> d3=cr::message_digest::sha1(); r3=run_digest(*d3,msgs); }
				if(r1!=r2 || r1!=r3) out<<"dg PATHS-DIFFER"<<r1<<" |"<<r2<<" |"<<r3;
				else out<<"dg "<<v[1]<<r1;
			}
		}
		else if(v.size()>=3 && v[0]=="hm") {
			std::vector<std::string> msgs(v.begin()+3,v.end());
			std::string k=unhex(v[2]);
			cr::hmac h1(v[1],cr::key(k.data(),k.size()));
			std::string r1=run_hmac(h1,msgs);
			cr::hmac h2(cr::message_digest::create_by_name(v[1]),cr::key(k.data(),k.size()));
			std::string r2=run_hmac(h2,msgs);
			if(r1!=r2) out<<"hm PATHS-DIFFER"<<r1<<" |"<<r2;
			else out<<"hm "<<v[1]<<r1;
		}
		else if(v.size()==2 && v[0]=="key") {
			std::string t=unhex(v[1]);
			std::string a0=key_answer(t,0,tmp),a1=key_answer(t,1,tmp);
			std::string a2= t.find('\0')==std::string::npos ? key_answer(t,2,tmp) : a0;
			if(a0!=a1 || a0!=a2) out<<"key PATHS-DIFFER "<<a0<<" | "<<a1<<" | "<<a2;
			else out<<"key "<<a0;
		}
		else if(v.size()==2 && v[0]=="keyf") {
			out<<"keyf "<<key_answer(unhex(v[1]),3,tmp);
		}
		else if(v.size()==2 && v[0]=="name") {
			std::unique_ptr<cr::message_digest> d=cr::message_digest::create_by_name(unhex(v[1]));
			if(!d.get()) out<<"name null";
			else out<<"name "<<d->name()<<" "<<d->digest_size()<<" "<<d->block_size();
		}
		else if(v.size()==5 && v[0]=="cbc") {
			int bits=atoi(v[1].c_str());
			std::string key=unhex(v[2]),iv=unhex(v[3]);
			std::vector<std::string> ch=chunks_of(v[4]);
			std::string plain=join(ch);
			std::unique_ptr<cr::cbc> a=make_cbc(bits,key,iv,false),b=make_cbc(bits,key,iv,true);
			if(!a.get() || !b.get()) { out<<"cbc null"; }
			else {
				std::string c1=crypt(*a,plain,true);                 // one call
				std::string c2; for(size_t i=0;i<ch.size();i++) c2+=crypt(*b,ch[i],true);   // one call per chunk
				std::string p1=crypt(*a,c1,false);                   // same object, one call
				std::string p2;                                      // other object, block by block
				for(size_t i=0;i+16<=c1.size();i+=16) p2+=crypt(*b,c1.substr(i,16),false);
				// decryptor primed with a different IV: only the first block may differ
				std::string iv2=iv; iv2[0]^=0x55; iv2[15]^=0xAA;
				std::unique_ptr<cr::cbc> c=make_cbc(bits,key,iv2,false);
				std::string p3=crypt(*c,c1,false);
				bool ivind = p3.size()==plain.size() && (plain.size()<16 || (p3.substr(16)==plain.substr(16) && p3.substr(0,16)!=plain.substr(0,16)));
				// after set_iv the same object starts a new chain
				a->set_iv(iv.data(),iv.size());
				std::string c3=crypt(*a,plain,true);
				out<<"cbc "<<hex(c1)<<" chain="<<(c1==c2)<<" rt="<<(p1==plain)<<" rtb="<<(p2==plain)<<" ivind="<<ivind<<" reiv="<<(c3==c1);
			}
		}
		else if(v.size()==2 && v[0]=="hexkey") {
			// the writer used by cppcms_make_key (private/tohex.h) and the reader key::set_hex / key(std::string)
			std::string data=unhex(v[1]);
			std::vector<char> txt(data.size()*2+1+8,char(0xA5));
			cppcms::impl::tohex(data.data(),data.size(),&txt[0]);
			bool over=false;
			for(size_t i=data.size()*2+1;i<txt.size();i++) if(txt[i]!=char(0xA5)) over=true;
			if(over || txt[data.size()*2]!=0) out<<"hexkey OVERRUN";
			else {
				std::string t(&txt[0],data.size()*2);
				cr::key k(t);
				out<<"hexkey "<<hex(t)<<" rt="<<(std::string(k.data(),k.size())==data);
			}
		}
		else if(v.size()==4 && v[0]=="big") {
			// long message made here (byte i = i mod 251), fed in chunks of the given size: bit counter carries
			unsigned long long n=strtoull(v[2].c_str(),0,10),chunk=strtoull(v[3].c_str(),0,10),pos=0;
			std::unique_ptr<cr::message_digest> d=cr::message_digest::create_by_name(v[1]);
			if(!d.get() || chunk==0) out<<"big null";
			else {
				std::vector<unsigned char> buf(chunk);
				unsigned c=0;
				while(pos<n) {
					size_t m= n-pos<chunk ? size_t(n-pos) : size_t(chunk);
					for(size_t i=0;i<m;i++) { buf[i]=(unsigned char)c; if(++c==251) c=0; }
					d->append(&buf[0],m);
					pos+=m;
				}
				out<<"big "<<v[1]<<" "<<hex(readout(*d,d->digest_size()));
			}
		}
		else if(v.size()==7 && v[0]=="rekey") {
			// a second set_key on an object that has (used=1) or has not (used=0) encrypted already
			int bits=atoi(v[1].c_str());
			std::string k1=unhex(v[2]),k2=unhex(v[3]),iv=unhex(v[4]),plain=unhex(v[5]);
			bool used=v[6]=="1";
			std::unique_ptr<cr::cbc> a=make_cbc(bits,k1,iv,false),b=make_cbc(bits,k2,iv,false),c=make_cbc(bits,k1,iv,false);
			if(!a.get() || !b.get() || !c.get()) out<<"rekey null";
			else {
				if(used) { crypt(*a,plain,true); crypt(*a,plain,false); }
				int threw=0;
				try { a->set_key(cr::key(k2.data(),k2.size())); } catch(booster::runtime_error const &) { threw=1; }
				a->set_iv(iv.data(),iv.size());
				std::string c2=crypt(*a,plain,true),cb=crypt(*b,plain,true),cc=crypt(*c,plain,true);
				a->set_iv(iv.data(),iv.size());
				std::string p2=crypt(*a,cb,false);
				out<<"rekey threw="<<threw<<" new="<<(c2==cb)<<" old="<<(c2==cc)<<" decnew="<<(p2==plain);
			}
		}
		else if(v.size()>=2 && v[0]=="cbcst") {
			int bits=atoi(v[1].c_str());
			std::unique_ptr<cr::cbc> c=cr::cbc::create(bits==128?cr::cbc::aes128:bits==192?cr::cbc::aes192:cr::cbc::aes256);
			out<<"cbcst";
			if(!c.get()) out<<" null";
			else if(c->block_size()!=16 || c->key_size()!=unsigned(bits/8)) out<<" SIZES";
			else for(size_t i=2;i<v.size();i++) {
				std::string st="ok";
				try {
					char in[16]={0},o[16];
					std::string z(atoi(v[i].c_str()+1),'\x42');
					switch(v[i][0]) {
					case 'k': c->set_key(cr::key(z.data(),z.size())); break;
					case 'i': c->set_iv(z.data(),z.size()); break;
					case 'n': c->set_nonce_iv(); break;
					case 'e': c->encrypt(in,o,16); break;
					case 'd': c->decrypt(in,o,16); break;
					default: st="BAD-OP";
					}
				}
				catch(booster::invalid_argument const &e) {
					std::string w=e.what();
					st=ia_name(w);
				}
				catch(booster::runtime_error const &e) {
					std::string w=e.what();
					st=rt_name(w);
				}
				out<<" "<<st;
			}
		}
		else if(v.size()==2 && v[0]=="cbcname") {
			std::unique_ptr<cr::cbc> c=cr::cbc::create(unhex(v[1]));
			if(!c.get()) out<<"cbcname null"; else out<<"cbcname "<<c->key_size()<<" "<<c->block_size();
		}
		else if(v.size()>=2 && v[0]=="cbcobj") {
			// one object, any sequence of calls with real operands: k<hex> set_key, i<hex> set_iv, e<hex> encrypt, d<hex> decrypt
			// ("-" = empty operand); answer per call: status, and for a served encrypt/decrypt the output bytes
			int bits=atoi(v[1].c_str());
			std::unique_ptr<cr::cbc> c=cr::cbc::create(bits==128?cr::cbc::aes128:bits==192?cr::cbc::aes192:cr::cbc::aes256);
			out<<"cbcobj";
			if(!c.get()) out<<" null";
			else for(size_t i=2;i<v.size();i++) {
				std::string st="ok";
				try {
					std::string z=unhex(v[i].substr(1));
					switch(v[i][0]) {
					case 'k': c->set_key(cr::key(z.data(),z.size())); break;
					case 'i': { std::vector<char> b(z.begin(),z.end()); b.push_back(0); c->set_iv(&b[0],z.size()); } break;
					case 'e':
					case 'd': {
							std::vector<char> in(z.begin(),z.end()),o(z.size()+16,char(0xA5));
							in.push_back(0);
							if(v[i][0]=='e') c->encrypt(&in[0],&o[0],z.size()); else c->decrypt(&in[0],&o[0],z.size());
							bool over=false;
							for(size_t k=z.size();k<z.size()+16;k++) if(o[k]!=char(0xA5)) over=true;
							st= over ? "OVERRUN" : "ok:"+hex(std::string(&o[0],z.size()));
						}
						break;
					default: st="BAD-OP";
					}
				}
				catch(booster::invalid_argument const &e) { st=ia_name(e.what()); }
				catch(booster::runtime_error const &e) { st=rt_name(e.what()); }
				out<<" "<<st;
			}
		}
		else if(v.size()==5 && v[0]=="sess" && v[1]=="hmac") {
			std::string k=unhex(v[3]),plain=unhex(v[4]);
			cppcms::sessions::impl::hmac_factory f(v[2],cr::key(k.data(),k.size()));
			std::unique_ptr<cppcms::sessions::encryptor> e1=f.get(),e2=f.get();
			std::string c=e1->encrypt(plain),c2=e1->encrypt(plain),p="stale";
			bool ok=e2->decrypt(c,p);
			int bad=0;
			for(size_t i=0;i<c.size();i++) { std::string t=c; t[i]^=(1<<(i%8)); std::string q; if(e2->decrypt(t,q)) bad++; }
			std::string q; if(c.size()>0 && e2->decrypt(c.substr(0,c.size()-1),q)) bad++;
			out<<"sess hmac "<<hex(c)<<" det="<<(c==c2)<<" dec="<<(ok && p==plain)<<" forged="<<bad;
		}
		else if(v.size()==7 && v[0]=="sess" && v[1]=="aes") {
			std::string ck=unhex(v[4]),mk=unhex(v[5]),plain=unhex(v[6]);
			cppcms::sessions::impl::aes_factory f(v[2],cr::key(ck.data(),ck.size()),v[3],cr::key(mk.data(),mk.size()));
			std::unique_ptr<cppcms::sessions::encryptor> e1=f.get(),e2=f.get();
			std::string c=e1->encrypt(plain),c2=e1->encrypt(plain),p="stale",p2="stale";
			bool ok=e2->decrypt(c,p),ok2=e2->decrypt(c2,p2) && e1->decrypt(c,p2);
			int bad=0;
			for(size_t i=0;i<c.size();i+=(c.size()>200?7:1)) { std::string t=c; t[i]^=(1<<(i%8)); std::string q; if(e2->decrypt(t,q)) bad++; }
			std::string q; if(e2->decrypt(c.substr(0,c.size()-1),q)) bad++;
			if(c.size()>=16 && e2->decrypt(c.substr(16),q)) bad++;
			out<<"sess aes "<<hex(c)<<" fresh="<<(c!=c2)<<" dec="<<(ok && p==plain && ok2 && p2==plain)<<" forged="<<bad;
		}
		else if(v.size()==5 && v[0]=="sessd" && v[1]=="hmac") {
			// hmac_cipher::decrypt of a cookie made by the check (valid, boundary and malformed ones); twice on one object
			std::string k=unhex(v[3]),c=unhex(v[4]);
			cppcms::sessions::impl::hmac_factory f(v[2],cr::key(k.data(),k.size()));
			std::unique_ptr<cppcms::sessions::encryptor> e=f.get();
			std::string p1="stale",p2="stale";
			bool ok1=e->decrypt(c,p1),ok2=e->decrypt(c,p2);
			if(ok1!=ok2 || (ok1 && p1!=p2)) out<<"sessd PATHS-DIFFER";
			else if(ok1) out<<"sessd ok:"<<hex(p1); else out<<"sessd fail";
		}
		else if(v.size()==7 && v[0]=="sessd" && v[1]=="aes") {
			// aes_cipher::decrypt of a cookie made by the check; on two objects (each has its own nonce IV) and twice on the first
			std::string ck=unhex(v[4]),mk=unhex(v[5]),c=unhex(v[6]);
			cppcms::sessions::impl::aes_factory f(v[2],cr::key(ck.data(),ck.size()),v[3],cr::key(mk.data(),mk.size()));
			std::unique_ptr<cppcms::sessions::encryptor> e1=f.get(),e2=f.get();
			std::string p1="stale",p2="stale",p3="stale";
			bool ok1=e1->decrypt(c,p1),ok2=e1->decrypt(c,p2),ok3=e2->decrypt(c,p3);
			if(ok1!=ok2 || ok1!=ok3 || (ok1 && (p1!=p2 || p1!=p3))) out<<"sessd PATHS-DIFFER";
			else if(ok1) out<<"sessd ok:"<<hex(p1); else out<<"sessd fail";
		}
		else if(v.size()==4 && v[0]=="sessk") {
			// aes_factory(algo,key): one configured key split or stretched into the cbc key and the mac key
			std::string k=unhex(v[2]),plain=unhex(v[3]);
			try {
				cppcms::sessions::impl::aes_factory f(v[1],cr::key(k.data(),k.size()));
				std::unique_ptr<cppcms::sessions::encryptor> e1=f.get(),e2=f.get();
				std::string c=e1->encrypt(plain),p="stale";
				bool ok=e2->decrypt(c,p);
				out<<"sessk "<<hex(c)<<" dec="<<(ok && p==plain);
			}
			catch(booster::invalid_argument const &e) {
				std::string w=e.what();
				out<<"sessk "<<(w.find("invalid key length")!=std::string::npos ? "badkeylen" : w.find("not supported")!=std::string::npos ? "unsupported" : "invalid_argument");
			}
		}
		else out<<"BAD-CASE";
		}
		catch(std::exception const &e) { out.str(""); out<<v[0]<<" EXCEPTION "<<e.what(); }
		std::string o=out.str();
		for(size_t i=0;i<o.size();i++) if(o[i]=='\n') o[i]=' ';
		std::cout<<o<<"\n";
	}
	unlink(tmp.c_str());
	return 0;
}
