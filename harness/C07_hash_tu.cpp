// C07: translation unit for tools/cxx2v.py: private/hash_map.h with the nested typedef string_hash::state_type
// spelled as the type it names (uint32_t), which is the only form of the name the translator resolves.
// `typedef uint32_t uint32_t;` is a valid redeclaration, the function bodies are those of the header.
#include <cppcms/cstdint.h>
#include <stdint.h>
#define state_type uint32_t
#include "hash_map.h"
