// C13: the platform values of the st_mode bits that file_server::main and list_dir test, for tools/cxx2v.py
// (coq/gen/Gen_C13_mode.v; coq/C13/Link.v shows they are the numbers the model uses)
#include <sys/stat.h>
static const int c13_S_IFMT = S_IFMT;
static const int c13_S_IFDIR = S_IFDIR;
static const int c13_S_IFREG = S_IFREG;
static const int c13_S_IFIFO = S_IFIFO;
static const int c13_S_IFCHR = S_IFCHR;
static const int c13_S_IFBLK = S_IFBLK;
static const int c13_S_IFLNK = S_IFLNK;
static const int c13_S_IFSOCK = S_IFSOCK;
