// C17 correspondence harness, thread-pool part (real cppcms::thread_pool) and the multi-threaded stress cases.
//   pool  <ops>   one worker, gate jobs: the harness waits (condition variable, no sleeps) after every operation until
//                 the worker is parked (blocked in a gate job, or nothing left that it could take), so every queue
//                 state is deterministic.   ops:  P k kind(0 normal,1 throws std::exception,2 throws int,3 gate)
//                 C k (cancel the id post returned for k)   G k (open gate k)   S (stop)
//   pstress seed workers producers jobs     real threads post/cancel concurrently; only invariants are reported
//   lstress seed reactor producers ops      real threads post/arm/cancel against a running io_service
#include <cppcms/thread_pool.h>
#include <booster/function.h>
#include <booster/thread.h>
#include <booster/aio/io_service.h>
#include <booster/aio/deadline_timer.h>
#include <booster/aio/stream_socket.h>
#include <booster/aio/buffer.h>
#include <booster/aio/reactor.h>
#include <booster/aio/aio_category.h>
#include <booster/posix_time.h>
#include <booster/system_error.h>
#include <pthread.h>
#include <dlfcn.h>
#include <sys/socket.h>
#include <unistd.h>
#include <fcntl.h>
#include <stdexcept>
#include <map>
#include <set>
#include <vector>
#include <string>
#include <stdio.h>
#include <stdlib.h>
#include <time.h>
#include "C17_util.h"

namespace {
std::string itos(long long v) { char b[32]; snprintf(b, sizeof(b), "%lld", v); return b; }
std::string join(std::vector<std::string> const &v)
{
	if(v.empty()) return "-";
	std::string r;
	for(size_t i = 0; i < v.size(); i++) { if(i) r += ","; r += v[i]; }
	return r;
}

struct PState {
	pthread_mutex_t m;
	pthread_cond_t cv;
	std::vector<long> run;           // jobs in the order their body started
	std::set<long> waiting;          // posted, not cancelled, not started (mirror used only to know when the worker is parked)
	std::set<long> gate_open;
	long started, finished;
	long in_gate;                    // gate job currently blocked, or -1
	bool stopped;
	bool stop_at_join;               // the thread calling stop() has left stop()'s critical section and is joining the worker
	long started_at_stop;            // jobs started when stop() was called (-1: stop not called)
	bool early_stop;                 // stop() returned while a job body was still running
	cppcms::thread_pool *pool;
	PState() : started(0), finished(0), in_gate(-1), stopped(false), stop_at_join(false), started_at_stop(-1), early_stop(false), pool(0)
	{ pthread_mutex_init(&m, 0); pthread_cond_init(&cv, 0); }
};
__thread PState *t_stopper = 0;      // set in the helper thread that calls stop() while a gate job is running

struct Job {
	PState *st; long k; int kind;
	void operator()() const
	{
		pthread_mutex_lock(&st->m);
		st->run.push_back(k);
		st->started++;
		st->waiting.erase(k);
		if(kind == 3 && !st->gate_open.count(k)) {
			st->in_gate = k;
			pthread_cond_broadcast(&st->cv);
			while(!st->gate_open.count(k)) pthread_cond_wait(&st->cv, &st->m);
		}
		st->finished++;
		pthread_cond_broadcast(&st->cv);
		pthread_mutex_unlock(&st->m);
		if(kind == 1) throw std::runtime_error("job failed");
		if(kind == 2) throw 42;
	}
};

// wait until the single worker cannot make progress on its own; false on (very long) timeout
bool park(PState &st)
{
	struct timespec ts;
	clock_gettime(CLOCK_REALTIME, &ts);
	ts.tv_sec += 60;
	pthread_mutex_lock(&st.m);
	bool ok = true;
	while(!(st.stopped || st.in_gate >= 0 || (st.waiting.empty() && st.started == st.finished))) {
		if(pthread_cond_timedwait(&st.cv, &st.m, &ts) != 0) { ok = false; break; }
	}
	pthread_mutex_unlock(&st.m);
	return ok;
}
void *stopper_main(void *arg)
{
	PState *st = static_cast<PState *>(arg);
	t_stopper = st;
	st->pool->stop();                 // blocks in join until the running job has finished
	t_stopper = 0;
	pthread_mutex_lock(&st->m);
	if(st->started != st->finished) st->early_stop = true;
	st->stopped = true;
	pthread_cond_broadcast(&st->cv);
	pthread_mutex_unlock(&st->m);
	return 0;
}
} // anon

// std::thread::join -> pthread_join: lets the harness see that stop() has finished its critical section (shut_down_ is set)
// although stop() itself cannot return yet
extern "C" int pthread_join(pthread_t th, void **ret)
{
	typedef int (*join_t)(pthread_t, void **);
	static join_t real = (join_t)dlsym(RTLD_NEXT, "pthread_join");
	if(t_stopper) {
		PState *st = t_stopper;
		pthread_mutex_lock(&st->m);
		st->stop_at_join = true;
		pthread_cond_broadcast(&st->cv);
		pthread_mutex_unlock(&st->m);
	}
	return real(th, ret);
}

std::string c17_pool_case(std::vector<std::string> const &tok)
{
	PState st;
	std::vector<std::string> cres, flags;
	std::map<long, int> ids;
	{
		cppcms::thread_pool pool(1);
		st.pool = &pool;
		pthread_t stopper; bool have_stopper = false;
		for(size_t i = 1; i < tok.size();) {
			std::string const &t = tok[i];
			if(t == "P" && i + 2 < tok.size()) {
				long k = atol(tok[i + 1].c_str()); int kind = atoi(tok[i + 2].c_str());
				i += 3;
				if(ids.count(k)) continue;
				pthread_mutex_lock(&st.m);
				if(!st.stopped && st.started_at_stop < 0) st.waiting.insert(k);
				pthread_mutex_unlock(&st.m);
				Job j = { &st, k, kind };
				ids[k] = pool.post(j);
			}
			else if(t == "C" && i + 1 < tok.size()) {
				long k = atol(tok[i + 1].c_str());
				i += 2;
				if(!ids.count(k)) continue;
				bool r = pool.cancel(ids[k]);
				if(r) { pthread_mutex_lock(&st.m); st.waiting.erase(k); pthread_mutex_unlock(&st.m); }
				cres.push_back(itos(k) + ":" + (r ? "1" : "0"));
			}
			else if(t == "G" && i + 1 < tok.size()) {
				long k = atol(tok[i + 1].c_str());
				i += 2;
				pthread_mutex_lock(&st.m);
				st.gate_open.insert(k);
				if(st.in_gate == k) st.in_gate = -1;     // the blocked job will now proceed
				pthread_cond_broadcast(&st.cv);
				pthread_mutex_unlock(&st.m);
			}
			else if(t == "S") {
				i += 1;
				pthread_mutex_lock(&st.m);
				bool blocked = st.in_gate >= 0;
				bool again = st.started_at_stop >= 0;
				if(!again) st.started_at_stop = st.started;
				pthread_mutex_unlock(&st.m);
				if(again) continue;            // stop() is called once per pool
				if(blocked) {
					// a job is running (blocked in its gate): stop() must not return before it has finished, so call it from a
					// helper thread and go on with the script as soon as the helper is joining the worker
					if(pthread_create(&stopper, 0, stopper_main, &st) != 0) { flags.push_back("HARNESS-thread"); break; }
					have_stopper = true;
					struct timespec ts; clock_gettime(CLOCK_REALTIME, &ts); ts.tv_sec += 60;
					pthread_mutex_lock(&st.m);
					int rc = 0;
					while(rc == 0 && !st.stop_at_join && !st.stopped) rc = pthread_cond_timedwait(&st.cv, &st.m, &ts);
					pthread_mutex_unlock(&st.m);
					if(rc != 0) { flags.push_back("HANG"); break; }
				}
				else {
					pool.stop();
					pthread_mutex_lock(&st.m); st.stopped = true; pthread_mutex_unlock(&st.m);
				}
			}
			else { flags.push_back("HARNESS-badop"); break; }
			if(!park(st)) { flags.push_back("HANG"); break; }
		}
		// end of script: open every gate, let the worker drain what it still can
		pthread_mutex_lock(&st.m);
		for(std::map<long, int>::iterator p = ids.begin(); p != ids.end(); ++p) st.gate_open.insert(p->first);
		st.in_gate = -1;
		pthread_cond_broadcast(&st.cv);
		pthread_mutex_unlock(&st.m);
		// the gate job (if any) finishes, then the worker takes the remaining jobs one by one
		for(;;) {
			pthread_mutex_lock(&st.m);
			bool done = st.stopped || (st.in_gate < 0 && st.waiting.empty() && st.started == st.finished);
			pthread_mutex_unlock(&st.m);
			if(done) break;
			struct timespec ts; clock_gettime(CLOCK_REALTIME, &ts); ts.tv_sec += 60;
			pthread_mutex_lock(&st.m);
			int rc = 0;
			while(rc == 0 && !(st.stopped || (st.in_gate < 0 && st.waiting.empty() && st.started == st.finished)))
				rc = pthread_cond_timedwait(&st.cv, &st.m, &ts);
			pthread_mutex_unlock(&st.m);
			if(rc != 0) { flags.push_back("HANG"); break; }
		}
		if(have_stopper) pthread_join(stopper, 0);
	}   // ~thread_pool: stop + join
	if(st.early_stop) flags.push_back("EARLYSTOP");
	std::vector<std::string> run;
	for(size_t i = 0; i < st.run.size(); i++) run.push_back(itos(st.run[i]));
	return "pool run=" + join(run) + " cancel=" + join(cres) + " stop=" + (st.started_at_stop < 0 ? std::string("-") : itos(st.started_at_stop)) + " flags=" + join(flags);
}

// ---------------------------------------------------------------------------------------------------------------
// multi-threaded stress: only invariants are reported (the schedule is not reproducible)
namespace {
struct SJob { std::vector<int> *cnt; pthread_mutex_t *m; int k; bool thr;
	void operator()() const { pthread_mutex_lock(m); (*cnt)[k]++; pthread_mutex_unlock(m); if(thr) throw std::runtime_error("x"); } };
struct Producer { cppcms::thread_pool *pool; std::vector<int> *cnt; std::vector<int> *cancelled; pthread_mutex_t *m; int from, to; unsigned seed;
	void operator()() {
		std::vector<std::pair<int,int> > mine;
		for(int k = from; k < to; k++) {
			SJob j = { cnt, m, k, (rand_r(&seed) % 7) == 0 };
			mine.push_back(std::make_pair(k, pool->post(j)));
			if(rand_r(&seed) % 3 == 0) {
				std::pair<int,int> v = mine[rand_r(&seed) % mine.size()];
				if(pool->cancel(v.second)) { pthread_mutex_lock(m); (*cancelled)[v.first]++; pthread_mutex_unlock(m); }
			}
		}
	} };
}

std::string c17_pool_stress(std::vector<std::string> const &tok)
{
	if(tok.size() < 5) return "pstress BAD-CASE";
	unsigned seed = atoi(tok[1].c_str()); int workers = atoi(tok[2].c_str()), producers = atoi(tok[3].c_str()), jobs = atoi(tok[4].c_str());
	int total = producers * jobs;
	std::vector<int> cnt(total + 1, 0), cancelled(total + 1, 0);
	pthread_mutex_t m; pthread_mutex_init(&m, 0);
	{
		cppcms::thread_pool pool(workers);
		std::vector<booster::thread *> th;
		for(int p = 0; p < producers; p++) {
			Producer pr = { &pool, &cnt, &cancelled, &m, p * jobs, (p + 1) * jobs, seed * 7919u + p };
			th.push_back(new booster::thread(pr));
		}
		for(size_t i = 0; i < th.size(); i++) { th[i]->join(); delete th[i]; }
		// sentinels: FIFO queue, so when `workers` sentinels are all inside their body every earlier job has been taken;
		// wait until every job has run or was cancelled (bounded wait, generous)
		struct timespec t0; clock_gettime(CLOCK_MONOTONIC, &t0);
		for(;;) {
			bool all = true;
			pthread_mutex_lock(&m);
			for(int k = 0; k < total; k++) if(cnt[k] + cancelled[k] == 0) all = false;
			pthread_mutex_unlock(&m);
			if(all) break;
			struct timespec t1; clock_gettime(CLOCK_MONOTONIC, &t1);
			if(t1.tv_sec - t0.tv_sec > 60) break;
			struct timespec nap = { 0, 2000000 }; nanosleep(&nap, 0);
		}
	}
	for(int k = 0; k < total; k++) {
		if(cnt[k] > 1) return "pstress job-ran-twice " + itos(k);
		if(cancelled[k] > 1) return "pstress job-cancelled-twice " + itos(k);
		if(cnt[k] + cancelled[k] > 1) return "pstress cancelled-job-ran " + itos(k);
		if(cnt[k] + cancelled[k] == 0) return "pstress job-lost " + itos(k);
	}
	return "pstress ok";
}

// pstop seed workers producers jobs: stop() racing with post()/cancel() from the producers.  Invariants only: no job twice, a
// cancelled job never runs, no job body is running when stop() returns, and no job body starts after stop() has returned.
namespace {
struct TState { pthread_mutex_t m; std::vector<int> cnt, cancelled; int running; bool stop_returned; std::string problem; };
struct TJob { TState *s; int k; bool thr;
	void operator()() const {
		pthread_mutex_lock(&s->m);
		if(s->stop_returned && s->problem.empty()) s->problem = "job-started-after-stop-returned " + itos(k);
		s->cnt[k]++; s->running++;
		pthread_mutex_unlock(&s->m);
		if(k % 5 == 0) sched_yield();
		pthread_mutex_lock(&s->m); s->running--; pthread_mutex_unlock(&s->m);
		if(thr) throw std::runtime_error("x");
	} };
struct TProducer { cppcms::thread_pool *pool; TState *s; int from, to; unsigned seed;
	void operator()() {
		std::vector<std::pair<int,int> > mine;
		for(int k = from; k < to; k++) {
			TJob j = { s, k, (rand_r(&seed) % 7) == 0 };
			mine.push_back(std::make_pair(k, pool->post(j)));
			if(rand_r(&seed) % 3 == 0) {
				std::pair<int,int> v = mine[rand_r(&seed) % mine.size()];
				if(pool->cancel(v.second)) { pthread_mutex_lock(&s->m); s->cancelled[v.first]++; pthread_mutex_unlock(&s->m); }
			}
			if(rand_r(&seed) % 8 == 0) sched_yield();
		}
	} };
}

std::string c17_pool_stop_stress(std::vector<std::string> const &tok)
{
	if(tok.size() < 5) return "pstop BAD-CASE";
	unsigned seed = atoi(tok[1].c_str()); int workers = atoi(tok[2].c_str()), producers = atoi(tok[3].c_str()), jobs = atoi(tok[4].c_str());
	int total = producers * jobs;
	TState st; pthread_mutex_init(&st.m, 0); st.cnt.assign(total + 1, 0); st.cancelled.assign(total + 1, 0); st.running = 0; st.stop_returned = false;
	{
		cppcms::thread_pool pool(workers);
		std::vector<booster::thread *> th;
		for(int p = 0; p < producers; p++) {
			TProducer pr = { &pool, &st, p * jobs, (p + 1) * jobs, seed * 7919u + p };
			th.push_back(new booster::thread(pr));
		}
		// stop somewhere in the middle of the posting (the producers go on posting to the stopped pool)
		unsigned s2 = seed;
		int spins = rand_r(&s2) % 200;
		for(int i = 0; i < spins; i++) sched_yield();
		pool.stop();
		pthread_mutex_lock(&st.m);
		if(st.running != 0 && st.problem.empty()) st.problem = "stop-returned-while-job-running";
		st.stop_returned = true;
		pthread_mutex_unlock(&st.m);
		for(size_t i = 0; i < th.size(); i++) { th[i]->join(); delete th[i]; }
	}
	if(!st.problem.empty()) return "pstop " + st.problem;
	for(int k = 0; k < total; k++) {
		if(st.cnt[k] > 1) return "pstop job-ran-twice " + itos(k);
		if(st.cancelled[k] > 1) return "pstop job-cancelled-twice " + itos(k);
		if(st.cnt[k] + st.cancelled[k] > 1) return "pstop cancelled-job-ran " + itos(k);
	}
	return "pstop ok";
}

namespace {
namespace aio = booster::aio;
struct LS {
	aio::io_service *srv;
	pthread_mutex_t m;
	std::vector<int> cnt;          // invocations per handler
	std::vector<int> kind;         // 0 post 1 timer 2 io
	std::vector<long long> deadline_us;
	std::string problem;
	pthread_t loop_thread;
	int next;
	bool loop_done;
	pthread_cond_t cv;
	LS() : next(0), loop_done(false) { pthread_mutex_init(&m, 0); pthread_cond_init(&cv, 0); }
	int fresh(int kd, long long dl = 0) {
		pthread_mutex_lock(&m);
		int k = next++;
		cnt.push_back(0); kind.push_back(kd); deadline_us.push_back(dl);
		pthread_mutex_unlock(&m);
		return k;
	}
	void ran(int k, booster::system::error_code const &e) {
		long long now = booster::ptime::microseconds(booster::ptime::now());
		pthread_mutex_lock(&m);
		cnt[k]++;
		if(!pthread_equal(pthread_self(), loop_thread) && problem.empty()) problem = "handler-on-wrong-thread " + itos(k);
		if(kind[k] == 0 && e && problem.empty()) problem = "post-bad-code " + itos(k);
		if(kind[k] == 1 && !e && now < deadline_us[k] && problem.empty()) problem = "timer-early " + itos(k);
		if(kind[k] == 1 && e && !(e.category() == aio::aio_error_cat && e.value() == aio::aio_error::canceled) && problem.empty())
			problem = "timer-bad-code " + itos(k);
		pthread_mutex_unlock(&m);
	}
};
struct LH0 { LS *s; int k; void operator()() const { s->ran(k, booster::system::error_code()); } };
struct LH1 { LS *s; int k; void operator()(booster::system::error_code const &e) const { s->ran(k, e); } };
// user handler of stream_socket::async_read_some issued from a producer thread
struct LH2 { LS *s; int k; void operator()(booster::system::error_code const &e, size_t n) const {
	if((!e) != (n > 0)) { pthread_mutex_lock(&s->m); if(s->problem.empty()) s->problem = "read-some-bad-count " + itos(k); pthread_mutex_unlock(&s->m); }
	s->ran(k, e); } };
struct LProducer {
	LS *s; int ops; unsigned seed; int fa[2], fb[2];
	aio::stream_socket *sock[2];     // attached to fa[]: half of the descriptor waits go through async_read_some
	char rbuf[2][64];
	void operator()() {
		std::vector<int> timers;
		int last[2] = { -1, -1 };
		for(int i = 0; i < ops; i++) {
			int r = rand_r(&seed) % 100;
			if(r < 40) { LH0 h = { s, s->fresh(0) }; s->srv->post(h); }
			else if(r < 65) {
				booster::ptime dl = booster::ptime::now() + booster::ptime::microseconds(rand_r(&seed) % 3000);
				LH1 h = { s, s->fresh(1, booster::ptime::microseconds(dl)) };
				timers.push_back(s->srv->set_timer_event(dl, h));
			}
			else if(r < 75) { if(!timers.empty()) s->srv->cancel_timer_event(timers[rand_r(&seed) % timers.size()]); }
			else if(r < 90) {
				int f = rand_r(&seed) % 2;
				// API contract: at most one outstanding wait per descriptor and direction - arm again only after the
				// previous completion has been delivered (arm; cancel; arm without waiting is the input class of
				// finding 2, see docs/C17.md)
				bool free_slot = last[f] < 0;
				if(!free_slot) { pthread_mutex_lock(&s->m); free_slot = s->cnt[last[f]] > 0; pthread_mutex_unlock(&s->m); }
				if(free_slot) {
					int k = s->fresh(2);
					last[f] = k;
					if(rand_r(&seed) % 2) { LH2 h2 = { s, k }; sock[f]->async_read_some(aio::buffer(rbuf[f], sizeof(rbuf[f])), h2); }
					else { LH1 h = { s, k }; s->srv->set_io_event(fa[f], aio::io_events::in, h); }
					if(rand_r(&seed) % 2) { char c = 'x'; if(::write(fb[f], &c, 1) < 0) {} }
				}
			}
			else { int f = rand_r(&seed) % 2; s->srv->cancel_io_events(fa[f]); }
			if(rand_r(&seed) % 16 == 0) sched_yield();
		}
	}
};
struct LFence {
	LS *s; long long give_up_us;
	void operator()(booster::system::error_code const &) const {
		bool all = true;
		pthread_mutex_lock(&s->m);
		for(size_t k = 0; k < s->cnt.size(); k++) if(s->cnt[k] == 0) all = false;
		pthread_mutex_unlock(&s->m);
		if(all || booster::ptime::microseconds(booster::ptime::now()) > give_up_us) { s->srv->stop(); return; }
		LFence again = *this;
		s->srv->set_timer_event(booster::ptime::now() + booster::ptime::milliseconds(2), again);
	}
};
struct LFinal {
	LS *s; std::vector<int> fds;
	void operator()() const {
		for(size_t i = 0; i < fds.size(); i++) s->srv->cancel_io_events(fds[i]);
		LFence fence = { s, booster::ptime::microseconds(booster::ptime::now()) + 30000000LL };
		s->srv->set_timer_event(booster::ptime::now(), fence);
	}
};
struct LRunner { LS *s; void operator()() {
	s->loop_thread = pthread_self();
	try { s->srv->run(); } catch(...) { pthread_mutex_lock(&s->m); if(s->problem.empty()) s->problem = "run-threw"; pthread_mutex_unlock(&s->m); }
	pthread_mutex_lock(&s->m); s->loop_done = true; pthread_cond_broadcast(&s->cv); pthread_mutex_unlock(&s->m);
} };
}

// lstress seed reactor(e|p|s) producers ops
std::string c17_loop_stress(std::vector<std::string> const &tok)
{
	if(tok.size() < 5) return "lstress BAD-CASE";
	unsigned seed = atoi(tok[1].c_str());
	int reactor = tok[2] == "e" ? aio::reactor::use_epoll : tok[2] == "p" ? aio::reactor::use_poll : aio::reactor::use_select;
	int producers = atoi(tok[3].c_str()), ops = atoi(tok[4].c_str());
	LS st;
	aio::io_service srv(reactor);
	st.srv = &srv;
	st.loop_thread = pthread_self();
	std::vector<LProducer> prod(producers);
	for(int p = 0; p < producers; p++) {
		prod[p].s = &st; prod[p].ops = ops; prod[p].seed = seed * 104729u + p;
		for(int f = 0; f < 2; f++) {
			int sv[2];
			if(socketpair(AF_UNIX, SOCK_STREAM, 0, sv) < 0) return "lstress HARNESS-socketpair";
			fcntl(sv[0], F_SETFL, fcntl(sv[0], F_GETFL, 0) | O_NONBLOCK);
			fcntl(sv[1], F_SETFL, fcntl(sv[1], F_GETFL, 0) | O_NONBLOCK);
			prod[p].fa[f] = sv[0]; prod[p].fb[f] = sv[1];
			prod[p].sock[f] = new aio::stream_socket(srv);
			prod[p].sock[f]->attach(sv[0]);      // not the owner: the descriptor is closed below
		}
	}
	// keep the loop alive until the fence stops it
	{ LH0 h = { &st, st.fresh(0) }; srv.post(h); }
	LRunner lr = { &st };
	booster::thread loop(lr);
	std::vector<booster::thread *> th;
	for(int p = 0; p < producers; p++) th.push_back(new booster::thread(prod[p]));
	for(size_t i = 0; i < th.size(); i++) { th[i]->join(); delete th[i]; }
	// everything has been submitted: cancel every descriptor wait, let timers expire, stop when all handlers ran.
	// The cancels are issued from a handler posted now, i.e. by the loop thread after every setter the producers
	// queued has been executed: cancelling from this thread instead can overtake a still queued setter (finding 2 in
	// docs/C17.md - this stress test did find it that way) and the handler would then stay registered for ever.
	std::vector<int> fds;
	for(int p = 0; p < producers; p++) for(int f = 0; f < 2; f++) fds.push_back(prod[p].fa[f]);
	LFinal fin = { &st, fds };
	srv.post(fin);
	{
		// the fence stops the loop within 30 s at the latest; a loop that does not even notice the posted handler
		// (lost wake-up) would sleep for an hour: report it and force it out with stop()
		struct timespec ts; clock_gettime(CLOCK_REALTIME, &ts); ts.tv_sec += 45;
		pthread_mutex_lock(&st.m);
		int rc = 0;
		while(!st.loop_done && rc == 0) rc = pthread_cond_timedwait(&st.cv, &st.m, &ts);
		bool stuck = !st.loop_done;
		if(stuck && st.problem.empty()) st.problem = "loop-stuck";
		pthread_mutex_unlock(&st.m);
		if(stuck) srv.stop();
	}
	loop.join();
	for(int p = 0; p < producers; p++) for(int f = 0; f < 2; f++) { delete prod[p].sock[f]; ::close(prod[p].fa[f]); ::close(prod[p].fb[f]); }
	if(!st.problem.empty()) return "lstress " + st.problem;
	for(size_t k = 0; k < st.cnt.size(); k++) {
		if(st.cnt[k] > 1) return "lstress handler-ran-twice " + itos(k) + " kind" + itos(st.kind[k]);
		if(st.cnt[k] == 0) return "lstress handler-never-ran " + itos(k) + " kind" + itos(st.kind[k]);
	}
	return "lstress ok";
}
