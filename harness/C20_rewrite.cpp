// C20 correspondence harness, part 2: cppcms::impl::url_rewriter (private/rewrite.h, the rules of http.rewrite).
// Case line:  W N<n> (<pattern token> <hex of rewrite pattern> <final 0|1>)*n Q <hex url>*
// Answer:     hex of the rewritten url per query, separated by " | "; CONSTRUCT-ERROR / REGEX-ERROR when the rule
//             set cannot be built.
#include <cppcms/json.h>
#include <cppcms/cppcms_error.h>
#include <booster/regex.h>
#include "rewrite.h"       // /repo/private/rewrite.h (string_map.h provides string_pool)
#include "hexio.h"
#include <string.h>
#include <sstream>
#include <iostream>
#include <stdexcept>
#include <memory>
using namespace hx;

static std::string pat_text(std::string const &tok)
{
	size_t p=tok.find(':');
	if(p==std::string::npos) throw std::runtime_error("abstract pattern");
	return unhex(tok.substr(0,p));
}

static std::string run(std::vector<std::string> const &v)
{
	size_t i=1;
	if(i>=v.size() || v[i].empty() || v[i][0]!='N') throw std::runtime_error("count");
	int n=atoi(v[i].c_str()+1); i++;
	cppcms::json::array rules;
	for(int k=0;k<n;k++) {
		if(i+2>=v.size()) throw std::runtime_error("eof");
		cppcms::json::value r;
		r["regex"]=pat_text(v[i]);
		r["pattern"]=unhex(v[i+1]);
		r["final"]=(v[i+2]=="1");
		rules.push_back(r);
		i+=3;
	}
	if(i>=v.size() || v[i]!="Q") throw std::runtime_error("expected Q");
	i++;
	std::unique_ptr<cppcms::impl::url_rewriter> rw;
	try { rw.reset(new cppcms::impl::url_rewriter(rules)); }
	catch(cppcms::cppcms_error const &) { return "CONSTRUCT-ERROR"; }
	catch(booster::regex_error const &) { return "REGEX-ERROR"; }
	std::ostringstream out;
	bool first=true;
	for(;i<v.size();i++) {
		std::string url=unhex(v[i]);
		std::vector<char> buf(url.begin(),url.end());
		buf.push_back(0);
		cppcms::impl::string_pool pool;
		char *res=rw->rewrite(&buf[0],pool);
		if(!first) out<<" | ";
		first=false;
		out<<hex(std::string(res));
	}
	return out.str();
}

int main()
{
	std::string line;
	while(std::getline(std::cin,line)) {
		std::vector<std::string> v=split(line);
		std::string r;
		try {
			if(v.empty() || v[0]!="W") r="BAD-CASE";
			else r=run(v);
		}
		catch(std::exception const &e) { r=std::string("HARNESS-EXN ")+e.what(); }
		std::cout<<r<<"\n";
	}
	std::cout.flush();
	return 0;
}
