// C04 correspondence / oracle harness: cppcms::xss::validate, validate_and_filter_if_invalid and both
// filter() overloads of the current tree, driven by a rule set that is built through the public
// cppcms::xss::rules API from a textual description.
//
// case line (space separated key=value fields, any order):
//   m=x|h            xhtml_input / html_input
//   c=0|1 n=0|1      comments_allowed / numeric_entities_allowed
//   enc=<name>|-     rules::encoding
//   ent=<hex>,..|-   add_entity for each
//   fun=<hex>,..|-   validator specs (hex of text): re:<regex> | uri | uris:<scheme> | abs:<scheme> | rel
//   tags=<namehex>:<kind>[:<attrhex>~<vk>,..];..|-   kind 0..3 (0 = never add_tag, only its properties),
//                    vk = b (boolean) | i (integer) | f<k> (validator number k of fun=)
//   repl=<0..255>    replacement char given to the filter
//   in=<hex>|-       input text
// answer:
//   v=<validate> fl=<validate_and_filter_if_invalid result> rm=<filter remove_invalid> es=<filter escape_invalid>
//   vrm=<validate(rm)> ves=<validate(es)> [PATHS-DIFFER ...] | F=<k>:<valuehex>:<0|1>,.. E=<texthex>:<valid>:<vof>:<filteredhex>,..
// The part after " | " is the oracle table for the model: every call the library made to validator k
// (recorded by a wrapper around the real functor) and the answers of cppcms::encoding::valid /
// validate_or_filter for the input and both outputs.  (E= is printed for diagnosis only: the model computes the
// encoding verdicts itself - coq/C04/DefsE.v - so that a defect inside the real encoding validators is a
// correspondence difference; the model driver ignores E=.)
// For an encoding that is not ASCII compatible (A=0) the library converts to UTF-8, runs the UTF-8 pipeline with
// replacement character 0 and converts back; then
//   U=<texthex>:<stop ok 0|1>:<to_utf stop hex>:<to_utf skip hex>,..   for the input and both outputs
//   E=...                                 valid("UTF-8",.) / validate_or_filter("UTF-8",.,0) of the converted texts
//   J=<0|1>                      the rule set could also be built through the JSON constructor and was compared (PATHS-DIFFER:json-rules)
//   S=<k>:<schemehex>:<0|1>,..   answers of the scheme regular expression of URI validator k (the URI parser itself is modelled)
//   V=<utf8hex>:<ok 0|1>:<from_utf stop hex>,..  for the UTF-8 text that the library converts back; that text is
//                                         obtained from the library itself: filter() of the converted input under the
//                                         same rules with encoding UTF-8.
#include <cppcms/xss.h>
#include <cppcms/encoding.h>
#include <cppcms/json.h>
#include <booster/regex.h>
#include <booster/locale/encoding.h>
#include <map>
#include <set>
#include <memory>
#include <string.h>
#include <stdlib.h>
#include "hexio.h"
using namespace hx;
namespace xss = cppcms::xss;

typedef std::set<std::pair<int,std::pair<std::string,bool> > > log_type;
static log_type *g_log = 0;
static log_type *g_slog = 0;   // (validator, scheme range, answer of the scheme regular expression)

struct logging_validator {
	int id;
	xss::rules::validator_type inner;
	bool has_scheme_re;
	booster::regex scheme_re;
	bool operator()(char const *b,char const *e) const
	{
		bool r = inner(b,e);
		if(g_log) g_log->insert(std::make_pair(id,std::make_pair(std::string(b,e),r)));
		if(g_slog && has_scheme_re) {
			// the answers of the scheme regular expression that the model of uri_validator_functor may ask for:
			// on the lexical scheme prefix ALPHA *( ALPHA / DIGIT / + - . ) of the value and on the empty range
			char const *p=b;
			if(p!=e && (('a'<=*p && *p<='z') || ('A'<=*p && *p<='Z'))) {
				p++;
				while(p!=e && (('a'<=*p && *p<='z') || ('A'<=*p && *p<='Z') || ('0'<=*p && *p<='9') || *p=='+' || *p=='-' || *p=='.'))
					p++;
			}
			g_slog->insert(std::make_pair(id,std::make_pair(std::string(b,p),booster::regex_match(b,p,scheme_re))));
			g_slog->insert(std::make_pair(id,std::make_pair(std::string(),booster::regex_match(b,b,scheme_re))));
		}
		return r;
	}
};
static bool scheme_of_spec(std::string const &spec,std::string &re)
{
	if(spec=="uri") { re="(http|https|ftp|mailto|news|nntp)"; return true; }
	if(spec.compare(0,5,"uris:")==0) { re=spec.substr(5); return true; }
	if(spec.compare(0,4,"abs:")==0) { re=spec.substr(4); return true; }
	return false;
}
struct plain_regex {
	booster::regex r;
	bool operator()(char const *b,char const *e) const { return booster::regex_match(b,e,r); }
};

static std::vector<std::string> split_on(std::string const &s,char c)
{
	std::vector<std::string> v;
	if(s=="-" || s.empty()) return v;
	size_t p=0;
	for(;;) {
		size_t q=s.find(c,p);
		if(q==std::string::npos) { v.push_back(s.substr(p)); break; }
		v.push_back(s.substr(p,q-p));
		p=q+1;
	}
	return v;
}

struct ruleset {
	xss::rules logged, plain, u8, json;
	bool has_json;
	std::string enc;
	bool ok;
	std::string err;
};

static std::map<std::string,std::shared_ptr<ruleset> > cache;

static xss::rules::validator_type make_validator(std::string const &spec)
{
	if(spec.compare(0,3,"re:")==0) { plain_regex p; p.r=booster::regex(spec.substr(3)); return p; }
	if(spec=="uri") return xss::rules::uri_validator();
	if(spec.compare(0,5,"uris:")==0) return xss::rules::uri_validator(spec.substr(5));
	if(spec.compare(0,4,"abs:")==0) return xss::rules::uri_validator(spec.substr(4),true);
	if(spec=="rel") return xss::rules::relative_uri_validator();
	throw std::runtime_error("bad validator spec "+spec);
}

static void add_plain(xss::rules &r,std::string const &tag,std::string const &attr,std::string const &spec)
{
	// the convenience overloads of the public API (no wrapper)
	if(spec.compare(0,3,"re:")==0) r.add_property(tag,attr,booster::regex(spec.substr(3)));
	else if(spec=="uri") r.add_uri_property(tag,attr);
	else if(spec.compare(0,5,"uris:")==0) r.add_uri_property(tag,attr,spec.substr(5));
	else r.add_property(tag,attr,make_validator(spec));
}

// the same rule set through the JSON constructor of xss::rules, where JSON can express it (every tag listed in "tags",
// no tag twice); returns false otherwise
static bool build_json(std::map<std::string,std::string> &f,std::vector<std::string> const &funs,xss::rules &out)
{
	namespace json = cppcms::json;
	try {
		json::value v;
		v.set("xhtml",f["m"]!="h");
		v.set("comments",f["c"]=="1");
		v.set("numeric_entities",f["n"]=="1");
		std::vector<std::string> ents=split_on(f["ent"],',');
		for(size_t i=0;i<ents.size();i++) ents[i]=unhex(ents[i]);
		v.set("entities",ents);
		if(f["enc"]!="-" && !f["enc"].empty()) v.set("encoding",f["enc"]);
		std::vector<std::string> kinds[4];
		json::array attrs;
		std::vector<std::string> tags=split_on(f["tags"],';');
		for(size_t i=0;i<tags.size();i++) {
			std::vector<std::string> t=split_on(tags[i],':');
			if(t.size()<2) return false;
			std::string name=unhex(t[0]);
			int kind=atoi(t[1].c_str());
			if(kind<1 || kind>3) return false;
			kinds[kind].push_back(name);
			if(t.size()<3) continue;
			std::vector<std::string> as=split_on(t[2],',');
			for(size_t j=0;j<as.size();j++) {
				size_t p=as[j].find('~');
				if(p==std::string::npos) return false;
				std::string an=unhex(as[j].substr(0,p));
				std::string vk=as[j].substr(p+1);
				json::value a;
				if(vk=="b") a.set("type","boolean");
				else if(vk=="i") a.set("type","integer");
				else if(vk[0]=='f') {
					size_t k=atoi(vk.c_str()+1);
					if(k>=funs.size()) return false;
					std::string const &spec=funs[k];
					if(spec.compare(0,3,"re:")==0) { a.set("type","regex"); a.set("expression",spec.substr(3)); }
					else if(spec=="uri") a.set("type","uri");
					else if(spec.compare(0,5,"uris:")==0) { a.set("type","uri"); a.set("scheme",spec.substr(5)); }
					else if(spec.compare(0,4,"abs:")==0) { a.set("type","absolute_uri"); a.set("scheme",spec.substr(4)); }
					else if(spec=="rel") a.set("type","relative_uri");
					else return false;
				}
				else return false;
				json::value pr; pr.set("tag",name); pr.set("attr",an);
				json::array prs; prs.push_back(pr);
				a["pairs"]=prs;
				attrs.push_back(a);
			}
		}
		v.set("tags.opening_and_closing",kinds[1]);
		v.set("tags.stand_alone",kinds[2]);
		v.set("tags.any_tag",kinds[3]);
		if(!attrs.empty()) v["attributes"]=attrs;
		out = xss::rules(v);
		return true;
	}
	catch(std::exception const &) { return false; }
}

static std::shared_ptr<ruleset> build(std::map<std::string,std::string> &f)
{
	std::string key = f["m"]+" "+f["c"]+" "+f["n"]+" "+f["enc"]+" "+f["ent"]+" "+f["fun"]+" "+f["tags"];
	std::map<std::string,std::shared_ptr<ruleset> >::iterator it=cache.find(key);
	if(it!=cache.end()) return it->second;
	std::shared_ptr<ruleset> rs(new ruleset());
	rs->ok=true;
	try {
		xss::rules *both[3]={&rs->logged,&rs->plain,&rs->u8};
		std::vector<std::string> funs=split_on(f["fun"],',');
		for(size_t i=0;i<funs.size();i++) funs[i]=unhex(funs[i]);
		for(int w=0;w<3;w++) {
			xss::rules &r=*both[w];
			// mode first: add_tag / add_entity / add_property go to the holder of the current mode
			r.html(f["m"]=="h" ? xss::rules::html_input : xss::rules::xhtml_input);
			r.comments_allowed(f["c"]=="1");
			r.numeric_entities_allowed(f["n"]=="1");
			if(f["enc"]!="-" && !f["enc"].empty()) r.encoding(w==2 ? std::string("UTF-8") : f["enc"]);
			std::vector<std::string> ents=split_on(f["ent"],',');
			for(size_t i=0;i<ents.size();i++) r.add_entity(unhex(ents[i]));
			std::vector<std::string> tags=split_on(f["tags"],';');
			for(size_t i=0;i<tags.size();i++) {
				std::vector<std::string> t=split_on(tags[i],':');
				if(t.size()<2) throw std::runtime_error("bad tag");
				std::string name=unhex(t[0]);
				int kind=atoi(t[1].c_str());
				if(kind!=0) r.add_tag(name,xss::rules::tag_type(kind));
				if(t.size()<3) continue;
				std::vector<std::string> attrs=split_on(t[2],',');
				for(size_t j=0;j<attrs.size();j++) {
					size_t p=attrs[j].find('~');
					if(p==std::string::npos) throw std::runtime_error("bad attr");
					std::string an=unhex(attrs[j].substr(0,p));
					std::string vk=attrs[j].substr(p+1);
					if(vk=="b") r.add_boolean_property(name,an);
					else if(vk=="i") r.add_integer_property(name,an);
					else if(vk[0]=='f') {
						size_t k=atoi(vk.c_str()+1);
						if(k>=funs.size()) throw std::runtime_error("bad fun index");
						if(w!=1) {
							logging_validator lv; lv.id=int(k); lv.inner=make_validator(funs[k]);
							std::string sre;
							lv.has_scheme_re=scheme_of_spec(funs[k],sre);
							if(lv.has_scheme_re) lv.scheme_re=booster::regex(sre);
							r.add_property(name,an,xss::rules::validator_type(lv));
						}
						else add_plain(r,name,an,funs[k]);
					}
					else throw std::runtime_error("bad vk");
				}
			}
		}
		rs->enc = (f["enc"]=="-") ? std::string() : f["enc"];
		rs->has_json = build_json(f,funs,rs->json);
	}
	catch(std::exception const &e) { rs->ok=false; rs->err=e.what(); }
	if(cache.size()>200) cache.clear();
	cache[key]=rs;
	return rs;
}

static char b01(bool b){ return b?'1':'0'; }

int main()
{
	std::string line;
	while(std::getline(std::cin,line)) {
		std::vector<std::string> v=split(line);
		std::map<std::string,std::string> f;
		for(size_t i=0;i<v.size();i++) {
			size_t p=v[i].find('=');
			if(p!=std::string::npos) f[v[i].substr(0,p)]=v[i].substr(p+1);
		}
		std::ostringstream out;
		std::shared_ptr<ruleset> rs=build(f);
		if(!rs->ok) { std::cout<<"BAD-RULES "<<rs->err<<"\n"; continue; }
		std::string in=unhex(f["in"]);
		char repl=char(atoi(f["repl"].c_str()));
		log_type log,slog;
		std::string diff;
		try {
			char const *b=in.c_str(), *e=b+in.size();
			g_log=&log; g_slog=&slog;
			bool val=xss::validate(b,e,rs->logged);
			std::string o_rm, o_es;
			bool fl_rm=xss::validate_and_filter_if_invalid(b,e,rs->logged,o_rm,xss::remove_invalid,repl);
			bool fl_es=xss::validate_and_filter_if_invalid(b,e,rs->logged,o_es,xss::escape_invalid,repl);
			if(fl_rm!=fl_es) diff+=" PATHS-DIFFER:flag-depends-on-method";
			if(fl_rm && !o_rm.empty()) diff+=" PATHS-DIFFER:output-touched-when-valid";
			std::string rm=xss::filter(b,e,rs->logged,xss::remove_invalid,repl);
			std::string es=xss::filter(b,e,rs->logged,xss::escape_invalid,repl);
			if(!fl_rm && (rm!=o_rm || es!=o_es)) diff+=" PATHS-DIFFER:filter-vs-validate_and_filter";
			if(xss::filter(in,rs->logged,xss::remove_invalid,repl)!=rm || xss::filter(in,rs->logged,xss::escape_invalid,repl)!=es)
				diff+=" PATHS-DIFFER:filter-string-overload";
			bool vrm=xss::validate(rm.c_str(),rm.c_str()+rm.size(),rs->logged);
			bool ves=xss::validate(es.c_str(),es.c_str()+es.size(),rs->logged);
			g_log=0; g_slog=0;
			// same through the rule set registered with the convenience overloads
			if(xss::validate(b,e,rs->plain)!=val || xss::filter(in,rs->plain,xss::remove_invalid,repl)!=rm
			   || xss::filter(in,rs->plain,xss::escape_invalid,repl)!=es) {
				// the rule set registered with the convenience overloads runs the library's own regex_functor / uri validators:
				// its answers are printed so that the oracle can judge them too (PV PRM PES)
				diff+=" PATHS-DIFFER:plain-api-rules";
				diff+=std::string(" PV=")+b01(xss::validate(b,e,rs->plain))
					+" PRM="+hex(xss::filter(in,rs->plain,xss::remove_invalid,repl))
					+" PES="+hex(xss::filter(in,rs->plain,xss::escape_invalid,repl));
			}
			// and through the rule set loaded from JSON
			if(rs->has_json && (xss::validate(b,e,rs->json)!=val || xss::filter(in,rs->json,xss::remove_invalid,repl)!=rm
			   || xss::filter(in,rs->json,xss::escape_invalid,repl)!=es))
				diff+=" PATHS-DIFFER:json-rules";
			out<<"v="<<b01(val)<<" fl="<<b01(fl_rm)<<" rm="<<hex(rm)<<" es="<<hex(es)<<" vrm="<<b01(vrm)<<" ves="<<b01(ves)<<diff<<" | F=";
			if(log.empty()) out<<"-";
			bool first=true;
			for(log_type::const_iterator p=log.begin();p!=log.end();++p) {
				if(!first) out<<","; first=false;
				out<<p->first<<":"<<hex(p->second.first)<<":"<<b01(p->second.second);
			}
			bool compat = rs->enc.empty() || cppcms::encoding::is_ascii_compatible(rs->enc);
			std::ostringstream etab,utab,vtab;
			if(rs->enc.empty()) etab<<"-";
			else if(compat) {
				std::set<std::string> texts; texts.insert(in); texts.insert(rm); texts.insert(es);
				first=true;
				for(std::set<std::string>::const_iterator p=texts.begin();p!=texts.end();++p) {
					size_t cnt=0;
					bool ev=cppcms::encoding::valid(rs->enc,p->c_str(),p->c_str()+p->size(),cnt);
					std::string fo;
					bool vof=cppcms::encoding::validate_or_filter(rs->enc,p->c_str(),p->c_str()+p->size(),fo,repl);
					if(!first) etab<<","; first=false;
					etab<<hex(*p)<<":"<<b01(ev)<<":"<<b01(vof)<<":"<<(vof?std::string("-"):hex(fo));
				}
			}
			else {
				namespace conv = booster::locale::conv;
				std::set<std::string> texts; texts.insert(in); texts.insert(rm); texts.insert(es);
				std::set<std::string> u8texts;
				std::string win;
				first=true;
				for(std::set<std::string>::const_iterator p=texts.begin();p!=texts.end();++p) {
					std::string st,sk; bool ok=true;
					try { st=conv::to_utf<char>(p->c_str(),p->c_str()+p->size(),rs->enc,conv::stop); }
					catch(conv::conversion_error const &) { ok=false; }
					sk=conv::to_utf<char>(p->c_str(),p->c_str()+p->size(),rs->enc,conv::skip);
					if(!first) utab<<","; first=false;
					utab<<hex(*p)<<":"<<b01(ok)<<":"<<hex(st)<<":"<<hex(sk);
					if(ok) u8texts.insert(st);
					if(*p==in) { win = ok ? st : sk; u8texts.insert(win); }
				}
				first=true;
				for(std::set<std::string>::const_iterator p=u8texts.begin();p!=u8texts.end();++p) {
					size_t cnt=0;
					bool ev=cppcms::encoding::valid("UTF-8",p->c_str(),p->c_str()+p->size(),cnt);
					std::string fo;
					bool vof=cppcms::encoding::validate_or_filter("UTF-8",p->c_str(),p->c_str()+p->size(),fo,0);
					if(!first) etab<<","; first=false;
					etab<<hex(*p)<<":"<<b01(ev)<<":"<<b01(vof)<<":"<<(vof?std::string("-"):hex(fo));
				}
				// the UTF-8 text that is converted back, from the library itself
				std::set<std::string> f8;
				f8.insert(xss::filter(win,rs->u8,xss::remove_invalid,0));
				f8.insert(xss::filter(win,rs->u8,xss::escape_invalid,0));
				first=true;
				for(std::set<std::string>::const_iterator p=f8.begin();p!=f8.end();++p) {
					std::string back; bool ok=true;
					try { back=conv::from_utf<char>(*p,rs->enc,conv::stop); }
					catch(conv::conversion_error const &) { ok=false; }
					if(!first) vtab<<","; first=false;
					vtab<<hex(*p)<<":"<<b01(ok)<<":"<<hex(back);
				}
			}
			out<<" E="<<(etab.str().empty()?std::string("-"):etab.str())<<" A="<<b01(compat)
			   <<" U="<<(utab.str().empty()?std::string("-"):utab.str())<<" V="<<(vtab.str().empty()?std::string("-"):vtab.str());
			out<<" J="<<b01(rs->has_json)<<" S=";
			if(slog.empty()) out<<"-";
			first=true;
			for(log_type::const_iterator p=slog.begin();p!=slog.end();++p) {
				if(!first) out<<","; first=false;
				out<<p->first<<":"<<hex(p->second.first)<<":"<<b01(p->second.second);
			}
		}
		catch(std::exception const &e) {
			g_log=0; g_slog=0;
			out.str("");
			out<<"EXCEPTION "<<e.what();
		}
		std::cout<<out.str()<<"\n";
	}
	return 0;
}
