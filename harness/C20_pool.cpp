// C20 correspondence harness, part 4: the COMPLETE applications_pool::get_application_specific_pool - both mount lists.
// A fresh cppcms::service per case; applications are mounted in the order the case says through
//   f : applications_pool::mount(std::unique_ptr<factory>, mount_point)                          -> list `apps` (legacy sync pool)
//   p : applications_pool::mount(shared_ptr<application_specific_pool>, mount_point, synchronous) -> list `apps`
//   y : applications_pool::mount(shared_ptr<application_specific_pool>, mount_point, asynchronous)-> list `apps`
//   a : applications_pool::mount(booster::intrusive_ptr<application>, mount_point)                -> list `legacy_async_apps`
// interleaved with requests (get_application_specific_pool, then - as http::context does - pool->get(service) and
// application::main(matched) on the object the pool hands out), destruction of legacy applications (the harness drops the
// last reference: _async_legacy_policy::put deletes the object and marks the pool dead), unmount of pools, and observation
// of which legacy pools have been erased from the list (their weak_ptr has expired).
//
// case:   L N<n> (<kind> <mp> <app>)*n Q <op>*       op = m <i> | q <host> <script> <path> <method> | x <i> | u <i> | o
// answer: per op   m | x | u | P:<i>,<j>,..  | -  | <i> <hex sub-path> <outcome of main> | DEAD <hex sub-path>
#define C20_ROUTING_NO_MAIN
#include "C20_routing.cpp"
#include <booster/weak_ptr.h>
#include <booster/intrusive_ptr.h>

// application_specific_pool::get and application::get_pool are private to the library (http::context is a friend);
// an explicit instantiation may name private members, which is what hands them to the harness
template<typename Tag,typename Tag::type M> struct Rob { friend typename Tag::type rob(Tag) { return M; } };
struct PoolGet { typedef booster::intrusive_ptr<cppcms::application> (cppcms::application_specific_pool::*type)(cppcms::service &); friend type rob(PoolGet); };
template struct Rob<PoolGet,&cppcms::application_specific_pool::get>;
struct AppPool { typedef booster::weak_ptr<cppcms::application_specific_pool> (cppcms::application::*type)(); friend type rob(AppPool); };
template struct Rob<AppPool,&cppcms::application::get_pool>;

class PNode : public Node {
public:
	int mount_idx;
	PNode(cppcms::service &srv,AppD const &d,int i) : Node(srv,d), mount_idx(i) {}
};
class PFactory : public cppcms::applications_pool::factory {
public:
	AppD desc; int idx;
	PFactory(AppD const &d,int i) : desc(d), idx(i) {}
	virtual std::unique_ptr<cppcms::application> operator()(cppcms::service &srv) const
	{
		return std::unique_ptr<cppcms::application>(new PNode(srv,desc,idx));
	}
};
class PPool : public cppcms::application_specific_pool {
public:
	AppD desc; int idx;
	PPool(AppD const &d,int i) : desc(d), idx(i) {}
	virtual cppcms::application *new_application(cppcms::service &srv) { return new PNode(srv,desc,idx); }
};

struct MountD {
	char kind;
	cppcms::mount_point mp;
	AppD desc;
	bool mounted, requested, dead;
	booster::shared_ptr<cppcms::application_specific_pool> pool;     // kinds p, y
	booster::intrusive_ptr<cppcms::application> app;                  // kind a: the user's reference
	booster::weak_ptr<cppcms::application_specific_pool> lpool;       // kind a: the pool created by mount(), known after the first request
	MountD() : kind('p'), mounted(false), requested(false), dead(false) {}
};

static std::string run_lists(Toks &t)
{
	int n=t.counted('N');
	std::vector<MountD> ms(n);
	for(int i=0;i<n;i++) {
		ms[i].kind=t.next()[0];
		t.expect("{");
		std::string htok=t.next(), stok=t.next(), ptok=t.next();
		int g=t.num();
		std::string sel=t.next();
		t.expect("}");
		ms[i].mp=make_mp(htok,stok,ptok,g,sel);
		ms[i].desc=parse_app(t);
	}
	t.expect("Q");
	cppcms::json::value cfg;
	cfg["localization"]["locales"][0]="en_US.ISO-8859-1";
	cfg["misc"]["invalid_url_throws"]=true;
	cfg["service"]["worker_threads"]=2;
	std::unique_ptr<cppcms::service> srvp(new cppcms::service(cfg));
	cppcms::service &srv=*srvp;
	std::ostringstream out;
	bool first=true;
	std::string failure;
	try {
		while(!t.end()) {
			std::string q=t.next();
			std::string r;
			if(q=="m") {
				int i=t.num();
				if(i<0||i>=n||ms[i].mounted) throw unsupported("mount index");
				MountD &m=ms[i];
				switch(m.kind) {
				case 'f': srv.applications_pool().mount(std::unique_ptr<cppcms::applications_pool::factory>(new PFactory(m.desc,i)),m.mp); break;
				case 'p': m.pool.reset(new PPool(m.desc,i)); srv.applications_pool().mount(m.pool,m.mp,cppcms::app::synchronous); break;
				case 'y': m.pool.reset(new PPool(m.desc,i)); srv.applications_pool().mount(m.pool,m.mp,cppcms::app::asynchronous); break;
				case 'a': m.app=new PNode(srv,m.desc,i); srv.applications_pool().mount(m.app,m.mp); break;
				default: throw unsupported("mount kind");
				}
				m.mounted=true;
				r="m";
			}
			else if(q=="q") {
				std::string h=t.hexs(), s=t.hexs(), p=t.hexs(), me=t.hexs();
				std::string matched;
				booster::shared_ptr<cppcms::application_specific_pool> pool=
					srv.applications_pool().get_application_specific_pool(h.c_str(),s.c_str(),p.c_str(),matched);
				if(!pool) r="-";
				else {
					booster::intrusive_ptr<cppcms::application> app=(pool.get()->*rob(PoolGet()))(srv);
					if(!app) r="DEAD "+hex(matched);
					else {
						PNode *pn=dynamic_cast<PNode *>(app.get());
						if(!pn) throw std::runtime_error("foreign application");
						int i=pn->mount_idx;
						if(ms[i].kind=='a' && !ms[i].requested) {
							ms[i].requested=true;
							ms[i].lpool=(app.get()->*rob(AppPool()))();
						}
						std::ostringstream o; o<<i<<" "<<hex(matched)<<" "<<pn->run_main(matched,h.c_str(),s.c_str(),p.c_str(),me);
						r=o.str();
					}
				}
			}
			else if(q=="x") {
				int i=t.num();
				if(i<0||i>=n||ms[i].kind!='a'||!ms[i].mounted||ms[i].dead) throw unsupported("kill index");
				// an application that was never requested has no pool pointer yet: dropping it would leave the pool with a
				// dangling pointer (see docs/C20.md, observation); the generator does not produce this
				if(!ms[i].requested) throw unsupported("kill before the first request");
				ms[i].app=0;
				ms[i].dead=true;
				r="x";
			}
			else if(q=="u") {
				int i=t.num();
				if(i<0||i>=n||(ms[i].kind!='p'&&ms[i].kind!='y')||!ms[i].mounted) throw unsupported("unmount index");
				srv.applications_pool().unmount(ms[i].pool);
				r="u";
			}
			else if(q=="o") {
				std::ostringstream o; o<<"P:"; bool f1=true;
				for(int i=0;i<n;i++) if(ms[i].kind=='a' && ms[i].requested && ms[i].lpool.expired()) { if(!f1) o<<","; f1=false; o<<i; }
				r=o.str();
			}
			else throw std::runtime_error("op "+q);
			if(!first) out<<" | ";
			first=false;
			out<<r;
		}
	}
	catch(unsupported const &e) { failure=std::string("UNSUPPORTED-HARNESS ")+e.what(); }
	catch(std::exception const &e) { failure=std::string("HARNESS-EXN ")+e.what(); }
	// applications first (they refer to the service), then the pools, then the service
	for(int i=0;i<n;i++) ms[i].app=0;
	for(int i=0;i<n;i++) if(ms[i].pool) { srv.applications_pool().unmount(ms[i].pool); ms[i].pool.reset(); }
	srvp.reset();
	// the answers given before the operation that could not be run stay visible
	if(!failure.empty()) return out.str().empty()?failure:out.str()+" | "+failure;
	return out.str();
}

int main()
{
	std::string line;
	while(std::getline(std::cin,line)) {
		std::vector<std::string> v=split(line);
		std::string r;
		try {
			Toks t(v);
			std::string kind=t.next();
			if(kind=="L") r=run_lists(t);
			else r="BAD-CASE";
		}
		catch(std::exception const &e) { r=std::string("HARNESS-EXN ")+e.what(); }
		std::cout<<r<<"\n";
	}
	std::cout.flush();
	return 0;
}
