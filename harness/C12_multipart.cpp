// C12 correspondence harness (a): drives cppcms::impl::multipart_parser of the current tree directly
// (header-only state machine + libcppcms http::file / file_buffer / content_type), with explicit cut lists.
//   mp   <mem> <ct-hex> <cuts> <body-hex>   cuts: "-" one chunk | b<k> blocks of k bytes | o1,o2,... cut offsets
// (an optional last field carries the expectation of the oracle and is ignored here)
//   all2 <mem> <ct-hex> <body-hex>          every 2-cut of the body against the single-chunk run
// The driver loop is the one of tests/multipart_parser_test.cpp / http::request::on_content_progress:
// per chunk, call consume until the chunk is used up or a terminal result comes back.
#include "multipart_parser.h"
#include <cppcms/http_file.h>
#include <dirent.h>
#include <unistd.h>
#include <sys/stat.h>
#include <stdlib.h>
#include <string.h>
#include <dlfcn.h>
#include <errno.h>
#include <map>
#include "hexio.h"
using namespace hx;

// ---- fault injection for the temporary upload files (fi cases): the libc calls file_buffer makes are interposed here
static std::string tmpdir;                      // the upload directory of this harness process
static std::string g_fault_dir;                 // faults are injected only while this is set (fi cases)
static std::map<FILE *, long> g_tracked;        // FILE -> bytes written so far
static long g_quota = -1;                       // q<N>: an fwrite that takes a file beyond N bytes fails (ENOSPC, persistent)
static bool g_fopen_fails = false, g_fflush_fails = false, g_fclose_fails = false;
extern "C" FILE *fopen(const char *p, const char *m)
{
	typedef FILE *(*fn)(const char *, const char *); static fn real = (fn)dlsym(RTLD_NEXT, "fopen");
	bool mine = !tmpdir.empty() && strncmp(p, tmpdir.c_str(), tmpdir.size()) == 0;     // every upload file is tracked, always
	if (mine && !g_fault_dir.empty() && g_fopen_fails) { errno = ENOSPC; return 0; }
	FILE *f = real(p, m);
	if (f && mine) g_tracked[f] = 0;
	return f;
}
extern "C" size_t fwrite(const void *b, size_t sz, size_t n, FILE *f)
{
	typedef size_t (*fn)(const void *, size_t, size_t, FILE *); static fn real = (fn)dlsym(RTLD_NEXT, "fwrite");
	std::map<FILE *, long>::iterator it = g_tracked.find(f);
	if (it != g_tracked.end() && g_quota >= 0 && it->second + (long)(sz * n) > g_quota) { errno = ENOSPC; return 0; }
	size_t r = real(b, sz, n, f);
	if (it != g_tracked.end()) it->second += (long)(r * sz);
	return r;
}
extern "C" int fflush(FILE *f)
{
	typedef int (*fn)(FILE *); static fn real = (fn)dlsym(RTLD_NEXT, "fflush");
	if (f && g_tracked.count(f) && g_fflush_fails) { errno = ENOSPC; return EOF; }
	return real(f);
}
extern "C" int fclose(FILE *f)
{
	typedef int (*fn)(FILE *); static fn real = (fn)dlsym(RTLD_NEXT, "fclose");
	bool mine = g_tracked.erase(f) > 0;
	int r = real(f);                          // the descriptor is released whatever is reported
	if (mine && g_fclose_fails) { errno = EIO; return EOF; }
	return r;
}
typedef cppcms::impl::multipart_parser mparser;


static int count_dir()
{
	int n=0;
	DIR *d=opendir(tmpdir.c_str());
	if(!d) return -1;
	while(struct dirent *e=readdir(d)) {
		if(strcmp(e->d_name,".")==0 || strcmp(e->d_name,"..")==0) continue;
		n++;
	}
	closedir(d);
	return n;
}

// descriptors open on a file inside the upload directory (removed-but-open files included)
static int g_base_probe=-1;   // lowest free descriptor number while no upload file is open (single-threaded process)
static int count_fds()
{
	// fast path: no descriptor was opened (and left open) since start <=> the lowest free number is unchanged
	{ int p=dup(0); if(p>=0) close(p); if(g_base_probe>=0 && p==g_base_probe && g_tracked.empty()) return 0; }
	int n=0;
	DIR *d=opendir("/proc/self/fd");
	if(!d) return -1;
	std::string pre=tmpdir+"/";
	while(struct dirent *e=readdir(d)) {
		if(e->d_name[0]=='.') continue;
		char buf[4096];
		std::string lnk=std::string("/proc/self/fd/")+e->d_name;
		ssize_t k=readlink(lnk.c_str(),buf,sizeof(buf)-1);
		if(k<=0) continue;
		buf[k]=0;
		if(strncmp(buf,pre.c_str(),pre.size())==0) n++;
	}
	closedir(d);
	return n;
}

static std::string slurp(cppcms::http::file &f)
{
	std::string res;
	std::istream &in=f.data();
	in.clear();
	in.seekg(0);
	std::streambuf *buf=in.rdbuf();
	int c;
	while((c=buf->sbumpc())!=EOF) res+=char(c);
	return res;
}

struct run_result {
	std::string sizes;   // fi: name size readable per completed file
	std::string status;
	std::string files;   // canonical text of the completed files
	int nfiles;
	std::string cur;     // in-progress file when has_file()
	std::string trace;
	int tmp_alive, tmp_after, fd_alive, fd_after;
	bool size_mismatch;
};

static std::vector<size_t> parse_cuts(std::string const &c,size_t n)
{
	std::vector<size_t> ends; // chunk end offsets, increasing, last == n
	if(c=="-") { }
	else if(c[0]=='b') {
		size_t k=strtoull(c.c_str()+1,0,10); if(k<1) k=1;
		for(size_t o=k;o<n;o+=k) ends.push_back(o);
	}
	else {
		std::string t; std::istringstream ss(c);
		while(std::getline(ss,t,',')) { size_t o=strtoull(t.c_str(),0,10); if(o>0 && o<n && (ends.empty() || o>ends.back())) ends.push_back(o); }
	}
	ends.push_back(n);
	return ends;
}

static run_result run(long mem,std::string const &ct,std::string const &body,std::vector<size_t> const &ends,bool want_trace)
{
	run_result R; R.nfiles=0; R.tmp_alive=R.tmp_after=R.fd_alive=R.fd_after=0; R.size_mismatch=false;
	{
		mparser parser(tmpdir,mem<0 ? size_t(-1) : size_t(mem));
		if(!parser.set_content_type(ct)) { R.status="refused"; return R; }
		std::ostringstream tr;
		bool first=true;
		char const *base=body.data();
		size_t off=0;
		mparser::parsing_result_type r=mparser::continue_input;
		bool stop=false;
		R.status="incomplete";
		for(size_t i=0;i<ends.size() && !stop;i++) {
			char const *start=base+off, *end=base+ends[i];
			off=ends[i];
			while(start!=end) {
				r=parser.consume(start,end);
				if(start>end) { R.status="overrun"; stop=true; break; }
				char code=0; long long sz=-1;
				switch(r) {
				case mparser::meta_ready: code='M'; if(!parser.has_file()) { R.status="meta-without-file"; stop=true; } break;
				case mparser::content_partial: code='P'; if(!parser.has_file()) { R.status="partial-without-file"; stop=true; } else sz=parser.get_file().size(); break;
				case mparser::content_ready: code='R'; sz=parser.last_file().size(); break;
				case mparser::continue_input: code='C'; break;
				case mparser::eof: code='E'; R.status = (start==end && i+1==ends.size()) ? "eof" : (start==end ? "earlyeof" : "eof-inside-chunk"); stop=true; break;
				case mparser::parsing_error: code='X'; R.status="error"; stop=true; break;
				case mparser::no_room_left: code='N'; R.status="noroom"; stop=true; break;
				default: code='?'; R.status="unknown-result"; stop=true; break;
				}
				if(want_trace) { if(!first) tr<<","; first=false; tr<<code; if(sz>=0) tr<<sz; }
				if(stop) break;
			}
		}
		R.trace = first ? "-" : tr.str();
		if(parser.has_file()) {
			cppcms::http::file &f=parser.get_file();
			std::ostringstream c; c<<hex(f.name())<<":"<<hex(f.filename())<<":"<<hex(f.mime())<<":"<<f.size();
			R.cur=c.str();
		}
		else R.cur="none";
		R.tmp_alive=count_dir();   // before the completed files are taken out and read
		R.fd_alive=count_fds();
		mparser::files_type files=parser.get_files();
		std::ostringstream fs;
		for(size_t i=0;i<files.size();i++) {
			long long sz=files[i]->size();
			std::string data=slurp(*files[i]);
			if((long long)data.size()!=sz) R.size_mismatch=true;
			fs<<" "<<hex(files[i]->name())<<" "<<hex(files[i]->filename())<<" "<<hex(files[i]->mime())<<" "<<hex(data);
			{ std::ostringstream z; z<<" "<<hex(files[i]->name())<<":"<<sz<<":"<<data.size(); R.sizes+=z.str(); }
		}
		R.nfiles=files.size();
		R.files=fs.str();
	} // parser and files destroyed here: "temporary files disappear with the request"
	R.tmp_after=count_dir();
	R.fd_after=count_fds();
	return R;
}

static std::string cls(std::string const &s) { return s=="earlyeof" ? std::string("error") : s; }

int main()
{
	char const *base=getenv("C12_TMPDIR");
	std::string b = base ? base : "/tmp";
	{
		std::ostringstream ss; ss<<b<<"/h"<<getpid();
		tmpdir=ss.str();
		mkdir(tmpdir.c_str(),0700);
	}
	{ int p=dup(0); if(p>=0) close(p); g_base_probe=p; }
	std::string line;
	while(std::getline(std::cin,line)) {
		alarm(300); // watchdog: a case that hangs kills the harness, the check reports the case after the last answered one
		std::vector<std::string> v=split(line);
		std::ostringstream out;
		if((v.size()==5 || v.size()==6) && v[0]=="mp") {
			long mem=atol(v[1].c_str());
			std::string ct=unhex(v[2]), body=unhex(v[4]);
			run_result R=run(mem,ct,body,parse_cuts(v[3],body.size()),true);
			if(R.status=="refused") out<<"mp refused";
			else {
				out<<"mp "<<R.status<<" "<<R.nfiles<<R.files<<" cur="<<R.cur<<" T "<<R.trace<<" tmp="<<R.tmp_alive<<","<<R.tmp_after<<" fd="<<R.fd_alive<<","<<R.fd_after;
				if(R.size_mismatch) out<<" SIZE-MISMATCH";
			}
		}
		else if((v.size()==6 || v.size()==7) && v[0]=="fi") {
			// fi <mem> <ct-hex> <cuts> <body-hex> <faults>: q<N> quota per file | o fopen fails | s fflush fails | c fclose reports an error
			long mem=atol(v[1].c_str());
			std::string ct=unhex(v[2]), body=unhex(v[4]);
			g_quota=-1; g_fopen_fails=g_fflush_fails=g_fclose_fails=false;
			{ std::string t; std::istringstream ss(v[5]); while(std::getline(ss,t,'.')) { if(t.empty()) continue;
				if(t[0]=='q') g_quota=atol(t.c_str()+1); else if(t[0]=='o') g_fopen_fails=true; else if(t[0]=='s') g_fflush_fails=true; else if(t[0]=='c') g_fclose_fails=true; } }
			g_fault_dir=tmpdir;
			run_result R=run(mem,ct,body,parse_cuts(v[3],body.size()),false);
			g_fault_dir.clear(); g_quota=-1; g_fopen_fails=g_fflush_fails=g_fclose_fails=false;
			if(R.status=="refused") out<<"fi refused";
			else {
				std::string cursz="none"; if(R.cur!="none") cursz=R.cur.substr(R.cur.rfind(':')+1);
				out<<"fi "<<R.status<<" "<<R.nfiles<<R.sizes<<" cur="<<cursz<<" tmp="<<R.tmp_alive<<","<<R.tmp_after<<" fd="<<R.fd_alive<<","<<R.fd_after;
				// whatever was left behind must not distort the next case
				if(R.tmp_after>0) { std::string cmd="rm -f '"+tmpdir+"'/*"; if(system(cmd.c_str())) {} }
			}
		}
		else if((v.size()==4 || v.size()==5) && v[0]=="all2") {
			long mem=atol(v[1].c_str());
			std::string ct=unhex(v[2]), body=unhex(v[3]);
			run_result R0=run(mem,ct,body,parse_cuts("-",body.size()),false);
			if(R0.status=="refused") out<<"all2 refused";
			else {
				std::ostringstream diff; bool any=false; int leaks=R0.tmp_after+R0.fd_after; bool mism=R0.size_mismatch;
				size_t n=body.size();
				for(size_t k=1;k<n;k++) {
					std::vector<size_t> ends; ends.push_back(k); ends.push_back(n);
					run_result R=run(mem,ct,body,ends,false);
					// an eof that is not at the end of the data and a parsing error are both "refused" (400 in on_content_progress)
					if(cls(R.status)!=cls(R0.status) || R.nfiles!=R0.nfiles || R.files!=R0.files || R.cur!=R0.cur || R.tmp_alive!=R0.tmp_alive || R.fd_alive!=R0.fd_alive) {
						if(any) diff<<","; any=true; diff<<k;
					}
					leaks+=R.tmp_after+R.fd_after; if(R.size_mismatch) mism=true;
				}
				out<<"all2 "<<(n>0?n-1:0)<<" "<<R0.status<<" "<<R0.nfiles<<R0.files<<" cur="<<R0.cur<<" tmp="<<R0.tmp_alive<<" fd="<<R0.fd_alive<<" D "<<(any?diff.str():std::string("-"))<<" leaks="<<leaks;
				if(mism) out<<" SIZE-MISMATCH";
			}
		}
		else out<<"BAD-CASE";
		std::cout<<out.str()<<"\n";
	}
	rmdir(tmpdir.c_str());
	return 0;
}
