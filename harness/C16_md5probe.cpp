// C16: probe translation unit for tools/cxx2v.py -- NOT part of the harness executable.
// src/md5.cpp keeps its macros F G H I ROTATE_LEFT T_MASK T1..T64 defined at the end of the file; the functions
// below expand them, so that cxx2v translates the macro bodies of the CURRENT source into Gallina
// (coq/gen/Gen_C16_md5.v), and coq/C16/Link.v proves them equal to the leafs of the model.
// The include is resolved through -I <repo>/src (see GEN in checks/C16.py).
#include "md5.cpp"
namespace cppcms { namespace impl {
unsigned int c16_md5_F(unsigned int x, unsigned int y, unsigned int z) { return F(x, y, z); }
unsigned int c16_md5_G(unsigned int x, unsigned int y, unsigned int z) { return G(x, y, z); }
unsigned int c16_md5_H(unsigned int x, unsigned int y, unsigned int z) { return H(x, y, z); }
unsigned int c16_md5_I(unsigned int x, unsigned int y, unsigned int z) { return I(x, y, z); }
unsigned int c16_md5_rotl(unsigned int x, unsigned int n) { return ROTATE_LEFT(x, n); }
unsigned int c16_md5_T(int i)
{
	switch(i) {
	case 1: return T1; case 2: return T2; case 3: return T3; case 4: return T4;
	case 5: return T5; case 6: return T6; case 7: return T7; case 8: return T8;
	case 9: return T9; case 10: return T10; case 11: return T11; case 12: return T12;
	case 13: return T13; case 14: return T14; case 15: return T15; case 16: return T16;
	case 17: return T17; case 18: return T18; case 19: return T19; case 20: return T20;
	case 21: return T21; case 22: return T22; case 23: return T23; case 24: return T24;
	case 25: return T25; case 26: return T26; case 27: return T27; case 28: return T28;
	case 29: return T29; case 30: return T30; case 31: return T31; case 32: return T32;
	case 33: return T33; case 34: return T34; case 35: return T35; case 36: return T36;
	case 37: return T37; case 38: return T38; case 39: return T39; case 40: return T40;
	case 41: return T41; case 42: return T42; case 43: return T43; case 44: return T44;
	case 45: return T45; case 46: return T46; case 47: return T47; case 48: return T48;
	case 49: return T49; case 50: return T50; case 51: return T51; case 52: return T52;
	case 53: return T53; case 54: return T54; case 55: return T55; case 56: return T56;
	case 57: return T57; case 58: return T58; case 59: return T59; case 60: return T60;
	case 61: return T61; case 62: return T62; case 63: return T63; case 64: return T64;
	default: return 0;
	}
}
} }
