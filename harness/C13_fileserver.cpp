// C13 harness: (a) file_server::normalize_path called directly; (b) real cppcms::service instances with the
// built-in file server enabled (one per configuration, all in this process, each on its own kernel-chosen
// loopback HTTP port) queried with raw request targets.
//
// argv[1] (optional): JSON file  {"services":[ <cppcms configuration object> , ... ]}  written by checks/C13.py;
//                     the listener (loopback, port 0) is filled in here.
// case lines:
//   np|npi|rs <hex>     -> <tag> <hex of normalize_path(input)>
//   rq <k> <hex>        -> rq <hex of the complete reply of service k to "GET <raw> HTTP/1.0">  ("-" = nothing, "!T" suffix = timeout)
#include <cppcms/service.h>
#include <cppcms/application.h>
#include <cppcms/applications_pool.h>
#include <cppcms/json.h>
#include <booster/log.h>
#include "internal_file_server.h"
#include <sys/socket.h>
#include <netinet/in.h>
#include <netinet/tcp.h>
#include <arpa/inet.h>
#include <poll.h>
#include <unistd.h>
#include <signal.h>
#include <errno.h>
#include <string.h>
#include <fstream>
#include <thread>
#include <memory>
#include <atomic>
#include <dlfcn.h>
#include "hexio.h"
using namespace hx;

// The services are configured with port 0 (the kernel picks a free one at bind time, so no other process can take
// it in between); the port is learnt by interposing listen(): services are started one after the other and each
// reports the port of the TCP socket it starts listening on.
static std::atomic<int> last_listen_port(0);
extern "C" int listen(int fd, int backlog)
{
	typedef int (*fn)(int, int);
	static fn real = (fn)dlsym(RTLD_NEXT, "listen");
	int r = real(fd, backlog);
	if (r == 0) {
		sockaddr_in a; socklen_t l = sizeof(a); memset(&a, 0, sizeof(a));
		if (getsockname(fd, (sockaddr *)&a, &l) == 0 && a.sin_family == AF_INET) last_listen_port = ntohs(a.sin_port);
	}
	return r;
}

static int connect_to(int port)
{
	int fd = socket(AF_INET, SOCK_STREAM, 0);
	int one = 1; setsockopt(fd, IPPROTO_TCP, TCP_NODELAY, &one, sizeof(one));
	sockaddr_in a; memset(&a, 0, sizeof(a)); a.sin_family = AF_INET; a.sin_addr.s_addr = htonl(INADDR_LOOPBACK); a.sin_port = htons(port);
	if (connect(fd, (sockaddr *)&a, sizeof(a)) != 0) { close(fd); return -1; }
	return fd;
}

struct instance {
	int port;
	std::unique_ptr<cppcms::service> srv;
	std::thread th;
};

static std::string request_once(int port, std::string const &raw, bool &timeout, int wait_ms)
{
	timeout = false;
	int fd = connect_to(port);
	if (fd < 0) return "CONNECT-FAILED";
	std::string rq = "GET " + raw + " HTTP/1.0\r\n\r\n";
	size_t off = 0;
	while (off < rq.size()) {
		ssize_t n = ::send(fd, rq.data() + off, rq.size() - off, MSG_NOSIGNAL);
		if (n <= 0) { if (n < 0 && errno == EINTR) continue; break; }
		off += n;
	}
	std::string buf;
	for (;;) {
		pollfd p; p.fd = fd; p.events = POLLIN; p.revents = 0;
		int r = poll(&p, 1, wait_ms);
		if (r <= 0) { timeout = true; break; }
		char tmp[65536];
		ssize_t n = ::recv(fd, tmp, sizeof(tmp), 0);
		if (n <= 0) break;
		buf.append(tmp, n);
	}
	close(fd);
	return buf;
}

// GET is idempotent: a reply that did not arrive in time (machine under load) is asked for once more, patiently
static std::string request(int port, std::string const &raw, bool &timeout)
{
	std::string r = request_once(port, raw, timeout, 4000);
	if (timeout || r == "CONNECT-FAILED") r = request_once(port, raw, timeout, 30000);
	return r;
}

int main(int argc, char **argv)
{
	signal(SIGPIPE, SIG_IGN);
	std::vector<std::unique_ptr<instance> > inst;
	int rc = 0;
	try {
		if (argc > 1) {
			std::ifstream f(argv[1]);
			cppcms::json::value all;
			int line = 0;
			if (!all.load(f, true, &line)) { std::cout << "HARNESS-EXCEPTION bad configuration file line " << line << std::endl; return 2; }
			cppcms::json::array const &sv = all["services"].array();
			for (size_t i = 0; i < sv.size(); i++) {
				std::unique_ptr<instance> in(new instance());
				in->port = 0;
				cppcms::json::value cfg = sv[i];
				cfg["service"]["list"][0]["api"] = "http";
				cfg["service"]["list"][0]["ip"] = "127.0.0.1";
				cfg["service"]["list"][0]["port"] = in->port;
				cfg["service"]["disable_global_exit_handling"] = true;
				cfg["logging"]["level"] = "emergency";
				in->srv.reset(new cppcms::service(cfg));
				cppcms::service *s = in->srv.get();
				last_listen_port = 0;
				in->th = std::thread([s]() { try { s->run(); } catch (std::exception const &e) { std::cout << "SERVICE-THREW " << e.what() << std::endl; _exit(3); } });
				for (int tries = 0; tries < 6000 && last_listen_port == 0; tries++) usleep(5000);
				in->port = last_listen_port;
				if (in->port == 0) { std::cout << "HARNESS-EXCEPTION service " << i << " did not start listening" << std::endl; _exit(2); }
				int tries = 0, fd = -1;
				while ((fd = connect_to(in->port)) < 0 && tries++ < 400) usleep(5000);
				if (fd >= 0) close(fd);
				inst.push_back(std::move(in));
			}
		}
		std::string line;
		while (std::getline(std::cin, line)) {
			std::vector<std::string> v = split(line);
			if (v.size() == 2 && (v[0] == "np" || v[0] == "npi" || v[0] == "rs")) {
				// np / npi / rs: the same implementation function, compared with the functional model, the
				// buffer-and-iterator model and the textbook resolution respectively
				std::string p = unhex(v[1]);
				cppcms::impl::file_server::normalize_path(p);
				std::cout << v[0] << " " << hex(p) << std::endl;
			}
			else if (v.size() == 3 && v[0] == "rq") {
				size_t k = atoi(v[1].c_str());
				if (k >= inst.size()) { std::cout << "BAD-CASE no such service" << std::endl; continue; }
				bool to = false;
				std::string r = request(inst[k]->port, unhex(v[2]), to);
				std::cout << "rq " << hex(r) << (to ? "!T" : "") << std::endl;
			}
			else std::cout << "BAD-CASE" << std::endl;
		}
		for (size_t i = 0; i < inst.size(); i++) inst[i]->srv->shutdown();
		for (size_t i = 0; i < inst.size(); i++) inst[i]->th.join();
	}
	catch (std::exception const &e) {
		std::cout << "HARNESS-EXCEPTION " << e.what() << std::endl;
		rc = 2;
		_exit(rc);
	}
	return rc;
}
