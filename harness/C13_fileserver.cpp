// C13 harness: (a) file_server::normalize_path called directly; (b) real cppcms::service instances with the
// built-in file server enabled, ONE CHILD PROCESS PER CONFIGURATION (forked from this single-threaded dispatcher before
// any cppcms object exists), each on its own kernel-chosen loopback HTTP port, queried with raw request targets.
//
// Per-request watchdog: a request that is not answered is its own outcome (`rq HANG <why>`), the service process is
// killed and started again and the run continues - a defect that parks a worker thread or the event loop (e.g. open()
// of a FIFO without a writer) must show up as an outcome line, never as a time-out of the whole run:
//   * while a reply is outstanding the threads of the service process are inspected (/proc/<pid>/task/*/syscall): a
//     thread that sits in open()/openat() in two inspections 60 ms apart (after 120 ms of silence) is parked in open -> HANG open, at once
//     (the thread is then released by opening the FIFO it waits for as a writer for a moment - its path is read from the
//     memory of the service process - so that the service need not be restarted; if that does not help it is restarted);
//   * otherwise silence for 6 s -> the service is restarted and the request is asked once more with 12 s patience
//     (a loaded machine is not a hang); silent again -> HANG timeout.  After the first confirmed time-out hang the
//     patience is 2 s without the second attempt.
//   * a reply is read up to 256 KiB, then the connection is closed and the outcome carries the suffix !B (bounded):
//     nothing the sandbox may legitimately serve is that long (a stream from /dev/zero would never end).
//
// argv[1] (optional): JSON file  {"services":[ <cppcms configuration object> , ... ]}  written by checks/C13.py;
//                     the listener (loopback, port 0) is filled in here.
// case lines:
//   np|npi|rs <hex>     -> <tag> <hex of normalize_path(input)>
//   rq <k> <hex>        -> rq <hex of the complete reply of service k to "GET <raw> HTTP/1.0">[!B]   |   rq HANG open|timeout
#include <cppcms/service.h>
#include <cppcms/application.h>
#include <cppcms/applications_pool.h>
#include <cppcms/mount_point.h>
#include <cppcms/json.h>
#include <booster/log.h>
#include "internal_file_server.h"
#include <sys/socket.h>
#include <sys/wait.h>
#include <sys/prctl.h>
#include <netinet/in.h>
#include <netinet/tcp.h>
#include <arpa/inet.h>
#include <poll.h>
#include <unistd.h>
#include <signal.h>
#include <errno.h>
#include <string.h>
#include <dirent.h>
#include <fcntl.h>
#include <time.h>
#include <fstream>
#include <memory>
#include <set>
#include <map>
#include <dlfcn.h>
#include "hexio.h"
using namespace hx;

// The services are configured with port 0 (the kernel picks a free one at bind time, so no other process can take
// it in between); the port is learnt by interposing listen(): the service child reports the port of the TCP socket it
// starts listening on through a pipe to the dispatcher.
static int report_fd = -1;
extern "C" int listen(int fd, int backlog)
{
	typedef int (*fn)(int, int);
	static fn real = (fn)dlsym(RTLD_NEXT, "listen");
	int r = real(fd, backlog);
	if (r == 0 && report_fd >= 0) {
		sockaddr_in a; socklen_t l = sizeof(a); memset(&a, 0, sizeof(a));
		if (getsockname(fd, (sockaddr *)&a, &l) == 0 && a.sin_family == AF_INET) {
			int port = ntohs(a.sin_port);
			ssize_t w = write(report_fd, &port, sizeof(port)); (void)w;
			close(report_fd); report_fd = -1;
		}
	}
	return r;
}

static double now()
{
	timespec ts; clock_gettime(CLOCK_MONOTONIC, &ts);
	return ts.tv_sec + ts.tv_nsec * 1e-9;
}

static int connect_to(int port)
{
	int fd = socket(AF_INET, SOCK_STREAM, 0);
	int one = 1; setsockopt(fd, IPPROTO_TCP, TCP_NODELAY, &one, sizeof(one));
	sockaddr_in a; memset(&a, 0, sizeof(a)); a.sin_family = AF_INET; a.sin_addr.s_addr = htonl(INADDR_LOOPBACK); a.sin_port = htons(port);
	if (connect(fd, (sockaddr *)&a, sizeof(a)) != 0) { close(fd); return -1; }
	return fd;
}

struct instance {
	pid_t pid;
	int port;
	cppcms::json::value cfg;
	instance() : pid(-1), port(0) {}
};

static void stop(instance &in)
{
	if (in.pid > 0) { kill(in.pid, SIGKILL); int st; waitpid(in.pid, &st, 0); }
	in.pid = -1; in.port = 0;
}

static bool spawn(instance &in)
{
	int p[2];
	if (pipe(p) != 0) return false;
	std::cout.flush();
	pid_t pid = fork();
	if (pid < 0) { close(p[0]); close(p[1]); return false; }
	if (pid == 0) {
		// the service process: dies with the dispatcher, never touches the dispatcher's stdin/stdout
		prctl(PR_SET_PDEATHSIG, SIGKILL);
		close(p[0]);
		int nul = open("/dev/null", O_RDWR);
		if (nul >= 0) { dup2(nul, 0); dup2(nul, 1); }
		signal(SIGPIPE, SIG_IGN);
		report_fd = p[1];
		try {
			// "c13_async_handler": the file server is mounted here with async=true, the only way to reach async_file_handler:
			// cppcms::service itself always constructs file_server(srv) - file_server.async only mounts it asynchronously
			bool direct = in.cfg.get("c13_async_handler", false);
			if (direct) in.cfg["file_server"]["enable"] = false;
			cppcms::service srv(in.cfg);
			if (direct)
				srv.applications_pool().mount(cppcms::create_pool<cppcms::impl::file_server>(true), cppcms::mount_point(""), cppcms::app::asynchronous);
			srv.run();
		}
		catch (std::exception const &e) {
			std::string m = std::string("SERVICE-THREW ") + e.what() + "\n";
			ssize_t w = write(2, m.data(), m.size()); (void)w;
			_exit(3);
		}
		_exit(0);
	}
	close(p[1]);
	pollfd pf; pf.fd = p[0]; pf.events = POLLIN; pf.revents = 0;
	int port = 0;
	if (poll(&pf, 1, 60000) > 0) { if (read(p[0], &port, sizeof(port)) != (ssize_t)sizeof(port)) port = 0; }
	close(p[0]);
	in.pid = pid; in.port = port;
	if (port == 0) { stop(in); return false; }
	int tries = 0, fd = -1;
	while ((fd = connect_to(port)) < 0 && tries++ < 400) usleep(5000);
	if (fd >= 0) close(fd);
	return true;
}

// threads of the service process that are inside open()/openat() right now -> address of the path argument
static std::map<int, unsigned long> threads_in_open(pid_t pid)
{
	std::map<int, unsigned long> r;
	char dn[64]; snprintf(dn, sizeof(dn), "/proc/%d/task", (int)pid);
	DIR *d = opendir(dn);
	if (!d) return r;
	while (dirent *e = readdir(d)) {
		if (e->d_name[0] == '.') continue;
		char fn[128]; snprintf(fn, sizeof(fn), "/proc/%d/task/%s/syscall", (int)pid, e->d_name);
		int fd = open(fn, O_RDONLY);
		if (fd < 0) continue;
		char buf[160]; ssize_t n = read(fd, buf, sizeof(buf) - 1); close(fd);
		if (n <= 0) continue;
		buf[n] = 0;
		long nr = -1; unsigned long a1 = 0, a2 = 0;
		int got = sscanf(buf, "%ld %lx %lx", &nr, &a1, &a2);
		if (got >= 2 && nr == 2 /* open(path,..) */) r[atoi(e->d_name)] = a1;
		else if (got >= 3 && nr == 257 /* openat(dfd,path,..) */) r[atoi(e->d_name)] = a2;
	}
	closedir(d);
	return r;
}

// a thread parked in open() of a FIFO that has no writer is released by becoming that writer for a moment (the path is read
// from the memory of the service process); true when afterwards no thread is parked any more, so the service can be kept
static bool release_parked(pid_t pid, std::map<int, unsigned long> const &parked)
{
	char fn[64]; snprintf(fn, sizeof(fn), "/proc/%d/mem", (int)pid);
	int mem = open(fn, O_RDONLY);
	if (mem < 0) return false;
	for (std::map<int, unsigned long>::const_iterator i = parked.begin(); i != parked.end(); ++i) {
		char path[4097];
		ssize_t n = pread(mem, path, sizeof(path) - 1, (off_t)i->second);
		if (n <= 0) continue;
		path[n] = 0;
		int w = open(path, O_WRONLY | O_NONBLOCK);
		if (w >= 0) close(w);
	}
	close(mem);
	for (int tries = 0; tries < 20; tries++) {
		usleep(10000);
		std::map<int, unsigned long> cur = threads_in_open(pid);
		bool still = false;
		for (std::map<int, unsigned long>::const_iterator i = parked.begin(); i != parked.end(); ++i) if (cur.count(i->first)) still = true;
		if (!still) return true;
	}
	return false;
}

enum outcome { REPLY, BOUNDED, SILENT, PARKED, PARKED_RELEASED, NOCONNECT };
static const size_t REPLY_BOUND = 256 * 1024;

static outcome request_once(instance &in, std::string const &raw, std::string &buf, double patience)
{
	buf.clear();
	int fd = connect_to(in.port);
	if (fd < 0) return NOCONNECT;
	std::string rq = "GET " + raw + " HTTP/1.0\r\n\r\n";
	size_t off = 0;
	while (off < rq.size()) {
		ssize_t n = ::send(fd, rq.data() + off, rq.size() - off, MSG_NOSIGNAL);
		if (n <= 0) { if (n < 0 && errno == EINTR) continue; break; }
		off += n;
	}
	double t_last = now();          // time of the last byte received (or of the request)
	std::map<int, unsigned long> parked_before;
	bool have_before = false;
	outcome res = REPLY;
	for (;;) {
		pollfd p; p.fd = fd; p.events = POLLIN; p.revents = 0;
		int r = poll(&p, 1, 60);
		if (r < 0 && errno == EINTR) continue;
		if (r > 0) {
			char tmp[65536];
			ssize_t n = ::recv(fd, tmp, sizeof(tmp), 0);
			if (n <= 0) break;
			buf.append(tmp, n);
			t_last = now();
			have_before = false;
			if (buf.size() > REPLY_BOUND) { res = BOUNDED; break; }
			continue;
		}
		double quiet = now() - t_last;
		if (quiet >= 0.12) {
			std::map<int, unsigned long> cur = threads_in_open(in.pid);
			if (have_before) {
				std::map<int, unsigned long> same;
				for (std::map<int, unsigned long>::const_iterator i = cur.begin(); i != cur.end(); ++i)
					if (parked_before.count(i->first)) same[i->first] = i->second;
				if (!same.empty()) {
					res = release_parked(in.pid, same) ? PARKED_RELEASED : PARKED;
					break;
				}
			}
			parked_before = cur; have_before = true;
		}
		if (quiet >= patience) { res = SILENT; break; }
	}
	close(fd);
	return res;
}

static bool timeout_hang_seen = false;

static std::string request(instance &in, std::string const &raw)
{
	std::string buf;
	if (in.pid <= 0 && !spawn(in)) return "rq HANG service-does-not-start";
	outcome o = request_once(in, raw, buf, timeout_hang_seen ? 2.0 : 6.0);
	if (o == NOCONNECT) {           // the service died (crash on the previous request?): start it again and ask again
		stop(in);
		if (!spawn(in)) return "rq HANG service-does-not-start";
		o = request_once(in, raw, buf, 12.0);
	}
	else if (o == SILENT && !timeout_hang_seen) {   // a loaded machine is not a hang: fresh service, patient second attempt
		stop(in);
		if (!spawn(in)) return "rq HANG service-does-not-start";
		o = request_once(in, raw, buf, 12.0);
	}
	switch (o) {
	case REPLY: return "rq " + hex(buf);
	case BOUNDED: stop(in); return "rq " + hex(buf) + "!B";
	case PARKED: stop(in); return "rq HANG open";
	case PARKED_RELEASED: return "rq HANG open";      // the service lives on: the parked thread was released
	case SILENT: timeout_hang_seen = true; stop(in); return "rq HANG timeout";
	default: stop(in); return "rq HANG no-connection";
	}
}

int main(int argc, char **argv)
{
	signal(SIGPIPE, SIG_IGN);
	std::vector<std::unique_ptr<instance> > inst;
	int rc = 0;
	try {
		if (argc > 1) {
			std::ifstream f(argv[1]);
			cppcms::json::value all;
			int line = 0;
			if (!all.load(f, true, &line)) { std::cout << "HARNESS-EXCEPTION bad configuration file line " << line << std::endl; return 2; }
			cppcms::json::array const &sv = all["services"].array();
			for (size_t i = 0; i < sv.size(); i++) {
				std::unique_ptr<instance> in(new instance());
				in->cfg = sv[i];
				in->cfg["service"]["list"][0]["api"] = "http";
				in->cfg["service"]["list"][0]["ip"] = "127.0.0.1";
				in->cfg["service"]["list"][0]["port"] = 0;
				in->cfg["service"]["disable_global_exit_handling"] = true;
				in->cfg["logging"]["level"] = "emergency";
				inst.push_back(std::move(in));      // started on first use
			}
		}
		std::string line;
		while (std::getline(std::cin, line)) {
			std::vector<std::string> v = split(line);
			if (v.size() == 2 && (v[0] == "np" || v[0] == "npi" || v[0] == "rs")) {
				// np / npi / rs: the same implementation function, compared with the functional model, the
				// buffer-and-iterator model and the textbook resolution respectively
				std::string p = unhex(v[1]);
				cppcms::impl::file_server::normalize_path(p);
				std::cout << v[0] << " " << hex(p) << std::endl;
			}
			else if (v.size() == 3 && v[0] == "rq") {
				size_t k = atoi(v[1].c_str());
				if (k >= inst.size()) { std::cout << "BAD-CASE no such service" << std::endl; continue; }
				std::cout << request(*inst[k], unhex(v[2])) << std::endl;
			}
			else std::cout << "BAD-CASE" << std::endl;
		}
		for (size_t i = 0; i < inst.size(); i++) stop(*inst[i]);
	}
	catch (std::exception const &e) {
		std::cout << "HARNESS-EXCEPTION " << e.what() << std::endl;
		for (size_t i = 0; i < inst.size(); i++) stop(*inst[i]);
		rc = 2;
		_exit(rc);
	}
	return rc;
}
