// C02 direct harness for private/string_map.h: the real string_pool + string_map (header only) driven by operation sequences;
// the same case lines go to the extracted Coq model (ocaml/C02_driver.ml, smap_case).
// case line:  smap <op> <op> ...
//   a:<hexkey>:<hexvalue>   key = pool.add(key), value = pool.add(value); map.add(key,value)   (as scgi/fastcgi do)
//   g:<hexkey>              map.get(key): "=<hexvalue>" or "~" (null)
//   c                       map.clear(); pool.clear()         (connection reset between requests)
//   i                       begin()..end(): I<slot>:<hexkey>=<hexvalue>,...   (in chain order)
//   d                       D<data_.size()>,<total_>,<number of slots with key != 0>
//   T                       (first op) trace the pool: every a: op reports @<page>.<offset>/<page>.<offset> = where pool.add put key and
//                           value (page index counted from the tail of the pages_ list, i.e. in order of allocation)
//   p                       P<number of pages>,<index of the page data_ points into>,<free_space_>
// A loop of the table that does not end (probing a table without an empty slot) is detected by a per-case CPU-time
// watchdog (ITIMER_VIRTUAL, 1 s): the handler writes the partial result + "HANG" and ends the process; the check restarts
// the harness for the remaining cases and reports the case as a violation (string-map-loop-does-not-terminate).
#include <string.h>
#include <stdlib.h>
#include <string>
#include <vector>
#include <limits>
#include <algorithm>
#include <unordered_set>
#include <new>
#include <functional>
#include <utility>
#include <assert.h>
#include <sstream>
#include <iostream>
#include <booster/noncopyable.h>
#include <booster/iterator/iterator_facade.h>
#include <cppcms/cstdint.h>
// the pool keeps its pages private; the harness reads (never writes) pages_, data_, free_space_ to report where a string was put
#define private public
#include "string_map.h"
#undef private
#include "hexio.h"
#include <signal.h>
#include <sys/time.h>
#include <unistd.h>
#include <string.h>
using namespace hx;

static char g_partial[1 << 20];
static volatile size_t g_partial_len = 0;
static void on_alarm(int)
{
	char const *msg = "HANG\n";
	if (write(1, g_partial, g_partial_len)) {}
	if (write(1, msg, 5)) {}
	_exit(7);
}
static void arm(int sec)
{
	itimerval tv; memset(&tv, 0, sizeof(tv));
	tv.it_value.tv_sec = sec;
	setitimer(ITIMER_VIRTUAL, &tv, 0);
}
// (page index from the tail, offset) of a pointer returned by the pool: an oversized string sits at offset 0 of its own page
static std::string where(cppcms::impl::string_pool &pool, char const *ptr)
{
	std::vector<cppcms::impl::string_pool::page *> pg;
	for (cppcms::impl::string_pool::page *p = pool.pages_; p; p = p->next) pg.push_back(p);
	long best = -1, off = 0;
	for (size_t i = 0; i < pg.size(); i++) {
		long d = ptr - pg[i]->data;
		if (d >= 0 && d < long(pool.page_size_) && (best < 0 || d < off)) { best = long(pg.size() - 1 - i); off = d; }
	}
	std::ostringstream ss; ss << best << "." << off;
	return ss.str();
}
static std::string pool_state(cppcms::impl::string_pool &pool)
{
	std::vector<cppcms::impl::string_pool::page *> pg;
	for (cppcms::impl::string_pool::page *p = pool.pages_; p; p = p->next) pg.push_back(p);
	long cur = -1;
	for (size_t i = 0; i < pg.size(); i++)
		if (pg[i]->data + pool.page_size_ == pool.data_ + pool.free_space_) cur = long(pg.size() - 1 - i);
	std::ostringstream ss; ss << "P" << pg.size() << "," << cur << "," << pool.free_space_ << " ";
	return ss.str();
}
static void publish(std::string const &s)
{
	size_t n = s.size() < sizeof(g_partial) ? s.size() : sizeof(g_partial);
	memcpy(g_partial, s.data(), n);
	g_partial_len = n;
}

int main()
{
	signal(SIGVTALRM, on_alarm);
	std::string line;
	while (std::getline(std::cin, line)) {
		std::vector<std::string> v = split(line);
		if (v.empty() || v[0] != "smap") { std::cout << "BAD-CASE" << std::endl; continue; }
		cppcms::impl::string_pool pool;
		cppcms::impl::string_map map;
		std::string out;
		bool trace = false;
		publish(out);
		arm(1);
		for (size_t i = 1; i < v.size(); i++) {
			std::string const &t = v[i];
			if (t == "c") { map.clear(); pool.clear(); }
			else if (t == "T") trace = true;
			else if (t == "p") out += pool_state(pool);
			else if (t == "d") {
				size_t occ = 0;
				for (size_t k = 0; k < map.data_.size(); k++) if (map.data_[k].key) occ++;
				std::ostringstream ss; ss << "D" << map.data_.size() << "," << map.total_ << "," << occ << " ";
				out += ss.str();
			}
			else if (t == "i") {
				out += "I";
				size_t guard = 0;
				for (cppcms::impl::string_map::iterator p = map.begin(), e = map.end(); p != e; ++p) {
					std::ostringstream ss; ss << p.current_ << ":";
					if (p->key) ss << hex(p->key) << "=" << hex(p->value) << ",";
					else ss << "EMPTY,";
					out += ss.str();
					if (++guard > 100000) { out += "CYCLE"; break; }
				}
				out += " ";
			}
			else if (t.size() > 2 && t[0] == 'a' && t[1] == ':') {
				size_t c = t.find(':', 2);
				if (c == std::string::npos) { out += "BAD-OP "; continue; }
				std::string k = unhex(t.substr(2, c - 2)), val = unhex(t.substr(c + 1));
				char *pk = pool.add(k);
				char *pv = pool.add(val);
				if (trace) out += "@" + where(pool, pk) + "/" + where(pool, pv) + " ";
				publish(out);
				map.add(pk, pv);
			}
			else if (t.size() > 2 && t[0] == 'g' && t[1] == ':') {
				std::string k = unhex(t.substr(2));
				publish(out);
				char const *r = map.get(k.c_str());
				if (r) out += "=" + hex(r) + " "; else out += "~ ";
			}
			else out += "BAD-OP ";
		}
		arm(0);
		while (!out.empty() && out[out.size() - 1] == ' ') out.resize(out.size() - 1);
		std::cout << out << std::endl;
	}
	return 0;
}
