// C14 correspondence harness: the UTF-8 decoders / validators / encoders of the current tree's headers and the
// public cppcms::encoding API of the freshly built library.  One case per line, one answer per line.
#include "utf_iterator.h"
#include "encoding_validators.h"
#include <cppcms/encoding.h>
#include <booster/locale/utf.h>
#include <booster/locale/encoding_utf.h>
#include <booster/locale/encoding_errors.h>
#include <string>
#include <vector>
#include <iterator>
#include <stdio.h>
#include <stdlib.h>
#include <string.h>
#include <stdint.h>
#include "hexio.h"
using namespace hx;

typedef booster::locale::utf::utf_traits<char> btraits;

// result of one decoder call: i<k> illegal / n<k> incomplete / <cp hex>:<k>   (k = bytes consumed)
static void fmt(std::string &o,uint32_t c,long k)
{
	char buf[32];
	if(c==0xFFFFFFFFu) snprintf(buf,sizeof(buf),"i%ld",k);
	else if(c==0xFFFFFFFEu) snprintf(buf,sizeof(buf),"n%ld",k);
	else snprintf(buf,sizeof(buf),"%x:%ld",c,k);
	o+=buf;
}
// the three decoders on one byte string.  The buffer is copied into an exactly sized heap block so that a read
// past the end is visible to ASan/valgrind builds and never picks up a neighbouring case.
static void three(std::string &o,unsigned char const *s,size_t n)
{
	std::vector<char> v(s,s+n);
	char const *b=v.empty() ? (char const *)"" : &v[0];
	char const *e=b+n;
	char const *p=b; uint32_t c=cppcms::utf8::next(p,e,false,false); fmt(o,c,p-b); o+='/';
	p=b; c=cppcms::utf8::next(p,e,true,false); fmt(o,c,p-b); o+='/';
	p=b; c=btraits::decode(p,e); fmt(o,c,p-b);
}

typedef booster::locale::utf::utf_traits<char16_t> b16traits;
// code units: 4 hex digits each; "-" = empty
static std::vector<char16_t> units(std::string const &h)
{
	std::vector<char16_t> r;
	if(h=="-") return r;
	for(size_t i=0;i+4<=h.size();i+=4) r.push_back(char16_t(strtoul(h.substr(i,4).c_str(),0,16)));
	return r;
}
static std::string hex16(std::u16string const &s)
{
	if(s.empty()) return "-";
	std::string r; char b[8];
	for(size_t i=0;i<s.size();i++) { snprintf(b,sizeof(b),"%04x",unsigned(s[i])); r+=b; }
	return r;
}
static std::string bits(std::vector<bool> const &v)
{
	static const char *d="0123456789abcdef";
	std::string r;
	for(size_t i=0;i<v.size();i+=4) {
		int x=0;
		for(size_t j=0;j<4;j++) x=x*2+((i+j<v.size() && v[i+j])?1:0);
		r+=d[x];
	}
	return r;
}

int main()
{
	static const unsigned char G[6]={0x00,0x7F,0x80,0xBF,0xC0,0xFF};
	std::string line;
	char buf[64];
	while(std::getline(std::cin,line)) {
		std::vector<std::string> v=split(line);
		std::string out;
		if(v.size()==2 && v[0]=="nx") {
			std::string s=unhex(v[1]);
			out="nx ";
			three(out,(unsigned char const *)s.data(),s.size());
		}
		else if(v.size()==3 && v[0]=="grid") {
			unsigned char q[4];
			q[0]=strtoul(v[1].c_str(),0,16); q[1]=strtoul(v[2].c_str(),0,16);
			out="grid ";
			three(out,q,2);
			for(int i=0;i<6;i++) { q[2]=G[i]; out+=','; three(out,q,3); }
			for(int i=0;i<6;i++) for(int j=0;j<6;j++) { q[2]=G[i]; q[3]=G[j]; out+=','; three(out,q,4); }
		}
		else if(v.size()==4 && v[0]=="val") {
			bool html=v[1]=="1";
			size_t count=strtoull(v[2].c_str(),0,10);
			std::string s=unhex(v[3]);
			char const *b=s.data(),*e=b+s.size();
			bool r1=cppcms::utf8::validate(b,e,count,html);
			bool r2=cppcms::utf8::validate(b,e,html);
			// the same through std::string iterators (the template is used with both)
			size_t c3=strtoull(v[2].c_str(),0,10);
			bool r3=cppcms::utf8::validate(s.begin(),s.end(),c3,html);
			if(r1!=r2 || r1!=r3 || c3!=count) out="val PATHS-DIFFER";
			else { snprintf(buf,sizeof(buf),"val %d %lu",int(r1),(unsigned long)count); out=buf; }
		}
		else if(v.size()==3 && v[0]=="vu8") {
			size_t count=strtoull(v[1].c_str(),0,10);
			std::string s=unhex(v[2]);
			bool r=cppcms::encoding::valid_utf8(s.data(),s.data()+s.size(),count);
			snprintf(buf,sizeof(buf),"vu8 %d %lu",int(r),(unsigned long)count); out=buf;
		}
		else if(v.size()==4 && v[0]=="vnm") {
			std::string name=unhex(v[1]);
			size_t c0=strtoull(v[2].c_str(),0,10);
			std::string s=unhex(v[3]);
			size_t count=c0;
			bool r=cppcms::encoding::valid(name,s.data(),s.data()+s.size(),count);
			bool same=true;
			if(name.find('\0')==std::string::npos) {
				size_t c2=c0;
				bool r2=cppcms::encoding::valid(name.c_str(),s.data(),s.data()+s.size(),c2);
				same = r2==r && c2==count;
			}
			if(!same) out="vnm PATHS-DIFFER";
			else { snprintf(buf,sizeof(buf),"vnm %d %lu",int(r),(unsigned long)count); out=buf; }
		}
		else if(v.size()==2 && v[0]=="sb1") {
			std::string name=unhex(v[1]);
			std::vector<bool> r;
			for(int b=0;b<256;b++) { char c=char(b); size_t n=0; r.push_back(cppcms::encoding::valid(name,&c,&c+1,n)); }
			out="sb1 "+bits(r);
		}
		else if(v.size()==3 && v[0]=="sb2") {
			std::string name=unhex(v[1]);
			char c[2]; c[0]=char(strtoul(v[2].c_str(),0,16));
			std::vector<bool> r,r1;
			for(int b=0;b<256;b++) { c[1]=char(b); size_t n=0; r.push_back(cppcms::encoding::valid(name,c,c+2,n)); }
			// the same bytes on their own (for the context-independence oracle)
			for(int b=0;b<256;b++) { char d=char(b); size_t n=0; r1.push_back(cppcms::encoding::valid(name,&d,&d+1,n)); }
			size_t n0=0;
			bool va=cppcms::encoding::valid(name,c,c+1,n0);
			out="sb2 "+bits(r)+(va?" 1 ":" 0 ")+bits(r1);
		}
		else if(v.size()==2 && v[0]=="enc") {
			uint32_t cp=strtoul(v[1].c_str(),0,16);
			cppcms::utf8::seq s=cppcms::utf8::encode(cp);
			std::string r1(s.c,s.len);
			int w1=cppcms::utf8::width(cp);
			std::string r2; btraits::encode(cp,std::back_inserter(r2));
			int w2=btraits::width(cp);
			if(r1!=r2 || w1!=w2) out="enc PATHS-DIFFER "+hex(r1)+" "+hex(r2);
			else { snprintf(buf,sizeof(buf)," %d",w1); out="enc "+hex(r1)+buf; }
		}
		else if(v.size()==4 && v[0]=="flt") {
			std::string name=unhex(v[1]);
			char repl=char(strtoul(v[2].c_str(),0,16));
			std::string s=unhex(v[3]);
			std::string o="\x01untouched";
			bool r=cppcms::encoding::validate_or_filter(name,s.data(),s.data()+s.size(),o,repl);
			if(r) out = o=="\x01untouched" ? "flt valid" : "flt valid TOUCHED "+hex(o);
			else out="flt filtered "+hex(o);
		}
		else if(v.size()>=4 && v[0]=="fls") {
			// ONE output string object reused across consecutive validate_or_filter calls (state that survives between operations)
			std::string name=unhex(v[1]);
			char repl=char(strtoul(v[2].c_str(),0,16));
			std::string o="\x01untouched";
			out="fls";
			for(size_t k=3;k<v.size();k++) {
				std::string s=unhex(v[k]);
				bool r=cppcms::encoding::validate_or_filter(name,s.data(),s.data()+s.size(),o,repl);
				out+= r ? " v:" : " f:"; out+=hex(o);
			}
		}
		else if(v.size()==2 && v[0]=="dv") {
			// unchecked decoder: only ever given input that starts with a well-formed sequence
			std::string s=unhex(v[1]);
			char const *b=s.data(),*p=b;
			uint32_t c=btraits::decode_valid(p);
			snprintf(buf,sizeof(buf),"dv %x:%ld",c,long(p-b)); out=buf;
		}
		else if(v.size()==2 && v[0]=="cmp") {
			out=cppcms::encoding::is_ascii_compatible(unhex(v[1])) ? "cmp 1" : "cmp 0";
		}
		else if(v.size()==2 && v[0]=="u2u") {
			std::string s=unhex(v[1]);
			std::string r1=booster::locale::conv::utf_to_utf<char,char>(s.data(),s.data()+s.size(),booster::locale::conv::skip);
			out="u2u "+hex(r1)+" ";
			try {
				std::string r2=booster::locale::conv::utf_to_utf<char,char>(s.data(),s.data()+s.size(),booster::locale::conv::stop);
				out+=hex(r2);
			}
			catch(booster::locale::conv::conversion_error const &) { out+="throw"; }
		}
		else if(v.size()==2 && v[0]=="d16") {
			// utf_traits<char16_t>::decode on a sequence of code units (4 hex digits each), exactly sized heap block
			std::vector<char16_t> u=units(v[1]);
			std::vector<char16_t> blk(u);
			char16_t const *b=blk.empty() ? (char16_t const *)u"" : &blk[0],*e=b+blk.size(),*p=b;
			uint32_t c=b16traits::decode(p,e);
			out="d16 "; fmt(out,c,p-b);
		}
		else if(v.size()==2 && v[0]=="e16") {
			uint32_t cp=strtoul(v[1].c_str(),0,16);
			std::u16string r; b16traits::encode(cp,std::back_inserter(r));
			snprintf(buf,sizeof(buf)," %d",b16traits::width(cp)); out="e16 "+hex16(r)+buf;
		}
		else if(v.size()==2 && v[0]=="c816") {
			std::string s=unhex(v[1]);
			std::u16string r1=booster::locale::conv::utf_to_utf<char16_t,char>(s.data(),s.data()+s.size(),booster::locale::conv::skip);
			out="c816 "+hex16(r1)+" ";
			try { out+=hex16(booster::locale::conv::utf_to_utf<char16_t,char>(s.data(),s.data()+s.size(),booster::locale::conv::stop)); }
			catch(booster::locale::conv::conversion_error const &) { out+="throw"; }
		}
		else if(v.size()==2 && v[0]=="c168") {
			std::vector<char16_t> u=units(v[1]);
			char16_t const *b=u.empty() ? (char16_t const *)u"" : &u[0],*e=b+u.size();
			std::string r1=booster::locale::conv::utf_to_utf<char,char16_t>(b,e,booster::locale::conv::skip);
			out="c168 "+hex(r1)+" ";
			try { out+=hex(booster::locale::conv::utf_to_utf<char,char16_t>(b,e,booster::locale::conv::stop)); }
			catch(booster::locale::conv::conversion_error const &) { out+="throw"; }
		}
		else out="BAD-CASE";
		fputs(out.c_str(),stdout); fputc('\n',stdout);
	}
	return 0;
}
