// C17 correspondence harness, event-loop part.
//
// Drives a REAL booster::aio::io_service (through io_service, deadline_timer and stream_socket /
// basic_io_device objects) single-threaded and fully deterministically:
//   * gettimeofday() is interposed: ptime::now() reads a virtual millisecond clock;
//   * poll()/epoll_wait()/select() are interposed: the call made by reactor::poll() (issued by run_one with
//     data_mutex_ UNLOCKED and polling_==true) first executes the next "phase" of the script - these
//     operations are therefore exactly those of another thread hitting the loop while it polls (deferred
//     setters/cancelers, wake-ups through the self-pipe) - then performs the real system call with timeout 0,
//     reports at most one ready script descriptor (plus the interrupter), and if nothing is ready advances the
//     virtual clock by the timeout the loop asked for (no real sleeping, nothing depends on machine load);
//   * handlers are counting functors; a handler may execute a list of operations when invoked (loop thread,
//     polling_==false: the in-place paths).
// One case per input line, one result line per case.  See checks/C17.py for the script language.
#include <booster/aio/io_service.h>
#include <booster/aio/deadline_timer.h>
#include <booster/aio/stream_socket.h>
#include <booster/aio/reactor.h>
#include <booster/aio/aio_category.h>
#include <booster/aio/buffer.h>
#include <booster/posix_time.h>
#include <booster/system_error.h>
#include <sys/socket.h>
#include <sys/time.h>
#include <sys/epoll.h>
#include <sys/select.h>
#include <sys/syscall.h>
#include <poll.h>
#include <sys/uio.h>
#include <unistd.h>
#include <fcntl.h>
#include <errno.h>
#include <signal.h>
#include <sys/resource.h>
#include <string.h>
#include <map>
#include <set>
#include <memory>
#include "hexio.h"
#include "C17_util.h"

namespace aio = booster::aio;
using booster::ptime;
using booster::system::error_code;

volatile bool c17_virtual = false;

namespace {
const long long BASE_SEC = 1000000;   // virtual epoch (seconds); the virtual clock is BASE_SEC*1000 + vms
const int IDLE_MS = 3600000;          // ptime::hours(1): run_one asks for this when it has nothing to do
const int NFMAX = 8;

struct Op { std::string t; long long a, b, c; };

struct Case {
	aio::io_service *srv;
	int reactor;            // booster constant
	bool pick_hi, pick_all, reuse, stop_pending;
	std::string mode;
	int nfd;
	int fa[NFMAX], fb[NFMAX];
	bool closedA[NFMAX], closedB[NFMAX];
	aio::stream_socket *dev[NFMAX];
	std::vector<std::vector<Op> > phases;
	std::map<long long, std::vector<Op> > bodies;
	size_t next_phase;
	long long vms, poll_vms;
	std::vector<std::string> subs, log;
	std::set<long long> pending_posts;
	std::set<std::string> flags;
	size_t mark;
	int stage;               // 0 script running, 1 final cancel issued, 2 stop issued
	long polls, nops;
	pthread_t loop_thread;
	bool in_run;
	// timers
	std::map<long long, aio::deadline_timer *> dts;
	std::map<long long, long long> tdeadline;
	std::map<long long, int> rawid;
	std::map<long long, long> raworder;
	std::set<long long> cancelled, ran;
	std::set<long long> tgone;   // timers for which cancel was really issued
	long order;
	int idx_of_fd[4096];
	std::vector<char *> bufs;
	// deadline_timer objects used through TO/CO: the wait the script believes outstanding (last armed, not completed, not cancelled)
	std::map<long long, aio::deadline_timer *> tobjs;
	std::map<long long, long long> tcur;          // object -> handler id
	std::map<long long, long long> towner;        // handler id -> object
	std::vector<std::string> cancels;             // effective cancel() calls: handler@time
	std::map<int, std::set<long long> > rdwait;   // device -> read-kind handlers submitted and not completed
	std::map<int, std::set<long long> > iowait;   // device -> handlers of any descriptor wait / transfer submitted and not completed
	std::set<long long> close_pending;            // handlers that were outstanding when their device was closed / re-attached / re-assigned
	bool notowner[NFMAX];                         // owner_ == false: release() or attach() was called
	std::map<long long, char> iokind;             // 'p' plain wait, 'r' / 'w' composite read / write operation
} *C = 0;

std::string itos(long long v) { char b[32]; snprintf(b, sizeof(b), "%lld", v); return b; }

std::string code_name(error_code const &e)
{
	if(!e) return "ok";
	if(e.category() == aio::aio_error_cat) {
		if(e.value() == aio::aio_error::canceled) return "can";
		if(e.value() == aio::aio_error::select_failed) return "self";
		if(e.value() == aio::aio_error::eof) return "eof";
		return "aio" + itos(e.value());
	}
	return "sys" + itos(e.value());
}

void exec_ops(std::vector<Op> const &ops);

void on_run_s(long long k, std::string const &code)
{
	if(C->log.size() >= 3000) {
		// runaway (a correct loop invokes every handler once, scripts have < 200 handlers): stop the case
		C->flags.insert("OVERRUN");
		C->stage = 2;
		C->srv->stop();
		return;
	}
	C->log.push_back(itos(k) + ":" + code + "@" + itos(C->vms));
	C->pending_posts.erase(k);
	C->ran.insert(k);
	for(std::map<int, std::set<long long> >::iterator q = C->rdwait.begin(); q != C->rdwait.end(); ++q) q->second.erase(k);
	for(std::map<int, std::set<long long> >::iterator q = C->iowait.begin(); q != C->iowait.end(); ++q) q->second.erase(k);
	C->close_pending.erase(k);
	if(C->towner.count(k)) { long long ob = C->towner[k]; if(C->tcur.count(ob) && C->tcur[ob] == k) C->tcur.erase(ob); }
	std::map<long long, std::vector<Op> >::iterator p = C->bodies.find(k);
	if(p != C->bodies.end()) {
		std::vector<Op> ops = p->second;   // copy: the body runs once per invocation
		exec_ops(ops);
	}
}
void on_run(long long k, error_code const &e) { on_run_s(k, code_name(e)); }

struct HPost { long long k; void operator()() const { on_run(k, error_code()); } };
struct HEv { long long k; void operator()(error_code const &e) const { on_run(k, e); } };

struct HIo { long long k; void operator()(error_code const &e, size_t n) const { on_run(k, n == 5 ? e : error_code(99, booster::system::system_category())); } };

// user handler of stream_socket::async_read_some / async_write_some: success must come with a positive byte count, failure with 0
struct HXfer { long long k; void operator()(error_code const &e, size_t n) const
	{ on_run(k, (!e && n == 0) ? error_code(98, booster::system::system_category()) : (e && n != 0) ? error_code(97, booster::system::system_category()) : e); } };
char xfer_buf[8192];
// user handler of stream_socket::async_read / async_write (reader_all / writer_all): the byte count is part of the result
struct HAll { long long k; char *buf; void operator()(error_code const &e, size_t n) const { on_run_s(k, code_name(e) + "/" + itos((long long)n)); } };

ptime abs_time(long long ms) { return ptime::milliseconds(BASE_SEC * 1000 + ms); }

// handlers that must be told about the close before the loop sleeps again: plain waits always; a composite operation only when the close
// also closes the descriptor (owning device).  After a mere cancel() - close / attach / assign of a NON-owning device - the internal handler
// of a composite operation may already be queued with success (or be queued by an event that arrives before a deferred canceler runs); it
// then tries the transfer again, and an operation that still would block waits again: it survives the cancel.  On a closed descriptor the
// retry fails with EBADF instead, so the operation ends in every case.
void note_close_pending(int f)
{
	Case &c = *C;
	for(std::set<long long>::iterator p = c.iowait[f].begin(); p != c.iowait[f].end(); ++p) {
		char kd = c.iokind.count(*p) ? c.iokind[*p] : 'p';
		if(kd != 'p' && c.notowner[f]) continue;
		c.close_pending.insert(*p);
	}
}

void exec_op(Op const &o)
{
	Case &c = *C;
	if(++c.nops > 50000) { c.flags.insert("OVERRUN"); return; }
	std::string const &t = o.t;
	int f = int(o.a);
	if(t == "P") {
		c.subs.push_back(itos(o.a) + ":p");
		c.pending_posts.insert(o.a);
		HPost h = { o.a };
		c.srv->post(h);
	}
	else if(t == "PE") {
		// post(event_handler, code): completes with the code given
		c.subs.push_back(itos(o.a) + ":pe");
		c.pending_posts.insert(o.a);
		HEv h = { o.a };
		c.srv->post(h, error_code(aio::aio_error::canceled, aio::aio_error_cat));
	}
	else if(t == "PI") {
		// post(io_handler, code, n)
		c.subs.push_back(itos(o.a) + ":p");
		c.pending_posts.insert(o.a);
		HIo h = { o.a };
		c.srv->post(h, error_code(), 5);
	}
	else if(t == "T" || t == "U") {
		long long dl = c.vms + o.b;
		c.subs.push_back(itos(o.a) + ":t" + itos(dl));
		c.tdeadline[o.a] = dl;
		HEv h = { o.a };
		if(t == "T") {
			aio::deadline_timer *dt = new aio::deadline_timer(*c.srv);
			c.dts[o.a] = dt;
			dt->expires_at(abs_time(dl));
			dt->async_wait(h);
		}
		else {
			c.rawid[o.a] = c.srv->set_timer_event(abs_time(dl), h);
			c.raworder[o.a] = ++c.order;
		}
	}
	else if(t == "TO") {
		// arm the deadline_timer OBJECT o.b (created on first use) with handler o.a: expires_at + async_wait
		long long ob = o.b, dl = c.vms + o.c;
		c.subs.push_back(itos(o.a) + ":t" + itos(dl));
		c.tdeadline[o.a] = dl;
		if(!c.tobjs.count(ob)) c.tobjs[ob] = new aio::deadline_timer(*c.srv);
		c.towner[o.a] = ob;
		c.tcur[ob] = o.a;
		HEv h = { o.a };
		c.tobjs[ob]->expires_at(abs_time(dl));
		c.tobjs[ob]->async_wait(h);
	}
	else if(t == "CO") {
		// cancel() on the object, only while the wait believed outstanding is certainly still armed (deadline in the future)
		long long ob = o.a;
		if(c.tobjs.count(ob) && c.tcur.count(ob) && c.tdeadline[c.tcur[ob]] > c.vms) {
			long long k = c.tcur[ob];
			c.tcur.erase(ob);
			c.tgone.insert(k);
			c.cancels.push_back(itos(k) + "@" + itos(c.vms));
			c.tobjs[ob]->cancel();
		}
	}
	else if(t == "RO") {
		// a new socket that receives the descriptor NUMBER of the closed device f (numbers are reused by the OS) is assigned to the device
		if(c.closedA[f] && c.fa[f] >= 0) {
			int sv[2];
			if(socketpair(AF_UNIX, SOCK_STREAM, 0, sv) < 0) { c.flags.insert("HARNESS-socketpair"); return; }
			int a = c.fa[f];
			if(sv[0] != a) { if(dup2(sv[0], a) != a) { c.flags.insert("HARNESS-dup2"); return; } ::close(sv[0]); }
			int b = fcntl(sv[1], F_DUPFD, 100); ::close(sv[1]);
			if(!c.closedB[f]) ::close(c.fb[f]);
			c.fb[f] = b; c.closedB[f] = false; c.closedA[f] = false;
			int sz = 4096;
			setsockopt(a, SOL_SOCKET, SO_SNDBUF, &sz, sizeof(sz));
			fcntl(a, F_SETFL, fcntl(a, F_GETFL, 0) | O_NONBLOCK);
			fcntl(b, F_SETFL, fcntl(b, F_GETFL, 0) | O_NONBLOCK);
			c.dev[f]->assign(a);
			c.idx_of_fd[a] = f;
		}
	}
	else if(t == "CT") {
		if(c.dts.count(o.a)) {
			// deadline_timer object: call cancel() only while the timer is certainly still armed (see docs/C17.md:
			// deadline_timer keeps its slot id until the handler has run and slot ids are recycled)
			if(!c.cancelled.count(o.a) && !c.ran.count(o.a) && c.tdeadline[o.a] > c.vms) {
				c.cancelled.insert(o.a);
				c.tgone.insert(o.a);
				c.dts[o.a]->cancel();
			}
		}
		else if(c.rawid.count(o.a)) {
			int id = c.rawid[o.a];
			bool alias = false;
			for(std::map<long long, int>::iterator p = c.rawid.begin(); p != c.rawid.end(); ++p)
				if(p->first != o.a && p->second == id && c.raworder[p->first] > c.raworder[o.a])
					alias = true;
			if(!alias) {
				c.tgone.insert(o.a);
				c.srv->cancel_timer_event(id);
			}
		}
	}
	else if(t == "I" || t == "O") {
		f = int(o.b);
		c.subs.push_back(itos(o.a) + ":" + (t == "I" ? "i" : "o") + itos(f));
		HEv h = { o.a };
		if(t == "I") c.rdwait[f].insert(o.a);
		c.iowait[f].insert(o.a);
		if(t == "I") c.dev[f]->on_readable(h); else c.dev[f]->on_writeable(h);
	}
	else if(t == "RS" || t == "WS") {
		f = int(o.b);
		c.subs.push_back(itos(o.a) + ":" + (t == "RS" ? "r" : "w") + itos(f));
		HXfer h = { o.a };
		if(t == "RS") c.rdwait[f].insert(o.a);
		c.iowait[f].insert(o.a); c.iokind[o.a] = (t == "RS" ? 'r' : 'w');
		if(t == "RS") c.dev[f]->async_read_some(aio::buffer(xfer_buf, sizeof(xfer_buf)), h);
		else c.dev[f]->async_write_some(aio::buffer(static_cast<char const *>(xfer_buf), 1), h);
	}
	else if(t == "RA" || t == "WA") {
		f = int(o.b);
		c.subs.push_back(itos(o.a) + ":" + (t == "RA" ? "R" : "W") + itos(f) + "." + itos(o.c));
		char *buf = new char[16]();   // lives until the end of the case (the operation may complete at any later time)
		c.bufs.push_back(buf);
		HAll h = { o.a, buf };
		if(t == "RA") c.rdwait[f].insert(o.a);
		c.iowait[f].insert(o.a); c.iokind[o.a] = (t == "RA" ? 'r' : 'w');
		if(t == "RA") c.dev[f]->async_read(aio::buffer(buf, size_t(o.c)), h);
		else c.dev[f]->async_write(aio::buffer(static_cast<char const *>(buf), size_t(o.c)), h);
	}
	else if(t == "CF") {
		c.dev[f]->cancel();
	}
	else if(t == "CL") {
		if(!c.closedA[f]) {
			note_close_pending(f);
			if(c.notowner[f]) c.dev[f]->close();      // cancels the waits; the descriptor stays open and the device keeps it
			else {
				c.idx_of_fd[c.fa[f]] = -1;
				c.dev[f]->close();
				c.closedA[f] = true;
			}
		}
	}
	else if(t == "RL") {
		if(!c.closedA[f] && !c.notowner[f]) { c.dev[f]->release(); c.notowner[f] = true; }
	}
	else if(t == "AT") {
		// attach the descriptor the device already has (after release()): attach() = close(e) - cancel the waits - then owner_ = false
		if(!c.closedA[f]) {
			if(!c.notowner[f]) { c.dev[f]->release(); c.notowner[f] = true; }
			note_close_pending(f);
			c.dev[f]->attach(c.fa[f]);
		}
	}
	else if(t == "AS") {
		// assign the descriptor a NON-owning device already has: close(e) cancels the waits, then owner_ = true
		if(!c.closedA[f] && c.notowner[f]) {
			note_close_pending(f);
			c.dev[f]->assign(c.fa[f]);
			c.notowner[f] = false;
		}
	}
	else if(t == "W") {
		if(!c.closedA[f] && !c.closedB[f]) { char x = 'x'; if(::write(c.fb[f], &x, 1) != 1) c.flags.insert("HARNESS-write"); }
	}
	else if(t == "R") {
		if(!c.closedA[f]) { char buf[4096]; while(::read(c.fa[f], buf, sizeof(buf)) > 0) ; }
	}
	else if(t == "F") {
		if(!c.closedA[f] && !c.closedB[f]) { static char buf[1024]; while(::write(c.fa[f], buf, sizeof(buf)) > 0) ; }
	}
	else if(t == "D") {
		if(!c.closedB[f]) { char buf[4096]; while(::read(c.fb[f], buf, sizeof(buf)) > 0) ; }
	}
	else if(t == "K") {
		// the peer reads what it was sent and then closes: an orderly shutdown (closing with unread input would reset the connection,
		// and a later read on side A would fail with ECONNRESET instead of reporting end of file)
		if(!c.closedB[f]) { char buf[4096]; while(::read(c.fb[f], buf, sizeof(buf)) > 0) ; ::close(c.fb[f]); c.closedB[f] = true; }
	}
	else if(t == "A") {
		c.vms += o.a;
	}
	else if(t == "X") {
		c.stop_pending = true;
		c.srv->stop();
	}
	else
		c.flags.insert("HARNESS-badop");
}

void exec_ops(std::vector<Op> const &ops) { for(size_t i = 0; i < ops.size(); i++) exec_op(ops[i]); }

bool hooked() { return c17_virtual && C && C->in_run && pthread_equal(pthread_self(), C->loop_thread); }

// called at the start of every reactor poll of the loop thread (data_mutex_ unlocked, polling_ == true)
void before_poll()
{
	Case &c = *C;
	c.poll_vms = c.vms;   // the virtual time at which the loop computed its timeout (phase operations may advance the clock)
	if(++c.polls > 20000) {
		c.flags.insert("LIVELOCK");
		c.stage = 2;
		c.srv->stop();
		return;
	}
	if(c.stage == 0 && c.next_phase < c.phases.size()) {
		std::vector<Op> ops = c.phases[c.next_phase++];
		exec_ops(ops);
	}
}

// decides what the poll returns when the real call (timeout 0) reported nothing at all
void nothing_ready(int timeout)
{
	Case &c = *C;
	if(timeout == 0) return;
	// stop() was called while the loop polled and the loop is about to sleep: its wake-up was lost
	if(c.stop_pending) c.flags.insert("LOSTWAKE");
	// the loop is about to sleep: a handler that was outstanding when its device was closed / re-attached must have been invoked by now
	// (close() cancels the waits in place or queues the canceler, and a non-empty queue means a zero timeout)
	if(c.mode.size() == 2 && c.mode[1] == 's' && !c.close_pending.empty()) c.flags.insert("CLOSEPENDING");
	// the loop is about to sleep for `timeout` ms: no armed timer may have its deadline inside that sleep (property oracle for the
	// timer half of the wake-up: the timeout computation of run_one and the wake() of set_timer_event while polling_)
	for(std::map<long long, long long>::iterator p = c.tdeadline.begin(); p != c.tdeadline.end(); ++p)
		if(!c.ran.count(p->first) && !c.tgone.count(p->first) && p->second < c.poll_vms + (long long)timeout)
			c.flags.insert("SLEPTPAST");
	if(timeout > 0 && timeout < IDLE_MS) { c.vms += timeout; return; }
	// the loop would now block "for ever": nothing queued, no timer
	if(!c.pending_posts.empty()) c.flags.insert("LOSTWAKE");
	// ... and no open descriptor with unread input may have a read wait outstanding (the reactor must have reported it)
	for(int f = 0; f < c.nfd; f++) {
		if(c.mode.size() != 2 || c.mode[1] != 's') break;   // only scripts that respect the API contract (no double arms, no finding replays)
		if(c.closedA[f] || c.rdwait[f].empty()) continue;
		struct pollfd pf; pf.fd = c.fa[f]; pf.events = POLLIN; pf.revents = 0;
		if(syscall(SYS_poll, &pf, 1, 0) > 0 && (pf.revents & POLLIN)) c.flags.insert("MISSEDREADY");
	}
	if(c.stage == 0 && c.next_phase < c.phases.size()) return;   // next poll runs the next phase
	if(c.stage == 0 || (c.stage == 1 && c.subs.size() != c.mark)) {
		// end of script: cancel every descriptor (like closing them); repeat while cancelled handlers re-arm
		c.stage = 1;
		c.mark = c.subs.size();
		for(int f = 0; f < c.nfd; f++) c.dev[f]->cancel();
		return;
	}
	if(c.stage == 1) { c.stage = 2; c.srv->stop(); }
}

int choose(std::vector<int> const &ready_idx)
{
	if(ready_idx.empty()) return -1;
	if(C->pick_all) return -2;   // batch mode: report every ready descriptor
	int best = ready_idx[0];
	for(size_t i = 1; i < ready_idx.size(); i++)
		if(C->pick_hi ? ready_idx[i] > best : ready_idx[i] < best) best = ready_idx[i];
	return best;
}
int idx_of(int fd) { return (fd >= 0 && fd < 4096) ? C->idx_of_fd[fd] : -1; }
} // anon

extern "C" int gettimeofday(struct timeval *tv, void *tz) __THROW
{
	if(!c17_virtual || !C)
		return syscall(SYS_gettimeofday, tv, tz);
	long long ms = BASE_SEC * 1000 + C->vms;
	tv->tv_sec = ms / 1000;
	tv->tv_usec = (ms % 1000) * 1000;
	return 0;
}

// stream_socket::write_some -> ::writev: whatever the library writes on a script descriptor is consumed by the peer at once, so the
// (deliberately small) send buffer is "full" exactly when the script filled it (F) and did not drain it (D) - otherwise a few
// one-byte writes that nobody reads make the descriptor unwritable (AF_UNIX accounts a whole skb per write)
extern "C" ssize_t writev(int fd, const struct iovec *iov, int cnt)
{
	ssize_t r = syscall(SYS_writev, fd, iov, cnt);
	if(c17_virtual && C && r > 0) {
		int ix = idx_of(fd);
		if(ix >= 0 && !C->closedB[ix]) { char buf[4096]; while(::read(C->fb[ix], buf, sizeof(buf)) > 0) ; }
	}
	return r;
}

extern "C" int poll(struct pollfd *fds, nfds_t n, int timeout)
{
	if(!hooked()) return syscall(SYS_poll, fds, n, timeout);
	before_poll();
	int r = syscall(SYS_poll, fds, n, 0);
	if(r < 0) return r;
	std::vector<int> ready;
	bool nval = false;
	for(nfds_t i = 0; i < n; i++) if(fds[i].revents & POLLNVAL) nval = true;
	// a closed descriptor still in the poll set: poll_reactor::poll() removes it by swapping with the last entry and
	// skips the entry swapped in, so which other events are reported this round depends on the vector layout; make the
	// round deterministic by reporting no script descriptor (level-triggered: they are reported by the next poll)
	for(nfds_t i = 0; i < n; i++) if(!nval && fds[i].revents && idx_of(fds[i].fd) >= 0) ready.push_back(idx_of(fds[i].fd));
	int keep = choose(ready);
	r = 0;
	for(nfds_t i = 0; i < n; i++) {
		int ix = idx_of(fds[i].fd);
		if(ix >= 0 && ix != keep && keep != -2) fds[i].revents = 0;
		if(fds[i].revents) r++;
	}
	if(r == 0) nothing_ready(timeout);
	return r;
}

extern "C" int epoll_wait(int epfd, struct epoll_event *evs, int maxevents, int timeout)
{
	if(!hooked()) return syscall(SYS_epoll_wait, epfd, evs, maxevents, timeout);
	before_poll();
	int r = syscall(SYS_epoll_wait, epfd, evs, maxevents, 0);
	if(r < 0) return r;
	std::vector<int> ready;
	for(int i = 0; i < r; i++) if(idx_of(evs[i].data.fd) >= 0) ready.push_back(idx_of(evs[i].data.fd));
	int keep = choose(ready);
	int w = 0;
	for(int i = 0; i < r; i++) {
		int ix = idx_of(evs[i].data.fd);
		if(ix >= 0 && ix != keep && keep != -2) continue;
		evs[w++] = evs[i];
	}
	if(w == 0) nothing_ready(timeout);
	return w;
}

extern "C" int select(int nfds, fd_set *rd, fd_set *wr, fd_set *ex, struct timeval *tv)
{
	if(!hooked()) return syscall(SYS_select, nfds, rd, wr, ex, tv);
	int timeout = tv ? int(tv->tv_sec * 1000 + tv->tv_usec / 1000) : -1;
	before_poll();
	struct timeval z = { 0, 0 };
	int r = syscall(SYS_select, nfds, rd, wr, ex, &z);
	if(r < 0) return r;
	std::vector<int> ready;
	for(int fd = 0; fd < nfds; fd++)
		if(idx_of(fd) >= 0 && ((rd && FD_ISSET(fd, rd)) || (wr && FD_ISSET(fd, wr)) || (ex && FD_ISSET(fd, ex))))
			ready.push_back(idx_of(fd));
	int keep = choose(ready);
	r = 0;
	for(int fd = 0; fd < nfds; fd++) {
		int ix = idx_of(fd);
		if(ix >= 0 && ix != keep && keep != -2) {
			if(rd) FD_CLR(fd, rd);
			if(wr) FD_CLR(fd, wr);
			if(ex) FD_CLR(fd, ex);
		}
		if(rd && FD_ISSET(fd, rd)) r++;
		if(wr && FD_ISSET(fd, wr)) r++;
		if(ex && FD_ISSET(fd, ex)) r++;
	}
	if(r == 0) nothing_ready(timeout < 0 ? IDLE_MS : timeout);
	return r;
}

namespace {
bool parse(std::vector<std::string> const &tok, Case &c, std::string &err)
{
	// loop <e|p|s> <l|h> <nfd> ops...
	if(tok.size() < 4) { err = "short"; return false; }
	c.reactor = tok[1] == "e" ? aio::reactor::use_epoll : tok[1] == "p" ? aio::reactor::use_poll : aio::reactor::use_select;
	c.pick_hi = !tok[2].empty() && tok[2][0] == 'h';
	c.pick_all = !tok[2].empty() && tok[2][0] == 'a';
	c.mode = tok[2];
	c.reuse = tok[2].size() > 2 && tok[2][2] == 'r';
	c.nfd = atoi(tok[3].c_str());
	if(c.nfd < 0 || c.nfd > NFMAX) { err = "nfd"; return false; }
	c.phases.push_back(std::vector<Op>());
	std::vector<Op> *cur = &c.phases.back();
	bool in_body = false;
	for(size_t i = 4; i < tok.size();) {
		std::string const &t = tok[i];
		int ar = -1;
		if(t == "/") { if(in_body) { err = "/ in body"; return false; } c.phases.push_back(std::vector<Op>()); cur = &c.phases.back(); i++; continue; }
		if(t == "[") { if(i + 1 >= tok.size()) { err = "["; return false; } cur = &c.bodies[atoll(tok[i + 1].c_str())]; in_body = true; i += 2; continue; }
		if(t == "]") { in_body = false; cur = 0; i++; continue; }
		if(t == "X") ar = 0;
		else if(t == "P" || t == "PE" || t == "PI" || t == "CT" || t == "CF" || t == "CL" || t == "W" || t == "R" || t == "F" || t == "D" || t == "K" || t == "A") ar = 1;
		else if(t == "T" || t == "U" || t == "I" || t == "O" || t == "RS" || t == "WS") ar = 2;
		else if(t == "RA" || t == "WA" || t == "TO") ar = 3;
		else if(t == "RO" || t == "CO" || t == "RL" || t == "AT" || t == "AS") ar = 1;
		if(ar < 0 || !cur) { err = "op " + t; return false; }
		if(i + ar > tok.size() - 1) { err = "arity " + t; return false; }
		Op o; o.t = t; o.a = ar >= 1 ? atoll(tok[i + 1].c_str()) : 0; o.b = ar >= 2 ? atoll(tok[i + 2].c_str()) : 0; o.c = ar >= 3 ? atoll(tok[i + 3].c_str()) : 0;
		bool fdop1 = (t == "RL" || t == "AT" || t == "AS" || t == "RO" || t == "CF" || t == "CL" || t == "W" || t == "R" || t == "F" || t == "D" || t == "K");
		bool fdop2 = (t == "I" || t == "O" || t == "RS" || t == "WS" || t == "RA" || t == "WA");
		if((t == "RA" || t == "WA") && (o.c < 1 || o.c > 8)) { err = "byte count"; return false; }
		long long f = fdop2 ? o.b : fdop1 ? o.a : 0;
		if((fdop1 || fdop2) && (f < 0 || f >= c.nfd)) { err = "fd index"; return false; }
		cur->push_back(o);
		i += 1 + ar;
	}
	return true;
}

std::string join(std::vector<std::string> const &v)
{
	if(v.empty()) return "-";
	std::string r;
	for(size_t i = 0; i < v.size(); i++) { if(i) r += ","; r += v[i]; }
	return r;
}

std::string loop_case(std::vector<std::string> const &tok)
{
	Case c;
	std::string err;
	c.srv = 0; c.next_phase = 0; c.vms = 100000; c.poll_vms = 100000; c.stop_pending = false; c.stage = 0; c.mark = 0; c.polls = 0; c.nops = 0; c.in_run = false; c.order = 0;
	for(int i = 0; i < 4096; i++) c.idx_of_fd[i] = -1;
	if(!parse(tok, c, err)) return "loop BAD-CASE " + err;
	C = &c;
	c17_virtual = true;
	c.loop_thread = pthread_self();
	c.srv = new aio::io_service(c.reactor);
	for(int f = 0; f < c.nfd; f++) {
		int sv[2];
		if(socketpair(AF_UNIX, SOCK_STREAM, 0, sv) < 0 || sv[0] >= 1000 || sv[1] >= 1000) { c17_virtual = false; C = 0; return "loop HARNESS-socketpair"; }
		if(!c.reuse) {
			// move the script descriptors away from the low numbers: a number freed by close() is then never handed
			// to the loop's own descriptors (interrupter pipe, epoll) - see docs/C17.md, finding 1, for what happens otherwise
			int a = fcntl(sv[0], F_DUPFD, 100), b = fcntl(sv[1], F_DUPFD, 100);
			::close(sv[0]); ::close(sv[1]);
			sv[0] = a; sv[1] = b;
			if(a < 0 || b < 0 || a >= 1000 || b >= 1000) { c17_virtual = false; C = 0; return "loop HARNESS-dupfd"; }
		}
		c.fa[f] = sv[0]; c.fb[f] = sv[1];
		int sz = 4096;
		setsockopt(sv[0], SOL_SOCKET, SO_SNDBUF, &sz, sizeof(sz));
		fcntl(sv[0], F_SETFL, fcntl(sv[0], F_GETFL, 0) | O_NONBLOCK);
		fcntl(sv[1], F_SETFL, fcntl(sv[1], F_GETFL, 0) | O_NONBLOCK);
		c.closedA[f] = c.closedB[f] = false; c.notowner[f] = false;
		c.dev[f] = new aio::stream_socket(*c.srv);
		c.dev[f]->assign(sv[0]);
		c.idx_of_fd[sv[0]] = f;
	}
	int restarts = 0;
	try {
		// phase 0: before the loop runs (no reactor yet: every descriptor operation is deferred)
		exec_ops(std::vector<Op>(c.phases[c.next_phase++]));
		for(;;) {
			c.in_run = true;
			c.srv->run();
			c.in_run = false;
			c.stop_pending = false;
			if(c.stage == 2 || ++restarts > 200) break;
			// stopped by the script: reset and run again; the next phase executes in between (no reactor)
			c.srv->reset();
			c.pending_posts.clear();   // reset() discards the dispatch queue
			c.rdwait.clear();          // ... and the descriptor table
			c.iowait.clear(); c.close_pending.clear();
			// ... including handlers of timers that were already due: they are out of the timer table and will never run
			for(std::map<long long, long long>::iterator p = c.tdeadline.begin(); p != c.tdeadline.end(); ++p)
				if(p->second <= c.vms) c.tgone.insert(p->first);
			if(c.next_phase < c.phases.size())
				exec_ops(std::vector<Op>(c.phases[c.next_phase++]));
		}
	}
	catch(booster::system::system_error const &e) {
		c.in_run = false;
		c.flags.insert("EXC-" + code_name(e.code()));
	}
	catch(std::exception const &e) {
		c.in_run = false;
		c.flags.insert("EXC");
	}
	if(restarts > 200) c.flags.insert("LIVELOCK");
	std::string out = "loop sub=" + join(c.subs) + " log=" + join(c.log) + " cancels=" + join(c.cancels) + " flags=" + join(std::vector<std::string>(c.flags.begin(), c.flags.end())) + " mode=" + c.mode;
	c17_virtual = false;
	for(std::map<long long, aio::deadline_timer *>::iterator p = c.dts.begin(); p != c.dts.end(); ++p) delete p->second;
	for(std::map<long long, aio::deadline_timer *>::iterator p = c.tobjs.begin(); p != c.tobjs.end(); ++p) delete p->second;
	for(int f = 0; f < c.nfd; f++) {
		delete c.dev[f];           // closes side A if still open and owned
		if(c.notowner[f] && !c.closedA[f]) ::close(c.fa[f]);
		if(!c.closedB[f]) ::close(c.fb[f]);
	}
	delete c.srv;
	for(size_t i = 0; i < c.bufs.size(); i++) delete [] c.bufs[i];
	C = 0;
	return out;
}
} // anon

int main()
{
	signal(SIGPIPE, SIG_IGN);
	// a broken loop must not take the machine down: bounded address space, and a watchdog per case
	struct rlimit rl = { 3ULL << 30, 3ULL << 30 };
	setrlimit(RLIMIT_AS, &rl);
	std::ios::sync_with_stdio(false);
	std::string line;
	while(std::getline(std::cin, line)) {
		std::vector<std::string> tok = hx::split(line);
		std::string out;
		alarm(300);
		if(tok.empty()) out = "BAD-CASE";
		else if(tok[0] == "loop") out = loop_case(tok);
		else if(tok[0] == "pool") out = c17_pool_case(tok);
		else if(tok[0] == "pstress") out = c17_pool_stress(tok);
		else if(tok[0] == "pstop") out = c17_pool_stop_stress(tok);
		else if(tok[0] == "lstress") out = c17_loop_stress(tok);
		else out = "BAD-CASE";
		std::cout << out << "\n" << std::flush;
	}
	return 0;
}
