// C03 response-script application (derived from fe_resp_app.h; owned by C03): executes a script taken from the
// query string against cppcms::http::response; the log carries only the length and an FNV-1a hash of what the
// application wrote (the pattern is deterministic, so the check recomputes the expected bytes from the script).
//   script = op,op,...   ops:
//     m<k>   io_mode (0 normal, 1 nogzip, 2 raw, 3 asynchronous, 4 asynchronous_raw)   (before first output)
//     b<n>   response().setbuf(n)            u<0|1> full_asynchronous_buffering
//     w<n>   write n pattern bytes with ostream::write      p<n>  n pattern bytes with put()
//     r<hex> write literal bytes             f      flush
//     P<hex> the literal bytes one by one with ostream::put (sputc -> overflow when the put area is full)
//     W<n>:<c> write n pattern bytes with ostream::write in pieces of c bytes (many small writes)
//     z<n>:<seed> write n pseudo-random bytes (LCG x = x*1103515245+12345 mod 2^31 from seed, byte = (x>>16)&255): incompressible
//     h<hexname>:<hexvalue>  set_header      k<hexname>:<hexvalue> set_cookie
//     l<n>   content_length(n)               c<key> cache().fetch_page(key) (hit: served from cache, script ends) and store_page(key) at the end
//     s<n>   status(n)
//     a      (async app only) async_flush_output, continue the script in its completion handler
//   the pattern byte at stream offset i is (i*131+7)%251
#pragma once
#include <cppcms/service.h>
#include <cppcms/application.h>
#include <cppcms/applications_pool.h>
#include <cppcms/http_request.h>
#include <cppcms/http_response.h>
#include <cppcms/http_context.h>
#include <cppcms/http_cookie.h>
#include <cppcms/mount_point.h>
#include <cppcms/cache_interface.h>
#include <booster/intrusive_ptr.h>
#include <functional>
#include <mutex>
#include <stdio.h>
#include "hexio.h"

namespace c03 {
static std::string g_resp_log;
static std::mutex g_resp_mutex;

inline std::string summary(std::string const &s)
{
	unsigned long long h = 1469598103934665603ULL;
	for (size_t i = 0; i < s.size(); i++) { h ^= (unsigned char)s[i]; h *= 1099511628211ULL; }
	char buf[64];
	snprintf(buf, sizeof(buf), "n=%lu;fnv=%016llx;", (unsigned long)s.size(), h);
	return buf;
}

class resp : public cppcms::application {
public:
	resp(cppcms::service &s) : cppcms::application(s), pos_(0), off_(0) {}
	std::vector<std::string> ops_;
	size_t pos_;
	size_t off_;
	std::string written_;
	std::string cache_key_;
	bool cache_hit_;
	int pend_;

	void put_pattern(size_t n, bool one_by_one)
	{
		std::string s; s.reserve(n);
		for (size_t i = 0; i < n; i++) s += char(((off_ + i) * 131 + 7) % 251);
		off_ += n;
		written_ += s;
		std::ostream &o = response().out();
		if (one_by_one) for (size_t i = 0; i < n; i++) o.put(s[i]);
		else o.write(s.data(), s.size());
	}
	// returns false when the script is suspended on an asynchronous flush
	bool run_ops()
	{
		while (pos_ < ops_.size()) {
			std::string const &op = ops_[pos_++];
			if (op.empty()) continue;
			char k = op[0];
			std::string arg = op.substr(1);
			switch (k) {
			case 'm': response().io_mode(cppcms::http::response::io_mode_type(atoi(arg.c_str()))); break;
			case 'b': response().setbuf(atoi(arg.c_str())); break;
			case 'u': response().full_asynchronous_buffering(arg == "1"); break;
			case 'w': put_pattern(atol(arg.c_str()), false); break;
			case 'p': put_pattern(atol(arg.c_str()), true); break;
			case 'W': { size_t c = arg.find(':'); size_t n = atol(arg.substr(0, c).c_str()); size_t piece = atol(arg.substr(c + 1).c_str()); if (piece == 0) piece = 1;
				while (n > 0) { size_t k = n < piece ? n : piece; put_pattern(k, false); n -= k; } } break;
			case 'z': { size_t c = arg.find(':'); size_t n = atol(arg.substr(0, c).c_str()); unsigned long x = strtoul(arg.substr(c + 1).c_str(), 0, 10) & 0x7fffffffUL;
				std::string s; s.reserve(n);
				for (size_t i = 0; i < n; i++) { x = (x * 1103515245UL + 12345UL) & 0x7fffffffUL; s += char((x >> 16) & 255); }
				written_ += s; response().out().write(s.data(), s.size()); } break;
			case 'r': { std::string s = hx::unhex(arg); written_ += s; response().out().write(s.data(), s.size()); } break;
			case 'P': { std::string s = hx::unhex(arg); written_ += s; std::ostream &o = response().out(); for (size_t i = 0; i < s.size(); i++) o.put(s[i]); } break;
			case 'f': response().out() << std::flush; break;
			case 'h': { size_t c = arg.find(':'); response().set_header(hx::unhex(arg.substr(0, c)), hx::unhex(arg.substr(c + 1))); } break;
			case 'k': { size_t c = arg.find(':'); response().set_cookie(cppcms::http::cookie(hx::unhex(arg.substr(0, c)), hx::unhex(arg.substr(c + 1)))); } break;
			case 'l': response().content_length(atoll(arg.c_str())); break;
			case 's': response().status(atoi(arg.c_str())); break;
			case 'c':
				cache_key_ = arg;
				if (cache().fetch_page(arg)) { cache_hit_ = true; pos_ = ops_.size(); }
				break;
			case 'a':
				if (is_asynchronous()) {
					booster::shared_ptr<cppcms::http::context> ctx = release_context();
					booster::intrusive_ptr<resp> self(this);
					ctx->async_flush_output([self, ctx](cppcms::http::context::completion_type ct) {
						if (ct != cppcms::http::context::operation_completed) { self->log_end("aborted"); return; }
						self->assign_context(ctx);
						if (self->run_ops()) self->finish();
					});
					return false;
				}
				break;
			default: break;
			}
		}
		return true;
	}
	void log_end(char const *how)
	{
		std::lock_guard<std::mutex> g(g_resp_mutex);
		g_resp_log += std::string(how) + ";" + summary(written_);
	}
	void finish()
	{
		if (!cache_key_.empty() && !cache_hit_)
			cache().store_page(cache_key_);
		log_end(cache_hit_ ? "hit" : "done");
		if (is_asynchronous())
			release_context()->async_complete_response();
	}
	virtual void main(std::string)
	{
		ops_.clear(); pos_ = 0; off_ = 0; written_.clear(); cache_key_.clear(); cache_hit_ = false;
		std::string q = request().query_string();
		size_t i = 0;
		while (i <= q.size()) {
			size_t e = q.find(',', i);
			if (e == std::string::npos) e = q.size();
			ops_.push_back(q.substr(i, e - i));
			i = e + 1;
		}
		try {
			if (run_ops()) finish();
		}
		catch (std::exception const &e) {
			std::lock_guard<std::mutex> g(g_resp_mutex);
			g_resp_log += std::string("exception=") + hx::hex(e.what()) + ";";
			throw;
		}
	}
};

inline void mount_resp_apps(cppcms::service &srv)
{
	srv.applications_pool().mount(cppcms::create_pool<resp>(), cppcms::mount_point("/resp"));
	srv.applications_pool().mount(cppcms::create_pool<resp>(), cppcms::mount_point("/aresp"), cppcms::app::asynchronous);
}
}
