// C20 correspondence harness, part 5: both mount lists of the applications pool behind the embedded HTTP server.
// A fresh cppcms::service with an http acceptor per case; applications are mounted while the service runs through
//   f : mount(std::unique_ptr<factory>, mount_point)                           (list apps, legacy synchronous pool, thread pool)
//   p : mount(shared_ptr<application_specific_pool>, mount_point, synchronous)  (list apps, thread pool)
//   y : mount(shared_ptr<application_specific_pool>, mount_point, asynchronous) (list apps, event loop)
//   a : mount(booster::intrusive_ptr<application>, mount_point)                 (list legacy_async_apps, event loop)
// and every request is a real HTTP/1.0 request: http_api.cpp process_request -> http_context.cpp on_headers_ready ->
// get_application_specific_pool -> submit_to_pool_internal -> pool->get -> context::dispatch -> application::main.
// A legacy application is destroyed by dropping the harness's reference inside the event loop (service::post).
//
// case:   F R<k> (<pattern token> <hex rewrite pattern> <final>)*k SN<j> <hex>*j N<n> (<kind> <mp> <app>)*n Q <op>*
//         op = m <i> | x <i> | u <i> | r <hex host> <hex uri> <hex method>
// answer: per op  m | x | u | 400 | 404 | F <hid> <n> <hex args>... | S<status> | TIMEOUT
//
// The same through the SCGI and FastCGI front ends (unix sockets; HTTP_HOST / SCRIPT_NAME / PATH_INFO / REQUEST_METHOD are
// what the web server sends, there is no rewriting, script-name splitting or url-decoding in between):
// case:   C N<n> (<kind> <mp> <app>)*n Q <op>*        op = m <i> | x <i> | u <i> | c <s|f> <hex host> <hex script> <hex path> <hex method>
#define C20_HTTP_NO_MAIN
#include "C20_http.cpp"
#include <future>
#include <sys/un.h>
#include <sys/stat.h>

// ---- SCGI / FastCGI clients ----
static int connect_unix(std::string const &path)
{
	int fd=::socket(AF_UNIX,SOCK_STREAM,0);
	sockaddr_un a; memset(&a,0,sizeof(a)); a.sun_family=AF_UNIX;
	strncpy(a.sun_path,path.c_str(),sizeof(a.sun_path)-1);
	if(::connect(fd,(sockaddr*)&a,sizeof(a))!=0) { ::close(fd); return -1; }
	return fd;
}
static bool send_all(int fd,std::string const &rq)
{
	size_t off=0;
	while(off<rq.size()) {
		ssize_t n=::send(fd,rq.data()+off,rq.size()-off,MSG_NOSIGNAL);
		if(n<=0) { if(n<0 && errno==EINTR) continue; return false; }
		off+=n;
	}
	return true;
}
// reads until EOF (SCGI) or until a complete END_REQUEST record has arrived (FastCGI)
static bool recv_reply(int fd,bool fcgi,std::string &buf)
{
	for(;;) {
		if(fcgi) {
			size_t off=0; bool done=false;
			while(off+8<=buf.size()) {
				unsigned char const *h=(unsigned char const *)buf.data()+off;
				size_t len=(h[4]<<8)|h[5], pad=h[6];
				if(off+8+len+pad>buf.size()) break;
				if(h[1]==3) { done=true; break; }
				off+=8+len+pad;
			}
			if(done) return true;
		}
		pollfd p; p.fd=fd; p.events=POLLIN; p.revents=0;
		int r=poll(&p,1,20000);
		if(r<=0) return false;
		char tmp[65536];
		ssize_t n=::recv(fd,tmp,sizeof(tmp),0);
		if(n<0) { if(errno==EINTR) continue; return !fcgi; }
		if(n==0) return !fcgi;
		buf.append(tmp,n);
	}
}
static std::string fcgi_len(size_t n)
{
	std::string r;
	if(n<128) { r+=char(n); return r; }
	r+=char(0x80|((n>>24)&0x7f)); r+=char((n>>16)&0xff); r+=char((n>>8)&0xff); r+=char(n&0xff);
	return r;
}
static std::string fcgi_rec(int type,std::string const &content)
{
	std::string r;
	r+=char(1); r+=char(type); r+=char(0); r+=char(1);
	r+=char((content.size()>>8)&0xff); r+=char(content.size()&0xff); r+=char(0); r+=char(0);
	return r+content;
}
static std::string cgi_answer(std::string const &text)
{
	int status=200;
	size_t he=text.find("\r\n\r\n");
	std::string head=he==std::string::npos?text:text.substr(0,he);
	std::string body=he==std::string::npos?std::string():text.substr(he+4);
	size_t sp=head.find("Status: ");
	if(sp!=std::string::npos && (sp==0 || head[sp-1]=='\n')) status=atoi(head.c_str()+sp+8);
	if(status==200) return body.empty()?"S200-EMPTY":body;
	if(status==400) return "400";
	if(status==404) return "404";
	std::ostringstream o; o<<"S"<<status; return o.str();
}
static std::string cgi_request(std::string const &sock,bool fcgi,std::string const &host,std::string const &script,std::string const &path,std::string const &method)
{
	std::vector<std::pair<std::string,std::string> > env;
	env.push_back(std::make_pair("CONTENT_LENGTH","0"));
	if(!fcgi) env.push_back(std::make_pair("SCGI","1"));
	env.push_back(std::make_pair("HTTP_HOST",host));
	env.push_back(std::make_pair("PATH_INFO",path));
	env.push_back(std::make_pair("REQUEST_METHOD",method));
	env.push_back(std::make_pair("SCRIPT_NAME",script));
	env.push_back(std::make_pair("SERVER_PROTOCOL","HTTP/1.0"));
	std::string rq;
	if(!fcgi) {
		std::string blob;
		for(size_t i=0;i<env.size();i++) { blob+=env[i].first; blob+='\0'; blob+=env[i].second; blob+='\0'; }
		std::ostringstream o; o<<blob.size()<<":"; rq=o.str()+blob+",";
	}
	else {
		std::string begin; begin+=char(0); begin+=char(1); begin+=char(0); begin.append(5,'\0');     // role responder, no keep-conn
		std::string blob;
		for(size_t i=0;i<env.size();i++) blob+=fcgi_len(env[i].first.size())+fcgi_len(env[i].second.size())+env[i].first+env[i].second;
		rq=fcgi_rec(1,begin)+fcgi_rec(4,blob)+fcgi_rec(4,"")+fcgi_rec(5,"");
	}
	for(int attempt=0;attempt<2;attempt++) {
		int fd=connect_unix(sock);
		if(fd<0) { usleep(20000); continue; }
		std::string buf;
		bool ok=send_all(fd,rq) && recv_reply(fd,fcgi,buf);
		::close(fd);
		if(!ok || buf.empty()) continue;
		if(!fcgi) return cgi_answer(buf);
		std::string text; size_t off=0;
		while(off+8<=buf.size()) {
			unsigned char const *h=(unsigned char const *)buf.data()+off;
			size_t len=(h[4]<<8)|h[5], pad=h[6];
			if(off+8+len+pad>buf.size()) break;
			if(h[1]==6) text.append(buf,off+8,len);
			off+=8+len+pad;
		}
		return cgi_answer(text);
	}
	return "TIMEOUT";
}

struct CgiServer {
	std::string dir, scgi, fcgi;
	cppcms::service *srv;
	std::thread *th;
	CgiServer() : srv(0), th(0) {}
	void start()
	{
		static int counter=0;
		std::ostringstream d; d<<"/tmp/C20-cgi-"<<getpid()<<"-"<<(counter++);
		dir=d.str();
		mkdir(dir.c_str(),0700);
		scgi=dir+"/s.sock"; fcgi=dir+"/f.sock";
		cppcms::json::value cfg;
		cfg["service"]["list"][0]["api"]="scgi";
		cfg["service"]["list"][0]["socket"]=scgi;
		cfg["service"]["list"][1]["api"]="fastcgi";
		cfg["service"]["list"][1]["socket"]=fcgi;
		cfg["service"]["worker_threads"]=1;
		cfg["localization"]["locales"][0]="en_US.ISO-8859-1";
		cfg["logging"]["level"]="emergency";
		cfg["misc"]["invalid_url_throws"]=true;
		srv=new cppcms::service(cfg);
		cppcms::service *s=srv;
		bool *failed=new bool(false);
		th=new std::thread([s,failed]() { try { s->run(); } catch(std::exception const &) { *failed=true; } });
		bool up=false;
		for(int i=0;i<2000 && !*failed;i++) {
			int fd=connect_unix(fcgi);
			if(fd>=0) { ::close(fd); up=true; break; }
			usleep(2000);
		}
		if(!up) { cleanup(); throw std::runtime_error("cgi service did not come up"); }
	}
	void join() { if(srv) srv->shutdown(); if(th) { th->join(); delete th; th=0; } }
	void cleanup()
	{
		join();
		delete srv; srv=0;
		::unlink(scgi.c_str()); ::unlink(fcgi.c_str()); ::rmdir(dir.c_str());
	}
};

static std::vector<char> g_requested;

class HNode : public Node {
public:
	int mount_idx;
	HNode(cppcms::service &srv,AppD const &d,int i) : Node(srv,d), mount_idx(i) { http_root=true; }
	virtual void main(std::string url)
	{
		if(mount_idx>=0 && size_t(mount_idx)<g_requested.size()) g_requested[mount_idx]=1;
		Node::main(url);
	}
};
class HFactory : public cppcms::applications_pool::factory {
public:
	AppD desc; int idx;
	HFactory(AppD const &d,int i) : desc(d), idx(i) {}
	virtual std::unique_ptr<cppcms::application> operator()(cppcms::service &srv) const
	{
		return std::unique_ptr<cppcms::application>(new HNode(srv,desc,idx));
	}
};
class HPool : public cppcms::application_specific_pool {
public:
	AppD desc; int idx;
	HPool(AppD const &d,int i) : desc(d), idx(i) {}
	virtual cppcms::application *new_application(cppcms::service &srv) { return new HNode(srv,desc,idx); }
};

struct HMount {
	char kind;
	cppcms::mount_point mp;
	AppD desc;
	bool mounted, dead;
	booster::shared_ptr<cppcms::application_specific_pool> pool;
	booster::intrusive_ptr<cppcms::application> app;
	HMount() : kind('p'), mounted(false), dead(false) {}
};

struct drop_ref {
	booster::intrusive_ptr<cppcms::application> *p;
	std::promise<void> *done;
	void operator()() const { *p=0; done->set_value(); }
};

static std::string run_lists_server(Toks &t,bool cgi)
{
	cppcms::json::array rules;
	std::vector<std::string> names;
	if(!cgi) {
		int k=t.counted('R');
		for(int i=0;i<k;i++) {
			std::string ptok=t.next(), pat=t.next(), fin=t.next();
			size_t p=ptok.find(':'); if(p==std::string::npos) throw std::runtime_error("abstract pattern");
			cppcms::json::value r;
			r["regex"]=unhex(ptok.substr(0,p));
			r["pattern"]=unhex(pat);
			r["final"]=(fin=="1");
			rules.push_back(r);
		}
		std::string sn=t.next();
		if(sn.size()<3 || sn.substr(0,2)!="SN") throw std::runtime_error("SN");
		int j=atoi(sn.c_str()+2);
		for(int i=0;i<j;i++) names.push_back(unhex(t.next()));
	}
	int n=t.counted('N');
	std::vector<HMount> ms(n);
	for(int i=0;i<n;i++) {
		ms[i].kind=t.next()[0];
		t.expect("{");
		std::string htok=t.next(), stok=t.next(), ptok=t.next();
		int g=t.num();
		std::string sel=t.next();
		t.expect("}");
		ms[i].mp=make_mp(htok,stok,ptok,g,sel);
		ms[i].desc=parse_app(t);
	}
	t.expect("Q");
	g_requested.assign(n,0);
	Server sv;
	CgiServer cs;
	if(cgi) cs.start();
	else {
		try { sv.start("F",rules,names); }
		catch(cppcms::cppcms_error const &) { sv.stop(); return "CONSTRUCT-ERROR"; }
		catch(booster::regex_error const &) { sv.stop(); return "REGEX-ERROR"; }
	}
	cppcms::service &srv=cgi?*cs.srv:*sv.srv;
	std::ostringstream out;
	bool first=true;
	std::string failure;
	try {
		while(!t.end()) {
			std::string q=t.next();
			std::string r;
			if(q=="m") {
				int i=t.num();
				if(i<0||i>=n||ms[i].mounted) throw unsupported("mount index");
				HMount &m=ms[i];
				switch(m.kind) {
				case 'f': srv.applications_pool().mount(std::unique_ptr<cppcms::applications_pool::factory>(new HFactory(m.desc,i)),m.mp); break;
				case 'p': m.pool.reset(new HPool(m.desc,i)); srv.applications_pool().mount(m.pool,m.mp,cppcms::app::synchronous); break;
				case 'y': m.pool.reset(new HPool(m.desc,i)); srv.applications_pool().mount(m.pool,m.mp,cppcms::app::asynchronous); break;
				case 'a': m.app=new HNode(srv,m.desc,i); srv.applications_pool().mount(m.app,m.mp); break;
				default: throw unsupported("mount kind");
				}
				m.mounted=true;
				r="m";
			}
			else if(q=="x") {
				int i=t.num();
				if(i<0||i>=n||ms[i].kind!='a'||!ms[i].mounted||ms[i].dead) throw unsupported("kill index");
				if(!g_requested[i]) throw unsupported("kill before the first request");
				std::promise<void> done;
				drop_ref d={ &ms[i].app, &done };
				srv.post(d);
				done.get_future().wait();
				ms[i].dead=true;
				r="x";
			}
			else if(q=="u") {
				int i=t.num();
				if(i<0||i>=n||(ms[i].kind!='p'&&ms[i].kind!='y')||!ms[i].mounted) throw unsupported("unmount index");
				srv.applications_pool().unmount(ms[i].pool);
				r="u";
			}
			else if(q=="r" && !cgi) {
				std::string h=t.hexs(), uri=t.hexs(), m=t.hexs();
				r=request(sv.port,h,uri,m);
			}
			else if(q=="c" && cgi) {
				std::string api=t.next();
				std::string h=t.hexs(), sc=t.hexs(), p=t.hexs(), m=t.hexs();
				r=cgi_request(api=="f"?cs.fcgi:cs.scgi,api=="f",h,sc,p,m);
			}
			else throw std::runtime_error("op "+q);
			if(!first) out<<" | ";
			first=false;
			out<<r;
		}
	}
	catch(unsupported const &e) { failure=std::string("UNSUPPORTED-HARNESS ")+e.what(); }
	catch(std::exception const &e) { failure=std::string("HARNESS-EXN ")+e.what(); }
	// stop the event loop, then the applications (they refer to the service), the pools, and finally the service
	if(cgi) cs.join();
	else {
		sv.srv->shutdown();
		sv.th->join();
		delete sv.th; sv.th=0;
	}
	for(int i=0;i<n;i++) ms[i].app=0;
	for(int i=0;i<n;i++) if(ms[i].pool) { srv.applications_pool().unmount(ms[i].pool); ms[i].pool.reset(); }
	if(cgi) cs.cleanup();
	else { delete sv.srv; sv.srv=0; }
	// the answers given before the operation that could not be run stay visible
	if(!failure.empty()) return out.str().empty()?failure:out.str()+" | "+failure;
	return out.str();
}

int main()
{
	signal(SIGPIPE,SIG_IGN);
	std::string line;
	while(std::getline(std::cin,line)) {
		std::vector<std::string> v=split(line);
		std::string r;
		try {
			Toks t(v);
			std::string kind=t.next();
			if(kind=="F") r=run_lists_server(t,false);
			else if(kind=="C") r=run_lists_server(t,true);
			else r="BAD-CASE";
		}
		catch(std::exception const &e) { r=std::string("HARNESS-EXN ")+e.what(); }
		std::cout<<r<<std::endl;
	}
	return 0;
}
